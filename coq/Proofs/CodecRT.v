(** C26: round trips. encoding/binary: Uvarint (PutUvarint x ++ rest) = (x, len); then each reader
    primitive on its encoder's output, the loops by induction over the element lists, the three codecs. *)
From ZV Require Import Lib.Base Model.Codec Proofs.CodecCost.
From Coq Require Import ZifyBool ZifyNat ZifyN.
Open Scope N_scope.

(** ---- bits *)
Lemma split7 x : N.lor (x mod 128) (N.shiftl (x / 128) 7) = x.
Proof.
  apply N.bits_inj. intros n. rewrite N.lor_spec.
  change 128 with (2 ^ 7).
  destruct (N.ltb n 7) eqn:E.
  - apply N.ltb_lt in E. rewrite N.mod_pow2_bits_low by exact E.
    rewrite N.shiftl_spec_low by exact E. apply orb_false_r.
  - apply N.ltb_ge in E. rewrite N.mod_pow2_bits_high by exact E.
    rewrite N.shiftl_spec_high' by exact E. rewrite <- N.shiftr_div_pow2, N.shiftr_spec'.
    cbn. f_equal. lia.
Qed.

Lemma land127 x : N.land (x mod 128 + 128) 127 = x mod 128.
Proof.
  change 127 with (N.ones 7). rewrite N.land_ones. change (2 ^ 7) with 128.
  rewrite <- N.add_mod_idemp_r by lia. change (128 mod 128) with 0. rewrite N.add_0_r.
  apply N.mod_mod. lia.
Qed.

Lemma lor_step acc x s :
  N.lor (N.lor acc (N.shiftl (x mod 128) s)) (N.shiftl (x / 128) (s + 7)) = N.lor acc (N.shiftl x s).
Proof.
  rewrite <- N.lor_assoc. f_equal.
  rewrite (N.add_comm s 7), <- N.shiftl_shiftl, <- N.shiftl_lor. f_equal. apply split7.
Qed.

(** ---- Uvarint after PutUvarint *)
Lemma put_f_len : forall f x, (1 <= f)%nat -> (1 <= length (put_uvarint_f f x) <= f)%nat.
Proof.
  induction f as [|f IH]; intros x H; [lia|]. cbn [put_uvarint_f].
  destruct (x <? 128); cbn [length]; [lia|].
  destruct f as [|f']; [cbn; lia|]. specialize (IH (x / 128) ltac:(lia)). lia.
Qed.

Lemma put_f_S f x :
  put_uvarint_f (S f) x = if x <? 128 then [x] else (x mod 128 + 128) :: put_uvarint_f f (x / 128).
Proof. reflexivity. Qed.

Lemma uv_put : forall f x i k acc s rest,
  (i + S f = 10)%nat -> (7 * i + k = 64)%nat -> x < 2 ^ N.of_nat k -> s = N.of_nat (7 * i) ->
  uv_loop (put_uvarint_f (S f) x ++ rest) i acc s
  = (N.lor acc (N.shiftl x s), Z.of_nat (i + length (put_uvarint_f (S f) x))).
Proof.
  induction f as [|f IH]; intros x i k acc s rest Hi Hk Hx Hs.
  - (* i = 9, k = 1, x <= 1 *)
    assert (i = 9%nat) by lia. assert (k = 1%nat) by lia. subst i k. change (2 ^ N.of_nat 1) with 2 in Hx.
    rewrite put_f_S. replace (x <? 128) with true by lia. cbn [app uv_loop length].
    replace (x <? 128) with true by lia. replace (1 <? x) with false by lia. cbn. reflexivity.
  - rewrite (put_f_S (S f) x). destruct (x <? 128) eqn:E.
    + cbn [app uv_loop length]. rewrite E.
      replace (Nat.eqb i 10) with false by lia.
      destruct (Nat.eqb i 9) eqn:E9.
      * assert (i = 9%nat) by lia. lia.
      * cbn. reflexivity.
    + change ((x mod 128 + 128) :: put_uvarint_f (S f) (x / 128)) with ([x mod 128 + 128] ++ put_uvarint_f (S f) (x / 128)).
      rewrite <- app_assoc. cbn [app uv_loop].
      replace (Nat.eqb i 10) with false by lia.
      replace (x mod 128 + 128 <? 128) with false by lia.
      assert (Hk8 : (8 <= k)%nat).
      { destruct (Nat.ltb k 8) eqn:Ek; [|lia]. exfalso.
        assert (k <= 7)%nat by lia.
        assert (2 ^ N.of_nat k <= 2 ^ 7) by (apply N.pow_le_mono_r; lia). change (2 ^ 7) with 128 in *. lia. }
      rewrite (IH (x / 128) (S i) (k - 7)%nat); try lia.
      * rewrite land127, lor_step. f_equal. cbn [length]. lia.
      * apply N.div_lt_upper_bound; [lia|].
        replace (N.of_nat k) with (7 + N.of_nat (k - 7)) in Hx by lia.
        rewrite N.pow_add_r in Hx. exact Hx.
Qed.

Lemma uvarint_put x rest : x < 2 ^ 64 ->
  uvarint (put_uvarint x ++ rest) = (x, Z.of_nat (length (put_uvarint x))).
Proof.
  intros H. unfold uvarint, put_uvarint.
  rewrite (uv_put 9 x 0 64 0 0 rest); try lia; try exact H.
  rewrite N.shiftl_0_r, N.lor_0_l. reflexivity.
Qed.

Lemma put_len x : (1 <= length (put_uvarint x) <= 10)%nat.
Proof. apply put_f_len. lia. Qed.

(** ---- reader computations on encoder output *)
Ltac Zify.zify_post_hook ::= Z.div_mod_to_equations.

Definition reads {A} (m : M A) (pre : bytes) (v : A) : Prop :=
  forall rest s, buf s = pre ++ rest -> exists s', m s = (Ok v, s') /\ buf s' = rest.

Lemma reads_eq {A} (m : M A) p p' v : reads m p v -> p = p' -> reads m p' v.
Proof. intros H E; subst; exact H. Qed.

Lemma reads_val {A} (m : M A) p v v' : reads m p v -> v = v' -> reads m p v'.
Proof. intros H E; subst; exact H. Qed.

Lemma reads_bind {A X} (m : M A) (f : A -> M X) p1 p2 v w :
  reads m p1 v -> reads (f v) p2 w -> reads (bind m f) (p1 ++ p2) w.
Proof.
  intros Hm Hf rest s Hs. rewrite <- app_assoc in Hs. destruct (Hm _ _ Hs) as (s1 & E1 & B1).
  unfold bind. rewrite E1. apply Hf; exact B1.
Qed.

Lemma reads_ret {A} (a : A) : reads (ret a) [] a.
Proof. intros rest s Hs. exists s. split; [reflexivity | exact Hs]. Qed.

Lemma reads_lift {A} (a : A) : reads (lift (Ok a)) [] a.
Proof. intros rest s Hs. exists s. split; [reflexivity | exact Hs]. Qed.

Lemma reads_alloc n : reads (m_alloc n) [] tt.
Proof. intros rest s Hs. eexists. split; [reflexivity | exact Hs]. Qed.

Lemma skipn_len_app {A} (p r : list A) : skipn (length p) (p ++ r) = r.
Proof. rewrite skipn_app, skipn_all, Nat.sub_diag. reflexivity. Qed.
Lemma firstn_len_app {A} (p r : list A) : firstn (length p) (p ++ r) = p.
Proof. rewrite firstn_app, firstn_all, Nat.sub_diag. cbn. apply app_nil_r. Qed.

Lemma reads_uvarint x : x < 2 ^ 64 -> reads r_uvarint (put_uvarint x) (to_int x).
Proof.
  intros H rest s Hs. rewrite r_uvarint_eq. cbv zeta. rewrite Hs, uvarint_put by exact H. cbn [fst snd].
  pose proof (put_len x) as L.
  replace (Z.of_nat (length (put_uvarint x)) <=? 0)%Z with false by lia.
  unfold go_slice_from. rewrite app_length.
  replace ((Z.of_nat (length (put_uvarint x)) <? 0)%Z
           || (Z.of_nat (length (put_uvarint x) + length rest) <? Z.of_nat (length (put_uvarint x)))%Z)%bool with false by lia.
  rewrite Nat2Z.id, skipn_len_app. eexists. split; reflexivity.
Qed.

Lemma reads_byt x : reads r_byt [x] x.
Proof.
  intros rest s Hs. unfold r_byt, bind, m_tick, m_get, m_put, ret. cbn. rewrite Hs. cbn.
  eexists. split; reflexivity.
Qed.

Lemma to_int_small n : N.of_nat n < 2 ^ 63 -> to_int (N.of_nat n) = Z.of_nat n.
Proof.
  intros H. unfold to_int, two63. change (2 ^ 63) with 9223372036854775808 in H.
  replace (Z.of_N (N.of_nat n) <? 9223372036854775808)%Z with true by lia. lia.
Qed.

Lemma length_reads n rest s :
  buf s = put_uvarint (N.of_nat n) ++ rest -> N.of_nat n < 2 ^ 63 -> (n <= length rest)%nat ->
  exists s', r_length s = (Ok (Z.of_nat n), s') /\ buf s' = rest.
Proof.
  intros Hs Hn Hl.
  assert (H64 : N.of_nat n < 2 ^ 64) by (change (2 ^ 63) with 9223372036854775808 in Hn; change (2 ^ 64) with 18446744073709551616; lia).
  destruct (reads_uvarint _ H64 rest s Hs) as (s1 & E1 & B1).
  unfold r_length, bind. rewrite E1. unfold m_get. cbn. rewrite to_int_small by exact Hn. rewrite B1.
  replace ((Z.of_nat n <? 0)%Z || (Z.of_nat (length rest) <? Z.of_nat n)%Z)%bool with false by lia.
  cbn. eexists. split; [reflexivity | exact B1].
Qed.

Lemma reads_len_then {X} n (f : Z -> M X) p w :
  N.of_nat n < 2 ^ 63 -> (n <= length p)%nat -> reads (f (Z.of_nat n)) p w ->
  reads (bind r_length f) (put_uvarint (N.of_nat n) ++ p) w.
Proof.
  intros Hn Hl Hf rest s Hs. rewrite <- app_assoc in Hs.
  destruct (length_reads n (p ++ rest) s Hs Hn) as (s1 & E1 & B1); [rewrite app_length; lia|].
  unfold bind. rewrite E1. apply Hf. exact B1.
Qed.

Lemma reads_count_then {X} n (f : Z -> M X) p w :
  N.of_nat n < 2 ^ 63 -> (n <= length p)%nat -> reads (f (Z.of_nat n)) p w ->
  reads (bind r_count f) (put_uvarint (N.of_nat n) ++ p) w.
Proof.
  intros Hn Hl Hf rest s Hs. rewrite <- app_assoc in Hs.
  destruct (length_reads n (p ++ rest) s Hs Hn) as (s1 & E1 & B1); [rewrite app_length; lia|].
  unfold bind at 1. unfold r_count, bind at 1. rewrite E1.
  unfold m_make, bind, lift, go_make, m_alloc, ret. replace (Z.of_nat n <? 0)%Z with false by lia.
  cbn. apply Hf. cbn. exact B1.
Qed.

Definition wf_bytes (s : bytes) : Prop := nlen s < 2 ^ 63.

Lemma reads_str s0 : wf_bytes s0 -> reads r_str (enc_str s0) s0.
Proof.
  intros H. unfold r_str, enc_str, nlen.
  apply reads_len_then; [exact H | lia |].
  intros rest s Hs. unfold bind, m_get, lift, go_slice_to, m_put, ret. cbn. rewrite Hs, app_length.
  replace ((Z.of_nat (length s0) <? 0)%Z || (Z.of_nat (length s0 + length rest) <? Z.of_nat (length s0))%Z)%bool with false by lia.
  cbn. rewrite Nat2Z.id, firstn_len_app, skipn_len_app. eexists. split; reflexivity.
Qed.

Lemma concat_len_ge {A} (f : A -> bytes) (l : list A) :
  (forall x, 1 <= length (f x))%nat -> (length l <= length (concat (map f l)))%nat.
Proof.
  intros H. induction l as [|a l IH]; cbn; [lia|]. rewrite app_length. specialize (H a). lia.
Qed.

Lemma enc_str_len s0 : (1 <= length (enc_str s0))%nat.
Proof. unfold enc_str. rewrite app_length. pose proof (put_len (nlen s0)). lia. Qed.

(** ---- FileNameSet *)
Lemma reads_rd_strs : forall l acc, Forall wf_bytes l ->
  reads (rd_strs (length l) acc) (concat (map enc_str l)) (acc ++ l).
Proof.
  induction l as [|a l IH]; intros acc H; cbn [length rd_strs map concat].
  - rewrite app_nil_r. apply reads_ret.
  - inversion H as [|? ? Ha Hl]; subst.
    apply reads_bind with (v := a); [apply reads_str, Ha|].
    replace (acc ++ a :: l) with ((acc ++ [a]) ++ l) by (rewrite <- app_assoc; reflexivity).
    apply (IH (acc ++ [a]) Hl).
Qed.

Lemma run_reads {A} (m : M A) (p : bytes) (v : A) : reads m p v -> fst (run m p) = Ok v.
Proof.
  intros H. unfold run. destruct (H [] (mkst p 0 (length p))) as (s' & E & _); [cbn; symmetry; apply app_nil_r|].
  rewrite E. reflexivity.
Qed.

Definition wf_set (l : list bytes) : Prop := nlen l < 2 ^ 63 /\ Forall wf_bytes l.

Lemma dec_set_enc l : wf_set l -> dec_set (enc_set l) = Ok l.
Proof.
  intros [Hn Hl]. unfold dec_set. apply run_reads. unfold dec_set_m, enc_set.
  change (1 :: put_uvarint (nlen l) ++ concat (map enc_str l)) with ([1] ++ (put_uvarint (nlen l) ++ concat (map enc_str l))).
  apply reads_bind with (v := 1); [apply reads_byt|]. cbn [N.eqb Pos.eqb negb].
  apply reads_count_then; [exact Hn | apply concat_len_ge, enc_str_len |].
  rewrite Nat2Z.id. apply (reads_rd_strs l [] Hl).
Qed.

(** ---- BranchesRepos: [ser] is the bitmap serialiser (WriteTo), [bm] the deserialiser (FromBuffer) *)
Section BR.
Context {T : Type} (ser : T -> bytes) (bm : bytes -> outcome T).
Definition wf_br (l : list (bytes * T)) : Prop :=
  nlen l < 2 ^ 63 /\ Forall (fun p => wf_bytes (fst p) /\ wf_bytes (ser (snd p)) /\ bm (ser (snd p)) = Ok (snd p)) l.
Definition ser_br (l : list (bytes * T)) : list (bytes * bytes) := map (fun p => (fst p, ser (snd p))) l.

Lemma reads_rd_brs : forall l acc,
  Forall (fun p => wf_bytes (fst p) /\ wf_bytes (ser (snd p)) /\ bm (ser (snd p)) = Ok (snd p)) l ->
  reads (rd_brs bm (length l) acc) (concat (map (fun p => enc_str (fst p) ++ enc_str (snd p)) (ser_br l))) (acc ++ l).
Proof.
  induction l as [|a l IH]; intros acc H; cbn [length rd_brs map concat ser_br].
  - rewrite app_nil_r. apply reads_ret.
  - inversion H as [|? ? (Ha1 & Ha2 & Ha3) Hl]; subst. cbn [fst snd].
    rewrite <- app_assoc.
    apply reads_bind with (v := fst a); [apply reads_str, Ha1|].
    apply reads_bind with (v := snd a).
    + unfold r_bitmap. eapply reads_eq; [apply reads_bind with (v := ser (snd a)); [apply reads_str, Ha2|]|apply app_nil_r].
      rewrite Ha3. apply reads_lift.
    + replace (acc ++ a :: l) with ((acc ++ [(fst a, snd a)]) ++ l) by (rewrite <- app_assoc; destruct a; reflexivity).
      apply (IH _ Hl).
Qed.

Lemma dec_br_enc l : wf_br l -> dec_br bm (enc_br (ser_br l)) = Ok l.
Proof.
  intros [Hn Hl]. unfold dec_br. apply run_reads. unfold dec_br_m, enc_br.
  match goal with |- reads _ (1 :: ?p) _ => change (1 :: p) with ([1] ++ p) end.
  apply reads_bind with (v := 1); [apply reads_byt|]. cbn [N.eqb Pos.eqb negb].
  assert (E : nlen (ser_br l) = N.of_nat (length l)) by (unfold nlen, ser_br; rewrite map_length; reflexivity).
  rewrite E.
  apply reads_count_then; [exact Hn | |].
  - rewrite <- (map_length (fun p => (fst p, ser (snd p))) l). apply concat_len_ge.
    intros x. rewrite app_length. pose proof (enc_str_len (fst x)). lia.
  - rewrite Nat2Z.id. apply (reads_rd_brs l [] Hl).
Qed.
End BR.

(** ---- ReposMap *)
Definition wf_branch (b : branch) : Prop := wf_bytes (fst b) /\ wf_bytes (snd b).
Definition wf_entry (e : N * rentry) : Prop :=
  let '(id, (hs, it, brs)) := e in
  id < 2 ^ 32 /\ (- two63 <= it < two63)%Z /\ nlen brs < 2 ^ 63 /\ Forall wf_branch brs.
Definition wf_repos (l : list (N * rentry)) : Prop :=
  nlen l < 2 ^ 63 /\ N.of_nat (all_branches l) < 2 ^ 63 /\ Forall wf_entry l.

Lemma reads_branch b : wf_branch b -> reads r_branch (enc_branch b) b.
Proof.
  intros [H1 H2]. unfold r_branch, enc_branch.
  apply reads_bind with (v := fst b); [apply reads_str, H1|].
  eapply reads_eq; [apply reads_bind with (v := snd b); [apply reads_str, H2|]|apply app_nil_r].
  eapply reads_eq; [apply reads_bind with (v := tt); [apply reads_alloc|]|apply app_nil_r].
  destruct b. apply reads_ret.
Qed.

Lemma reads_rd_branches : forall l all, Forall wf_branch l ->
  reads (rd_branches (length l) all) (concat (map enc_branch l)) (all ++ l).
Proof.
  induction l as [|a l IH]; intros all H; cbn [length rd_branches map concat].
  - rewrite app_nil_r. apply reads_ret.
  - inversion H as [|? ? Ha Hl]; subst.
    apply reads_bind with (v := a); [apply reads_branch, Ha|].
    replace (all ++ a :: l) with ((all ++ [a]) ++ l) by (rewrite <- app_assoc; reflexivity).
    apply (IH (all ++ [a]) Hl).
Qed.

Lemma to_int_of_int it : (- two63 <= it < two63)%Z -> to_int (of_int it) = it.
Proof.
  unfold to_int, of_int, two63, two64. intros H.
  rewrite Z2N.id by lia.
  destruct (it mod 18446744073709551616 <? 9223372036854775808)%Z eqn:E; lia.
Qed.

Lemma of_int_lt it : of_int it < 2 ^ 64.
Proof. unfold of_int, two64. change (2 ^ 64) with 18446744073709551616. lia. Qed.

Lemma to_u32_id id : id < 2 ^ 32 -> to_u32 (to_int id) = id.
Proof.
  intros H. change (2 ^ 32) with 4294967296 in H. unfold to_u32, to_int, two63.
  replace (Z.of_N id <? 9223372036854775808)%Z with true by lia.
  rewrite Z.mod_small by lia. lia.
Qed.

Lemma enc_branch_len b : (1 <= length (enc_branch b))%nat.
Proof. unfold enc_branch. rewrite app_length. pose proof (enc_str_len (fst b)). lia. Qed.

Lemma reads_rd_entries : forall l all m, Forall wf_entry l ->
  reads (rd_entries (length l) true all m) (concat (map enc_entry l)) (m ++ l).
Proof.
  induction l as [|e l IH]; intros all m H; cbn [length rd_entries map concat].
  - rewrite app_nil_r. apply reads_ret.
  - inversion H as [|? ? He Hl]; subst. destruct e as [id [[hs it] brs]].
    destruct He as (Hid & Hit & Hnb & Hbrs). unfold enc_entry.
    repeat rewrite <- app_assoc.
    apply reads_bind with (v := to_int id).
    { apply reads_uvarint. change (2 ^ 32) with 4294967296 in Hid. change (2 ^ 64) with 18446744073709551616. lia. }
    match goal with |- reads _ ([?b] ++ _) _ => apply reads_bind with (v := b); [apply reads_byt|] end.
    apply reads_bind with (v := to_int (of_int it)); [apply reads_uvarint, of_int_lt|].
    apply reads_len_then; [exact Hnb | rewrite app_length; pose proof (concat_len_ge enc_branch brs enc_branch_len); lia |].
    rewrite Nat2Z.id.
    apply reads_bind with (v := all ++ brs); [apply reads_rd_branches, Hbrs|].
    eapply reads_eq; [apply reads_bind with (v := brs) (p1 := [])|reflexivity].
    + unfold go_slice_from. rewrite app_length.
      replace ((Z.of_nat (length all + length brs) - Z.of_nat (length brs) <? 0)%Z
               || (Z.of_nat (length all + length brs) <? Z.of_nat (length all + length brs) - Z.of_nat (length brs))%Z)%bool
        with false by lia.
      replace (Z.to_nat (Z.of_nat (length all + length brs) - Z.of_nat (length brs))) with (length all) by lia.
      rewrite skipn_len_app. apply reads_lift.
    + rewrite to_u32_id by exact Hid. rewrite to_int_of_int by exact Hit.
      replace ((if hs then 1 else 0) =? 1) with hs by (destruct hs; reflexivity).
      eapply reads_val; [apply (IH _ _ Hl) | rewrite <- app_assoc; reflexivity].
Qed.

Lemma enc_entry_len e : (1 <= length (enc_entry e))%nat /\ (length (snd (snd e)) <= length (enc_entry e))%nat.
Proof.
  destruct e as [id [[hs it] brs]]. unfold enc_entry. cbn [snd]. cbv beta iota. repeat rewrite app_length. cbn [length].
  pose proof (put_len id). pose proof (concat_len_ge enc_branch brs enc_branch_len) as H0.
  split; [lia | eapply Nat.le_trans; [exact H0 | lia]].
Qed.

Lemma all_branches_le l : (all_branches l <= length (concat (map enc_entry l)))%nat.
Proof.
  unfold all_branches. induction l as [|e l IH]; cbn [fold_right map concat length]; [lia|].
  rewrite app_length. pose proof (enc_entry_len e) as [_ H]. apply Nat.add_le_mono; [exact H | exact IH].
Qed.

Lemma dec_repos_enc l : wf_repos l -> dec_repos (enc_repos (Some l)) = Ok (Some l).
Proof.
  intros (Hn & Ha & Hl). unfold dec_repos, run, dec_repos_m, enc_repos.
  unfold bind at 1. unfold m_get at 1. cbn [buf].
  match goal with |- fst (?m ?s) = _ => change (fst (m s)) with (fst (run m (buf s))) end.
  cbn [buf]. apply run_reads.
  match goal with |- reads _ (2 :: ?p) _ => change (2 :: p) with ([2] ++ p) end.
  apply reads_bind with (v := 2); [apply reads_byt|]. cbn [N.eqb Pos.eqb negb orb].
  apply reads_count_then; [exact Hn | |].
  { rewrite app_length. pose proof (concat_len_ge enc_entry l (fun e => proj1 (enc_entry_len e))). lia. }
  apply reads_count_then; [exact Ha | apply all_branches_le |].
  rewrite Nat2Z.id.
  eapply reads_eq; [apply reads_bind with (v := l); [apply (reads_rd_entries l [] [] Hl)|apply reads_ret]|apply app_nil_r].
Qed.

Lemma dec_repos_enc_nil : dec_repos (enc_repos None) = Ok None.
Proof. reflexivity. Qed.

(** ---- version 1 encodings are still read, with IndexTimeUnix = 0 *)
Lemma reads_rd_entries_v1 : forall l all m, Forall wf_entry l ->
  reads (rd_entries (length l) false all m) (concat (map enc_entry_v1 l)) (m ++ map drop_time l).
Proof.
  induction l as [|e l IH]; intros all m H; cbn [length rd_entries map concat].
  - rewrite app_nil_r. apply reads_ret.
  - inversion H as [|? ? He Hl]; subst. destruct e as [id [[hs it] brs]].
    destruct He as (Hid & Hit & Hnb & Hbrs). unfold enc_entry_v1.
    repeat rewrite <- app_assoc.
    apply reads_bind with (v := to_int id).
    { apply reads_uvarint. change (2 ^ 32) with 4294967296 in Hid. change (2 ^ 64) with 18446744073709551616. lia. }
    match goal with |- reads _ ([?b] ++ _) _ => apply reads_bind with (v := b); [apply reads_byt|] end.
    eapply reads_eq; [apply reads_bind with (v := 0%Z) (p1 := []); [apply reads_ret|]|reflexivity].
    apply reads_len_then; [exact Hnb | rewrite app_length; pose proof (concat_len_ge enc_branch brs enc_branch_len); lia |].
    rewrite Nat2Z.id.
    apply reads_bind with (v := all ++ brs); [apply reads_rd_branches, Hbrs|].
    eapply reads_eq; [apply reads_bind with (v := brs) (p1 := [])|reflexivity].
    + unfold go_slice_from. rewrite app_length.
      replace ((Z.of_nat (length all + length brs) - Z.of_nat (length brs) <? 0)%Z
               || (Z.of_nat (length all + length brs) <? Z.of_nat (length all + length brs) - Z.of_nat (length brs))%Z)%bool
        with false by lia.
      replace (Z.to_nat (Z.of_nat (length all + length brs) - Z.of_nat (length brs))) with (length all) by lia.
      rewrite skipn_len_app. apply reads_lift.
    + rewrite to_u32_id by exact Hid.
      replace ((if hs then 1 else 0) =? 1) with hs by (destruct hs; reflexivity).
      eapply reads_val; [apply (IH _ _ Hl) | rewrite <- app_assoc; reflexivity].
Qed.

Lemma enc_entry_v1_len e : (1 <= length (enc_entry_v1 e))%nat /\ (length (snd (snd e)) <= length (enc_entry_v1 e))%nat.
Proof.
  destruct e as [id [[hs it] brs]]. unfold enc_entry_v1. cbn [snd]. cbv beta iota. repeat rewrite app_length. cbn [length].
  pose proof (put_len id). pose proof (concat_len_ge enc_branch brs enc_branch_len) as H0.
  split; [lia | eapply Nat.le_trans; [exact H0 | lia]].
Qed.

Lemma all_branches_le_v1 l : (all_branches l <= length (concat (map enc_entry_v1 l)))%nat.
Proof.
  unfold all_branches. induction l as [|e l IH]; cbn [fold_right map concat length]; [lia|].
  rewrite app_length. pose proof (enc_entry_v1_len e) as [_ H]. apply Nat.add_le_mono; [exact H | exact IH].
Qed.

Lemma dec_repos_enc_v1 l : wf_repos l -> dec_repos (enc_repos_v1 l) = Ok (Some (map drop_time l)).
Proof.
  intros (Hn & Ha & Hl). unfold dec_repos, run, dec_repos_m, enc_repos_v1.
  unfold bind at 1. unfold m_get at 1. cbn [buf].
  match goal with |- fst (?m ?s) = _ => change (fst (m s)) with (fst (run m (buf s))) end.
  cbn [buf]. apply run_reads.
  match goal with |- reads _ (1 :: ?p) _ => change (1 :: p) with ([1] ++ p) end.
  apply reads_bind with (v := 1); [apply reads_byt|]. cbn [N.eqb Pos.eqb negb orb].
  apply reads_count_then; [exact Hn | |].
  { rewrite app_length. pose proof (concat_len_ge enc_entry_v1 l (fun e => proj1 (enc_entry_v1_len e))). lia. }
  apply reads_count_then; [exact Ha | apply all_branches_le_v1 |].
  rewrite Nat2Z.id.
  eapply reads_eq; [apply reads_bind with (v := map drop_time l); [apply (reads_rd_entries_v1 l [] [] Hl)|apply reads_ret]|apply app_nil_r].
Qed.
