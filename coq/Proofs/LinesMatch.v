(** C03 — line matches: breakMatchesOnNewlines, fillContentMatches, fillMatches. *)
From ZV Require Import Lib.Base Lib.GoSearch Lib.RuneCount Model.Lines Proofs.LinesBasic.
From Coq Require Import ZifyBool ZifyNat Sorting.Sorted.

(** ---- hypotheses on candidate lists (what gatherMatches guarantees, see C02) *)
Definition no_nl (c : list N) (m : cand) : Prop :=
  forall p, c_off m <= p < c_end m -> nth_error c p <> Some 10%N.
(** a non-empty in-bounds candidate *)
Definition cand_ok (c : list N) (m : cand) : Prop := 0 < c_sz m /\ c_end m <= length c.
(** a piece as produced by breakMatchesOnNewlines *)
Definition piece_ok (c : list N) (m : cand) : Prop := cand_ok c m /\ no_nl c m.
(** sorted by offset and non-overlapping *)
Definition disjoint_sorted (ms : list cand) : Prop := StronglySorted (fun a b => c_end a <= c_off b) ms.
Definition off_sorted (ms : list cand) : Prop := StronglySorted (fun a b => c_off a <= c_off b) ms.

Lemma disjoint_off_sorted : forall ms, disjoint_sorted ms -> off_sorted ms.
Proof.
  intros ms H. induction H as [|a l Hl IH Ha]; constructor; auto.
  eapply Forall_impl; [|exact Ha]. intros b Hb. unfold c_end in Hb. lia.
Qed.

Lemma slice_length_le : forall {A} (l : list A) lo hi, hi <= length l -> length (slice l lo hi) = hi - lo.
Proof. intros. unfold slice. rewrite firstn_length, skipn_length. lia. Qed.

(** ---- the line an offset belongs to *)
Section Content.
Variable c : list N.
Let nls := newlines_of c.

Lemma at_offset_unique : forall off n, off < length c ->
  line_start nls n <= off < line_start nls (n + 1) -> (1 <= n)%Z -> at_offset nls off = n.
Proof.
  intros off n Hoff [H1 H2] Hn. unfold nls in *.
  rewrite at_offset_spec. rewrite !line_start_spec in *.
  set (K := count_nl (firstn off c)).
  destruct (after_nl_bracket c off Hoff) as [B1 B2]. fold K in B1, B2.
  replace (Z.to_nat (n + 1 - 1)) with (S (Z.to_nat (n - 1))) in H2 by lia.
  set (j := Z.to_nat (n - 1)) in *.
  assert (j = K); [|lia].
  destruct (Nat.lt_trichotomy j K) as [Hlt|[Heq|Hgt]]; auto.
  - pose proof (after_nl_mono c (S j) K ltac:(lia)). lia.
  - pose proof (after_nl_mono c (S K) j ltac:(lia)). lia.
Qed.

Lemma at_offset_range : forall off, (1 <= at_offset nls off <= Z.of_nat (length (lines c)))%Z.
Proof.
  intros. unfold nls. rewrite at_offset_spec, length_lines.
  pose proof (count_nl_firstn_total c off). lia.
Qed.

(** the end of a line is the end of the file or sits right after a newline *)
Lemma line_end_is_newline : forall n, (1 <= n)%Z -> line_start nls (n + 1) < length c ->
  nth_error c (line_start nls (n + 1) - 1) = Some 10%N.
Proof.
  intros n Hn H. unfold nls in *. rewrite line_start_spec in *.
  destruct (after_nl_boundary c (Z.to_nat (n + 1 - 1)) ltac:(lia)) as [A|A]; [lia|exact A].
Qed.

(** a newline-free range that starts inside line n ends inside line n (its newline included) *)
Lemma piece_stays_in_line : forall m n, (1 <= n)%Z -> c_end m <= length c -> no_nl c m ->
  c_off m < line_start nls (n + 1) -> c_end m <= line_start nls (n + 1).
Proof.
  intros m n Hn Hb Hno Hlt.
  destruct (Nat.le_gt_cases (c_end m) (line_start nls (n + 1))) as [|Hgt]; auto.
  exfalso. apply (Hno (line_start nls (n + 1) - 1)); [lia|].
  apply line_end_is_newline; auto. lia.
Qed.

(** offsets at or beyond the start of line n+1 belong to a later line *)
Lemma at_offset_after : forall off n, (1 <= n)%Z -> off < length c ->
  line_start nls (n + 1) <= off -> (n + 1 <= at_offset nls off)%Z.
Proof.
  intros off n Hn Hoff H. unfold nls in *. rewrite at_offset_spec. rewrite line_start_spec in H.
  replace (Z.to_nat (n + 1 - 1)) with (Z.to_nat n) in H by lia.
  pose proof (count_nl_firstn_le c _ _ H) as H1. rewrite count_nl_after_nl in H1.
  assert (Z.to_nat n <= count_nl c).
  { destruct (Nat.le_gt_cases (Z.to_nat n) (count_nl c)); auto.
    rewrite after_nl_all in H by lia. lia. }
  lia.
Qed.

(** ---- span_line *)
Lemma span_line_spec : forall next ms lc rest, span_line next ms = (lc, rest) ->
  ms = lc ++ rest /\ Forall (fun m => c_off m < next) lc /\
  match rest with [] => True | m :: _ => next <= c_off m end.
Proof.
  intros next ms. induction ms as [|m r IH]; intros lc rest H; simpl in H.
  - injection H as <- <-. auto.
  - destruct (c_off m <? next) eqn:E.
    + destruct (span_line next r) as [a b]. injection H as <- <-.
      destruct (IH a b eq_refl) as [A [B C]]. subst r. repeat split; auto.
      constructor; auto. lia.
    + injection H as <- <-. repeat split; auto. lia.
Qed.

Lemma extend_line_noop : forall fuel next endm, endm <= next -> extend_line fuel c next endm = next.
Proof.
  intros fuel next endm H. destruct fuel; simpl; auto.
  destruct (next <? endm) eqn:E; [lia|]. now rewrite andb_false_r.
Qed.

(** ---- what a reported line match must satisfy (C03, line mode) *)
Definition lines_between (a b : Z) : list N := concat (slice (lines c) (Z.to_nat (a - 1)) (Z.to_nat (b - 1))).

Record lm_ok (ctx : Z) (lm : linematch) : Prop := {
  ok_fn : lm_fn lm = false;
  ok_num : (1 <= lm_num lm <= Z.of_nat (length (lines c)))%Z;                    (* a line of the file *)
  ok_start : lm_start lm = length (lines_between 1 (lm_num lm));                   (* LineStart = bytes before that line *)
  ok_line : lm_line lm = lines_between (lm_num lm) (lm_num lm + 1);                (* Line = exactly that line *)
  ok_slice : lm_line lm = slice c (lm_start lm) (lm_end lm);                       (* = content[LineStart:LineEnd) *)
  ok_end : lm_end lm = lm_start lm + length (lm_line lm) /\ lm_end lm <= length c;
  ok_before : lm_before lm = lines_between (lm_num lm - ctx) (lm_num lm);          (* exactly ctx lines, fewer only at the top *)
  ok_after : lm_after lm = lines_between (lm_num lm + 1) (lm_num lm + 1 + ctx);    (* exactly ctx lines, fewer only at the end *)
  ok_frags_ne : lm_frags lm <> [];
  ok_frags : Forall (fun f => lm_start lm <= f_off f /\ f_off f + f_len f <= lm_end lm /\
                              f_lineoff f = (Z.of_nat (f_off f) - Z.of_nat (lm_start lm))%Z /\
                              at_offset nls (f_off f) = lm_num lm) (lm_frags lm)
}.

Definition frag_cand (f : frag) : nat * nat := (f_off f, f_len f).
Definition cand_key (m : cand) : nat * nat := (c_off m, c_sz m).

Lemma slice_line : forall n, slice c (line_start nls n) (line_start nls (n + 1)) = lines_between n (n + 1).
Proof.
  intros n. pose proof (get_lines_spec c n (n + 1)) as H. unfold get_lines in H.
  destruct (n + 1 <=? n)%Z eqn:E; [lia|]. unfold go_slice in H.
  destruct ((line_start (newlines_of c) n <=? line_start (newlines_of c) (n + 1)) &&
            (line_start (newlines_of c) (n + 1) <=? length c)); [|discriminate].
  injection H as H. exact H.
Qed.

Lemma line_start_lines : forall n, line_start nls n = length (lines_between 1 n).
Proof.
  intros n. unfold nls. rewrite line_start_spec, after_nl_lines. unfold lines_between, slice.
  simpl. rewrite Nat.sub_0_r. reflexivity.
Qed.

Lemma fill_lines_S : forall k ctx m ms0,
  fill_lines (S k) nls c ctx (m :: ms0) =
  let num := at_offset nls (c_off m) in
  let ls := line_start nls num in
  let nx := line_start nls (num + 1) in
  let (lc, rest) := span_line nx (m :: ms0) in
  match lc with
  | [] => Panic 2%N
  | _ :: _ =>
      let lastc := last lc m in
      let nx' := extend_line (S (length c)) c nx (c_end lastc) in
      do line <- go_slice c ls nx';
      do before <- (if (0 <? ctx)%Z then get_lines nls c (num - ctx) num else Ok []);
      do after <- (if (0 <? ctx)%Z then get_lines nls c (num + 1) (num + 1 + ctx) else Ok []);
      do tl <- fill_lines k nls c ctx rest;
      Ok ({| lm_line := line; lm_start := ls; lm_end := nx'; lm_num := num;
             lm_before := before; lm_after := after; lm_fn := false;
             lm_frags := map (mk_frag ls) lc |} :: tl)
  end.
Proof. reflexivity. Qed.

Lemma last_in : forall (l : list cand) d, l <> [] -> In (last l d) l.
Proof.
  induction l as [|a r IH]; intros d H; [congruence|].
  destruct r as [|b r']; [left; reflexivity|]. right. apply IH. discriminate.
Qed.

Lemma ctx_lines : forall ctx a b, (0 <= ctx)%Z ->
  (if (0 <? ctx)%Z then get_lines nls c a b else Ok []) =
  Ok (if (0 <? ctx)%Z then lines_between a b else []).
Proof.
  intros ctx a b H. destruct (0 <? ctx)%Z; auto. unfold nls. now rewrite get_lines_spec.
Qed.

(** Main theorem on fillContentMatches: for newline-free, non-empty, in-bounds candidates sorted by
    offset, the call succeeds; every reported line satisfies [lm_ok]; line numbers strictly increase
    (every line at most once); and the fragments are exactly the candidates, in order. *)
Theorem fill_lines_correct : forall ctx, (0 <= ctx)%Z -> forall fuel ms,
  length ms <= fuel -> Forall (piece_ok c) ms -> off_sorted ms ->
  exists res, fill_lines fuel nls c ctx ms = Ok res /\
    Forall (lm_ok ctx) res /\
    StronglySorted (fun a b => (lm_num a < lm_num b)%Z) res /\
    Forall (fun lm => match ms with [] => True | m :: _ => (at_offset nls (c_off m) <= lm_num lm)%Z end) res /\
    flat_map (fun lm => map frag_cand (lm_frags lm)) res = map cand_key ms.
Proof.
  intros ctx Hctx. induction fuel as [|k IH]; intros ms Hlen Hok Hsorted.
  { destruct ms; [|simpl in Hlen; lia]. exists []. simpl. repeat split; constructor. }
  destruct ms as [|m ms0].
  { exists []. simpl. repeat split; constructor. }
  rewrite fill_lines_S. cbv zeta.
  set (num := at_offset nls (c_off m)). set (ls := line_start nls num). set (nx := line_start nls (num + 1)).
  pose proof (at_offset_range (c_off m)) as Hnum. fold num in Hnum.
  assert (Hm : piece_ok c m) by (inversion Hok; auto).
  destruct Hm as [[Hsz Hend] Hno].
  assert (Hoff : c_off m < length c) by (unfold c_end in Hend; lia).
  pose proof (at_offset_in_line c (c_off m) Hoff) as Hin. cbv zeta in Hin. fold nls num ls nx in Hin.
  destruct (span_line nx (m :: ms0)) as [lc rest] eqn:Esp.
  destruct (span_line_spec _ _ _ _ Esp) as [Happ [Hlc Hrest]].
  destruct lc as [|m' lc'].
  { simpl in Happ. subst rest. lia. }
  assert (m' = m) by (simpl in Happ; congruence). subst m'.
  assert (Hms0 : ms0 = lc' ++ rest) by (simpl in Happ; congruence).
  subst ms0. clear Happ.
  (* every candidate of this line: inside the line *)
  assert (HokAll : Forall (piece_ok c) (m :: lc') /\ Forall (piece_ok c) rest).
  { change (m :: lc' ++ rest) with ((m :: lc') ++ rest) in Hok. apply Forall_app in Hok. exact Hok. }
  destruct HokAll as [Hoklc Hokrest].
  assert (Hge : Forall (fun x => c_off m <= c_off x) (m :: lc')).
  { constructor; [lia|]. inversion Hsorted as [|? ? ? Hall]; subst.
    apply Forall_app in Hall. exact (proj1 Hall). }
  assert (Hinside : Forall (fun x => ls <= c_off x /\ c_end x <= nx) (m :: lc')).
  { rewrite Forall_forall. intros x Hx.
    rewrite Forall_forall in Hoklc, Hge, Hlc.
    destruct (Hoklc x Hx) as [[_ Hxe] Hxno]. specialize (Hge x Hx). specialize (Hlc x Hx).
    split; [lia|]. apply piece_stays_in_line; auto. lia. }
  set (lastc := last (m :: lc') m).
  assert (Hlast : c_end lastc <= nx).
  { rewrite Forall_forall in Hinside. apply Hinside. apply last_in. discriminate. }
  rewrite (extend_line_noop _ _ _ Hlast).
  pose proof (line_start_clamped c (num + 1)) as Hnxle. fold nls nx in Hnxle.
  unfold go_slice.
  destruct ((ls <=? nx) && (nx <=? length c)) eqn:Egs; [|lia].
  rewrite !ctx_lines by auto. simpl obind.
  (* the rest *)
  assert (Hsrest : off_sorted rest).
  { inversion Hsorted as [|? ? Hs0 _]; subst.
    clear - Hs0. induction lc' as [|a l IHl]; simpl in *; auto. inversion Hs0; auto. }
  destruct (IH rest) as [tl [Etl [Htl1 [Htl2 [Htl3 Htl4]]]]]; auto.
  { simpl in Hlen. rewrite app_length in Hlen. lia. }
  rewrite Etl. simpl obind.
  eexists. split; [reflexivity|].
  assert (Hlineq : slice c ls nx = lines_between num (num + 1)) by apply slice_line.
  split; [|split; [|split]].
  - constructor; auto. constructor; simpl; auto.
    + apply line_start_lines.
    + split; [|exact Hnxle]. rewrite slice_length_le; lia.
    + destruct (0 <? ctx)%Z eqn:E; auto. unfold lines_between, slice.
      replace (Z.to_nat (num - 1) - Z.to_nat (num - ctx - 1)) with 0 by lia. reflexivity.
    + destruct (0 <? ctx)%Z eqn:E; auto. unfold lines_between, slice.
      replace (Z.to_nat (num + 1 + ctx - 1) - Z.to_nat (num + 1 - 1)) with 0 by lia. reflexivity.
    + discriminate.
    + change (mk_frag ls m :: map (mk_frag ls) lc') with (map (mk_frag ls) (m :: lc')).
      rewrite Forall_map. rewrite Forall_forall in *. intros x Hx. simpl.
      destruct (Hinside x Hx) as [I1 I2]. destruct (Hoklc x Hx) as [[Hxs Hxe] _].
      unfold c_end in *. repeat split; try lia.
      apply at_offset_unique; lia.
  - constructor; auto.
    rewrite Forall_forall in *. intros lm Hlm. specialize (Htl3 lm Hlm). simpl.
    destruct rest as [|r0 rest']; [destruct tl; [contradiction|]; simpl in Etl|].
    { destruct k; simpl in Etl; discriminate. }
    assert (Hr0 : piece_ok c r0) by (apply Hokrest; left; reflexivity).
    destruct Hr0 as [[Hr0s Hr0e] _]. unfold c_end in Hr0e.
    pose proof (at_offset_after (c_off r0) num ltac:(lia) ltac:(lia) Hrest). lia.
  - constructor; [simpl; lia|].
    rewrite Forall_forall in *. intros lm Hlm. specialize (Htl3 lm Hlm).
    destruct rest as [|r0 rest']; [destruct tl; [contradiction|]; destruct k; simpl in Etl; discriminate|].
    assert (Hr0 : piece_ok c r0) by (apply Hokrest; left; reflexivity).
    destruct Hr0 as [[Hr0s Hr0e] _]. unfold c_end in Hr0e.
    pose proof (at_offset_after (c_off r0) num ltac:(lia) ltac:(lia) Hrest). lia.
  - simpl flat_map. rewrite Htl4, map_map.
    change (m :: lc' ++ rest) with ((m :: lc') ++ rest). rewrite map_app. reflexivity.
Qed.

(** ---- breakMatchesOnNewlines *)
Lemma nth_error_firstn_lt : forall {A} (l : list A) n i, i < n -> nth_error (firstn n l) i = nth_error l i.
Proof.
  intros A l. induction l as [|a r IH]; intros n i H; [now rewrite firstn_nil|].
  destruct n as [|n']; [lia|]. destruct i as [|i']; simpl; auto. apply IH. lia.
Qed.
Lemma nth_error_skipn_add : forall {A} (l : list A) n i, nth_error (skipn n l) i = nth_error l (n + i).
Proof.
  intros A l. induction l as [|a r IH]; intros n i; [rewrite skipn_nil; destruct i, n; reflexivity|].
  destruct n as [|n']; simpl; auto.
Qed.
Lemma nth_error_slice : forall (l : list N) lo hi i, i < hi - lo ->
  nth_error (slice l lo hi) i = nth_error l (lo + i).
Proof.
  intros l lo hi i H. unfold slice.
  rewrite nth_error_firstn_lt by lia. apply nth_error_skipn_add.
Qed.

Definition in_range (lo hi : nat) (x : cand) : Prop := lo <= c_off x /\ c_end x <= hi.

Lemma brk_spec : forall fn seg start cur,
  start <= cur -> cur + length seg <= length c ->
  (forall p, start <= p < cur -> nth_error c p <> Some 10%N) ->
  (forall i, i < length seg -> nth_error seg i = nth_error c (cur + i)) ->
  Forall (fun x => in_range start (cur + length seg) x /\ piece_ok c x /\ c_fn x = fn) (brk fn seg start cur) /\
  disjoint_sorted (brk fn seg start cur).
Proof.
  intros fn seg. induction seg as [|ch r IH]; intros start cur Hsc Hlen Hno Hseg; simpl.
  - destruct (cur - start =? 0) eqn:E; [split; constructor|].
    split; [|repeat constructor].
    constructor; [|constructor]. unfold in_range, piece_ok, cand_ok, no_nl, c_end; simpl in *.
    repeat split; try lia. intros p Hp. apply Hno. lia.
  - simpl in Hlen.
    assert (Hch : nth_error c cur = Some ch).
    { specialize (Hseg 0 ltac:(simpl; lia)). simpl in Hseg. rewrite Nat.add_0_r in Hseg. auto. }
    assert (Hseg' : forall i, i < length r -> nth_error r i = nth_error c (S cur + i)).
    { intros i Hi. specialize (Hseg (S i) ltac:(simpl; lia)). simpl in Hseg.
      replace (S cur + i) with (cur + S i) by lia. exact Hseg. }
    destruct (N.eqb ch 10) eqn:Ech.
    + destruct (IH (S cur) (S cur)) as [A B]; auto; try lia.
      assert (A' : Forall (fun x => in_range start (cur + S (length r)) x /\ piece_ok c x /\ c_fn x = fn)
                          (brk fn r (S cur) (S cur))).
      { eapply Forall_impl; [|exact A]. intros x [[X1 X2] [X3 X4]]. split; [split; lia|split; auto]. }
      destruct (cur - start =? 0) eqn:E; simpl; [split; auto|].
      split.
      * constructor; auto. unfold in_range, piece_ok, cand_ok, no_nl, c_end; simpl.
        repeat split; try lia. intros p Hp. apply Hno. lia.
      * constructor; auto. eapply Forall_impl; [|exact A]. intros x [[X1 _] _]. unfold c_end; simpl. lia.
    + destruct (IH start (S cur)) as [A B]; auto; try lia.
      { intros p Hp. destruct (Nat.eq_dec p cur) as [->|Hne]; [|apply Hno; lia].
        rewrite Hch. intros Heq. injection Heq as ->. discriminate. }
      split; auto. eapply Forall_impl; [|exact A]. intros x [[X1 X2] [X3 X4]].
      split; [split; lia|split; auto].
Qed.

Lemma disjoint_sorted_app : forall a b, disjoint_sorted a -> disjoint_sorted b ->
  (forall x y, In x a -> In y b -> c_end x <= c_off y) -> disjoint_sorted (a ++ b).
Proof.
  intros a b Ha Hb Hab. induction Ha as [|x l Hl IH Hx]; simpl; auto.
  constructor.
  - apply IH. intros; apply Hab; auto. now right.
  - apply Forall_app. split; auto. rewrite Forall_forall. intros y Hy. apply Hab; auto. now left.
Qed.

(** Every in-bounds candidate list is broken into non-empty newline-free pieces that stay inside
    their candidate; order and disjointness are preserved. *)
Theorem break_matches_spec : forall ms,
  Forall (fun m => c_end m <= length c) ms -> disjoint_sorted ms ->
  exists b, break_matches c ms = Ok b /\
    Forall (fun x => piece_ok c x /\ exists m, In m ms /\ in_range (c_off m) (c_end m) x /\ c_fn x = c_fn m) b /\
    disjoint_sorted b.
Proof.
  induction ms as [|m r IH]; intros Hb Hs.
  - exists []. simpl. repeat split; constructor.
  - inversion Hb as [|? ? Hm Hr]; subst. inversion Hs as [|? ? Hsr Hmr]; subst.
    destruct (IH Hr Hsr) as [b [Eb [Fb Sb]]].
    simpl. unfold break_on_newlines.
    destruct (c_sz m =? 0) eqn:Ez.
    + simpl. rewrite Eb. simpl. exists b. repeat split; auto.
      eapply Forall_impl; [|exact Fb]. intros x [P [m0 [I R]]]. split; auto. exists m0. split; [now right|auto].
    + unfold go_slice.
      destruct ((c_off m <=? c_end m) && (c_end m <=? length c)) eqn:Eg; [|unfold c_end in *; lia].
      simpl. rewrite Eb. simpl.
      assert (Hl : length (slice c (c_off m) (c_end m)) = c_sz m).
      { rewrite slice_length_le by lia. unfold c_end. lia. }
      destruct (brk_spec (c_fn m) (slice c (c_off m) (c_end m)) (c_off m) (c_off m)) as [A B]; try lia.
      { rewrite Hl. unfold c_end in Hm. lia. }
      { intros i Hi. apply nth_error_slice. rewrite Hl in Hi. unfold c_end. lia. }
      rewrite Hl in A.
      eexists. split; [reflexivity|]. split.
      * apply Forall_app. split.
        -- eapply Forall_impl; [|exact A]. intros x [R [P F]]. split; auto. exists m. split; [now left|]. split; auto.
        -- eapply Forall_impl; [|exact Fb]. intros x [P [m0 [I R]]]. split; auto. exists m0. split; [now right|auto].
      * apply disjoint_sorted_app; auto. intros x y Hx Hy.
        rewrite Forall_forall in A, Fb, Hmr.
        destruct (A x Hx) as [[_ X2] _]. destruct (Fb y Hy) as [_ [m0 [I [[Y1 _] _]]]].
        specialize (Hmr m0 I). unfold c_end in *. lia.
Qed.

(** ---- fillMatches *)
Theorem fill_matches_content : forall ctx name ms, (0 <= ctx)%Z ->
  filter is_content ms <> [] ->
  Forall (fun m => c_end m <= length c) (filter is_content ms) -> disjoint_sorted (filter is_content ms) ->
  exists res, fill_matches nls c name ctx ms = Ok res /\
    Forall (lm_ok ctx) res /\
    StronglySorted (fun a b => (lm_num a < lm_num b)%Z) res /\
    (* every fragment is a newline-free, non-empty part of a content candidate *)
    Forall (fun lm => Forall (fun f => exists m, In m ms /\ c_fn m = false /\ 0 < f_len f /\
                                        c_off m <= f_off f /\ f_off f + f_len f <= c_end m) (lm_frags lm)) res.
Proof.
  intros ctx name ms Hctx Hne Hb Hs. unfold fill_matches.
  destruct (filter is_content ms) as [|m0 cms0] eqn:Ef; [congruence|].
  destruct (break_matches_spec _ Hb Hs) as [b [Eb [Fb Sb]]].
  rewrite Eb. simpl obind. unfold fill_content_matches.
  destruct (fill_lines_correct ctx Hctx (length b) b) as [res [Er [R1 [R2 [_ R4]]]]]; auto.
  { eapply Forall_impl; [|exact Fb]. intros x [P _]. exact P. }
  { apply disjoint_off_sorted; auto. }
  exists res. repeat split; auto.
  (* fragments come from pieces, pieces from content candidates *)
  assert (Hall : Forall (fun k => exists m, In m ms /\ c_fn m = false /\ 0 < snd k /\
                                   c_off m <= fst k /\ fst k + snd k <= c_end m) (map cand_key b)).
  { rewrite Forall_map. eapply Forall_impl; [|exact Fb].
    intros x [[[P1 P2] _] [m [I [[X1 X2] _]]]]. exists m.
    assert (Im : In m (filter is_content ms)) by (rewrite Ef; exact I).
    apply filter_In in Im. destruct Im as [Im1 Im2]. unfold is_content in Im2.
    unfold cand_key; simpl. unfold c_end in *.
    split; [exact Im1|]. split; [now destruct (c_fn m)|]. lia. }
  rewrite <- R4 in Hall. clear - Hall.
  induction res as [|lm r IH]; [constructor|].
  simpl in Hall. apply Forall_app in Hall. destruct Hall as [H1 H2].
  constructor; auto. rewrite Forall_map in H1. exact H1.
Qed.

Theorem fill_matches_filename : forall ctx name ms, filter is_content ms = [] ->
  fill_matches nls c name ctx ms =
  Ok [ {| lm_line := name; lm_start := 0; lm_end := 0; lm_num := 0%Z; lm_before := []; lm_after := [];
          lm_fn := true;
          lm_frags := map (fun m => {| f_lineoff := Z.of_nat (c_off m); f_off := c_off m; f_len := c_sz m |}) ms |} ].
Proof. intros ctx name ms H. unfold fill_matches. rewrite H. reflexivity. Qed.

End Content.
