(** Further consequences for C33/C34: "Up to date" repositories are not touched by -f; exactly one
    repository per discovered spec after a successful sync -f. *)
From ZV Require Import Lib.Base Model.LocalSync Proofs.LocalSync Proofs.LocalSyncConv.
From Coq Require Import Permutation.

(** ops that leave shard 0 of [n] alone *)
Definition leaves (n : str) (o : op) : Prop :=
  match o with
  | OpBuild m _ _ => m <> n
  | OpRemoveShard f => f <> (n, 0)
  | _ => True
  end.

Lemma find_untouched n : forall ops inv, Forall (leaves n) ops ->
  find_file (n, 0) (apply_ops inv ops) = find_file (n, 0) inv.
Proof.
  unfold apply_ops. induction ops as [|o ops IH]; intros inv H; [reflexivity|].
  inversion H as [|? ? Ho Hr]; subst. cbn [fold_left]. rewrite (IH _ Hr).
  destruct o as [| |f|m src fp]; try reflexivity.
  - cbn [apply_op]. rewrite find_remove_file. cbn in Ho.
    destruct (fkey_eqb (n, 0) f) eqn:E; [apply fkey_eqb_eq in E; congruence|reflexivity].
  - apply find_build_other. cbn in Ho. congruence.
Qed.

Lemma leaves_of_lists n ops :
  ~ In (n, 0) (performed_removals ops) -> ~ In n (performed_indexing ops) -> Forall (leaves n) ops.
Proof.
  induction ops as [|o ops IH]; intros H1 H2; [constructor|].
  destruct o as [| |f|m src fp]; cbn in H1, H2 |- *; constructor; cbn; auto; try (apply IH; tauto).
Qed.

(** in a preview, a name is announced at most once: "Up to date" and "Would index" are disjoint *)
Lemma dry_lines_names w pruned : forall specs inv n,
  In n (announced_up_to_date (ir_out (index_repos Dry w pruned specs inv))) \/
  In n (announced_indexing (ir_out (index_repos Dry w pruned specs inv))) -> In n (map sp_name specs).
Proof.
  induction specs as [|s rest IH]; intros inv n; cbn [index_repos].
  - cbn. tauto.
  - specialize (IH inv n). destruct (fp_of w (sp_source s)) as [fp|].
    + destruct (index_repos Dry w pruned rest inv) as [[ops out] e]. unfold ir_out in *. cbn [fst snd] in *.
      destruct (dry_decision pruned (sp_name s) fp inv); cbn; intros [H|H]; try (right; apply IH; tauto);
        destruct H as [<-|H]; try (left; reflexivity); right; apply IH; tauto.
    + destruct (index_repos Dry w pruned rest inv) as [[ops out] e]. unfold ir_out in *. cbn [fst snd] in *.
      cbn. intros H. right. apply IH. exact H.
Qed.

Lemma dry_up_to_date_facts w pruned : forall specs inv n, NoDup (map sp_name specs) ->
  In n (announced_up_to_date (ir_out (index_repos Dry w pruned specs inv))) ->
  ~ In n (announced_indexing (ir_out (index_repos Dry w pruned specs inv))) /\
  has_file (n, 0) inv = true /\ existsb (fkey_eqb (n, 0)) pruned = false.
Proof.
  induction specs as [|s rest IH]; intros inv n Hnd; cbn [index_repos]; [cbn; tauto|].
  cbn [map] in Hnd. inversion Hnd as [|? ? Hnotin Hnd']; subst.
  specialize (IH inv n Hnd'). pose proof (dry_lines_names w pruned rest inv n) as Hnames.
  destruct (fp_of w (sp_source s)) as [fp|].
  - destruct (index_repos Dry w pruned rest inv) as [[ops out] e]. unfold ir_out in *. cbn [fst snd] in *.
    destruct (dry_decision pruned (sp_name s) fp inv) eqn:Ed; cbn.
    + intros H. destruct (IH H) as (I1 & I2 & I3). repeat split; auto.
      intros [<-|Hx]; [|contradiction]. apply Hnotin. apply Hnames. left. exact H.
    + intros [<-|H].
      * split; [intros Hx; apply Hnotin; apply Hnames; right; exact Hx|].
        unfold dry_decision, needs_index, has_file in *.
        destruct (find_file (sp_name s, 0) inv); [|cbn in Ed; discriminate].
        apply orb_false_iff in Ed as [_ E2]. cbn in E2. split; [reflexivity|exact E2].
      * destruct (IH H) as (I1 & I2 & I3). repeat split; auto.
  - destruct (index_repos Dry w pruned rest inv) as [[ops out] e]. unfold ir_out in *. cbn [fst snd] in *.
    cbn. exact IH.
Qed.

(** C33: a repository the preview reports "Up to date" has its first shard, and -f leaves that shard alone *)
Theorem up_to_date_untouched : forall tree w roots inv n,
  In n (announced_up_to_date (r_out (run_sync Dry tree w roots inv))) ->
  find_file (n, 0) inv <> None /\
  find_file (n, 0) (apply_ops inv (r_ops (run_sync Force tree w roots inv))) = find_file (n, 0) inv.
Proof.
  intros tree w roots inv n Hin.
  pose proof (run_sync_faithful tree w roots inv) as (F1 & F2 & _ & _).
  assert (Hfacts : ~ In n (announced_indexing (r_out (run_sync Dry tree w roots inv))) /\
                   has_file (n, 0) inv = true /\
                   ~ In (n, 0) (announced_removals (r_out (run_sync Dry tree w roots inv)))).
  { revert Hin. unfold run_sync.
    destruct (discover tree roots) as [specs|e|e] eqn:Ed; try (cbn; tauto).
    destruct (read_inventory inv) as [shards|e|e] eqn:Er; try (cbn; tauto).
    apply read_inventory_ok in Er. subst shards. cbn [apply_removals lock_ops pass_f].
    change (apply_ops inv []) with inv. set (acts := plan_prune specs inv).
    pose proof (dry_up_to_date_facts w (map a_file acts) specs inv n (discover_nodup _ _ _ Ed)) as Hf.
    pose proof (index_repos_faithful w (map a_file acts) specs inv inv (discover_nodup _ _ _ Ed)) as _.
    assert (Hrem : announced_removals (ir_out (index_repos Dry w (map a_file acts) specs inv)) = []).
    { clear. generalize (map a_file acts) as pruned. intros pruned. induction specs as [|s rest IH]; cbn [index_repos]; [reflexivity|].
      destruct (fp_of w (sp_source s)) as [fp|];
        destruct (index_repos Dry w pruned rest inv) as [[ops out] e]; unfold ir_out in *; cbn [fst snd] in *;
        [destruct (dry_decision pruned (sp_name s) fp inv)|]; cbn; exact IH. }
    unfold ir_out in *.
    destruct (index_repos Dry w (map a_file acts) specs inv) as [[iops iout] failed]. cbn [fst snd] in *.
    assert (Hu1 : announced_up_to_date (map LWouldRemove acts) = []) by (apply filter_map_map_none; reflexivity).
    assert (Hi1 : announced_indexing (map LWouldRemove acts) = []) by (apply filter_map_map_none; reflexivity).
    destruct failed; cbn [r_out]; rewrite ?ann_utd_app, ?ann_idx_app, ?ann_rem_app, ?ann_rem_wouldremove, ?Hu1, ?Hi1, ?Hrem;
      cbn; rewrite ?app_nil_r; intros H;
      destruct (Hf H) as (H1 & H2 & H3); (repeat split; auto);
      intros Hx; assert (existsb (fkey_eqb (n, 0)) (map a_file acts) = true)
        by (apply existsb_exists; exists (n, 0); split; [exact Hx|apply fkey_eqb_refl]); congruence. }
  destruct Hfacts as (H1 & H2 & H3). split.
  - unfold has_file in H2. destruct (find_file (n, 0) inv); [discriminate|discriminate H2].
  - apply find_untouched. apply leaves_of_lists; [rewrite <- F1; exact H3|rewrite <- F2; exact H1].
Qed.

(** ------------------------------------------------------------------ C34: exactly one repository per discovered spec *)
Definition first_shards (inv : inventory) : list shard := filter (fun sh => Nat.eqb (snd (sh_file sh)) 0) inv.

Lemma first_shards_names_nodup inv : NoDup (map sh_file inv) -> NoDup (map (fun sh => fst (sh_file sh)) (first_shards inv)).
Proof.
  unfold first_shards. induction inv as [|x inv IH]; intros Hnd; cbn; [constructor|].
  cbn in Hnd. inversion Hnd as [|? ? Hx Hnd']; subst.
  destruct (Nat.eqb (snd (sh_file x)) 0) eqn:E; cbn; [|apply IH; exact Hnd'].
  constructor; [|apply IH; exact Hnd'].
  intros Hin. apply in_map_iff in Hin as (y & Hy & Hyin). apply filter_In in Hyin as [Hyin Ey].
  apply Hx. apply in_map_iff. exists y. split; [|exact Hyin].
  apply Nat.eqb_eq in E. apply Nat.eqb_eq in Ey. destruct (sh_file x), (sh_file y). cbn in *. congruence.
Qed.

(** After a successful sync -f on a well-formed index the names of the repositories in the index (one per first
    shard) are exactly the discovered names, each once; and every shard is a shard of one of them. *)
Theorem sync_force_exactly_one : forall tree w roots inv,
  wf inv -> r_status (run_sync Force tree w roots inv) = 0%N ->
  exists specs, discover tree roots = Ok specs /\
    let inv' := apply_ops inv (r_ops (run_sync Force tree w roots inv)) in
    Permutation (map sp_name specs) (map (fun sh => fst (sh_file sh)) (first_shards inv')) /\
    (forall sh, In sh inv' -> In (fst (sh_file sh)) (map sp_name specs) /\ sh_repo sh = fst (sh_file sh)).
Proof.
  intros tree w roots inv Hwf Hst.
  destruct (sync_force_converges tree w roots inv Hwf Hst) as (specs & Hd & Hc). cbn zeta in Hc.
  destruct Hc as (Hwf' & Hall & Hevery). exists specs. split; [exact Hd|]. cbn zeta. split.
  - apply NoDup_Permutation.
    + eapply discover_nodup; eauto.
    + apply first_shards_names_nodup. apply (wf_nodup _ Hwf').
    + intros n. split.
      * intros Hin. apply in_map_iff in Hin as (s & <- & Hs).
        specialize (Hall s Hs). apply has_file_in in Hall as (sh & Hin & Hf).
        apply in_map_iff. exists sh. split; [rewrite Hf; reflexivity|].
        apply filter_In. split; [exact Hin|]. rewrite Hf. reflexivity.
      * intros Hin. apply in_map_iff in Hin as (sh & <- & Hsh). apply filter_In in Hsh as [Hsh _].
        destruct (Hevery sh Hsh) as (s & Hs & _ & Hfile & _). rewrite Hfile. apply in_map. exact Hs.
  - intros sh Hin. destruct (Hevery sh Hin) as (s & Hs & Hrepo & Hfile & _). split.
    + rewrite Hfile. apply in_map. exact Hs.
    + congruence.
Qed.

(** ------------------------------------------------------------------ C34: discovery in closed form *)
Fixpoint uniq_names (n : node) : Prop :=
  match n with
  | NDir ch => NoDup (map fst ch) /\
               (fix all (l : list (str * node)) : Prop := match l with [] => True | p :: r => uniq_names (snd p) /\ all r end) ch
  | _ => True
  end.

Lemma uniq_names_child ch nm c : uniq_names (NDir ch) -> In (nm, c) ch -> uniq_names c.
Proof.
  cbn. intros [_ H]. induction ch as [|p r IH]; intros Hin; [destruct Hin|].
  destruct H as [H1 H2]. destruct Hin as [->|Hin]; [exact H1|apply IH; assumption].
Qed.

Lemma child_in ch nm c : NoDup (map fst ch) -> (child ch nm = Some c <-> In (nm, c) ch).
Proof.
  unfold child. induction ch as [|[m d] r IH]; intros Hnd; [cbn; split; [discriminate|intros []]|].
  cbn [map fst] in Hnd. inversion Hnd as [|? ? Hm Hnd']; subst.
  cbn [find fst]. destruct (str_eqb m nm) eqn:E; cbn [option_map snd In].
  - apply ls_str_eqb_eq in E. subst m. split.
    + intros H; inversion H; subst. left. reflexivity.
    + intros [H|H]; [inversion H; reflexivity|]. exfalso. apply Hm. apply in_map_iff. exists (nm, c). auto.
  - rewrite (IH Hnd'). split; [intros H; right; exact H|].
    intros [H|H]; [|exact H]. inversion H; subst. rewrite ls_str_eqb_refl in E. discriminate.
Qed.

Definition kind_at (e : str) (n : node) (q : list str) : option bool :=
  match lookup n q with
  | Some (NDir ch) => repo_kind (last q e) ch
  | _ => None
  end.
Definition proper_prefix (p q : list str) : Prop := exists r, r <> [] /\ q = p ++ r.

Lemma last_cons_default (a : str) l e : last (a :: l) e = last l a.
Proof.
  destruct l as [|b l]; [reflexivity|]. change (last (a :: b :: l) e) with (last (b :: l) e).
  revert b. induction l as [|c l IH]; intros b; [reflexivity|].
  change (last (b :: c :: l) e) with (last (c :: l) e). change (last (b :: c :: l) a) with (last (c :: l) a). apply IH.
Qed.

Lemma kind_at_cons e ch nm c q : NoDup (map fst ch) -> In (nm, c) ch ->
  kind_at e (NDir ch) (nm :: q) = kind_at nm c q.
Proof.
  intros Hnd Hin. unfold kind_at. cbn [lookup]. rewrite (proj2 (child_in ch nm c Hnd) Hin).
  rewrite last_cons_default. reflexivity.
Qed.

(** A directory is reported (with kind b) iff it is a repository of that kind and no directory above it (from the
    root down) is a repository: the outermost repository wins, nested ones are never seen. *)
Theorem walk_closed : forall q n e b, uniq_names n ->
  In (q, b) (walk e [] n) <->
  kind_at e n q = Some b /\ forall p, proper_prefix p q -> kind_at e n p = None.
Proof.
  induction q as [|nm q IH]; intros n e b Hu.
  - destruct n as [| |ch]; try (cbn; split; [intros []|intros [H _]; discriminate]).
    rewrite walk_spec. unfold kind_at. cbn [lookup last]. destruct (repo_kind e ch) as [b'|].
    + split; [intros [_ ->]; split; [reflexivity|]|intros [H _]; inversion H; auto].
      intros p (r & Hr & Hp). symmetry in Hp. apply app_eq_nil in Hp as [_ ->]. exfalso. apply Hr. reflexivity.
    + split; [intros (x & c & q' & H & _); discriminate|intros [H _]; discriminate].
  - destruct n as [| |ch]; try (cbn; split; [intros []|intros [H _]; discriminate]).
    assert (Hnd : NoDup (map fst ch)) by (destruct Hu; assumption).
    rewrite walk_spec. destruct (repo_kind e ch) as [b'|] eqn:Ek.
    + split; [intros [H _]; discriminate|]. intros [_ Hp]. exfalso.
      assert (Hpp : proper_prefix [] (nm :: q)) by (exists (nm :: q); split; [discriminate|reflexivity]).
      specialize (Hp [] Hpp).
      unfold kind_at in Hp. cbn [lookup last] in Hp. congruence.
    + split.
      * intros (x & c & q' & Hq & Hin & Hw). inversion Hq; subst x q'.
        apply (IH c nm b (uniq_names_child ch nm c Hu Hin)) in Hw as [Hk Hp].
        split; [rewrite (kind_at_cons e ch nm c q Hnd Hin); exact Hk|].
        intros p (r & Hr & Hpq). destruct p as [|a p].
        -- unfold kind_at. cbn [lookup last]. exact Ek.
        -- cbn in Hpq. inversion Hpq; subst a. rewrite (kind_at_cons e ch nm c p Hnd Hin).
           apply Hp. exists r. auto.
      * intros [Hk Hp]. unfold kind_at in Hk. cbn [lookup] in Hk.
        destruct (child ch nm) as [c|] eqn:Ec; [|discriminate].
        assert (Hin : In (nm, c) ch) by (apply (child_in ch nm c Hnd); exact Ec).
        exists nm, c, q. split; [reflexivity|]. split; [exact Hin|].
        apply (IH c nm b (uniq_names_child ch nm c Hu Hin)). split.
        -- rewrite <- (kind_at_cons e ch nm c q Hnd Hin). unfold kind_at. cbn [lookup]. rewrite Ec. exact Hk.
        -- intros p (r & Hr & Hpq). rewrite <- (kind_at_cons e ch nm c p Hnd Hin). apply Hp.
           exists r. split; [exact Hr|]. cbn. rewrite Hpq. reflexivity.
Qed.
