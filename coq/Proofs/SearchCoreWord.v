(** C01: the word-boundary fast path (wordMatchTree.matches, after fix commits 260937d and d7a2c44) decides exactly the
    reference semantics of the regexp \bLIT\b (ASCII word boundaries), for every text and every non-empty literal --
    including occurrences that overlap rejected ones and literals that begin or end with a non-word character. *)
From ZV Require Import Lib.Base Model.SearchCore Proofs.SearchCoreText.
From Coq Require Import ZifyBool.

Section Word.
Variable tolower : N -> N.
Notation occ := (occurs_at tolower true).

Lemma index_from_spec : forall w t fuel o, length t + 1 <= o + fuel ->
  match index_from tolower w t o fuel with
  | Some s => o <= s /\ occ w t s = true /\ (forall j, o <= j < s -> occ w t j = false)
  | None => forall j, o <= j -> j <= length t -> occ w t j = false
  end.
Proof.
  intros w t. induction fuel as [|f IH]; intros o Hf; simpl.
  - intros j H1 H2. lia.
  - destruct (occ w t o) eqn:E.
    + split; [lia|]. split; [exact E|]. intros; lia.
    + destruct (length t <=? o) eqn:El.
      * intros j H1 H2. assert (j = o) by lia. subst. exact E.
      * specialize (IH (S o) ltac:(lia)). destruct (index_from tolower w t (S o) f) as [s|].
        -- destruct IH as [I1 [I2 I3]]. split; [lia|]. split; [exact I2|]. intros j Hj.
           destruct (Nat.eq_dec j o) as [->|Hne]; [exact E | apply I3; lia].
        -- intros j H1 H2. destruct (Nat.eq_dec j o) as [->|Hne]; [exact E | apply IH; lia].
Qed.

Lemma word_scan_S : forall w t off f, word_scan tolower w t off (S f) =
  match index_from tolower w t off (S (length t)) with
  | None => []
  | Some s => if boundary_at t s && boundary_at t (s + length w) then s :: word_scan tolower w t (s + length w) f
              else word_scan tolower w t (S s) f
  end.
Proof. reflexivity. Qed.

Lemma word_scan_spec : forall w t, 0 < length w -> forall fuel off, length t + 1 <= off + fuel ->
  (word_scan tolower w t off fuel <> [] <-> exists o, off <= o /\ o <= length t /\ word_occurs_at tolower w t o = true).
Proof.
  intros w t Hw. induction fuel as [|f IH]; intros off Hf.
  - simpl. split; [intro H0; exfalso; apply H0; reflexivity|]. intros [o [H1 [H2 _]]]. lia.
  - rewrite word_scan_S. pose proof (index_from_spec w t (S (length t)) off ltac:(lia)) as Hi.
    destruct (index_from tolower w t off (S (length t))) as [s|].
    + destruct Hi as [I1 [I2 I3]]. pose proof (occurs_at_len tolower true w t s Hw I2) as Hl.
      destruct (boundary_at t s && boundary_at t (s + length w)) eqn:Eb.
      * split; [|intros _ H0; discriminate H0]. intros _. exists s. split; [lia|]. split; [lia|]. unfold word_occurs_at. rewrite I2.
        apply andb_true_iff in Eb. destruct Eb as [-> ->]. reflexivity.
      * rewrite (IH (S s) ltac:(lia)). split.
        -- intros [o [H1 H2]]. exists o. split; [lia|exact H2].
        -- intros [o [H1 [H2 H3]]]. exists o. split; [|split; [exact H2|exact H3]].
           destruct (le_lt_dec (S s) o) as [|Hlt]; [auto|]. exfalso.
           unfold word_occurs_at in H3. apply andb_true_iff in H3. destruct H3 as [H3 H5]. apply andb_true_iff in H3. destruct H3 as [H3 H4].
           destruct (Nat.eq_dec o s) as [->|Hne].
           ++ rewrite H4, H5 in Eb. discriminate.
           ++ rewrite (I3 o ltac:(lia)) in H3. discriminate.
    + split; [intro H0; exfalso; apply H0; reflexivity|]. intros [o [H1 [H2 H3]]]. unfold word_occurs_at in H3.
      apply andb_true_iff in H3. destruct H3 as [H3 _]. apply andb_true_iff in H3. destruct H3 as [H3 _].
      rewrite (Hi o H1 H2) in H3. discriminate.
Qed.

Theorem word_found_ref : forall w t, 0 < length w -> word_found tolower w t = word_ref tolower w t.
Proof.
  intros w t Hw. unfold word_found, word_ref.
  pose proof (word_scan_spec w t Hw (S (length t)) 0 ltac:(lia)) as H.
  destruct (existsb (word_occurs_at tolower w t) (seq 0 (S (length t)))) eqn:E.
  - apply existsb_exists in E. destruct E as [o [Ho Hwo]]. apply in_seq in Ho.
    assert (Hne : word_scan tolower w t 0 (S (length t)) <> []) by (apply H; exists o; split; [lia|]; split; [lia|exact Hwo]).
    destruct (word_scan tolower w t 0 (S (length t))); [congruence|reflexivity].
  - destruct (word_scan tolower w t 0 (S (length t))) eqn:Es; [reflexivity|]. exfalso.
    assert (Hne : n :: l <> []) by discriminate. apply H in Hne. destruct Hne as [o [H1 [H2 H3]]].
    assert (existsb (word_occurs_at tolower w t) (seq 0 (S (length t))) = true).
    { apply existsb_exists. exists o. split; [apply in_seq; lia | exact H3]. }
    congruence.
Qed.
End Word.
