(** Proofs about Model/Truncate.v (property C22). *)
From ZV Require Import Lib.Base Model.Truncate.
From Coq Require Import ZifyBool ZifyNat ZifyN.

(** ** Specification vocabulary *)

(** the display units of a file: line mode = (line id, fragment id), chunk mode = the ranges *)
Definition line_units (ls : list lmatch) : list (N * N) :=
  flat_map (fun l => map (fun x => (lm_id l, x)) (lm_frags l)) ls.
Definition chunk_units (cs : list cmatch) : list (N * N) := flat_map cm_ranges cs.
Definition units (ch : bool) (f : file) : list (N * N) :=
  if ch then chunk_units (f_chunks f) else line_units (f_lines f).
(** the whole result flattened: (file id, unit) in ranked order *)
Definition flat (ch : bool) (fs : list file) : list (N * (N * N)) :=
  flat_map (fun f => map (fun u => (f_id f, u)) (units ch f)) fs.
Definition total (ch : bool) (fs : list file) : nat := length (flat ch fs).

(** structural prefix: leading elements unchanged, the last kept one related by [R] *)
Inductive lprefix {A} (R : A -> A -> Prop) : list A -> list A -> Prop :=
| lp_nil : forall l, lprefix R [] l
| lp_last : forall x y l, R x y -> lprefix R [x] (y :: l)
| lp_cons : forall x l1 l2, lprefix R l1 l2 -> lprefix R (x :: l1) (x :: l2).

Definition line_cut (l' l : lmatch) : Prop :=
  lm_id l' = lm_id l /\ exists k, lm_frags l' = firstn k (lm_frags l).
Definition chunk_cut (c' c : cmatch) : Prop :=
  cm_sym c' = cm_sym c /\ exists k, cm_ranges c' = firstn k (cm_ranges c).
Definition file_cut (ch : bool) (f' f : file) : Prop :=
  f_id f' = f_id f /\ f_score f' = f_score f /\ f_ext f' = f_ext f /\
  if ch then f_lines f' = f_lines f /\ lprefix chunk_cut (f_chunks f') (f_chunks f)
  else f_chunks f' = f_chunks f /\ lprefix line_cut (f_lines f') (f_lines f).

Lemma lprefix_refl {A} (R : A -> A -> Prop) l : lprefix R l l.
Proof. induction l; constructor; auto. Qed.

Lemma lprefix_firstn {A} (R : A -> A -> Prop) n l : lprefix R (firstn n l) l.
Proof.
  revert n; induction l as [|a l IH]; intros [|n]; simpl; try constructor. apply IH.
Qed.

Lemma lprefix_of_firstn {A} (R : A -> A -> Prop) a n b :
  lprefix R a (firstn n b) -> lprefix R a b.
Proof.
  intros H. remember (firstn n b) as fb eqn:E. revert n b E.
  induction H as [l | x y l HR | x l1 l2 H IH]; intros n b E.
  - constructor.
  - destruct n, b; simpl in E; try discriminate. injection E as -> _. now constructor.
  - destruct n, b; simpl in E; try discriminate. injection E as -> E. constructor. eapply IH; eauto.
Qed.

(** ** limitLineMatches *)
Lemma firstn_app_le {A} n (l1 l2 : list A) : n <= length l1 -> firstn n (l1 ++ l2) = firstn n l1.
Proof.
  intros H. rewrite firstn_app. replace (n - length l1) with 0 by lia. simpl. now rewrite app_nil_r.
Qed.
Lemma firstn_app_ge {A} n (l1 l2 : list A) : length l1 <= n -> firstn n (l1 ++ l2) = l1 ++ firstn (n - length l1) l2.
Proof. intros H. rewrite firstn_app. now rewrite (firstn_all2 l1) by lia. Qed.

Lemma limit_lines_units ls n :
  line_units (fst (limit_lines ls n)) = firstn n (line_units ls) /\
  snd (limit_lines ls n) = n - length (line_units ls).
Proof.
  revert n; induction ls as [|l r IH]; intros n; simpl.
  - rewrite firstn_nil. split; [reflexivity|lia].
  - destruct (n <=? length (lm_frags l)) eqn:E.
    + simpl. rewrite app_nil_r. rewrite firstn_app_le by (rewrite map_length; lia).
      rewrite firstn_map. rewrite app_length, map_length. split; [reflexivity|lia].
    + destruct (limit_lines r (n - length (lm_frags l))) as [r' lim'] eqn:Er.
      specialize (IH (n - length (lm_frags l))). rewrite Er in IH. simpl in IH. destruct IH as [IH1 IH2].
      simpl. rewrite IH1. rewrite firstn_app_ge by (rewrite map_length; lia).
      rewrite app_length, !map_length. split; [reflexivity|lia].
Qed.

Lemma limit_lines_prefix ls n : lprefix line_cut (fst (limit_lines ls n)) ls.
Proof.
  revert n; induction ls as [|l r IH]; intros n; simpl.
  - constructor.
  - destruct (n <=? length (lm_frags l)).
    + simpl. apply lp_last. split; [reflexivity|]. now exists n.
    + destruct (limit_lines r (n - length (lm_frags l))) as [r' lim'] eqn:Er.
      simpl. constructor. specialize (IH (n - length (lm_frags l))). now rewrite Er in IH.
Qed.

Lemma limit_lines_idem ls n :
  limit_lines (fst (limit_lines ls n)) n = limit_lines ls n.
Proof.
  revert n; induction ls as [|l r IH]; intros n; simpl.
  - reflexivity.
  - destruct (n <=? length (lm_frags l)) eqn:E.
    + simpl. rewrite firstn_length. replace (Nat.min n (length (lm_frags l))) with n by lia.
      rewrite Nat.leb_refl. unfold set_frags; simpl. now rewrite firstn_firstn, Nat.min_id.
    + destruct (limit_lines r (n - length (lm_frags l))) as [r' lim'] eqn:Er.
      simpl. rewrite E. specialize (IH (n - length (lm_frags l))). rewrite Er in IH. simpl in IH.
      now rewrite IH.
Qed.

(** ** limitChunkMatches *)
Lemma cut_chunk_ok c limit c' :
  cut_chunk c limit = Ok c' ->
  cm_ranges c' = firstn limit (cm_ranges c) /\ cm_sym c' = cm_sym c.
Proof.
  unfold cut_chunk. destruct limit as [|k]; [discriminate|].
  destruct (nth_error (cm_ranges c) k) as [[i e]|]; [|discriminate].
  destruct (last_end (cm_ranges c) <? e)%N; [discriminate|].
  destruct (N.to_nat (last_end (cm_ranges c) - e)).
  - intros H; injection H as <-. now simpl.
  - destruct (trim_content (cm_content c) (S n)); [|discriminate].
    intros H; injection H as <-. now simpl.
Qed.

Lemma limit_chunks_units cs n res rem :
  limit_chunks cs n = Ok (res, rem) ->
  chunk_units res = firstn n (chunk_units cs) /\ rem = n - length (chunk_units cs).
Proof.
  revert n res rem; induction cs as [|c r IH]; intros n res rem; simpl.
  - intros H; injection H as <- <-. rewrite firstn_nil. split; [reflexivity|lia].
  - destruct (n <? length (cm_ranges c)) eqn:E1.
    + destruct (cut_chunk c n) as [c'| |] eqn:Ec; simpl; try discriminate.
      intros H; injection H as <- <-. apply cut_chunk_ok in Ec as [Hr _].
      unfold chunk_units; simpl. rewrite app_nil_r, Hr, firstn_app_le by lia.
      rewrite app_length. split; [reflexivity|lia].
    + destruct (n =? length (cm_ranges c)) eqn:E2.
      * intros H; injection H as <- <-. unfold chunk_units; simpl. rewrite app_nil_r.
        rewrite firstn_app_le by lia. rewrite firstn_all2 by lia. rewrite app_length. split; [reflexivity|lia].
      * destruct (limit_chunks r (n - length (cm_ranges c))) as [[r' lim']| |] eqn:Er; simpl; try discriminate.
        intros H; injection H as <- <-. destruct (IH _ _ _ Er) as [IH1 IH2].
        unfold chunk_units in *; simpl. rewrite IH1. rewrite firstn_app_ge by lia.
        rewrite app_length. split; [reflexivity|lia].
Qed.

Lemma limit_chunks_prefix cs n res rem :
  limit_chunks cs n = Ok (res, rem) -> lprefix chunk_cut res cs.
Proof.
  revert n res rem; induction cs as [|c r IH]; intros n res rem; simpl.
  - intros H; injection H as <- <-. constructor.
  - destruct (n <? length (cm_ranges c)) eqn:E1.
    + destruct (cut_chunk c n) as [c'| |] eqn:Ec; simpl; try discriminate.
      intros H; injection H as <- <-. apply cut_chunk_ok in Ec as [Hr Hs].
      apply lp_last. split; [assumption|]. now exists n.
    + destruct (n =? length (cm_ranges c)) eqn:E2.
      * intros H; injection H as <- <-. apply lp_last. split; [reflexivity|].
        exists n. now rewrite firstn_all2 by lia.
      * destruct (limit_chunks r (n - length (cm_ranges c))) as [[r' lim']| |] eqn:Er; simpl; try discriminate.
        intros H; injection H as <- <-. constructor. eapply IH; eauto.
Qed.

Lemma limit_chunks_idem cs n res rem :
  limit_chunks cs n = Ok (res, rem) -> limit_chunks res n = Ok (res, rem).
Proof.
  revert n res rem; induction cs as [|c r IH]; intros n res rem; simpl.
  - intros H; injection H as <- <-. reflexivity.
  - destruct (n <? length (cm_ranges c)) eqn:E1.
    + destruct (cut_chunk c n) as [c'| |] eqn:Ec; simpl; try discriminate.
      intros H; injection H as <- <-. apply cut_chunk_ok in Ec as [Hr Hs]. simpl.
      assert (L : length (cm_ranges c') = n) by (rewrite Hr, firstn_length; lia).
      rewrite L, Nat.ltb_irrefl, Nat.eqb_refl. reflexivity.
    + destruct (n =? length (cm_ranges c)) eqn:E2.
      * intros H; injection H as <- <-. simpl. now rewrite E1, E2.
      * destruct (limit_chunks r (n - length (cm_ranges c))) as [[r' lim']| |] eqn:Er; simpl; try discriminate.
        intros H; injection H as <- <-. simpl. rewrite E1, E2. now rewrite (IH _ _ _ Er).
Qed.

Lemma limit_lines_nocut ls n : snd (limit_lines ls n) <> 0 -> fst (limit_lines ls n) = ls.
Proof.
  revert n; induction ls as [|l r IH]; intros n; simpl; [reflexivity|].
  destruct (n <=? length (lm_frags l)); simpl; [congruence|].
  destruct (limit_lines r (n - length (lm_frags l))) as [r' lim'] eqn:Er. simpl.
  intros H. specialize (IH (n - length (lm_frags l))). rewrite Er in IH. simpl in IH. now rewrite IH.
Qed.

Lemma limit_chunks_nocut cs n res rem : limit_chunks cs n = Ok (res, rem) -> rem <> 0 -> res = cs.
Proof.
  revert n res rem; induction cs as [|c r IH]; intros n res rem; simpl.
  - intros H; injection H as <- <-. reflexivity.
  - destruct (n <? length (cm_ranges c)).
    + destruct (cut_chunk c n); simpl; try discriminate. intros H; injection H as <- <-. congruence.
    + destruct (n =? length (cm_ranges c)).
      * intros H; injection H as <- <-. congruence.
      * destruct (limit_chunks r (n - length (cm_ranges c))) as [[r' lim']| |] eqn:Er; simpl; try discriminate.
        intros H; injection H as <- <-. intros Hr. now rewrite (IH _ _ _ Er Hr).
Qed.

(** ** limitMatches *)
Lemma limit_file_spec ch f n f' rem :
  limit_file ch f n = Ok (f', rem) ->
  units ch f' = firstn n (units ch f) /\ rem = n - length (units ch f) /\ file_cut ch f' f /\
  limit_file ch f' n = Ok (f', rem) /\ (rem <> 0 -> f' = f).
Proof.
  unfold limit_file, units, file_cut. destruct ch.
  - destruct (limit_chunks (f_chunks f) n) as [[cs lim]| |] eqn:E; simpl; try discriminate.
    intros H; injection H as <- <-. simpl.
    destruct (limit_chunks_units _ _ _ _ E) as [H1 H2].
    repeat split; auto. { eapply limit_chunks_prefix; eauto. }
    { rewrite (limit_chunks_idem _ _ _ _ E). simpl. reflexivity. }
    intros Hr. rewrite (limit_chunks_nocut _ _ _ _ E Hr). now destruct f.
  - destruct (limit_lines (f_lines f) n) as [ls lim] eqn:E.
    intros H; injection H as <- <-. simpl.
    pose proof (limit_lines_units (f_lines f) n) as [H1 H2]. rewrite E in H1, H2. simpl in H1, H2.
    repeat split; auto.
    { pose proof (limit_lines_prefix (f_lines f) n) as P. now rewrite E in P. }
    { pose proof (limit_lines_idem (f_lines f) n) as I. rewrite E in I. simpl in I. rewrite I. reflexivity. }
    intros Hr. pose proof (limit_lines_nocut (f_lines f) n) as NC. rewrite E in NC. simpl in NC.
    rewrite (NC Hr). now destruct f.
Qed.

Lemma limit_matches_spec ch fs n res rem :
  limit_matches ch fs n = Ok (res, rem) ->
  flat ch res = firstn n (flat ch fs) /\ rem = n - length (flat ch fs) /\
  lprefix (file_cut ch) res fs /\ limit_matches ch res n = Ok (res, rem).
Proof.
  revert n res rem; induction fs as [|f r IH]; intros n res rem; simpl.
  - intros H; injection H as <- <-. rewrite firstn_nil. repeat split; try constructor. simpl; lia.
  - destruct (limit_file ch f n) as [[f' lim]| |] eqn:Ef; simpl; try discriminate.
    destruct (limit_file_spec _ _ _ _ _ Ef) as (U & L & C & I & NC).
    destruct (lim =? 0) eqn:E0.
    + intros H; injection H as <- <-. unfold flat; simpl. rewrite app_nil_r, U.
      assert (n <= length (units ch f)) by lia.
      rewrite firstn_app_le by (rewrite map_length; lia). rewrite firstn_map, app_length, map_length.
      repeat split; [destruct C as (C1 & _); now rewrite C1 | lia | now apply lp_last |]. rewrite I. simpl. now rewrite E0.
    + destruct (limit_matches ch r lim) as [[r' lim']| |] eqn:Er; simpl; try discriminate.
      intros H; injection H as <- <-. destruct (IH _ _ _ Er) as (F & L' & P & I').
      assert (length (units ch f) < n) by lia.
      assert (U' : units ch f' = units ch f) by (rewrite U; apply firstn_all2; lia).
      unfold flat in *; simpl. rewrite F, U'. rewrite firstn_app_ge by (rewrite map_length; lia).
      rewrite app_length, !map_length. replace (n - length (units ch f)) with lim by lia.
      assert (Ef' : f' = f) by (apply NC; lia). subst f'.
      repeat split; [lia| now constructor |].
      rewrite I. simpl. rewrite E0. rewrite I'. reflexivity.
Qed.

(** ** One fresh DisplayTruncator call *)
Definition dlimit (o : topts) (fs : list file) : list file :=
  if doc_limited o then firstn (Z.to_nat (o_doc o)) fs else fs.
Definition mlimit {A} (o : topts) (l : list A) : list A :=
  if match_limited o then firstn (Z.to_nat (o_match o)) l else l.

Lemma lprefix_length {A} (R : A -> A -> Prop) a b : lprefix R a b -> length a <= length b.
Proof. induction 1; simpl; lia. Qed.

Lemma dlimit_length o fs : doc_limited o = true -> length (dlimit o fs) <= Z.to_nat (o_doc o).
Proof. unfold dlimit. intros ->. rewrite firstn_length. lia. Qed.

Lemma dlimit_prefix R o fs : @lprefix file R (dlimit o fs) fs.
Proof. unfold dlimit. destruct (doc_limited o); [apply lprefix_firstn | apply lprefix_refl]. Qed.

Lemma dlimit_small o fs : (doc_limited o = true -> length fs <= Z.to_nat (o_doc o)) -> dlimit o fs = fs.
Proof. unfold dlimit. destruct (doc_limited o); auto. intros H. apply firstn_all2. auto. Qed.

(** what [truncate] computes, without the closure state *)
Lemma truncate_unfold o fs :
  truncate o fs =
  if match_limited o
  then do p <- limit_matches (o_chunk o) (dlimit o fs) (Z.to_nat (o_match o)); Ok (fst p)
  else Ok (dlimit o fs).
Proof.
  unfold truncate, trunc_step, init_state, has_limits, dlimit. simpl.
  destruct (doc_limited o) eqn:D, (match_limited o) eqn:M; simpl; try reflexivity.
  - destruct (Z.to_nat (o_doc o) <=? length fs) eqn:E; simpl.
    + destruct (limit_matches (o_chunk o) (firstn (Z.to_nat (o_doc o)) fs) (Z.to_nat (o_match o))) as [[a b]| |]; reflexivity.
    + rewrite firstn_all2 by lia.
      destruct (limit_matches (o_chunk o) fs (Z.to_nat (o_match o))) as [[a b]| |]; reflexivity.
  - destruct (Z.to_nat (o_doc o) <=? length fs) eqn:E; simpl; [reflexivity|].
    now rewrite firstn_all2 by lia.
  - destruct (limit_matches (o_chunk o) fs (Z.to_nat (o_match o))) as [[a b]| |]; reflexivity.
Qed.

Theorem truncate_spec o fs res :
  truncate o fs = Ok res ->
  flat (o_chunk o) res = mlimit o (flat (o_chunk o) (dlimit o fs)) /\
  lprefix (file_cut (o_chunk o)) res fs /\
  (doc_limited o = true -> length res <= Z.to_nat (o_doc o)) /\
  (match_limited o = true -> total (o_chunk o) res <= Z.to_nat (o_match o)) /\
  (match_limited o = false -> res = dlimit o fs) /\
  truncate o res = Ok res.
Proof.
  rewrite truncate_unfold. unfold mlimit. destruct (match_limited o) eqn:M.
  - destruct (limit_matches (o_chunk o) (dlimit o fs) (Z.to_nat (o_match o))) as [[r rem]| |] eqn:E; simpl; try discriminate.
    intros H; injection H as <-. destruct (limit_matches_spec _ _ _ _ _ E) as (F & L & P & I).
    assert (PL : lprefix (file_cut (o_chunk o)) r fs).
    { unfold dlimit in P. destruct (doc_limited o); [eapply lprefix_of_firstn; eauto | assumption]. }
    assert (DL : doc_limited o = true -> length r <= Z.to_nat (o_doc o)).
    { intros D. apply lprefix_length in P. pose proof (dlimit_length o fs D). lia. }
    repeat split; auto.
    + intros _. unfold total. rewrite F, firstn_length. lia.
    + discriminate.
    + rewrite truncate_unfold, M. rewrite (dlimit_small o r DL). rewrite I. reflexivity.
  - intros H; injection H as <-. repeat split; auto.
    + apply dlimit_prefix.
    + apply dlimit_length.
    + discriminate.
    + rewrite truncate_unfold, M. rewrite dlimit_small; [reflexivity|]. apply dlimit_length.
Qed.

(** ** Content trimming: whole lines.
    [unlines ls] = every line followed by its terminator. *)
Definition nl_free (l : list N) : Prop := Forall (fun c => c <> 10%N) l.
Definition unlines (ls : list (list N)) : list N := flat_map (fun l => l ++ [10%N]) ls.
(** reversed view: reversed lines, each preceded (in scan order) by its terminator *)
Definition revlines (rl : list (list N)) : list N := flat_map (fun l => 10%N :: rev l) rl.

Lemma rev_unlines ls : rev (unlines ls) = revlines (rev ls).
Proof.
  unfold unlines, revlines. induction ls as [|l r IH]; simpl; [reflexivity|].
  rewrite rev_app_distr, IH, flat_map_app. simpl. rewrite app_nil_r.
  rewrite rev_app_distr. simpl. reflexivity.
Qed.

Lemma rev_revlines rl : rev (revlines rl) = unlines (rev rl).
Proof.
  rewrite <- (rev_involutive rl) at 1. rewrite <- rev_unlines. apply rev_involutive.
Qed.

Lemma scan_line l rest n keep :
  nl_free l -> trim_scan (rev l ++ rest) n keep = trim_scan rest n keep \/ n = 0.
Proof.
  intros H. destruct n as [|n]; [now right|left].
  assert (H' : nl_free (rev l)) by (apply Forall_rev; exact H).
  induction H' as [|c r Hc Hr IH]; simpl; [reflexivity|].
  destruct (N.eqb_spec c 10); [contradiction|]. simpl. exact IH.
Qed.

Lemma scan_revlines rl n keep :
  Forall nl_free rl -> 1 <= n <= length rl ->
  trim_scan (revlines rl) n keep =
  Some (if keep then revlines (skipn (n - 1) rl) else tl (revlines (skipn (n - 1) rl))).
Proof.
  revert n; induction rl as [|l r IH]; intros n HF Hn; simpl in Hn; [lia|].
  inversion HF as [|? ? Hl Hr]; subst.
  destruct (Nat.eq_dec n 1) as [->|Hne].
  - simpl. destruct keep; reflexivity.
  - unfold revlines at 1. simpl. fold (revlines r).
    destruct n as [|[|n]]; try lia. simpl.
    destruct (scan_line l (revlines r) (S n) keep Hl) as [E|E]; [|discriminate].
    rewrite E. rewrite IH by (auto; simpl; lia). simpl. rewrite Nat.sub_0_r. reflexivity.
Qed.

(** terminated content: removing the last n of its lines keeps the leading lines, terminated *)
Theorem trim_content_terminated ls n :
  Forall nl_free ls -> 1 <= n < length ls ->
  trim_content (unlines ls) n = Some (unlines (firstn (length ls - n) ls)).
Proof.
  intros HF Hn. unfold trim_content. rewrite rev_unlines.
  assert (HR : Forall nl_free (rev ls)) by (apply Forall_rev; exact HF).
  destruct (rev ls) as [|l r] eqn:E.
  { apply (f_equal (@length _)) in E. rewrite rev_length in E. simpl in E. lia. }
  assert (Lr : length ls = S (length r)).
  { apply (f_equal (@length _)) in E. rewrite rev_length in E. exact E. }
  inversion HR as [|? ? Hl Hr]; subst.
  unfold revlines. simpl. fold (revlines r).
  destruct (scan_line l (revlines r) n true Hl) as [E2|E2]; [|lia].
  rewrite E2. rewrite scan_revlines by (auto; lia). simpl.
  rewrite rev_revlines. f_equal. f_equal.
  assert (R : skipn (n - 1) r = skipn n (rev ls)).
  { rewrite E. destruct n as [|n']; [lia|]. simpl. now rewrite Nat.sub_0_r. }
  rewrite R. rewrite skipn_rev, rev_involutive. reflexivity.
Qed.

Lemma trim_content_nonl content n c r :
  rev content = c :: r -> c <> 10%N ->
  trim_content content n = option_map (@rev N) (trim_scan (rev content) n false).
Proof.
  intros E Hc. unfold trim_content. rewrite E. destruct (N.eqb_spec c 10); [contradiction|reflexivity].
Qed.

(** content whose last line [l] is unterminated (end of file): the leading lines are kept and the
    new last line is left unterminated as well *)
Theorem trim_content_unterminated ls l n :
  Forall nl_free ls -> nl_free l -> l <> [] -> 1 <= n <= length ls ->
  trim_content (unlines ls ++ l) n = Some (removelast (unlines (firstn (length ls + 1 - n) ls))).
Proof.
  intros HF Hl Hne Hn.
  destruct (rev l) as [|c rl] eqn:El.
  { apply (f_equal (@rev _)) in El. rewrite rev_involutive in El. simpl in El. contradiction. }
  assert (Hc : c <> 10%N).
  { assert (HR : nl_free (rev l)) by (apply Forall_rev; exact Hl). rewrite El in HR. now inversion HR. }
  rewrite (trim_content_nonl _ n c (rl ++ revlines (rev ls))); auto.
  2:{ rewrite rev_app_distr, rev_unlines, El. reflexivity. }
  rewrite rev_app_distr, rev_unlines.
  destruct (scan_line l (revlines (rev ls)) n false Hl) as [E2|E2]; [|lia].
  rewrite E2. rewrite scan_revlines by (try apply Forall_rev; auto; rewrite rev_length; lia).
  simpl. f_equal.
  rewrite skipn_rev. replace (length ls - (n - 1)) with (length ls + 1 - n) by lia.
  rewrite <- rev_unlines.
  generalize (unlines (firstn (length ls + 1 - n) ls)). intros x.
  destruct x as [|a x _] using rev_ind; [reflexivity|].
  rewrite rev_app_distr. simpl. rewrite rev_involutive. now rewrite removelast_last.
Qed.

(** ** limitChunkMatches on one chunk: whole lines covering the remaining ranges plus the same
    number of trailing context lines *)
Theorem cut_chunk_whole_lines c ls k id e_new :
  cm_content c = unlines ls -> Forall nl_free ls ->
  1 <= k ->
  nth_error (cm_ranges c) (k - 1) = Some (id, e_new) ->
  (e_new <= last_end (cm_ranges c))%N ->
  N.to_nat (last_end (cm_ranges c) - e_new) < length ls ->
  cut_chunk c k =
  Ok {| cm_content := unlines (firstn (length ls - N.to_nat (last_end (cm_ranges c) - e_new)) ls);
        cm_ranges := firstn k (cm_ranges c); cm_sym := cm_sym c |}.
Proof.
  intros Hc HF Hk Hn He Hlen. unfold cut_chunk. destruct k as [|k]; [lia|].
  simpl in Hn. rewrite Nat.sub_0_r in Hn. rewrite Hn.
  destruct (N.ltb_spec (last_end (cm_ranges c)) e_new); [lia|].
  destruct (N.to_nat (last_end (cm_ranges c) - e_new)) as [|n] eqn:En.
  - rewrite Nat.sub_0_r, firstn_all, Hc. reflexivity.
  - rewrite Hc, trim_content_terminated by (auto; lia). reflexivity.
Qed.

Theorem cut_chunk_whole_lines_eof c ls l k id e_new :
  cm_content c = unlines ls ++ l -> Forall nl_free ls -> nl_free l -> l <> [] ->
  1 <= k ->
  nth_error (cm_ranges c) (k - 1) = Some (id, e_new) ->
  (e_new < last_end (cm_ranges c))%N ->
  N.to_nat (last_end (cm_ranges c) - e_new) <= length ls ->
  cut_chunk c k =
  Ok {| cm_content := removelast (unlines (firstn (length ls + 1 - N.to_nat (last_end (cm_ranges c) - e_new)) ls));
        cm_ranges := firstn k (cm_ranges c); cm_sym := cm_sym c |}.
Proof.
  intros Hc HF Hl Hne Hk Hn He Hlen. unfold cut_chunk. destruct k as [|k]; [lia|].
  simpl in Hn. rewrite Nat.sub_0_r in Hn. rewrite Hn.
  destruct (N.ltb_spec (last_end (cm_ranges c)) e_new); [lia|].
  destruct (N.to_nat (last_end (cm_ranges c) - e_new)) as [|n] eqn:En; [lia|].
  rewrite Hc, trim_content_unterminated by (auto; lia). reflexivity.
Qed.

(** ** The stateful truncator over a stream of batches (limitSender) = one truncation of the
    concatenated stream *)
Lemma limit_matches_app ch a b n ra rem :
  limit_matches ch a n = Ok (ra, rem) ->
  limit_matches ch (a ++ b) n =
  match rem, a with
  | 0, _ :: _ => Ok (ra, 0)
  | _, _ => do q <- limit_matches ch b rem; Ok (ra ++ fst q, snd q)
  end.
Proof.
  revert n ra rem; induction a as [|f r IH]; intros n ra rem; simpl.
  - intros H; injection H as <- <-. destruct (limit_matches ch b n) as [[x y]| |]; destruct n; reflexivity.
  - destruct (limit_file ch f n) as [[f' lim]| |] eqn:Ef; simpl; try discriminate.
    destruct (lim =? 0) eqn:E0.
    + intros H; injection H as <- <-. reflexivity.
    + destruct (limit_matches ch r lim) as [[r' lim']| |] eqn:Er; simpl; try discriminate.
      intros H; injection H as <- <-. rewrite (IH _ _ _ Er).
      destruct lim' as [|l']; destruct r as [|g r]; simpl.
      * simpl in Er. injection Er as _ E2. rewrite E2 in E0. discriminate.
      * reflexivity.
      * destruct (limit_matches ch b (S l')) as [[x y]| |]; reflexivity.
      * destruct (limit_matches ch b (S l')) as [[x y]| |]; reflexivity.
Qed.

Definition st_inv (o : topts) (st : tstate) : Prop :=
  t_done st = true \/ (match_limited o = true -> 0 < t_match st).

Lemma init_inv o : st_inv o (init_state o).
Proof. right. unfold match_limited, init_state. simpl. lia. Qed.

Lemma trunc_step_inv o st fm st1 f1 m1 :
  st_inv o st -> trunc_step o st fm = Ok (st1, f1, m1) -> st_inv o st1.
Proof.
  unfold trunc_step. intros I.
  destruct (has_limits o); simpl; [|intros H; injection H as <- _ _; exact I].
  destruct (t_done st) eqn:Dn; [intros H; injection H as <- _ _; left; exact Dn|].
  destruct (match_limited o) eqn:M.
  2:{ destruct (doc_limited o); [destruct (t_doc st <=? length fm)|]; simpl;
      intros H; injection H as <- _ _; right; intros Hm; congruence. }
  destruct (doc_limited o); [destruct (t_doc st <=? length fm)|]; simpl.
  all: match goal with |- context [limit_matches ?c ?l ?n] => destruct (limit_matches c l n) as [[r rem]| |]; simpl; try discriminate end.
  all: intros H; injection H as <- _ _; simpl; destruct rem; [left; simpl; now rewrite ?orb_true_r | right; simpl; lia].
Qed.

Lemma trunc_step_app o st b X st1 f1 m1 st2 f2 m2 :
  st_inv o st ->
  trunc_step o st b = Ok (st1, f1, m1) ->
  trunc_step o st1 X = Ok (st2, f2, m2) ->
  exists st' m', trunc_step o st (b ++ X) = Ok (st', f1 ++ f2, m').
Proof.
  intros I. unfold trunc_step at 1 3.
  destruct (has_limits o) eqn:HL; simpl.
  2:{ intros H; injection H as <- <- _. unfold trunc_step. rewrite HL. simpl.
      intros H; injection H as _ <- _. eauto. }
  destruct (t_done st) eqn:Dn.
  { intros H; injection H as <- <- _. unfold trunc_step. rewrite HL, Dn. simpl.
    intros H; injection H as _ <- _. eauto. }
  destruct I as [I|I]; [congruence|].
  (* a done successor state returns nothing *)
  assert (DONE : forall s, t_done s = true -> trunc_step o s X = Ok (st2, f2, m2) -> f2 = []).
  { intros s Hs. unfold trunc_step. rewrite HL, Hs. simpl. intros H; now injection H as _ <- _. }
  destruct (doc_limited o) eqn:DL; destruct (match_limited o) eqn:ML; simpl.
  - (* both limits *)
    destruct (t_doc st <=? length b) eqn:E; simpl.
    + destruct (limit_matches (o_chunk o) (firstn (t_doc st) b) (t_match st)) as [[r rem]| |] eqn:LM; simpl; try discriminate.
      intros H; injection H as <- <- _. intros H2. apply DONE in H2; [|reflexivity]. subst f2.
      rewrite app_length. replace (t_doc st <=? length b + length X) with true by lia. simpl.
      rewrite firstn_app_le by lia. rewrite LM. simpl. rewrite app_nil_r. eauto.
    + destruct (limit_matches (o_chunk o) b (t_match st)) as [[r rem]| |] eqn:LM; simpl; try discriminate.
      intros H; injection H as <- <- _.
      pose proof (limit_matches_app (o_chunk o) b) as APP.
      destruct rem as [|rem'].
      * intros H2. apply DONE in H2; [|reflexivity]. subst f2. rewrite app_nil_r.
        assert (Hb : b <> []). { intros ->. simpl in LM. injection LM as _ E2. specialize (I eq_refl). lia. }
        destruct b as [|b0 b']; [congruence|].
        destruct (t_doc st <=? length ((b0 :: b') ++ X)) eqn:E2.
        -- rewrite firstn_app_ge by lia. rewrite (APP _ _ _ _ LM). simpl. eauto.
        -- rewrite (APP _ _ _ _ LM). simpl. eauto.
      * unfold trunc_step. rewrite HL, DL, ML. simpl.
        rewrite app_length.
        destruct (t_doc st - length b <=? length X) eqn:E3; simpl.
        -- destruct (limit_matches (o_chunk o) (firstn (t_doc st - length b) X) (S rem')) as [[r2 rem2]| |] eqn:LM2; simpl; try discriminate.
           intros H; injection H as _ <- _.
           replace (t_doc st <=? length b + length X) with true by lia. simpl.
           rewrite firstn_app_ge by lia. rewrite (APP _ _ _ _ LM). rewrite LM2. simpl. eauto.
        -- destruct (limit_matches (o_chunk o) X (S rem')) as [[r2 rem2]| |] eqn:LM2; simpl; try discriminate.
           intros H; injection H as _ <- _.
           replace (t_doc st <=? length b + length X) with false by lia. simpl.
           rewrite (APP _ _ _ _ LM). rewrite LM2. simpl. eauto.
  - (* doc limit only *)
    destruct (t_doc st <=? length b) eqn:E; simpl.
    + intros H; injection H as <- <- _. intros H2. apply DONE in H2; [|reflexivity]. subst f2.
      rewrite app_length. replace (t_doc st <=? length b + length X) with true by lia. simpl.
      rewrite firstn_app_le by lia. rewrite app_nil_r. eauto.
    + intros H; injection H as <- <- _. unfold trunc_step. rewrite HL, DL, ML. simpl.
      rewrite app_length.
      destruct (t_doc st - length b <=? length X) eqn:E3; simpl.
      * intros H; injection H as _ <- _.
        replace (t_doc st <=? length b + length X) with true by lia. simpl.
        rewrite firstn_app_ge by lia. eauto.
      * intros H; injection H as _ <- _.
        replace (t_doc st <=? length b + length X) with false by lia. simpl. eauto.
  - (* match limit only *)
    destruct (limit_matches (o_chunk o) b (t_match st)) as [[r rem]| |] eqn:LM; simpl; try discriminate.
    intros H; injection H as <- <- _.
    pose proof (limit_matches_app (o_chunk o) b) as APP.
    destruct rem as [|rem'].
    + intros H2. apply DONE in H2; [|reflexivity]. subst f2. rewrite app_nil_r.
      assert (Hb : b <> []). { intros ->. simpl in LM. injection LM as _ E2. specialize (I eq_refl). lia. }
      destruct b as [|b0 b']; [congruence|]. rewrite (APP _ _ _ _ LM). simpl. eauto.
    + unfold trunc_step. rewrite HL, DL, ML. simpl.
      destruct (limit_matches (o_chunk o) X (S rem')) as [[r2 rem2]| |] eqn:LM2; simpl; try discriminate.
      intros H; injection H as _ <- _. rewrite (APP _ _ _ _ LM). rewrite LM2. simpl. eauto.
  - unfold has_limits in HL. rewrite DL, ML in HL. discriminate.
Qed.

Lemma trunc_step_nil o st : exists st' m', trunc_step o st [] = Ok (st', [], m').
Proof.
  unfold trunc_step. destruct (has_limits o); simpl; eauto.
  destruct (t_done st); eauto.
  destruct (doc_limited o), (match_limited o); simpl; try destruct (t_doc st <=? 0); simpl; eauto;
    rewrite ?firstn_nil; simpl; eauto.
Qed.

Theorem trunc_stream_concat_gen o st bs outs :
  st_inv o st -> trunc_stream o st bs = Ok outs ->
  exists st' m', trunc_step o st (concat bs) = Ok (st', concat (map fst outs), m').
Proof.
  revert st outs; induction bs as [|b r IH]; intros st outs I; simpl.
  - intros H; injection H as <-. simpl. apply trunc_step_nil.
  - destruct (trunc_step o st b) as [[[st1 f1] m1]| |] eqn:S1; simpl; try discriminate.
    destruct (trunc_stream o st1 r) as [rest| |] eqn:S2; simpl; try discriminate.
    intros H; injection H as <-. simpl.
    destruct (IH _ _ (trunc_step_inv _ _ _ _ _ _ I S1) S2) as (st2 & m2 & S3).
    eapply trunc_step_app; eauto.
Qed.

Theorem trunc_stream_concat o bs outs :
  trunc_stream o (init_state o) bs = Ok outs ->
  truncate o (concat bs) = Ok (concat (map fst outs)).
Proof.
  intros H. destruct (trunc_stream_concat_gen _ _ _ _ (init_inv o) H) as (st' & m' & S).
  unfold truncate. rewrite S. reflexivity.
Qed.

(** ** StreamSearch with a collecting phase: the flushed aggregate goes through limitSender's
    truncator once more; that second truncation is the identity *)
Lemma truncate_nil o : truncate o [] = Ok [].
Proof.
  rewrite truncate_unfold. unfold dlimit. destruct (match_limited o), (doc_limited o); simpl; rewrite ?firstn_nil; reflexivity.
Qed.

Definition trunc_fixed (o : topts) (agg : list file) : Prop := truncate o agg = Ok agg.

Lemma collect_sends_fixed o bs agg r :
  has_limits o = true -> trunc_fixed o agg -> collect_sends o agg bs = Ok r -> trunc_fixed o r.
Proof.
  intros HL. revert agg r. induction bs as [|b rest IH]; intros agg r HA; simpl.
  - intros H; injection H as <-. exact HA.
  - unfold collect_send. destruct b as [|f b].
    + simpl. apply IH. exact HA.
    + rewrite HL. destruct (sort_and_truncate o (agg ++ f :: b)) as [agg'| |] eqn:E; simpl; try discriminate.
      apply IH. unfold trunc_fixed. unfold sort_and_truncate in E.
      now destruct (truncate_spec _ _ _ E) as (_ & _ & _ & _ & _ & I).
Qed.

Theorem collect_then_truncate o bs r : collect o bs = Ok r -> truncate o r = Ok r.
Proof.
  unfold collect. destruct (collect_sends o [] bs) as [agg| |] eqn:E; simpl; try discriminate.
  destruct (has_limits o) eqn:HL.
  - intros H; injection H as <-. eapply collect_sends_fixed; eauto. unfold trunc_fixed. apply truncate_nil.
  - intros H. unfold sort_and_truncate in H. now destruct (truncate_spec _ _ _ H) as (_ & _ & _ & _ & _ & I).
Qed.
