(** Assembly lemmas for Props/C06.v (the Props file only states the theorems). *)
From ZV Require Import Lib.Base Model.Query Generated.ParserTables Model.Parser Model.QueryDoc Model.QueryDocRun.
From ZV Require Import Proofs.QueryDocTree Proofs.QueryDocParse Proofs.QuerySimplify Proofs.QueryDocSem.
From Coq Require Import String.
Open Scope N_scope.

Lemma parse_render_full :
  forall (rq : str -> rqres) (rx_auto rcompile : str -> bool) (lang : str -> option str) (q : dquery),
    wf_query rq rcompile q = true ->
    parse rq rx_auto rcompile lang (render q) = Ok (Simplify (den (rq_d rq) rx_auto lang q)).
Proof. intros. rewrite parse_render_iquery by assumption. apply iquery_den. assumption. Qed.

Lemma selects_documented_documents :
  forall (rq : str -> rqres) (rx_auto rcompile : str -> bool) (lang : str -> option str) (q : dquery),
    wf_query rq rcompile q = true ->
    exists t, parse rq rx_auto rcompile lang (render q) = Ok t /\
      forall (D : Type) (env : atoms D) (d : D), atoms_ok env ->
        eval env t d = sat_query (rq_d rq) rx_auto lang D env d q.
Proof.
  intros rq rx_auto rcompile lang q Hwf. eexists. split; [apply parse_render_full; exact Hwf|].
  intros D env d Hok. rewrite Simplify_preserves by exact Hok.
  change (den (rq_d rq) rx_auto lang q) with (den_expr (rq_d rq) rx_auto lang CAuto (DGroup q)).
  apply den_sat.
Qed.

Lemma case_auto_iff_upper :
  forall (rx_auto : str -> bool) (k : cflavor) (p : str) (cs f c : bool),
    setCase rx_auto (flavor_text k) (QSubstring p cs f c) =
    QSubstring p (match k with CYes => true | CNo => false | CAuto => existsb is_upper p end) f c.
Proof. intros. rewrite (setCase_lit rx_auto k). destruct k; reflexivity. Qed.

Definition lit_rq (t : str) : rqres := RQLit t.
Definition ex_parse (s : str) : outcome Q := parse lit_rq (fun _ => false) (fun _ => true) (fun _ => None) s.
Definition ex_den (q : dquery) : Q := den (rq_d lit_rq) (fun _ => false) (fun _ => None) q.
Definition ex_wf (q : dquery) : bool := wf_query lit_rq (fun _ => true) q.


Lemma compact_group_refuted :
  exists q : dquery, ex_wf q = true /\
    ex_parse (render q) = Ok (Simplify (ex_den q)) /\
    ex_parse (render_compact q) <> Ok (Simplify (ex_den q)).
Proof.
  exists [[DGroup [[DField FFile true (WPlain (dbs "x"))]]; DText (WPlain (dbs "y"))]].
  split; [vm_compute; reflexivity|]. split; [vm_compute; reflexivity|]. vm_compute. discriminate.
Qed.

Lemma regex_field_refuted :
  exists q : dquery, ex_parse (render q) = ex_parse (dbs "a") /\ ex_parse (render q) <> Ok (Simplify (ex_den q)).
Proof.
  exists [[DField FRegex false (WPlain (dbs "a"))]]. split; [vm_compute; reflexivity | vm_compute; discriminate].
Qed.

Definition toy : atoms str :=
  {| a_substr := fun p _ nm d => negb nm && (if index_sub p d then true else false) || is_nil p;
     a_regexp := fun re _ _ _ => N.eqb (rx_op re) OpEmptyMatch;
     a_symbol := fun _ _ => false; a_case := fun _ _ => false; a_lang := fun _ _ => false;
     a_filename := fun _ _ => false; a_branch := fun p _ _ => is_nil p; a_onbranch := fun _ _ => false;
     a_repo_re := fun _ _ => false; a_repo_name := fun _ _ => false; a_repo_id := fun _ _ => false;
     a_repo_meta := fun _ _ _ => false; a_repo_rc := fun _ => 0 |}.
Lemma toy_ok : atoms_ok toy.
Proof.
  constructor; intros; simpl.
  - apply orb_true_r.
  - apply N.eqb_eq. assumption.
  - reflexivity.
Qed.
