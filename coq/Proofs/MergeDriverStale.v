(** C35 — the "stale .meta" question: a sidecar <name>.zoekt.meta that waits at a name under which merge /
    Explode publish a new shard.
      1. such ORPHAN sidecars are reachable: a kill between the two removals of IndexFilePaths(shard)
         = [shard, shard.meta] leaves PMeta z without PZ z;
      2. the drivers BEFORE the repair ([merge_prog_before_fix], [explode_prog_before_fix]) let the new shard
         adopt the orphan: success is reported while a repository is not alive afterwards (tombstone in the
         orphan), and a sidecar naming a foreign repository even yields a duplicate (model level);
      3. the repaired drivers remove the orphan before the publishing rename (proofs in MergeDriverMerge /
         MergeDriverExplode); what remains as hypothesis there — the stale sidecar has no shard beside it — cannot
         be dropped in this model (shard contents are arbitrary lists here, not tied to the file name).
    Everything below is by computation on concrete directories. *)
From ZV Require Import Lib.Base Model.MergeDriver Proofs.MergeDriverFacts.

(** ---- deciding [no_dup] on a directory given as a list *)
Lemma mkfs_vis_in : forall l z r, In r (vis (mkfs l) z) -> exists n, In (PZ z, n) l.
Proof.
  intros l z r H. unfold vis, eff, mkfs in H.
  destruct (find (fun e => if path_eq_dec (fst e) (PZ z) then true else false) l) as [e|] eqn:E; [|destruct H].
  apply find_some in E. destruct E as [E1 E2].
  destruct (path_eq_dec (fst e) (PZ z)) as [E3|]; [|discriminate].
  exists (snd e). rewrite <- E3. destruct e; auto.
Qed.

Definition znames_of (l : list (path * node)) : list zname :=
  flat_map (fun e => match fst e with PZ z => [z] | _ => [] end) l.
Definition no_dup_b (l : list (path * node)) : bool :=
  forallb (fun z1 => forallb (fun z2 =>
     if zname_eq_dec z1 z2 then true
     else forallb (fun r => negb (existsb (N.eqb r) (vis (mkfs l) z2))) (vis (mkfs l) z1))
     (znames_of l)) (znames_of l).
Lemma no_dup_b_sound : forall l, no_dup_b l = true -> no_dup (mkfs l).
Proof.
  intros l H z1 z2 r H1 H2.
  assert (I : forall z, In r (vis (mkfs l) z) -> In z (znames_of l)).
  { intros z Hz. destruct (mkfs_vis_in _ _ _ Hz) as [n Hn]. unfold znames_of. apply in_flat_map.
    exists (PZ z, n). split; simpl; auto. }
  unfold no_dup_b in H. rewrite forallb_forall in H. specialize (H z1 (I z1 H1)).
  rewrite forallb_forall in H. specialize (H z2 (I z2 H2)).
  destruct (zname_eq_dec z1 z2) as [E|N]; [exact E|exfalso].
  rewrite forallb_forall in H. specialize (H r H1).
  apply Bool.negb_true_iff in H.
  assert (X : existsb (N.eqb r) (vis (mkfs l) z2) = true).
  { apply existsb_exists. exists r. split; auto. apply N.eqb_refl. }
  congruence.
Qed.

(** ---- orphan sidecar: the .meta exists, the shard of that name does not *)
Definition orphan_at (z : zname) (s : fs) : bool :=
  negb (N.eqb (node_kind s (PMeta z)) 0) && N.eqb (node_kind s (PZ z)) 0.
Lemma orphan_at_spec : forall z s, orphan_at z s = true -> s (PMeta z) <> None /\ s (PZ z) = None.
Proof.
  intros z s H. unfold orphan_at, node_kind in H. apply andb_prop in H. destruct H as [H1 H2].
  split.
  - intro E. rewrite E in H1. discriminate.
  - destruct (s (PZ z)) as [[|]|]; try discriminate. reflexivity.
Qed.

Lemma run_pair : forall (A B : Type) (x : A * B) (a : A), fst x = a -> x = (a, snd x).
Proof. intros A B [u v] a H. simpl in *. subst. reflexivity. Qed.

Definition rm (i p : N) (t : bool) : rmeta := {| rm_id := i; rm_prio := p; rm_tomb := t |}.
Definition no_faults : op -> nat -> bool := fun _ _ => false.
Definition idsh : shuffle := fun l => l.

(** ================= 1. reachability of the orphan state ================= *)
(** compound {2,1} with a sidecar (repo 1 tombstoned, as zoekt-sourcegraph-indexserver does) and a simple shard 3 *)
Definition st_files : list (path * node) :=
  [ (PZ (ZCompound [2; 1]), File (CShard [rm 2 20 false; rm 1 10 false]));
    (PMeta (ZCompound [2; 1]), File (CMeta [rm 2 20 false; rm 1 10 true]));
    (PZ (ZSimple 3), File (CShard [rm 3 30 false])) ]%N.
Definition st_s0 : fs := mkfs st_files.
Lemma st_no_dup : no_dup st_s0.
Proof. apply no_dup_b_sound. vm_compute. reflexivity. Qed.

(** merge of the two shards, no injected fault: the state before the removal of the compound's sidecar has the
    sidecar but not the shard (merge's input deletion uses IndexFilePaths = [shard, shard.meta], in that order) *)
Lemma orphan_reachable_merge :
  exists (plan : op -> nat -> bool) (s0 : fs) (names : list zname) (z : zname),
    no_dup s0 /\ s0 (PZ z) <> None /\
    exists r w s, run_merge plan s0 names = (r, w) /\ In s (crash_states w) /\
                  s (PMeta z) <> None /\ s (PZ z) = None.
Proof.
  exists no_faults, st_s0, [ZCompound [2; 1]; ZSimple 3]%N, (ZCompound [2; 1]%N).
  split; [exact st_no_dup|]. split; [vm_compute; discriminate|].
  set (X := run_merge no_faults st_s0 [ZCompound [2; 1]; ZSimple 3]%N).
  assert (E : existsb (orphan_at (ZCompound [2; 1]%N)) (crash_states (snd X)) = true) by (vm_compute; reflexivity).
  apply existsb_exists in E. destruct E as [s [Hs Ho]]. apply orphan_at_spec in Ho.
  exists (fst X), (snd X), s. split; [apply surjective_pairing|]. tauto.
Qed.

Lemma orphan_reachable_explode :
  exists (plan : op -> nat -> bool) (sr sc st : shuffle) (s0 : fs) (c : zname),
    no_dup s0 /\ s0 (PZ c) <> None /\
    exists r w s, run_explode plan sr sc st s0 c = (r, w) /\ In s (crash_states w) /\
                  s (PMeta c) <> None /\ s (PZ c) = None.
Proof.
  exists no_faults, idsh, idsh, idsh, st_s0, (ZCompound [2; 1]%N).
  split; [exact st_no_dup|]. split; [vm_compute; discriminate|].
  set (X := run_explode no_faults idsh idsh idsh st_s0 (ZCompound [2; 1]%N)).
  assert (E : existsb (orphan_at (ZCompound [2; 1]%N)) (crash_states (snd X)) = true) by (vm_compute; reflexivity).
  apply existsb_exists in E. destruct E as [s [Hs Ho]]. apply orphan_at_spec in Ho.
  exists (fst X), (snd X), s. split; [apply surjective_pairing|]. tauto.
Qed.

(** ================= 2. adoption by the drivers before the repair ================= *)
(** simple shards 1 and 2 (re-indexed), and the orphan sidecar of the earlier compound {2,1} in which repo 1
    was tombstoned *)
Definition ad_merge_files : list (path * node) :=
  [ (PZ (ZSimple 1), File (CShard [rm 1 10 false]));
    (PZ (ZSimple 2), File (CShard [rm 2 20 false]));
    (PMeta (ZCompound [2; 1]), File (CMeta [rm 2 20 false; rm 1 10 true])) ]%N.
Definition ad_merge_s0 : fs := mkfs ad_merge_files.
Definition ad_merge_names : list zname := [ZSimple 1; ZSimple 2]%N.

Lemma merge_success_truthful_before_fix_refuted :
  exists (plan : op -> nat -> bool) (s0 : fs) (names : list zname) (d : zname) (w : world),
    no_dup s0 /\ (s0 (PZ d) = None /\ s0 (PMeta d) <> None) /\
    run_merge_before_fix plan s0 names = (ROk (Some d), w) /\
    exists z r, In z names /\ In r (vis s0 z) /\ ~ In r (vis (w_fs w) d).
Proof.
  set (X := run_merge_before_fix no_faults ad_merge_s0 ad_merge_names).
  exists no_faults, ad_merge_s0, ad_merge_names, (ZCompound [2; 1]%N), (snd X).
  split; [apply no_dup_b_sound; vm_compute; reflexivity|].
  split; [split; [vm_compute; reflexivity|vm_compute; discriminate]|].
  split; [apply run_pair; vm_compute; reflexivity|].
  exists (ZSimple 1%N), 1%N. split; [simpl; auto|]. split; [vm_compute; auto|].
  assert (E : vis (w_fs (snd X)) (ZCompound [2; 1]%N) = [2%N]) by (vm_compute; reflexivity).
  rewrite E. intros [H|[]]. discriminate.
Qed.

(** the same directory through the repaired driver: both repositories alive in the compound, sidecar gone *)
Lemma merge_orphan_after_fix :
  let X := run_merge no_faults ad_merge_s0 ad_merge_names in
  fst X = ROk (Some (ZCompound [2; 1]%N)) /\ vis (w_fs (snd X)) (ZCompound [2; 1]%N) = [2; 1]%N /\
  w_fs (snd X) (PMeta (ZCompound [2; 1]%N)) = None.
Proof. vm_compute. auto. Qed.

(** compound {2,1}; at the name of repo 1's simple shard waits an orphan sidecar saying "tombstoned" *)
Definition ad_expl_files : list (path * node) :=
  [ (PZ (ZCompound [2; 1]), File (CShard [rm 2 20 false; rm 1 10 false]));
    (PMeta (ZSimple 1), File (CMeta [rm 1 10 true])) ]%N.
Definition ad_expl_s0 : fs := mkfs ad_expl_files.

Lemma explode_success_truthful_before_fix_refuted :
  exists (plan : op -> nat -> bool) (sr sc st : shuffle) (s0 : fs) (c : zname) (x : option zname) (w : world),
    (forall l, sr l = l) /\ no_dup s0 /\
    run_explode_before_fix plan sr sc st s0 c = (ROk x, w) /\
    exists r, In r (vis s0 c) /\ s0 (PZ (ZSimple r)) = None /\ s0 (PMeta (ZSimple r)) <> None /\
              vis (w_fs w) (ZSimple r) = [].
Proof.
  set (X := run_explode_before_fix no_faults idsh idsh idsh ad_expl_s0 (ZCompound [2; 1]%N)).
  exists no_faults, idsh, idsh, idsh, ad_expl_s0, (ZCompound [2; 1]%N), None, (snd X).
  split; [reflexivity|].
  split; [apply no_dup_b_sound; vm_compute; reflexivity|].
  split; [apply run_pair; vm_compute; reflexivity|].
  exists 1%N. split; [vm_compute; auto|]. split; [vm_compute; reflexivity|]. split; [vm_compute; discriminate|].
  vm_compute. reflexivity.
Qed.

Lemma explode_orphan_after_fix :
  let X := run_explode no_faults idsh idsh idsh ad_expl_s0 (ZCompound [2; 1]%N) in
  fst X = ROk None /\ vis (w_fs (snd X)) (ZSimple 1%N) = [1%N] /\ vis (w_fs (snd X)) (ZSimple 2%N) = [2%N] /\
  w_fs (snd X) (PMeta (ZSimple 1%N)) = None.
Proof. vm_compute. auto. Qed.

(** duplicates: only with a sidecar that names a repository foreign to the file name it sits at (a model-level
    witness: the tools never write such a sidecar; repository 3 is alive in its own shard) *)
Definition dup_merge_files : list (path * node) :=
  [ (PZ (ZSimple 1), File (CShard [rm 1 10 false]));
    (PZ (ZSimple 2), File (CShard [rm 2 20 false]));
    (PZ (ZSimple 3), File (CShard [rm 3 30 false]));
    (PMeta (ZCompound [2; 1]), File (CMeta [rm 3 30 false])) ]%N.
Lemma merge_no_duplicate_visibility_before_fix_refuted :
  exists (plan : op -> nat -> bool) (s0 : fs) (names : list zname) (r : res) (w : world),
    no_dup s0 /\ run_merge_before_fix plan s0 names = (r, w) /\ ~ no_dup (w_fs w).
Proof.
  set (X := run_merge_before_fix no_faults (mkfs dup_merge_files) ad_merge_names).
  exists no_faults, (mkfs dup_merge_files), ad_merge_names, (fst X), (snd X).
  split; [apply no_dup_b_sound; vm_compute; reflexivity|]. split; [apply surjective_pairing|].
  intro H. specialize (H (ZCompound [2; 1]%N) (ZSimple 3%N) 3%N).
  assert (E : ZCompound [2; 1]%N = ZSimple 3%N); [|discriminate].
  apply H; vm_compute; auto.
Qed.

Definition dup_expl_files : list (path * node) :=
  [ (PZ (ZCompound [2; 1]), File (CShard [rm 2 20 false; rm 1 10 false]));
    (PZ (ZSimple 3), File (CShard [rm 3 30 false]));
    (PMeta (ZSimple 1), File (CMeta [rm 3 30 false])) ]%N.
Lemma explode_no_duplicate_visibility_before_fix_refuted :
  exists (plan : op -> nat -> bool) (sr sc st : shuffle) (s0 : fs) (c : zname) (r : res) (w : world),
    (forall l, sr l = l) /\ no_dup s0 /\ run_explode_before_fix plan sr sc st s0 c = (r, w) /\ ~ no_dup (w_fs w).
Proof.
  set (X := run_explode_before_fix no_faults idsh idsh idsh (mkfs dup_expl_files) (ZCompound [2; 1]%N)).
  exists no_faults, idsh, idsh, idsh, (mkfs dup_expl_files), (ZCompound [2; 1]%N), (fst X), (snd X).
  split; [reflexivity|].
  split; [apply no_dup_b_sound; vm_compute; reflexivity|]. split; [apply surjective_pairing|].
  intro H. specialize (H (ZSimple 1%N) (ZSimple 3%N) 3%N).
  assert (E : ZSimple 1%N = ZSimple 3%N); [|discriminate].
  apply H; vm_compute; auto.
Qed.

(** ================= the whole chain, by computation =================
    explode of the compound {2,1} whose sidecar tombstones repo 1 is killed between the removal of the
    compound and the removal of its sidecar; the indexer brings repos 1 and 2 back as simple shards; the next
    merge of {1,2} produces the SAME compound name and (before the repair) reads it through the orphan *)
Definition chain_files : list (path * node) :=
  [ (PZ (ZCompound [2; 1]), File (CShard [rm 2 20 false; rm 1 10 false]));
    (PMeta (ZCompound [2; 1]), File (CMeta [rm 2 20 false; rm 1 10 true])) ]%N.
Definition reindexed (s : fs) : fs :=
  upd (upd s (PZ (ZSimple 1%N)) (Some (File (CShard [rm 1 10 false]))))
      (PZ (ZSimple 2%N)) (Some (File (CShard [rm 2 20 false]))).
Definition chain_check (fixed : bool) : bool :=
  let w := snd (run_explode no_faults idsh idsh idsh (mkfs chain_files) (ZCompound [2; 1]%N)) in
  existsb (fun s =>
     orphan_at (ZCompound [2; 1]%N) s &&
     match merge_prog_gen no_faults fixed ad_merge_names (init_world (reindexed s)) with
     | (ROk (Some d), w') =>
         (if zname_eq_dec d (ZCompound [2; 1]%N) then true else false) &&
         negb (existsb (N.eqb 1) (vis (w_fs w') d))        (* success reported, repo 1 not alive *)
     | _ => false
     end) (crash_states w).
Lemma chain_before_fix : chain_check false = true.
Proof. vm_compute. reflexivity. Qed.
Lemma chain_after_fix : chain_check true = false.
Proof. vm_compute. reflexivity. Qed.

(** ================= 3. the remaining hypothesis cannot be dropped in this model =================
    a shard named like repo 1's simple shard but holding repo 2 (tombstoned by ITS sidecar), repo 2 alive in its
    own shard: the repaired Explode removes that sidecar before the rename, and a kill right there leaves repo 2
    alive twice.  Real shard names are derived from the repository they hold, so this needs a file name that
    lies about its content; the model does not tie contents to names. *)
Definition hyp_files : list (path * node) :=
  [ (PZ (ZCompound [1]), File (CShard [rm 1 10 false]));
    (PZ (ZSimple 1), File (CShard [rm 2 20 false]));
    (PMeta (ZSimple 1), File (CMeta [rm 2 20 true]));
    (PZ (ZSimple 2), File (CShard [rm 2 20 false])) ]%N.
Definition dup_b (s : fs) (z1 z2 : zname) (r : N) : bool :=
  existsb (N.eqb r) (vis s z1) && existsb (N.eqb r) (vis s z2).
Lemma dup_b_spec : forall s z1 z2 r, z1 <> z2 -> dup_b s z1 z2 r = true -> ~ no_dup s.
Proof.
  intros s z1 z2 r Hne H Hnd. unfold dup_b in H. apply andb_prop in H. destruct H as [H1 H2].
  apply existsb_exists in H1. destruct H1 as [x [I1 E1]]. apply N.eqb_eq in E1. subst x.
  apply existsb_exists in H2. destruct H2 as [x [I2 E2]]. apply N.eqb_eq in E2. subst x.
  exact (Hne (Hnd z1 z2 r I1 I2)).
Qed.
Lemma explode_no_duplicate_visibility_needs_orphan_hypothesis :
  exists (plan : op -> nat -> bool) (sr sc st : shuffle) (s0 : fs) (c : zname) (r : res) (w : world) (s : fs),
    (forall l, sr l = l) /\ (forall l, st l = l) /\ no_dup s0 /\
    run_explode plan sr sc st s0 c = (r, w) /\ In s (crash_states w) /\ ~ no_dup s.
Proof.
  set (X := run_explode no_faults idsh idsh idsh (mkfs hyp_files) (ZCompound [1]%N)).
  assert (E : existsb (fun s => dup_b s (ZSimple 1%N) (ZSimple 2%N) 2%N) (crash_states (snd X)) = true)
    by (vm_compute; reflexivity).
  apply existsb_exists in E. destruct E as [s [Hs Hd]].
  exists no_faults, idsh, idsh, idsh, (mkfs hyp_files), (ZCompound [1]%N), (fst X), (snd X), s.
  split; [reflexivity|]. split; [reflexivity|].
  split; [apply no_dup_b_sound; vm_compute; reflexivity|]. split; [apply surjective_pairing|].
  split; [exact Hs|]. eapply dup_b_spec; [|exact Hd]. discriminate.
Qed.
