(** C11 — the posting-list iterator terminates on arbitrary bytes (Model/FormatPosting.v). *)
From Coq Require Import Lia ZifyBool ZifyNat ZifyN.
From ZV Require Import Lib.Base Lib.Varint Generated.FormatConsts Model.Format Model.Btree Model.FormatRobust Model.FormatStats
  Model.FormatPosting Proofs.FormatRobust.
Open Scope N_scope.

Lemma blob_nil_len : forall l, blob_nil l = true <-> length l = 0%nat.
Proof. destruct l; simpl; split; intros; try reflexivity; try discriminate. Qed.

Lemma slice_from_z_ok : forall m l, (0 <= m <= Z.of_nat (length l))%Z ->
  slice_from_z m l = Ok (skipn (Z.to_nat m) l).
Proof. intros m l H. unfold slice_from_z. replace ((m <? 0)%Z || (Z.of_nat (length l) <? m)%Z) with false by lia. reflexivity. Qed.

(** Uvarint never reports more bytes than the buffer holds *)
Lemma uvarint_nonneg_le : forall b d sz, uvarint b = (d, sz) -> (0 <= sz)%Z -> (sz <= Z.of_nat (length b))%Z.
Proof.
  intros b d sz E H. destruct (Z.eq_dec sz 0) as [->|Hne]; [lia|].
  pose proof (uvarint_len _ _ _ E ltac:(lia)). lia.
Qed.

Lemma guard_le0 : forall sz, guard_fires g_le0 sz = (sz <=? 0)%Z.
Proof. intros sz. unfold guard_fires, g_le0. simpl. lia. Qed.

(** newCompressedPostingIterator: no panic, the iterator's blob is a suffix of the list *)
Lemma cpi_new_total : forall b, exists it, cpi_new true b = Ok it /\ (length (cpi_blob it) <= length b)%nat.
Proof.
  intros b. unfold cpi_new. destruct (uvarint b) as [d sz] eqn:E. simpl andb.
  destruct (sz <? 0)%Z eqn:Es.
  - eexists. split; [reflexivity|simpl; lia].
  - pose proof (uvarint_nonneg_le _ _ _ E ltac:(lia)) as Hle.
    rewrite slice_from_z_ok by lia. simpl. eexists. split; [reflexivity|]. simpl. rewrite skipn_length. lia.
Qed.

(** the loop of next with the guard `sz <= 0`: when the fuel covers the blob it is never exhausted; every iteration
    consumes at least one byte: iterations + remaining bytes <= bytes at the start *)
Lemma cpi_loop_total : forall fuel limit it s, (length (cpi_blob it) <= fuel)%nat ->
  exists it' s', cpi_loop g_le0 fuel limit it s = Ok (it', s')
    /\ s' + nlen (cpi_blob it') <= s + nlen (cpi_blob it) /\ (length (cpi_blob it') <= length (cpi_blob it))%nat.
Proof.
  induction fuel as [|f IH]; intros limit it s Hf.
  - assert (Hn : blob_nil (cpi_blob it) = true) by (apply blob_nil_len; lia).
    simpl. rewrite Hn, Bool.andb_false_r. exists it, s. split; [reflexivity|lia].
  - cbn [cpi_loop]. destruct ((cpi_first it <=? limit) && negb (blob_nil (cpi_blob it))) eqn:Ec;
      [|exists it, s; split; [reflexivity|lia]].
    assert (Hne : length (cpi_blob it) <> 0%nat).
    { intro H0. apply blob_nil_len in H0. rewrite H0, Bool.andb_false_r in Ec. discriminate. }
    destruct (uvarint (cpi_blob it)) as [delta sz] eqn:Eu. rewrite guard_le0.
    destruct (sz <=? 0)%Z eqn:Es.
    + eexists _, _. split; [reflexivity|]. simpl. unfold nlen. simpl. lia.
    + pose proof (uvarint_len _ _ _ Eu ltac:(lia)) as Hm.
      rewrite slice_from_z_ok by lia. simpl obind.
      set (it1 := mkCpi _ _ _).
      destruct (IH limit it1 (s + 1)) as (it' & s' & E & Hb & Hl).
      { unfold it1. simpl. rewrite skipn_length. lia. }
      exists it', s'. split; [exact E|]. unfold it1 in Hb, Hl. simpl in Hb, Hl. unfold nlen in *. rewrite skipn_length in Hb, Hl. lia.
Qed.

Lemma cpi_next_total : forall limit it,
  exists it' s, cpi_next g_le0 limit it = Ok (it', s) /\ s + nlen (cpi_blob it') <= nlen (cpi_blob it).
Proof.
  intros limit it. unfold cpi_next. destruct (limit =? MaxU32).
  - eexists _, _. split; [reflexivity|]. unfold nlen. simpl. lia.
  - destruct (cpi_loop_total (length (cpi_blob it)) limit it 0 ltac:(lia)) as (it' & s' & E & Hb & _).
    rewrite E. simpl obind. cbn [fst snd].
    destruct ((cpi_first it' <=? limit) && blob_nil (cpi_blob it')).
    + eexists _, _. split; [reflexivity|]. unfold nlen in *. simpl. lia.
    + exists it', s'. split; [reflexivity|lia].
Qed.

(** ANY sequence of next calls: all loop iterations together are paid for by bytes of the list *)
Lemma cpi_run_total : forall limits it s0,
  exists it' s, cpi_run g_le0 limits it s0 = Ok (it', s) /\ s + nlen (cpi_blob it') <= s0 + nlen (cpi_blob it).
Proof.
  induction limits as [|l r IH]; intros it s0.
  - exists it, s0. split; [reflexivity|lia].
  - destruct (cpi_next_total l it) as (it1 & s1 & E1 & H1). cbn [cpi_run]. rewrite E1. simpl obind. cbn [fst snd].
    destruct (IH it1 (s0 + s1)) as (it' & s & E & H). exists it', s. split; [exact E|lia].
Qed.

(** the complete walk: first() after next(first()) is MaxUint32 or the blob got shorter *)
Lemma cpi_next_self : forall it it' s, cpi_first it <> MaxU32 -> cpi_next g_le0 (cpi_first it) it = Ok (it', s) ->
  cpi_first it' = MaxU32 \/ (length (cpi_blob it') < length (cpi_blob it))%nat.
Proof.
  intros it it' s Hne E. unfold cpi_next in E.
  replace (cpi_first it =? MaxU32) with false in E by lia.
  destruct (cpi_loop_total (length (cpi_blob it)) (cpi_first it) it 0 ltac:(lia)) as (it1 & s1 & E1 & Hb & _).
  rewrite E1 in E. simpl obind in E. cbn [fst snd] in E.
  destruct ((cpi_first it1 <=? cpi_first it) && blob_nil (cpi_blob it1)) eqn:Ec.
  - inversion E; subst. left. reflexivity.
  - inversion E; subst it' s. clear E.
    (* one unfolding of the loop: either the blob is empty (then the final test fires) or an iteration ran *)
    destruct (length (cpi_blob it)) as [|n] eqn:El.
    + assert (Hn : blob_nil (cpi_blob it) = true) by (apply blob_nil_len; exact El).
      simpl in E1. rewrite Hn, Bool.andb_false_r in E1. inversion E1; subst.
      rewrite Hn, N.leb_refl in Ec. discriminate.
    + cbn [cpi_loop] in E1.
      assert (Hn : blob_nil (cpi_blob it) = false).
      { destruct (blob_nil (cpi_blob it)) eqn:Hb'; [apply blob_nil_len in Hb'; lia|reflexivity]. }
      rewrite Hn, N.leb_refl in E1. simpl andb in E1. cbv iota in E1.
      destruct (uvarint (cpi_blob it)) as [delta sz] eqn:Eu. rewrite guard_le0 in E1.
      destruct (sz <=? 0)%Z eqn:Es.
      * inversion E1; subst. right. simpl. lia.
      * pose proof (uvarint_len _ _ _ Eu ltac:(lia)) as Hm.
        rewrite slice_from_z_ok in E1 by lia. simpl obind in E1.
        set (it2 := mkCpi _ _ _) in E1.
        match type of E1 with cpi_loop g_le0 n _ it2 ?s0 = _ =>
          destruct (cpi_loop_total n (cpi_first it) it2 s0) as (it3 & s3 & E3 & _ & Hb3) end.
        { unfold it2. simpl. rewrite skipn_length. lia. }
        rewrite E3 in E1. inversion E1; subst it3 s3. right.
        unfold it2 in Hb3. simpl in Hb3. rewrite skipn_length in Hb3. lia.
Qed.

Lemma cpi_walk_total : forall fuel it, (length (cpi_blob it) < fuel)%nat ->
  exists l, cpi_walk g_le0 fuel it = Ok l /\ (length l <= fuel)%nat.
Proof.
  induction fuel as [|f IH]; intros it Hf; [lia|].
  cbn [cpi_walk]. destruct (cpi_first it =? MaxU32) eqn:Em; [exists []; split; [reflexivity|simpl; lia]|].
  destruct (cpi_next_total (cpi_first it) it) as (it1 & s1 & E1 & H1). rewrite E1. simpl obind. cbn [fst].
  destruct (cpi_next_self it it1 s1 ltac:(lia) E1) as [Hmax|Hlt].
  - destruct f as [|f'].
    + simpl. rewrite Hmax. simpl. eexists. split; [reflexivity|simpl; lia].
    + cbn [cpi_walk]. rewrite Hmax. simpl. eexists. split; [reflexivity|simpl; lia].
  - destruct (IH it1 ltac:(lia)) as (l & El & Hl). rewrite El. simpl. eexists. split; [reflexivity|simpl; lia].
Qed.

Lemma postings_of_total : forall b, exists l, postings_of g_le0 true b = Ok l /\ (length l <= S (length b))%nat.
Proof.
  intros b. unfold postings_of. destruct (cpi_new_total b) as (it & E & Hl). rewrite E. simpl obind.
  destruct (cpi_walk_total (S (length (cpi_blob it))) it ltac:(lia)) as (l & El & Hll). exists l. split; [exact El|lia].
Qed.

(** locating and reading the posting list never panics (file_read returns a value or an error) *)
Lemma shard_ngram_search_total : forall d g, total (shard_ngram_search d g).
Proof.
  intros d g w. unfold shard_ngram_search. destruct (blob_of (i_file d) (i_ngramSec d)) as [t|e|w'] eqn:Eb; simpl.
  - apply file_read_total.
  - discriminate.
  - exfalso. exact (blob_of_total _ _ w' Eb).
Qed.
Lemma shard_name_ngram_search_total : forall d g, total (shard_name_ngram_search d g).
Proof.
  intros d g w. unfold shard_name_ngram_search. destruct (blob_of (i_file d) (i_nameNgramSec d)) as [t|e|w'] eqn:Eb; simpl.
  - apply file_read_total.
  - discriminate.
  - exfalso. exact (blob_of_total _ _ w' Eb).
Qed.

(** the search-time use of a posting list of ANY loaded shard, for ANY ngram and ANY sequence of limits: a result or a
    read error; all loop iterations of the iterator together are bounded by the length of the list *)
Lemma posting_walk_safe : forall d g limits,
  (exists e, posting_walk_g g_le0 true d g limits = Err e /\ shard_ngram_search d g = Err e)
  \/ (exists blob it s, shard_ngram_search d g = Ok blob /\ posting_walk_g g_le0 true d g limits = Ok (it, s) /\ s <= nlen blob).
Proof.
  intros d g limits. unfold posting_walk_g.
  destruct (shard_ngram_search d g) as [blob|e|w] eqn:Es.
  - right. cbn [obind]. destruct (cpi_new_total blob) as (it0 & E0 & H0). rewrite E0. cbn [obind].
    destruct (cpi_run_total limits it0 0) as (it & s & E & H). exists blob, it, s. repeat split; auto. unfold nlen in *. lia.
  - left. exists e. split; reflexivity.
  - exfalso. exact (shard_ngram_search_total d g w Es).
Qed.
Lemma name_posting_walk_safe : forall d g limits,
  (exists e, name_posting_walk_g g_le0 true d g limits = Err e /\ shard_name_ngram_search d g = Err e)
  \/ (exists blob it s, shard_name_ngram_search d g = Ok blob /\ name_posting_walk_g g_le0 true d g limits = Ok (it, s) /\ s <= nlen blob).
Proof.
  intros d g limits. unfold name_posting_walk_g.
  destruct (shard_name_ngram_search d g) as [blob|e|w] eqn:Es.
  - right. cbn [obind]. destruct (cpi_new_total blob) as (it0 & E0 & H0). rewrite E0. cbn [obind].
    destruct (cpi_run_total limits it0 0) as (it & s & E & H). exists blob, it, s. repeat split; auto. unfold nlen in *. lia.
  - left. exists e. split; reflexivity.
  - exfalso. exact (shard_name_ngram_search_total d g w Es).
Qed.

Lemma posting_walk_class : forall d g limits,
  classify_search (posting_walk_g g_le0 true d g limits) = SOk \/ classify_search (posting_walk_g g_le0 true d g limits) = SErr.
Proof.
  intros d g limits. destruct (posting_walk_safe d g limits) as [(e & E & _)|(b & it & s & _ & E & _)]; rewrite E; simpl; auto.
Qed.
Lemma name_posting_walk_class : forall d g limits,
  classify_search (name_posting_walk_g g_le0 true d g limits) = SOk \/ classify_search (name_posting_walk_g g_le0 true d g limits) = SErr.
Proof.
  intros d g limits. destruct (name_posting_walk_safe d g limits) as [(e & E & _)|(b & it & s & _ & E & _)]; rewrite E; simpl; auto.
Qed.

(** REFUTED for the guard `sz < 0`: a list that ends inside a varint makes the loop spin (the state no longer
    changes: the iteration returns to the same iterator) *)
Lemma cpi_guard_lt0_diverges :
  (exists it, cpi_new true wit_posting_trunc = Ok it /\ cpi_run g_lt0 [8; 22] it 0 = Panic P_DIVERGE)
  /\ postings_of g_lt0 true wit_posting_trunc = Panic P_DIVERGE
  /\ postings_of g_le0 true wit_posting_trunc = Ok [8; 22]
  /\ postings_of g_le0 true wit_posting_overflow = Ok [8].
Proof. vm_compute. split; [eexists; split; reflexivity|repeat split; reflexivity]. Qed.

(** ... and the spinning is real, not an artefact of the fuel: with the guard `sz < 0` one iteration on a blob that
    is a truncated varint leaves the iterator unchanged *)
Lemma cpi_guard_lt0_fixpoint : forall fuel limit it s d, uvarint (cpi_blob it) = (d, 0%Z) ->
  cpi_first it <= limit -> cpi_blob it <> [] ->
  cpi_loop g_lt0 (S fuel) limit it s
  = cpi_loop g_lt0 fuel limit (mkCpi ((cpi_first it + d mod W32) mod W32) (cpi_blob it) (cpi_loaded it + 0)) (s + 1).
Proof.
  intros fuel limit it s d Eu Hl Hne. cbn [cpi_loop].
  assert (Hn : blob_nil (cpi_blob it) = false) by (destruct (cpi_blob it); [contradiction|reflexivity]).
  rewrite Hn. replace (cpi_first it <=? limit) with true by lia. simpl andb. cbv iota.
  rewrite Eu. unfold guard_fires, g_lt0. simpl. rewrite slice_from_z_ok by lia. reflexivity.
Qed.
