(** C30, history level: "each enqueued repository is yielded once per enqueue".
    For a repository id, every step of a history is classified by what it does to id's presence on the
    heap: it enters (EEnq), it is handed out by Pop (EPop: the item Pop takes off the heap is id's), or it
    leaves in a step that is not a Pop (ECancel: failed SetIndexed, MaybeRemoveMissing).  Over every
    history the events of id alternate EEnq, (EPop | ECancel), EEnq, ... starting with EEnq, and an enqueue
    is pending at the end exactly when id is on the heap.  Hence the conservation law
    #EEnq = #EPop + #ECancel + [on the heap at the end]. *)
From ZV Require Import Lib.Base Model.Queue Proofs.QueueHeap Proofs.QueueMap Proofs.QueueInv Proofs.QueueOps Proofs.QueueSpec.

Definition onb (q : queue) (id : N) : bool := mem id (q_pq q).

Lemma onb_on_heap q id : onb q id = true <-> on_heap q id.
Proof. unfold onb. rewrite mem_In, on_heap_In. reflexivity. Qed.

Lemma onb_ext q q' id : (on_heap q' id <-> on_heap q id) -> onb q' id = onb q id.
Proof.
  intro H. destruct (onb q id) eqn:A; destruct (onb q' id) eqn:B; try reflexivity.
  - apply onb_on_heap in A. apply H in A. apply onb_on_heap in A. congruence.
  - apply onb_on_heap in B. apply H in B. apply onb_on_heap in B. congruence.
Qed.

(** the repository whose item Pop takes off the heap *)
Definition pop_id (q : queue) : option N :=
  match q_pq q with [] => None | _ => Some (snd (h_pop q)) end.

Inductive event := EEnq | EPop | ECancel.

Definition step_event (id : N) (q : queue) (now : Z) (o : op) : list event :=
  let q' := fst (step q now o) in
  match o with
  | OPop => match pop_id q with
            | Some i => if N.eqb i id then [EPop] else []
            | None => []
            end
  | _ => if negb (onb q id) && onb q' id then [EEnq]
         else if onb q id && negb (onb q' id) then [ECancel] else []
  end.

Fixpoint events (id : N) (q : queue) (h : list (Z * op)) : list event :=
  match h with
  | [] => []
  | (now, o) :: r => step_event id q now o ++ events id (fst (step q now o)) r
  end.

(** the ids handed out by the Pops of a history, in order *)
Fixpoint popped (q : queue) (h : list (Z * op)) : list N :=
  match h with
  | [] => []
  | (now, o) :: r =>
      (match o with OPop => match pop_id q with Some i => [i] | None => [] end | _ => [] end)
      ++ popped (fst (step q now o)) r
  end.

(** well-formed event sequences of one repository: [pending] = an enqueue has not been consumed yet *)
Fixpoint alt (pending : bool) (l : list event) : option bool :=
  match l with
  | [] => Some pending
  | EEnq :: r => if pending then None else alt true r
  | _ :: r => if pending then alt false r else None
  end.

Definition count (e : event) (l : list event) : nat :=
  length (filter (fun x => match e, x with EEnq, EEnq | EPop, EPop | ECancel, ECancel => true | _, _ => false end) l).

Lemma count_cons e x l :
  count e (x :: l) = (match e, x with EEnq, EEnq | EPop, EPop | ECancel, ECancel => 1 | _, _ => 0 end) + count e l.
Proof. unfold count. simpl. destruct e, x; reflexivity. Qed.

Lemma count_app e l1 l2 : count e (l1 ++ l2) = count e l1 + count e l2.
Proof. unfold count. rewrite filter_app, app_length. reflexivity. Qed.

Lemma alt_count : forall l p p', alt p l = Some p' ->
  (if p then 1 else 0) + count EEnq l = count EPop l + count ECancel l + (if p' then 1 else 0).
Proof.
  induction l as [|x l IH]; intros p p' H; simpl in H.
  - inversion H; subst. unfold count. simpl. lia.
  - rewrite !count_cons. destruct x; destruct p; try discriminate; apply IH in H; simpl in *; lia.
Qed.

(** what Pop does to the heap *)
Lemma pop_step q : inv q ->
  match pop_id q with
  | None => fst (step q 0%Z OPop) = q /\ q_pq q = []
  | Some i => on_heap q i /\ forall id', on_heap (fst (pop q)) id' <-> on_heap q id' /\ id' <> i
  end.
Proof.
  intro I. unfold pop_id. destruct (q_pq q) as [|a l] eqn:E.
  - simpl. unfold pop. rewrite E. auto.
  - pose proof (pq_len_pos q a l E) as Hl.
    destruct (h_pop_ok q (inv_shape _ I) Hl (inv_heap _ I)) as [Hid R].
    rewrite Hid. split; [exists 0; auto|].
    unfold pop. rewrite E. destruct (h_pop q) as [q1 i] eqn:HP. simpl in *. apply (ro_on _ _ _ R).
Qed.

Lemma step_pop_fst q now : fst (step q now OPop) = fst (pop q).
Proof. unfold step, step_gen. destruct (pop q). reflexivity. Qed.

Lemma step_event_alt id q now o l : inv q ->
  alt (onb q id) (step_event id q now o ++ l) = alt (onb (fst (step q now o)) id) l.
Proof.
  intro I.
  assert (Gen : forall q',
    alt (onb q id) ((if negb (onb q id) && onb q' id then [EEnq]
                     else if onb q id && negb (onb q' id) then [ECancel] else []) ++ l) = alt (onb q' id) l).
  { intro q'. destruct (onb q id), (onb q' id); reflexivity. }
  destruct o; try (unfold step_event; apply Gen).
  unfold step_event. rewrite step_pop_fst.
  pose proof (pop_step q I) as P. destruct (pop_id q) as [i|].
  - destruct P as [Hon Hq'].
    destruct (N.eqb i id) eqn:E.
    + apply N.eqb_eq in E. subst i.
      assert (A : onb q id = true) by (apply onb_on_heap; exact Hon).
      assert (B : onb (fst (pop q)) id = false).
      { destruct (onb (fst (pop q)) id) eqn:B; [|reflexivity]. apply onb_on_heap in B. apply Hq' in B. tauto. }
      rewrite A, B. reflexivity.
    + apply N.eqb_neq in E. simpl.
      rewrite (onb_ext q (fst (pop q)) id); [reflexivity|].
      rewrite Hq'. split; [tauto|]. intro H. split; [exact H|congruence].
  - destruct P as [P _]. rewrite step_pop_fst in P. rewrite P. reflexivity.
Qed.

(** every history, from any state satisfying the invariant *)
Lemma events_alt id : forall h q, inv q -> alt (onb q id) (events id q h) = Some (onb (run q h) id).
Proof.
  induction h as [|[now o] r IH]; intros q I; simpl; [reflexivity|].
  rewrite step_event_alt by exact I. apply IH. apply inv_step. exact I.
Qed.

Theorem history_alternates bd mx h id :
  alt false (events id (new_queue bd mx) h) = Some (onb (run (new_queue bd mx) h) id).
Proof. exact (events_alt id h (new_queue bd mx) (inv_init bd mx)). Qed.

Theorem history_conservation bd mx h id :
  count EEnq (events id (new_queue bd mx) h) =
  count EPop (events id (new_queue bd mx) h) + count ECancel (events id (new_queue bd mx) h) +
  (if onb (run (new_queue bd mx) h) id then 1 else 0).
Proof. pose proof (alt_count _ _ _ (history_alternates bd mx h id)) as H. simpl in H. exact H. Qed.

(** the EPop events of id are exactly the Pops that handed out id's item *)
Lemma popped_count id : forall h q, count EPop (events id q h) = count_occ N.eq_dec (popped q h) id.
Proof.
  induction h as [|[now o] r IH]; intros q; simpl; [reflexivity|].
  rewrite count_app, count_occ_app, IH. f_equal.
  destruct o; try (unfold step_event;
    destruct (negb (onb q id) && onb _ id); [reflexivity|]; destruct (onb q id && negb (onb _ id)); reflexivity).
  unfold step_event. destruct (pop_id q) as [i|]; [|reflexivity].
  simpl. destruct (N.eq_dec i id) as [->|Hne].
  - rewrite N.eqb_refl. reflexivity.
  - apply N.eqb_neq in Hne. rewrite Hne. reflexivity.
Qed.

(** the multiset of popped ids = enqueue events that were not cancelled and are not still on the queue *)
Theorem popped_multiset bd mx h id :
  count_occ N.eq_dec (popped (new_queue bd mx) h) id + count ECancel (events id (new_queue bd mx) h) +
  (if onb (run (new_queue bd mx) h) id then 1 else 0) = count EEnq (events id (new_queue bd mx) h).
Proof. rewrite <- popped_count. symmetry. apply history_conservation. Qed.

(** what the caller of Pop observes: the current options of the popped item *)
Lemma pop_observed q now :
  snd (step q now OPop) =
  RPop (option_map (fun i => let o := it_opts (item_of (q_items (fst (step q now OPop))) i) in (o_repo o, o_ver o)) (pop_id q)).
Proof.
  unfold step, step_gen, pop, pop_id. destruct (q_pq q); [reflexivity|].
  destruct (h_pop q) as [q' i]. reflexivity.
Qed.

(** * where the events come from: the heap membership effect of every operation *)
Lemma add_on_heap q now o id' : inv q ->
  (on_heap q id' -> on_heap (add_or_update q now o) id') /\
  (on_heap (add_or_update q now o) id' -> on_heap q id' \/ id' = o_repo o).
Proof.
  intro I. rewrite add_or_update_unfold. cbv zeta.
  set (id := o_repo o). destruct (inv_get_or_add q id I) as (I1 & (x1 & G1) & On1).
  set (q1 := get_or_add q id) in *.
  set (g := if opts_eqb (it_opts (item_of (q_items q1) id)) o then (fun x => x) else upd_opts o).
  assert (Hg : keeps_id g /\ keeps_hidx g /\ keeps_seq g).
  { unfold g. destruct (opts_eqb (it_opts (item_of (q_items q1) id)) o); repeat split; intro; reflexivity. }
  destruct Hg as (Hg1 & Hg2 & Hg3).
  pose proof (item_of_modify_same q1 id g x1 Hg1 G1) as G2.
  rewrite (item_of_get _ _ _ G2). rewrite Hg2.
  destruct (inv_modify_fix q1 id g x1 I1 G1 Hg1 Hg2 Hg3) as [A B].
  assert (On2 : on_heap (q_modify q1 id g) id' <-> on_heap q id') by (rewrite on_heap_modify; apply On1).
  destruct (it_hidx x1 <? 0)%Z eqn:E.
  - apply Z.ltb_lt in E. specialize (A E).
    destruct (allow (g x1) now); [|rewrite On2; tauto].
    pose proof (inv_enqueue _ id (g x1) A G2 ltac:(rewrite Hg2; destruct (shape_hidx_cases q1 id x1 (inv_shape _ I1) G1); lia)) as En.
    rewrite (en_on _ _ _ En), On2. tauto.
  - apply Z.ltb_ge in E. destruct (B E) as [_ K]. rewrite (kp_heap _ _ _ K), On2. tauto.
Qed.

Lemma bump_on_heap now ids id' : forall q, inv q ->
  (on_heap q id' -> on_heap (fst (bump q now ids)) id') /\
  (on_heap (fst (bump q now ids)) id' -> on_heap q id' \/ In id' ids).
Proof.
  induction ids as [|id r IH]; intros q I; simpl; [tauto|].
  destruct (get id (q_items q)) as [x|] eqn:G.
  - destruct ((it_hidx x <? 0)%Z && allow x now) eqn:E.
    + apply Bool.andb_true_iff in E. destruct E as [E _]. apply Z.ltb_lt in E.
      pose proof (inv_enqueue q id x I G ltac:(destruct (shape_hidx_cases q id x (inv_shape _ I) G); lia)) as En.
      destruct (IH (enqueue q id) (en_inv _ _ _ En)) as [A B]. split.
      * intro H. apply A. apply (en_on _ _ _ En). left. exact H.
      * intro H. apply B in H. destruct H as [H|H]; [|tauto]. apply (en_on _ _ _ En) in H. destruct H as [H|H]; [tauto|]. right. left. congruence.
    + destruct (IH q I) as [A B]. split; [exact A|]. intro H. apply B in H. tauto.
  - destruct (IH q I) as [A B]. destruct (bump q now r) as [q' miss]. simpl in *. split; [exact A|]. intro H. apply B in H. tauto.
Qed.

Lemma set_indexed_on_heap q now o st id' : inv q ->
  (on_heap (set_indexed_op q now o st) id' -> on_heap q id') /\
  (on_heap q id' -> id' <> o_repo o \/ st <> st_fail -> on_heap (set_indexed_op q now o st) id').
Proof.
  intro I. unfold set_indexed_op. set (id := o_repo o).
  destruct (inv_get_or_add q id I) as (I1 & (x1 & G1) & On1).
  set (q1 := get_or_add q id) in *.
  destruct (negb (N.eqb st st_fail)) eqn:Est.
  - rewrite q_modify_modify by auto.
    set (g := fun x => bo_reset (set_indexed (opts_eqb o (it_opts (set_state st x))) (set_state st x))).
    assert (Hg1 : keeps_id g) by (intro; reflexivity).
    assert (Hg2 : keeps_hidx g) by (intro; reflexivity).
    assert (Hg3 : keeps_seq g) by (intro; reflexivity).
    pose proof (item_of_modify_same q1 id g x1 Hg1 G1) as G2.
    rewrite (item_of_get _ _ _ G2). rewrite Hg2.
    assert (On2 : on_heap (q_modify q1 id g) id' <-> on_heap q id') by (rewrite on_heap_modify; apply On1).
    destruct (inv_modify_fix q1 id g x1 I1 G1 Hg1 Hg2 Hg3) as [A B].
    destruct (0 <=? it_hidx x1)%Z eqn:E.
    + apply Z.leb_le in E. destruct (B E) as [_ K]. rewrite (kp_heap _ _ _ K), On2. tauto.
    + rewrite On2. tauto.
  - rewrite q_modify_modify by auto.
    change (q_cfg (q_modify q1 id (set_state st))) with (q_cfg q1).
    set (g := fun x => bo_fail (q_cfg q1) now (set_state st x)).
    destruct (keeps_bo_fail (q_cfg q1) now) as (K1 & K2 & K3).
    assert (Hg1 : keeps_id g) by (intro x; unfold g; rewrite K1; reflexivity).
    assert (Hg2 : keeps_hidx g) by (intro x; unfold g; rewrite K2; reflexivity).
    assert (Hg3 : keeps_seq g) by (intro x; unfold g; rewrite K3; reflexivity).
    pose proof (item_of_modify_same q1 id g x1 Hg1 G1) as G2.
    rewrite (item_of_get _ _ _ G2). rewrite Hg2.
    assert (On2 : on_heap (q_modify q1 id g) id' <-> on_heap q id') by (rewrite on_heap_modify; apply On1).
    destruct (0 <=? it_hidx x1)%Z eqn:E.
    + apply Z.leb_le in E.
      destruct (inv_modify_remove q1 id g x1 I1 G1 E Hg1 Hg2 Hg3) as [_ R].
      rewrite on_heap_modify, (ro_on _ _ _ R), On2. split; [tauto|].
      intros H [Hne|Hne]; [tauto|]. apply Bool.negb_false_iff, N.eqb_eq in Est. contradiction.
    + rewrite On2. tauto.
Qed.

Lemma remove_missing_on_heap q ids id' : inv q ->
  (on_heap (fst (remove_missing q ids)) id' -> on_heap q id') /\
  (on_heap q id' -> In id' ids -> on_heap (fst (remove_missing q ids)) id').
Proof.
  intro I. destruct (Nat.eq_dec (length (q_items q)) (length ids)) as [E|E].
  - unfold remove_missing, remove_missing_gen. apply Nat.eqb_eq in E. rewrite E. simpl. tauto.
  - pose proof (remove_missing_exact q ids I E) as R. split.
    + intro H. apply (rx_on _ _ _ _ R) in H. tauto.
    + intros H Hi. apply (rx_on _ _ _ _ R). tauto.
Qed.

(** enqueue events come from AddOrUpdate(id) / Bump(ids containing id) only, cancellations from a failed
    SetIndexed(id) / MaybeRemoveMissing(ids not containing id) only, pop events from Pop only *)
Theorem event_sources id q now o : inv q ->
  (In EEnq (step_event id q now o) -> (exists ver, o = OAdd id ver) \/ (exists ids, o = OBump ids /\ In id ids)) /\
  (In ECancel (step_event id q now o) ->
     (exists ver, o = OSetIndexed id ver st_fail) \/ (exists ids, o = ORemoveMissing ids /\ ~ In id ids)) /\
  (In EPop (step_event id q now o) -> o = OPop).
Proof.
  intro I.
  assert (Dec : forall q', let l := if negb (onb q id) && onb q' id then [EEnq]
                                    else if onb q id && negb (onb q' id) then [ECancel] else [] in
            (In EEnq l -> ~ on_heap q id /\ on_heap q' id) /\ (In ECancel l -> on_heap q id /\ ~ on_heap q' id) /\ ~ In EPop l).
  { intros q' l. subst l.
    pose proof (onb_on_heap q id) as Hq. pose proof (onb_on_heap q' id) as Hq'.
    destruct (onb q id); destruct (onb q' id); simpl.
    - split; [intros []|split; [intros []|intros []]].
    - split; [intros [H|[]]; discriminate|]. split; [|intros [H|[]]; discriminate].
      intros _. split; [apply Hq; reflexivity|]. intro H. apply Hq' in H. discriminate.
    - split; [|split; [intros [H|[]]; discriminate|intros [H|[]]; discriminate]].
      intros _. split; [|apply Hq'; reflexivity]. intro H. apply Hq in H. discriminate.
    - split; [intros []|split; [intros []|intros []]]. }
  destruct o as [id0 ver| |ids|id0 ver st|ids| |]; unfold step_event.
  - destruct (Dec (fst (step q now (OAdd id0 ver)))) as (DE & DC & DP). split; [|split].
    + intro H. apply DE in H. destruct H as [Hoff Hon]. left. exists ver.
      simpl in Hon. apply (add_on_heap q now {| o_repo := id0; o_ver := ver |} id I) in Hon.
      destruct Hon as [Hon|Hon]; [contradiction|]. simpl in Hon. congruence.
    + intro H. apply DC in H. destruct H as [Hon Hoff]. exfalso. apply Hoff. simpl.
      apply (add_on_heap q now {| o_repo := id0; o_ver := ver |} id I). exact Hon.
    + intro H. apply DP in H. contradiction.
  - split; [|split].
    + destruct (pop_id q) as [i|]; [destruct (N.eqb i id)|]; simpl; intro H; repeat (destruct H as [H|H]; try discriminate); contradiction.
    + destruct (pop_id q) as [i|]; [destruct (N.eqb i id)|]; simpl; intro H; repeat (destruct H as [H|H]; try discriminate); contradiction.
    + reflexivity.
  - destruct (Dec (fst (step q now (OBump ids)))) as (DE & DC & DP).
    assert (Efst : fst (step q now (OBump ids)) = fst (bump q now ids)).
    { unfold step, step_gen. destruct (bump q now ids). reflexivity. }
    split; [|split].
    + intro H. apply DE in H. destruct H as [Hoff Hon]. right. exists ids. split; [reflexivity|].
      rewrite Efst in Hon. apply (bump_on_heap now ids id q I) in Hon. tauto.
    + intro H. apply DC in H. destruct H as [Hon Hoff]. exfalso. apply Hoff. rewrite Efst.
      apply (bump_on_heap now ids id q I). exact Hon.
    + intro H. apply DP in H. contradiction.
  - destruct (Dec (fst (step q now (OSetIndexed id0 ver st)))) as (DE & DC & DP). split; [|split].
    + intro H. apply DE in H. destruct H as [Hoff Hon]. exfalso. apply Hoff.
      simpl in Hon. apply (set_indexed_on_heap q now {| o_repo := id0; o_ver := ver |} st id I) in Hon. exact Hon.
    + intro H. apply DC in H. destruct H as [Hon Hoff]. left. exists ver.
      destruct (N.eq_dec id id0) as [Eid|Hne].
      * destruct (N.eq_dec st st_fail) as [Est|Hst]; [subst; reflexivity|].
        exfalso. apply Hoff. simpl. apply (set_indexed_on_heap q now {| o_repo := id0; o_ver := ver |} st id I); auto.
      * exfalso. apply Hoff. simpl. apply (set_indexed_on_heap q now {| o_repo := id0; o_ver := ver |} st id I); auto.
    + intro H. apply DP in H. contradiction.
  - destruct (Dec (fst (step q now (ORemoveMissing ids)))) as (DE & DC & DP).
    assert (Efst : fst (step q now (ORemoveMissing ids)) = fst (remove_missing q ids)).
    { unfold step, step_gen. change (remove_missing_gen it_id q ids) with (remove_missing q ids).
      destruct (remove_missing q ids). reflexivity. }
    split; [|split].
    + intro H. apply DE in H. destruct H as [Hoff Hon]. exfalso. apply Hoff. rewrite Efst in Hon.
      apply (remove_missing_on_heap q ids id I). exact Hon.
    + intro H. apply DC in H. destruct H as [Hon Hoff]. right. exists ids. split; [reflexivity|].
      intro Hi. apply Hoff. rewrite Efst. apply (remove_missing_on_heap q ids id I); assumption.
    + intro H. apply DP in H. contradiction.
  - destruct (Dec (fst (step q now OLen))) as (DE & DC & DP). simpl in *. split; [|split].
    + intro H. apply DE in H. tauto.
    + intro H. apply DC in H. tauto.
    + intro H. apply DP in H. contradiction.
  - destruct (Dec (fst (step q now OKeys))) as (DE & DC & DP). simpl in *. split; [|split].
    + intro H. apply DE in H. tauto.
    + intro H. apply DC in H. tauto.
    + intro H. apply DP in H. contradiction.
Qed.
