(** C35 — proofs about builderWriteAll, the input-deletion loop and cmd/zoekt-merge-index merge. *)
From ZV Require Import Lib.Base Model.MergeDriver Proofs.MergeDriverFacts.
From Coq Require Import Permutation.

Lemma step_open : forall s p c s', step s (OOpen p) c = Some s' -> s' = s.
Proof. simpl; intros s p c s' H. destruct (s p); inversion H; auto. Qed.

Lemma hoare_pure : forall A (m : M A) (P : fs -> Prop) Q (phi : Prop),
  (forall s, P s -> phi) -> (phi -> hoare P m Q) -> hoare P m Q.
Proof. intros A m P Q phi H1 H2 w HP. exact (H2 (H1 _ HP) w HP). Qed.

(** ---- pure facts about parse_all / sort / merged_repos *)
Lemma parse_all_in : forall s names shards, parse_all s names = Some shards ->
  forall rs, In rs shards -> exists z, In z names /\ eff s z = Some rs.
Proof.
  intros s names. induction names as [|z rest IH]; simpl; intros shards H rs Hin.
  - inversion H; subst. destruct Hin.
  - destruct (eff s z) as [[|r0 rs0]|] eqn:E; try discriminate.
    destruct (parse_all s rest) as [l|] eqn:E2; simpl in H; try discriminate.
    inversion H; subst. destruct Hin as [<-|Hin].
    + exists z; auto.
    + destruct (IH l eq_refl rs Hin) as [z' [H1 H2]]. exists z'; auto.
Qed.
Lemma parse_all_in' : forall s names shards, parse_all s names = Some shards ->
  forall z, In z names -> exists rs, eff s z = Some rs /\ In rs shards.
Proof.
  intros s names. induction names as [|z0 rest IH]; simpl; intros shards H z Hin.
  - destruct Hin.
  - destruct (eff s z0) as [[|r0 rs0]|] eqn:E; try discriminate.
    destruct (parse_all s rest) as [l|] eqn:E2; simpl in H; try discriminate.
    inversion H; subst. destruct Hin as [<-|Hin].
    + exists (r0 :: rs0); simpl; auto.
    + destruct (IH l eq_refl z Hin) as [rs [H1 H2]]. exists rs; simpl; auto.
Qed.

Lemma ins_prio_perm : forall x l, Permutation (ins_prio x l) (x :: l).
Proof.
  intros x l. induction l as [|y r IH]; simpl; auto.
  destruct (shard_prio y <? shard_prio x)%N; auto.
  eapply perm_trans; [apply perm_skip, IH|apply perm_swap].
Qed.
Lemma sort_prio_perm : forall l, Permutation (sort_prio l) l.
Proof.
  induction l as [|x r IH]; simpl; auto.
  eapply perm_trans; [apply ins_prio_perm|]. apply perm_skip, IH.
Qed.

Lemma in_live : forall r rs, In r (live rs) <-> exists m, In m rs /\ rm_tomb m = false /\ rm_id m = r.
Proof.
  intros r rs. unfold live, alive. rewrite in_map_iff. split.
  - intros [m [H1 H2]]. apply filter_In in H2. destruct H2 as [H2 H3].
    exists m. repeat split; auto. destruct (rm_tomb m); simpl in H3; congruence.
  - intros [m [H1 [H2 H3]]]. exists m. split; auto. apply filter_In. rewrite H2. auto.
Qed.
Lemma live_merged : forall shards r,
  In r (live (merged_repos shards)) <-> exists rs, In rs shards /\ In r (live rs).
Proof.
  intros shards r. unfold merged_repos. rewrite in_live. split.
  - intros [m [H1 [H2 H3]]]. apply in_flat_map in H1. destruct H1 as [rs [Hrs Hm]].
    exists rs. split.
    + eapply Permutation_in; [apply sort_prio_perm|exact Hrs].
    + apply in_live. exists m. unfold alive in Hm. apply filter_In in Hm. tauto.
  - intros [rs [Hrs Hr]]. apply in_live in Hr. destruct Hr as [m [H1 [H2 H3]]].
    exists m. repeat split; auto. apply in_flat_map. exists rs. split.
    + eapply Permutation_in; [apply Permutation_sym, sort_prio_perm|exact Hrs].
    + unfold alive. apply filter_In. rewrite H2. auto.
Qed.

Section WithPlan.
  Variable plan : op -> nat -> bool.
  Variable s0 : fs.
  Hypothesis Hnd : no_dup s0.

  (** content of the .tmp files the program itself produced (None: already renamed away / removed) *)
  Definition TmpsP (Pz : zname -> content -> Prop) (Z : list zname) (s : fs) : Prop :=
    forall z, In z Z -> s (PTmp z) = None \/ exists c, s (PTmp z) = Some (File c) /\ Pz z c.
  Definition Gone (L : list zname) (s : fs) : Prop :=
    forall z, In z L -> s (PZ z) = None /\ s (PMeta z) = None.

  Lemma shrunk_no_dup : forall s, Shrunk s0 s -> no_dup s.
  Proof. intros. eapply sub_no_dup; eauto using shrunk_sub. Qed.

  Lemma tmpsP_upd_other : forall Pz Z s p v, (forall z, p <> PTmp z) -> TmpsP Pz Z s -> TmpsP Pz Z (upd s p v).
  Proof. intros Pz Z s p v Hp H z Hz. rewrite upd_other by (intro E; exact (Hp z (eq_sym E))). auto. Qed.
  Lemma gone_upd_none : forall L s p, Gone L s -> Gone L (upd s p None).
  Proof.
    intros L s p H z Hz. destruct (H z Hz) as [H1 H2]. unfold upd.
    destruct (path_eq_dec (PZ z) p), (path_eq_dec (PMeta z) p); auto.
  Qed.
  Lemma gone_upd_invisible : forall L s p v, invisible p -> Gone L s -> Gone L (upd s p v).
  Proof.
    intros L s p v Hp H z Hz. rewrite !upd_other; auto; intro E; subst p; exact Hp.
  Qed.

  (** ---- builderWriteAll *)
  Section BWA.
    Variable Pz : zname -> content -> Prop.
    Variable Z L : list zname.
    Definition BI (s : fs) : Prop := Shrunk s0 s /\ TmpsP Pz Z s /\ Gone L s.

    Lemma BI_upd_temp : forall s z v, BI s -> BI (upd s (PTemp z) v).
    Proof.
      intros s z v [H1 [H2 H3]]. split; [|split].
      - apply shrunk_upd_invisible; simpl; auto.
      - apply tmpsP_upd_other; auto; discriminate.
      - apply gone_upd_invisible; simpl; auto.
    Qed.

    Lemma bwa_spec : forall z c, Pz z c ->
      hoare BI (builder_write_all plan z c)
            (fun ok s => BI s /\ (ok = true -> TmpsP Pz (z :: Z) s)).
    Proof.
      intros z c Hc. unfold builder_write_all.
      eapply hoare_bind with (R := fun _ s => BI s).
      { apply hoare_exec.
        - intros s s' HP E. simpl in E. inversion E; subst. split; auto. apply shrunk_no_dup, HP.
        - auto. }
      intros ok1. apply hoare_if_negb; intros ->.
      { apply hoare_ret. intros s H. split; auto. discriminate. }
      eapply hoare_bind with (R := fun _ s => BI s).
      { apply hoare_exec.
        - intros s s' HP E. simpl in E. inversion E; subst.
          assert (B : BI (upd s (PTemp z) (Some (File CGarbage)))) by (apply BI_upd_temp; auto).
          split; auto. apply shrunk_no_dup, B.
        - auto. }
      intros ok2. apply hoare_if_negb; intros ->.
      { apply hoare_ret. intros s H. split; auto. discriminate. }
      eapply hoare_bind with (R := fun ok s => BI s /\ (ok = true -> s (PTemp z) = Some (File c))).
      { apply hoare_exec.
        - intros s s' HP E. simpl in E. inversion E; subst.
          assert (B : BI (upd s (PTemp z) (Some (File c)))) by (apply BI_upd_temp; auto).
          split; [apply shrunk_no_dup, B|]. split; auto. intros _. apply upd_same.
        - intros s H. split; auto. discriminate. }
      intros ok3. apply hoare_if_negb; intros ->.
      { apply hoare_ret. intros s [H _]. split; auto. discriminate. }
      apply hoare_exec.
      - intros s s' [[H1 [H2 H3]] Hc'] E. apply step_rename in E. destruct E as [-> _].
        specialize (Hc' eq_refl).
        assert (B1 : Shrunk s0 (upd (upd s (PTmp z) (s (PTemp z))) (PTemp z) None)).
        { repeat (apply shrunk_upd_invisible; simpl; auto). }
        assert (B2 : TmpsP Pz (z :: Z) (upd (upd s (PTmp z) (s (PTemp z))) (PTemp z) None)).
        { intros z' Hz'. rewrite upd_other by discriminate.
          destruct (zname_eq_dec z' z) as [->|Hn].
          - rewrite upd_same. right. exists c. auto.
          - rewrite upd_other by congruence. destruct Hz' as [E|Hz']; [congruence|]. apply H2; auto. }
        split; [apply shrunk_no_dup, B1|]. split; [|auto]. split; [auto|split].
        + intros z' Hz'. apply B2. right; auto.
        + repeat (apply gone_upd_invisible; simpl; auto).
      - intros s [H _]. split; auto. discriminate.
    Qed.

    (** ---- removals of a shard and its sidecar *)
    Lemma BI_rm_shard : forall s z, BI s -> BI (upd s (PZ z) None).
    Proof.
      intros s z [H1 [H2 H3]]. split; [|split].
      - apply shrunk_remove_shard; auto.
      - apply tmpsP_upd_other; auto; discriminate.
      - apply gone_upd_none; auto.
    Qed.
    Lemma BI_rm_meta : forall s z, s (PZ z) = None -> BI s -> BI (upd s (PMeta z) None).
    Proof.
      intros s z Hz [H1 [H2 H3]]. split; [|split].
      - apply shrunk_remove_meta; auto.
      - apply tmpsP_upd_other; auto; discriminate.
      - apply gone_upd_none; auto.
    Qed.

    Lemma rm_shard_spec : forall z (F : fs -> Prop),
      (forall s, F s -> F (upd s (PZ z) None)) ->
      hoare (fun s => BI s /\ F s) (exec plan (ORemove (PZ z)) CGarbage)
            (fun ok s => BI s /\ F s /\ (ok = true -> s (PZ z) = None)).
    Proof.
      intros z F HF. apply hoare_exec.
      - intros s s' [HB HFs] E. apply step_remove in E. destruct E as [-> _].
        assert (B := BI_rm_shard s z HB). split; [apply shrunk_no_dup, B|].
        split; [exact B|]. split; [auto|]. intros _. apply upd_same.
      - intros s [H1 H2]. split; [exact H1|]. split; [exact H2|]. intros; discriminate.
    Qed.
    Lemma rm_meta_spec : forall z,
      hoare (fun s => BI s /\ s (PZ z) = None) (exec plan (ORemove (PMeta z)) CGarbage)
            (fun ok s => BI s /\ s (PZ z) = None /\ (ok = true -> s (PMeta z) = None)).
    Proof.
      intros z. apply hoare_exec.
      - intros s s' [HB Hz] E. apply step_remove in E. destruct E as [-> _].
        assert (B := BI_rm_meta s z Hz HB). split; [apply shrunk_no_dup, B|].
        split; [exact B|]. split; [rewrite upd_other by discriminate; exact Hz|]. intros _. apply upd_same.
      - intros s [H1 H2]. split; [exact H1|]. split; [exact H2|]. intros; discriminate.
    Qed.

    (** os.Remove(z.meta) with IsNotExist ignored, when z has no shard (orphan sidecar) or no sidecar at all *)
    Lemma rm_stale_spec : forall z (F : fs -> Prop),
      (forall s, F s -> F (upd s (PMeta z) None)) ->
      hoare (fun s => BI s /\ F s /\ (s (PZ z) = None \/ s (PMeta z) = None))
            (exec_remove_stale plan (PMeta z))
            (fun ok s => BI s /\ F s /\ (ok = true -> s (PMeta z) = None)).
    Proof.
      intros z F HF. apply hoare_exec_stale.
      - intros s s' [HB [HFs Hd]] E. apply step_remove in E. destruct E as [-> Hf].
        assert (Hz : s (PZ z) = None).
        { destruct Hd as [H|H]; auto. unfold is_file in Hf. rewrite H in Hf. discriminate. }
        assert (B := BI_rm_meta s z Hz HB). split; [apply shrunk_no_dup, B|].
        split; [exact B|]. split; [auto|]. intros _. apply upd_same.
      - intros s [H1 [H2 _]]. split; auto. split; auto. discriminate.
      - intros s [H1 [H2 _]] Hn. auto.
    Qed.

    (** remove_all (IndexFilePaths z), computed on the state [x] the loop body observed *)
    Lemma del_one : forall z x,
      hoare (fun s => x = s /\ BI s) (remove_all plan (index_file_paths x z))
            (fun ok s => BI s /\ (ok = true -> s (PZ z) = None /\ s (PMeta z) = None)).
    Proof.
      intros z x. unfold index_file_paths.
      destruct (x (PZ z)) as [n1|] eqn:E1; destruct (x (PMeta z)) as [n2|] eqn:E2; simpl.
      - eapply hoare_bind with (R := fun ok s => BI s /\ (ok = true -> s (PZ z) = None)).
        { eapply hoare_conseq; [apply (rm_shard_spec z (fun _ => True)); auto| |].
          - intros s [_ H]; auto.
          - intros a s [H1 [_ H2]]; auto. }
        intros ok1. apply hoare_if_negb; intros ->.
        { apply hoare_ret. intros s [H _]. split; auto. discriminate. }
        eapply hoare_bind with (R := fun ok s => BI s /\ s (PZ z) = None /\ (ok = true -> s (PMeta z) = None)).
        { eapply hoare_conseq; [apply rm_meta_spec| |]; auto. intros s [H1 H2]; auto. }
        intros ok2. apply hoare_if_negb; intros ->.
        { apply hoare_ret. intros s [H _]. split; auto. discriminate. }
        apply hoare_ret. intros s [H1 [H2 H3]]. auto.
      - eapply hoare_bind with (R := fun ok s => BI s /\ s (PMeta z) = None /\ (ok = true -> s (PZ z) = None)).
        { eapply hoare_conseq; [apply (rm_shard_spec z (fun s => s (PMeta z) = None))| |].
          - intros s H. rewrite upd_other by discriminate. auto.
          - intros s [-> H]; auto.
          - intros a s [H1 [H2 H3]]; auto. }
        intros ok1. apply hoare_if_negb; intros ->.
        { apply hoare_ret. intros s [H _]. split; auto. discriminate. }
        apply hoare_ret. intros s [H1 [H2 H3]]. auto.
      - eapply hoare_bind with (R := fun ok s => BI s /\ s (PZ z) = None /\ (ok = true -> s (PMeta z) = None)).
        { eapply hoare_conseq; [apply rm_meta_spec| |]; auto. intros s [-> H]; auto. }
        intros ok1. apply hoare_if_negb; intros ->.
        { apply hoare_ret. intros s [H _]. split; auto. discriminate. }
        apply hoare_ret. intros s [H1 [H2 H3]]. auto.
      - apply hoare_ret. intros s [-> H]. auto.
    Qed.
  End BWA.

  (** ---- the loop deleting the inputs *)
  Lemma delete_inputs_spec : forall Pz Z names L,
    hoare (BI Pz Z L) (delete_inputs plan names)
          (fun ok s => BI Pz Z L s /\ (ok = true -> Gone names s)).
  Proof.
    intros Pz Z names. induction names as [|z rest IH]; intros L; simpl.
    - apply hoare_ret. intros s H. split; auto. intros _ z [].
    - eapply hoare_bind; [apply hoare_get|]. intros x. simpl.
      eapply hoare_bind; [apply del_one|]. intros ok1.
      apply hoare_if_negb; intros ->.
      { apply hoare_ret. intros s [H _]. split; auto. discriminate. }
      (* remember that z is gone by adding it to L *)
      eapply hoare_conseq with (P' := BI Pz Z (z :: L))
        (Q' := fun ok s => BI Pz Z (z :: L) s /\ (ok = true -> Gone rest s)).
      + apply IH.
      + intros s [[H1 [H2 H3]] H4]. split; [exact H1|split; [exact H2|]].
        intros z' [<-|Hz']; [apply H4; auto|apply H3; auto].
      + intros ok s [[H1 [H2 H3]] H4]. split.
        * split; [exact H1|split; [exact H2|]]. intros z' Hz'; apply H3; right; auto.
        * intros Hok z' [<-|Hz']; [apply H3; left; auto|apply H4; auto].
  Qed.

  (** ---- open_all leaves the state alone *)
  Lemma open_all_spec : forall names,
    hoare (fun s => s = s0) (open_all plan names) (fun _ s => s = s0).
  Proof.
    induction names as [|z rest IH]; simpl.
    - apply hoare_ret; auto.
    - eapply hoare_bind with (R := fun _ s => s = s0).
      { apply hoare_exec; auto. intros s s' -> E. apply step_open in E. subst. auto. }
      intros ok. apply hoare_if_negb; intros ->.
      { apply hoare_ret; auto. }
      eapply hoare_bind; [apply hoare_get|]. intros x. simpl.
      destruct (x (PZ z)) as [[c|]|].
      + eapply hoare_conseq; [apply IH| |]; auto. intros s [_ H]; auto.
      + apply hoare_ret. intros s [_ H]; auto.
      + eapply hoare_conseq; [apply IH| |]; auto. intros s [_ H]; auto.
  Qed.

  (** ---- merge *)
  Section Merge.
    Variable names : list zname.
    (** [fixed = false] (the code before the "stale .meta" repair): no stale sidecar waits at the destination
        name, unless the destination is itself an input, whose sidecar merge deletes.
        [fixed = true]: a stale sidecar may wait there if it is an ORPHAN (no shard of that name beside it) *)
    Variable fixed : bool.
    Hypothesis Hmeta : forall d, merge_dst s0 names = Some d ->
      s0 (PMeta d) = None \/ In d names \/ (fixed = true /\ s0 (PZ d) = None).

    Definition MergeQ (r : res) (s : fs) : Prop :=
      match r with
      | RErr => True
      | ROk None => False
      | ROk (Some d) =>
          exists shards, parse_all s0 names = Some shards /\ d = merge_dst_of shards /\
                         eff s d = Some (merged_repos shards) /\
                         forall z, In z names -> z <> d -> s (PZ z) = None
      end.

    Lemma merge_spec : hoare (fun s => s = s0) (merge_prog_gen plan fixed names) MergeQ.
    Proof.
      unfold merge_prog_gen.
      eapply hoare_bind; [apply open_all_spec|]. intros o.
      destruct o; unfold merge_open_failed; try (apply hoare_ret; simpl; auto).
      eapply hoare_bind; [apply hoare_get|]. intros x. simpl.
      apply hoare_pure with (phi := x = s0). { intros s [-> ->]; auto. } intros ->.
      destruct (parse_all s0 names) as [shards|] eqn:Ep; [|apply hoare_ret; simpl; auto].
      destruct shards as [|sh shs] eqn:Esh; [apply hoare_ret; simpl; auto|]. rewrite <- Esh in *. clear Esh sh shs.
      set (dst := merge_dst_of shards). set (mr := merged_repos shards).
      set (Pz := fun (_ : zname) (c : content) => c = CShard mr).
      eapply hoare_bind with (R := fun ok s => BI Pz [] [] s /\ (ok = true -> TmpsP Pz [dst] s)).
      { eapply hoare_conseq; [apply (bwa_spec Pz [] [] dst (CShard mr)); reflexivity| |]; auto.
        intros s [_ ->]. split; [apply shrunk_refl|split]; intros z []. }
      intros ok1. apply hoare_if_negb; intros ->; [apply hoare_ret; simpl; auto|].
      eapply hoare_bind with (R := fun ok s => BI Pz [dst] [] s /\ (ok = true -> Gone names s)).
      { eapply hoare_conseq; [apply (delete_inputs_spec Pz [dst] names [])| |]; auto.
        intros s [[H1 [H2 H3]] H4]. split; [exact H1|split; [auto|exact H3]]. }
      intros ok2. apply hoare_if_negb; intros ->; [apply hoare_ret; simpl; auto|].
      assert (Hd : merge_dst s0 names = Some dst) by (unfold merge_dst; rewrite Ep; reflexivity).
      eapply hoare_bind with (R := fun ok s => BI Pz [dst] [] s /\ Gone names s /\ (ok = true -> s (PMeta dst) = None)).
      { destruct fixed.
        - eapply hoare_conseq; [apply (rm_stale_spec Pz [dst] [] dst (Gone names))| |].
          + intros s H. apply gone_upd_none; auto.
          + intros s [HB HG]. specialize (HG eq_refl). split; [exact HB|]. split; [exact HG|].
            destruct (Hmeta dst Hd) as [H|[H|[_ H]]].
            * right. eapply shrunk_meta; eauto. apply HB.
            * left. apply HG; auto.
            * left. destruct HB as [HS _]. destruct (HS dst) as [[H1 _]|[H1 _]]; congruence.
          + auto.
        - apply hoare_ret. intros s [HB HG]. specialize (HG eq_refl). split; [exact HB|]. split; [exact HG|]. intros _.
          destruct (Hmeta dst Hd) as [H|[H|[H _]]]; [|apply HG; auto|discriminate].
          eapply shrunk_meta; eauto. apply HB. }
      intros ok2'. apply hoare_if_negb; intros ->; [apply hoare_ret; simpl; auto|].
      eapply hoare_bind with (R := fun ok s => ok = true -> MergeQ (ROk (Some dst)) s).
      2:{ intros ok3. apply hoare_if_negb; intros ->; apply hoare_ret; simpl; auto. }
      apply hoare_exec; [|intros; discriminate].
      intros s s' [[HS [HT _]] [HG Hmd]] E. specialize (Hmd eq_refl).
      apply step_rename in E. destruct E as [-> [c Hc]].
      destruct (HT dst (or_introl eq_refl)) as [Hn|[c' [Hc' HP]]]; [congruence|].
      rewrite Hc in Hc'. inversion Hc'; subst c'. unfold Pz in HP. subst c.
      set (s' := upd (upd s (PZ dst) (s (PTmp dst))) (PTmp dst) None).
      assert (Heff : eff s' dst = Some mr).
      { unfold eff, s'. rewrite upd_other by discriminate. rewrite upd_same, Hc.
        rewrite !upd_other by discriminate. rewrite Hmd. reflexivity. }
      assert (Hother : forall z, z <> dst -> eff s' z = eff s z).
      { intros z Hz. unfold s'. rewrite eff_upd_invisible by (simpl; auto).
        apply eff_upd_other_z; congruence. }
      split.
      - (* no_dup after the rename *)
        assert (Hin : forall r z, z <> dst -> In r (vis s' dst) -> In r (vis s' z) -> False).
        { intros r z Hz H1 H2. unfold vis in H1, H2. rewrite Heff in H1. rewrite (Hother z Hz) in H2.
          apply live_merged in H1. destruct H1 as [rs [Hrs Hr]].
          destruct (parse_all_in _ _ _ Ep rs Hrs) as [zi [Hzi Heffi]].
          assert (Hv0 : In r (vis s0 zi)) by (unfold vis; rewrite Heffi; auto).
          assert (Hvz : In r (vis s0 z)) by (apply (shrunk_sub _ _ HS z); exact H2).
          assert (zi = z) by (eapply Hnd; eauto). subst zi.
          destruct (HG z Hzi) as [Hgz _]. rewrite (eff_none_of_shard_none _ _ Hgz) in H2. destruct H2. }
        intros z1 z2 r H1 H2.
        destruct (zname_eq_dec z1 dst) as [->|N1]; destruct (zname_eq_dec z2 dst) as [->|N2]; auto.
        + exfalso. eapply Hin; eauto.
        + exfalso. eapply Hin; eauto.
        + unfold vis in H1, H2. rewrite (Hother _ N1) in H1. rewrite (Hother _ N2) in H2.
          eapply (shrunk_no_dup s HS); unfold vis; eauto.
      - intros _. simpl. exists shards. repeat split; auto.
        intros z Hz Hne. unfold s'. rewrite upd_other by discriminate.
        rewrite upd_other by congruence. apply HG; auto.
    Qed.
  End Merge.
End WithPlan.
