(** C36 — proofs about the response-class model (Model/WebResp.v). *)
From Coq Require Import String.
From ZV Require Import Lib.Base Model.Web Model.WebResp.
Open Scope N_scope.

(* ------------------------------------------------------------------ explicit content types *)

Lemma explicit_plain_nosniff_never_markup : forall sigs ct body,
  mt_of ct = str "text/plain" -> served_as_markup sigs (Some ct) true body = false.
Proof.
  intros sigs ct body Hmt. unfold served_as_markup, wire_ct, browser_markup, markup_ct.
  rewrite Hmt. vm_compute. reflexivity.
Qed.

Lemma explicit_other_never_markup : forall sigs ct nosniff body,
  markup_ct ct = false -> beqb (mt_of ct) (str "text/plain") = false ->
  served_as_markup sigs (Some ct) nosniff body = false.
Proof.
  intros sigs ct nosniff body Hm Hp. unfold served_as_markup, wire_ct, browser_markup.
  rewrite Hm, Hp. reflexivity.
Qed.

(** every plain-text / json response mode of web.Server, whatever the body and whatever the sniffer's table *)
Lemma data_modes_never_markup : forall sigs m,
  mode_class m = RPlainText \/ mode_class m = RJson ->
  forall body, served_as_markup sigs (mode_ct m) (mode_nosniff m) body = false.
Proof.
  intros sigs m Hc body.
  destruct m; simpl in Hc; destruct Hc as [Hc | Hc]; try discriminate Hc; simpl mode_ct; simpl mode_nosniff;
    first [ apply explicit_plain_nosniff_never_markup; vm_compute; reflexivity
          | apply explicit_other_never_markup; vm_compute; reflexivity ].
Qed.

(* ------------------------------------------------------------------ the sniffer only yields markup behind a '<' *)

Lemma skip_ws_incl : forall d x, In x (skip_ws d) -> In x d.
Proof.
  induction d as [|b r IH]; intros x Hin; simpl in *; [exact Hin|].
  destruct (is_ws b); [right; apply IH; exact Hin | exact Hin].
Qed.

Lemma firstn_incl : forall (n : nat) (l : bytes) x, In x (firstn n l) -> In x l.
Proof.
  induction n as [|n IH]; intros l x Hin; simpl in Hin; [contradiction|].
  destruct l as [|y l]; simpl in *; [contradiction|].
  destruct Hin as [Hin | Hin]; [left; exact Hin | right; apply IH; exact Hin].
Qed.

Lemma land_255_byte : forall b, b < 256 -> N.land b 255 = b.
Proof.
  intros b Hb. change 255 with (N.ones 8). rewrite N.land_ones. apply N.mod_small. exact Hb.
Qed.

Lemma ct_consts_not_markup :
  markup_ct ct_octet = false /\ markup_ct ct_text = false /\ markup_ct (str "video/mp4") = false.
Proof. vm_compute. repeat split; reflexivity. Qed.

Lemma html_match_needs_lt : forall pr dw,
  match dw with b :: _ => b < 256 /\ b <> 60 | [] => True end -> html_match (60 :: pr) dw = false.
Proof.
  intros pr dw Hdw. destruct dw as [|b dr]; [reflexivity|]. destruct Hdw as [_ Hne].
  cbn [html_match]. replace ((65 <=? 60) && (60 <=? 90)) with false by reflexivity. cbv beta iota zeta.
  destruct (60 =? b) eqn:Hb; [apply N.eqb_eq in Hb; congruence | reflexivity].
Qed.

Lemma masked_match_needs_lt : forall mr pr dw,
  match dw with b :: _ => b < 256 /\ b <> 60 | [] => True end -> masked_match (255 :: mr) (60 :: pr) dw = false.
Proof.
  intros mr pr dw Hdw. destruct dw as [|b dr]; [reflexivity|]. destruct Hdw as [Hlt Hne].
  cbn [masked_match]. rewrite (land_255_byte b Hlt).
  destruct (b =? 60) eqn:Hb; [apply N.eqb_eq in Hb; congruence | reflexivity].
Qed.

(** [dw] does not start with '<' (and its first byte is a byte): no signature of a table satisfying
    [sig_markup_needs_lt] yields a markup type *)
Lemma first_sig_needs_lt : forall sigs d dw,
  forallb sig_markup_needs_lt sigs = true ->
  match dw with b :: _ => b < 256 /\ b <> 60 | [] => True end ->
  markup_ct (first_sig sigs d dw) = false.
Proof.
  induction sigs as [|s r IH]; intros d dw Hall Hdw; cbn [first_sig].
  - apply ct_consts_not_markup.
  - cbn [forallb] in Hall. apply andb_true_iff in Hall. destruct Hall as [Hs Hr].
    specialize (IH d dw Hr Hdw).
    destruct s as [pat | mask pat skipws ct | pat ct | | | what]; cbn [sig_match].
    + (* SHtml *)
      destruct pat as [|p pr]; [discriminate Hs|]. cbn [sig_markup_needs_lt] in Hs. apply N.eqb_eq in Hs. subst p.
      rewrite (html_match_needs_lt pr dw Hdw). exact IH.
    + (* SMasked *)
      destruct (negb (Nat.eqb (length pat) (length mask))); [exact IH|].
      destruct (masked_match mask pat (if skipws then dw else d)) eqn:Hm; [|exact IH].
      destruct (markup_ct ct) eqn:Hct; [|reflexivity].
      exfalso.
      destruct mask as [|m mr]; [cbn [sig_markup_needs_lt] in Hs; rewrite Hct in Hs; discriminate Hs|].
      destruct pat as [|p pr]; [cbn [sig_markup_needs_lt] in Hs; rewrite Hct in Hs; discriminate Hs|].
      destruct skipws; [|cbn [sig_markup_needs_lt] in Hs; rewrite Hct in Hs; discriminate Hs].
      cbn [sig_markup_needs_lt] in Hs. rewrite Hct in Hs. cbn [negb orb] in Hs.
      apply andb_true_iff in Hs. destruct Hs as [Hm255 Hp60].
      apply N.eqb_eq in Hm255. apply N.eqb_eq in Hp60. subst m p.
      rewrite (masked_match_needs_lt mr pr dw Hdw) in Hm. discriminate Hm.
    + (* SExact *)
      cbn [sig_markup_needs_lt] in Hs. destruct (prefixb pat d); [|exact IH].
      destruct (markup_ct ct); [discriminate Hs | reflexivity].
    + destruct (mp4_match d); [apply ct_consts_not_markup | exact IH].
    + destruct (existsb text_byte_binary dw); [exact IH | apply ct_consts_not_markup].
    + discriminate Hs.
Qed.

Lemma sniffer_needs_lt : forall sigs body,
  forallb sig_markup_needs_lt sigs = true ->
  Forall (fun b => b < 256) body ->
  first_nonws body <> Some 60 ->
  markup_ct (detect sigs body) = false.
Proof.
  intros sigs body Hall Hbytes Hfirst. unfold detect. apply first_sig_needs_lt; [exact Hall|].
  unfold first_nonws in Hfirst.
  destruct (skip_ws (firstn sniff_len body)) as [|b dr] eqn:Hsk; [exact I|].
  split.
  - rewrite Forall_forall in Hbytes. apply Hbytes. apply (firstn_incl sniff_len). apply skip_ws_incl.
    rewrite Hsk. left. reflexivity.
  - intro Hb. apply Hfirst. rewrite Hb. reflexivity.
Qed.

(** consequence for the user agent: a body that does not start (after white space) with '<' is not taken for markup
    even when nothing at all is declared *)
Lemma undeclared_non_lt_never_markup : forall sigs nosniff body,
  forallb sig_markup_needs_lt sigs = true ->
  Forall (fun b => b < 256) body ->
  first_nonws body <> Some 60 ->
  served_as_markup sigs None nosniff body = false.
Proof.
  intros sigs nosniff body Hall Hb Hf.
  pose proof (sniffer_needs_lt sigs body Hall Hb Hf) as Hd.
  unfold served_as_markup, wire_ct, browser_markup.
  destruct body as [|x r]; [exact Hd|]. rewrite Hd.
  destruct (beqb (mt_of (detect sigs (x :: r))) (str "text/plain") && negb nosniff); reflexivity.
Qed.

(* ------------------------------------------------------------------ static pages *)

Lemma iter_render_static : forall f n,
  (forall c d d0, fst (f (c, d)) = fst (f (c, d0)) /\ fst (snd (f (c, d))) = fst (snd (f (c, d0)))) ->
  forall c d d0, fst (iter_render f n (c, d)) = fst (iter_render f n (c, d0)) /\
                 fst (snd (iter_render f n (c, d))) = fst (snd (iter_render f n (c, d0))).
Proof.
  intros f n Hf. induction n as [|n IH]; intros c d d0; simpl; [split; reflexivity|].
  specialize (Hf c d d0). destruct (f (c, d)) as [o1 [c1 d1]] eqn:E1. destruct (f (c, d0)) as [o1' [c1' d1']] eqn:E1'.
  simpl in Hf. destruct Hf as [Ho Hc]. subst o1' c1'.
  specialize (IH c1 d1 d1').
  destruct (iter_render f n (c1, d1)) as [o2 [c2 d2]]. destruct (iter_render f n (c1, d1')) as [o2' [c2' d2']].
  simpl in *. destruct IH as [Ho2 Hc2]. subst. split; reflexivity.
Qed.

(** a page without slots renders the same bytes (and consumes the same branch outcomes) whatever the data *)
Lemma static_render : forall p, page_static p = true ->
  forall c d d0, fst (render p (c, d)) = fst (render p (c, d0)) /\
                 fst (snd (render p (c, d))) = fst (snd (render p (c, d0))).
Proof.
  induction p as [| b | k | p IHp q IHq | t IHt e IHe | b IHb e IHe]; intros Hs c d d0; simpl in *.
  - split; reflexivity.
  - split; reflexivity.
  - discriminate Hs.
  - apply andb_true_iff in Hs. destruct Hs as [Hp Hq].
    specialize (IHp Hp c d d0).
    destruct (render p (c, d)) as [o1 [c1 d1]]. destruct (render p (c, d0)) as [o1' [c1' d1']].
    simpl in IHp. destruct IHp as [Ho Hc]. subst o1' c1'.
    specialize (IHq Hq c1 d1 d1').
    destruct (render q (c1, d1)) as [o2 [c2 d2]]. destruct (render q (c1, d1')) as [o2' [c2' d2']].
    simpl in *. destruct IHq as [Ho2 Hc2]. subst. split; reflexivity.
  - apply andb_true_iff in Hs. destruct Hs as [Ht He].
    destruct (pop 0%nat c) as [x cs]. destruct x; [apply IHe | apply IHt]; assumption.
  - apply andb_true_iff in Hs. destruct Hs as [Hb He].
    destruct (pop 0%nat c) as [x cs]. destruct x; [apply IHe; assumption|].
    apply iter_render_static. intros c' d' d0'. apply IHb. exact Hb.
Qed.
