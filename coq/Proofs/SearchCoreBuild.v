(** C01, layer 4: query -> match tree (newMatchTree, newSubstringMatchTree / iterateNgrams, regexpToMatchTreeRecursive),
    constant folding, expansion, and the top-level theorem. *)
From ZV Require Import Lib.Base Model.SearchCore Proofs.SearchCoreText Proofs.SearchCoreTree Proofs.SearchCoreLoop Proofs.SearchCoreSelect Proofs.SearchCoreSym.
From Coq Require Import Sorting.Sorted ZifyBool.

(* ------------------------------------------------------------------ induction principles for nested syntax *)
Section RxInd.
Variable P : rx -> Prop.
Hypothesis Hlit : forall s f, P (RLit s f).
Hypothesis Hcap : forall r, P r -> P (RCapture r).
Hypothesis Hplus : forall r, P r -> P (RPlus r).
Hypothesis Hrep : forall mn r, P r -> P (RRepeat mn r).
Hypothesis Hcat : forall rs, Forall P rs -> P (RConcat rs).
Hypothesis Halt : forall rs, Forall P rs -> P (RAlt rs).
Hypothesis Hstar : P RStarAnyNotNL.
Hypothesis Hwb : P RWordB.
Hypothesis Hother : P ROther.
Fixpoint rx_ind' (r : rx) : P r :=
  match r with
  | RLit s f => Hlit s f
  | RCapture r' => Hcap r' (rx_ind' r')
  | RPlus r' => Hplus r' (rx_ind' r')
  | RRepeat mn r' => Hrep mn r' (rx_ind' r')
  | RConcat rs => Hcat rs ((fix go (l : list rx) : Forall P l := match l with [] => Forall_nil P | x :: t => Forall_cons x (rx_ind' x) (go t) end) rs)
  | RAlt rs => Halt rs ((fix go (l : list rx) : Forall P l := match l with [] => Forall_nil P | x :: t => Forall_cons x (rx_ind' x) (go t) end) rs)
  | RStarAnyNotNL => Hstar
  | RWordB => Hwb
  | ROther => Hother
  end.
End RxInd.

Section QInd.
Variable P : Q -> Prop.
Hypothesis Hand : forall l, Forall P l -> P (QAnd l).
Hypothesis Hor : forall l, Forall P l -> P (QOr l).
Hypothesis Hnot : forall q, P q -> P (QNot q).
Hypothesis Htf : forall q, P q -> P (QTypeFileName q).
Hypothesis Hto : forall q, P q -> P (QTypeOther q).
Hypothesis Hboost : forall q, P q -> P (QBoost q).
Hypothesis Hatom : forall q, (match q with QAnd _ | QOr _ | QNot _ | QTypeFileName _ | QTypeOther _ | QBoost _ => False | _ => True end) -> P q.
Fixpoint Q_ind' (q : Q) : P q :=
  match q with
  | QAnd l => Hand l ((fix go (l : list Q) : Forall P l := match l with [] => Forall_nil P | x :: t => Forall_cons x (Q_ind' x) (go t) end) l)
  | QOr l => Hor l ((fix go (l : list Q) : Forall P l := match l with [] => Forall_nil P | x :: t => Forall_cons x (Q_ind' x) (go t) end) l)
  | QNot q' => Hnot q' (Q_ind' q')
  | QTypeFileName q' => Htf q' (Q_ind' q')
  | QTypeOther q' => Hto q' (Q_ind' q')
  | QBoost q' => Hboost q' (Q_ind' q')
  | QSubstr p cs fn ct => Hatom (QSubstr p cs fn ct) I
  | QRegexp rid r tf cs fn ct => Hatom (QRegexp rid r tf cs fn ct) I
  | QConst b => Hatom (QConst b) I
  | QBranch p e => Hatom (QBranch p e) I
  | QRepoTbl w => Hatom (QRepoTbl w) I
  | QRepoSet s => Hatom (QRepoSet s) I
  | QRepoIDs s => Hatom (QRepoIDs s) I
  | QRawConfig m => Hatom (QRawConfig m) I
  | QBranchesRepos l => Hatom (QBranchesRepos l) I
  | QLang nm => Hatom (QLang nm) I
  | QFileNameSet s => Hatom (QFileNameSet s) I
  | QSymSubstr p cs => Hatom (QSymSubstr p cs) I
  | QSymRegexp rid r tf cs => Hatom (QSymRegexp rid r tf cs) I
  end.
End QInd.

Lemma nth_map_in : forall (A B : Type) (f : A -> B) l i d d', i < length l -> nth i (map f l) d' = f (nth i l d).
Proof.
  intros A B f l i d d' H. rewrite (nth_indep (map f l) d' (f d)) by (rewrite map_length; auto). apply map_nth.
Qed.

Section Build.
Variable re_match : N -> list N -> bool.
Variable tolower : N -> N.
Variable orbit : N -> list N.
Variable c : corpus.
Variable freq : bool -> bool -> tri -> N.
Hypothesis Hagree : agree tolower orbit.
(** a frequency of 0 is only reported for trigrams (with their case variants) that have no posting *)
Hypothesis Hfreq : forall fn cs g, freq fn cs g = 0%N -> post orbit (ix_tris c fn) cs g = [].
Notation n := (ndocs c).
Notation sem := (sem re_match tolower c).
Notation tvalid := (tvalid tolower orbit c).

Lemma text_of_doc : forall fn k, text_of c fn k = if fn then d_name (doc_at c k) else d_content (doc_at c k).
Proof.
  intros fn k. unfold text_of, texts, doc_at.
  destruct (le_lt_dec (length (c_docs c)) k) as [Hge|Hlt].
  - rewrite !nth_overflow by (try rewrite map_length; auto). destruct fn; reflexivity.
  - rewrite (nth_map_in _ _ _ (c_docs c) k dflt_doc []) by auto. reflexivity.
Qed.

(* ------------------------------------------------------------------ newSubstringMatchTree *)
Theorem new_substr_spec : forall p cs fn,
  tvalid None (new_substr orbit c freq p cs fn) /\ line_shape (new_substr orbit c freq p cs fn) /\
  forall k, k < n -> sem k (new_substr orbit c freq p cs fn) = contains tolower cs p (text_of c fn k).
Proof.
  intros p cs fn. unfold new_substr. destruct (length p <? 3) eqn:E3.
  - simpl. auto.
  - assert (Hm : 3 <= length p) by lia.
    destruct (existsb (N.eqb 0) (map (fun e => freq fn cs (snd e)) (sort_offs (pat_tris p)))) eqn:Ez.
    + (* some trigram of the pattern is absent: the pattern occurs nowhere *)
      split; [|split; [exact I|reflexivity]]. simpl. unfold leaf_valid. simpl. split; [reflexivity|].
      intros k Hk. unfold leaf_sem. simpl.
      apply existsb_exists in Ez. destruct Ez as [z [Hz Hz0]]. apply in_map_iff in Hz. destruct Hz as [[i g] [<- Hin]].
      apply N.eqb_eq in Hz0. simpl in Hz0. symmetry in Hz0. apply Hfreq in Hz0.
      apply (proj1 (sort_offs_In _ _)) in Hin. unfold pat_tris in Hin. apply (proj1 (windows_In _ _ _ _)) in Hin.
      destruct Hin as [i' [-> Hw]]. simpl in Hw. pose proof (window_at_bound _ _ _ Hw) as Hb.
      rewrite nth_tri_window in Hw by auto. inversion Hw; subst g.
      destruct (contains tolower cs p (text_of c fn k)) eqn:Ec; [|reflexivity]. exfalso.
      unfold contains in Ec. apply existsb_exists in Ec. destruct Ec as [o [_ Hocc]].
      assert (Hkl : k < length (texts c fn)) by (unfold texts; rewrite map_length; exact Hk).
      pose proof (hit_of_occurrence tolower orbit (texts c fn) cs p i' i' k o Hagree (le_n _) Hb Hkl Hocc) as Hin.
      unfold hits_of in Hin. rewrite Nat.eqb_refl in Hin. unfold ix_tris in Hz0. rewrite Hz0 in Hin. destruct Hin.
    + pose proof (select_idx_valid p (map (fun e => freq fn cs (snd e)) (sort_offs (pat_tris p))) Hm ltac:(apply map_length)) as Hsel.
      destruct (select_idx (sort_offs (pat_tris p)) (map (fun e => freq fn cs (snd e)) (sort_offs (pat_tris p)))) as [a b].
      destruct Hsel as [Hab Hb]. split; [|split; [exact I|reflexivity]].
      simpl. unfold leaf_valid. simpl. split; [exact Hm|]. split; [reflexivity|].
      exists b, 0. split; [exact Hab|]. split; [exact Hb|]. split; [lia|].
      unfold hits_of, ix_tris.
      assert (Hf : forall l : list nat, l = filter (fun p0 => 0 <=? p0) l).
      { induction l as [|x l IH]; simpl; [reflexivity|]. f_equal. exact IH. }
      apply Hf.
Qed.

(* ------------------------------------------------------------------ regexpToMatchTreeRecursive: shape and state *)
Lemma tvalid_and : forall last cs, tvalid last (MTand cs) <-> Forall (tvalid last) cs.
Proof. intros. exact (tvalid_list tolower orbit c last cs). Qed.
Lemma tvalid_andline : forall last cs, tvalid last (MTandLine cs) <-> Forall (tvalid last) cs.
Proof. intros. exact (tvalid_list tolower orbit c last cs). Qed.
Lemma shape_ok_and : forall cs, shape_ok (MTand cs) <-> Forall shape_ok cs.
Proof. intros. exact (shape_ok_list cs). Qed.
Lemma shape_ok_andline : forall cs, shape_ok (MTandLine cs) <-> Forall line_shape cs.
Proof. intros. exact (line_shape_list cs). Qed.
Lemma line_shape_andline : forall cs, line_shape (MTandLine cs) <-> Forall line_shape cs.
Proof. intros. exact (line_shape_list cs). Qed.

Definition distill_ok (x : mt * bool * bool) : Prop :=
  let '(t, _, sl) := x in tvalid None t /\ shape_ok t /\ (sl = true -> line_shape t).
Lemma brute_ok : forall e s, distill_ok (brute, e, s).
Proof. intros. simpl. auto. Qed.

Theorem distill_spec : forall cs fn r, distill_ok (distill orbit c freq cs fn r).
Proof.
  intros cs fn. induction r using rx_ind'.
  - cbn [distill]. destruct (3 <=? byte_len s); [|apply brute_ok].
    destruct (new_substr_spec s (negb f && cs) fn) as [H1 [H2 _]]. simpl. split; [auto|]. split; [apply line_shape_ok; auto|auto].
  - cbn [distill]. exact IHr.
  - cbn [distill]. exact IHr.
  - cbn [distill]. destruct (mn =? 1); [exact IHr|]. destruct (1 <? mn); [|apply brute_ok].
    destruct (distill orbit c freq cs fn r) as [[m e] sl]. exact IHr.
  - (* concat *) cbn [distill].
    set (subs := map (distill orbit c freq cs fn) rs).
    assert (Hsubs : Forall distill_ok subs).
    { unfold subs. rewrite Forall_forall in *. intros x Hx. apply in_map_iff in Hx. destruct Hx as [r [<- Hr]]. auto. }
    set (qs := map (fun x => fst (fst x)) subs).
    set (sl := forallb (fun x => snd x) subs).
    assert (Hq : forall q, In q qs -> tvalid None q /\ shape_ok q /\ (sl = true -> line_shape q)).
    { intros q Hq. unfold qs in Hq. apply in_map_iff in Hq. destruct Hq as [[[t e] s0] [<- Hin]]. simpl.
      rewrite Forall_forall in Hsubs. specialize (Hsubs _ Hin). simpl in Hsubs. destruct Hsubs as [A [B C]].
      split; [auto|]. split; [auto|]. intro Hsl. apply C. unfold sl in Hsl. rewrite forallb_forall in Hsl. apply (Hsl _ Hin). }
    assert (Hnq : forall q, In q (filter (fun q => negb (is_brute q)) qs) -> tvalid None q /\ shape_ok q /\ (sl = true -> line_shape q)).
    { intros q Hin. apply filter_In in Hin. apply Hq. tauto. }
    destruct (filter (fun q => negb (is_brute q)) qs) as [|q1 [|q2 rest]] eqn:Ef.
    + simpl. auto.
    + simpl. apply Hnq. left; reflexivity.
    + destruct sl eqn:Esl.
      * unfold distill_ok; cbn beta iota. split; [apply tvalid_andline; apply Forall_forall; intros; apply Hnq; auto|].
        assert (Forall line_shape (q1 :: q2 :: rest)) by (apply Forall_forall; intros; apply Hnq; auto).
        split; [apply shape_ok_andline; auto|]. intros _. apply line_shape_andline; auto.
      * unfold distill_ok; cbn beta iota. split; [apply tvalid_and; apply Forall_forall; intros; apply Hnq; auto|].
        split; [apply shape_ok_and; apply Forall_forall; intros; apply Hnq; auto|]. discriminate.
  - (* alternate *) cbn [distill].
    set (subs := map (distill orbit c freq cs fn) rs).
    assert (Hsubs : Forall distill_ok subs).
    { unfold subs. rewrite Forall_forall in *. intros x Hx. apply in_map_iff in Hx. destruct Hx as [r [<- Hr]]. auto. }
    set (qs := map (fun x => fst (fst x)) subs).
    assert (Hq : forall q, In q qs -> tvalid None q /\ shape_ok q).
    { intros q Hq. unfold qs in Hq. apply in_map_iff in Hq. destruct Hq as [[[t e] s0] [<- Hin]]. simpl.
      rewrite Forall_forall in Hsubs. specialize (Hsubs _ Hin). simpl in Hsubs. tauto. }
    destruct (find is_brute qs) as [q|] eqn:Efind.
    + apply find_some in Efind. simpl. destruct (Hq q (proj1 Efind)). split; [auto|]. split; [auto|discriminate].
    + destruct qs as [|q0 qr] eqn:Eqs.
      * simpl. repeat split; auto; discriminate.
      * unfold distill_ok; cbn beta iota. split; [apply tvalid_or; apply Forall_forall; intros; apply Hq; auto|].
        split; [apply shape_ok_or; apply Forall_forall; intros; apply Hq; auto|]. discriminate.
  - apply brute_ok.
  - apply brute_ok.
  - apply brute_ok.
Qed.

(* ------------------------------------------------------------------ newMatchTree *)
Lemma land1_testbit : forall m, negb (N.land 1 m =? 0)%N = N.testbit m 0.
Proof.
  intro m. rewrite N.land_comm. change 1%N with (N.ones 1). rewrite N.land_ones. change (2 ^ 1)%N with 2%N.
  pose proof (N.bit0_mod m) as Hb. destruct (N.testbit m 0); simpl in Hb; rewrite <- Hb; reflexivity.
Qed.
Lemma branches_fold : forall (id : N) (bb : list N -> N) (m : N) (l : list (list N * list N)) (acc : N),
  (N.land m (fold_left (fun mask br => if memN id (snd br) then N.lor mask (bb (fst br)) else mask) l acc) =? 0)%N =
  (N.land m acc =? 0)%N && negb (existsb (fun br => memN id (snd br) && negb (N.land (bb (fst br)) m =? 0)%N) l).
Proof.
  induction l as [|br l IH]; intro acc; simpl; [rewrite andb_true_r; reflexivity|].
  rewrite IH. destruct (memN id (snd br)); simpl; [|reflexivity].
  rewrite N.land_lor_distr_r. rewrite (N.land_comm (bb (fst br)) m).
  destruct (N.eqb_spec (N.lor (N.land m acc) (N.land m (bb (fst br)))) 0) as [E3|E3];
    destruct (N.eqb_spec (N.land m acc) 0) as [E1|E1]; destruct (N.eqb_spec (N.land m (bb (fst br))) 0) as [E2|E2];
    simpl; try reflexivity; exfalso.
  - apply N.lor_eq_0_iff in E3. tauto.
  - apply N.lor_eq_0_iff in E3. tauto.
  - apply N.lor_eq_0_iff in E3. tauto.
  - apply E3. rewrite E1, E2. reflexivity.
Qed.

Lemma live_repo_in_range : forall k, live_at c k = true -> d_repo (doc_at c k) < length (c_repos c).
Proof.
  intros k H. unfold live_at, live, repo_of in H.
  destruct (le_lt_dec (length (c_repos c)) (d_repo (doc_at c k))) as [Hge|]; [|auto].
  rewrite nth_overflow in H by auto. simpl in H. discriminate.
Qed.

Fixpoint buildable (q : Q) : Prop :=
  match q with
  | QSubstr _ _ fn ct => fn <> ct
  | QRegexp _ _ _ _ fn ct => fn <> ct
  | QBranch p exact => (match p with [] => negb exact | _ => false end) = false
  | QAnd l => (fix all (l : list Q) : Prop := match l with [] => True | x :: r => buildable x /\ all r end) l
  | QOr l => (fix all (l : list Q) : Prop := match l with [] => True | x :: r => buildable x /\ all r end) l
  | QNot q' => buildable q'
  | QTypeFileName q' => buildable q'
  | QTypeOther q' => buildable q'
  | QBoost q' => buildable q'
  | _ => True
  end.
Lemma buildable_list : forall l,
  (fix all (l : list Q) : Prop := match l with [] => True | x :: r => buildable x /\ all r end) l <-> Forall buildable l.
Proof.
  induction l as [|x l IH]; split; intro H; try constructor; try exact I.
  - tauto. - apply IH; tauto. - inversion H; auto. - apply IH. inversion H; auto.
Qed.

(** THE OBLIGATION ON THE EXTERNAL REGEXP ENGINE (per regexp atom, per document): whenever the engine finds a match, the
    tree distilled from the regexp's literals holds (and conversely when the distillation claims equivalence); and on
    patterns of the form \bLIT\b the engine's verdict is the one of the word scanner. *)
Fixpoint re_ok (q : Q) : Prop :=
  match q with
  | QRegexp rid r tf cs fn _ =>
      forall k, k < n ->
      let txt := text_of c fn k in
      let '(sub, isEq, _) := distill orbit c freq cs fn r in
      if isEq then sem k sub = re_match rid txt
      else (re_match rid txt = true -> sem k sub = true) /\
           match word_of r tf cs with Some w => re_match rid txt = word_found tolower w txt | None => True end
  | QSymSubstr _ _ => forall k, k < n -> secs_ok (length (text_of c false k)) (d_secs (doc_at c k))
  | QSymRegexp rid r tf cs =>
      forall k, k < n ->
      let txt := text_of c false k in
      secs_ok (length txt) (d_secs (doc_at c k)) /\
      let '(sub, isEq, _) := distill orbit c freq cs false r in
      match isEq, sub with
      | true, MTsubstr s => forall sec, In sec (d_secs (doc_at c k)) ->
                            contains tolower (sl_cs s) (sl_pat s) (slice txt sec) = re_match rid (slice txt sec)
      | _, _ => True
      end
  | QAnd l => (fix all (l : list Q) : Prop := match l with [] => True | x :: r => re_ok x /\ all r end) l
  | QOr l => (fix all (l : list Q) : Prop := match l with [] => True | x :: r => re_ok x /\ all r end) l
  | QNot q' => re_ok q'
  | QTypeFileName q' => re_ok q'
  | QTypeOther q' => re_ok q'
  | QBoost q' => re_ok q'
  | _ => True
  end.
Lemma re_ok_list : forall l,
  (fix all (l : list Q) : Prop := match l with [] => True | x :: r => re_ok x /\ all r end) l <-> Forall re_ok l.
Proof.
  induction l as [|x l IH]; split; intro H; try constructor; try exact I.
  - tauto. - apply IH; tauto. - inversion H; auto. - apply IH. inversion H; auto.
Qed.

Definition build_ok (q : Q) : Prop :=
  tvalid None (build orbit c freq q) /\ shape_ok (build orbit c freq q) /\
  forall k, k < n -> live_at c k = true -> sem k (build orbit c freq q) = eval re_match tolower c q (doc_at c k).

Lemma text_sel_ne : forall fn ct f d, fn <> ct ->
  text_sel fn ct f d = f (if fn then d_name d else d_content d).
Proof. intros fn ct f d H. unfold text_sel. destruct fn, ct; simpl; try reflexivity; congruence. Qed.

(** the symbol-substring node decides "the pattern occurs in the text of one section" *)
Lemma symsub_holds : forall p cs k,
  secs_ok (length (text_of c false k)) (d_secs (doc_at c k)) ->
  scan_holds re_match tolower c (SKsymsub p cs) k =
  existsb (fun sec => contains tolower cs p (slice (text_of c false k) sec)) (d_secs (doc_at c k)).
Proof.
  intros p cs k Hs. simpl. destruct (length p <? 3) eqn:E; [reflexivity|].
  apply sym_trim_spec; [lia|exact Hs].
Qed.

Theorem build_spec : forall q, buildable q -> re_ok q -> build_ok q.
Proof.
  induction q using Q_ind'; intros Hb Hr.
  - (* and *) simpl in Hb, Hr. apply buildable_list in Hb. apply re_ok_list in Hr. rewrite Forall_forall in H, Hb, Hr.
    unfold build_ok. simpl. split; [apply tvalid_and; apply Forall_forall; intros t Ht; apply in_map_iff in Ht; destruct Ht as [x [<- Hx]]; apply H; auto|].
    split; [apply shape_ok_and; apply Forall_forall; intros t Ht; apply in_map_iff in Ht; destruct Ht as [x [<- Hx]]; apply H; auto|].
    intros k Hk Hl. rewrite forallb_map_eq. apply forallb_ext_in. intros x Hx. apply H; auto.
  - (* or *) simpl in Hb, Hr. apply buildable_list in Hb. apply re_ok_list in Hr. rewrite Forall_forall in H, Hb, Hr.
    unfold build_ok. simpl. split; [apply tvalid_or; apply Forall_forall; intros t Ht; apply in_map_iff in Ht; destruct Ht as [x [<- Hx]]; apply H; auto|].
    split; [apply shape_ok_or; apply Forall_forall; intros t Ht; apply in_map_iff in Ht; destruct Ht as [x [<- Hx]]; apply H; auto|].
    intros k Hk Hl. rewrite existsb_map_eq. apply existsb_ext_in. intros x Hx. apply H; auto.
  - simpl in Hb, Hr. destruct (IHq Hb Hr) as [A [B C]]. unfold build_ok. simpl. split; [auto|]. split; [auto|].
    intros k Hk Hl. rewrite C by auto. reflexivity.
  - simpl in Hb, Hr. destruct (IHq Hb Hr) as [A [B C]]. unfold build_ok. simpl. auto.
  - simpl in Hb, Hr. destruct (IHq Hb Hr) as [A [B C]]. unfold build_ok. simpl. auto.
  - simpl in Hb, Hr. destruct (IHq Hb Hr) as [A [B C]]. unfold build_ok. simpl. auto.
  - (* atoms *) destruct q; try contradiction; unfold build_ok.
    + (* substring *) simpl in Hb. simpl build. destruct (new_substr_spec p cs fn) as [A [B C]].
      split; [auto|]. split; [apply line_shape_ok; auto|]. intros k Hk _. rewrite C by auto.
      simpl. rewrite text_sel_ne by auto. rewrite text_of_doc. reflexivity.
    + (* regexp *) simpl in Hb. simpl in Hr. simpl build.
      pose proof (distill_spec cs fn r) as Hd. destruct (distill orbit c freq cs fn r) as [[sub isEq] sl].
      simpl in Hd. destruct Hd as [D1 [D2 _]].
      assert (Hev : forall k, eval re_match tolower c (QRegexp rid r topfold cs fn ct) (doc_at c k) = re_match rid (text_of c fn k)).
      { intro k. simpl. rewrite text_sel_ne by auto. rewrite text_of_doc. reflexivity. }
      destruct isEq.
      * split; [auto|]. split; [auto|]. intros k Hk _. rewrite Hev. apply (Hr k Hk).
      * split; [apply tvalid_and; repeat constructor; auto; destruct (word_of r topfold cs); reflexivity|].
        split; [apply shape_ok_and; repeat constructor; auto; destruct (word_of r topfold cs); exact I|].
        intros k Hk _. rewrite Hev. destruct (Hr k Hk) as [R1 R2].
        destruct (word_of r topfold cs) as [w|]; simpl.
        -- rewrite andb_true_r. rewrite R2 in *. destruct (word_found tolower w (text_of c fn k)); [rewrite R1; reflexivity | reflexivity].
        -- rewrite andb_true_r. destruct (re_match rid (text_of c fn k)); [rewrite R1; reflexivity | reflexivity].
    + (* const *) destruct b; simpl; auto.
    + (* branch *) simpl in Hb. simpl build. split; [reflexivity|]. split; [exact I|]. intros k Hk Hl. simpl. rewrite Hb.
      pose proof (live_repo_in_range k Hl) as Hin. unfold repo_idx.
      rewrite (nth_map_in _ _ _ (c_repos c) _ dflt_repo 0%N Hin). fold (repo_of c (doc_at c k)).
      destruct (runes_eqb p HEAD); [apply land1_testbit | reflexivity].
    + simpl. auto.
    + simpl build. split; [reflexivity|]. split; [exact I|]. intros k Hk Hl. simpl.
      pose proof (live_repo_in_range k Hl) as Hin. unfold repo_idx.
      rewrite (nth_map_in _ _ _ (c_repos c) _ dflt_repo false Hin). reflexivity.
    + simpl build. split; [reflexivity|]. split; [exact I|]. intros k Hk Hl. simpl.
      pose proof (live_repo_in_range k Hl) as Hin. unfold repo_idx.
      rewrite (nth_map_in _ _ _ (c_repos c) _ dflt_repo false Hin). reflexivity.
    + simpl. auto.
    + (* BranchesRepos *) simpl build. split; [reflexivity|]. split; [exact I|]. intros k Hk Hl. simpl.
      pose proof (live_repo_in_range k Hl) as Hin. unfold repo_idx.
      rewrite (nth_map_in _ _ _ (c_repos c) _ dflt_repo 0%N Hin). fold (repo_of c (doc_at c k)).
      rewrite branches_fold. rewrite N.land_0_r. simpl. rewrite negb_involutive. reflexivity.
    + (* language *) simpl build. simpl eval. destruct (lang_code c name); simpl; auto.
    + simpl. auto.
    + (* Symbol{Substring} *) simpl build. split; [reflexivity|]. split; [exact I|]. intros k Hk _.
      simpl in Hr. specialize (Hr k Hk).
      transitivity (scan_holds re_match tolower c (SKsymsub p cs) k); [reflexivity|].
      rewrite symsub_holds by auto. simpl eval. rewrite text_of_doc. reflexivity.
    + (* Symbol{Regexp} *) simpl in Hr. simpl build.
      pose proof (distill_spec cs false r) as Hd.
      destruct (distill orbit c freq cs false r) as [[sub isEq] sl].
      assert (Hre : forall k, k < n -> sem k (MTscan (SKsymre rid) None) = eval re_match tolower c (QSymRegexp rid r topfold cs) (doc_at c k)).
      { intros k Hk. simpl. rewrite text_of_doc. reflexivity. }
      destruct isEq; [destruct sub|];
        try (split; [reflexivity|]; split; [exact I|]; intros k' Hk' _; exact (Hre k' Hk')).
      (* the distilled tree is one substring leaf, equivalent to the regexp *)
      split; [reflexivity|]. split; [exact I|]. intros k Hk _. destruct (Hr k Hk) as [Hs He].
      transitivity (scan_holds re_match tolower c (SKsymsub (sl_pat s) (sl_cs s)) k); [reflexivity|].
      rewrite symsub_holds by auto. simpl eval. rewrite text_of_doc in *.
      apply existsb_ext_in. intros sec Hsec. apply He. exact Hsec.
Qed.
End Build.
