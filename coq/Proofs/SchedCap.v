(** newMultiScheduler's batch capacity: the computation read from search/sched.go by translator/schedconsts
    (coq/Generated/SchedConsts.v, used by the model's [batch_cap]) IS the documented rule [batch_cap_spec]
    ("1/batchdiv of capacity", default 1/4, at least one slot), for every capacity and divisor.
    The proof script does not depend on how the source spells the computation beyond what lia decides after the
    truncated division has been rewritten to N's division. *)
From ZV Require Import Lib.Base Generated.SchedConsts Model.Sched.
From Coq Require Import ZifyBool ZifyNat ZifyN.

Lemma batch_cap_formula (c d : N) : batch_cap c d = batch_cap_spec c d.
Proof.
  unfold batch_cap, batch_cap_spec.
  assert (HD : (if N.eqb d 0 then default_batchdiv else Z.of_N d) = Z.of_N (if N.eqb d 0 then 4 else d)%N)
    by (unfold default_batchdiv; destruct (N.eqb d 0); reflexivity).
  rewrite HD. clear HD.
  set (D := (if N.eqb d 0 then 4 else d)%N).
  assert (HDpos : (0 < D)%N) by (subst D; destruct (N.eqb d 0) eqn:E; lia).
  clearbody D.
  assert (Hq : Z.quot (Z.of_N c) (Z.of_N D) = Z.of_N (c / D)%N)
    by (rewrite Z.quot_div_nonneg by lia; rewrite N2Z.inj_div; reflexivity).
  unfold batch_cap_src. cbv zeta.
  repeat rewrite Hq.
  generalize dependent (c / D)%N. intros q _.
  destruct (N.eqb q 0) eqn:E2;
    repeat match goal with |- context [if ?b then _ else _] => let E := fresh "E" in destruct b eqn:E end; lia.
Qed.

Lemma batch_cap_pos (c d : N) : (1 <= batch_cap c d)%N.
Proof.
  rewrite batch_cap_formula. unfold batch_cap_spec. cbv zeta.
  generalize (c / (if N.eqb d 0 then 4 else d))%N. intros x.
  destruct (N.eqb x 0) eqn:H; [lia|]. apply N.eqb_neq in H. lia.
Qed.
