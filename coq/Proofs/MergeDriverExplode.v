(** C35 — proofs about index.Explode. *)
From ZV Require Import Lib.Base Model.MergeDriver Proofs.MergeDriverFacts Proofs.MergeDriverMerge.
From Coq Require Import Permutation.

Section Explode.
  Variable plan : op -> nat -> bool.
  Variable shuf_rename shuf_cleanup shuf_stale : shuffle.
  (** Go's map iteration visits every key exactly once, in any order *)
  Hypothesis Hperm : forall l, Permutation (shuf_rename l) l.
  Hypothesis Hperm_st : forall l, Permutation (shuf_stale l) l.
  Variable s0 : fs.
  Hypothesis Hnd : no_dup s0.
  Variable c : zname.
  Variable rs : list rmeta.
  Hypothesis Heff : eff s0 c = Some rs.
  (** [fixed = false] (the code before the "stale .meta" repair): no stale sidecar waits at the simple-shard names.
      [fixed = true]: a stale sidecar may wait there if it is an ORPHAN (no shard of that name beside it) *)
  Variable fixed : bool.
  Hypothesis Hmeta : forall r, In r (alive rs) ->
    s0 (PMeta (ZSimple (rm_id r))) = None \/ ZSimple (rm_id r) = c \/
    (fixed = true /\ s0 (PZ (ZSimple (rm_id r))) = None).

  Definition Pz (z : zname) (cnt : content) : Prop :=
    exists r, cnt = CShard [r] /\ z = ZSimple (rm_id r) /\ In r (alive rs).

  Lemma alive_not_tomb : forall r l, In r (alive l) -> rm_tomb r = false.
  Proof. intros r l H. unfold alive in H. apply filter_In in H. destruct H as [_ H]. destruct (rm_tomb r); simpl in H; congruence. Qed.

  (** ---- explode's loop *)
  Lemma write_simple_spec : forall l acc, (forall r, In r l -> In r (alive rs)) ->
    hoare (BI s0 Pz acc []) (write_simple plan l acc)
          (fun p s => Shrunk s0 s /\
                      (fst p = true -> TmpsP Pz (snd p) s /\ incl acc (snd p) /\
                                       (forall r, In r l -> In (ZSimple (rm_id r)) (snd p)) /\
                                       (forall z, In z (snd p) -> In z acc \/ exists r, In r l /\ z = ZSimple (rm_id r)))).
  Proof.
    induction l as [|r rest IH]; intros acc Hl; simpl.
    - apply hoare_ret. intros s [H1 [H2 _]]. split; auto. intros _. repeat split; auto using incl_refl. intros r [].
    - set (z := ZSimple (rm_id r)).
      set (acc' := if in_dec zname_eq_dec z acc then acc else acc ++ [z]).
      assert (Hacc : incl acc acc' /\ In z acc').
      { unfold acc'. destruct (in_dec zname_eq_dec z acc); split; auto using incl_refl, incl_appl.
        apply in_or_app; right; simpl; auto. }
      destruct Hacc as [Hacc1 Hacc2].
      eapply hoare_bind.
      { apply (bwa_spec plan s0 Hnd Pz acc [] z (CShard [r])). exists r. repeat split; auto. apply Hl; left; auto. }
      intros ok. apply hoare_if_negb; intros ->.
      { apply hoare_ret. intros s [[H _] _]. simpl. split; auto. discriminate. }
      eapply hoare_conseq; [apply (IH acc')| |].
      + intros r' Hr'. apply Hl; right; auto.
      + intros s [[H1 [H2 H3]] H4]. split; [exact H1|split; [|exact H3]].
        intros z' Hz'. apply (H4 eq_refl). unfold acc' in Hz'.
        destruct (in_dec zname_eq_dec z acc); [right; auto|].
        apply in_app_or in Hz'. destruct Hz' as [Hz'|[<-|[]]]; [right|left]; auto.
      + intros [ok' tmps] s [H1 H2]. simpl in *. split; auto. intros Hok.
        destruct (H2 Hok) as [H3 [H4 [H5 H6]]]. split; [auto|split; [|split]].
        * eapply incl_tran; eauto.
        * intros r' [<-|Hr']; auto.
        * intros z' Hz'. destruct (H6 z' Hz') as [Ha|[r' [Hr1 Hr2]]].
          -- unfold acc' in Ha. destruct (in_dec zname_eq_dec z acc); [left; exact Ha|].
             apply in_app_or in Ha. destruct Ha as [Ha|[<-|[]]]; [left; exact Ha|].
             right. exists r. split; [left; reflexivity|reflexivity].
          -- right. exists r'. split; [right; exact Hr1|exact Hr2].
  Qed.

  (** ---- deferred cleanup: removing .tmp names never matters *)
  Lemma cleanup_spec : forall (F : fs -> Prop),
    (forall s, F s -> no_dup s) -> (forall s z, F s -> F (upd s (PTmp z) None)) ->
    forall zs, hoare F (remove_best_effort plan (map PTmp zs)) (fun _ s => F s).
  Proof.
    intros F Hn Hst zs. induction zs as [|z rest IH]; simpl.
    - apply hoare_ret; auto.
    - eapply hoare_bind with (R := fun _ s => F s); [|intros _; exact IH].
      apply hoare_exec; auto.
      intros s s' HF E. apply step_remove in E. destruct E as [-> _]. split; auto.
  Qed.

  (** ---- the rename phase *)
  Definition Inv2 (s : fs) : Prop :=
    forall z, (z <> c /\ incl (vis s z) (vis s0 z)) \/ vis s z = [] \/
              (exists r, In r (alive rs) /\ z = ZSimple (rm_id r) /\ vis s z = [rm_id r]).
  Definition MetaI (s : fs) : Prop := forall z, s (PMeta z) = s0 (PMeta z) \/ s (PMeta z) = None.
  Definition CGone (s : fs) : Prop := (forall r0, c <> ZSimple r0) -> s (PZ c) = None.
  Definition Published (z : zname) (s : fs) : Prop :=
    (exists r, In r (alive rs) /\ z = ZSimple (rm_id r) /\ vis s z = [rm_id r]) /\ s (PTmp z) = None.
  Definition MetaGone (D : list zname) (s : fs) : Prop := forall z, In z D -> s (PMeta z) = None.
  Definition EI (tmps D : list zname) (s : fs) : Prop :=
    Inv2 s /\ MetaI s /\ s (PMeta c) = None /\ CGone s /\ TmpsP Pz tmps s /\ (forall z, In z D -> Published z s) /\
    MetaGone tmps s.

  Lemma vis_c0 : vis s0 c = live rs.
  Proof. unfold vis. rewrite Heff. reflexivity. Qed.

  Lemma inv2_no_dup : forall s, Inv2 s -> no_dup s.
  Proof.
    intros s H z1 z2 r H1 H2.
    destruct (H z1) as [[N1 I1]|[E1|[r1 [A1 [Z1 V1]]]]]; [|rewrite E1 in H1; destruct H1|];
    destruct (H z2) as [[N2 I2]|[E2|[r2 [A2 [Z2 V2]]]]]; try (rewrite E2 in H2; destruct H2).
    - eapply Hnd; eauto.
    - exfalso. apply N1. rewrite V2 in H2. destruct H2 as [<-|[]].
      apply (Hnd z1 c (rm_id r2)); auto. rewrite vis_c0. apply in_live. exists r2.
      unfold alive in A2. apply filter_In in A2. destruct A2 as [A2 A3].
      repeat split; auto. destruct (rm_tomb r2); simpl in A3; congruence.
    - exfalso. apply N2. rewrite V1 in H1. destruct H1 as [<-|[]].
      apply (Hnd z2 c (rm_id r1)); auto. rewrite vis_c0. apply in_live. exists r1.
      unfold alive in A1. apply filter_In in A1. destruct A1 as [A1 A3].
      repeat split; auto. destruct (rm_tomb r1); simpl in A3; congruence.
    - rewrite V1 in H1. rewrite V2 in H2. destruct H1 as [<-|[]]. destruct H2 as [E|[]]. congruence.
  Qed.

  Lemma EI_upd_tmp_none : forall tmps D s z, EI tmps D s -> EI tmps D (upd s (PTmp z) None).
  Proof.
    intros tmps D s z [H1 [H2 [H3 [H4 [H5 [H6 H7]]]]]]. unfold EI.
    assert (V : forall z', vis (upd s (PTmp z) None) z' = vis s z') by (intros; apply vis_upd_invisible; simpl; auto).
    split; [|split; [|split; [|split; [|split; [|split]]]]].
    - intros z'. rewrite V. apply H1.
    - intros z'. rewrite upd_other by discriminate. apply H2.
    - rewrite upd_other by discriminate. auto.
    - intros Hc. rewrite upd_other by discriminate. auto.
    - intros z' Hz'. unfold upd. destruct (path_eq_dec (PTmp z') (PTmp z)); auto.
    - intros z' Hz'. destruct (H6 z' Hz') as [P1 P2]. split.
      + rewrite V. exact P1.
      + unfold upd. destruct (path_eq_dec (PTmp z') (PTmp z)); auto.
    - intros z' Hz'. rewrite upd_other by discriminate. apply H7; auto.
  Qed.

  Lemma rename_one : forall tmps D z, In z tmps ->
    hoare (EI tmps D) (exec plan (ORename (PTmp z) (PZ z)) CGarbage)
          (fun ok s => EI tmps D s /\ (ok = true -> Published z s)).
  Proof.
    intros tmps D z Hz. apply hoare_exec.
    2:{ intros s H. split; auto. intros; discriminate. }
    intros s s' [H1 [H2 [H3 [H4 [H5 [H6 H7]]]]]] E. apply step_rename in E. destruct E as [-> [c0 Hc0]].
    destruct (H5 z Hz) as [Hn|[c1 [Hc1 [r [-> [Ez Hr]]]]]]; [congruence|].
    rewrite Hc0 in Hc1. inversion Hc1; subst c0. clear Hc1.
    set (s' := upd (upd s (PZ z) (s (PTmp z))) (PTmp z) None).
    assert (Hmz : s (PMeta z) = None) by (apply H7; exact Hz).
    assert (Hvz : vis s' z = [rm_id r]).
    { unfold vis, eff, s'. rewrite upd_other by discriminate. rewrite upd_same, Hc0.
      rewrite !upd_other by discriminate. rewrite Hmz. unfold live, alive. simpl.
      rewrite (alive_not_tomb r rs Hr). reflexivity. }
    assert (Hvo : forall z', z' <> z -> vis s' z' = vis s z').
    { intros z' Hne. unfold vis, s'. rewrite eff_upd_invisible by (simpl; auto).
      rewrite eff_upd_other_z; congruence. }
    assert (HI : Inv2 s').
    { intros z'. destruct (zname_eq_dec z' z) as [->|Hne].
      - right; right. exists r. auto.
      - rewrite (Hvo z' Hne). apply H1. }
    split; [apply inv2_no_dup, HI|].
    assert (HP : Published z s').
    { split; [exists r; auto|]. unfold s'. apply upd_same. }
    split; [|auto].
    split; [exact HI|split; [|split; [|split; [|split; [|split]]]]].
    - intros z'. unfold s'. rewrite !upd_other by discriminate. apply H2.
    - unfold s'. rewrite !upd_other by discriminate. exact H3.
    - intros Hc. unfold s'. rewrite upd_other by discriminate.
      rewrite upd_other by (subst z; intro E; inversion E; eapply Hc; eauto). auto.
    - intros z' Hz'. unfold s'. destruct (zname_eq_dec z' z) as [->|Hne].
      + left. apply upd_same.
      + rewrite upd_other by congruence. rewrite upd_other by discriminate. apply H5; auto.
    - intros z' Hz'. destruct (zname_eq_dec z' z) as [->|Hne]; [exact HP|].
      destruct (H6 z' Hz') as [P1 P2]. split.
      + rewrite (Hvo z' Hne). exact P1.
      + unfold s'. rewrite upd_other by congruence. rewrite upd_other by discriminate. exact P2.
    - intros z' Hz'. unfold s'. rewrite !upd_other by discriminate. apply H7; auto.
  Qed.

  Lemma EI_weaken_D : forall tmps D D' s, incl D' D -> EI tmps D s -> EI tmps D' s.
  Proof. intros tmps D D' s Hi [H1 [H2 [H3 [H4 [H5 [H6 H7]]]]]]. unfold EI. split; [exact H1|split; [exact H2|split; [exact H3|split; [exact H4|split; [exact H5|split; [|exact H7]]]]]]. intros z Hz. apply H6, Hi, Hz. Qed.

  Lemma rename_loop : forall tmps l D, incl l tmps ->
    hoare (EI tmps D) (rename_best_effort plan l)
          (fun ok s => EI tmps D s /\ (ok = true -> forall z, In z l -> Published z s)).
  Proof.
    intros tmps l. induction l as [|z rest IH]; intros D Hl; simpl.
    - apply hoare_ret. intros s H. split; auto. intros _ z [].
    - eapply hoare_bind; [apply (rename_one tmps D z); apply Hl; left; auto|].
      intros ok. destruct ok.
      + (* renamed: remember it while the rest of the loop runs *)
        eapply hoare_bind with (R := fun ok' s => EI tmps (z :: D) s /\ (ok' = true -> forall z', In z' rest -> Published z' s)).
        { eapply hoare_conseq; [apply (IH (z :: D))| |]; auto.
          - intros z' Hz'. apply Hl; right; auto.
          - intros s [[H1 [H2 [H3 [H4 [H5 [H6 H8]]]]]] H7]. unfold EI.
            split; [exact H1|split; [exact H2|split; [exact H3|split; [exact H4|split; [exact H5|split; [|exact H8]]]]]].
            intros z' [<-|Hz']; auto. }
        intros ok'. apply hoare_ret. intros s [H1 H2]. split.
        * eapply EI_weaken_D; [|exact H1]. apply incl_tl, incl_refl.
        * simpl. intros -> z' [<-|Hz']; auto.
          destruct H1 as [_ [_ [_ [_ [_ [H6 _]]]]]]. apply H6; left; auto.
      + eapply hoare_bind with (R := fun _ s => EI tmps D s).
        { eapply hoare_conseq; [apply (IH D)| |]; auto.
          - intros z' Hz'. apply Hl; right; auto.
          - intros s [H _]; auto.
          - intros a s [H _]; auto. }
        intros ok'. apply hoare_ret. intros s H. split; auto. simpl. intros; discriminate.
  Qed.

  (** ---- the loop removing stale sidecars at the destination names (after the "stale .meta" repair) *)
  Definition SI (tmps D : list zname) (s : fs) : Prop :=
    BI s0 Pz tmps [] s /\ s (PZ c) = None /\ s (PMeta c) = None /\ MetaGone D s.

  Lemma stale_loop : forall tmps l D,
    (forall z, In z l -> exists r, In r (alive rs) /\ z = ZSimple (rm_id r)) ->
    hoare (SI tmps D) (remove_stale_all plan l) (fun ok s => SI tmps D s /\ (ok = true -> MetaGone l s)).
  Proof.
    intros tmps l. induction l as [|z rest IH]; intros D Hl; simpl.
    - apply hoare_ret. intros s H. split; auto. intros _ z [].
    - destruct (Hl z (or_introl eq_refl)) as [r [Hr Ez]].
      eapply hoare_bind with (R := fun ok s => SI tmps D s /\ (ok = true -> s (PMeta z) = None)).
      { eapply hoare_conseq;
          [apply (rm_stale_spec plan s0 Hnd Pz tmps [] z
                    (fun s => s (PZ c) = None /\ s (PMeta c) = None /\ MetaGone D s))| |].
        - intros s [F1 [F2 F3]]. split; [rewrite upd_other by discriminate; exact F1|split].
          + unfold upd. destruct (path_eq_dec (PMeta c) (PMeta z)); auto.
          + intros z' Hz'. unfold upd. destruct (path_eq_dec (PMeta z') (PMeta z)); auto.
        - intros s [HB [F1 [F2 F3]]]. split; [exact HB|]. split; [auto|].
          destruct (Hmeta r Hr) as [H|[H|[_ H]]].
          + right. rewrite Ez. eapply shrunk_meta; eauto. apply HB.
          + left. rewrite Ez, H. exact F1.
          + left. rewrite Ez. destruct HB as [HS _]. destruct (HS (ZSimple (rm_id r))) as [[H1 _]|[H1 _]]; congruence.
        - intros ok s [HB [[F1 [F2 F3]] Hok]]. split; [|exact Hok]. split; [exact HB|auto]. }
      intros ok. apply hoare_if_negb; intros ->.
      { apply hoare_ret. intros s [H _]. split; auto. discriminate. }
      eapply hoare_conseq with (P' := SI tmps (z :: D))
        (Q' := fun ok s => SI tmps (z :: D) s /\ (ok = true -> MetaGone rest s)).
      + apply IH. intros z' Hz'. apply Hl; right; auto.
      + intros s [[HB [F1 [F2 F3]]] Hz]. split; [exact HB|split; [exact F1|split; [exact F2|]]].
        intros z' [<-|Hz']; [apply Hz; auto|apply F3; auto].
      + intros ok s [[HB [F1 [F2 F3]]] Hrest]. split.
        * split; [exact HB|split; [exact F1|split; [exact F2|]]]. intros z' Hz'. apply F3; right; auto.
        * intros Hok z' [<-|Hz']; [apply F3; left; auto|apply Hrest; auto].
  Qed.

  (** ---- Explode *)
  Definition ExplodeQ (r : res) (s : fs) : Prop :=
    match r with
    | RErr => True
    | ROk _ => (forall r0, In r0 (vis s0 c) -> vis s (ZSimple r0) = [r0]) /\
               ((forall r0, c <> ZSimple r0) -> s (PZ c) = None)
    end.

  Lemma shrunk_upd_tmp_none : forall s z, Shrunk s0 s -> Shrunk s0 (upd s (PTmp z) None).
  Proof. intros. apply shrunk_upd_invisible; simpl; auto. Qed.

  Lemma explode_spec : hoare (fun s => s = s0) (explode_prog_gen plan shuf_rename shuf_cleanup shuf_stale fixed c) ExplodeQ.
  Proof.
    unfold explode_prog_gen.
    eapply hoare_bind with (R := fun _ s => s = s0).
    { apply hoare_exec; auto. intros s s' -> E. apply step_open in E. subst. auto. }
    intros ok. apply hoare_if_negb; intros ->; [apply hoare_ret; simpl; auto|].
    eapply hoare_bind; [apply hoare_get|]. intros x. simpl.
    apply hoare_pure with (phi := x = s0). { intros s [-> ->]; auto. } intros ->.
    assert (Ec : exists rs', s0 (PZ c) = Some (File (CShard rs'))).
    { unfold eff in Heff. destruct (s0 (PZ c)) as [[[]|]|]; try discriminate; eauto. }
    destruct Ec as [rs' Ec]. rewrite Ec, Heff.
    set (Hall := fun tmps => (forall r, In r (alive rs) -> In (ZSimple (rm_id r)) tmps) /\
                             (forall z, In z tmps -> exists r, In r (alive rs) /\ z = ZSimple (rm_id r))).
    (* the write loop *)
    eapply hoare_bind with (R := fun p s => Shrunk s0 s /\ (fst p = true -> TmpsP Pz (snd p) s /\ Hall (snd p))).
    { eapply hoare_conseq; [apply (write_simple_spec (alive rs) []); auto| |].
      - intros s [_ ->]. split; [apply shrunk_refl|split; intros z []].
      - intros p s [H1 H2]. split; auto. intros Hok. destruct (H2 Hok) as [H3 [_ [H4 H5]]]. split; [exact H3|].
        split; [exact H4|]. intros z Hz. destruct (H5 z Hz) as [[]|Hx]. exact Hx. }
    intros [ok1 tmps]. simpl.
    assert (Hclean : forall (A : Type) (P : fs -> Prop), (forall s, P s -> Shrunk s0 s) ->
              hoare P (doM _ <- remove_best_effort plan (map PTmp (shuf_cleanup tmps)) ;; ret RErr) ExplodeQ).
    { intros A P HPs. eapply hoare_bind with (R := fun _ s => Shrunk s0 s).
      - eapply hoare_conseq; [apply (cleanup_spec (Shrunk s0) (shrunk_no_dup s0 Hnd) shrunk_upd_tmp_none)|exact HPs|auto].
      - intros _. apply hoare_ret. simpl. auto. }
    apply hoare_if_negb; intros ->.
    { apply (Hclean unit). intros s [H _]; exact H. }
    eapply hoare_bind; [apply hoare_get|]. intros s1. simpl.
    (* removal of the compound shard and its sidecar *)
    eapply hoare_bind with
      (R := fun ok s => BI s0 Pz tmps [] s /\ Hall tmps /\ (ok = true -> s (PZ c) = None /\ s (PMeta c) = None)).
    { intros w [E1 [HP1 HP2]] HS a w' E. destruct (HP2 eq_refl) as [HT HA].
      destruct (del_one plan s0 Hnd Pz tmps [] c s1 w) with (a := a) (w' := w') as [[HQ1 HQ2] HS']; auto.
      split; auto. split; [exact HP1|split; [exact HT|intros z []]]. }
    intros ok2. apply hoare_if_negb; intros ->.
    { apply (Hclean unit). intros s [[H _] _]; exact H. }
    (* the stale-sidecar loop *)
    eapply hoare_bind with
      (R := fun ok s => SI tmps [] s /\ Hall tmps /\ (ok = true -> MetaGone tmps s)).
    { assert (Hcase : fixed = true \/ fixed = false) by (clear; destruct fixed; auto).
      destruct Hcase as [Efx|Efx]; rewrite Efx.
      - intros w [HB [HA Hg]] HS a w' E. destruct (Hg eq_refl) as [Hg1 Hg2].
        assert (Hin : forall z, In z (shuf_stale tmps) -> exists r, In r (alive rs) /\ z = ZSimple (rm_id r)).
        { intros z Hz. apply (proj2 HA). apply (Permutation_in z (Hperm_st tmps) Hz). }
        assert (HSI : SI tmps [] (w_fs w)) by (split; [exact HB|split; [exact Hg1|split; [exact Hg2|intros z []]]]).
        destruct (stale_loop tmps (shuf_stale tmps) [] Hin w HSI HS a w' E) as [[HQ1 HQ2] HS'].
        split; [|exact HS']. split; [exact HQ1|split; [exact HA|]].
        intros Hok z Hz. apply HQ2; auto. apply (Permutation_in z (Permutation_sym (Hperm_st tmps)) Hz).
      - apply hoare_ret. intros s [HB [HA Hg]]. destruct (Hg eq_refl) as [Hg1 Hg2].
        split; [split; [exact HB|split; [exact Hg1|split; [exact Hg2|intros z []]]]|]. split; [exact HA|].
        intros _ z Hz. destruct (proj2 HA z Hz) as [r [Hr Ez]].
        destruct (Hmeta r Hr) as [H|[H|[H _]]]; [|rewrite Ez, H; exact Hg2|congruence].
        rewrite Ez. eapply shrunk_meta; eauto. apply HB. }
    intros ok2'. apply hoare_if_negb; intros ->.
    { apply (Hclean unit). intros s [[[H _] _] _]; exact H. }
    (* the rename loop *)
    eapply hoare_bind with
      (R := fun ok s => EI tmps [] s /\ Hall tmps /\ (ok = true -> forall z, In z tmps -> Published z s)).
    { intros w [[[HS1 [HT _]] [Hg1 [Hg2 _]]] [HA Hmg]] HS a w' E. specialize (Hmg eq_refl).
      assert (HEI : EI tmps [] (w_fs w)).
      { split; [|split; [|split; [exact Hg2|split; [intros _; exact Hg1|split; [exact HT|split; [intros z []|exact Hmg]]]]]].
        - intros z. destruct (zname_eq_dec z c) as [->|Hne].
          + right; left. apply vis_nil_of_shard_none. exact Hg1.
          + left. split; auto. apply (shrunk_sub _ _ HS1).
        - intros z. destruct (HS1 z) as [[_ Hm]|[_ Hm]]; auto. }
      assert (Hincl : incl (shuf_rename tmps) tmps) by (intros z Hz; apply (Permutation_in z (Hperm tmps) Hz)).
      destruct (rename_loop tmps (shuf_rename tmps) [] Hincl w HEI HS a w' E) as [[HQ1 HQ2] HS'].
      split; [|exact HS']. split; [exact HQ1|split; [exact HA|]].
      intros Hok z Hz. apply HQ2; auto. apply (Permutation_in z (Permutation_sym (Hperm tmps)) Hz). }
    intros ok3.
    eapply hoare_bind with
      (R := fun _ s => EI tmps [] s /\ Hall tmps /\ (ok3 = true -> forall z, In z tmps -> Published z s)).
    { apply cleanup_spec.
      - intros s [H _]. apply inv2_no_dup. apply H.
      - intros s z [H1 [H2 H3]]. split; [apply EI_upd_tmp_none; exact H1|split; [exact H2|]].
        intros Hok z' Hz'. destruct (H3 Hok z' Hz') as [P1 P2]. split.
        + rewrite vis_upd_invisible by (simpl; auto). exact P1.
        + unfold upd. destruct (path_eq_dec (PTmp z') (PTmp z)); auto. }
    intros _. apply hoare_ret. intros s [[_ [_ [_ [HC _]]]] [HA H3]].
    unfold explode_rename_failed. destruct ok3; simpl; auto. split; [|exact HC].
    intros r0 Hr0. rewrite vis_c0 in Hr0. apply in_live in Hr0.
    destruct Hr0 as [m [Hm1 [Hm2 Hm3]]].
    assert (Ha : In m (alive rs)) by (unfold alive; apply filter_In; rewrite Hm2; auto).
    destruct (H3 eq_refl _ (proj1 HA m Ha)) as [[r' [_ [Ez Hv]]] _].
    inversion Ez as [Eid]. rewrite Hm3 in Eid. rewrite Hm3 in Hv. rewrite Hv. congruence.
  Qed.
End Explode.

(** Explode on an input that does not load: only the Open happened. *)
Lemma explode_spec_none : forall plan sr sc st fixed s0 c, no_dup s0 -> eff s0 c = None ->
  hoare (fun s => s = s0) (explode_prog_gen plan sr sc st fixed c) (fun r _ => r = RErr).
Proof.
  intros plan sr sc st fixed s0 c Hnd He. unfold explode_prog_gen.
  eapply hoare_bind with (R := fun _ s => s = s0).
  { apply hoare_exec; auto. intros s s' -> E. apply step_open in E. subst. auto. }
  intros ok. apply hoare_if_negb; intros ->; [apply hoare_ret; auto|].
  eapply hoare_bind; [apply hoare_get|]. intros x. simpl.
  apply hoare_pure with (phi := x = s0). { intros s [-> ->]; auto. } intros ->.
  rewrite He. destruct (s0 (PZ c)) as [[cc|]|]; apply hoare_ret; auto.
Qed.
