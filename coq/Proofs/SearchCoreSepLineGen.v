(** C01: obligations over the table that translator/c01distill reads from regexpToMatchTreeRecursive in the tree under
    check (Generated/DistillSwitch.v): discharged by computation, so an edit of the switch that declares a newline-capable
    star operand singleLine (e.g. OpAnyChar, the dot-all `.`) - or any change of the switch that the hand-written part of
    the model does not follow - leaves an obligation that no longer checks. *)
From Coq Require Import List NArith Arith Bool String.
From ZV Require Import Lib.Base Model.SearchCore Model.SearchCoreSepLine Proofs.SearchCoreSepLine Generated.DistillSwitch.
From ZV Require Model.Regex.
Import ListNotations.

(** every operand operator under which the code takes a star for a same-line separator is a one-rune operator that
    cannot consume a newline *)
Lemma code_star_table_safe : table_safe (star_sl_ops star_rules) = true.
Proof. vm_compute. reflexivity. Qed.

(** the switch is the one the hand-written model (distill on rx, projection of the harness) was written against *)
Lemma code_switch_as_modelled : switch_as_modelled handled_ops star_rules lit_single_line default_flags = true.
Proof. vm_compute. reflexivity. Qed.

(** the singleLine decision with the code's own table is sound *)
Lemma code_single_line_sound : forall orbit, (forall r, ~ In 10%N (orbit r)) ->
  forall r t i j, single_line (star_sl_ops star_rules) r = true -> Regex.m orbit r t i j ->
  forall o, i <= o -> o <= j -> line_of t o = line_of t i.
Proof. intros orbit Ho r t i j Hsl Hm. eapply single_line_one_line; eauto. exact code_star_table_safe. Qed.
