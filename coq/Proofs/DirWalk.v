(** Proofs about Model/DirWalk.v (C15). *)
From ZV Require Import Lib.Base Model.DirWalk.

(** ---------- basics *)

Lemma bytes_eqb_refl : forall a, bytes_eqb a a = true.
Proof. induction a as [|x a IH]; cbn; [reflexivity|]. rewrite N.eqb_refl. exact IH. Qed.

Lemma bytes_eqb_eq : forall a b, bytes_eqb a b = true <-> a = b.
Proof.
  induction a as [|x a IH]; destruct b as [|y b]; cbn; split; intro H; try reflexivity; try discriminate.
  - apply andb_true_iff in H. destruct H as [H1 H2]. apply N.eqb_eq in H1. apply IH in H2. subst. reflexivity.
  - inversion H; subst. rewrite N.eqb_refl. apply IH. reflexivity.
Qed.

(** nested induction principle for [node] *)
Fixpoint node_ind' (P : node -> Prop)
  (Hf : forall c, P (NFile c)) (Hs : forall t, P (NSymlink t)) (Ho : P NOther)
  (Hd : forall ch, Forall (fun p => P (snd p)) ch -> P (NDir ch)) (n : node) {struct n} : P n :=
  match n with
  | NFile c => Hf c
  | NSymlink t => Hs t
  | NOther => Ho
  | NDir ch => Hd ch ((fix go (l : list (bytes * node)) : Forall (fun p => P (snd p)) l :=
                         match l with
                         | [] => Forall_nil _
                         | x :: r => Forall_cons x (node_ind' P Hf Hs Ho Hd (snd x)) (go r)
                         end) ch)
  end.

Lemma walk_dir_eq : forall ig igd path base ch,
  walk ig igd path base (NDir ch) =
  if mem_name base igd then [] else if ig path then [] else walk_children ig igd path ch.
Proof.
  intros. cbn [walk]. destruct (mem_name base igd); [reflexivity|]. destruct (ig path); [reflexivity|].
  unfold walk_children. induction ch as [|[nm c] r IH]; [reflexivity|]. cbn [flat_map fst snd]. rewrite <- IH. reflexivity.
Qed.

(** ---------- the declarative reading of "which files are indexed" *)

(** [reach ch rel n]: following the names [rel] from a directory with children [ch], through real
    directories only, ends at node [n]. *)
Inductive reach : list (bytes * node) -> list bytes -> node -> Prop :=
| reach_here : forall ch nm n, In (nm, n) ch -> reach ch [nm] n
| reach_down : forall ch nm sub p n, In (nm, NDir sub) ch -> reach sub p n -> reach ch (nm :: p) n.

Definition leaf_bytes (n : node) : option bytes :=
  match n with NFile c => Some c | NSymlink t => Some t | _ => None end.

(** (p, c) is due for indexing below the directory at relative path [pre] with children [ch]:
    p leads to a regular file with bytes c or to a symlink with target c, p itself is not matched by
    the ignore file, and every directory strictly between is neither named in ignoreDirs nor matched. *)
Definition dir_doc_spec (ig : list bytes -> bool) (igd : list bytes) (pre : list bytes)
           (ch : list (bytes * node)) (p : list bytes) (c : bytes) : Prop :=
  exists rel n, p = pre ++ rel /\ reach ch rel n /\ leaf_bytes n = Some c /\ ig p = false /\
    forall q r, rel = q ++ r -> q <> [] -> r <> [] ->
                mem_name (last q []) igd = false /\ ig (pre ++ q) = false.

(** intermediate inductive form, shaped like the walk *)
Inductive visible (ig : list bytes -> bool) (igd : list bytes)
  : list bytes -> list (bytes * node) -> list bytes -> bytes -> Prop :=
| vis_leaf : forall pre ch nm n c, In (nm, n) ch -> leaf_bytes n = Some c -> ig (pre ++ [nm]) = false ->
             visible ig igd pre ch (pre ++ [nm]) c
| vis_dir : forall pre ch nm sub p c, In (nm, NDir sub) ch -> mem_name nm igd = false -> ig (pre ++ [nm]) = false ->
            visible ig igd (pre ++ [nm]) sub p c -> visible ig igd pre ch p c.

Lemma walk_visible_node : forall ig igd n pre nm p c ch,
  In (p, c) (walk ig igd (pre ++ [nm]) nm n) -> In (nm, n) ch -> visible ig igd pre ch p c.
Proof.
  intros ig igd n. induction n as [c0|t| |sub IH] using node_ind'; intros pre nm p c ch Hin Hch.
  - cbn in Hin. destruct (ig (pre ++ [nm])) eqn:Hig; [contradiction|].
    destruct Hin as [Heq|[]]. inversion Heq; subst. eapply vis_leaf; eauto.
  - cbn in Hin. destruct (ig (pre ++ [nm])) eqn:Hig; [contradiction|].
    destruct Hin as [Heq|[]]. inversion Heq; subst. eapply vis_leaf; eauto.
  - cbn in Hin. contradiction.
  - rewrite walk_dir_eq in Hin.
    destruct (mem_name nm igd) eqn:Hm; [contradiction|].
    destruct (ig (pre ++ [nm])) eqn:Hig; [contradiction|].
    unfold walk_children in Hin. apply in_flat_map in Hin. destruct Hin as [[nm' n'] [Hin' Hw]].
    cbn [fst snd] in Hw. rewrite Forall_forall in IH.
    eapply vis_dir; [exact Hch|exact Hm|exact Hig|]. eapply (IH (nm', n') Hin'); [exact Hw|exact Hin'].
Qed.

Lemma walk_children_visible : forall ig igd pre ch p c,
  In (p, c) (walk_children ig igd pre ch) <-> visible ig igd pre ch p c.
Proof.
  intros ig igd pre ch p c. split.
  - intro Hin. unfold walk_children in Hin. apply in_flat_map in Hin. destruct Hin as [[nm n] [Hin Hw]].
    cbn [fst snd] in Hw. eapply walk_visible_node; eauto.
  - intro Hv. induction Hv as [pre ch nm n c Hin Hl Hig | pre ch nm sub p c Hin Hm Hig Hv IH].
    + unfold walk_children. apply in_flat_map. exists (nm, n). split; [assumption|]. cbn [fst snd].
      destruct n; cbn in Hl; try discriminate; inversion Hl; subst; cbn; rewrite Hig; left; reflexivity.
    + unfold walk_children. apply in_flat_map. exists (nm, NDir sub). split; [assumption|]. cbn [fst snd].
      rewrite walk_dir_eq, Hm, Hig. exact IH.
Qed.

Lemma reach_nonempty : forall ch rel n, reach ch rel n -> rel <> [].
Proof. intros ch rel n H. destruct H; discriminate. Qed.

Lemma last_cons_nonempty : forall (A : Type) (x : A) l d, l <> [] -> last (x :: l) d = last l d.
Proof. intros A x l d H. destruct l; [contradiction|reflexivity]. Qed.

Lemma visible_spec : forall ig igd pre ch p c,
  visible ig igd pre ch p c <-> dir_doc_spec ig igd pre ch p c.
Proof.
  intros ig igd pre ch p c. split.
  - intro Hv. induction Hv as [pre ch nm n c Hin Hl Hig | pre ch nm sub p c Hin Hm Hig Hv IH].
    + exists [nm], n. split; [reflexivity|]. split; [apply reach_here; assumption|]. split; [assumption|]. split; [assumption|].
      intros q r Heq Hq Hr. destruct q as [|a q]; [contradiction|]. destruct q; destruct r; try contradiction; discriminate.
    + destruct IH as (rel & n & Hp & Hr & Hl & Higp & Hpre).
      exists (nm :: rel), n. split; [rewrite Hp, <- app_assoc; reflexivity|].
      split; [eapply reach_down; eauto|]. split; [assumption|]. split; [assumption|].
      intros q r Heq Hq Hrne. destruct q as [|a q]; [contradiction|]. cbn in Heq. inversion Heq; subst a.
      destruct q as [|b q].
      * cbn. split; assumption.
      * destruct (Hpre (b :: q) r) as [HA HB]; [assumption|discriminate|assumption|].
        split; [rewrite last_cons_nonempty by discriminate; exact HA|].
        rewrite <- app_assoc in HB. exact HB.
  - intros (rel & n & Hp & Hr & Hl & Higp & Hpre). subst p. revert pre Higp Hpre.
    induction Hr as [ch nm n Hin | ch nm sub p n Hin Hr IH]; intros pre Higp Hpre.
    + eapply vis_leaf; eauto.
    + pose proof (reach_nonempty _ _ _ Hr) as Hne.
      destruct (Hpre [nm] p) as [HA HB]; [reflexivity|discriminate|assumption|]. cbn in HA.
      eapply vis_dir; eauto.
      replace (pre ++ nm :: p) with ((pre ++ [nm]) ++ p) by (rewrite <- app_assoc; reflexivity).
      apply IH; [exact Hl| |].
      * rewrite <- app_assoc. exact Higp.
      * intros q r Heq Hq Hrne. destruct (Hpre (nm :: q) r) as [HC HD]; [cbn; rewrite Heq; reflexivity|discriminate|assumption|].
        split; [rewrite last_cons_nonempty in HC by assumption; exact HC|].
        rewrite <- app_assoc. exact HD.
Qed.

Theorem walk_children_spec : forall ig igd pre ch p c,
  In (p, c) (walk_children ig igd pre ch) <-> dir_doc_spec ig igd pre ch p c.
Proof. intros. rewrite walk_children_visible. apply visible_spec. Qed.

Theorem walk_root_spec : forall ig igd root_base ch p c,
  In (p, c) (walk_root ig igd root_base ch) <->
  mem_name root_base igd = false /\ dir_doc_spec ig igd [] ch p c.
Proof.
  intros. unfold walk_root. destruct (mem_name root_base igd).
  - split; [contradiction|]. intros [H _]; discriminate.
  - rewrite walk_children_spec. tauto.
Qed.

(** ---------- at most one document per path; names determine paths *)

Definition slash_free (x : bytes) : Prop := ~ In 47%N x.
Definition name_ok (x : bytes) : Prop := x <> [] /\ slash_free x.

(** what a file system guarantees: sibling names are distinct, non-empty and contain no '/' *)
Inductive wf_children : list (bytes * node) -> Prop :=
| wf_ch : forall ch, NoDup (map fst ch) -> Forall name_ok (map fst ch) ->
          (forall nm sub, In (nm, NDir sub) ch -> wf_children sub) -> wf_children ch.

Lemma walk_prefix : forall ig igd n path base p c,
  In (p, c) (walk ig igd path base n) -> exists r, p = path ++ r.
Proof.
  intros ig igd n. induction n as [c0|t| |sub IH] using node_ind'; intros path base p c Hin.
  - cbn in Hin. destruct (ig path); [contradiction|]. destruct Hin as [H|[]]. inversion H; subst. exists []. symmetry; apply app_nil_r.
  - cbn in Hin. destruct (ig path); [contradiction|]. destruct Hin as [H|[]]. inversion H; subst. exists []. symmetry; apply app_nil_r.
  - contradiction.
  - rewrite walk_dir_eq in Hin. destruct (mem_name base igd); [contradiction|]. destruct (ig path); [contradiction|].
    unfold walk_children in Hin. apply in_flat_map in Hin. destruct Hin as [[nm n] [Hin Hw]]. cbn [fst snd] in Hw.
    rewrite Forall_forall in IH. destruct (IH _ Hin _ _ _ _ Hw) as [r Hr]. exists ([nm] ++ r). rewrite Hr, app_assoc. reflexivity.
Qed.

Lemma NoDup_app_intro : forall (A : Type) (a b : list A),
  NoDup a -> NoDup b -> (forall x, In x a -> ~ In x b) -> NoDup (a ++ b).
Proof.
  intros A a b Ha Hb Hd. induction Ha as [|x a Hx Ha IH]; [exact Hb|]. cbn. constructor.
  - intro Hin. apply in_app_or in Hin. destruct Hin as [Hin|Hin]; [contradiction|]. exact (Hd x (or_introl eq_refl) Hin).
  - apply IH. intros y Hy. apply Hd. right. exact Hy.
Qed.

Lemma walk_children_cons : forall ig igd pre x ch,
  walk_children ig igd pre (x :: ch) = walk ig igd (pre ++ [fst x]) (fst x) (snd x) ++ walk_children ig igd pre ch.
Proof. reflexivity. Qed.

Lemma walk_children_first_name : forall ig igd pre ch p c,
  In (p, c) (walk_children ig igd pre ch) -> exists nm r, In nm (map fst ch) /\ p = pre ++ nm :: r.
Proof.
  intros ig igd pre ch p c Hin. unfold walk_children in Hin. apply in_flat_map in Hin.
  destruct Hin as [[nm n] [Hin Hw]]. cbn [fst snd] in Hw. destruct (walk_prefix _ _ _ _ _ _ _ Hw) as [r Hr].
  exists nm, r. split; [apply in_map_iff; exists (nm, n); auto|]. rewrite Hr, <- app_assoc. reflexivity.
Qed.

Lemma walk_nodup_node : forall ig igd n pre nm,
  (forall sub, n = NDir sub -> wf_children sub) ->
  NoDup (map fst (walk ig igd (pre ++ [nm]) nm n)).
Proof.
  intros ig igd n. induction n as [c0|t| |sub IH] using node_ind'; intros pre nm Hwf.
  - cbn. destruct (ig (pre ++ [nm])); cbn; repeat constructor; auto.
  - cbn. destruct (ig (pre ++ [nm])); cbn; repeat constructor; auto.
  - cbn. constructor.
  - rewrite walk_dir_eq. destruct (mem_name nm igd); [constructor|]. destruct (ig (pre ++ [nm])); [constructor|].
    specialize (Hwf sub eq_refl). inversion Hwf as [ch Hnd Hnames Hsub Heq]; subst ch. clear Hwf Hnames.
    remember (pre ++ [nm]) as pre'. clear Heqpre'.
    induction sub as [|[nm' n'] sub IHsub]; [constructor|].
    rewrite walk_children_cons, map_app. cbn [fst snd]. inversion IH as [|x l Hx Hl]; subst. cbn in Hnd. inversion Hnd as [|a l Hnotin Hnd']; subst.
    apply NoDup_app_intro.
    + apply Hx. intros sub' Hs. cbn in Hs. subst n'. eapply Hsub. left. reflexivity.
    + apply IHsub; auto. intros a s Hin. eapply Hsub. right. exact Hin.
    + intros p Hp1 Hp2. apply in_map_iff in Hp1. destruct Hp1 as [[p1 c1] [Hf1 Hp1]]. cbn in Hf1. subst p1.
      apply in_map_iff in Hp2. destruct Hp2 as [[p2 c2] [Hf2 Hp2]]. cbn in Hf2. subst p2.
      destruct (walk_prefix _ _ _ _ _ _ _ Hp1) as [r1 Hr1].
      destruct (walk_children_first_name _ _ _ _ _ _ Hp2) as (nm2 & r2 & Hin2 & Hr2).
      rewrite Hr1, <- app_assoc in Hr2. apply app_inv_head in Hr2. cbn in Hr2. inversion Hr2; subst nm2. contradiction.
Qed.

Theorem walk_children_nodup : forall ig igd pre ch,
  wf_children ch -> NoDup (map fst (walk_children ig igd pre ch)).
Proof.
  intros ig igd pre ch Hwf.
  inversion Hwf as [ch' Hnd Hnames Hsub Heq]; subst ch'. clear Hnames.
  induction ch as [|[nm n] ch IH]; [constructor|].
  rewrite walk_children_cons, map_app. cbn [fst snd]. cbn in Hnd. inversion Hnd as [|a l Hnotin Hnd']; subst.
  apply NoDup_app_intro.
  - apply walk_nodup_node. intros sub Hs. subst n. eapply Hsub. left. reflexivity.
  - apply IH; auto.
    + constructor; auto.
      * inversion Hwf as [c0 _ Hn _ E]; subst. cbn in Hn. inversion Hn; assumption.
      * intros a s Hin. eapply Hsub. right. exact Hin.
    + intros a s Hin. eapply Hsub. right. exact Hin.
  - intros p Hp1 Hp2. apply in_map_iff in Hp1. destruct Hp1 as [[p1 c1] [Hf1 Hp1]]. cbn in Hf1. subst p1.
    apply in_map_iff in Hp2. destruct Hp2 as [[p2 c2] [Hf2 Hp2]]. cbn in Hf2. subst p2.
    destruct (walk_prefix _ _ _ _ _ _ _ Hp1) as [r1 Hr1].
    destruct (walk_children_first_name _ _ _ _ _ _ Hp2) as (nm2 & r2 & Hin2 & Hr2).
    rewrite Hr1, <- app_assoc in Hr2. apply app_inv_head in Hr2. cbn in Hr2. inversion Hr2; subst nm2. contradiction.
Qed.

(** join_path is injective on paths whose components are non-empty and slash-free *)

Lemma slash_split : forall x y s t,
  slash_free x -> slash_free y ->
  x ++ 47%N :: s = y ++ 47%N :: t -> x = y /\ s = t.
Proof.
  induction x as [|a x IH]; intros y s t Hx Hy Heq.
  - destruct y as [|b y]; cbn in Heq.
    + inversion Heq; auto.
    + inversion Heq; subst. exfalso. apply Hy. left. reflexivity.
  - destruct y as [|b y]; cbn in Heq.
    + inversion Heq; subst. exfalso. apply Hx. left. reflexivity.
    + inversion Heq; subst. destruct (IH y s t) as [HA HB]; auto.
      * intro H. apply Hx. right. exact H.
      * intro H. apply Hy. right. exact H.
      * subst. auto.
Qed.

Lemma join_path_cons : forall x r, r <> [] -> join_path (x :: r) = x ++ 47%N :: join_path r.
Proof. intros x r H. destruct r; [contradiction|reflexivity]. Qed.

Theorem join_path_inj : forall p q,
  Forall name_ok p -> Forall name_ok q -> join_path p = join_path q -> p = q.
Proof.
  induction p as [|x p IH]; intros q Hp Hq Heq.
  - destruct q as [|y q]; [reflexivity|]. inversion Hq as [|a l [Hne _] _]; subst.
    cbn in Heq. destruct q; [subst; contradiction|]. destruct y; [contradiction|discriminate].
  - inversion Hp as [|a l [Hxne Hxs] Hp']; subst.
    destruct q as [|y q].
    + cbn in Heq. destruct p; [contradiction|]. destruct x; [contradiction|discriminate].
    + inversion Hq as [|a l [Hyne Hys] Hq']; subst.
      destruct p as [|x2 p]; destruct q as [|y2 q].
      * cbn in Heq. subst. reflexivity.
      * rewrite (join_path_cons y (y2 :: q)) in Heq by discriminate. change (join_path [x]) with x in Heq.
        exfalso. apply Hxs. rewrite Heq. apply in_or_app. right. left. reflexivity.
      * rewrite (join_path_cons x (x2 :: p)) in Heq by discriminate. change (join_path [y]) with y in Heq.
        exfalso. apply Hys. rewrite <- Heq. apply in_or_app. right. left. reflexivity.
      * rewrite !join_path_cons in Heq by discriminate.
        apply slash_split in Heq; auto. destruct Heq as [H1 H2]. subst. f_equal. apply IH; auto.
Qed.

Lemma reach_names_ok : forall ch rel n, wf_children ch -> reach ch rel n -> Forall name_ok rel.
Proof.
  intros ch rel n Hwf Hr. induction Hr as [ch nm n Hin | ch nm sub p n Hin Hr IH].
  - inversion Hwf as [c _ Hn _ E]; subst. rewrite Forall_forall in Hn. constructor; [|constructor].
    apply Hn. apply in_map_iff. exists (nm, n). auto.
  - inversion Hwf as [c _ Hn Hsub E]; subst. rewrite Forall_forall in Hn. constructor.
    + apply Hn. apply in_map_iff. exists (nm, NDir sub). auto.
    + apply IH. eapply Hsub. exact Hin.
Qed.

Lemma NoDup_map_inj_on : forall (A B : Type) (f : A -> B) (l : list A),
  (forall x y, In x l -> In y l -> f x = f y -> x = y) -> NoDup l -> NoDup (map f l).
Proof.
  intros A B f l Hinj Hnd. induction Hnd as [|x l Hx Hnd IH]; [constructor|]. cbn. constructor.
  - intro Hin. apply in_map_iff in Hin. destruct Hin as [y [Hfy Hy]].
    assert (y = x) by (apply Hinj; [right; exact Hy|left; reflexivity|exact Hfy]). subst. contradiction.
  - apply IH. intros a b Ha Hb. apply Hinj; right; assumption.
Qed.

Theorem index_arg_names_nodup : forall matcher igd size_max root_base ch,
  wf_children ch -> NoDup (map fst (index_arg matcher igd size_max root_base ch)).
Proof.
  intros matcher igd size_max root_base ch Hwf. unfold index_arg.
  set (ig := match ignore_file_of ch with Some c => matcher c | None => fun _ => false end).
  rewrite map_map. cbn [arg_doc fst].
  assert (Hnd : NoDup (map fst (walk_root ig igd root_base ch))).
  { unfold walk_root. destruct (mem_name root_base igd); [constructor|]. apply walk_children_nodup. exact Hwf. }
  assert (E : map (fun x : raw => join_path (fst x)) (walk_root ig igd root_base ch) = map join_path (map fst (walk_root ig igd root_base ch))) by (rewrite map_map; reflexivity).
  rewrite E. clear E.
  apply NoDup_map_inj_on; [|exact Hnd].
  intros p q Hp Hq Heq. apply join_path_inj; auto.
  - apply in_map_iff in Hp. destruct Hp as [[p' c] [E Hp]]. cbn in E. subst p'.
    apply walk_root_spec in Hp. destruct Hp as [_ (rel & n & Hpe & Hr & _)]. cbn in Hpe. subst p. eapply reach_names_ok; eauto.
  - apply in_map_iff in Hq. destruct Hq as [[q' c] [E Hq]]. cbn in E. subst q'.
    apply walk_root_spec in Hq. destruct Hq as [_ (rel & n & Hqe & Hr & _)]. cbn in Hqe. subst q. eapply reach_names_ok; eauto.
Qed.

Theorem index_arg_spec : forall matcher igd size_max root_base ch d,
  let ig := match ignore_file_of ch with Some c => matcher c | None => fun _ => false end in
  In d (index_arg matcher igd size_max root_base ch) <->
  exists p c, d = (join_path p, builder_view size_max c) /\
              mem_name root_base igd = false /\ dir_doc_spec ig igd [] ch p c.
Proof.
  intros matcher igd size_max root_base ch d ig. unfold index_arg. fold ig. rewrite in_map_iff. split.
  - intros [[p c] [Hd Hin]]. apply walk_root_spec in Hin. exists p, c. split; [symmetry; exact Hd|exact Hin].
  - intros (p & c & Hd & Hspec). exists (p, c). split; [symmetry; exact Hd|]. apply walk_root_spec. exact Hspec.
Qed.

(** ---------- stripComponents *)

Lemma after_slash_spec : forall p rest,
  after_slash p = Some rest -> exists c, slash_free c /\ p = c ++ 47%N :: rest.
Proof.
  induction p as [|a p IH]; intros rest H; [discriminate|]. cbn in H.
  destruct (N.eqb a 47) eqn:Ha.
  - apply N.eqb_eq in Ha. inversion H; subst. exists []. split; [intros []|reflexivity].
  - destruct (IH rest H) as (c & Hc & Hp). exists (a :: c). split.
    + intros [E|E]; [subst; rewrite N.eqb_refl in Ha; discriminate|exact (Hc E)].
    + rewrite Hp. reflexivity.
Qed.

Lemma after_slash_app : forall c rest, slash_free c -> after_slash (c ++ 47%N :: rest) = Some rest.
Proof.
  induction c as [|a c IH]; intros rest Hc; cbn; [reflexivity|].
  destruct (N.eqb a 47) eqn:Ha.
  - apply N.eqb_eq in Ha. exfalso. apply Hc. left. exact Ha.
  - apply IH. intro H. apply Hc. right. exact H.
Qed.

Definition join_prefix (comps : list bytes) : bytes := concat (map (fun c => c ++ [47%N]) comps).

Theorem strip_components_complete : forall comps r,
  Forall slash_free comps -> strip_components (join_prefix comps ++ r) (length comps) = r.
Proof.
  induction comps as [|c comps IH]; intros r H; [reflexivity|].
  inversion H as [|a l Hc Hrest]; subst. cbn [length strip_components join_prefix map concat].
  rewrite <- !app_assoc. cbn [app].
  destruct (c ++ 47%N :: (concat (map (fun c0 => c0 ++ [47%N]) comps) ++ r)) eqn:E.
  - destruct c; discriminate.
  - rewrite <- E. rewrite after_slash_app by assumption. apply IH. assumption.
Qed.

Theorem strip_components_sound : forall n p r,
  strip_components p n = r -> r <> [] ->
  exists comps, length comps = n /\ Forall slash_free comps /\ p = join_prefix comps ++ r.
Proof.
  induction n as [|n IH]; intros p r H Hr.
  - cbn in H. subst. exists []. auto.
  - cbn in H. destruct p as [|a p]; [subst; contradiction|].
    destruct (after_slash (a :: p)) as [rest|] eqn:Ha; [|subst; contradiction].
    destruct (after_slash_spec _ _ Ha) as (c & Hc & Hp).
    destruct (IH rest r H Hr) as (comps & Hl & Hf & Hrest).
    exists (c :: comps). split; [cbn; rewrite Hl; reflexivity|]. split; [constructor; assumption|].
    rewrite Hp, Hrest. unfold join_prefix. cbn [map concat]. rewrite <- !app_assoc. reflexivity.
Qed.

(** ---------- archive.Index *)

Definition member_docs (strip size_max : nat) (m : member) : list doc :=
  if is_reg m then
    let name := strip_components (m_name m) strip in
    if is_nil name then [] else [(name, builder_view size_max (m_data m))]
  else [].

Definition docs_of (b : option (list doc)) : list doc := match b with None => [] | Some d => d end.

Lemma archive_loop_docs : forall strip size_max ms b,
  docs_of (archive_loop strip size_max b ms) = docs_of b ++ flat_map (member_docs strip size_max) ms.
Proof.
  induction ms as [|m ms IH]; intros b; cbn [archive_loop flat_map]; [symmetry; apply app_nil_r|].
  unfold member_docs at 1. destruct (is_reg m).
  - rewrite IH. unfold add_member. destruct (is_nil (strip_components (m_name m) strip)); cbn [docs_of].
    + destruct b; reflexivity.
    + rewrite <- app_assoc. destruct b; reflexivity.
  - rewrite IH. reflexivity.
Qed.

Theorem archive_index_docs : forall strip size_max ms,
  archive_index strip size_max ms = Ok (flat_map (member_docs strip size_max) ms).
Proof.
  intros. unfold archive_index. pose proof (archive_loop_docs strip size_max ms None) as H. cbn [docs_of app] in H.
  destruct (archive_loop strip size_max None ms); cbn [docs_of] in H; rewrite H; reflexivity.
Qed.

Theorem archive_index_in : forall strip size_max ms docs d,
  archive_index strip size_max ms = Ok docs ->
  (In d docs <-> exists m, In m ms /\ is_reg m = true /\ strip_components (m_name m) strip <> [] /\
                           d = (strip_components (m_name m) strip, builder_view size_max (m_data m))).
Proof.
  intros strip size_max ms docs d H. rewrite archive_index_docs in H. inversion H; subst docs. clear H.
  rewrite in_flat_map. split.
  - intros [m [Hm Hd]]. unfold member_docs in Hd. destruct (is_reg m) eqn:Hr; [|contradiction].
    destruct (strip_components (m_name m) strip) eqn:Hs; cbn in Hd; [contradiction|].
    destruct Hd as [Hd|[]]. exists m. rewrite Hs. repeat split; auto. discriminate.
  - intros [m (Hm & Hr & Hs & Hd)]. exists m. split; [assumption|]. unfold member_docs. rewrite Hr.
    destruct (strip_components (m_name m) strip); [contradiction|]. cbn. left. symmetry. exact Hd.
Qed.

Lemma archive_loop_none : forall strip size_max ms,
  archive_loop strip size_max None ms = None <-> forallb (fun m => negb (is_reg m)) ms = true.
Proof.
  intros strip size_max. induction ms as [|m ms IH]; cbn; [tauto|].
  destruct (is_reg m); cbn.
  - split; [|discriminate]. intro H.
    assert (forall b, archive_loop strip size_max (Some b) ms <> None) as Hs.
    { clear. induction ms as [|m ms IH]; intros b; cbn; [discriminate|]. destruct (is_reg m); [|apply IH].
      unfold add_member. destruct (is_nil _); apply IH. }
    unfold add_member in H. destruct (is_nil _); exfalso; eapply Hs; exact H.
  - exact IH.
Qed.

(** the code before the repair panics exactly on the archives without a regular member *)
Theorem archive_index_unguarded_panics_iff : forall strip size_max ms,
  is_panic (archive_index_unguarded strip size_max ms) = true <-> forallb (fun m => negb (is_reg m)) ms = true.
Proof.
  intros. unfold archive_index_unguarded. rewrite <- (archive_loop_none strip size_max).
  destruct (archive_loop strip size_max None ms); cbn; split; intro H; try reflexivity; discriminate.
Qed.

Theorem archive_index_never_panics : forall strip size_max ms,
  is_panic (archive_index strip size_max ms) = false.
Proof. intros. rewrite archive_index_docs. reflexivity. Qed.

(** ---------- what Builder.Add leaves of a document's content *)

Theorem builder_view_cases : forall size_max c,
  (size_max < length c -> builder_view size_max c = marker_too_large) /\
  (length c <= size_max -> c = [] -> builder_view size_max c = []) /\
  (length c <= size_max -> 1 <= length c < 3 -> builder_view size_max c = marker_too_small) /\
  (length c <= size_max -> 3 <= length c -> In 0%N c -> builder_view size_max c = marker_binary) /\
  (length c <= size_max -> 3 <= length c -> ~ In 0%N c -> builder_view size_max c = c).
Proof.
  intros size_max c. unfold builder_view.
  destruct (size_max <? length c) eqn:E; [apply Nat.ltb_lt in E|apply Nat.ltb_ge in E].
  - repeat split; intros; try reflexivity; lia.
  - split; [intro; lia|]. split; [intros _ Hc; subst; reflexivity|].
    destruct c as [|x c']; [cbn; repeat split; intros; lia|]. remember (x :: c') as c.
    destruct (length c <? 3) eqn:E3; [apply Nat.ltb_lt in E3|apply Nat.ltb_ge in E3].
    + repeat split; intros; try reflexivity; lia.
    + split; [intros; lia|].
      destruct (has_nul c) eqn:Hn.
      * split; [reflexivity|]. intros _ _ Hnot. exfalso. apply Hnot. unfold has_nul in Hn. apply existsb_exists in Hn.
        destruct Hn as [z [Hz Hz0]]. apply N.eqb_eq in Hz0. subst z. exact Hz.
      * split; [|reflexivity]. intros _ _ Hin. exfalso. assert (has_nul c = true) as C.
        { unfold has_nul. apply existsb_exists. exists 0%N. split; [exact Hin|reflexivity]. } rewrite C in Hn. discriminate.
Qed.
