(** Basic facts about Model/Regex.v: induction principle for the nested AST, sequence/alternation views
    of the semantics, power/repetition algebra, decidable AST equality. *)
From Coq Require Import List NArith Arith Bool Lia.
From ZV Require Import Model.Regex.
Import ListNotations.

Section ReInd.
  Variable P : re -> Prop.
  Hypothesis Hleaf : forall r,
    match r with
    | RCapture _ | RStar _ | RPlus _ | RQuest _ | RRepeat _ _ _ | RConcat _ | RAlt _ => False
    | _ => True
    end -> P r.
  Hypothesis Hcap : forall r, P r -> P (RCapture r).
  Hypothesis Hstar : forall r, P r -> P (RStar r).
  Hypothesis Hplus : forall r, P r -> P (RPlus r).
  Hypothesis Hquest : forall r, P r -> P (RQuest r).
  Hypothesis Hrep : forall mn mx r, P r -> P (RRepeat mn mx r).
  Hypothesis Hconcat : forall rs, Forall P rs -> P (RConcat rs).
  Hypothesis Halt : forall rs, Forall P rs -> P (RAlt rs).

  Fixpoint re_ind2 (r : re) : P r :=
    match r return P r with
    | RCapture x => Hcap x (re_ind2 x)
    | RStar x => Hstar x (re_ind2 x)
    | RPlus x => Hplus x (re_ind2 x)
    | RQuest x => Hquest x (re_ind2 x)
    | RRepeat mn mx x => Hrep mn mx x (re_ind2 x)
    | RConcat rs => Hconcat rs ((fix go (rs : list re) : Forall P rs :=
                                  match rs with [] => Forall_nil P | x :: xs => Forall_cons x (re_ind2 x) (go xs) end) rs)
    | RAlt rs => Halt rs ((fix go (rs : list re) : Forall P rs :=
                             match rs with [] => Forall_nil P | x :: xs => Forall_cons x (re_ind2 x) (go xs) end) rs)
    | RNoMatch => Hleaf RNoMatch I
    | REmpty => Hleaf REmpty I
    | RLit f rs => Hleaf (RLit f rs) I
    | RClass rg => Hleaf (RClass rg) I
    | RAny => Hleaf RAny I
    | RAnyNotNL => Hleaf RAnyNotNL I
    | RBeginLine => Hleaf RBeginLine I
    | REndLine => Hleaf REndLine I
    | RBeginText => Hleaf RBeginText I
    | REndText => Hleaf REndText I
    | RWordB => Hleaf RWordB I
    | RNoWordB => Hleaf RNoWordB I
    end.
End ReInd.

(** ------------------------------------------------------------------ relations on positions *)

Definition rel := nat -> nat -> Prop.
Definition req (P Q : rel) : Prop := forall i j, P i j <-> Q i j.
Definition rsub (P Q : rel) : Prop := forall i j, P i j -> Q i j.
Implicit Types P Q R : rel.

Lemma req_refl P : req P P. Proof. intros i j; tauto. Qed.
Lemma req_sym P Q : req P Q -> req Q P. Proof. intros H i j; symmetry; apply H. Qed.
Lemma req_trans P Q R : req P Q -> req Q R -> req P R.
Proof. intros H1 H2 i j. rewrite (H1 i j). apply H2. Qed.
Lemma req_sub P Q : req P Q <-> rsub P Q /\ rsub Q P.
Proof. split. - intros H; split; intros i j; apply H. - intros [A B] i j; split; [apply A | apply B]. Qed.

Lemma pow_ext P Q n : req P Q -> req (pow P n) (pow Q n).
Proof.
  intros H. induction n as [|n IH]; intros i j; simpl; [tauto|].
  split; intros (k & A & B); exists k; (split; [apply H; exact A | apply IH; exact B]).
Qed.
Lemma pow_mono P Q n : rsub P Q -> rsub (pow P n) (pow Q n).
Proof.
  intros H. induction n as [|n IH]; intros i j; simpl; [tauto|].
  intros (k & A & B); exists k; split; [apply H; exact A | apply IH; exact B].
Qed.
Lemma pow_add P a b i j : pow P (a + b) i j <-> exists k, pow P a i k /\ pow P b k j.
Proof.
  revert i. induction a as [|a IH]; intros i; simpl.
  - split. + intros H; exists i; auto. + intros (k & -> & H); exact H.
  - split.
    + intros (k & A & B). apply IH in B. destruct B as (k' & B & C). exists k'. split; [exists k; auto | exact C].
    + intros (k' & (k & A & B) & C). exists k. split; [exact A|]. apply IH. exists k'; auto.
Qed.
Lemma pow_1 P i j : pow P 1 i j <-> P i j.
Proof. simpl. split. - intros (k & A & ->); exact A. - intros H; exists j; auto. Qed.
Lemma pow_S_r P n i j : pow P (S n) i j <-> exists k, pow P n i k /\ P k j.
Proof.
  replace (S n) with (n + 1) by lia. rewrite pow_add.
  split; intros (k & A & B); exists k; (split; [exact A | apply pow_1; exact B]).
Qed.
Lemma pow_eq n i j : pow (fun a b => a = b) n i j <-> i = j.
Proof.
  revert i; induction n as [|n IH]; intros i; simpl; [tauto|].
  split. - intros (k & -> & B). apply IH; exact B. - intros ->. exists j; split; [reflexivity | apply IH; reflexivity].
Qed.

(** bounded / unbounded repetition *)
Definition rep (P : rel) (lo : nat) (hi : option nat) : rel :=
  fun i j => exists n, lo <= n /\ match hi with Some h => n <= h | None => True end /\ pow P n i j.
Definition rstar (P : rel) : rel := rep P 0 None.
Definition rplus (P : rel) : rel := rep P 1 None.
Definition rquest (P : rel) : rel := fun i j => i = j \/ P i j.

Lemma rep_ext P Q lo hi : req P Q -> req (rep P lo hi) (rep Q lo hi).
Proof.
  intros H i j. unfold rep. split; intros (n & A & B & C); exists n; (split; [exact A | split; [exact B|]]);
  apply (pow_ext _ _ n H); exact C.
Qed.
Lemma rquest_ext P Q : req P Q -> req (rquest P) (rquest Q).
Proof. intros H i j. unfold rquest. rewrite (H i j). tauto. Qed.
Lemma rquest_rep P : req (rquest P) (rep P 0 (Some 1)).
Proof.
  intros i j. unfold rquest, rep. split.
  - intros [->|H]. + exists 0. simpl. repeat split; lia. + exists 1. repeat split; try lia. apply pow_1; exact H.
  - intros (n & _ & Hn & H). destruct n as [|[|n]]; try lia. + left; exact H. + right; apply pow_1; exact H.
Qed.

Lemma rstar_refl P i : rstar P i i.
Proof. exists 0. simpl. auto. Qed.
Lemma rstar_step P i j : P i j -> rstar P i j.
Proof. intros H. exists 1. repeat split; try lia. apply pow_1; exact H. Qed.
Lemma rstar_trans P i k j : rstar P i k -> rstar P k j -> rstar P i j.
Proof.
  intros (a & _ & _ & A) (b & _ & _ & B). exists (a + b). repeat split; try lia. apply pow_add. exists k; auto.
Qed.
Lemma rstar_least P Q : rsub P (rstar Q) -> rsub (rstar P) (rstar Q).
Proof.
  intros H i j (n & _ & _ & Hp). revert i Hp. induction n as [|n IH]; intros i Hp; simpl in Hp.
  - subst. apply rstar_refl.
  - destruct Hp as (k & A & B). eapply rstar_trans; [apply H; exact A | apply IH; exact B].
Qed.
Lemma rstar_eq P Q : rsub P (rstar Q) -> rsub Q (rstar P) -> req (rstar P) (rstar Q).
Proof. intros A B. apply req_sub. split; apply rstar_least; assumption. Qed.

Lemma rep_sub_star P lo hi : rsub (rep P lo hi) (rstar P).
Proof. intros i j (n & _ & _ & H). exists n. repeat split; try lia. exact H. Qed.
Lemma rquest_sub_star P : rsub (rquest P) (rstar P).
Proof. intros i j [->|H]; [apply rstar_refl | apply rstar_step; exact H]. Qed.
Lemma sub_rplus P : rsub P (rplus P).
Proof. intros i j H. exists 1. repeat split; try lia. apply pow_1; exact H. Qed.
Lemma sub_rquest P : rsub P (rquest P).
Proof. intros i j H. right; exact H. Qed.

(** the squashing rules of the parser / simplify1, as facts about relations *)
Lemma star_star P : req (rstar (rstar P)) (rstar P).
Proof. apply rstar_eq. - intros i j H; exact H. - intros i j H. apply rstar_step, rstar_step; exact H. Qed.
Lemma star_plus P : req (rstar (rplus P)) (rstar P).
Proof. apply rstar_eq. - apply rep_sub_star. - intros i j H. apply rstar_step, sub_rplus; exact H. Qed.
Lemma star_quest P : req (rstar (rquest P)) (rstar P).
Proof. apply rstar_eq. - apply rquest_sub_star. - intros i j H. apply rstar_step, sub_rquest; exact H. Qed.

Lemma rplus_unfold P i j : rplus P i j <-> exists k, P i k /\ rstar P k j.
Proof.
  split.
  - intros (n & Hn & _ & H). destruct n as [|n]; [lia|]. simpl in H. destruct H as (k & A & B).
    exists k. split; [exact A|]. exists n. repeat split; try lia. exact B.
  - intros (k & A & (n & _ & _ & B)). exists (S n). repeat split; try lia. exists k; auto.
Qed.
Lemma rplus_unfold_r P i j : rplus P i j <-> exists k, rstar P i k /\ P k j.
Proof.
  split.
  - intros (n & Hn & _ & H). destruct n as [|n]; [lia|]. apply pow_S_r in H. destruct H as (k & A & B).
    exists k. split; [|exact B]. exists n. repeat split; try lia. exact A.
  - intros (k & (n & _ & _ & A) & B). exists (S n). repeat split; try lia. apply pow_S_r. exists k; auto.
Qed.
Lemma rstar_unfold P i j : rstar P i j <-> i = j \/ rplus P i j.
Proof.
  split.
  - intros (n & _ & _ & H). destruct n as [|n]. + left; exact H. + right. exists (S n). repeat split; try lia. exact H.
  - intros [->|H]; [apply rstar_refl | apply (rep_sub_star P 1 None); exact H].
Qed.

Lemma plus_of_star P : req (rplus (rstar P)) (rstar P).
Proof.
  intros i j. split.
  - intros H. apply (star_star P). apply (rep_sub_star (rstar P) 1 None). exact H.
  - intros H. apply sub_rplus. exact H.
Qed.
Lemma plus_plus P : req (rplus (rplus P)) (rplus P).
Proof.
  intros i j. split.
  - intros H. apply rplus_unfold in H. destruct H as (k & A & B).
    apply (star_plus P) in B. apply rplus_unfold in A. destruct A as (k' & A & A').
    apply rplus_unfold. exists k'. split; [exact A|]. eapply rstar_trans; eauto.
  - apply sub_rplus.
Qed.
Lemma plus_quest P : req (rplus (rquest P)) (rstar P).
Proof.
  intros i j. split.
  - intros H. apply (star_quest P). apply (rep_sub_star (rquest P) 1 None); exact H.
  - intros H. apply rstar_unfold in H. destruct H as [->|H].
    + apply sub_rplus. left; reflexivity.
    + destruct H as (n & Hn & _ & H). exists n. repeat split; try lia.
      eapply pow_mono; [apply sub_rquest | exact H].
Qed.
Lemma quest_quest P : req (rquest (rquest P)) (rquest P).
Proof. intros i j. unfold rquest. tauto. Qed.
Lemma quest_star P : req (rquest (rstar P)) (rstar P).
Proof. intros i j. unfold rquest. split. - intros [->|H]; [apply rstar_refl | exact H]. - intros H; right; exact H. Qed.
Lemma quest_plus P : req (rquest (rplus P)) (rstar P).
Proof. intros i j. unfold rquest. rewrite rstar_unfold. tauto. Qed.

Lemma rep_eq lo hi i j : (match hi with Some h => lo <= h | None => True end) -> rep (fun a b => a = b) lo hi i j <-> i = j.
Proof.
  intros Hb. unfold rep. split.
  - intros (n & _ & _ & H). apply pow_eq in H; exact H.
  - intros ->. exists lo. repeat split; try lia. + destruct hi; lia. + apply pow_eq; reflexivity.
Qed.

(** ------------------------------------------------------------------ sequence / alternation views *)

Section Sem.
Variable orbit : N -> list N.
Notation M := (m orbit).

Fixpoint mseq (s : list re) (t : list N) (i j : nat) : Prop :=
  match s with [] => i = j | r :: s' => exists k, M r t i k /\ mseq s' t k j end.
Definition malt (l : list re) (t : list N) (i j : nat) : Prop := exists a, In a l /\ M a t i j.

Lemma m_concat rs t i j : M (RConcat rs) t i j <-> mseq rs t i j.
Proof.
  revert i. induction rs as [|r rs IH]; intros i; simpl; [tauto|].
  split; intros (k & A & B); exists k; (split; [exact A|]); apply IH; exact B.
Qed.
Lemma m_alt rs t i j : M (RAlt rs) t i j <-> malt rs t i j.
Proof.
  unfold malt. induction rs as [|r rs IH]; simpl.
  - split; [tauto | intros (a & [] & _)].
  - split.
    + intros [H|H]. * exists r; auto. * apply IH in H. destruct H as (a & A & B). exists a; auto.
    + intros (a & [->|A] & B). * left; exact B. * right. apply IH. exists a; auto.
Qed.
Lemma m_star r t : req (M (RStar r) t) (rstar (M r t)).
Proof. intros i j. simpl. unfold rstar, rep. split. - intros (n & H); exists n; repeat split; try lia; exact H. - intros (n & _ & _ & H); exists n; exact H. Qed.
Lemma m_plus r t : req (M (RPlus r) t) (rplus (M r t)).
Proof. intros i j. simpl. unfold rplus, rep. split. - intros (n & A & H); exists n; repeat split; try lia; exact H. - intros (n & A & _ & H); exists n; auto. Qed.
Lemma m_quest r t : req (M (RQuest r) t) (rquest (M r t)).
Proof. intros i j. simpl. unfold rquest. tauto. Qed.
Lemma m_repeat mn mx r t : req (M (RRepeat mn mx r) t) (rep (M r t) mn mx).
Proof. intros i j. simpl. unfold rep. tauto. Qed.

Lemma mseq_app a b t i j : mseq (a ++ b) t i j <-> exists k, mseq a t i k /\ mseq b t k j.
Proof.
  revert i. induction a as [|r a IH]; intros i; simpl.
  - split. + intros H; exists i; auto. + intros (k & -> & H); exact H.
  - split.
    + intros (k & A & B). apply IH in B. destruct B as (k' & B & C). exists k'. split; [exists k; auto | exact C].
    + intros (k' & (k & A & B) & C). exists k. split; [exact A|]. apply IH. exists k'; auto.
Qed.
Lemma mseq_single r t i j : mseq [r] t i j <-> M r t i j.
Proof. simpl. split. - intros (k & A & ->); exact A. - intros H; exists j; auto. Qed.
Lemma mseq_repeat x n t i j : mseq (repeat x n) t i j <-> pow (M x t) n i j.
Proof.
  revert i. induction n as [|n IH]; intros i; simpl; [tauto|].
  split; intros (k & A & B); exists k; (split; [exact A|]); apply IH; exact B.
Qed.
Lemma mseq_ext a b t : Forall2 (fun x y => req (M x t) (M y t)) a b -> req (mseq a t) (mseq b t).
Proof.
  induction 1 as [|x y a b Hxy _ IH]; intros i j; simpl; [tauto|].
  split; intros (k & A & B); exists k; (split; [apply Hxy; exact A | apply IH; exact B]).
Qed.

End Sem.

(** ------------------------------------------------------------------ AST equality is sound *)

Lemma list_beq_eq {A} (eqb : A -> A -> bool) (a b : list A) :
  (forall x y, In x a -> eqb x y = true -> x = y) -> list_beq eqb a b = true -> a = b.
Proof.
  revert b. induction a as [|x a IH]; intros [|y b] Hx H; simpl in H; try discriminate; [reflexivity|].
  apply andb_true_iff in H. destruct H as [H1 H2].
  f_equal. - apply Hx; [left; reflexivity | exact H1]. - apply IH; [|exact H2]. intros u v Hu. apply Hx. right; exact Hu.
Qed.

Lemma re_eqb_eq : forall a b, re_eqb a b = true -> a = b.
Proof.
  induction a using re_ind2.
  - (* leaves *)
    destruct a; try contradiction; destruct b; simpl; intros Hb; try discriminate; try reflexivity.
    + apply andb_true_iff in Hb. destruct Hb as [H1 H2]. apply eqb_prop in H1. subst.
      f_equal. apply (list_beq_eq N.eqb); [|exact H2]. intros x y _ E. apply N.eqb_eq; exact E.
    + f_equal. apply (list_beq_eq _ _ _) in Hb; [exact Hb|].
      intros [x1 x2] [y1 y2] _ E. simpl in E. apply andb_true_iff in E. destruct E as [E1 E2].
      apply N.eqb_eq in E1. apply N.eqb_eq in E2. subst; reflexivity.
  - destruct b; simpl; intros Hb; try discriminate. f_equal; apply IHa; exact Hb.
  - destruct b; simpl; intros Hb; try discriminate. f_equal; apply IHa; exact Hb.
  - destruct b; simpl; intros Hb; try discriminate. f_equal; apply IHa; exact Hb.
  - destruct b; simpl; intros Hb; try discriminate. f_equal; apply IHa; exact Hb.
  - destruct b; simpl; intros Hb; try discriminate.
    apply andb_true_iff in Hb. destruct Hb as [Hb H3]. apply andb_true_iff in Hb. destruct Hb as [H1 H2].
    apply Nat.eqb_eq in H1. subst. f_equal; [|apply IHa; exact H3].
    destruct mx as [x|], mx0 as [y|]; simpl in H2; try discriminate; [|reflexivity]. apply Nat.eqb_eq in H2; subst; reflexivity.
  - destruct b; simpl; intros Hb; try discriminate. f_equal.
    revert rs0 Hb. induction H as [|x xs Hx _ IH]; intros [|y ys] Hb; try discriminate; [reflexivity|].
    apply andb_true_iff in Hb. destruct Hb as [H1 H2]. f_equal; [apply Hx; exact H1 | apply IH; exact H2].
  - destruct b; simpl; intros Hb; try discriminate. f_equal.
    revert rs0 Hb. induction H as [|x xs Hx _ IH]; intros [|y ys] Hb; try discriminate; [reflexivity|].
    apply andb_true_iff in Hb. destruct Hb as [H1 H2]. f_equal; [apply Hx; exact H1 | apply IH; exact H2].
Qed.
