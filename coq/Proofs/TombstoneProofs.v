(** Proofs about Model/Tombstone.v (property C17). *)
From ZV Require Import Lib.Base Model.Tombstone.

(** ---- flip *)
Lemma set_tomb_id : forall r b, r_id (set_tomb r b) = r_id r.
Proof. reflexivity. Qed.

Lemma set_tomb_same : forall r, set_tomb r (r_tomb r) = r.
Proof. intros [i n t f m o]. reflexivity. Qed.

Lemma flip_length : forall id b rs, length (flip id b rs) = length rs.
Proof. intros. unfold flip. apply map_length. Qed.

Lemma flip_idem : forall id b rs, flip id b (flip id b rs) = flip id b rs.
Proof.
  intros id b rs. unfold flip. rewrite map_map. apply map_ext. intros r.
  destruct (N.eqb (r_id r) id) eqn:E.
  - rewrite set_tomb_id, E. reflexivity.
  - rewrite E. reflexivity.
Qed.

Lemma flip_nth : forall id b rs i r,
  nth_error rs i = Some r ->
  nth_error (flip id b rs) i = Some (if N.eqb (r_id r) id then set_tomb r b else r).
Proof. intros id b rs i r H. unfold flip. rewrite nth_error_map, H. reflexivity. Qed.

Lemma flip_In : forall id b rs r', In r' (flip id b rs) ->
  exists r, In r rs /\ r' = (if N.eqb (r_id r) id then set_tomb r b else r).
Proof.
  intros id b rs r' H. unfold flip in H. apply in_map_iff in H. destruct H as [r [E I]].
  exists r. split; [exact I | symmetry; exact E].
Qed.

Lemma flip_restore : forall id b rs,
  (forall r, In r rs -> r_id r = id -> r_tomb r = b) ->
  flip id b (flip id (negb b) rs) = rs.
Proof.
  intros id b rs H. unfold flip. rewrite map_map.
  rewrite <- (map_id rs) at 2. apply map_ext_in. intros r Hin.
  destruct (N.eqb (r_id r) id) eqn:E.
  - rewrite set_tomb_id, E. apply N.eqb_eq in E. specialize (H r Hin E).
    destruct r as [i n t f m o]. simpl in *. subst t. reflexivity.
  - rewrite E. reflexivity.
Qed.

(** ---- setTombstone *)
Lemma set_ok_inv : forall f id b ft f',
  set_tombstone f id b ft = (f', Ok tt) ->
  ft = NoFault /\ exists rs, effective f = Some rs /\
  f' = mkFs (fs_shard f) (Some (flip id b rs)) (fs_tmps f).
Proof.
  intros f id b ft f' H. unfold set_tombstone in H.
  destruct (effective f) as [rs|] eqn:E; [|discriminate].
  destruct ft; try discriminate. inversion H. split; [reflexivity|].
  exists rs. split; reflexivity.
Qed.

Lemma effective_after : forall f m, fs_shard f <> None ->
  effective (mkFs (fs_shard f) (Some m) (fs_tmps f)) = Some m.
Proof. intros f m H. unfold effective. simpl. destruct (fs_shard f); [reflexivity|congruence]. Qed.

Lemma effective_shard : forall f rs, effective f = Some rs -> fs_shard f <> None.
Proof. intros f rs H. unfold effective in H. destruct (fs_shard f); congruence. Qed.

Theorem success_effective : forall f id b ft f',
  set_tombstone f id b ft = (f', Ok tt) ->
  exists rs', effective f' = Some rs' /\ forall r, In r rs' -> r_id r = id -> r_tomb r = b.
Proof.
  intros f id b ft f' H. apply set_ok_inv in H. destruct H as [_ [rs [E ->]]].
  exists (flip id b rs). split.
  - apply effective_after. eapply effective_shard; eauto.
  - intros r' Hin Hid. apply flip_In in Hin. destruct Hin as [r [_ ->]].
    destruct (N.eqb (r_id r) id) eqn:E'.
    + reflexivity.
    + apply N.eqb_neq in E'. contradiction.
Qed.

Theorem success_effective_before_fix_refuted :
  exists f id b ft f', set_tombstone_before_fix f id b ft = (f', Ok tt) /\
    exists rs' r, effective f' = Some rs' /\ In r rs' /\ r_id r = id /\ r_tomb r <> b.
Proof.
  exists (mkFs (Some (mkShard [mkRepo 7 1 false [] [] 0] [])) None 0), 7%N, true, RenameFails.
  eexists. split; [reflexivity|].
  exists [mkRepo 7 1 false [] [] 0], (mkRepo 7 1 false [] [] 0).
  split; [reflexivity|]. split; [left; reflexivity|]. split; [reflexivity|]. simpl. discriminate.
Qed.

Theorem error_unchanged : forall f id b ft f' e,
  set_tombstone f id b ft = (f', Err e) -> f' = f.
Proof.
  intros f id b ft f' e H. unfold set_tombstone in H.
  destruct (effective f); [destruct ft|]; inversion H; reflexivity.
Qed.

Theorem never_panics : forall f id b ft, is_panic (snd (set_tombstone f id b ft)) = false.
Proof. intros. unfold set_tombstone. destruct (effective f); [destruct ft|]; reflexivity. Qed.

Theorem no_temp_left : forall f id b ft, fs_tmps (fst (set_tombstone f id b ft)) = fs_tmps f.
Proof. intros. unfold set_tombstone. destruct (effective f); [destruct ft|]; reflexivity. Qed.

Theorem shard_untouched : forall f id b ft, fs_shard (fst (set_tombstone f id b ft)) = fs_shard f.
Proof. intros. unfold set_tombstone. destruct (effective f); [destruct ft|]; reflexivity. Qed.

Theorem set_isolated : forall f id b ft f' rs,
  set_tombstone f id b ft = (f', Ok tt) -> effective f = Some rs ->
  exists rs', effective f' = Some rs' /\ length rs' = length rs /\
    forall i r, nth_error rs i = Some r ->
      exists r', nth_error rs' i = Some r' /\
        r_id r' = r_id r /\ r_name r' = r_name r /\ r_ftombs r' = r_ftombs r /\ r_meta r' = r_meta r /\ r_other r' = r_other r /\
        (r_id r <> id -> r' = r) /\ (r_id r = id -> r_tomb r' = b).
Proof.
  intros f id b ft f' rs H E. apply set_ok_inv in H. destruct H as [_ [rs0 [E0 ->]]].
  rewrite E in E0. inversion E0. subst rs0.
  exists (flip id b rs). split; [apply effective_after; eapply effective_shard; eauto|].
  split; [apply flip_length|].
  intros i r Hn. eexists. split; [apply flip_nth; exact Hn|].
  destruct (N.eqb (r_id r) id) eqn:E'.
  - apply N.eqb_eq in E'. repeat split; try reflexivity. intros Hne. contradiction.
  - apply N.eqb_neq in E'. repeat split; try reflexivity. intros He. contradiction.
Qed.

Theorem set_idempotent : forall f id b f1 f2,
  set_tombstone f id b NoFault = (f1, Ok tt) ->
  set_tombstone f1 id b NoFault = (f2, Ok tt) -> f2 = f1.
Proof.
  intros f id b f1 f2 H1 H2.
  apply set_ok_inv in H1. destruct H1 as [_ [rs [E ->]]].
  apply set_ok_inv in H2. destruct H2 as [_ [rs2 [E2 ->]]]. simpl in *.
  rewrite effective_after in E2 by (eapply effective_shard; eauto). inversion E2. subst rs2.
  rewrite flip_idem. reflexivity.
Qed.

(** a second identical call always succeeds when the first did *)
Lemma set_again_ok : forall f id b f1, set_tombstone f id b NoFault = (f1, Ok tt) ->
  exists f2, set_tombstone f1 id b NoFault = (f2, Ok tt).
Proof.
  intros f id b f1 H. apply set_ok_inv in H. destruct H as [_ [rs [E ->]]].
  unfold set_tombstone. rewrite effective_after by (eapply effective_shard; eauto). eexists. reflexivity.
Qed.

Theorem inverse_restores : forall f id b rs f1 f2,
  effective f = Some rs ->
  (forall r, In r rs -> r_id r = id -> r_tomb r = b) ->
  set_tombstone f id (negb b) NoFault = (f1, Ok tt) ->
  set_tombstone f1 id b NoFault = (f2, Ok tt) ->
  effective f2 = effective f /\ load f2 = load f.
Proof.
  intros f id b rs f1 f2 E Hall H1 H2.
  apply set_ok_inv in H1. destruct H1 as [_ [rs1 [E1 ->]]]. rewrite E in E1. inversion E1. subst rs1.
  apply set_ok_inv in H2. destruct H2 as [_ [rs2 [E2 ->]]]. simpl in *.
  pose proof (effective_shard _ _ E) as Hsh.
  rewrite effective_after in E2 by exact Hsh. inversion E2. subst rs2.
  rewrite flip_restore by exact Hall.
  assert (Heff : effective (mkFs (fs_shard f) (Some rs) (fs_tmps f)) = effective f).
  { rewrite effective_after by exact Hsh. symmetry. exact E. }
  split; [exact Heff|].
  unfold load. rewrite Heff. simpl. reflexivity.
Qed.

Theorem wf_preserved : forall f id b ft, wf f -> wf (fst (set_tombstone f id b ft)).
Proof.
  intros f id b ft H. unfold set_tombstone.
  destruct (effective f) as [rs|] eqn:E; [|exact H].
  destruct ft; try exact H. simpl.
  unfold wf in *. simpl. unfold effective in E.
  destruct (fs_shard f) as [sh|]; [|exact I].
  destruct H as [Hd Hm]. split; [exact Hd|].
  rewrite flip_length. inversion E. destruct (fs_meta f); [exact Hm|reflexivity].
Qed.

(** ---- histories with faults: exactly the operations that report success take effect *)
Definition op := (N * bool * fault)%type.

Fixpoint run_hist (f : fs) (ops : list op) : fs * list (outcome unit) :=
  match ops with
  | [] => (f, [])
  | (id, b, ft) :: t =>
      let '(f1, r) := set_tombstone f id b ft in
      let '(f2, rs) := run_hist f1 t in (f2, r :: rs)
  end.

Definition apply_ok (rs : list repo) (o : op) : list repo :=
  let '(id, b, ft) := o in match ft with NoFault => flip id b rs | _ => rs end.
Definition reports (o : op) : outcome unit :=
  let '(_, _, ft) := o in match ft with NoFault => Ok tt | CreateTempFails => Err 2 | RenameFails => Err 3 end.

Theorem history_effect : forall ops f rs,
  effective f = Some rs ->
  effective (fst (run_hist f ops)) = Some (fold_left apply_ok ops rs) /\
  snd (run_hist f ops) = map reports ops /\
  fs_shard (fst (run_hist f ops)) = fs_shard f /\
  fs_tmps (fst (run_hist f ops)) = fs_tmps f.
Proof.
  induction ops as [|[[id b] ft] t IH]; intros f rs E.
  - simpl. auto.
  - simpl. unfold set_tombstone. rewrite E.
    pose proof (effective_shard _ _ E) as Hsh.
    destruct ft.
    + assert (E1 : effective (mkFs (fs_shard f) (Some (flip id b rs)) (fs_tmps f)) = Some (flip id b rs))
        by (apply effective_after; exact Hsh).
      specialize (IH _ _ E1).
      destruct (run_hist (mkFs (fs_shard f) (Some (flip id b rs)) (fs_tmps f)) t) as [f2 res] eqn:R.
      simpl in *. destruct IH as [A [B [C D]]]. repeat split; try assumption. rewrite B. reflexivity.
    + specialize (IH _ _ E). destruct (run_hist f t) as [f2 res] eqn:R.
      simpl in *. destruct IH as [A [B [C D]]]. repeat split; try assumption. rewrite B. reflexivity.
    + specialize (IH _ _ E). destruct (run_hist f t) as [f2 res] eqn:R.
      simpl in *. destruct IH as [A [B [C D]]]. repeat split; try assumption. rewrite B. reflexivity.
Qed.

(** ---- search *)
Lemma filter_len_le : forall {A} (P : A -> bool) l, length (filter P l) <= length l.
Proof. induction l as [|a l IH]; simpl; [lia|]. destruct (P a); simpl; lia. Qed.

Lemma filter_all_length : forall {A} (P : A -> bool) l,
  length (filter P l) = length l -> forall x, In x l -> P x = true.
Proof.
  induction l as [|a l IH]; intros H x Hin; [contradiction|].
  simpl in *. destruct (P a) eqn:Pa.
  - simpl in H. destruct Hin as [->|Hin]; [exact Pa|]. apply IH; [lia|exact Hin].
  - pose proof (filter_len_le P l). lia.
Qed.

Lemma filter_none_length : forall {A} (P : A -> bool) l,
  length (filter P l) = 0 -> forall x, In x l -> P x = false.
Proof.
  induction l as [|a l IH]; intros H x Hin; [contradiction|].
  simpl in *. destruct (P a) eqn:Pa; [simpl in H; lia|].
  destruct Hin as [->|Hin]; [exact Pa|]. apply IH; assumption.
Qed.

Lemma alive_In : forall rs r, In r (alive rs) <-> In r rs /\ r_tomb r = false.
Proof.
  intros. unfold alive. rewrite filter_In. split; intros [A B]; split; auto.
  - destruct (r_tomb r); [discriminate|reflexivity].
  - rewrite B. reflexivity.
Qed.

Lemma simp_repo_eval : forall rs p r d, In r rs -> r_tomb r = false ->
  eval (simp_repo rs p) r d = p (key_of r).
Proof.
  intros rs p r d Hin Ht. unfold simp_repo.
  assert (Ha : In r (alive rs)) by (apply alive_In; auto).
  destruct (length (filter (fun r0 => p (key_of r0)) (alive rs)) =? length (alive rs)) eqn:E1.
  - apply Nat.eqb_eq in E1. simpl. symmetry.
    apply (filter_all_length (fun r0 => p (key_of r0)) _ E1 r Ha).
  - destruct (0 <? length (filter (fun r0 => p (key_of r0)) (alive rs))) eqn:E2; [reflexivity|].
    apply Nat.ltb_ge in E2. simpl. symmetry.
    apply (filter_none_length (fun r0 => p (key_of r0)) (alive rs)); [lia|exact Ha].
Qed.

Lemma fold_and_eval : forall a b r d, eval (fold_and a b) r d = eval a r d && eval b r d.
Proof.
  intros a b r d.
  destruct a as [[|]| | | | |]; destruct b as [[|]| | | | |]; simpl;
    rewrite ?andb_true_r, ?andb_false_r; reflexivity.
Qed.

Lemma fold_or_eval : forall a b r d, eval (fold_or a b) r d = eval a r d || eval b r d.
Proof.
  intros a b r d.
  destruct a as [[|]| | | | |]; destruct b as [[|]| | | | |]; simpl;
    rewrite ?orb_true_r, ?orb_false_r; reflexivity.
Qed.

Lemma fold_not_eval : forall a r d, eval (fold_not a) r d = negb (eval a r d).
Proof. intros a r d. destruct a; reflexivity. Qed.

Theorem simplify_eval : forall rs q r d, In r rs -> r_tomb r = false ->
  eval (simplify rs q) r d = eval q r d.
Proof.
  intros rs q r d Hin Ht. induction q as [b|p|p|a IHa b IHb|a IHa b IHb|a IHa]; simpl.
  - reflexivity.
  - apply simp_repo_eval; assumption.
  - reflexivity.
  - rewrite fold_and_eval, IHa, IHb. reflexivity.
  - rewrite fold_or_eval, IHa, IHb. reflexivity.
  - rewrite fold_not_eval, IHa. reflexivity.
Qed.

Lemma visible_spec : forall rs d r, visible rs d = Some r <->
  nth_error rs (d_repo d) = Some r /\ r_tomb r = false /\ memN (d_file d) (r_ftombs r) = false.
Proof.
  intros rs d r. unfold visible. destruct (nth_error rs (d_repo d)) as [r0|].
  - destruct (r_tomb r0) eqn:T.
    + split; [discriminate|]. intros [A [B _]]. inversion A. subst. congruence.
    + destruct (memN (d_file d) (r_ftombs r0)) eqn:M.
      * split; [discriminate|]. intros [A [_ C]]. inversion A. subst. congruence.
      * split.
        -- intros A. inversion A. subst. auto.
        -- intros [A _]. exact A.
  - split; [discriminate|]. intros [A _]. discriminate.
Qed.

Lemma search_from_spec : forall rs q ds i0 i r d,
  In (i, r, d) (search_from rs q ds i0) <->
  exists k, i = (i0 + N.of_nat k)%N /\ nth_error ds k = Some d /\ visible rs d = Some r /\ eval q r d = true.
Proof.
  intros rs q ds. induction ds as [|d0 t IH]; intros i0 i r d; simpl.
  - split; [contradiction|]. intros [k [_ [H _]]]. destruct k; discriminate.
  - assert (Tail : In (i, r, d) (search_from rs q t (N.succ i0)) <->
      exists k, i = (i0 + N.of_nat (S k))%N /\ nth_error t k = Some d /\ visible rs d = Some r /\ eval q r d = true).
    { rewrite IH. split; intros [k [A B]]; exists k; (split; [lia|exact B]). }
    destruct (visible rs d0) as [r0|] eqn:V; [destruct (eval q r0 d0) eqn:Ev|].
    + simpl. rewrite Tail. split.
      * intros [H|[k H]].
        -- inversion H. subst. exists 0. simpl. repeat split; auto. lia.
        -- exists (S k). exact H.
      * intros [[|k] [A [B [C D]]]].
        -- left. simpl in B. inversion B. subst d0. rewrite V in C. inversion C. subst. f_equal. f_equal. lia.
        -- right. exists k. auto.
    + rewrite Tail. split.
      * intros [k H]. exists (S k). exact H.
      * intros [[|k] [A [B [C D]]]].
        -- simpl in B. inversion B. subst d0. rewrite V in C. inversion C. subst. congruence.
        -- exists k. auto.
    + rewrite Tail. split.
      * intros [k H]. exists (S k). exact H.
      * intros [[|k] [A [B [C D]]]].
        -- simpl in B. inversion B. subst d0. congruence.
        -- exists k. auto.
Qed.

Lemma visible_alive : forall rs d r, visible rs d = Some r -> In r rs /\ r_tomb r = false.
Proof.
  intros rs d r H. apply visible_spec in H. destruct H as [A [B _]].
  split; [eapply nth_error_In; eauto|exact B].
Qed.

(** exact characterisation of Search: the result is precisely the documents of alive repositories,
    with a non-tombstoned path, that satisfy the ORIGINAL query (so simplifyMultiRepo and the
    constant folding are transparent) *)
Theorem search_spec : forall v q i r d,
  In (i, r, d) (search v q) <->
  exists k, i = N.of_nat k /\ nth_error (v_docs v) k = Some d /\
            visible (v_repos v) d = Some r /\ eval q r d = true.
Proof.
  intros v q i r d. unfold search.
  assert (Main : In (i, r, d) (search_from (v_repos v) (simplify (v_repos v) q) (v_docs v) 0) <->
     exists k, i = N.of_nat k /\ nth_error (v_docs v) k = Some d /\
               visible (v_repos v) d = Some r /\ eval q r d = true).
  { rewrite search_from_spec. split; intros [k [A [B [C D]]]]; exists k; repeat split; auto; try lia.
    - destruct (visible_alive _ _ _ C) as [I T]. rewrite simplify_eval in D; assumption.
    - destruct (visible_alive _ _ _ C) as [I T]. rewrite simplify_eval; assumption. }
  destruct (simplify (v_repos v) q) as [[|]| | | | |] eqn:S; try exact Main.
  split; [contradiction|]. intros H. apply Main in H.
  apply search_from_spec in H. destruct H as [k [_ [_ [_ D]]]]. simpl in D. discriminate.
Qed.

Theorem hidden_in_search : forall v q i r d,
  In (i, r, d) (search v q) ->
  nth_error (v_repos v) (d_repo d) = Some r /\ r_tomb r = false /\ memN (d_file d) (r_ftombs r) = false.
Proof.
  intros v q i r d H. apply search_spec in H. destruct H as [k [_ [_ [V _]]]].
  apply visible_spec. exact V.
Qed.

Lemma memN_In : forall x l, memN x l = true <-> In x l.
Proof.
  intros x l. unfold memN. rewrite existsb_exists. split.
  - intros [y [I E]]. apply N.eqb_eq in E. subst. exact I.
  - intros I. exists x. split; [exact I|apply N.eqb_refl].
Qed.

Theorem list_spec : forall v q r,
  In r (list_repos v q) ->
  In r (v_repos v) /\ r_tomb r = false /\
  (simplify (v_repos v) q = QConst true \/
   exists i r' d, In (i, r', d) (search v q) /\ r_name r' = r_name r).
Proof.
  intros v q r H. unfold list_repos in H.
  assert (Gen : In r (filter (fun r0 => memN (r_name r0)
                  (map (fun x => r_name (snd (fst x))) (search_from (v_repos v) (simplify (v_repos v) q) (v_docs v) 0)))
                  (alive (v_repos v))) ->
          simplify (v_repos v) q <> QConst false ->
          In r (v_repos v) /\ r_tomb r = false /\
          (simplify (v_repos v) q = QConst true \/ exists i r' d, In (i, r', d) (search v q) /\ r_name r' = r_name r)).
  { intros G NF. apply filter_In in G. destruct G as [A M]. apply alive_In in A. destruct A as [A T].
    split; [exact A|]. split; [exact T|]. right.
    apply memN_In in M. apply in_map_iff in M. destruct M as [[[i r'] d] [E I]]. simpl in E.
    exists i, r', d. split; [|exact E].
    unfold search. destruct (simplify (v_repos v) q) as [[|]| | | | |]; try exact I. congruence. }
  destruct (simplify (v_repos v) q) as [[|]| | | | |] eqn:S;
    try (apply Gen; [exact H|discriminate]).
  - apply alive_In in H. destruct H as [A T]. auto.
  - contradiction.
Qed.

Theorem hidden_in_list : forall v q r, In r (list_repos v q) -> In r (v_repos v) /\ r_tomb r = false.
Proof. intros v q r H. apply list_spec in H. destruct H as [A [B _]]. auto. Qed.

(** end to end: after a successful SetTombstone, a reload never shows the repository again *)
Theorem set_hides : forall f id ft f' v,
  set_tombstone f id true ft = (f', Ok tt) -> load f' = Some v ->
  forall q, (forall i r d, In (i, r, d) (search v q) -> r_id r <> id) /\
            (forall r, In r (list_repos v q) -> r_id r <> id).
Proof.
  intros f id ft f' v H L q.
  apply success_effective in H. destruct H as [rs' [E Hall]].
  assert (Hv : v_repos v = rs').
  { unfold load in L. rewrite E in L. destruct (fs_shard f'); inversion L. reflexivity. }
  split.
  - intros i r d Hin Hid. apply hidden_in_search in Hin. destruct Hin as [A [B _]].
    apply nth_error_In in A. rewrite Hv in A. specialize (Hall r A Hid). congruence.
  - intros r Hin Hid. apply hidden_in_list in Hin. destruct Hin as [A B].
    rewrite Hv in A. specialize (Hall r A Hid). congruence.
Qed.

(** converse of [list_spec]: List is exactly "alive, and (query folded to TRUE or some visible matching
    document belongs to a repository of that name)" *)
Theorem list_complete : forall v q r,
  In r (v_repos v) -> r_tomb r = false ->
  (simplify (v_repos v) q = QConst true \/
   exists i r' d, In (i, r', d) (search v q) /\ r_name r' = r_name r) ->
  In r (list_repos v q).
Proof.
  intros v q r Hin Ht H. unfold list_repos.
  assert (Ha : In r (alive (v_repos v))) by (apply alive_In; auto).
  assert (Gen : (exists i r' d, In (i, r', d) (search_from (v_repos v) (simplify (v_repos v) q) (v_docs v) 0) /\ r_name r' = r_name r) ->
          In r (filter (fun r0 => memN (r_name r0)
                  (map (fun x => r_name (snd (fst x))) (search_from (v_repos v) (simplify (v_repos v) q) (v_docs v) 0)))
                  (alive (v_repos v)))).
  { intros [i [r' [d [Hs Hn]]]]. apply filter_In. split; [exact Ha|].
    apply memN_In. apply in_map_iff. exists (i, r', d). split; [exact Hn|exact Hs]. }
  unfold search in H.
  destruct (simplify (v_repos v) q) as [[|]| | | | |] eqn:S;
    try (destruct H as [H|H]; [discriminate|apply Gen; exact H]).
  - exact Ha.
  - destruct H as [H|[i [r' [d [[] _]]]]]. discriminate.
Qed.

(** ---- "affects only that repository", at the level of RESULTS: a successful Set/UnsetTombstone on
    repository [id] leaves the search results belonging to every other repository identical, for every query *)
Lemma flip_nth_other : forall id b rs k r, r_id r <> id ->
  (nth_error (flip id b rs) k = Some r <-> nth_error rs k = Some r).
Proof.
  intros id b rs k r Hne. unfold flip. rewrite nth_error_map.
  destruct (nth_error rs k) as [r0|]; simpl; [|split; discriminate].
  destruct (N.eqb (r_id r0) id) eqn:E.
  - apply N.eqb_eq in E. split; intros H; inversion H as [H1].
    + exfalso. apply Hne. rewrite <- H1, set_tomb_id. exact E.
    + exfalso. apply Hne. rewrite <- H1. exact E.
  - reflexivity.
Qed.

Lemma visible_flip_other : forall id b rs d r, r_id r <> id ->
  (visible (flip id b rs) d = Some r <-> visible rs d = Some r).
Proof.
  intros id b rs d r Hne. rewrite !visible_spec. rewrite (flip_nth_other id b rs (d_repo d) r Hne). reflexivity.
Qed.

Lemma load_after_set : forall f id b ft f' v v',
  set_tombstone f id b ft = (f', Ok tt) -> load f = Some v -> load f' = Some v' ->
  v_docs v' = v_docs v /\ v_repos v' = flip id b (v_repos v).
Proof.
  intros f id b ft f' v v' H L L'. apply set_ok_inv in H. destruct H as [_ [rs [E ->]]].
  unfold load in *. rewrite E in L. pose proof (effective_shard _ _ E) as Hsh.
  rewrite effective_after in L' by exact Hsh. simpl in L'.
  destruct (fs_shard f) as [sh|]; [|congruence].
  inversion L. inversion L'. simpl. auto.
Qed.

Theorem search_isolated : forall f id b ft f' v v',
  set_tombstone f id b ft = (f', Ok tt) -> load f = Some v -> load f' = Some v' ->
  forall q i r d, r_id r <> id ->
    (In (i, r, d) (search v' q) <-> In (i, r, d) (search v q)).
Proof.
  intros f id b ft f' v v' H L L' q i r d Hne.
  destruct (load_after_set _ _ _ _ _ _ _ H L L') as [Hd Hr].
  rewrite !search_spec. rewrite Hd, Hr.
  split; intros [k [A [B [C D]]]]; exists k; repeat split; auto.
  - apply (visible_flip_other id b (v_repos v) d r Hne). exact C.
  - apply (visible_flip_other id b (v_repos v) d r Hne). exact C.
Qed.

Lemma flip_In_other : forall id b rs r, r_id r <> id -> (In r (flip id b rs) <-> In r rs).
Proof.
  intros id b rs r Hne. split; intros H.
  - apply In_nth_error in H. destruct H as [k H]. apply (flip_nth_other id b rs k r Hne) in H.
    eapply nth_error_In; eauto.
  - apply In_nth_error in H. destruct H as [k H]. apply (flip_nth_other id b rs k r Hne) in H.
    eapply nth_error_In; eauto.
Qed.

(** List, for a repository with at least one visible document: listed iff alive and a found document
    carries its name (the Const(true) shortcut of simplifyMultiRepo is then subsumed) *)
Lemma list_iff_found : forall v q r,
  (exists k d, nth_error (v_docs v) k = Some d /\ visible (v_repos v) d = Some r) ->
  (In r (list_repos v q) <->
   In r (v_repos v) /\ r_tomb r = false /\ exists i r' d, In (i, r', d) (search v q) /\ r_name r' = r_name r).
Proof.
  intros v q r [k [d [Hn Hv]]]. split.
  - intros H. apply list_spec in H. destruct H as [A [B [C|C]]]; repeat split; auto.
    exists (N.of_nat k), r, d. split; [|reflexivity]. apply search_spec. exists k. repeat split; auto.
    rewrite <- (simplify_eval (v_repos v) q r d A B). rewrite C. reflexivity.
  - intros [A [B C]]. apply list_complete; auto.
Qed.

Theorem list_isolated : forall f id b ft f' v v',
  set_tombstone f id b ft = (f', Ok tt) -> load f = Some v -> load f' = Some v' ->
  forall q r, r_id r <> id ->
    (exists k d, nth_error (v_docs v) k = Some d /\ visible (v_repos v) d = Some r) ->
    (forall r', In r' (v_repos v) -> r_name r' = r_name r -> r_id r' <> id) ->
    (In r (list_repos v' q) <-> In r (list_repos v q)).
Proof.
  intros f id b ft f' v v' H L L' q r Hne [k [d [Hn Hv]]] Hname.
  destruct (load_after_set _ _ _ _ _ _ _ H L L') as [Hd Hr].
  rewrite (list_iff_found v q r) by (exists k, d; auto).
  rewrite (list_iff_found v' q r).
  2:{ exists k, d. rewrite Hd, Hr. split; [exact Hn|]. apply (visible_flip_other id b _ d r Hne). exact Hv. }
  rewrite Hr. rewrite (flip_In_other id b (v_repos v) r Hne).
  split; intros [A [B [i [r' [d' [S N']]]]]]; repeat split; auto; exists i, r', d'; split; auto.
  - assert (Hid : r_id r' <> id).
    { destruct (N.eq_dec (r_id r') id) as [E|E]; [|exact E]. exfalso.
      (* r' is found in v', so it is a (flipped) repository of v with r's name *)
      apply search_spec in S. destruct S as [k' [_ [_ [V _]]]]. rewrite Hr in V.
      apply visible_alive in V. destruct V as [I _]. apply flip_In in I. destruct I as [r0 [I0 E0]].
      assert (r_name r0 = r_name r /\ r_id r0 = id) as [Hn0 Hi0].
      { rewrite <- N'. rewrite E0. destruct (N.eqb (r_id r0) id) eqn:E1.
        - apply N.eqb_eq in E1. split; [reflexivity|exact E1].
        - split; [reflexivity|]. rewrite E0 in E. exact E. }
      exact (Hname r0 I0 Hn0 Hi0). }
    apply (search_isolated _ _ _ _ _ _ _ H L L' q i r' d' Hid). exact S.
  - assert (Hid : r_id r' <> id).
    { apply search_spec in S. destruct S as [k' [_ [_ [V _]]]]. apply visible_alive in V. destruct V as [I _].
      exact (Hname r' I N'). }
    apply (search_isolated _ _ _ _ _ _ _ H L L' q i r' d' Hid). exact S.
Qed.

(** without a visible document the listing of an UNTOUCHED repository does depend on the other tombstones:
    repositories 1 (no documents) and 2; List(RepoSet{1}) is empty; after SetTombstone(2) it lists 1.
    (indexData.List decides by name of found documents unless simplifyMultiRepo folds the query to TRUE.) *)
Theorem list_isolated_without_documents_refuted :
  exists (f : fs) (id : N) (f' : fs) (v v' : view) (q : query) (r : repo),
    set_tombstone f id true NoFault = (f', Ok tt) /\ load f = Some v /\ load f' = Some v' /\ wf f /\
    r_id r <> id /\ NoDup (map r_name (v_repos v)) /\
    ~ In r (list_repos v q) /\ In r (list_repos v' q).
Proof.
  exists (mkFs (Some (mkShard [mkRepo 1 1 false [] [] 0; mkRepo 2 2 false [] [] 0] [mkDoc 1 0 [0%N]])) None 0), 2%N.
  eexists. eexists. eexists. exists (QRepo (fun k => N.eqb (k_name k) 1)), (mkRepo 1 1 false [] [] 0).
  split; [reflexivity|]. split; [reflexivity|]. split; [reflexivity|].
  split; [split; [repeat constructor|exact I]|].
  split; [discriminate|]. split.
  - simpl. repeat constructor; simpl; intuition discriminate.
  - split; [vm_compute; tauto|vm_compute; auto].
Qed.
