(** C09 — btreeIndex.Get over the written ngramText section: bucket selection (find), bucket read (getBucket +
    IndexFile.Read), binary search inside the bucket (sort.Search), posting-list lookup. *)
From Coq Require Import ZifyBool ZifyNat ZifyN.
From ZV Require Import Lib.Base Lib.Varint Generated.FormatConsts Model.Format Model.Btree
                       Proofs.FormatCodec Proofs.FormatLayout Proofs.Btree.
Open Scope nat_scope.

(* ------------------------------------------------------------------ sort.Search *)
Lemma div2_bounds : forall i j, i < j -> i <= Nat.div2 (i + j) /\ Nat.div2 (i + j) < j.
Proof.
  intros i j Hij. pose proof (Nat.div2_odd (i + j)) as H.
  destruct (Nat.odd (i + j)); simpl Nat.b2n in H; lia.
Qed.

Lemma bsearch_loop_spec : forall n fuel i j f,
  j - i <= fuel -> i <= j -> j <= n ->
  (forall a, a < i -> f a = false) ->
  (forall a b, a <= b -> b < n -> f a = true -> f b = true) ->
  let r := bsearch_loop fuel i j f in
  i <= r <= j /\ (forall a, a < r -> f a = false) /\ (r < j -> f r = true).
Proof.
  intros n. induction fuel as [|k IH]; intros i j f Hfuel Hij Hjn Hlow Hmono; simpl.
  - assert (i = j) by lia. subst. repeat split; auto; lia.
  - destruct (i <? j) eqn:Elt.
    + apply Nat.ltb_lt in Elt. pose proof (div2_bounds i j Elt) as [Hh1 Hh2].
      destruct (f (Nat.div2 (i + j))) eqn:Efh.
      * specialize (IH i (Nat.div2 (i + j)) f). destruct IH as [Hr [Hf Ht]]; try lia; auto.
        repeat split; try lia; auto. intros Hlt.
        destruct (Nat.eq_dec (bsearch_loop k i (Nat.div2 (i + j)) f) (Nat.div2 (i + j))) as [E|E].
        -- rewrite E. exact Efh.
        -- apply Ht. lia.
      * specialize (IH (S (Nat.div2 (i + j))) j f). destruct IH as [Hr [Hf Ht]]; try lia; auto.
        -- intros a Ha. destruct (f a) eqn:Efa; auto.
           assert (f (Nat.div2 (i + j)) = true) by (apply (Hmono a); [lia|lia|exact Efa]). congruence.
        -- repeat split; try lia; auto.
    + apply Nat.ltb_ge in Elt. assert (i = j) by lia. subst. repeat split; auto; lia.
Qed.

Lemma bsearch_spec : forall n f, (forall a b, a <= b -> b < n -> f a = true -> f b = true) ->
  let r := bsearch n f in r <= n /\ (forall a, a < r -> f a = false) /\ (r < n -> f r = true).
Proof.
  intros n f Hm. unfold bsearch.
  assert (H0 : forall a, a < 0 -> f a = false) by (intros a Ha; lia).
  destruct (bsearch_loop_spec n n 0 n f ltac:(lia) ltac:(lia) ltac:(lia) H0 Hm) as (H1 & H2 & H3).
  cbv zeta. repeat split; auto; lia.
Qed.

(* ------------------------------------------------------------------ every probe lands in a valid bucket *)
Lemma shape_locate_any : forall half fl gs g, shape half fl gs ->
  let '(j, po) := locate fl g in po = j * half /\ j < nL fl.
Proof.
  intros half fl gs g H. induction H as [n sk gs Hn Hmax Hsk Hsk0|k fl g1 gs' Hg1 Hk Hlen Hsh IH].
  - simpl. lia.
  - cbn [locate nL]. destruct (g <? k)%N; [lia|].
    destruct (locate fl g) as [a b]. lia.
Qed.

Lemma shape_bounds : forall half fl gs, shape half fl gs -> 1 <= nL fl /\ (nL fl - 1) * half <= length gs.
Proof.
  intros half fl gs H. induction H as [n sk gs Hn Hmax Hsk Hsk0|k fl g1 gs' Hg1 Hk Hlen Hsh IH].
  - simpl. lia.
  - cbn [nL]. rewrite app_length. destruct IH as [I1 I2]. split; [lia|]. nia.
Qed.

(* ------------------------------------------------------------------ the bucket bytes *)
Lemma concat_map_be64_app : forall a b, concat (map be64 (a ++ b)) = concat (map be64 a) ++ concat (map be64 b).
Proof. intros. rewrite map_app, concat_app. reflexivity. Qed.

Lemma gram_nth : forall ks i, Forall (fun n => (n < W64)%N) ks -> i < length ks ->
  be_get (firstn 8 (skipn (i * 8) (concat (map be64 ks)))) = nth i ks 0%N.
Proof.
  induction ks as [|k r IH]; intros i Hall Hi; [simpl in Hi; lia|].
  inversion Hall as [|? ? Hk Hr]; subst. cbn [map concat].
  destruct i as [|i].
  - change (firstn 8 (skipn (0 * 8) (be64 k ++ concat (map be64 r)))) with (be64 k). apply be64_get. exact Hk.
  - change (skipn (S i * 8) (be64 k ++ concat (map be64 r))) with (skipn (i * 8) (concat (map be64 r))).
    simpl nth. apply IH; auto. simpl in Hi. lia.
Qed.

Lemma nth_firstn_skipn : forall (gs : list N) a cnt x, x < cnt -> a + cnt <= length gs ->
  nth x (firstn cnt (skipn a gs)) 0%N = nth (a + x) gs 0%N.
Proof.
  intros gs a cnt x Hx Hlen.
  rewrite <- (firstn_skipn a gs) at 2. rewrite app_nth2 by (rewrite firstn_length; lia).
  rewrite firstn_length. replace (a + x - Nat.min a (length gs)) with x by lia.
  rewrite <- (firstn_skipn cnt (skipn a gs)) at 2. rewrite app_nth1 by (rewrite firstn_length, skipn_length; lia).
  reflexivity.
Qed.

Section Get.
  Variables (half v : nat) (gs pre post : list N) (pidx : N * N).
  Hypothesis Hhalf : 1 <= half.
  Hypothesis Hhalf32 : (N.of_nat half * 8 < W32)%N.
  Hypothesis Hv : 2 <= v.
  Hypothesis Hasc : asc gs.
  Hypothesis Hgs64 : Forall (fun n => (n < W64)%N) gs.
  Let text := concat (map be64 gs).
  Let data := pre ++ text ++ post.
  Hypothesis Hsize : (nlen data < W32)%N.
  Let f := mem_file data.
  Let b := new_btree_index (2 * half) v text (nlen pre, nlen text) pidx.

  Lemma text_len : nlen text = (8 * nlen gs)%N.
  Proof. unfold text, nlen. rewrite concat_be64_len. lia. Qed.

  Lemma b_root : bt_root b = bt_build (2 * half) v gs.
  Proof. unfold b, new_btree_index. cbn [bt_root]. unfold text. rewrite words8_be64 by exact Hgs64. reflexivity. Qed.

  (** IndexFile.Read of the keys [a, a+cnt) of the ngramText section *)
  Lemma bucket_read : forall a cnt, a + cnt <= length gs ->
    file_read f (nlen pre + 8 * N.of_nat a) (8 * N.of_nat cnt) = Ok (concat (map be64 (firstn cnt (skipn a gs)))).
  Proof.
    intros a cnt Hlen. unfold f, data, text.
    rewrite <- (firstn_skipn a gs) at 1. rewrite <- (firstn_skipn cnt (skipn a gs)) at 1.
    rewrite !concat_map_be64_app.
    set (A := concat (map be64 (firstn a gs))). set (M := concat (map be64 (firstn cnt (skipn a gs)))).
    set (C := concat (map be64 (skipn cnt (skipn a gs)))).
    assert (HA : nlen A = (8 * N.of_nat a)%N) by (unfold A, nlen; rewrite concat_be64_len, firstn_length; lia).
    assert (HM : nlen M = (8 * N.of_nat cnt)%N) by (unfold M, nlen; rewrite concat_be64_len, firstn_length, skipn_length; lia).
    replace (pre ++ (A ++ M ++ C) ++ post) with ((pre ++ A) ++ M ++ (C ++ post)) by (rewrite <- !app_assoc; reflexivity).
    rewrite <- HA, <- HM, <- nlen_app. apply file_read_mid.
    replace ((pre ++ A) ++ M ++ C ++ post) with (pre ++ (A ++ M ++ C) ++ post) by (rewrite <- !app_assoc; reflexivity).
    unfold A, M, C. rewrite <- !concat_map_be64_app. rewrite (firstn_skipn cnt), (firstn_skipn a). exact Hsize.
  Qed.

  (** the bucket that getBucket computes for leaf j holds the keys [j*half, j*half+cnt) *)
  Lemma get_bucket_spec : forall j, j < nleaves (bt_root b) ->
    exists cnt, j * half + cnt <= length gs
      /\ (S j = nleaves (bt_root b) -> j * half + cnt = length gs) /\ (S j <> nleaves (bt_root b) -> cnt = half)
      /\ get_bucket b j = ((nlen pre + 8 * N.of_nat (j * half))%N, (8 * N.of_nat cnt)%N).
  Proof.
    intros j Hj. rewrite b_root in *.
    destruct (build_shape half v gs Hhalf Hv Hasc) as [Hsh Hwf].
    destruct (flat_counts (bt_build (2 * half) v gs)) as [EnL _].
    destruct (shape_bounds _ _ _ Hsh) as [Hb1 Hb2]. rewrite EnL in *.
    set (nb := nleaves (bt_build (2 * half) v gs)) in *.
    assert (Htl : (nlen pre + 8 * nlen gs < W32)%N).
    { pose proof Hsize as Hs. unfold data in Hs. rewrite !nlen_app, text_len in Hs. lia. }
    unfold get_bucket, last_bucket_index. rewrite b_root. fold nb.
    unfold b, new_btree_index. cbn [bt_bsz bt_ngramSec fst snd].
    replace (2 * half / 2) with half by (rewrite Nat.mul_comm, Nat.div_mul; lia).
    rewrite (N.mod_small (N.of_nat half * 8)) by exact Hhalf32.
    assert (Hjh : j * half <= length gs) by nia.
    assert (Hoff : ((nlen pre + N.of_nat j * (N.of_nat half * 8)) mod W32 = nlen pre + 8 * N.of_nat (j * half))%N).
    { rewrite N.mod_small; unfold nlen in *; nia. }
    rewrite Hoff. rewrite text_len.
    destruct (Z.of_nat j =? Z.of_nat nb - 1)%Z eqn:E.
    - assert (S j = nb) by lia. exists (length gs - j * half). repeat split; try lia.
      f_equal.
      replace (nlen pre + 8 * nlen gs + W32 - (nlen pre + 8 * N.of_nat (j * half)))%N
        with (8 * N.of_nat (length gs - j * half) + 1 * W32)%N by (unfold nlen in *; lia).
      rewrite N.mod_add by discriminate. apply N.mod_small. unfold nlen in *; lia.
    - assert (S j <> nb) by lia. exists half. repeat split; try lia; [nia|]. f_equal. lia.
  Qed.

  Lemma find_valid : forall g, let '(j, po) := find (bt_root b) g in po = j * half /\ j < nleaves (bt_root b).
  Proof.
    intros g. rewrite b_root.
    destruct (build_shape half v gs Hhalf Hv Hasc) as [Hsh Hwf].
    rewrite (find_locate v) by (auto; eapply shape_ksorted; eauto).
    pose proof (shape_locate_any half _ gs g Hsh) as H.
    destruct (locate (flat (bt_build (2 * half) v gs)) g) as [j po].
    destruct (flat_counts (bt_build (2 * half) v gs)) as [E _]. rewrite <- E. exact H.
  Qed.

  (** Get on the bucket: the result of the binary search *)
  Lemma get_in_bucket : forall g j cnt, j * half + cnt <= length gs ->
    get_bucket b j = ((nlen pre + 8 * N.of_nat (j * half))%N, (8 * N.of_nat cnt)%N) ->
    find (bt_root b) g = (j, j * half) ->
    btree_get f b g =
      let ks := firstn cnt (skipn (j * half) gs) in
      let x := bsearch cnt (fun i => (g <=? nth i ks 0)%N) in
      if (cnt <=? x) || negb (nth x ks 0 =? g)%N then (0%N, 0%N) else get_posting_list f b (j * half + x).
  Proof.
    intros g j cnt Hlen Hgb Hfind. unfold btree_get. rewrite Hfind, Hgb. rewrite bucket_read by exact Hlen.
    set (ks := firstn cnt (skipn (j * half) gs)).
    assert (Hkl : length ks = cnt) by (unfold ks; rewrite firstn_length, skipn_length; lia).
    assert (Hk64 : Forall (fun n => (n < W64)%N) ks) by (unfold ks; apply forall_firstn, forall_skipn; exact Hgs64).
    rewrite concat_be64_len, Hkl. replace (8 * cnt / 8) with cnt by (rewrite Nat.mul_comm, Nat.div_mul; lia).
    cbv zeta.
    (* the search only evaluates indexes below cnt, where gram i = ks[i] *)
    assert (Hsame : forall fuel i j0 (p q : nat -> bool), j0 <= cnt -> (forall a, a < cnt -> p a = q a) ->
              bsearch_loop fuel i j0 p = bsearch_loop fuel i j0 q).
    { induction fuel as [|k IH]; intros i j0 p q Hj0 Hpq; simpl; [reflexivity|].
      destruct (i <? j0) eqn:El; [|reflexivity]. apply Nat.ltb_lt in El.
      pose proof (div2_bounds i j0 El) as [D1 D2]. rewrite (Hpq (Nat.div2 (i + j0))) by lia.
      destruct (q (Nat.div2 (i + j0))); apply IH; auto; lia. }
    assert (Hbs : bsearch cnt (fun i => (g <=? be_get (firstn 8 (skipn (i * 8) (concat (map be64 ks)))))%N)
                  = bsearch cnt (fun i => (g <=? nth i ks 0)%N)).
    { unfold bsearch. apply Hsame; [lia|]. intros a Ha. rewrite (gram_nth ks a Hk64) by (rewrite Hkl; exact Ha). reflexivity. }
    rewrite !Hbs.
    set (x := bsearch cnt (fun i => (g <=? nth i ks 0)%N)).
    destruct (cnt <=? x) eqn:Ex; [reflexivity|]. apply Nat.leb_gt in Ex.
    rewrite (gram_nth ks x Hk64) by (rewrite Hkl; exact Ex). reflexivity.
  Qed.

  (** btreeIndex.Get finds every ngram of the section (at its position p) and nothing else *)
  Theorem btree_get_present : forall p, p < length gs -> btree_get f b (nth p gs 0%N) = get_posting_list f b p.
  Proof.
    intros p Hp.
    pose proof (btree_find_spec half v gs p Hhalf Hv Hasc Hp) as Hfs. cbv zeta in Hfs. rewrite <- b_root in Hfs.
    destruct (find (bt_root b) (nth p gs 0%N)) as [j po] eqn:Ef. destruct Hfs as (Hpo & Hjp & Hlast). subst po.
    pose proof (find_valid (nth p gs 0%N)) as Hfv. rewrite Ef in Hfv. destruct Hfv as [_ Hj].
    destruct (get_bucket_spec j Hj) as (cnt & Hlen & Hl1 & Hl2 & Hgb).
    rewrite (get_in_bucket _ j cnt Hlen Hgb Ef). cbv zeta.
    set (ks := firstn cnt (skipn (j * half) gs)).
    assert (Hx0 : p - j * half < cnt).
    { destruct Hlast as [Hl|Hl]; [specialize (Hl1 Hl); lia|].
      destruct (Nat.eq_dec (S j) (nleaves (bt_root b))) as [E|E]; [specialize (Hl1 E); lia|specialize (Hl2 E); nia]. }
    assert (Hnth : forall x, x < cnt -> nth x ks 0%N = nth (j * half + x) gs 0%N) by (intros; apply nth_firstn_skipn; auto).
    pose proof (bsearch_spec cnt (fun i => (nth p gs 0 <=? nth i ks 0)%N)) as Hbs.
    assert (Hmono : forall a c, a <= c -> c < cnt -> (nth p gs 0 <=? nth a ks 0)%N = true -> (nth p gs 0 <=? nth c ks 0)%N = true).
    { intros a c Hac Hc Hta. rewrite Hnth in * by lia. destruct (Nat.eq_dec a c) as [->|Hne]; [exact Hta|].
      specialize (Hasc (j * half + a) (j * half + c) ltac:(lia)). lia. }
    specialize (Hbs Hmono). cbv zeta in Hbs. destruct Hbs as (B1 & B2 & B3).
    set (x := bsearch cnt (fun i => (nth p gs 0 <=? nth i ks 0)%N)) in *.
    assert (Hx : x = p - j * half).
    { assert (Ht : (nth p gs 0 <=? nth (p - j * half) ks 0)%N = true).
      { rewrite Hnth by exact Hx0. replace (j * half + (p - j * half)) with p by lia. lia. }
      destruct (Nat.lt_trichotomy x (p - j * half)) as [Hlt|[Heq|Hgt]]; [|exact Heq|].
      - exfalso. specialize (B3 ltac:(lia)). rewrite Hnth in B3 by lia.
        specialize (Hasc (j * half + x) p ltac:(lia)). lia.
      - exfalso. specialize (B2 (p - j * half) Hgt). congruence. }
    rewrite Hx. replace (cnt <=? p - j * half) with false by lia.
    rewrite Hnth by exact Hx0. replace (j * half + (p - j * half)) with p by lia.
    rewrite N.eqb_refl. reflexivity.
  Qed.

  Theorem btree_get_absent : forall g, ~ In g gs -> btree_get f b g = (0%N, 0%N).
  Proof.
    intros g Hg.
    pose proof (find_valid g) as Hfv. destruct (find (bt_root b) g) as [j po] eqn:Ef. destruct Hfv as [-> Hj].
    destruct (get_bucket_spec j Hj) as (cnt & Hlen & _ & _ & Hgb).
    rewrite (get_in_bucket _ j cnt Hlen Hgb Ef). cbv zeta.
    set (ks := firstn cnt (skipn (j * half) gs)).
    set (x := bsearch cnt (fun i => (g <=? nth i ks 0)%N)).
    destruct (cnt <=? x) eqn:Ex; [reflexivity|]. apply Nat.leb_gt in Ex.
    assert (Hin : In (nth x ks 0%N) gs).
    { unfold ks. rewrite nth_firstn_skipn by (auto; lia). apply nth_In. lia. }
    destruct (nth x ks 0 =? g)%N eqn:E; [|reflexivity]. apply N.eqb_eq in E. rewrite E in Hin. contradiction.
  Qed.
End Get.
