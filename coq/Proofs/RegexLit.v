(** RegexpQuery's literal detection is sound for the regexp semantics of Model/Regex.v: a pattern that becomes a
    Substring atom matches exactly the occurrences of its runes; a fold-case literal is never a Substring (it
    matches other spellings as well - the decision before /repo efa35e5 is refuted). *)
From Coq Require Import List NArith Arith Bool Lia.
From ZV Require Import Model.Regex Model.RegexLit Model.RegexCase Proofs.RegexCase.
Import ListNotations.
Open Scope nat_scope.

Section WithOrbit.
Variable orbit : N -> list N.

Lemma fold_eq_false r c : fold_eq orbit false r c = (r =? c)%N.
Proof. unfold fold_eq. simpl. apply orb_false_r. Qed.

Lemma lit_m_exact rs : forall t i j,
  lit_m orbit false rs t i j <-> occurs_at rs t i /\ j = i + length rs.
Proof.
  unfold occurs_at. induction rs as [|r rs IH]; intros t i j; simpl.
  - split; [intros ->; split; [reflexivity | lia] | intros [_ ->]; lia].
  - split.
    + intros (c & Hc & Hf & Hm). rewrite fold_eq_false in Hf. apply N.eqb_eq in Hf. subst c.
      apply IH in Hm. destruct Hm as [Ho ->]. split; [|lia].
      clear IH. revert t Hc Ho. induction i as [|i IHi]; intros t Hc Ho.
      * destruct t as [|c t]; [discriminate|]. simpl in Hc. injection Hc as ->. simpl in *. now rewrite Ho.
      * destruct t as [|c t]; [discriminate|]. simpl in Hc. simpl. apply IHi; assumption.
    + intros [Ho ->]. exists r. split; [|split].
      * clear IH. revert t Ho. induction i as [|i IHi]; intros t Ho.
        -- destruct t as [|c t]; simpl in Ho; [discriminate|]. injection Ho as -> _. reflexivity.
        -- destruct t as [|c t]; simpl in Ho; [discriminate|]. simpl. apply IHi. exact Ho.
      * rewrite fold_eq_false. apply N.eqb_refl.
      * apply IH. split; [|lia].
        clear IH. revert t Ho. induction i as [|i IHi]; intros t Ho.
        -- destruct t as [|c t]; simpl in Ho; [discriminate|]. injection Ho as _ Ho. simpl. exact Ho.
        -- destruct t as [|c t]; simpl in Ho; [discriminate|]. simpl. apply IHi. exact Ho.
Qed.

(** the literal detection is exact: a Substring atom is produced only for a tree whose matches are the
    occurrences of the pattern's runes, each spelled as written *)
Theorem literal_detection_sound r rs :
  rq_shape_of r = ShLit rs ->
  forall t i j, m orbit r t i j <-> occurs_at rs t i /\ j = i + length rs.
Proof.
  intros H t i j. destruct r as [| |f rs'| | | | | | | | | | | | | | | |]; try discriminate.
  destruct f; [discriminate|]. injection H as <-. simpl. apply lit_m_exact.
Qed.

(** ... and complete: every tree that is a literal without FoldCase becomes a Substring of exactly its runes *)
Theorem literal_detection_complete rs : rq_shape_of (RLit false rs) = ShLit rs.
Proof. reflexivity. Qed.

Theorem fold_literal_stays_regexp rs : rq_shape_of (RLit true rs) = ShRx.
Proof. reflexivity. Qed.
End WithOrbit.

(** the decision before the repair: [fF] (tree: the fold-case literal F) became the Substring "F", but the
    pattern also matches "f" - for every fold orbit that relates F and f *)
Theorem old_literal_detection_refuted :
  forall orbit : N -> list N, In 102%N (orbit 70%N) ->
  exists r rs t, rq_shape_old r = ShLit rs /\ m orbit r t 0 1 /\ ~ occurs_at rs t 0.
Proof.
  intros orbit Ho. exists (RLit true [70%N]), [70%N], [102%N]. split; [reflexivity|]. split.
  - simpl. exists 102%N. split; [reflexivity|]. split; [|reflexivity].
    unfold fold_eq. simpl. apply existsb_exists. exists 102%N. split; [exact Ho | reflexivity].
  - unfold occurs_at. simpl. discriminate.
Qed.

(** case:auto on trees with fold-case literals: the literal counts by its runes (which regexp/syntax spells with
    the upper-case letter), with or without the flag *)
Theorem auto_fold_literal f rs : re_auto (RLit f rs) = existsb upper_rune rs.
Proof. rewrite re_auto_iff_upper. reflexivity. Qed.

(** (?i:hel)lo and [hH][eE][lL]lo have the same tree; it has an upper-case letter, so the implementation (and
    the rule read on the tree) search it case-sensitively - the text of the first pattern has none *)
Theorem fold_group_tree_has_upper :
  let t := RConcat [RLit true [72;69;76]%N; RLit false [108;111]%N] in
  re_auto t = true /\ has_upper_re t = true.
Proof. split; reflexivity. Qed.
