(** C09 — ShardBuilder.Add keeps the builder state well-formed: every state reached by add_repos from the empty
    builder satisfies the invariant [binv]; together with |file| < 2^32 it gives the [wf_b] that the read-back
    theorem (Proofs/FormatLoad.v) needs.  (Bounds: rune offsets <= bytes added so far, rune counts <= bytes, section
    boundaries <= rune count, fileEndSymbol <= number of rune sections, masks < 2^64 for <= 64 branches.) *)
From Coq Require Import ZifyBool ZifyNat ZifyN String.
From ZV Require Import Lib.Base Lib.Varint Generated.FormatConsts Model.Format Proofs.FormatCodec Proofs.FormatLayout Proofs.FormatToc Proofs.FormatLoad.
Open Scope N_scope.

(* ------------------------------------------------------------------ the rune loop of newSearchableString *)

Lemma decode_rune_sz : forall l, l <> [] -> (1 <= snd (decode_rune l) <= length l)%nat.
Proof.
  intros l Hl. unfold decode_rune. destruct l as [|b0 r]; [contradiction|].
  destruct (b0 <? 128); [simpl; lia|].
  destruct (in_rng 194 223 b0).
  { destruct r as [|b1 r]; [simpl; lia|]. destruct (in_rng 128 191 b1); simpl; lia. }
  destruct (in_rng 224 239 b0).
  { destruct r as [|b1 [|b2 r]]; try (simpl; lia).
    destruct (in_rng (if b0 =? 224 then 160 else 128) (if b0 =? 237 then 159 else 191) b1 && in_rng 128 191 b2); simpl; lia. }
  destruct (in_rng 240 244 b0).
  { destruct r as [|b1 [|b2 [|b3 r]]]; try (simpl; lia).
    destruct (in_rng (if b0 =? 240 then 144 else 128) (if b0 =? 244 then 143 else 191) b1 && in_rng 128 191 b2 && in_rng 128 191 b3); simpl; lia. }
  simpl; lia.
Qed.

Lemma take_bounds_forall : forall (P : N -> Prop) bc v bounds rb, P v -> Forall P rb -> Forall P (snd (take_bounds bc v bounds rb)).
Proof.
  intros P bc v. induction bounds as [|b r IH]; intros rb Hv Hrb; cbn [take_bounds snd]; [exact Hrb|].
  destruct (b =? bc); [|exact Hrb]. apply IH; [exact Hv|]. constructor; assumption.
Qed.

Lemma Forall_le_mono : forall (l : list N) a b, a <= b -> Forall (fun x => x <= a) l -> Forall (fun x => x <= b) l.
Proof. intros l a b Hab H. eapply Forall_impl; [|exact H]. intros x Hx. simpl in Hx. lia. Qed.

Lemma ss_loop_inv : forall fuel data rc eb ri bc st st' ri' bc',
  (length data <= fuel)%nat ->
  ss_loop fuel data rc eb ri bc st = (st', ri', bc') ->
  Forall (fun x => x <= eb + bc) (l_roffs st) -> Forall (fun x => x <= rc + ri) (l_rbounds st) ->
  bc' = bc + nlen data /\ ri <= ri' /\ ri' <= ri + nlen data
  /\ Forall (fun x => x <= eb + bc') (l_roffs st') /\ Forall (fun x => x <= rc + ri') (l_rbounds st').
Proof.
  induction fuel as [|f IH]; intros data rc eb ri bc st st' ri' bc' Hf H Hro Hrb.
  - destruct data; [|simpl in Hf; lia]. cbn [ss_loop] in H. inversion H; subst.
    change (nlen (@nil N)) with 0. rewrite !N.add_0_r. repeat split; try lia; assumption.
  - cbn [ss_loop] in H. destruct data as [|c0 dr] eqn:Ed.
    { inversion H; subst. change (nlen (@nil N)) with 0. rewrite !N.add_0_r. repeat split; try lia; assumption. }
    rewrite <- Ed in *. assert (Hne : data <> []) by (rewrite Ed; discriminate).
    pose proof (decode_rune_sz data Hne) as Hsz.
    destruct (decode_rune data) as [c sz] eqn:Edr. cbn [snd] in Hsz.
    destruct (take_bounds bc (rc + ri) (l_bounds st) (l_rbounds st)) as [bounds rb] eqn:Etb.
    assert (Hlen : nlen data = N.of_nat sz + nlen (skipn sz data)).
    { unfold nlen. rewrite skipn_length. lia. }
    eapply IH in H.
    + destruct H as (Hbc & Hri1 & Hri2 & Hro' & Hrb'). cbn [l_roffs l_rbounds] in *.
      repeat split; try lia; try assumption.
    + rewrite skipn_length. lia.
    + cbn [l_roffs].
      destruct ((rc + ri) mod runeOffsetFrequency =? 0).
      * constructor; [lia|]. eapply Forall_le_mono; [|exact Hro]. lia.
      * eapply Forall_le_mono; [|exact Hro]. lia.
    + cbn [l_rbounds].
      assert (Hrb2 : Forall (fun x => x <= rc + ri) rb).
      { replace rb with (snd (take_bounds bc (rc + ri) (l_bounds st) (l_rbounds st))) by (rewrite Etb; reflexivity).
        apply take_bounds_forall; [lia|exact Hrb]. }
      eapply Forall_le_mono; [|exact Hrb2]. lia.
Qed.

Lemma pair_up_forall : forall (P : N -> Prop) l, Forall P l -> Forall (fun s => P (fst s) /\ P (snd s)) (pair_up l).
Proof.
  intros P. fix IH 1. intros [|a [|b r]] H; cbn [pair_up]; try constructor.
  - inversion H as [|? ? Ha H']; subst. inversion H' as [|? ? Hb H'']; subst. split; assumption.
  - apply IH. inversion H as [|? ? Ha H']; subst. inversion H' as [|? ? Hb H'']; subst. exact H''.
Qed.

Lemma Forall_rev' : forall {A} (P : A -> Prop) l, Forall P l -> Forall P (rev l).
Proof. intros A P l H. apply Forall_forall. intros x Hx. apply in_rev in Hx. revert x Hx. apply Forall_forall. exact H. Qed.

(** postingsBuilder invariant after the bytes [total] have been added *)
Definition pinv (p : pstate) (total : list N) : Prop :=
  ps_endByte p = nlen total /\ ps_runeCount p <= ps_endByte p
  /\ Forall (fun x => x <= ps_endByte p) (ps_runeOffsets p) /\ Forall (fun x => x <= ps_runeCount p) (ps_endRunes p).

Lemma nss_inv : forall ps total data secs ps' rsecs, pinv ps total ->
  new_searchable_string ps data secs = Ok (ps', rsecs) ->
  pinv ps' (total ++ data) /\ ps_runeCount ps <= ps_runeCount ps'
  /\ Forall (fun s => fst s <= ps_runeCount ps' /\ snd s <= ps_runeCount ps') rsecs.
Proof.
  intros ps total data secs ps' rsecs (He & Hrc & Hro & Her) H. unfold new_searchable_string in H.
  destruct (ss_loop (length data) data (ps_runeCount ps) (ps_endByte ps) 0 0
              (mkL (ps_post ps) (ps_runeOffsets ps) (flatten_secs secs) [] 0 0)) as [[st ri] bc] eqn:El.
  eapply ss_loop_inv in El; [|lia| |].
  2:{ cbn [l_roffs]. rewrite N.add_0_r. exact Hro. }
  2:{ cbn [l_rbounds]. constructor. }
  destruct El as (Hbc & _ & Hri & Hro' & Hrb'). rewrite N.add_0_l in Hbc, Hri. subst bc.
  assert (Hfin : forall rb, Forall (fun x => x <= ps_runeCount ps + ri) rb ->
            ps' = mkP (l_post st) (l_roffs st) (ps_runeCount ps + ri) ((ps_runeCount ps + ri) :: ps_endRunes ps) (ps_endByte ps + nlen data) ->
            rsecs = pair_up (rev rb) ->
            pinv ps' (total ++ data) /\ ps_runeCount ps <= ps_runeCount ps'
            /\ Forall (fun s => fst s <= ps_runeCount ps' /\ snd s <= ps_runeCount ps') rsecs).
  { intros rb Hrb -> ->. cbn [ps_runeCount]. split; [|split; [lia|]].
    - unfold pinv. cbn [ps_endByte ps_runeCount ps_runeOffsets ps_endRunes]. rewrite nlen_app. repeat split; try lia.
      + exact Hro'.
      + constructor; [lia|]. eapply Forall_le_mono; [|exact Her]. lia.
    - apply (pair_up_forall (fun x => x <= ps_runeCount ps + ri)). apply Forall_rev'. exact Hrb. }
  destruct (l_bounds st) as [|b0 br] eqn:Eb.
  - inversion H; subst. apply (Hfin (l_rbounds st)); auto.
  - destruct (b0 <? nlen data); [discriminate|].
    destruct (take_bounds (nlen data) (ps_runeCount ps + ri) (b0 :: br) (l_rbounds st)) as [x rb] eqn:Etb.
    inversion H; subst. apply (Hfin rb); auto.
    replace rb with (snd (take_bounds (nlen data) (ps_runeCount ps + ri) (b0 :: br) (l_rbounds st))) by (rewrite Etb; reflexivity).
    apply take_bounds_forall; [lia|exact Hrb'].
Qed.

(* ------------------------------------------------------------------ branch masks *)

Lemma index_of_bound : forall s l i0 i, index_of s l i0 = Some i -> i < i0 + nlen l.
Proof.
  intros s. induction l as [|x r IH]; intros i0 i H; cbn [index_of] in H; [discriminate|].
  assert (Hn : nlen (x :: r) = 1 + nlen r) by (unfold nlen; cbn [length]; lia).
  destruct (bytes_eqb s x); [inversion H; subst; lia|]. apply IH in H. lia.
Qed.

Lemma lor_lt_pow2 : forall a b n, a < 2 ^ n -> b < 2 ^ n -> N.lor a b < 2 ^ n.
Proof.
  intros a b n Ha Hb. destruct (N.eq_dec (N.lor a b) 0) as [E|E].
  { rewrite E. apply N.neq_0_lt_0. apply N.pow_nonzero. discriminate. }
  apply N.log2_lt_pow2; [lia|]. rewrite N.log2_lor.
  destruct (N.eq_dec a 0) as [Ea|Ea]; destruct (N.eq_dec b 0) as [Eb|Eb]; subst.
  - exfalso. apply E. reflexivity.
  - rewrite N.max_r by (cbn; lia). apply N.log2_lt_pow2; lia.
  - rewrite N.max_l by (cbn; lia). apply N.log2_lt_pow2; lia.
  - apply N.max_lub_lt; apply N.log2_lt_pow2; lia.
Qed.

Lemma branch_mask_bound : forall branches dbs m, nlen branches <= 64 -> branch_mask branches dbs = Some m -> m < W64.
Proof.
  intros branches. induction dbs as [|br r IH]; intros m Hb H; cbn [branch_mask] in H.
  - inversion H; subst. reflexivity.
  - destruct (index_of br branches 0) as [i|] eqn:Ei; [|discriminate].
    destruct (branch_mask branches r) as [m'|] eqn:Em; [|discriminate]. inversion H; subst.
    apply index_of_bound in Ei. change W64 with (2 ^ 64). apply lor_lt_pow2; [|apply IH; auto].
    apply N.pow_lt_mono_r; lia.
Qed.

(* ------------------------------------------------------------------ symbol rows *)

Lemma ins_sym_forall : forall (P : symrow -> Prop) x l, P x -> Forall P l -> Forall P (ins_sym x l).
Proof.
  intros P x. induction l as [|y r IH]; intros Hx Hl; cbn [ins_sym]; [constructor; auto|].
  inversion Hl; subst. destruct (fst (fst x) <? fst (fst y)); constructor; auto.
Qed.

Lemma sort_syms_forall : forall (P : symrow -> Prop) l, Forall P l -> Forall P (sort_syms l).
Proof.
  intros P l H. unfold sort_syms.
  assert (G : forall l acc, Forall P l -> Forall P acc -> Forall P (fold_left (fun acc x => ins_sym x acc) l acc)).
  { induction l0 as [|x r IH]; intros acc Hl Ha; cbn [fold_left]; [exact Ha|].
    inversion Hl; subst. apply IH; [assumption|]. apply ins_sym_forall; assumption. }
  apply G; [exact H|constructor].
Qed.

Lemma zip_default_forall : forall {B} (P : N * N -> Prop) (a : list (N * N)) (b : list B) d,
  Forall P a -> Forall (fun r => P (fst r)) (zip_default a b d).
Proof.
  intros B P. induction a as [|x r IH]; intros b d H; cbn [zip_default]; [constructor|].
  inversion H; subst. constructor; [assumption|]. apply IH. assumption.
Qed.

Lemma doc_syms_ok : forall d, Forall sec_ok (di_syms d) -> Forall sec_ok (map fst (doc_symrows d)).
Proof.
  intros d H. unfold doc_symrows. destruct (doc_skip d =? 0); [|constructor].
  apply Forall_map. apply (sort_syms_forall (fun r => sec_ok (fst r))). apply zip_default_forall. exact H.
Qed.

(* ------------------------------------------------------------------ the builder invariant *)

Record binv (b : bstate) : Prop := mkBinv {
  bi_names : length (b_names b) = length (b_contents b);
  bi_masks : length (b_masks b) = length (b_contents b);
  bi_docsecs : length (b_docSections b) = length (b_contents b);
  bi_cp : pinv (b_cp b) (concat (b_contents b));
  bi_np : pinv (b_np b) (concat (b_names b));
  bi_rds : Forall (fun s => fst s <= ps_runeCount (b_cp b) /\ snd s <= ps_runeCount (b_cp b)) (b_runeDocSections b);
  bi_fes : Forall (fun n => n <= nlen (b_runeDocSections b)) (b_fileEndSymbol b);
  bi_m64 : Forall (fun n => n < W64) (b_masks b);
  bi_sub : Forall (fun n => n < W32) (b_subRepos b);
  bi_repos : Forall (fun n => n < W16) (b_repos b);
  bi_ds : Forall (Forall sec_ok) (b_docSections b) }.

Lemma binv_empty : binv b_empty.
Proof.
  constructor; cbn; try reflexivity; try constructor; try (repeat split; try reflexivity; try constructor; cbn; lia).
Qed.

Definition doc_ok (d : doc_in) : Prop := di_subidx d < W32 /\ Forall sec_ok (di_syms d).

Lemma concat_snoc : forall {A} (l : list (list A)) x, concat (l ++ [x]) = concat l ++ x.
Proof. intros. rewrite concat_app. cbn [concat]. rewrite app_nil_r. reflexivity. Qed.

Lemma add_doc_inv : forall branches repoIdx b d b', nlen branches <= 64 -> repoIdx < W16 -> doc_ok d ->
  binv b -> add_doc branches repoIdx b d = Ok b' -> binv b'.
Proof.
  intros branches repoIdx b d b' Hbr Hri (Hsub & Hsyms) [Hn Hm Hd Hcp Hnp Hrds Hfes Hm64 Hs Hr Hds] H.
  unfold add_doc in H.
  destruct (overlaps 0 true (map fst (doc_symrows d))); [discriminate|].
  destruct (nlen (doc_content d) <? last_end (map fst (doc_symrows d))); [discriminate|].
  destruct (new_searchable_string (b_cp b) (doc_content d) (map fst (doc_symrows d))) as [[cp runeSecs]|e|w] eqn:E1; try discriminate.
  cbn [obind] in H.
  destruct (new_searchable_string (b_np b) (di_name d) []) as [[np x]|e|w] eqn:E2; try discriminate.
  cbn [obind] in H.
  destruct (add_symbols (map snd (doc_symrows d)) (b_symtab b) (b_kindtab b) (b_symMeta b)) as [[st kt] sm].
  destruct (branch_mask branches (di_branches d)) as [mask|] eqn:Em; [|discriminate].
  inversion H; subst b'. clear H.
  destruct (nss_inv _ _ _ _ _ _ Hcp E1) as (Hcp' & Hmono & Hnew).
  destruct (nss_inv _ _ _ _ _ _ Hnp E2) as (Hnp' & _ & _).
  constructor; cbn [b_names b_contents b_masks b_docSections b_cp b_np b_runeDocSections b_fileEndSymbol b_subRepos b_repos].
  - rewrite !app_length. cbn [length]. lia.
  - rewrite !app_length. cbn [length]. lia.
  - rewrite !app_length. cbn [length]. lia.
  - rewrite concat_snoc. exact Hcp'.
  - rewrite concat_snoc. exact Hnp'.
  - apply Forall_app. split; [|exact Hnew].
    eapply Forall_impl; [|exact Hrds]. intros s (Ha & Hb). split; lia.
  - apply Forall_app. split.
    + eapply Forall_impl; [|exact Hfes]. intros n Hn'. simpl in Hn'. rewrite nlen_app. lia.
    + constructor; [lia|constructor].
  - apply Forall_app. split; [exact Hm64|]. constructor; [|constructor]. eapply branch_mask_bound; eassumption.
  - apply Forall_app. split; [exact Hs|]. constructor; [exact Hsub|constructor].
  - apply Forall_app. split; [exact Hr|]. constructor; [exact Hri|constructor].
  - apply Forall_app. split; [exact Hds|]. constructor; [|constructor]. apply doc_syms_ok. exact Hsyms.
Qed.

Lemma add_doc_stores : forall branches idx b d b', add_doc branches idx b d = Ok b' ->
  b_names b' = b_names b ++ [di_name d] /\ b_contents b' = b_contents b ++ [doc_content d]
  /\ b_docSections b' = b_docSections b ++ [map fst (doc_symrows d)]
  /\ b_subRepos b' = b_subRepos b ++ [di_subidx d] /\ b_repos b' = b_repos b ++ [idx]
  /\ exists mask, branch_mask branches (di_branches d) = Some mask /\ b_masks b' = b_masks b ++ [mask].
Proof.
  intros branches idx b d b' H. unfold add_doc in H.
  destruct (overlaps 0 true (map fst (doc_symrows d))); [discriminate|].
  destruct (nlen (doc_content d) <? last_end (map fst (doc_symrows d))); [discriminate|].
  destruct (new_searchable_string (b_cp b) (doc_content d) (map fst (doc_symrows d))) as [[cp runeSecs]|e|w]; try discriminate.
  cbn [obind] in H.
  destruct (new_searchable_string (b_np b) (di_name d) []) as [[np x]|e|w]; try discriminate.
  cbn [obind] in H.
  destruct (add_symbols (map snd (doc_symrows d)) (b_symtab b) (b_kindtab b) (b_symMeta b)) as [[st kt] sm].
  destruct (branch_mask branches (di_branches d)) as [mask|] eqn:Em; [|discriminate].
  inversion H; subst b'. cbn. repeat split; try reflexivity. exists mask. split; reflexivity.
Qed.

Lemma add_docs_inv : forall branches repoIdx ds b, nlen branches <= 64 -> repoIdx < W16 -> Forall doc_ok ds ->
  binv b -> binv (fst (add_docs branches repoIdx b ds)).
Proof.
  intros branches repoIdx. induction ds as [|d r IH]; intros b Hbr Hri Hds Hb; cbn [add_docs fst]; [exact Hb|].
  inversion Hds as [|? ? Hd Hr]; subst.
  destruct (add_doc branches repoIdx b d) as [b'|e|w] eqn:E.
  - specialize (IH b' Hbr Hri Hr (add_doc_inv _ _ _ _ _ Hbr Hri Hd Hb E)).
    destruct (add_docs branches repoIdx b' r). exact IH.
  - specialize (IH b Hbr Hri Hr Hb). destruct (add_docs branches repoIdx b r). exact IH.
  - specialize (IH b Hbr Hri Hr Hb). destruct (add_docs branches repoIdx b r). exact IH.
Qed.

Definition repo_ok (r : list (list N) * list doc_in) : Prop := nlen (fst r) <= 64 /\ Forall doc_ok (snd r).

Lemma add_repos_inv : forall repos idx b, idx + nlen repos <= W16 -> Forall repo_ok repos -> binv b ->
  binv (add_repos repos idx b).
Proof.
  induction repos as [|[brs ds] r IH]; intros idx b Hidx Hok Hb; cbn [add_repos]; [exact Hb|].
  assert (Hn : nlen ((brs, ds) :: r) = 1 + nlen r) by (unfold nlen; cbn [length]; lia).
  inversion Hok as [|? ? (Hbr & Hds) Hr]; subst. cbn [fst snd] in *.
  apply IH; [lia|exact Hr|]. apply add_docs_inv; [exact Hbr|lia|exact Hds|exact Hb].
Qed.

(* ------------------------------------------------------------------ binv + |file| < 2^32 give wf_b *)

Lemma sec_in_file : forall secs k t bd, nth_error secs k = Some (t, bd) ->
  match bd with SimpleB d => nlen d | CompoundB items => nlen (concat items) + 4 * nlen items end <= nlen (write_file secs).
Proof.
  intros secs k t bd H. destruct (layout_nth secs 0 k t bd H) as (pre' & post' & E1 & _).
  destruct (write_file_split secs) as (toc & Ew). rewrite Ew, E1, !nlen_app, body_bytes_len. lia.
Qed.

Lemma file_bounds : forall next b o,
  nlen (concat (b_contents b)) <= nlen (write_shard next b o)
  /\ nlen (concat (b_names b)) <= nlen (write_shard next b o)
  /\ nlen (marshal_doc_sections (b_runeDocSections b)) <= nlen (write_shard next b o).
Proof.
  intros next b o. unfold write_shard.
  pose proof (sec_in_file (shard_sections next b o) 0 _ _ eq_refl) as S0.
  pose proof (sec_in_file (shard_sections next b o) 12 _ _ eq_refl) as S12.
  pose proof (sec_in_file (shard_sections next b o) 21 _ _ eq_refl) as S21.
  cbv beta iota in S0, S12, S21.
  generalize dependent (nlen (write_file (shard_sections next b o))). intros n S0 S12 S21. lia.
Qed.

Theorem binv_wf : forall next b o, binv b -> nlen (write_shard next b o) < W32 -> wf_b next b.
Proof.
  intros next b o [Hn Hm Hd (Ec1 & Ec2 & Ec3 & Ec4) (En1 & En2 & En3 & En4) Hrds Hfes Hm64 Hs Hr Hds] Hlt.
  destruct (file_bounds next b o) as (S0 & S12 & S21).
  generalize dependent (nlen (write_shard next b o)). intros n Hlt S0 S12 S21.
  assert (Hc32 : ps_endByte (b_cp b) < W32) by lia.
  assert (Hn32 : ps_endByte (b_np b) < W32) by lia.
  assert (Hrdslen : nlen (b_runeDocSections b) < W32).
  { pose proof (sized_len_ge W32 (flatten_secs (b_runeDocSections b))) as Hge. fold to_sized_deltas in Hge.
    fold (marshal_doc_sections (b_runeDocSections b)) in Hge. unfold nlen in Hge at 1. rewrite flatten_secs_len in Hge.
    unfold nlen in *. lia. }
  constructor; try assumption; unfold lt32.
  - eapply Forall_impl; [|exact Hfes]. intros x Hx. simpl in Hx. lia.
  - eapply Forall_impl; [|exact Hrds]. intros s (Ha & Hb). split; lia.
  - eapply Forall_impl; [|exact Ec3]. intros x Hx. simpl in Hx. lia.
  - eapply Forall_impl; [|exact En3]. intros x Hx. simpl in Hx. lia.
  - eapply Forall_impl; [|exact Ec4]. intros x Hx. simpl in Hx. lia.
  - eapply Forall_impl; [|exact En4]. intros x Hx. simpl in Hx. lia.
  - intros _. exact Hr.
Qed.

(** Documents -> Add -> Write -> NewSearcher -> accessors: for every list of repositories (<= 64 branches each,
    at most 2^16 repositories) and documents (sub-repository index and symbol offsets in uint32 range), all opaque
    blobs, both format versions, |file| < 2^32: the written shard loads and shows exactly the builder state that
    ShardBuilder.Add produced (documents whose Add fails are dropped, as in the Go code's callers). *)
Theorem read_write_docs : forall next repos o,
  nlen repos <= W16 -> Forall repo_ok repos -> nlen (write_shard next (add_repos repos 0 b_empty) o) < W32 ->
  exists d, load_shard (mem_file (write_shard next (add_repos repos 0 b_empty) o)) next = Ok d
            /\ shard_view_ok next (add_repos repos 0 b_empty) o (write_shard next (add_repos repos 0 b_empty) o) d.
Proof.
  intros next repos o Hn Hok.
  assert (Hb : binv (add_repos repos 0 b_empty)) by (apply add_repos_inv; [lia|exact Hok|exact binv_empty]).
  generalize dependent (add_repos repos 0 b_empty). intros b Hb Hlt.
  apply read_write_sections; [exact Hlt|exact (binv_wf next b o Hb Hlt)|destruct Hb; assumption].
Qed.
