(** Proofs about Model/TenantListByName.v (C23): filtering List entries by found names is tenant-safe exactly as long
    as repository names do not clash across the access boundary. *)
From ZV Require Import Lib.Base Model.Tenant Model.TenantListByName Proofs.Tenant.

(** no repository the caller may not see has the name of one it may see *)
Definition names_respect_access (strict : bool) (c : tctx) (s : shard) : Prop :=
  forall rd1 rd2, In rd1 s -> In rd2 s -> r_name (fst rd1) = r_name (fst rd2) ->
    has_access strict c (r_tenant (fst rd1)) = has_access strict c (r_tenant (fst rd2)).

Lemma memN_In' : forall k l, memN k l = true -> In k l.
Proof.
  intros k l H. unfold memN in H. apply existsb_exists in H. destruct H as (x & Hx & E).
  apply N.eqb_eq in E. now subst.
Qed.

Lemma list_entries_by_name_eq : forall strict c s lsimp scan m,
  names_respect_access strict c s ->
  list_entries_by_name strict c s lsimp (list_include strict c s lsimp scan m) =
  list_entries strict c s (list_include strict c s lsimp scan m).
Proof.
  intros strict c s lsimp scan m Hn. unfold list_entries_by_name, list_entries.
  apply filter_ext_in'. intros rd Hrd. destruct lsimp as [b|]; [reflexivity|].
  cbn [list_include].
  destruct (memN (r_name (fst rd)) (map fm_repo (sr_files (search strict c s scan true m)))) eqn:E;
    [|now rewrite !andb_false_r].
  apply memN_In' in E. apply in_map_iff in E. destruct E as (f & Ef & Hf).
  destruct (search_no_leak strict c s scan true m) as (Hfiles & _ & _).
  destruct (Hfiles f Hf) as (r & ds & d & Hin & Hal & _ & _ & _ & _ & Emk).
  assert (Hname : r_name (fst (r, ds)) = r_name (fst rd)) by (cbn; rewrite <- Ef, Emk; reflexivity).
  rewrite <- (Hn (r, ds) rd Hin Hrd Hname). cbn [fst]. unfold allowed in Hal. rewrite Hal. reflexivity.
Qed.

Lemma rlist_by_name_eq : forall strict c s lsimp scan m field,
  names_respect_access strict c s ->
  rlist_by_name strict c s lsimp scan m field = rlist strict c s lsimp scan m field.
Proof.
  intros strict c s lsimp scan m field Hn. unfold rlist_by_name, rlist.
  rewrite (list_entries_by_name_eq strict c s lsimp scan m Hn). reflexivity.
Qed.

(** two tenants, one compound shard, both own a repository named 1 (ids 1 and 2): a non-constant List by
    tenant 1 that matches its own document returns the id of tenant 2's repository as well *)
Definition dup_shard : shard :=
  [ ({| r_name := 1; r_id := 1; r_tenant := 1; r_tomb := false; r_url := 11; r_frag := 21; r_subs := [] |},
     [ {| d_file := 100; d_ftomb := false; d_sub := 0 |} ]);
    ({| r_name := 1; r_id := 2; r_tenant := 2; r_tomb := false; r_url := 12; r_frag := 22; r_subs := [] |},
     [ {| d_file := 200; d_ftomb := false; d_sub := 0 |} ]) ].

Lemma rlist_by_name_leaks :
  lr_map (rlist_by_name true (CtxTenant 1) dup_shard None true (fun _ _ => true) FReposMap) = [1; 2]%N /\
  lr_map (rlist true (CtxTenant 1) dup_shard None true (fun _ _ => true) FReposMap) = [1]%N /\
  (* the constant path of the variant is safe *)
  lr_map (rlist_by_name true (CtxTenant 1) dup_shard (Some true) true (fun _ _ => true) FReposMap) = [1]%N /\
  ~ names_respect_access true (CtxTenant 1) dup_shard.
Proof.
  split; [vm_compute; reflexivity|]. split; [vm_compute; reflexivity|]. split; [vm_compute; reflexivity|].
  intro H. unfold names_respect_access, dup_shard in H.
  match type of H with
  | forall rd1 rd2, In rd1 [?a; ?b] -> _ => specialize (H a b (or_introl eq_refl) (or_intror (or_introl eq_refl)) eq_refl)
  end.
  vm_compute in H. discriminate H.
Qed.
