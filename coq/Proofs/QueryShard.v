(** Meaning preservation of indexData.simplify / simplifyMultiRepo (index/eval.go) on the documents
    Search evaluates: those of repositories of the shard that are not tombstoned. *)
From ZV Require Import Lib.Base Model.Query Proofs.QueryInd Proofs.QuerySimplify.

Lemma filter_length_le' {A} (p : A -> bool) (l : list A) : length (filter p l) <= length l.
Proof. induction l as [|x l IH]; simpl; [lia|]. destruct (p x); simpl; lia. Qed.

Lemma filter_length_all {A} (p : A -> bool) (l : list A) :
  length (filter p l) = length l -> forall x, In x l -> p x = true.
Proof.
  induction l as [|y l IH]; simpl; intros H x Hin; [contradiction|].
  destruct (p y) eqn:Ey; simpl in H.
  - destruct Hin as [->|Hin]; [exact Ey|]. apply IH; [lia|exact Hin].
  - pose proof (filter_length_le' p l). lia.
Qed.

Lemma filter_length_none {A} (p : A -> bool) (l : list A) :
  length (filter p l) = 0 -> forall x, In x l -> p x = false.
Proof.
  induction l as [|y l IH]; simpl; intros H x Hin; [contradiction|].
  destruct (p y) eqn:Ey; simpl in H; [discriminate|].
  destruct Hin as [->|Hin]; [exact Ey|]. now apply IH.
Qed.

Lemma existsb_false_In {A} (f : A -> bool) (l : list A) x : existsb f l = false -> In x l -> f x = false.
Proof.
  induction l as [|y l IH]; simpl; intros H Hin; [contradiction|].
  apply orb_false_elim in H. destruct H as [H1 H2]. destruct Hin as [->|Hin]; [exact H1|now apply IH].
Qed.

Lemma existsb_ext' {A} (f g : A -> bool) (l : list A) : (forall x, f x = g x) -> existsb f l = existsb g l.
Proof. intros H. induction l as [|x l IH]; simpl; [reflexivity|]. now rewrite H, IH. Qed.

Section ShardPreserve.
  Variable re_match : str -> str -> bool.
  Variable D : Type.
  Variable base : atoms D.
  Variable sh : shard.
  Variable repo_of : D -> nat.
  Variable d : D.
  Notation E := (shard_atoms re_match base sh repo_of).

  Lemma shard_atoms_ok : atoms_ok base -> atoms_ok E.
  Proof.
    intros [H1 H2 H3]. constructor; simpl; assumption.
  Qed.

  Variable r : repo.
  Hypothesis Hr : nth_error (sh_repos sh) (repo_of d) = Some r.
  Hypothesis Hlive : r_tomb r = false.

  Lemma r_in_alive : In r (filter (fun x => negb (r_tomb x)) (sh_repos sh)).
  Proof. apply filter_In. split; [eapply nth_error_In; exact Hr|now rewrite Hlive]. Qed.

  Lemma simplifyMultiRepo_preserves (q : Q) (pred : repo -> bool) :
    eval E q d = pred r -> eval E (simplifyMultiRepo sh q pred) d = eval E q d.
  Proof.
    intros Hq. unfold simplifyMultiRepo.
    set (alive := filter (fun x => negb (r_tomb x)) (sh_repos sh)).
    pose proof r_in_alive as Hin. fold alive in Hin.
    destruct (Nat.eqb (length (filter pred alive)) (length alive)) eqn:E1.
    - apply Nat.eqb_eq in E1. simpl. rewrite Hq. symmetry. now apply (filter_length_all pred alive E1).
    - destruct (Nat.ltb 0 (length (filter pred alive))) eqn:E2; [reflexivity|].
      apply Nat.ltb_ge in E2. simpl. rewrite Hq. symmetry.
      apply (filter_length_none pred alive); [lia|exact Hin].
  Qed.

  Lemma shard_simplify_atom_preserves :
    langs_closed base sh d -> forall q, eval E (shard_simplify_atom re_match sh q) d = eval E q d.
  Proof.
    intros Hlang q. destruct q; simpl; try reflexivity.
    - (* Language *)
      destruct (mem_str l (sh_langs sh)) eqn:El; [reflexivity|]. simpl.
      destruct (a_lang base l d) eqn:Ea; [|reflexivity].
      apply Hlang in Ea. congruence.
    - (* Repo *)
      apply simplifyMultiRepo_preserves. simpl. unfold on_repo. now rewrite Hr.
    - (* RepoRegexp *)
      apply simplifyMultiRepo_preserves. simpl. unfold on_repo. now rewrite Hr.
    - (* BranchesRepos *)
      destruct (existsb (fun r0 => existsb (fun br => mem_N (r_id r0) (snd br)) l) (sh_repos sh)) eqn:Ex; [reflexivity|].
      simpl. symmetry.
      assert (Hl : existsb (fun br => mem_N (r_id r) (snd br)) l = false).
      { apply (existsb_false_In _ (sh_repos sh) r Ex). eapply nth_error_In; exact Hr. }
      clear Ex. induction l as [|[b ids] l' IH]; simpl in *; [reflexivity|].
      apply orb_false_elim in Hl. destruct Hl as [Hl1 Hl2].
      rewrite (IH Hl2), orb_false_r.
      replace (existsb (fun id => on_repo sh repo_of (fun r0 => N.eqb id (r_id r0)) d) ids) with (mem_N (r_id r) ids);
        [now rewrite Hl1, andb_false_r|].
      unfold mem_N, on_repo. rewrite Hr. apply existsb_ext'. intros x. apply N.eqb_sym.
    - (* RepoIDs *)
      apply simplifyMultiRepo_preserves. simpl. unfold mem_N, on_repo. rewrite Hr.
      apply existsb_ext'. intros x. apply N.eqb_sym.
    - (* RepoSet *)
      apply simplifyMultiRepo_preserves. simpl. unfold set_lookup, on_repo. now rewrite Hr.
    - (* Meta *)
      apply simplifyMultiRepo_preserves. simpl. unfold on_repo. now rewrite Hr.
    - (* RawConfig *)
      apply simplifyMultiRepo_preserves. simpl. now rewrite Hr.
  Qed.

  Theorem shard_simplify_preserves_r :
    atoms_ok base -> langs_closed base sh d ->
    forall q, eval E (shard_simplify re_match sh q) d = eval E q d.
  Proof.
    intros Hok Hlang q. unfold shard_simplify.
    rewrite Simplify_preserves by (now apply shard_atoms_ok).
    apply qmap_preserves. now apply shard_simplify_atom_preserves.
  Qed.
End ShardPreserve.

Theorem shard_simplify_preserves :
  forall (re_match : str -> str -> bool) (D : Type) (base : atoms D) (sh : shard) (repo_of : D -> nat) (q : Q) (d : D),
    atoms_ok base -> langs_closed base sh d -> live sh repo_of d ->
    eval (shard_atoms re_match base sh repo_of) (shard_simplify re_match sh q) d
    = eval (shard_atoms re_match base sh repo_of) q d.
Proof.
  intros re_match D base sh repo_of q d Hok Hlang [r [Hr Ht]].
  now apply (shard_simplify_preserves_r re_match D base sh repo_of d r Hr Ht).
Qed.
