(** C35 — basic facts: filesystem updates vs. visibility, a small Hoare logic over the driver monad in
    which EVERY intermediate state (crash point) must satisfy [no_dup]. *)
From ZV Require Import Lib.Base Model.MergeDriver.
From Coq Require Import Permutation.

(** ---- updates *)
Lemma upd_same : forall s p v, upd s p v p = v.
Proof. intros. unfold upd. destruct (path_eq_dec p p); congruence. Qed.
Lemma upd_other : forall s p v q, q <> p -> upd s p v q = s q.
Proof. intros. unfold upd. destruct (path_eq_dec q p); congruence. Qed.

Definition invisible (p : path) : Prop :=
  match p with PTmp _ | PTemp _ => True | _ => False end.

Lemma eff_upd_invisible : forall s p v z, invisible p -> eff (upd s p v) z = eff s z.
Proof.
  intros s p v z Hp. unfold eff.
  rewrite !upd_other; auto; intro E; subst p; exact Hp.
Qed.
Lemma vis_upd_invisible : forall s p v z, invisible p -> vis (upd s p v) z = vis s z.
Proof. intros. unfold vis. rewrite eff_upd_invisible; auto. Qed.

Lemma eff_upd_other_z : forall s p v z,
  p <> PZ z -> p <> PMeta z -> eff (upd s p v) z = eff s z.
Proof. intros. unfold eff. rewrite !upd_other; auto. Qed.

Lemma eff_none_of_shard_none : forall s z, s (PZ z) = None -> eff s z = None.
Proof. intros s z H. unfold eff. rewrite H. reflexivity. Qed.
Lemma vis_nil_of_shard_none : forall s z, s (PZ z) = None -> vis s z = [].
Proof. intros. unfold vis. rewrite eff_none_of_shard_none; auto. Qed.

(** ---- step inversion *)
Lemma step_remove : forall s p c s', step s (ORemove p) c = Some s' -> s' = upd s p None /\ is_file s p = true.
Proof. simpl; intros s p c s' H. destruct (is_file s p); inversion H; auto. Qed.
Lemma step_rename : forall s p q c s', step s (ORename p q) c = Some s' ->
  s' = upd (upd s q (s p)) p None /\ exists x, s p = Some (File x).
Proof.
  simpl; intros s p q c s' H. unfold is_file in H.
  destruct (s p) as [[x|]|] eqn:E; try discriminate.
  destruct (s q) as [[y|]|]; inversion H; eauto.
Qed.

(** ---- visibility only shrinks *)
Definition Sub (s0 s : fs) : Prop := forall z, incl (vis s z) (vis s0 z).
Lemma sub_no_dup : forall s0 s, no_dup s0 -> Sub s0 s -> no_dup s.
Proof. intros s0 s H0 HS z1 z2 r H1 H2. apply (H0 z1 z2 r); apply HS; assumption. Qed.

(** per shard name: untouched, or the shard is gone and its sidecar untouched or gone *)
Definition Shrunk (s0 s : fs) : Prop :=
  forall z, (s (PZ z) = s0 (PZ z) /\ s (PMeta z) = s0 (PMeta z)) \/
            (s (PZ z) = None /\ (s (PMeta z) = s0 (PMeta z) \/ s (PMeta z) = None)).
Lemma shrunk_refl : forall s, Shrunk s s.
Proof. intros s z. left; auto. Qed.
Lemma shrunk_sub : forall s0 s, Shrunk s0 s -> Sub s0 s.
Proof.
  intros s0 s H z r Hr. destruct (H z) as [[H1 H2]|[H1 _]].
  - unfold vis, eff in *. rewrite H1, H2 in Hr. exact Hr.
  - rewrite vis_nil_of_shard_none in Hr by assumption. destruct Hr.
Qed.
Lemma shrunk_upd_invisible : forall s0 s p v, invisible p -> Shrunk s0 s -> Shrunk s0 (upd s p v).
Proof.
  intros s0 s p v Hp H z. rewrite !upd_other; [apply H| |]; intro E; subst p; exact Hp.
Qed.
Lemma shrunk_remove_shard : forall s0 s z, Shrunk s0 s -> Shrunk s0 (upd s (PZ z) None).
Proof.
  intros s0 s z H z'. destruct (zname_eq_dec z' z) as [->|Hn].
  - right. rewrite upd_same. split; auto. rewrite upd_other by discriminate.
    destruct (H z) as [[_ H2]|[_ H2]]; auto.
  - rewrite !upd_other; [apply H| |]; congruence.
Qed.
Lemma shrunk_remove_meta : forall s0 s z, s (PZ z) = None -> Shrunk s0 s -> Shrunk s0 (upd s (PMeta z) None).
Proof.
  intros s0 s z Hz H z'. destruct (zname_eq_dec z' z) as [->|Hn].
  - right. rewrite upd_same, upd_other by discriminate. auto.
  - rewrite !upd_other; [apply H| |]; congruence.
Qed.
Lemma shrunk_meta : forall s0 s z, Shrunk s0 s -> s0 (PMeta z) = None -> s (PMeta z) = None.
Proof. intros s0 s z H H0. destruct (H z) as [[_ H2]|[_ [H2|H2]]]; congruence. Qed.

(** ---- Hoare logic.  [AllSafe w]: the current state and every logged state (= every crash point so far) is no_dup *)
Definition AllSafe (w : world) : Prop :=
  no_dup (w_fs w) /\ Forall (fun e => no_dup (snd e)) (w_log w).

Definition hoare {A} (P : fs -> Prop) (m : M A) (Q : A -> fs -> Prop) : Prop :=
  forall w, P (w_fs w) -> AllSafe w -> forall a w', m w = (a, w') -> Q a (w_fs w') /\ AllSafe w'.

Lemma hoare_ret : forall A (a : A) (P : fs -> Prop) (Q : A -> fs -> Prop),
  (forall s, P s -> Q a s) -> hoare P (ret a) Q.
Proof. intros A a P Q H w HP HS a' w' E. inversion E; subst. auto. Qed.

Lemma hoare_bind : forall A B (m : M A) (f : A -> M B) P R Q,
  hoare P m R -> (forall a, hoare (R a) (f a) Q) -> hoare P (bind m f) Q.
Proof.
  intros A B m f P R Q Hm Hf w HP HS b w' E. unfold bind in E.
  destruct (m w) as [a w1] eqn:E1. destruct (Hm w HP HS a w1 E1) as [HR HS1].
  exact (Hf a w1 HR HS1 b w' E).
Qed.

Lemma hoare_conseq : forall A (m : M A) (P P' : fs -> Prop) (Q Q' : A -> fs -> Prop),
  hoare P' m Q' -> (forall s, P s -> P' s) -> (forall a s, Q' a s -> Q a s) -> hoare P m Q.
Proof. intros A m P P' Q Q' H HP HQ w Hw HS a w' E. destruct (H w (HP _ Hw) HS a w' E). auto. Qed.

Lemma hoare_get : forall (P : fs -> Prop), hoare P get_fs (fun x s => x = s /\ P s).
Proof. intros P w HP HS a w' E. inversion E; subst. auto. Qed.

Lemma hoare_exec : forall plan o c (P : fs -> Prop) (Q : bool -> fs -> Prop),
  (forall s s', P s -> step s o c = Some s' -> no_dup s' /\ Q true s') ->
  (forall s, P s -> Q false s) ->
  hoare P (exec plan o c) Q.
Proof.
  intros plan o c P Q Hok Hfail w HP [HS1 HS2] a w' E. unfold exec in E.
  destruct (plan o (occ o (w_log w))).
  - inversion E; subst; simpl. split; [auto|]. split; simpl; auto.
  - destruct (step (w_fs w) o c) as [s'|] eqn:Es; inversion E; subst; simpl.
    + destruct (Hok _ _ HP Es) as [Hn HQ]. split; auto. split; simpl; auto.
    + split; auto. split; simpl; auto.
Qed.

(** os.Remove with IsNotExist ignored: three outcomes — removed, failed (injected / directory), nothing there *)
Lemma hoare_exec_stale : forall plan p (P : fs -> Prop) (Q : bool -> fs -> Prop),
  (forall s s', P s -> step s (ORemove p) CGarbage = Some s' -> no_dup s' /\ Q true s') ->
  (forall s, P s -> Q false s) ->
  (forall s, P s -> s p = None -> Q true s) ->
  hoare P (exec_remove_stale plan p) Q.
Proof.
  intros plan p P Q Hok Hfail Hmiss w HP [HS1 HS2] a w' E. unfold exec_remove_stale in E.
  destruct (plan (ORemove p) (occ (ORemove p) (w_log w))).
  - inversion E; subst; simpl. split; [auto|]. split; simpl; auto.
  - destruct (step (w_fs w) (ORemove p) CGarbage) as [s'|] eqn:Es.
    + inversion E; subst; simpl. destruct (Hok _ _ HP Es) as [Hn HQ]. split; auto. split; simpl; auto.
    + destruct (w_fs w p) as [n|] eqn:Ep; inversion E; subst; simpl.
      * split; auto. split; simpl; auto.
      * split; auto. split; simpl; auto.
Qed.

(** a frequent shape: [if negb ok then ret x else k] *)
Lemma hoare_if_negb : forall A (ok : bool) (m1 m2 : M A) (P : fs -> Prop) Q,
  (ok = false -> hoare P m1 Q) -> (ok = true -> hoare P m2 Q) ->
  hoare P (if negb ok then m1 else m2) Q.
Proof. intros. destruct ok; simpl; auto. Qed.

(** from a triple on the initial world: all crash states are no_dup *)
Lemma hoare_run : forall A (m : M A) (P : fs -> Prop) Q s a w,
  hoare P m Q -> P s -> no_dup s -> m (init_world s) = (a, w) ->
  Q a (w_fs w) /\ Forall no_dup (crash_states w).
Proof.
  intros A m P Q s a w H HP Hn E.
  destruct (H (init_world s) HP (conj Hn (Forall_nil _)) a w E) as [HQ [H1 H2]].
  split; auto. unfold crash_states. constructor; auto.
  rewrite Forall_map. exact H2.
Qed.
