(** C01, layer 3: the document loop of indexData.Search, pruning, query construction, simplification, and the
    top-level theorem. *)
From ZV Require Import Lib.Base Model.SearchCore Proofs.SearchCoreText Proofs.SearchCoreTree.
From Coq Require Import Sorting.Sorted ZifyBool.

Lemma filter_all_false : forall (A : Type) (f : A -> bool) l, (forall x, In x l -> f x = false) -> filter f l = [].
Proof. induction l as [|x l IH]; simpl; intro H; [reflexivity|]. rewrite H by auto. apply IH. auto. Qed.
Lemma seq_split3 : forall s m k, s <= k -> k < s + m -> seq s m = seq s (k - s) ++ k :: seq (S k) (s + m - S k).
Proof.
  intros s m k H1 H2. replace m with ((k - s) + S (s + m - S k)) at 1 by lia. rewrite seq_app. f_equal.
  replace (s + (k - s)) with k by lia. reflexivity.
Qed.

Section Loop.
Variable re_match : N -> list N -> bool.
Variable tolower : N -> N.
Variable orbit : N -> list N.
Variable c : corpus.
Hypothesis Hagree : agree tolower orbit.
Notation n := (ndocs c).
Notation sem := (sem re_match tolower c).
Notation tvalid := (tvalid tolower orbit c).

Lemma lt_last_ge : forall last k, cursor_next last <= k -> lt_last last k.
Proof. intros [j|] k H; simpl in *; lia. Qed.

(** loop invariant: everything the loop still has to decide lies behind [last]; the skipping by nextDoc and by the
    tombstone scan loses no live matching document *)
Theorem loop_exact : forall fuel t last,
  tvalid last t -> cursor_next last <= n -> n - cursor_next last < fuel ->
  loop re_match tolower c fuel t last =
  filter (fun k => live_at c k && sem k t) (seq (cursor_next last) (n - cursor_next last)).
Proof.
  induction fuel as [|f IH]; intros t last Hv Hs0 Hfuel; [lia|].
  set (s0 := cursor_next last) in *.
  simpl loop. fold s0.
  set (nd1 := Nat.max (nextDoc c t) s0).
  set (nd := first_from (live_at c) nd1 n).
  assert (Hskip : forall k, s0 <= k -> k < nd -> k < n -> live_at c k && sem k t = false).
  { intros k Hk1 Hk2 Hk3. destruct (le_lt_dec nd1 k) as [Hge|Hlt].
    - assert (nd1 <= n) by lia. destruct (first_from_spec (live_at c) nd1 n H) as [_ [_ Hf]]. fold nd in Hf.
      rewrite (Hf k ltac:(lia)). reflexivity.
    - assert (k < nextDoc c t) by (unfold nd1 in Hlt; lia).
      destruct (sem k t) eqn:Es; [|apply andb_false_r].
      pose proof (nextDoc_lower_bound re_match tolower orbit c Hagree last k t (lt_last_ge last k Hk1) Hk3 Hv Es). lia. }
  destruct (n <=? nd) eqn:End.
  - symmetry. apply filter_all_false. intros k Hk. apply in_seq in Hk. apply Hskip; lia.
  - assert (Hnd : nd < n) by lia.
    assert (Hnd1 : nd1 <= n).
    { destruct (le_lt_dec nd1 n); [auto|]. unfold nd, first_from in Hnd. replace (n - nd1) with 0 in Hnd by lia. simpl in Hnd. lia. }
    destruct (first_from_spec (live_at c) nd1 n Hnd1) as [Hr1 [Hr2 _]]. fold nd in Hr1, Hr2.
    assert (Hs0nd : s0 <= nd) by (unfold nd1 in Hr1; lia).
    pose proof (lt_last_ge last nd Hs0nd) as Hll.
    destruct (prepare_run re_match tolower orbit c Hagree last nd t Hll Hnd Hv) as [Hv' _].
    destruct (accept_sem re_match tolower orbit c Hagree last nd t Hll Hnd Hv) as [Hacc _].
    rewrite Hacc.
    rewrite (seq_split3 s0 (n - s0) nd Hs0nd ltac:(lia)). rewrite filter_app.
    rewrite (filter_all_false _ _ (seq s0 (nd - s0))) by (intros k Hk; apply in_seq in Hk; apply Hskip; lia).
    simpl app. simpl filter. rewrite (Hr2 Hnd). simpl andb.
    specialize (IH (prepare c nd t) (Some nd) Hv' ltac:(simpl; lia) ltac:(simpl; lia)). simpl cursor_next in IH.
    replace (s0 + (n - s0) - S nd) with (n - S nd) by lia.
    assert (Hext : filter (fun k => live_at c k && sem k (prepare c nd t)) (seq (S nd) (n - S nd)) =
                   filter (fun k => live_at c k && sem k t) (seq (S nd) (n - S nd))).
    { apply filter_ext. intro k. rewrite sem_prepare. reflexivity. }
    rewrite Hext in IH. destruct (sem nd t); rewrite IH; reflexivity.
Qed.
End Loop.
