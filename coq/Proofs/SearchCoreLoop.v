(** C01, layer 3: the document loop of indexData.Search, pruning, query construction, simplification, and the
    top-level theorem. *)
From ZV Require Import Lib.Base Model.SearchCore Proofs.SearchCoreText Proofs.SearchCoreTree.
From Coq Require Import Sorting.Sorted ZifyBool.

Lemma filter_all_false : forall (A : Type) (f : A -> bool) l, (forall x, In x l -> f x = false) -> filter f l = [].
Proof. induction l as [|x l IH]; simpl; intro H; [reflexivity|]. rewrite H by auto. apply IH. auto. Qed.
Lemma seq_split3 : forall s m k, s <= k -> k < s + m -> seq s m = seq s (k - s) ++ k :: seq (S k) (s + m - S k).
Proof.
  intros s m k H1 H2. replace m with ((k - s) + S (s + m - S k)) at 1 by lia. rewrite seq_app. f_equal.
  replace (s + (k - s)) with k by lia. reflexivity.
Qed.

Lemma forallb_of_map : forall (A : Type) (f : A -> bool) l1 l2, map f l1 = map f l2 -> forallb f l1 = forallb f l2.
Proof.
  intros A f l1 l2 H. assert (E : forall l, forallb f l = forallb (fun b : bool => b) (map f l)) by (induction l; simpl; congruence).
  rewrite (E l1), (E l2), H. reflexivity.
Qed.
Section Loop.
Variable re_match : N -> list N -> bool.
Variable tolower : N -> N.
Variable orbit : N -> list N.
Variable c : corpus.
Hypothesis Hagree : agree tolower orbit.
Notation n := (ndocs c).
Notation sem := (sem re_match tolower c).
Notation tvalid := (tvalid tolower orbit c).

Lemma lt_last_ge : forall last k, cursor_next last <= k -> lt_last last k.
Proof. intros [j|] k H; simpl in *; lia. Qed.

(** loop invariant: everything the loop still has to decide lies behind [last]; the skipping by nextDoc and by the
    tombstone scan loses no live matching document *)
Theorem loop_exact : forall fuel t last,
  tvalid last t -> cursor_next last <= n -> n - cursor_next last < fuel ->
  loop re_match tolower c fuel t last =
  filter (fun k => live_at c k && sem k t) (seq (cursor_next last) (n - cursor_next last)).
Proof.
  induction fuel as [|f IH]; intros t last Hv Hs0 Hfuel; [lia|].
  set (s0 := cursor_next last) in *.
  simpl loop. fold s0.
  set (nd1 := Nat.max (nextDoc c t) s0).
  set (nd := first_from (live_at c) nd1 n).
  assert (Hskip : forall k, s0 <= k -> k < nd -> k < n -> live_at c k && sem k t = false).
  { intros k Hk1 Hk2 Hk3. destruct (le_lt_dec nd1 k) as [Hge|Hlt].
    - assert (nd1 <= n) by lia. destruct (first_from_spec (live_at c) nd1 n H) as [_ [_ Hf]]. fold nd in Hf.
      rewrite (Hf k ltac:(lia)). reflexivity.
    - assert (k < nextDoc c t) by (unfold nd1 in Hlt; lia).
      destruct (sem k t) eqn:Es; [|apply andb_false_r].
      pose proof (nextDoc_lower_bound re_match tolower orbit c Hagree last k t (lt_last_ge last k Hk1) Hk3 Hv Es). lia. }
  destruct (n <=? nd) eqn:End.
  - symmetry. apply filter_all_false. intros k Hk. apply in_seq in Hk. apply Hskip; lia.
  - assert (Hnd : nd < n) by lia.
    assert (Hnd1 : nd1 <= n).
    { destruct (le_lt_dec nd1 n); [auto|]. unfold nd, first_from in Hnd. replace (n - nd1) with 0 in Hnd by lia. simpl in Hnd. lia. }
    destruct (first_from_spec (live_at c) nd1 n Hnd1) as [Hr1 [Hr2 _]]. fold nd in Hr1, Hr2.
    assert (Hs0nd : s0 <= nd) by (unfold nd1 in Hr1; lia).
    pose proof (lt_last_ge last nd Hs0nd) as Hll.
    destruct (prepare_run re_match tolower orbit c Hagree last nd t Hll Hnd Hv) as [Hv' _].
    destruct (accept_sem re_match tolower orbit c Hagree last nd t Hll Hnd Hv) as [Hacc _].
    rewrite Hacc.
    rewrite (seq_split3 s0 (n - s0) nd Hs0nd ltac:(lia)). rewrite filter_app.
    rewrite (filter_all_false _ _ (seq s0 (nd - s0))) by (intros k Hk; apply in_seq in Hk; apply Hskip; lia).
    simpl app. simpl filter. rewrite (Hr2 Hnd). simpl andb.
    specialize (IH (prepare c nd t) (Some nd) Hv' ltac:(simpl; lia) ltac:(simpl; lia)). simpl cursor_next in IH.
    replace (s0 + (n - s0) - S nd) with (n - S nd) by lia.
    assert (Hext : filter (fun k => live_at c k && sem k (prepare c nd t)) (seq (S nd) (n - S nd)) =
                   filter (fun k => live_at c k && sem k t) (seq (S nd) (n - S nd))).
    { apply filter_ext. intro k. rewrite sem_prepare. reflexivity. }
    rewrite Hext in IH. destruct (sem nd t); rewrite IH; reflexivity.
Qed.

(* ------------------------------------------------------------------ pruning *)
(** children of a same-line conjunction produced by regexpToMatchTreeRecursive are substring / scan leaves or nested
    same-line conjunctions; pruning keeps that shape and never turns a child into a content substring leaf *)
Fixpoint line_shape (t : mt) : Prop :=
  match t with
  | MTsubstr _ => True
  | MTscan _ _ => True
  | MTandLine cs => (fix all (l : list mt) : Prop := match l with [] => True | x :: r => line_shape x /\ all r end) cs
  | _ => False
  end.
Fixpoint shape_ok (t : mt) : Prop :=
  match t with
  | MTandLine cs => (fix all (l : list mt) : Prop := match l with [] => True | x :: r => line_shape x /\ all r end) cs
  | MTand cs => (fix all (l : list mt) : Prop := match l with [] => True | x :: r => shape_ok x /\ all r end) cs
  | MTor cs => (fix all (l : list mt) : Prop := match l with [] => True | x :: r => shape_ok x /\ all r end) cs
  | MTnot c' => shape_ok c'
  | MTwrap c' => shape_ok c'
  | _ => True
  end.
Lemma line_shape_list : forall cs,
  (fix all (l : list mt) : Prop := match l with [] => True | x :: r => line_shape x /\ all r end) cs <-> Forall line_shape cs.
Proof.
  induction cs as [|x cs IH]; split; intro H; try constructor; try exact I.
  - tauto. - apply IH; tauto. - inversion H; auto. - apply IH. inversion H; auto.
Qed.
Lemma shape_ok_list : forall cs,
  (fix all (l : list mt) : Prop := match l with [] => True | x :: r => shape_ok x /\ all r end) cs <-> Forall shape_ok cs.
Proof.
  induction cs as [|x cs IH]; split; intro H; try constructor; try exact I.
  - tauto. - apply IH; tauto. - inversion H; auto. - apply IH. inversion H; auto.
Qed.
Lemma line_shape_ok : forall t, line_shape t -> shape_ok t.
Proof. destruct t; simpl; auto; intros []. Qed.

Lemma tvalid_or : forall last cs, tvalid last (MTor cs) <-> Forall (tvalid last) cs.
Proof. intros. exact (tvalid_list tolower orbit c last cs). Qed.
Lemma shape_ok_or : forall cs, shape_ok (MTor cs) <-> Forall shape_ok cs.
Proof. intros. exact (shape_ok_list cs). Qed.

Definition prune_list_and (cs : list mt) : option (list mt) :=
  (fix go (l : list mt) : option (list mt) :=
     match l with
     | [] => Some []
     | x :: r => match prune x with
                 | None => None
                 | Some x' => match go r with None => None | Some r' => Some (x' :: r') end
                 end
     end) cs.
Definition prune_list_or (cs : list mt) : list mt :=
  (fix go (l : list mt) : list mt :=
     match l with
     | [] => []
     | x :: r => match prune x with None => go r | Some x' => x' :: go r end
     end) cs.
Lemma prune_and_eq : forall cs, prune (MTand cs) = option_map MTand (prune_list_and cs).
Proof. reflexivity. Qed.
Lemma prune_andline_eq : forall cs, prune (MTandLine cs) = option_map MTandLine (prune_list_and cs).
Proof. reflexivity. Qed.
Lemma prune_or_eq : forall cs, prune (MTor cs) = match prune_list_or cs with [] => None | [x] => Some x | l => Some (MTor l) end.
Proof. reflexivity. Qed.
Lemma prune_list_and_cons : forall x r, prune_list_and (x :: r) =
  match prune x with None => None | Some x' => match prune_list_and r with None => None | Some r' => Some (x' :: r') end end.
Proof. reflexivity. Qed.
Lemma prune_list_or_cons : forall x r, prune_list_or (x :: r) =
  match prune x with None => prune_list_or r | Some x' => x' :: prune_list_or r end.
Proof. reflexivity. Qed.

Definition prune_ok (t : mt) : Prop :=
  match prune t with
  | Some t' => tvalid None t' /\ shape_ok t' /\ (forall k, k < n -> sem k t' = sem k t) /\
               (line_shape t -> line_shape t' /\ content_sleaf t' = content_sleaf t)
  | None => forall k, k < n -> sem k t = false
  end.

Lemma same_line_sem_ext : forall k cs cs', map content_sleaf cs' = map content_sleaf cs ->
  same_line_sem tolower c k cs' = same_line_sem tolower c k cs.
Proof.
  intros k cs cs' H. unfold same_line_sem.
  rewrite <- (forallb_map_eq _ _ (fun o : option sleaf => match o with Some _ => true | None => false end) content_sleaf cs').
  rewrite <- (forallb_map_eq _ _ (fun o : option sleaf => match o with Some _ => true | None => false end) content_sleaf cs).
  rewrite <- (map_map content_sleaf (fun o : option sleaf => match o with
      | Some s => occ_offsets tolower (sl_cs s) (sl_pat s) (text_of c false k) | None => [] end) cs').
  rewrite <- (map_map content_sleaf (fun o : option sleaf => match o with
      | Some s => occ_offsets tolower (sl_cs s) (sl_pat s) (text_of c false k) | None => [] end) cs).
  rewrite H. reflexivity.
Qed.

Lemma prune_list_and_spec : forall cs,
  Forall (fun x => tvalid None x -> shape_ok x -> prune_ok x) cs -> Forall (tvalid None) cs -> Forall shape_ok cs ->
  match prune_list_and cs with
  | Some cs' => Forall (tvalid None) cs' /\ Forall shape_ok cs' /\ (forall k, k < n -> map (sem k) cs' = map (sem k) cs) /\
                (Forall line_shape cs -> Forall line_shape cs' /\ map content_sleaf cs' = map content_sleaf cs)
  | None => forall k, k < n -> forallb (sem k) cs = false
  end.
Proof.
  induction cs as [|x cs IH]; intros HP Hv Hs.
  - simpl. repeat split; auto.
  - rewrite prune_list_and_cons. inversion HP as [|? ? HPx HPr]; inversion Hv as [|? ? Hvx Hvr]; inversion Hs as [|? ? Hsx Hsr]; subst.
    specialize (HPx Hvx Hsx). unfold prune_ok in HPx. specialize (IH HPr Hvr Hsr).
    destruct (prune x) as [x'|].
    + destruct HPx as [H1 [H2 [H3 H4]]]. destruct (prune_list_and cs) as [cs'|].
      * destruct IH as [I1 [I2 [I3 I4]]]. split; [constructor; auto|]. split; [constructor; auto|]. split.
        -- intros k Hk. simpl. rewrite H3, I3 by auto. reflexivity.
        -- intro Hl. inversion Hl as [|? ? Hlx Hlr]; subst. destruct (H4 Hlx) as [H5 H6]. destruct (I4 Hlr) as [I5 I6].
           split; [constructor; auto|]. simpl. rewrite H6, I6. reflexivity.
      * intros k Hk. simpl. rewrite IH by auto. apply andb_false_r.
    + intros k Hk. simpl. rewrite HPx by auto. reflexivity.
Qed.
Lemma prune_list_or_spec : forall cs,
  Forall (fun x => tvalid None x -> shape_ok x -> prune_ok x) cs -> Forall (tvalid None) cs -> Forall shape_ok cs ->
  Forall (tvalid None) (prune_list_or cs) /\ Forall shape_ok (prune_list_or cs) /\
  (forall k, k < n -> existsb (sem k) (prune_list_or cs) = existsb (sem k) cs).
Proof.
  induction cs as [|x cs IH]; intros HP Hv Hs.
  - simpl. repeat split; auto.
  - rewrite prune_list_or_cons. inversion HP as [|? ? HPx HPr]; inversion Hv as [|? ? Hvx Hvr]; inversion Hs as [|? ? Hsx Hsr]; subst.
    specialize (HPx Hvx Hsx). unfold prune_ok in HPx. destruct (IH HPr Hvr Hsr) as [I1 [I2 I3]].
    destruct (prune x) as [x'|].
    + destruct HPx as [H1 [H2 [H3 _]]]. split; [constructor; auto|]. split; [constructor; auto|].
      intros k Hk. simpl. rewrite H3, I3 by auto. reflexivity.
    + split; [auto|]. split; [auto|]. intros k Hk. simpl. rewrite HPx, I3 by auto. reflexivity.
Qed.

Theorem prune_spec : forall t, tvalid None t -> shape_ok t -> prune_ok t.
Proof.
  induction t using mt_ind'; intros Hv Hs.
  - simpl in Hv, Hs. apply tvalid_list in Hv. apply shape_ok_list in Hs.
    pose proof (prune_list_and_spec cs H Hv Hs) as HL. unfold prune_ok. rewrite prune_and_eq.
    destruct (prune_list_and cs) as [cs'|]; simpl.
    + destruct HL as [L1 [L2 [L3 _]]]. split; [apply tvalid_list; auto|]. split; [apply shape_ok_list; auto|].
      split; [|intros []]. intros k Hk. apply forallb_of_map. auto.
    + exact HL.
  - simpl in Hv, Hs. apply tvalid_list in Hv. apply shape_ok_list in Hs.
    destruct (prune_list_or_spec cs H Hv Hs) as [L1 [L2 L3]]. unfold prune_ok. rewrite prune_or_eq.
    destruct (prune_list_or cs) as [|x [|y r]] eqn:E.
    + intros k Hk. simpl. rewrite <- L3 by auto. reflexivity.
    + inversion L1; inversion L2; subst. split; [auto|]. split; [auto|]. split; [|intros []].
      intros k Hk. simpl. rewrite <- L3 by auto. simpl. rewrite orb_false_r. reflexivity.
    + split; [apply tvalid_or; auto|]. split; [apply shape_ok_or; auto|]. split; [|intros []].
      intros k Hk. simpl sem at 2. rewrite <- L3 by auto. reflexivity.
  - simpl in Hv, Hs. apply tvalid_list in Hv. pose proof Hs as Hls. apply line_shape_list in Hls.
    assert (Hs' : Forall shape_ok cs) by (eapply Forall_impl; [|exact Hls]; apply line_shape_ok).
    pose proof (prune_list_and_spec cs H Hv Hs') as HL. unfold prune_ok. rewrite prune_andline_eq.
    destruct (prune_list_and cs) as [cs'|]; simpl.
    + destruct HL as [L1 [L2 [L3 L4]]]. destruct (L4 Hls) as [L5 L6].
      split; [apply tvalid_list; auto|]. split; [apply line_shape_list; auto|]. split.
      * intros k Hk. rewrite (same_line_sem_ext k cs cs' L6). f_equal. apply forallb_of_map. auto.
      * intros _. split; [apply line_shape_list; auto | reflexivity].
    + intros k Hk. rewrite HL by auto. reflexivity.
  - simpl in Hv, Hs. specialize (IHt Hv Hs). unfold prune_ok in *. simpl. destruct (prune t) as [t'|].
    + destruct IHt as [H1 [H2 [H3 _]]]. split; [auto|]. split; [auto|]. split; [|intros []]. intros k Hk. simpl. rewrite H3 by auto. reflexivity.
    + split; [reflexivity|]. split; [exact I|]. split; [|intros []]. intros k Hk. simpl. rewrite IHt by auto. reflexivity.
  - simpl in Hv, Hs. specialize (IHt Hv Hs). unfold prune_ok in *. simpl. destruct (prune t) as [t'|]; simpl.
    + destruct IHt as [H1 [H2 [H3 _]]]. split; [auto|]. split; [auto|]. split; [|intros []]. intros k Hk. simpl. auto.
    + intros k Hk. simpl. auto.
  - unfold prune_ok. simpl. simpl in Hv. unfold leaf_valid in Hv. destruct (sl_dead s) eqn:Hd.
    + destruct Hv as [_ Hf]. exact Hf.
    + split; [simpl; unfold leaf_valid; rewrite Hd; exact Hv|]. split; [exact I|]. split; auto.
  - unfold prune_ok. simpl. split; [exact Hv|]. split; [exact I|]. split; auto.
  - unfold prune_ok. simpl. split; [exact Hv|]. split; [exact I|]. split; auto; try (intros []).
  - unfold prune_ok. simpl. split; [exact I|]. split; [exact I|]. split; auto; try (intros []).
Qed.
End Loop.
