(** C25: the field lists of zoekt.Stats / Stats.Add / Stats.Zero (Generated/StatsFields.v, regenerated from the tree
    under check by translator/statsfields) against the model of Model/Stream.v.

    The model treats the counters of a Stats value as an anonymous vector: [stats_add] sums EVERY component and
    [stats_zero] looks at EVERY component. That is a faithful picture of api.go only if
      - Stats.Zero tests exactly the fields that Stats.Add sums            ([zero_add_agree]), and
      - every field of the struct is summed by Add or is one of the named exceptions ([fields_accounted]).
    Both are closed boolean statements about the generated lists, decided by [vm_compute] in Props/C25.v; they stop
    holding when somebody drops a term from Zero's OR-chain, forgets a new counter in Add, sums into the wrong field, ...

    The named exceptions (read off api.go, not guessed):
      - Duration    "Wall clock time for this search": Add does not mention it (the receiver keeps its own value),
                    Zero does not test it; search/shards.go sets it once on the aggregate (time.Since(start)).
      - FlushReason Add: `if s.FlushReason == 0 { s.FlushReason = o.FlushReason }` (first non-zero value is sticky);
                    Zero does not test it. *)
From Coq Require Import List String Bool ZArith Lia.
From ZV Require Import Lib.Base Model.Stream Generated.StatsFields.
Import ListNotations.
Local Open Scope string_scope.

Definition smem (x : string) (l : list string) : bool := existsb (String.eqb x) l.
Definition ssubset (a b : list string) : bool := forallb (fun x => smem x b) a.
Definition sset_eqb (a b : list string) : bool := ssubset a b && ssubset b a.
Fixpoint snodup (l : list string) : bool :=
  match l with [] => true | x :: r => negb (smem x r) && snodup r end.

(** the named exceptions *)
Definition stats_not_summed : list string := ["Duration"].
Definition stats_first_nonzero_wins : list string := ["FlushReason"].
(** Go types a summed counter may have (signed integers: the model's counters are Z and Zero tests "> 0") *)
Definition stats_counter_types : list string := ["int"; "int64"; "int32"; "time.Duration"].

Definition stats_field_names : list string := map fst stats_struct_fields.
(** the counter vector of the model / of the harness: the summed fields in struct order *)
Definition stats_counter_order : list string := filter (fun f => smem f stats_add_summed) stats_field_names.

(** Stats.Zero tests exactly the fields Stats.Add sums; nothing in either function escapes the translator *)
Definition zero_add_agree : bool :=
  sset_eqb stats_zero_tested stats_add_summed
  && snodup stats_add_summed
  && match stats_add_cross with [] => true | _ => false end
  && match stats_add_unrecognised with [] => true | _ => false end
  && match stats_zero_unrecognised with [] => true | _ => false end.

(** every field of the struct is summed by Add, or is a named exception handled the way the model handles it;
    the summed fields are fields of the struct and have a signed integer type *)
Definition fields_accounted : bool :=
  sset_eqb (stats_add_summed ++ stats_not_summed ++ stats_first_nonzero_wins)%list stats_field_names
  && snodup stats_field_names
  && sset_eqb stats_add_sticky stats_first_nonzero_wins
  && forallb (fun f => negb (smem f stats_add_summed) && negb (smem f stats_zero_tested)) (stats_not_summed ++ stats_first_nonzero_wins)%list
  && forallb (fun ft => negb (smem (fst ft) stats_add_summed) || smem (snd ft) stats_counter_types) stats_struct_fields.

(** ---- Stats.Zero / Stats.Add by field NAME, as the source text reads: Zero looks only at the fields in [tested],
    Add sums only the fields in [summed]. On a vector labelled with names that are all tested / summed these are
    the model's anonymous [stats_zero] / [vadd]. *)
Definition zero_named (tested : list string) (s : list (string * Z)) : bool :=
  forallb (fun nx => negb (smem (fst nx) tested) || (snd nx <=? 0)%Z) s.
Definition add_named (summed : list string) (s o : list (string * Z)) : list (string * Z) :=
  map (fun '((n, x), (_, y)) => (n, if smem n summed then (x + y)%Z else x)) (combine s o).

Lemma zero_named_all tested : forall (names : list string) (vals : list Z),
  ssubset names tested = true -> length names = length vals ->
  zero_named tested (combine names vals) = forallb (fun x => (x <=? 0)%Z) vals.
Proof.
  induction names as [|n names IH]; intros vals Hs Hl.
  - destruct vals; [reflexivity | discriminate].
  - destruct vals as [|v vals]; [discriminate|]. cbn in Hs. apply andb_prop in Hs. destruct Hs as [Hn Hs].
    cbn [combine zero_named forallb fst snd]. rewrite Hn. cbn [negb orb]. f_equal.
    apply IH; [exact Hs | cbn in Hl; lia].
Qed.

Lemma add_named_all summed : forall (names : list string) (a b : list Z),
  ssubset names summed = true -> length names = length a -> length names = length b ->
  map snd (add_named summed (combine names a) (combine names b)) = vadd a b.
Proof.
  induction names as [|n names IH]; intros a b Hs Ha Hb.
  - destruct a; [|discriminate]. destruct b; [reflexivity | discriminate].
  - destruct a as [|x a]; [discriminate|]. destruct b as [|y b]; [discriminate|].
    cbn in Hs. apply andb_prop in Hs. destruct Hs as [Hn Hs].
    unfold add_named. cbn [combine map snd vadd]. rewrite Hn. f_equal.
    apply IH; [exact Hs | cbn in Ha; lia | cbn in Hb; lia].
Qed.

(** ---- the law of the model's Stats.Zero: on non-negative counters, Zero <-> every counter is 0 *)
Lemma stats_zero_iff_all_zero (s : stats) :
  Forall (fun x => (0 <= x)%Z) (st_cnt s) ->
  (stats_zero s = true <-> Forall (fun x => x = 0%Z) (st_cnt s)).
Proof.
  unfold stats_zero. generalize (st_cnt s) as l. induction l as [|x l IH]; intros Hn.
  - split; intros _; [constructor | reflexivity].
  - inversion Hn as [|x' l' Hx Hl]; subst. specialize (IH Hl). cbn [forallb]. split.
    + intros H. apply andb_prop in H. destruct H as [H1 H2]. constructor; [lia | apply IH; exact H2].
    + intros H. inversion H as [|x' l' H1 H2]; subst. apply andb_true_intro. split; [reflexivity | apply IH; exact H2].
Qed.
