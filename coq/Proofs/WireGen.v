From ZV Require Import Lib.Base Lib.WireTypes Model.Wire Model.WireGen Proofs.Wire.
