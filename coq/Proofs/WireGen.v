(** C24 - the generic theorems instantiated with the tables generated from /repo's current sources.
    The side conditions are closed boolean computations over Generated/ProtoFields.v. *)
From ZV Require Import Lib.Base Lib.WireTypes Model.Wire Model.WireGen Proofs.Wire Generated.ProtoFields.
From Coq Require Import String.

(** every generated table passes the check (value independent: the regexp oracle is not consulted) *)
Lemma gen_env_ok : forall rn, env_ok (gen_env rn) = true.
Proof. intros rn. vm_compute. reflexivity. Qed.

(** the XFromProto(nil) table depends on the regexp oracle's answer for the empty pattern: both
    answers (it parses and prints as some s' / it does not parse) are covered *)
Lemma gen_from_safe : forall rn, from_safe (gen_env rn) = true.
Proof. intros rn. unfold gen_env. destruct (rn []) as [s0|]; vm_compute; reflexivity. Qed.

(** [gen_nilfrom] is a fixpoint: for every generated struct type whose FromProto is getter-only, the
    model's XFromProto(nil) is the model's XFromProto of the message with every field unset *)
Lemma gen_nil_is_unset_all : forall rn,
  Forall (fun nt => t_from_nilsafe (snd nt) = true ->
            apply (gen_env rn) (CRec false false (fst nt)) VNil
            = apply (gen_env rn) (CRec false false (fst nt)) (zero_rec (t_to (snd nt)))) pf_tables.
Proof.
  intros rn. unfold gen_env. remember (rn []) as r0 eqn:Hr0. unfold pf_tables.
  repeat (apply Forall_cons; [intros _; vm_compute; try rewrite <- Hr0; reflexivity|]).
  apply Forall_nil.
Qed.

Theorem gen_nil_is_unset : forall rn n t,
  lookup n pf_tables = Some t -> t_from_nilsafe t = true ->
  apply (gen_env rn) (CRec false false n) VNil
  = apply (gen_env rn) (CRec false false n) (zero_rec (t_to t)).
Proof.
  intros rn n t Hl Hs. pose proof (gen_nil_is_unset_all rn) as H. rewrite Forall_forall in H.
  apply (H (n, t)); [apply lookup_In; exact Hl|exact Hs].
Qed.

Lemma gen_qkinds_covered : qkinds_covered = true.
Proof. vm_compute. reflexivity. Qed.

(** the exclusions that are actually used are exactly the named ones *)
Lemma gen_unmapped_fields :
  flat_map (fun nt => map (fun r => (fst nt, r_dst r))
                          (filter (fun r => match r_src r with None => true | Some _ => false end) (t_from (snd nt))))
           pf_tables
  = [("zoekt.SearchOptions", "SpanContext"); ("zoekt.SearchResult", "RepoURLs"); ("zoekt.SearchResult", "LineFragments")]%string.
Proof. vm_compute. reflexivity. Qed.

Theorem gen_record_roundtrip : forall rn n t fs,
  lookup n pf_tables = Some t ->
  dom_b (gen_env rn) (CRec true false n) (CRec false false n) (VR fs) = true ->
  exists w, apply (gen_env rn) (CRec true false n) (VR fs) = Ok w /\
            apply (gen_env rn) (CRec false false n) w
            = Ok (VR (mask_excl (excl_of (gen_env rn) n) (t_from t) fs)).
Proof. intros rn n t fs Ht Hd. apply (record_roundtrip _ (gen_env_ok rn) n t fs false false Ht Hd). Qed.

Theorem gen_query_roundtrip : forall rn q,
  dom_b (gen_env rn) CQTo CQFrom q = true ->
  exists w, apply (gen_env rn) CQTo q = Ok w /\ apply (gen_env rn) CQFrom w = Ok q.
Proof. intros rn q Hd. apply (roundtrip_all _ (gen_env_ok rn) q CQTo CQFrom eq_refl Hd). Qed.

Theorem gen_handlers_total : forall rn search stream list,
  (forall q o w, o <> VNil -> search q o <> Panic w) ->
  (forall q o w, o <> VNil -> stream q o <> Panic w) ->
  (forall q o w, list q o <> Panic w) ->
  (forall q o r, search q o = Ok r -> res_dom (gen_env rn) "zoekt.SearchResult" r = true) ->
  (forall q o evs, stream q o = Ok (VL evs) -> forallb (res_dom (gen_env rn) "zoekt.SearchResult") evs = true) ->
  (forall q o r, list q o = Ok r -> res_dom (gen_env rn) "zoekt.RepoList" r = true) ->
  forall h req, wire_wf req = true ->
  forall w, handle (gen_env rn) search stream list handler_defaults_nil_opts h req <> Panic w.
Proof.
  intros rn search stream list Hs Hst Hl Ds Dst Dl h req Hwf w.
  apply (handlers_total (gen_env rn) search stream list (gen_from_safe rn) (gen_env_ok rn) Hs Hst Hl Ds Dst Dl h req Hwf w).
Qed.

Theorem gen_search_response_lossless : forall rn search,
  (forall q o w, o <> VNil -> search q o <> Panic w) ->
  (forall q o r, search q o = Ok r -> res_dom (gen_env rn) "zoekt.SearchResult" r = true) ->
  forall req resp, wire_wf req = true ->
  handle_search (gen_env rn) search handler_defaults_nil_opts req = Ok resp ->
  exists q o r, search q o = Ok r /\
    dec_result (gen_env rn) "zoekt.SearchResult" resp = Ok (res_back (gen_env rn) "zoekt.SearchResult" r).
Proof.
  intros rn search Hs Ds req resp Hwf H.
  apply (search_response_lossless (gen_env rn) search (gen_from_safe rn) (gen_env_ok rn) Hs Ds req resp Hwf H).
Qed.

Theorem gen_list_response_lossless : forall rn list,
  (forall q o r, list q o = Ok r -> res_dom (gen_env rn) "zoekt.RepoList" r = true) ->
  forall req resp, wire_wf req = true ->
  handle_list (gen_env rn) list req = Ok resp ->
  exists q o r, list q o = Ok r /\
    dec_result (gen_env rn) "zoekt.RepoList" resp = Ok (res_back (gen_env rn) "zoekt.RepoList" r).
Proof.
  intros rn list Dl req resp Hwf H.
  apply (list_response_lossless (gen_env rn) list (gen_env_ok rn) Dl req resp Hwf H).
Qed.

(** What the repairs 5dbbb25 / fe94a82 changed, replayed on the model: with the pre-repair flags
    (QFromProto reads p.Query directly and panics in its default case; nil options are passed on)
    a request without query, and a request without options, crash the handler. *)
Definition pre_repair_env (rn : list N -> option (list N)) : env :=
  Env pf_tables pf_qto pf_qfrom pf_qto_default_panics false true c24_exclusions rn (gen_nilfrom nil_depth (rn [])) pf_rawconfig_from_nil_safe.

Lemma pre_repair_unset_query_panics :
  handle (pre_repair_env (fun s => Some s)) ok_streamer ok_stream ok_lister false 0 (VR [("Query"%string, VNil); ("Opts"%string, VNil)])
  = Panic P_NIL.
Proof. vm_compute. reflexivity. Qed.

Lemma pre_repair_childless_not_panics :
  handle (pre_repair_env (fun s => Some s)) ok_streamer ok_stream ok_lister false 2
         (VR [("Query"%string, VQ "Q_Not" (VR [("Child"%string, VNil)])); ("Opts"%string, VNil)])
  = Panic P_NIL.
Proof. vm_compute. reflexivity. Qed.

Lemma pre_repair_nil_opts_panics :
  handle (gen_env (fun s => Some s)) ok_streamer ok_stream ok_lister false 0
         (VR [("Query"%string, VQ "Q_Const" (VB true)); ("Opts"%string, VNil)])
  = Panic P_NIL.
Proof. vm_compute. reflexivity. Qed.
