(** C16 — totality: merge / explode cannot fail (no error, no panic) on well-formed, mergeable input, and
    mergeability is also necessary for merge to succeed. *)
From ZV Require Import Lib.Base Model.MergeDocs Proofs.MergeDocsProofs.
From Coq Require Import Permutation Sorted.

(** what the Go code needs beyond [wf_shard]:
    - the repo indices of the documents of live repositories never decrease in document order
      (else "non-contiguous repo ids", Err 4);
    - every live repository that has a document has at most 64 branches (setRepository, Err 3). *)
Definition br64 (sh : shard) (d : sdoc) : Prop :=
  forall r, nth_error (sh_repos sh) (sd_repo d) = Some r -> sr_tomb r = false ->
            (length (sr_branches r) <= 64)%nat.
Definition mergeable (sh : shard) : Prop :=
  StronglySorted le (live_ids sh (sh_docs sh)) /\ Forall (br64 sh) (sh_docs sh).

(** ---- the booleans of Model/MergeDocs.v reflect the propositions *)
Lemma nodupb_NoDup : forall l, nodupb l = true -> NoDup l.
Proof.
  induction l as [|x r IH]; simpl; intros H; constructor.
  - apply andb_prop in H. destruct H as [H _]. intro Hin. apply memN_In in Hin. rewrite Hin in H. discriminate.
  - apply andb_prop in H. destruct H as [_ H]. auto.
Qed.
Lemma wf_docb_true : forall sh d, wf_docb sh d = true -> wf_doc sh d.
Proof.
  intros sh d H. unfold wf_docb in H. destruct (nth_error (sh_repos sh) (sd_repo d)) as [r|] eqn:Er; [|discriminate].
  apply andb_prop in H. destruct H as [H H4]. apply andb_prop in H. destruct H as [H H3].
  apply andb_prop in H. destruct H as [H1 H2].
  exists r. split; [exact Er|]. split; [apply Nat.eqb_eq; exact H1|]. split; [apply nodupb_NoDup; exact H2|].
  split; [apply Nat.ltb_lt; exact H3|apply nodupb_NoDup; exact H4].
Qed.
Lemma wf_shardb_true : forall sh, wf_shardb sh = true -> wf_shard sh.
Proof.
  intros sh H. unfold wf_shardb in H. unfold wf_shard. apply Forall_forall. intros d Hd.
  apply wf_docb_true. eapply forallb_forall in H; eauto.
Qed.
Lemma nondecb_sorted : forall l lo, nondecb lo l = true -> StronglySorted le l /\ Forall (le lo) l.
Proof.
  induction l as [|x r IH]; simpl; intros lo H; [split; constructor|].
  apply andb_prop in H. destruct H as [H1 H2]. apply Nat.leb_le in H1.
  destruct (IH x H2) as [Hs Hall]. split.
  - constructor; auto.
  - constructor; auto. eapply Forall_impl; [|exact Hall]. intros a Ha. simpl in Ha. lia.
Qed.
Lemma br64b_true : forall sh d, br64b sh d = true -> br64 sh d.
Proof.
  intros sh d H r Hr Ht. unfold br64b in H. rewrite Hr, Ht in H. simpl in H. apply Nat.leb_le. exact H.
Qed.
Lemma mergeableb_true : forall sh, mergeableb sh = true -> mergeable sh.
Proof.
  intros sh H. unfold mergeableb in H. apply andb_prop in H. destruct H as [H1 H2]. split.
  - apply (nondecb_sorted _ 0%nat). exact H1.
  - apply Forall_forall. intros d Hd. apply br64b_true. eapply forallb_forall in H2; eauto.
Qed.

(** ---- single steps cannot fail *)
Lemma decode_total : forall sh d, wf_doc sh d -> exists dd, decode sh d = Ok dd.
Proof.
  intros sh d [r [Hr [_ [_ [Hsub _]]]]]. unfold decode. rewrite Hr.
  destruct (nth_error (sr_subs r) (sd_sub d)) as [sub|] eqn:Es; [eauto|].
  apply nth_error_None in Es. lia.
Qed.
Lemma set_repo_total : forall b r, (length (sr_branches r) <= 64)%nat -> exists b1, set_repo b r = Ok b1.
Proof.
  intros b r H. unfold set_repo. destruct (64 <? length (sr_branches r))%nat eqn:E; [|eauto].
  apply Nat.ltb_lt in E. lia.
Qed.
Lemma set_repo_ok_le : forall b r b1, set_repo b r = Ok b1 -> (length (sr_branches r) <= 64)%nat.
Proof.
  intros b r b1 H. unfold set_repo in H. destruct (64 <? length (sr_branches r))%nat eqn:E; [discriminate|].
  apply Nat.ltb_ge in E. exact E.
Qed.

Lemma live_ids_cons : forall sh d rest, live_ids sh (d :: rest) = live_id sh d ++ live_ids sh rest.
Proof. reflexivity. Qed.
Lemma live_id_at : forall sh d r, nth_error (sh_repos sh) (sd_repo d) = Some r ->
  live_id sh d = if sr_tomb r then [] else [sd_repo d].
Proof. intros sh d r H. unfold live_id. rewrite H. reflexivity. Qed.

(** ---- merge's document loop *)
Lemma copy_docs_total : forall sh docs b last V,
  Forall (wf_doc sh) docs -> BInv b V -> Cur sh b last ->
  StronglySorted le (live_ids sh docs) ->
  (forall l, last = Some l -> Forall (le l) (live_ids sh docs)) ->
  Forall (br64 sh) docs ->
  exists b', copy_docs sh docs b last = Ok b'.
Proof.
  intros sh docs. induction docs as [|d rest IH]; intros b last V Hwf HB HC Hs Hlast H64.
  - simpl. eauto.
  - inversion Hwf as [|? ? Hd Hrest]; subst. inversion H64 as [|? ? H64d H64r]; subst.
    pose proof Hd as Hd0. destruct Hd as [r [Hr [Hm [Hnb [Hsub Hns]]]]].
    rewrite live_ids_cons, (live_id_at _ _ _ Hr) in Hs.
    assert (Hlast' : forall l, last = Some l -> Forall (le l) ((if sr_tomb r then [] else [sd_repo d]) ++ live_ids sh rest)).
    { intros l Hl. specialize (Hlast l Hl). rewrite live_ids_cons, (live_id_at _ _ _ Hr) in Hlast. exact Hlast. }
    clear Hlast. simpl. rewrite Hr.
    destruct (sr_tomb r) eqn:Et.
    { simpl in Hs, Hlast'. eapply IH; eauto. }
    simpl in Hs, Hlast'. inversion Hs as [|? ? Hs' Hall]; subst.
    destruct (decode_total sh d Hd0) as [dd Ed].
    assert (Hstep : forall b1, last_opt (sh_repos b1) = Some r -> BInv b1 V ->
              exists b', (do dd0 <- decode sh d; do b2 <- add_doc b1 dd0; copy_docs sh rest b2 (Some (sd_repo d))) = Ok b').
    { intros b1 Hl1 HB1. rewrite Ed. simpl.
      destruct (add_doc_ok sh d r dd b1 V Hr Et Hm Hnb Hns Ed Hl1 HB1) as [b2 [Ha [HB2 Hrep]]].
      rewrite Ha. simpl. eapply IH; eauto.
      - simpl. exists r. split; auto. rewrite Hrep. exact Hl1.
      - intros l Hl. inversion Hl; subst. exact Hall. }
    assert (Hset : forall b0, BInv b0 V -> exists b1, set_repo b0 r = Ok b1 /\ last_opt (sh_repos b1) = Some r /\ BInv b1 V).
    { intros b0 HB0. destruct (set_repo_total b0 r (H64d r Hr Et)) as [b1 Es]. exists b1. split; auto.
      destruct (set_repo_ok _ _ _ _ Es HB0) as [HB1 [Hl1 _]]. auto. }
    destruct last as [l|].
    + destruct (Nat.eqb l (sd_repo d)) eqn:El.
      * apply Nat.eqb_eq in El. subst l. destruct HC as [r' [Hr' Hl']].
        rewrite Hr in Hr'. inversion Hr'; subst r'. apply Hstep; auto.
      * destruct (sd_repo d <? l)%nat eqn:Elt.
        { apply Nat.ltb_lt in Elt. specialize (Hlast' l eq_refl). inversion Hlast'; subst. lia. }
        destruct (Hset b HB) as [b1 [Es [Hl1 HB1]]]. rewrite Es. apply Hstep; auto.
    + destruct (Hset b HB) as [b1 [Es [Hl1 HB1]]]. rewrite Es. apply Hstep; auto.
Qed.

Lemma merge_loop_total : forall shards b V,
  Forall wf_shard shards -> Forall mergeable shards -> BInv b V ->
  exists b', merge_loop shards b = Ok b'.
Proof.
  induction shards as [|sh rest IH]; intros b V Hwf Hmg HB; simpl.
  - eauto.
  - inversion Hwf as [|? ? Hw Hwr]; subst. inversion Hmg as [|? ? [Hs H64] Hmr]; subst.
    destruct (copy_docs_total sh (sh_docs sh) b None V) as [b1 E1]; auto.
    { simpl. exact I. }
    { intros l Hl. discriminate. }
    rewrite E1. simpl. eapply (IH b1 (V ++ flat_map (viewr_doc sh) (sh_docs sh))); auto.
    eapply copy_docs_view; eauto. simpl. exact I.
Qed.

Lemma merge_total : forall shards, shards <> [] -> Forall wf_shard shards -> Forall mergeable shards ->
  exists b, merge shards = Ok b.
Proof.
  intros shards Hne Hwf Hmg. unfold merge. destruct shards as [|s0 rest]; [congruence|].
  apply (merge_loop_total _ empty_builder []).
  - eapply Permutation_Forall; [apply Permutation_sym, sort_prio_perm|exact Hwf].
  - eapply Permutation_Forall; [apply Permutation_sym, sort_prio_perm|exact Hmg].
  - apply binv_empty.
Qed.

(** ---- explode's document loop *)
Lemma explode_docs_total : forall sh docs cur last done Vc,
  Forall (wf_doc sh) docs ->
  match cur with
  | Some b => BInv b Vc /\ Cur sh b last /\ last <> None
  | None => last = None
  end ->
  StronglySorted le (live_ids sh docs) ->
  (forall l, last = Some l -> Forall (le l) (live_ids sh docs)) ->
  Forall (br64 sh) docs ->
  exists outs, explode_docs sh docs cur last done = Ok outs.
Proof.
  intros sh docs. induction docs as [|d rest IH]; intros cur last done Vc Hwf Hcur Hs Hlast H64.
  - simpl. eauto.
  - inversion Hwf as [|? ? Hd Hrest]; subst. inversion H64 as [|? ? H64d H64r]; subst.
    pose proof Hd as Hd0. destruct Hd as [r [Hr [Hm [Hnb [Hsub Hns]]]]].
    rewrite live_ids_cons, (live_id_at _ _ _ Hr) in Hs.
    assert (Hlast' : forall l, last = Some l -> Forall (le l) ((if sr_tomb r then [] else [sd_repo d]) ++ live_ids sh rest)).
    { intros l Hl. specialize (Hlast l Hl). rewrite live_ids_cons, (live_id_at _ _ _ Hr) in Hlast. exact Hlast. }
    clear Hlast. simpl. rewrite Hr.
    destruct (sr_tomb r) eqn:Et.
    { simpl in Hs, Hlast'. eapply IH; eauto. }
    simpl in Hs, Hlast'. inversion Hs as [|? ? Hs' Hall]; subst.
    destruct (decode_total sh d Hd0) as [dd Ed].
    assert (Hnext : forall b2 V2 done', BInv b2 V2 -> last_opt (sh_repos b2) = Some r ->
              exists outs, explode_docs sh rest (Some b2) (Some (sd_repo d)) done' = Ok outs).
    { intros b2 V2 done' HB2 Hl2. eapply (IH (Some b2) (Some (sd_repo d)) done' V2); auto.
      - split; [exact HB2|]. split; [simpl; exists r; auto|discriminate].
      - intros l Hl. inversion Hl; subst. exact Hall. }
    assert (Hfresh : forall done', exists outs,
              (do b1 <- set_repo empty_builder r; do dd0 <- decode sh d; do b2 <- add_doc b1 dd0;
               explode_docs sh rest (Some b2) (Some (sd_repo d)) done') = Ok outs).
    { intros done'. destruct (set_repo_total empty_builder r (H64d r Hr Et)) as [b1 Es]. rewrite Es. simpl.
      destruct (set_repo_ok _ _ _ _ Es binv_empty) as [HB1 [Hl1 _]].
      rewrite Ed. simpl.
      destruct (add_doc_ok sh d r dd b1 [] Hr Et Hm Hnb Hns Ed Hl1 HB1) as [b2 [Ha [HB2 Hrep]]].
      rewrite Ha. simpl. eapply Hnext; eauto. rewrite Hrep. exact Hl1. }
    destruct last as [l|].
    + destruct (Nat.eqb l (sd_repo d)) eqn:El.
      * apply Nat.eqb_eq in El. subst l. destruct cur as [b|]; [|discriminate].
        destruct Hcur as [HB [[r' [Hr' Hl']] _]]. rewrite Hr in Hr'. inversion Hr'; subst r'.
        rewrite Ed. simpl.
        destruct (add_doc_ok sh d r dd b Vc Hr Et Hm Hnb Hns Ed Hl' HB) as [b2 [Ha [HB2 Hrep]]].
        rewrite Ha. simpl. eapply Hnext; eauto. rewrite Hrep. exact Hl'.
      * destruct (sd_repo d <? l)%nat eqn:Elt.
        { apply Nat.ltb_lt in Elt. specialize (Hlast' l eq_refl). inversion Hlast'; subst. lia. }
        apply Hfresh.
    + apply Hfresh.
Qed.

Lemma explode_total : forall sh, wf_shard sh -> mergeable sh -> exists outs, explode sh = Ok outs.
Proof.
  intros sh Hwf [Hs H64]. unfold explode.
  apply (explode_docs_total sh (sh_docs sh) None None [] []); auto.
  intros l Hl. discriminate.
Qed.

(** ---- necessity: a successful merge implies that every input was mergeable (no hypothesis on the input) *)
Lemma copy_docs_ok_mergeable : forall sh docs b last b',
  copy_docs sh docs b last = Ok b' ->
  (forall l r, last = Some l -> nth_error (sh_repos sh) l = Some r -> (length (sr_branches r) <= 64)%nat) ->
  StronglySorted le (live_ids sh docs) /\
  (forall l, last = Some l -> Forall (le l) (live_ids sh docs)) /\
  Forall (br64 sh) docs.
Proof.
  intros sh docs. induction docs as [|d rest IH]; intros b last b' H Hl64.
  - split; [constructor|]. split; [intros; constructor|constructor].
  - simpl in H. destruct (nth_error (sh_repos sh) (sd_repo d)) as [r|] eqn:Hr; [|discriminate].
    rewrite live_ids_cons, (live_id_at _ _ _ Hr).
    destruct (sr_tomb r) eqn:Et.
    { destruct (IH _ _ _ H Hl64) as [H1 [H2 H3]]. simpl. split; auto. split; auto.
      constructor; auto. intros r0 Hr0 Ht0. rewrite Hr in Hr0. inversion Hr0; subst. congruence. }
    assert (Hpre : (length (sr_branches r) <= 64)%nat /\ (forall l, last = Some l -> (l <= sd_repo d)%nat) /\
                   exists b1, (do dd <- decode sh d; do b2 <- add_doc b1 dd; copy_docs sh rest b2 (Some (sd_repo d))) = Ok b').
    { destruct last as [l|].
      - destruct (Nat.eqb l (sd_repo d)) eqn:El.
        + apply Nat.eqb_eq in El. subst l. split; [eapply Hl64; eauto|]. split; [intros l Hl; inversion Hl; lia|].
          exists b. exact H.
        + destruct (sd_repo d <? l)%nat eqn:Elt; [discriminate|]. apply Nat.ltb_ge in Elt.
          destruct (set_repo b r) as [b1| |] eqn:Es; try discriminate.
          split; [eapply set_repo_ok_le; eauto|]. split; [intros l0 Hl0; inversion Hl0; subst; exact Elt|].
          exists b1. exact H.
      - destruct (set_repo b r) as [b1| |] eqn:Es; try discriminate.
        split; [eapply set_repo_ok_le; eauto|]. split; [intros l0 Hl0; discriminate|].
        exists b1. exact H. }
    destruct Hpre as [Hle [Hlo [b1 H1]]].
    destruct (decode sh d) as [dd| |]; simpl in H1; try discriminate.
    destruct (add_doc b1 dd) as [b2| |]; simpl in H1; try discriminate.
    destruct (IH _ _ _ H1) as [S1 [S2 S3]].
    { intros l r0 Hl Hr0. inversion Hl; subst. rewrite Hr in Hr0. inversion Hr0; subst. exact Hle. }
    specialize (S2 _ eq_refl). simpl. split; [constructor; auto|]. split.
    + intros l Hl. specialize (Hlo l Hl). constructor; auto.
      eapply Forall_impl; [|exact S2]. intros a Ha. simpl in Ha. lia.
    + constructor; auto. intros r0 Hr0 _. rewrite Hr in Hr0. inversion Hr0; subst. exact Hle.
Qed.

Lemma merge_loop_ok_mergeable : forall shards b b', merge_loop shards b = Ok b' -> Forall mergeable shards.
Proof.
  induction shards as [|sh rest IH]; intros b b' H; [constructor|].
  simpl in H. destruct (copy_docs sh (sh_docs sh) b None) as [b1| |] eqn:Ec; simpl in H; try discriminate.
  constructor; [|eapply IH; eauto].
  destruct (copy_docs_ok_mergeable _ _ _ _ _ Ec) as [S1 [_ S3]]; [intros; discriminate|].
  split; auto.
Qed.

Lemma merge_ok_mergeable : forall shards b, merge shards = Ok b -> Forall mergeable shards.
Proof.
  intros shards b H. unfold merge in H. destruct shards as [|s0 rest]; [discriminate|].
  eapply Permutation_Forall; [apply sort_prio_perm|]. eapply merge_loop_ok_mergeable; eauto.
Qed.

(** ---- the result of a merge is mergeable again (and so is every builder state): documents are appended with
    the index of the builder's last repository, repositories are only appended, each through setRepository *)
Definition MInv (b : shard) : Prop :=
  Forall (fun r => (length (sr_branches r) <= 64)%nat) (sh_repos b) /\
  StronglySorted le (map sd_repo (sh_docs b)) /\
  Forall (fun i => (i <= length (sh_repos b) - 1)%nat) (map sd_repo (sh_docs b)).

Lemma ssorted_snoc : forall l x, StronglySorted le l -> Forall (fun i => (i <= x)%nat) l -> StronglySorted le (l ++ [x]).
Proof.
  induction l as [|a r IH]; intros x Hs Hall; simpl.
  - constructor; constructor.
  - inversion Hs as [|? ? Hs' Ha]; subst. inversion Hall as [|? ? Hax Hall']; subst.
    constructor; [apply IH; auto|]. apply Forall_app. split; auto.
Qed.

Lemma add_doc_shape : forall b dd b', add_doc b dd = Ok b' ->
  sh_repos b' = sh_repos b /\ exists d', sh_docs b' = sh_docs b ++ [d'] /\ sd_repo d' = (length (sh_repos b) - 1)%nat.
Proof.
  intros b dd b' H. unfold add_doc in H.
  destruct (last_opt (sh_repos b)) as [r|]; try discriminate.
  destruct (index_of (dd_sub dd) (sr_subs r)); try discriminate.
  destruct (enc_mask (sr_branches r) (dd_branches dd)); try discriminate.
  inversion H; subst; simpl. split; [reflexivity|]. eexists. split; reflexivity.
Qed.

Lemma add_doc_minv : forall b dd b', add_doc b dd = Ok b' -> MInv b -> MInv b'.
Proof.
  intros b dd b' H [M1 [M2 M3]]. destruct (add_doc_shape _ _ _ H) as [Hr [d' [Hd Hi]]].
  unfold MInv. rewrite Hr, Hd, map_app. simpl. rewrite Hi. split; [exact M1|]. split.
  - apply ssorted_snoc; auto.
  - apply Forall_app. split; auto.
Qed.

Lemma set_repo_minv : forall b r b', set_repo b r = Ok b' -> MInv b -> MInv b'.
Proof.
  intros b r b' H [M1 [M2 M3]]. pose proof (set_repo_ok_le _ _ _ H) as Hle.
  unfold set_repo in H. destruct (64 <? length (sr_branches r))%nat; inversion H; subst; clear H.
  unfold MInv. simpl. split; [apply Forall_app; split; auto|]. split; [exact M2|].
  eapply Forall_impl; [|exact M3]. intros a Ha. simpl in Ha. rewrite app_length. simpl. lia.
Qed.

Lemma copy_docs_minv : forall sh docs b last b', copy_docs sh docs b last = Ok b' -> MInv b -> MInv b'.
Proof.
  intros sh docs. induction docs as [|d rest IH]; intros b last b' H HM; simpl in H.
  - inversion H; subst. exact HM.
  - destruct (nth_error (sh_repos sh) (sd_repo d)) as [r|]; [|discriminate].
    destruct (sr_tomb r); [eapply IH; eauto|].
    assert (Hpre : exists b1, MInv b1 /\
              (do dd <- decode sh d; do b2 <- add_doc b1 dd; copy_docs sh rest b2 (Some (sd_repo d))) = Ok b').
    { destruct last as [l|].
      - destruct (Nat.eqb l (sd_repo d)); [exists b; auto|].
        destruct (sd_repo d <? l)%nat; [discriminate|].
        destruct (set_repo b r) as [b1| |] eqn:Es; try discriminate. exists b1. split; auto.
        eapply set_repo_minv; eauto.
      - destruct (set_repo b r) as [b1| |] eqn:Es; try discriminate. exists b1. split; auto.
        eapply set_repo_minv; eauto. }
    destruct Hpre as [b1 [HM1 H1]].
    destruct (decode sh d) as [dd| |]; simpl in H1; try discriminate.
    destruct (add_doc b1 dd) as [b2| |] eqn:Ea; simpl in H1; try discriminate.
    eapply IH; eauto. eapply add_doc_minv; eauto.
Qed.

Lemma merge_loop_minv : forall shards b b', merge_loop shards b = Ok b' -> MInv b -> MInv b'.
Proof.
  induction shards as [|sh rest IH]; intros b b' H HM; simpl in H.
  - inversion H; subst. exact HM.
  - destruct (copy_docs sh (sh_docs sh) b None) as [b1| |] eqn:Ec; simpl in H; try discriminate.
    eapply IH; eauto. eapply copy_docs_minv; eauto.
Qed.

Lemma live_ids_incl : forall sh docs i, In i (live_ids sh docs) -> In i (map sd_repo docs).
Proof.
  intros sh docs. induction docs as [|d rest IH]; intros i H; [destruct H|].
  rewrite live_ids_cons in H. apply in_app_or in H. destruct H as [H|H]; [|right; auto].
  left. unfold live_id in H. destruct (nth_error (sh_repos sh) (sd_repo d)) as [r|]; [|destruct H].
  destruct (sr_tomb r); [destruct H|]. destruct H as [H|[]]. exact H.
Qed.
Lemma live_ids_sorted : forall sh docs, StronglySorted le (map sd_repo docs) -> StronglySorted le (live_ids sh docs).
Proof.
  intros sh docs. induction docs as [|d rest IH]; intros H; [constructor|].
  simpl in H. inversion H as [|? ? Hs Hall]; subst. rewrite live_ids_cons. specialize (IH Hs).
  unfold live_id. destruct (nth_error (sh_repos sh) (sd_repo d)) as [r|]; [|exact IH].
  destruct (sr_tomb r); [exact IH|]. simpl. constructor; auto.
  apply Forall_forall. intros i Hi. apply live_ids_incl in Hi. rewrite Forall_forall in Hall. auto.
Qed.

Lemma minv_mergeable : forall b, MInv b -> mergeable b.
Proof.
  intros b [M1 [M2 _]]. split; [apply live_ids_sorted; exact M2|].
  apply Forall_forall. intros d _ r Hr _. apply nth_error_In in Hr. rewrite Forall_forall in M1. auto.
Qed.

Lemma minv_empty : MInv empty_builder.
Proof. repeat split; constructor. Qed.

Lemma merge_output_mergeable : forall shards b, merge shards = Ok b -> mergeable b.
Proof.
  intros shards b H. apply minv_mergeable. unfold merge in H. destruct shards as [|s0 rest]; [discriminate|].
  eapply merge_loop_minv; eauto using minv_empty.
Qed.

(** explode after merge cannot fail either *)
Lemma merge_explode_total : forall shards, shards <> [] -> Forall wf_shard shards -> Forall mergeable shards ->
  exists b outs, merge shards = Ok b /\ explode b = Ok outs.
Proof.
  intros shards Hne Hwf Hmg. destruct (merge_total shards Hne Hwf Hmg) as [b Hb].
  destruct (explode_total b) as [outs Ho].
  - eapply binv_wf. apply merge_binv; eauto.
  - eapply merge_output_mergeable; eauto.
  - eauto.
Qed.

(** ---- the runner: an accepted case has inputs satisfying the theorems' hypotheses, and the implementation did
    not fail on it (so the Go oracle keys merge:error / explode:error agree with the Coq preconditions) *)
Lemma c16_pre_true : forall l, forallb c16_pre l = true -> Forall wf_shard l /\ Forall mergeable l.
Proof.
  intros l H. rewrite forallb_forall in H. split; apply Forall_forall; intros sh Hsh; specialize (H sh Hsh);
    unfold c16_pre in H; apply andb_prop in H; destruct H as [H1 H2].
  - apply wf_shardb_true; exact H1.
  - apply mergeableb_true; exact H2.
Qed.
(* c16_ok_no_failure: see Proofs/MergeDocsWidth.v (the runner evaluates merge_impl / explode_impl) *)

(** ---- necessity for explode: a successful explode implies that the shard was mergeable *)
Lemma explode_docs_ok_mergeable : forall sh docs cur last done outs,
  explode_docs sh docs cur last done = Ok outs ->
  (forall l r, last = Some l -> nth_error (sh_repos sh) l = Some r -> (length (sr_branches r) <= 64)%nat) ->
  StronglySorted le (live_ids sh docs) /\
  (forall l, last = Some l -> Forall (le l) (live_ids sh docs)) /\
  Forall (br64 sh) docs.
Proof.
  intros sh docs. induction docs as [|d rest IH]; intros cur last done outs H Hl64.
  - split; [constructor|]. split; [intros; constructor|constructor].
  - simpl in H. destruct (nth_error (sh_repos sh) (sd_repo d)) as [r|] eqn:Hr; [|discriminate].
    rewrite live_ids_cons, (live_id_at _ _ _ Hr).
    destruct (sr_tomb r) eqn:Et.
    { destruct (IH _ _ _ _ H Hl64) as [H1 [H2 H3]]. simpl. split; auto. split; auto.
      constructor; auto. intros r0 Hr0 Ht0. rewrite Hr in Hr0. inversion Hr0; subst. congruence. }
    assert (Hfin : forall b2 done', explode_docs sh rest (Some b2) (Some (sd_repo d)) done' = Ok outs ->
              (length (sr_branches r) <= 64)%nat -> (forall l, last = Some l -> (l <= sd_repo d)%nat) ->
              StronglySorted le ([sd_repo d] ++ live_ids sh rest) /\
              (forall l, last = Some l -> Forall (le l) ([sd_repo d] ++ live_ids sh rest)) /\
              Forall (br64 sh) (d :: rest)).
    { intros b2 done' H1 Hle Hlo. destruct (IH _ _ _ _ H1) as [S1 [S2 S3]].
      { intros l r0 Hl Hr0. inversion Hl; subst. rewrite Hr in Hr0. inversion Hr0; subst. exact Hle. }
      specialize (S2 _ eq_refl). simpl. split; [constructor; auto|]. split.
      - intros l Hl. specialize (Hlo l Hl). constructor; auto.
        eapply Forall_impl; [|exact S2]. intros a Ha. simpl in Ha. lia.
      - constructor; auto. intros r0 Hr0 _. rewrite Hr in Hr0. inversion Hr0; subst. exact Hle. }
    assert (Hfresh : forall done', (do b1 <- set_repo empty_builder r; do dd <- decode sh d; do b2 <- add_doc b1 dd;
                        explode_docs sh rest (Some b2) (Some (sd_repo d)) done') = Ok outs ->
              exists b2, explode_docs sh rest (Some b2) (Some (sd_repo d)) done' = Ok outs /\ (length (sr_branches r) <= 64)%nat).
    { intros done' H1. destruct (set_repo empty_builder r) as [b1| |] eqn:Es; simpl in H1; try discriminate.
      destruct (decode sh d) as [dd| |]; simpl in H1; try discriminate.
      destruct (add_doc b1 dd) as [b2| |]; simpl in H1; try discriminate.
      exists b2. split; auto. eapply set_repo_ok_le; eauto. }
    cbv zeta in H. destruct last as [l|].
    + destruct (Nat.eqb l (sd_repo d)) eqn:El.
      * apply Nat.eqb_eq in El. subst l. destruct cur as [b|]; [|discriminate].
        destruct (decode sh d) as [dd| |]; simpl in H; try discriminate.
        destruct (add_doc b dd) as [b2| |]; simpl in H; try discriminate.
        eapply Hfin; eauto. intros l Hl. inversion Hl; lia.
      * destruct (sd_repo d <? l)%nat eqn:Elt; [discriminate|]. apply Nat.ltb_ge in Elt.
        destruct (Hfresh _ H) as [b2 [H1 Hle]]. eapply Hfin; eauto.
        intros l0 Hl0. inversion Hl0; subst. exact Elt.
    + destruct (Hfresh _ H) as [b2 [H1 Hle]]. eapply Hfin; eauto. intros l0 Hl0. discriminate.
Qed.

Lemma explode_ok_mergeable : forall sh outs, explode sh = Ok outs -> mergeable sh.
Proof.
  intros sh outs H. unfold explode in H.
  destruct (explode_docs_ok_mergeable _ _ _ _ _ _ H) as [S1 [_ S3]]; [intros; discriminate|].
  split; auto.
Qed.
