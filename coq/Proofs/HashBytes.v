(** Injectivity of the byte encoding that Options.GetHash feeds into SHA-1 (Model/HashBytes.v), property C38.
    The encoding starts with an UNTERMINATED raw string (CTagsPath), so it cannot be parsed from the left; every
    component is, however, determined from the RIGHT end: [u ++ X a = v ++ X b -> u = v /\ a = b] for each kind
    of component X (under a condition on the last byte of u, v where needed), and the raw string is what remains. *)
From ZV Require Import Lib.Base Model.HashProg Model.Incremental Model.HashBytes Proofs.Incremental.
From Coq Require Import String Ascii Decimal DecimalN DecimalPos ZifyBool ZifyN.
Local Open Scope N_scope.

(** ---- last byte *)
Lemma last_app_ne {A} (u x : list A) d : x <> [] -> last (u ++ x) d = last x d.
Proof.
  intros Hx. induction u as [|a u IH]; [reflexivity|].
  simpl. destruct (u ++ x) eqn:E; [|exact IH].
  apply app_eq_nil in E. destruct E as [_ E]. contradiction.
Qed.
Lemma last_snoc {A} (u : list A) c d : last (u ++ [c]) d = c.
Proof. apply last_last. Qed.

Lemma app_snoc_inj {A} (u v : list A) a b : u ++ [a] = v ++ [b] -> u = v /\ a = b.
Proof. apply app_inj_tail. Qed.

(** two lists with the same suffix-class: a maximal run of P-bytes at the end is determined *)
Lemma suffix_class (P : N -> bool) : P 0 = false ->
  forall x y u v, forallb P x = true -> forallb P y = true ->
    P (last u 0) = false -> P (last v 0) = false -> u ++ x = v ++ y -> u = v /\ x = y.
Proof.
  intros P0 x. induction x as [|a x IH] using rev_ind; intros y u v Hx Hy Hu Hv E.
  - destruct y as [|c y _] using rev_ind.
    + rewrite !app_nil_r in E. auto.
    + exfalso. rewrite app_nil_r in E. subst u. rewrite app_assoc, last_snoc in Hu.
      rewrite forallb_app in Hy. apply andb_true_iff in Hy. destruct Hy as [_ Hc]. simpl in Hc.
      rewrite andb_true_r in Hc. congruence.
  - destruct y as [|c y _] using rev_ind.
    + exfalso. rewrite app_nil_r in E. subst v. rewrite app_assoc, last_snoc in Hv.
      rewrite forallb_app in Hx. apply andb_true_iff in Hx. destruct Hx as [_ Hc]. simpl in Hc.
      rewrite andb_true_r in Hc. congruence.
    + rewrite !app_assoc in E. apply app_snoc_inj in E. destruct E as [E ->].
      rewrite forallb_app in Hx, Hy. apply andb_true_iff in Hx, Hy. destruct Hx as [Hx _], Hy as [Hy _].
      destruct (IH y u v Hx Hy Hu Hv E) as [-> ->]. auto.
Qed.

(** ---- %t *)
Lemma fmt_t_suffix u v b1 b2 : u ++ fmt_t b1 = v ++ fmt_t b2 -> u = v /\ b1 = b2.
Proof.
  destruct b1, b2; unfold fmt_t; intros E.
  - apply app_inv_tail in E. auto.
  - exfalso. change (u ++ [116; 114; 117; 101]) with (u ++ [116; 114] ++ [117] ++ [101]) in E.
    change (v ++ [102; 97; 108; 115; 101]) with (v ++ [102; 97; 108] ++ [115] ++ [101]) in E.
    rewrite !app_assoc in E. apply app_snoc_inj in E. destruct E as [E _].
    apply app_snoc_inj in E. destruct E as [_ E]. discriminate E.
  - exfalso. change (v ++ [116; 114; 117; 101]) with (v ++ [116; 114] ++ [117] ++ [101]) in E.
    change (u ++ [102; 97; 108; 115; 101]) with (u ++ [102; 97; 108] ++ [115] ++ [101]) in E.
    rewrite !app_assoc in E. apply app_snoc_inj in E. destruct E as [E _].
    apply app_snoc_inj in E. destruct E as [_ E]. discriminate E.
  - apply app_inv_tail in E. auto.
Qed.
Lemma fmt_t_last b : last (fmt_t b) 0 = 101.
Proof. destruct b; reflexivity. Qed.
Lemma fmt_t_ne b : fmt_t b <> [].
Proof. destruct b; discriminate. Qed.

(** ---- %d *)
Definition is_digit (c : N) : bool := (48 <=? c) && (c <=? 57).
Definition is_num (c : N) : bool := is_digit c || (c =? 45).

Lemma uint_bytes_digits u : forallb is_digit (uint_bytes u) = true.
Proof. induction u; simpl; auto. Qed.
Lemma uint_bytes_inj u v : uint_bytes u = uint_bytes v -> u = v.
Proof.
  revert v. induction u; intros v E; destruct v; simpl in E; try discriminate; auto;
    injection E as E; f_equal; auto.
Qed.
Lemma dec_N_inj a b : dec_N a = dec_N b -> a = b.
Proof.
  unfold dec_N. intros E. apply uint_bytes_inj in E.
  rewrite <- (DecimalN.Unsigned.of_to a), <- (DecimalN.Unsigned.of_to b), E. reflexivity.
Qed.
Lemma dec_N_ne n : dec_N n <> [].
Proof.
  unfold dec_N. destruct n as [|p]; [discriminate|]. simpl.
  pose proof (DecimalPos.Unsigned.to_uint_nonnil p) as Hn.
  destruct (Pos.to_uint p); try discriminate. contradiction.
Qed.
Lemma dec_N_digits n : forallb is_digit (dec_N n) = true.
Proof. apply uint_bytes_digits. Qed.

Lemma forallb_last (P : N -> bool) x : x <> [] -> forallb P x = true -> P (last x 0) = true.
Proof.
  induction x as [|a x IH] using rev_ind; [contradiction|]. intros _ H.
  rewrite last_snoc. rewrite forallb_app in H. apply andb_true_iff in H. destruct H as [_ H].
  simpl in H. rewrite andb_true_r in H. exact H.
Qed.

(** sign and digits of %d *)
Definition d_sign (z : Z) : bytes := match z with Zneg _ => [45] | _ => [] end.
Definition d_abs (z : Z) : bytes := match z with Z0 => dec_N 0 | Zpos p => dec_N (Npos p) | Zneg p => dec_N (Npos p) end.
Lemma fmt_d_split z : fmt_d z = d_sign z ++ d_abs z.
Proof. destruct z; reflexivity. Qed.
Lemma fmt_d_ne z : fmt_d z <> [].
Proof. destruct z; simpl; try discriminate; apply dec_N_ne. Qed.
Lemma fmt_d_last_digit z : is_digit (last (fmt_d z) 0) = true.
Proof.
  rewrite fmt_d_split. assert (d_abs z <> []) as Hne by (destruct z; apply dec_N_ne).
  rewrite last_app_ne by exact Hne. apply forallb_last; [exact Hne|]. destruct z; apply dec_N_digits.
Qed.

Lemma fmt_d_suffix u v z1 z2 :
  is_num (last u 0) = false -> is_num (last v 0) = false -> u ++ fmt_d z1 = v ++ fmt_d z2 -> u = v /\ z1 = z2.
Proof.
  intros Hu Hv E. rewrite !fmt_d_split, !app_assoc in E.
  assert (forall w z, is_num (last w 0) = false -> is_digit (last (w ++ d_sign z) 0) = false) as Hs.
  { intros w z Hw. destruct z; simpl; rewrite ?app_nil_r; try (unfold is_num in Hw; apply orb_false_iff in Hw; tauto).
    rewrite last_snoc. reflexivity. }
  assert (forall z, forallb is_digit (d_abs z) = true) as Hd by (intros z; destruct z; apply dec_N_digits).
  destruct (suffix_class is_digit eq_refl _ _ _ _ (Hd z1) (Hd z2) (Hs u z1 Hu) (Hs v z2 Hv) E) as [E1 E2].
  assert (d_sign z1 = d_sign z2 /\ u = v) as [Es ->].
  { destruct z1, z2; simpl in E1; rewrite ?app_nil_r in E1; auto;
      try (apply app_snoc_inj in E1; destruct E1 as [-> _]; auto);
      exfalso.
    all: try (subst u; rewrite last_snoc in Hu; discriminate Hu).
    all: try (subst v; rewrite last_snoc in Hv; discriminate Hv). }
  split; [reflexivity|].
  destruct z1, z2; simpl in Es, E2; try discriminate Es; try reflexivity;
    apply dec_N_inj in E2; try discriminate E2; injection E2 as ->; reflexivity.
Qed.

(** ---- generic: a repeated suffix-determined component *)
Lemma rep_suffix_inj {E} (enc : E -> bytes) :
  (forall u v e1 e2, u ++ enc e1 = v ++ enc e2 -> u = v /\ e1 = e2) ->
  forall l1 l2 A1 A2, (forall u e, A1 <> u ++ enc e) -> (forall u e, A2 <> u ++ enc e) ->
    A1 ++ List.concat (map enc l1) = A2 ++ List.concat (map enc l2) -> A1 = A2 /\ l1 = l2.
Proof.
  intros Hstep l1. induction l1 as [|a l1 IH] using rev_ind; intros l2 A1 A2 H1 H2 Eq.
  - destruct l2 as [|c l2 _] using rev_ind.
    + simpl in Eq. rewrite !app_nil_r in Eq. auto.
    + exfalso. simpl in Eq. rewrite app_nil_r in Eq. rewrite map_app, concat_app in Eq. simpl in Eq.
      rewrite app_nil_r, app_assoc in Eq. exact (H1 _ _ Eq).
  - destruct l2 as [|c l2 _] using rev_ind.
    + exfalso. simpl in Eq. rewrite app_nil_r in Eq. rewrite map_app, concat_app in Eq. simpl in Eq.
      rewrite app_nil_r, app_assoc in Eq. symmetry in Eq. exact (H2 _ _ Eq).
    + rewrite !map_app, !concat_app in Eq. simpl in Eq. rewrite !app_nil_r, !app_assoc in Eq.
      destruct (Hstep _ _ _ _ Eq) as [Eq' ->].
      destruct (IH l2 A1 A2 H1 H2 Eq') as [-> ->]. auto.
Qed.

Section WithQuote.
  Variable qbody : str -> bytes.
  (** the two facts assumed about strconv.Quote: it is injective, and a double quote inside the quoted body is
      always escaped, i.e. directly preceded by a backslash *)
  Hypothesis qbody_inj : forall a b, qbody a = qbody b -> a = b.
  Hypothesis qbody_escaped : forall s pre post, qbody s = pre ++ 34 :: post -> exists pre', pre = pre' ++ [92].

  Notation quote := (quote qbody).
  Notation sp_quote := (sp_quote qbody).
  Notation fmt_q_list := (fmt_q_list qbody).

  Lemma quote_last s : last (quote s) 0 = 34.
  Proof. unfold HashBytes.quote. change (34 :: qbody s ++ [34]) with ((34 :: qbody s) ++ [34]). apply last_snoc. Qed.
  Lemma quote_ne s : quote s <> [].
  Proof. discriminate. Qed.

  Lemma quote_suffix u v a b :
    last u 0 <> 92 -> last v 0 <> 92 -> u ++ quote a = v ++ quote b -> u = v /\ a = b.
  Proof.
    intros Hu Hv E. unfold HashBytes.quote in E.
    change (u ++ 34 :: qbody a ++ [34]) with (u ++ (34 :: qbody a) ++ [34]) in E.
    change (v ++ 34 :: qbody b ++ [34]) with (v ++ (34 :: qbody b) ++ [34]) in E.
    rewrite !app_assoc in E. apply app_snoc_inj in E. destruct E as [E _].
    apply app_eq_app in E. destruct E as [l [[E1 E2]|[E1 E2]]].
    - destruct l as [|c l].
      + rewrite app_nil_r in E1. simpl in E2. injection E2 as E2. apply qbody_inj in E2. auto.
      + exfalso. simpl in E2. injection E2 as Hc E2. subst c.
        destruct (qbody_escaped _ _ _ E2) as [pre' ->]. subst u.
        apply Hu. change (v ++ 34 :: pre' ++ [92]) with (v ++ (34 :: pre') ++ [92]). rewrite app_assoc. apply last_snoc.
    - destruct l as [|c l].
      + rewrite app_nil_r in E1. simpl in E2. injection E2 as E2. apply qbody_inj in E2. auto.
      + exfalso. simpl in E2. injection E2 as Hc E2. subst c.
        destruct (qbody_escaped _ _ _ E2) as [pre' ->]. subst v.
        apply Hv. change (u ++ 34 :: pre' ++ [92]) with (u ++ (34 :: pre') ++ [92]). rewrite app_assoc. apply last_snoc.
  Qed.

  (** ---- %q of a []string *)
  Lemma sp_quote_last t : last (sp_quote t) 0 = 34.
  Proof.
    unfold HashBytes.sp_quote. change (32 :: quote t) with ([32] ++ quote t).
    rewrite last_app_ne by discriminate. apply quote_last.
  Qed.
  Lemma sp_quote_ne t : sp_quote t <> [].
  Proof. discriminate. Qed.
  Lemma sp_quote_suffix u v a b : u ++ sp_quote a = v ++ sp_quote b -> u = v /\ a = b.
  Proof.
    unfold HashBytes.sp_quote. intros E.
    change (u ++ 32 :: quote a) with (u ++ [32] ++ quote a) in E.
    change (v ++ 32 :: quote b) with (v ++ [32] ++ quote b) in E. rewrite !app_assoc in E.
    apply quote_suffix in E; try (rewrite last_snoc; discriminate).
    destruct E as [E ->]. apply app_snoc_inj in E. tauto.
  Qed.

  Lemma fmt_q_list_suffix u v l1 l2 : u ++ fmt_q_list l1 = v ++ fmt_q_list l2 -> u = v /\ l1 = l2.
  Proof.
    unfold HashBytes.fmt_q_list. intros E.
    set (c1 := match l1 with [] => [] | s :: r => quote s ++ List.concat (map sp_quote r) end) in E.
    set (c2 := match l2 with [] => [] | s :: r => quote s ++ List.concat (map sp_quote r) end) in E.
    change (u ++ 91 :: c1 ++ [93]) with (u ++ (91 :: c1) ++ [93]) in E.
    change (v ++ 91 :: c2 ++ [93]) with (v ++ (91 :: c2) ++ [93]) in E.
    rewrite !app_assoc in E. apply app_snoc_inj in E. destruct E as [E _].
    change (u ++ 91 :: c1) with (u ++ [91] ++ c1) in E. change (v ++ 91 :: c2) with (v ++ [91] ++ c2) in E.
    rewrite !app_assoc in E.
    (* a prefix ending in '[' or in a first element is not "something, a space, a quoted string" *)
    assert (forall w x t, (w ++ [91]) <> x ++ sp_quote t) as Hb.
    { intros w x t Hc. apply (f_equal (fun l => last l 0)) in Hc.
      rewrite last_snoc, last_app_ne in Hc by discriminate. unfold HashBytes.sp_quote in Hc.
      change (32 :: quote t) with ([32] ++ quote t) in Hc. rewrite last_app_ne, quote_last in Hc by discriminate. discriminate Hc. }
    assert (forall w s x t, (w ++ [91]) ++ quote s <> x ++ sp_quote t) as Hq.
    { intros w s x t Hc. unfold HashBytes.sp_quote in Hc. change (x ++ 32 :: quote t) with (x ++ [32] ++ quote t) in Hc.
      rewrite app_assoc in Hc. apply quote_suffix in Hc; try (rewrite last_snoc; discriminate).
      destruct Hc as [Hc _]. apply app_snoc_inj in Hc. destruct Hc as [_ Hc]. discriminate Hc. }
    destruct l1 as [|s1 r1], l2 as [|s2 r2]; subst c1 c2.
    - rewrite !app_nil_r in E. apply app_snoc_inj in E. tauto.
    - exfalso. rewrite app_nil_r, !app_assoc in E.
      apply (f_equal (fun l => last l 0)) in E. rewrite last_snoc in E.
      destruct r2 as [|t r2 _] using rev_ind.
      + simpl in E. rewrite app_nil_r, last_app_ne, quote_last in E by discriminate. discriminate E.
      + rewrite map_app, concat_app in E. cbn [map List.concat] in E. rewrite app_nil_r, !app_assoc in E.
        rewrite last_app_ne, sp_quote_last in E by apply sp_quote_ne. discriminate E.
    - exfalso. rewrite app_nil_r, !app_assoc in E. symmetry in E.
      apply (f_equal (fun l => last l 0)) in E. rewrite last_snoc in E.
      destruct r1 as [|t r1 _] using rev_ind.
      + simpl in E. rewrite app_nil_r, last_app_ne, quote_last in E by discriminate. discriminate E.
      + rewrite map_app, concat_app in E. cbn [map List.concat] in E. rewrite app_nil_r, !app_assoc in E.
        rewrite last_app_ne, sp_quote_last in E by apply sp_quote_ne. discriminate E.
    - rewrite !app_assoc in E.
      apply (rep_suffix_inj sp_quote sp_quote_suffix) in E; [|intros x t; apply Hq|intros x t; apply Hq].
      destruct E as [E ->]. apply quote_suffix in E; try (rewrite last_snoc; discriminate).
      destruct E as [E ->]. apply app_snoc_inj in E. tauto.
  Qed.
  Lemma fmt_q_list_last l : last (fmt_q_list l) 0 = 93.
  Proof.
    unfold HashBytes.fmt_q_list.
    set (c := match l with [] => [] | s :: r => quote s ++ List.concat (map sp_quote r) end).
    change (91 :: c ++ [93]) with ((91 :: c) ++ [93]). apply last_snoc.
  Qed.

  (** ---- the whole encoding of a typed option record, as GetHash of the checked tree writes it
      (tied to the generated program by [hash_bytes_enc] in Props/C38.v's cone: Proofs/HashBytesProg.v) *)
  Definition lit_tm : bytes := bytes_of_string "trigramMax=".
  Definition lit_sc : bytes := bytes_of_string "scipCTagsPath=".
  Definition lit_lm : bytes := bytes_of_string "languageMap=".
  Definition tm_enc (z : Z) : bytes := lit_tm ++ fmt_d z.
  Definition sc_enc (s : str) : bytes := lit_sc ++ quote s.
  Definition lm_enc (kn : str * N) : bytes := lit_lm ++ quote (fst kn) ++ 58 :: fmt_d (Z.of_N (snd kn)).

  Definition tm_written (d z : Z) : bool := negb (Z.eqb z 0) && negb (Z.eqb z d).
  Definition head_enc (r : hopts) : bytes :=
    ho_ctags_path r ++ fmt_t (ho_ctags_must_succeed r) ++ fmt_d (ho_size_max r) ++ fmt_q_list (ho_large_files r) ++
    fmt_t (ho_disable_ctags r).
  Definition opt_tm (d : Z) (r : hopts) : bytes := if tm_written d (ho_trigram_max r) then tm_enc (ho_trigram_max r) else [].
  Definition opt_sc (r : hopts) : bytes := match ho_scip_ctags_path r with [] => [] | _ => sc_enc (ho_scip_ctags_path r) end.
  Definition enc (d : Z) (r : hopts) : bytes :=
    ((head_enc r ++ opt_tm d r) ++ opt_sc r) ++ List.concat (map lm_enc (ho_language_map r)).

  Lemma tm_suffix u v z1 z2 : u ++ tm_enc z1 = v ++ tm_enc z2 -> u = v /\ z1 = z2.
  Proof.
    unfold tm_enc. intros E. rewrite !app_assoc in E.
    apply fmt_d_suffix in E; try (rewrite last_app_ne by discriminate; reflexivity).
    destruct E as [E ->]. apply app_inv_tail in E. auto.
  Qed.
  Lemma sc_suffix u v a b : u ++ sc_enc a = v ++ sc_enc b -> u = v /\ a = b.
  Proof.
    unfold sc_enc. intros E. rewrite !app_assoc in E.
    apply quote_suffix in E; try (rewrite last_app_ne by discriminate; discriminate).
    destruct E as [E ->]. apply app_inv_tail in E. auto.
  Qed.
  Lemma lm_suffix u v e1 e2 : u ++ lm_enc e1 = v ++ lm_enc e2 -> u = v /\ e1 = e2.
  Proof.
    destruct e1 as [k1 n1], e2 as [k2 n2]. unfold lm_enc. cbn [fst snd]. intros E.
    change (u ++ lit_lm ++ quote k1 ++ 58 :: fmt_d (Z.of_N n1)) with (u ++ lit_lm ++ quote k1 ++ [58] ++ fmt_d (Z.of_N n1)) in E.
    change (v ++ lit_lm ++ quote k2 ++ 58 :: fmt_d (Z.of_N n2)) with (v ++ lit_lm ++ quote k2 ++ [58] ++ fmt_d (Z.of_N n2)) in E.
    rewrite !app_assoc in E.
    apply fmt_d_suffix in E; try (rewrite last_snoc; reflexivity).
    destruct E as [E En]. apply N2Z.inj in En. subst n2.
    apply app_snoc_inj in E. destruct E as [E _].
    apply quote_suffix in E; try (rewrite last_app_ne by discriminate; discriminate).
    destruct E as [E ->]. apply app_inv_tail in E. auto.
  Qed.

  (** last bytes of the components *)
  Lemma tm_enc_last z : is_digit (last (tm_enc z) 0) = true.
  Proof. unfold tm_enc. rewrite last_app_ne by apply fmt_d_ne. apply fmt_d_last_digit. Qed.
  Lemma sc_enc_last s : last (sc_enc s) 0 = 34.
  Proof. unfold sc_enc. rewrite last_app_ne by discriminate. apply quote_last. Qed.
  Lemma lm_enc_last e : is_digit (last (lm_enc e) 0) = true.
  Proof.
    unfold lm_enc. change (lit_lm ++ quote (fst e) ++ 58 :: fmt_d (Z.of_N (snd e))) with (lit_lm ++ quote (fst e) ++ [58] ++ fmt_d (Z.of_N (snd e))).
    rewrite !app_assoc, last_app_ne by apply fmt_d_ne. apply fmt_d_last_digit.
  Qed.
  Lemma tm_enc_ne z : tm_enc z <> [].
  Proof. discriminate. Qed.
  Lemma sc_enc_ne s : sc_enc s <> [].
  Proof. discriminate. Qed.
  Lemma lm_enc_ne e : lm_enc e <> [].
  Proof. discriminate. Qed.
  Lemma head_enc_last r : last (head_enc r) 0 = 101.
  Proof. unfold head_enc. rewrite !app_assoc, last_app_ne by apply fmt_t_ne. apply fmt_t_last. Qed.

  (** a language-map entry is not confused with the end of what precedes the entries *)
  Lemma pre_lm_not_entry d r u e : (head_enc r ++ opt_tm d r) ++ opt_sc r <> u ++ lm_enc e.
  Proof.
    intros Hc. unfold opt_sc in Hc. destruct (ho_scip_ctags_path r) as [|c s] eqn:Hs.
    - rewrite app_nil_r in Hc. unfold opt_tm in Hc. destruct (tm_written d (ho_trigram_max r)).
      + (* ...trigramMax=<digits>  vs  ...languageMap="k":<digits> : the byte before the digits differs *)
        unfold tm_enc, lm_enc in Hc.
        change (u ++ lit_lm ++ quote (fst e) ++ 58 :: fmt_d (Z.of_N (snd e)))
          with (u ++ lit_lm ++ quote (fst e) ++ [58] ++ fmt_d (Z.of_N (snd e))) in Hc.
        rewrite !app_assoc in Hc.
        apply fmt_d_suffix in Hc; try (rewrite last_snoc; reflexivity); try (rewrite last_app_ne by discriminate; reflexivity).
        destruct Hc as [Hc _]. apply (f_equal (fun l => last l 0)) in Hc.
        rewrite last_snoc, last_app_ne in Hc by discriminate. discriminate Hc.
      + rewrite app_nil_r in Hc. apply (f_equal (fun l => last l 0)) in Hc.
        rewrite head_enc_last, last_app_ne in Hc by apply lm_enc_ne.
        pose proof (lm_enc_last e) as Hd. rewrite <- Hc in Hd. discriminate Hd.
    - apply (f_equal (fun l => last l 0)) in Hc.
      rewrite last_app_ne, sc_enc_last, last_app_ne in Hc by (try apply sc_enc_ne; apply lm_enc_ne).
      pose proof (lm_enc_last e) as Hd. rewrite <- Hc in Hd. discriminate Hd.
  Qed.

  Lemma head_tm_last d r : last (head_enc r ++ opt_tm d r) 0 <> 34.
  Proof.
    unfold opt_tm. destruct (tm_written d (ho_trigram_max r)).
    - rewrite last_app_ne by apply tm_enc_ne. pose proof (tm_enc_last (ho_trigram_max r)) as Hd.
      intros Hc. rewrite Hc in Hd. discriminate Hd.
    - rewrite app_nil_r, head_enc_last. discriminate.
  Qed.

  Lemma head_enc_inj r1 r2 : head_enc r1 = head_enc r2 ->
    ho_ctags_path r1 = ho_ctags_path r2 /\ ho_ctags_must_succeed r1 = ho_ctags_must_succeed r2 /\
    ho_size_max r1 = ho_size_max r2 /\ ho_large_files r1 = ho_large_files r2 /\ ho_disable_ctags r1 = ho_disable_ctags r2.
  Proof.
    unfold head_enc. intros E. rewrite !app_assoc in E.
    apply fmt_t_suffix in E. destruct E as [E Ed].
    apply fmt_q_list_suffix in E. destruct E as [E El].
    apply fmt_d_suffix in E; try (rewrite last_app_ne by apply fmt_t_ne; rewrite fmt_t_last; reflexivity).
    destruct E as [E Es]. apply fmt_t_suffix in E. destruct E as [Ep Em]. auto.
  Qed.

  (** equal encodings: every hashed value equal, TrigramMax up to "0 or the default d" *)
  Theorem enc_inj d r1 r2 : enc d r1 = enc d r2 ->
    ho_ctags_path r1 = ho_ctags_path r2 /\ ho_ctags_must_succeed r1 = ho_ctags_must_succeed r2 /\
    ho_size_max r1 = ho_size_max r2 /\ ho_large_files r1 = ho_large_files r2 /\ ho_disable_ctags r1 = ho_disable_ctags r2 /\
    ho_scip_ctags_path r1 = ho_scip_ctags_path r2 /\ ho_language_map r1 = ho_language_map r2 /\
    tm_written d (ho_trigram_max r1) = tm_written d (ho_trigram_max r2) /\
    (tm_written d (ho_trigram_max r1) = true -> ho_trigram_max r1 = ho_trigram_max r2).
  Proof.
    unfold enc. intros E.
    apply (rep_suffix_inj lm_enc lm_suffix) in E; [|intros u e; apply pre_lm_not_entry|intros u e; apply pre_lm_not_entry].
    destruct E as [E Elm].
    assert (head_enc r1 ++ opt_tm d r1 = head_enc r2 ++ opt_tm d r2 /\ ho_scip_ctags_path r1 = ho_scip_ctags_path r2) as [E2 Esc].
    { unfold opt_sc in E. destruct (ho_scip_ctags_path r1) as [|c1 s1] eqn:H1, (ho_scip_ctags_path r2) as [|c2 s2] eqn:H2.
      - rewrite !app_nil_r in E. auto.
      - exfalso. rewrite app_nil_r in E. apply (f_equal (fun l => last l 0)) in E.
        rewrite (last_app_ne _ (sc_enc _)), sc_enc_last in E by apply sc_enc_ne. exact (head_tm_last _ _ E).
      - exfalso. rewrite app_nil_r in E. symmetry in E. apply (f_equal (fun l => last l 0)) in E.
        rewrite (last_app_ne _ (sc_enc _)), sc_enc_last in E by apply sc_enc_ne. exact (head_tm_last _ _ E).
      - apply sc_suffix in E. exact E. }
    assert (head_enc r1 = head_enc r2 /\ tm_written d (ho_trigram_max r1) = tm_written d (ho_trigram_max r2) /\
            (tm_written d (ho_trigram_max r1) = true -> ho_trigram_max r1 = ho_trigram_max r2)) as (Eh & Ew & Etm).
    { unfold opt_tm in E2. destruct (tm_written d (ho_trigram_max r1)) eqn:W1, (tm_written d (ho_trigram_max r2)) eqn:W2.
      - apply tm_suffix in E2. destruct E2 as [E2 Ez]. auto.
      - exfalso. rewrite app_nil_r in E2. apply (f_equal (fun l => last l 0)) in E2.
        rewrite last_app_ne, head_enc_last in E2 by apply tm_enc_ne.
        pose proof (tm_enc_last (ho_trigram_max r1)) as Hd. rewrite E2 in Hd. discriminate Hd.
      - exfalso. rewrite app_nil_r in E2. symmetry in E2. apply (f_equal (fun l => last l 0)) in E2.
        rewrite last_app_ne, head_enc_last in E2 by apply tm_enc_ne.
        pose proof (tm_enc_last (ho_trigram_max r2)) as Hd. rewrite E2 in Hd. discriminate Hd.
      - rewrite !app_nil_r in E2. split; [exact E2|]. split; [reflexivity|discriminate]. }
    destruct (head_enc_inj _ _ Eh) as (Ep & Em & Es & El & Ed).
    repeat split; auto.
  Qed.
End WithQuote.
