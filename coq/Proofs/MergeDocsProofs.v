(** C16 — proofs: decode/encode round trip of addDocument + ShardBuilder.Add, builder invariant,
    merge / explode preserve the decoded view. *)
From ZV Require Import Lib.Base Model.MergeDocs.
From Coq Require Import Permutation.

(** ---- well-formed input shards *)
Definition wf_doc (sh : shard) (d : sdoc) : Prop :=
  exists r, nth_error (sh_repos sh) (sd_repo d) = Some r /\
            length (sd_mask d) = length (sr_branches r) /\ NoDup (sr_branches r) /\
            (sd_sub d < length (sr_subs r))%nat /\ NoDup (sr_subs r).
Definition wf_shard (sh : shard) : Prop := Forall (wf_doc sh) (sh_docs sh).

(** ---- index_of *)
Lemma index_of_some : forall x l i, index_of x l = Some i -> nth_error l i = Some x.
Proof.
  intros x l. induction l as [|y r IH]; simpl; intros i H; [discriminate|].
  destruct (N.eqb y x) eqn:E.
  - inversion H; subst. apply N.eqb_eq in E. subst. reflexivity.
  - destruct (index_of x r) as [j|]; simpl in H; inversion H; subst. simpl. auto.
Qed.
Lemma index_of_in : forall x l, In x l -> exists i, index_of x l = Some i.
Proof.
  intros x l. induction l as [|y r IH]; simpl; intros H; [destruct H|].
  destruct (N.eqb y x) eqn:E; [eauto|].
  destruct H as [H|H]; [subst; rewrite N.eqb_refl in E; discriminate|].
  destruct (IH H) as [i Hi]. rewrite Hi. simpl. eauto.
Qed.
Lemma index_of_lt : forall x l i, index_of x l = Some i -> (i < length l)%nat.
Proof. intros x l i H. apply index_of_some in H. apply nth_error_Some. congruence. Qed.
Lemma nth_of_nth_error : forall (l : list N) i x, nth_error l i = Some x -> nth i l 0%N = x.
Proof. intros l i x H. apply nth_error_nth with (d := 0%N) in H. exact H. Qed.

(** ---- branch masks *)
Lemma memN_In : forall x l, memN x l = true <-> In x l.
Proof.
  intros x l. unfold memN. rewrite existsb_exists. split.
  - intros [y [H1 H2]]. apply N.eqb_eq in H2. subst. exact H1.
  - intros H. exists x. split; auto. apply N.eqb_refl.
Qed.
Lemma select_incl : forall m l x, length m = length l -> In x (select m l) -> In x l.
Proof.
  induction m as [|b m IH]; intros l x Hl H; [destruct H|].
  destruct l as [|n ns]; [discriminate|]. simpl in *. inversion Hl as [Hl'].
  destruct b; [destruct H as [H|H]|]; auto.
Qed.
Lemma enc_bits_length : forall brs seen names, length (enc_bits brs seen names) = length brs.
Proof. induction brs; simpl; auto. Qed.

Lemma enc_bits_select : forall suf m seen names,
  NoDup suf -> (forall b, In b suf -> ~ In b seen) -> length m = length suf ->
  (forall b, In b suf -> (In b names <-> In b (select m suf))) ->
  enc_bits suf seen names = m.
Proof.
  induction suf as [|b suf IH]; intros m seen names Hnd Hseen Hl Hiff.
  - destruct m; [reflexivity|discriminate].
  - destruct m as [|mb m]; [discriminate|]. simpl. inversion Hl as [Hl']. inversion Hnd as [|? ? Hnb Hnd']; subst.
    f_equal.
    + assert (Hs : memN b seen = false).
      { destruct (memN b seen) eqn:E; auto. apply memN_In in E. exfalso. apply (Hseen b); simpl; auto. }
      rewrite Hs. simpl.
      destruct (Hiff b (or_introl eq_refl)) as [H1 H2]. simpl in H1, H2.
      destruct mb.
      * apply memN_In. apply H2. left; auto.
      * destruct (memN b names) eqn:E; auto. apply memN_In in E. apply H1 in E.
        exfalso. apply Hnb. eapply select_incl; eauto.
    + apply IH; auto.
      * intros b' Hb' [E|Hin]; [subst; auto|]. apply (Hseen b'); simpl; auto.
      * intros b' Hb'. destruct (Hiff b' (or_intror Hb')) as [H1 H2]. simpl in H1, H2.
        assert (Hne : b <> b') by (intro; subst; auto).
        split; intros H.
        -- apply H1 in H. destruct mb; [destruct H as [H|H]; [congruence|auto]|auto].
        -- apply H2. destruct mb; [right|]; auto.
Qed.

Lemma enc_mask_select : forall brs m, NoDup brs -> length m = length brs ->
  enc_mask brs (select m brs) = Some m.
Proof.
  intros brs m Hnd Hl. unfold enc_mask.
  assert (Hall : forallb (fun n => memN n brs) (select m brs) = true).
  { apply forallb_forall. intros x Hx. apply memN_In. eapply select_incl; eauto. }
  rewrite Hall. f_equal. apply enc_bits_select; auto. intros; tauto.
Qed.

(** ---- last_opt *)
Lemma last_opt_app : forall A (l : list A) x, last_opt (l ++ [x]) = Some x.
Proof. intros. unfold last_opt. rewrite rev_app_distr. reflexivity. Qed.
Lemma last_opt_nth : forall A (l : list A) x, last_opt l = Some x -> nth_error l (length l - 1) = Some x.
Proof.
  intros A l x H. unfold last_opt in H. destruct (rev l) as [|y r] eqn:E; inversion H; subst.
  assert (El : l = rev r ++ [x]) by (rewrite <- (rev_involutive l), E; reflexivity).
  rewrite El, app_length, rev_length. simpl.
  replace (length r + 1 - 1)%nat with (length (rev r)) by (rewrite rev_length; lia).
  rewrite nth_error_app2 by lia. rewrite Nat.sub_diag. reflexivity.
Qed.

(** ---- symbol metadata: a copied entry is never "missing" again *)
Lemma norm_sym_idem : forall s, norm_sym (norm_sym s) = norm_sym s.
Proof.
  intros [[a e] m]. unfold norm_sym. destruct (N.eqb m 0) eqn:E; [reflexivity|]. rewrite E. reflexivity.
Qed.
Lemma map_norm_sym_idem : forall l, map norm_sym (map norm_sym l) = map norm_sym l.
Proof. intros l. rewrite map_map. apply map_ext. apply norm_sym_idem. Qed.

(** ---- builder invariant: document i of the builder decodes to entry i of the expected view, and the
    builder is itself a well-formed shard *)
Definition doc_ok (b : shard) (d : sdoc) (e : srepo * ddoc) : Prop :=
  exists r, nth_error (sh_repos b) (sd_repo d) = Some r /\ sr_tomb r = false /\ r = fst e /\
            decode b d = Ok (snd e) /\ (sd_lang d < length (sh_langs b))%nat /\
            length (sd_mask d) = length (sr_branches r) /\ NoDup (sr_branches r) /\
            (sd_sub d < length (sr_subs r))%nat /\ NoDup (sr_subs r).
Definition BInv (b : shard) (V : list (srepo * ddoc)) : Prop := Forall2 (doc_ok b) (sh_docs b) V.

Definition extends (b b' : shard) : Prop :=
  (exists x, sh_repos b' = sh_repos b ++ x) /\ (exists y, sh_langs b' = sh_langs b ++ y).

Lemma doc_ok_extends : forall b b' d e, extends b b' -> doc_ok b d e -> doc_ok b' d e.
Proof.
  intros b b' d e [[x Hx] [y Hy]] [r [H1 [H2 [H3 [H4 [H5 H6]]]]]].
  assert (Hr : nth_error (sh_repos b') (sd_repo d) = Some r).
  { rewrite Hx. rewrite nth_error_app1; auto. apply nth_error_Some. congruence. }
  exists r. split; auto. split; auto. split; auto. split.
  - unfold decode in *. rewrite Hr. rewrite H1 in H4.
    destruct (nth_error (sr_subs r) (sd_sub d)); auto.
    rewrite Hy. rewrite app_nth1 by auto. exact H4.
  - split; auto. rewrite Hy, app_length. lia.
Qed.
Lemma Forall2_impl' : forall A B (P Q : A -> B -> Prop) l1 l2,
  (forall a b, P a b -> Q a b) -> Forall2 P l1 l2 -> Forall2 Q l1 l2.
Proof. induction 2; constructor; auto. Qed.
Lemma binv_extends : forall b b' V, extends b b' -> sh_docs b' = sh_docs b -> BInv b V -> BInv b' V.
Proof.
  intros b b' V He Hd H. unfold BInv in *. rewrite Hd.
  eapply Forall2_impl'; [|exact H]. intros; eapply doc_ok_extends; eauto.
Qed.

Lemma binv_viewr : forall b V, BInv b V -> viewr b = V.
Proof.
  intros b V H. unfold viewr, BInv in *. induction H as [|d e ds es Hd _ IH]; simpl; auto.
  rewrite IH. destruct Hd as [r [H1 [H2 [H3 [H4 _]]]]].
  unfold viewr_doc. rewrite H1, H4, H2. simpl. destruct e; simpl in *; subst; reflexivity.
Qed.
(** the id view is a projection of the repository view *)
Lemma view_viewr : forall sh, view sh = map id_entry (viewr sh).
Proof.
  intros sh. unfold view, viewr. induction (sh_docs sh) as [|d rest IH]; simpl; auto.
  rewrite map_app, IH. f_equal. unfold view_doc, viewr_doc.
  destruct (nth_error (sh_repos sh) (sd_repo d)) as [r|]; auto.
  destruct (decode sh d); auto. destruct (sr_tomb r); reflexivity.
Qed.
Lemma flat_map_view_viewr : forall l, flat_map view l = map id_entry (flat_map viewr l).
Proof.
  induction l as [|sh rest IH]; simpl; auto. rewrite map_app, IH, view_viewr. reflexivity.
Qed.
Lemma binv_view : forall b V, BInv b V -> view b = map id_entry V.
Proof. intros b V H. rewrite view_viewr, (binv_viewr _ _ H). reflexivity. Qed.
Lemma binv_wf : forall b V, BInv b V -> wf_shard b.
Proof.
  intros b V H. unfold wf_shard, BInv in *. induction H as [|d e ds es Hd _ IH]; constructor; auto.
  destruct Hd as [r [H1 [_ [_ [_ [_ [H6 [H7 [H8 H9]]]]]]]]]. exists r. auto.
Qed.

(** ---- one document: decode from the source shard, add to the builder whose current repo is the same repo *)
Lemma add_doc_ok : forall sh d r dd b V,
  nth_error (sh_repos sh) (sd_repo d) = Some r -> sr_tomb r = false ->
  length (sd_mask d) = length (sr_branches r) -> NoDup (sr_branches r) -> NoDup (sr_subs r) ->
  decode sh d = Ok dd -> last_opt (sh_repos b) = Some r -> BInv b V ->
  exists b', add_doc b dd = Ok b' /\ BInv b' (V ++ [(r, dd)]) /\ sh_repos b' = sh_repos b.
Proof.
  intros sh d r dd b V Hr Ht Hm Hnb Hns Hdec Hlast HB.
  unfold decode in Hdec. rewrite Hr in Hdec.
  destruct (nth_error (sr_subs r) (sd_sub d)) as [sub|] eqn:Esub; [|discriminate].
  inversion Hdec; subst dd; clear Hdec.
  unfold add_doc. rewrite Hlast. simpl.
  destruct (index_of_in sub (sr_subs r)) as [si Hsi]. { eapply nth_error_In; eauto. }
  rewrite Hsi. rewrite (enc_mask_select _ _ Hnb Hm).
  set (lang := nth (sd_lang d) (sh_langs sh) 0%N).
  set (lc := match index_of lang (sh_langs b) with
             | Some c => (sh_langs b, c)
             | None => (sh_langs b ++ [lang], length (sh_langs b)) end).
  eexists. split; [reflexivity|]. split; [|reflexivity].
  set (b' := {| sh_repos := sh_repos b; sh_langs := fst lc; sh_docs := _ |}).
  assert (Hext : extends b b').
  { split; [exists []; simpl; rewrite app_nil_r; reflexivity|].
    unfold lc. destruct (index_of lang (sh_langs b)); simpl; [exists []; rewrite app_nil_r|exists [lang]]; reflexivity. }
  assert (Hlc : nth (snd lc) (fst lc) 0%N = lang /\ (snd lc < length (fst lc))%nat).
  { unfold lc. destruct (index_of lang (sh_langs b)) as [c|] eqn:Ec; simpl.
    - split; [apply nth_of_nth_error, index_of_some; auto|eapply index_of_lt; eauto].
    - rewrite app_nth2, Nat.sub_diag by lia. rewrite app_length. simpl. split; [reflexivity|lia]. }
  unfold BInv. simpl. apply Forall2_app.
  - eapply Forall2_impl'; [|exact HB]. intros; eapply doc_ok_extends; eauto.
  - constructor; [|constructor]. exists r. simpl.
    assert (Hn : nth_error (sh_repos b) (length (sh_repos b) - 1) = Some r) by (apply last_opt_nth; auto).
    split; [exact Hn|]. split; auto. split; auto. split.
    + unfold decode. simpl. rewrite Hn. rewrite (index_of_some _ _ _ Hsi). destruct Hlc as [Hl1 _]. rewrite Hl1.
      rewrite map_norm_sym_idem. reflexivity.
    + split; [apply Hlc|]. split; [exact Hm|]. split; auto. split; auto. eapply index_of_lt; eauto.
Qed.

Lemma set_repo_ok : forall b r b' V, set_repo b r = Ok b' -> BInv b V ->
  BInv b' V /\ last_opt (sh_repos b') = Some r /\ sh_repos b' = sh_repos b ++ [r] /\ sh_docs b' = sh_docs b.
Proof.
  intros b r b' V H HB. unfold set_repo in H. destruct (64 <? length (sr_branches r))%nat; inversion H; subst; simpl.
  split; [|split; [apply last_opt_app|auto]].
  apply (binv_extends b); auto. split; simpl; [eauto|exists []; rewrite app_nil_r; reflexivity].
Qed.

(** the builder's current repository is the source shard's repository number [l] *)
Definition Cur (sh b : shard) (last : option nat) : Prop :=
  match last with
  | Some l => exists r, nth_error (sh_repos sh) l = Some r /\ last_opt (sh_repos b) = Some r
  | None => True
  end.

Lemma view_doc_wf : forall sh d r, nth_error (sh_repos sh) (sd_repo d) = Some r ->
  viewr_doc sh d = match decode sh d with Ok dd => if sr_tomb r then [] else [(r, dd)] | _ => [] end.
Proof. intros sh d r H. unfold viewr_doc. rewrite H. reflexivity. Qed.

(** ---- merge's loop over the documents of one input shard *)
Lemma copy_docs_view : forall sh docs b last V b',
  Forall (wf_doc sh) docs -> BInv b V -> Cur sh b last ->
  copy_docs sh docs b last = Ok b' ->
  BInv b' (V ++ flat_map (viewr_doc sh) docs).
Proof.
  intros sh docs. induction docs as [|d rest IH]; intros b last V b' Hwf HB HC H; simpl in *.
  - inversion H; subst. rewrite app_nil_r. exact HB.
  - inversion Hwf as [|? ? Hd Hrest]; subst.
    destruct Hd as [r [Hr [Hm [Hnb [Hsub Hns]]]]]. rewrite Hr in H.
    rewrite (view_doc_wf _ _ _ Hr).
    destruct (sr_tomb r) eqn:Et.
    { destruct (decode sh d); simpl; eauto. }
    assert (Hstep : forall b1, last_opt (sh_repos b1) = Some r -> forall V1, BInv b1 V1 -> V1 = V ->
              (do dd <- decode sh d; do b2 <- add_doc b1 dd; copy_docs sh rest b2 (Some (sd_repo d))) = Ok b' ->
              BInv b' (V ++ (match decode sh d with Ok dd => [(r, dd)] | _ => [] end) ++ flat_map (viewr_doc sh) rest)).
    { intros b1 Hl1 V1 HB1 -> H1. destruct (decode sh d) as [dd| |] eqn:Ed; simpl in H1; try discriminate.
      destruct (add_doc_ok sh d r dd b1 V Hr Et Hm Hnb Hns Ed Hl1 HB1) as [b2 [Ha [HB2 Hrep]]].
      rewrite Ha in H1. simpl in H1. rewrite app_assoc. eapply IH; eauto.
      simpl. exists r. split; auto. rewrite Hrep. auto. }
    destruct last as [l|].
    + destruct (Nat.eqb l (sd_repo d)) eqn:El.
      * apply Nat.eqb_eq in El. subst l. simpl in H. destruct HC as [r' [Hr' Hl']].
        rewrite Hr in Hr'. inversion Hr'; subst r'. eapply Hstep; eauto.
      * destruct (sd_repo d <? l)%nat; [discriminate|].
        destruct (set_repo b r) as [b1| |] eqn:Es; simpl in H; try discriminate.
        destruct (set_repo_ok _ _ _ _ Es HB) as [HB1 [Hl1 _]]. eapply Hstep; eauto.
    + destruct (set_repo b r) as [b1| |] eqn:Es; simpl in H; try discriminate.
      destruct (set_repo_ok _ _ _ _ Es HB) as [HB1 [Hl1 _]]. eapply Hstep; eauto.
Qed.

Lemma merge_loop_view : forall shards b V b',
  Forall wf_shard shards -> BInv b V -> merge_loop shards b = Ok b' ->
  BInv b' (V ++ flat_map viewr shards).
Proof.
  induction shards as [|sh rest IH]; intros b V b' Hwf HB H; simpl in *.
  - inversion H; subst. rewrite app_nil_r. exact HB.
  - inversion Hwf; subst.
    destruct (copy_docs sh (sh_docs sh) b None) as [b1| |] eqn:Ec; simpl in H; try discriminate.
    rewrite app_assoc. eapply IH; eauto. eapply copy_docs_view; eauto. simpl. exact I.
Qed.

Lemma ins_prio_perm : forall x l, Permutation (ins_prio x l) (x :: l).
Proof.
  intros x l. induction l as [|y r IH]; simpl; auto.
  destruct (shard_prio y <? shard_prio x)%N; auto.
  eapply perm_trans; [apply perm_skip, IH|apply perm_swap].
Qed.
Lemma sort_prio_perm : forall l, Permutation (sort_prio l) l.
Proof.
  induction l as [|x r IH]; simpl; auto.
  eapply perm_trans; [apply ins_prio_perm|]. apply perm_skip, IH.
Qed.

Lemma binv_empty : BInv empty_builder [].
Proof. constructor. Qed.

Lemma merge_binv : forall shards b, Forall wf_shard shards -> merge shards = Ok b ->
  BInv b (flat_map viewr (sort_prio shards)).
Proof.
  intros shards b Hwf H. unfold merge in H. destruct shards as [|s0 rest]; [discriminate|].
  change (flat_map viewr (sort_prio (s0 :: rest))) with ([] ++ flat_map viewr (sort_prio (s0 :: rest))).
  eapply merge_loop_view; eauto using binv_empty.
  eapply Permutation_Forall; [apply Permutation_sym, sort_prio_perm|exact Hwf].
Qed.

Lemma Forall_app_intro : forall A (P : A -> Prop) l1 l2, Forall P l1 -> Forall P l2 -> Forall P (l1 ++ l2).
Proof. intros. apply Forall_app. split; auto. Qed.

(** ---- explode's loop *)
Definition single (o : shard) : Prop := length (sh_repos o) = 1%nat.

Lemma add_doc_repos : forall b dd b', add_doc b dd = Ok b' -> sh_repos b' = sh_repos b.
Proof.
  intros b dd b' H. unfold add_doc in H.
  destruct (last_opt (sh_repos b)); try discriminate.
  destruct (index_of (dd_sub dd) (sr_subs s)); try discriminate.
  destruct (enc_mask (sr_branches s) (dd_branches dd)); try discriminate.
  inversion H; subst; reflexivity.
Qed.

Lemma explode_docs_view : forall sh docs cur last done Vc outs,
  Forall (wf_doc sh) docs ->
  match cur with
  | Some b => BInv b Vc /\ Cur sh b last /\ single b /\ last <> None
  | None => Vc = [] /\ last = None
  end ->
  Forall single done ->
  explode_docs sh docs cur last done = Ok outs ->
  flat_map viewr outs = flat_map viewr done ++ Vc ++ flat_map (viewr_doc sh) docs /\ Forall single outs.
Proof.
  intros sh docs. induction docs as [|d rest IH]; intros cur last done Vc outs Hwf Hcur Hdone H; simpl in *.
  - inversion H; subst. rewrite flat_map_app, app_nil_r. destruct cur as [b|]; simpl.
    + destruct Hcur as [HB [_ [Hs _]]]. rewrite app_nil_r, (binv_viewr _ _ HB). split; auto.
      apply Forall_app_intro; auto.
    + destruct Hcur as [-> _]. split; auto. apply Forall_app_intro; auto.
  - inversion Hwf as [|? ? Hd Hrest]; subst.
    destruct Hd as [r [Hr [Hm [Hnb [Hsub Hns]]]]]. rewrite Hr in H.
    rewrite (view_doc_wf _ _ _ Hr).
    destruct (sr_tomb r) eqn:Et.
    { destruct (decode sh d); simpl; eauto. }
    destruct (decode sh d) as [dd| |] eqn:Ed.
    2:{ destruct last as [l|]; [destruct (Nat.eqb l (sd_repo d)); [destruct cur; simpl in H; discriminate|
          destruct (sd_repo d <? l)%nat; [discriminate|destruct (set_repo empty_builder r); simpl in H; discriminate]]|
          destruct (set_repo empty_builder r); simpl in H; discriminate]. }
    2:{ destruct last as [l|]; [destruct (Nat.eqb l (sd_repo d)); [destruct cur; simpl in H; discriminate|
          destruct (sd_repo d <? l)%nat; [discriminate|destruct (set_repo empty_builder r); simpl in H; discriminate]]|
          destruct (set_repo empty_builder r); simpl in H; discriminate]. }
    (* a fresh builder for repo r *)
    assert (Hfresh : forall done', Forall single done' ->
              flat_map viewr done' = flat_map viewr done ++ Vc ->
              (do b1 <- set_repo empty_builder r; do dd0 <- Ok dd; do b2 <- add_doc b1 dd0;
               explode_docs sh rest (Some b2) (Some (sd_repo d)) done') = Ok outs ->
              flat_map viewr outs = flat_map viewr done ++ Vc ++ ([(r, dd)] ++ flat_map (viewr_doc sh) rest) /\ Forall single outs).
    { intros done' Hd' Hv H1.
      destruct (set_repo empty_builder r) as [b1| |] eqn:Es; simpl in H1; try discriminate.
      destruct (set_repo_ok _ _ _ _ Es binv_empty) as [HB1 [Hl1 [Hrep1 _]]].
      destruct (add_doc_ok sh d r dd b1 [] Hr Et Hm Hnb Hns Ed Hl1 HB1) as [b2 [Ha [HB2 Hrep]]].
      rewrite Ha in H1. simpl in H1.
      destruct (IH (Some b2) (Some (sd_repo d)) done' [(r, dd)] outs Hrest) as [HV HS]; auto.
      - split; [exact HB2|]. split; [exists r; rewrite Hrep; auto|]. split; [|discriminate].
        unfold single. rewrite Hrep, Hrep1. reflexivity.
      - split; auto. rewrite HV, Hv. rewrite <- !app_assoc. reflexivity. }
    destruct last as [l|].
    + destruct (Nat.eqb l (sd_repo d)) eqn:El.
      * apply Nat.eqb_eq in El. subst l. destruct cur as [b|]; [|destruct Hcur; discriminate].
        destruct Hcur as [HB [[r' [Hr' Hl']] [Hs _]]]. rewrite Hr in Hr'. inversion Hr'; subst r'.
        simpl in H.
        destruct (add_doc_ok sh d r dd b Vc Hr Et Hm Hnb Hns Ed Hl' HB) as [b2 [Ha [HB2 Hrep]]].
        rewrite Ha in H. simpl in H.
        destruct (IH (Some b2) (Some (sd_repo d)) done (Vc ++ [(r, dd)]) outs Hrest) as [HV HS]; auto.
        -- split; [exact HB2|]. split; [exists r; rewrite Hrep; auto|]. split; [|discriminate].
           unfold single in *. rewrite Hrep. exact Hs.
        -- split; auto. rewrite HV. rewrite <- !app_assoc. reflexivity.
      * destruct (sd_repo d <? l)%nat; [discriminate|].
        apply Hfresh in H; auto.
        -- destruct cur as [b|]; simpl; [|apply Forall_app_intro; auto].
           destruct Hcur as [_ [_ [Hs _]]]. apply Forall_app_intro; auto.
        -- rewrite flat_map_app. destruct cur as [b|]; simpl.
           ++ destruct Hcur as [HB _]. rewrite app_nil_r, (binv_viewr _ _ HB). reflexivity.
           ++ destruct Hcur as [-> _]. reflexivity.
    + destruct cur as [b|]; [destruct Hcur as [_ [_ [_ Hn]]]; congruence|].
      destruct Hcur as [-> _]. apply Hfresh in H; auto.
      * simpl. apply Forall_app_intro; auto.
      * rewrite flat_map_app. simpl. reflexivity.
Qed.

(** ---- the view theorems, for the repository view and (projected) for the id view *)
Lemma merge_viewr : forall shards b, Forall wf_shard shards -> merge shards = Ok b ->
  viewr b = flat_map viewr (sort_prio shards).
Proof. intros shards b Hwf H. apply binv_viewr. apply merge_binv; auto. Qed.
Lemma merge_view : forall shards b, Forall wf_shard shards -> merge shards = Ok b ->
  view b = flat_map view (sort_prio shards).
Proof.
  intros shards b Hwf H. rewrite view_viewr, (merge_viewr _ _ Hwf H), flat_map_view_viewr. reflexivity.
Qed.
Lemma explode_viewr : forall sh outs, wf_shard sh -> explode sh = Ok outs ->
  flat_map viewr outs = viewr sh /\ Forall single outs.
Proof.
  intros sh outs Hwf H. unfold explode in H.
  destruct (explode_docs_view sh (sh_docs sh) None None [] [] outs Hwf (conj eq_refl eq_refl) (Forall_nil _) H) as [H1 H2].
  split; auto.
Qed.
Lemma explode_view : forall sh outs, wf_shard sh -> explode sh = Ok outs ->
  flat_map view outs = view sh /\ Forall single outs.
Proof.
  intros sh outs Hwf H. destruct (explode_viewr sh outs Hwf H) as [H1 H2]. split; auto.
  rewrite flat_map_view_viewr, H1, view_viewr. reflexivity.
Qed.
