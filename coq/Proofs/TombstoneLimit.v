(** C17 — the document loop under ShardRepoMaxMatchCount (Model/Tombstone.v [search_lim]) never returns anything the
    unlimited search does not return, so everything proved hidden stays hidden for every limit. *)
From ZV Require Import Lib.Base Model.Tombstone Proofs.TombstoneProofs.
From Coq Require Import Lia.

Lemma search_from_lim_sub : forall rs q lim wt ds i last rmc x,
  In x (search_from_lim rs q lim wt ds i last rmc) -> In x (search_from rs q ds i).
Proof.
  intros rs q lim wt ds. induction ds as [|d t IH]; intros i last rmc x H; cbn in *; [exact H|].
  destruct (visible rs d) as [r|]; [|eapply IH; exact H].
  destruct ((0 <? lim)%N && ((lim <=? rmc)%N && Nat.eqb (d_repo d) last)).
  - destruct (eval q r d); [right|]; eapply IH; exact H.
  - destruct (eval q r d).
    + destruct H as [H|H]; [left; exact H | right; eapply IH; exact H].
    + eapply IH; exact H.
Qed.

Lemma search_from_lim_zero : forall rs q wt ds i last rmc,
  search_from_lim rs q 0 wt ds i last rmc = search_from rs q ds i.
Proof.
  intros rs q wt ds. induction ds as [|d t IH]; intros i last rmc; cbn; [reflexivity|].
  destruct (visible rs d) as [r|]; [|apply IH].
  destruct (eval q r d); [f_equal|]; apply IH.
Qed.

Lemma search_lim_sub : forall v q lim wt x, In x (search_lim v q lim wt) -> In x (search v q).
Proof.
  intros v q lim wt x. unfold search_lim, search.
  destruct (simplify (v_repos v) q) as [[|]| | | | |]; try (intro H; exact H); apply search_from_lim_sub.
Qed.

Lemma search_lim_zero : forall v q wt, search_lim v q 0 wt = search v q.
Proof.
  intros v q wt. unfold search_lim, search.
  destruct (simplify (v_repos v) q) as [[|]| | | | |]; try reflexivity; apply search_from_lim_zero.
Qed.
