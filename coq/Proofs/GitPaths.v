(** C14: the cat-file reading path and the go-git reading path produce the same documents
    (Model/GitWalk.v: docs_catfile vs docs_gogit), on top of the reader refinement of Proofs/Catfile.v. *)
From ZV Require Import Lib.Base Model.DirWalk Model.Catfile Model.GitWalk Proofs.Catfile Proofs.GitWalk.

(** ---------- decimal rendering of sizes (what git prints) parses back *)

Lemma digit_of_mod : forall n, is_digit (48 + n mod 10)%N = true.
Proof.
  intro n. pose proof (N.mod_upper_bound n 10 ltac:(discriminate)) as H.
  remember (n mod 10)%N as m. unfold is_digit. apply andb_true_iff. split; apply N.leb_le; lia.
Qed.

Lemma dec_aux_spec : forall fuel n acc,
  N.to_nat n < fuel -> all_digits acc ->
  all_digits (dec_digits_aux fuel n acc) /\ dec_digits_aux fuel n acc <> [] /\
  digits_value (dec_digits_aux fuel n acc) 0 = digits_value acc (Z.of_N n).
Proof.
  induction fuel as [|fuel IH]; intros n acc Hf Hacc; [lia|]. cbn [dec_digits_aux].
  assert (Hd : is_digit (48 + n mod 10)%N = true) by apply digit_of_mod.
  assert (Hval : forall a, digits_value ((48 + n mod 10)%N :: acc) a = digits_value acc (a * 10 + Z.of_N (n mod 10))).
  { intro a. cbn [digits_value]. rewrite Hd. remember (n mod 10)%N as m. f_equal. lia. }
  destruct (n <? 10)%N eqn:E.
  - apply N.ltb_lt in E. split; [constructor; assumption|]. split; [discriminate|].
    rewrite Hval. rewrite N.mod_small by assumption. reflexivity.
  - apply N.ltb_ge in E.
    assert (Hlt : (n / 10 < n)%N) by (apply N.div_lt; lia).
    destruct (IH (n / 10)%N ((48 + n mod 10)%N :: acc)) as (I1 & I2 & I3); [lia|constructor; assumption|].
    split; [exact I1|]. split; [exact I2|]. rewrite I3, Hval. f_equal.
    pose proof (N.div_mod n 10 ltac:(discriminate)) as Hdm.
    remember (n mod 10)%N as m. remember (n / 10)%N as q. lia.
Qed.

Lemma dec_digits_spec : forall n,
  all_digits (dec_digits n) /\ dec_digits n <> [] /\ digits_value (dec_digits n) 0 = Some (Z.of_nat n).
Proof.
  intro n. unfold dec_digits. destruct (dec_aux_spec (S n) (N.of_nat n) []) as (H1 & H2 & H3); [lia|constructor|].
  split; [exact H1|]. split; [exact H2|]. rewrite H3. cbn [digits_value]. f_equal. lia.
Qed.

Lemma response_for_wf : forall blobs id,
  (forall c, lookup_blob id blobs = Some c -> (Z.of_nat (length c) <= max_int)%Z) ->
  wf_resp (response_for blobs id).
Proof.
  intros blobs id H. unfold response_for.
  assert (Hoid : no_byte 10 (oid_of id)).
  { unfold oid_of. destruct (dec_digits_spec (N.to_nat id)) as (Hd & _). eapply all_digits_no_byte; [exact Hd|lia]. }
  destruct (lookup_blob id blobs) as [c|] eqn:E; cbn [wf_resp]; [|exact Hoid].
  destruct (dec_digits_spec (length c)) as (Hd & Hne & Hv).
  split; [exact Hoid|]. split; [intro Hin; cbn in Hin; intuition discriminate|].
  split; [exact Hne|]. split; [exact Hd|]. split; [exact Hv|]. apply H. reflexivity.
Qed.

(** ---------- the two reading paths agree *)

Definition present (blobs : list (N * bytes)) (f : gkey * list bytes) : Prop :=
  exists c, lookup_blob (snd (fst f)) blobs = Some c /\ (Z.of_nat (length c) <= max_int)%Z.

Lemma catfile_loop_agrees : forall size_max large_ok blobs avail fs cur,
  (forall i, 1 <= avail i) ->
  (forall f, In f fs -> present blobs f) ->
  (forall id c, lookup_blob id blobs = Some c -> (Z.of_nat (length c) <= max_int)%Z) ->
  docs_catfile_loop size_max large_ok avail
    (conc (cur, map (fun f => response_for blobs (snd (fst f))) fs)) fs
  = Ok (map (doc_gogit size_max large_ok blobs) fs).
Proof.
  intros size_max large_ok blobs avail fs. induction fs as [|[[path id] brs] fs IH]; intros cur Hav Hpres Hmax; [reflexivity|].
  cbn [docs_catfile_loop map fst snd].
  rewrite cf_next_sim.
  2:{ cbn [snd]. constructor; [apply response_for_wf; intros c Hc; eapply Hmax; exact Hc|].
      apply Forall_forall. intros r Hr. apply in_map_iff in Hr. destruct Hr as [f [Hf _]]. subst r.
      apply response_for_wf. intros c Hc. eapply Hmax. exact Hc. }
  unfold abs_next. cbn [snd fst].
  destruct (Hpres ((path, id), brs) (or_introl eq_refl)) as (c & Hc & Hcmax). cbn [fst snd] in Hc.
  assert (Hresp : response_for blobs id = RPresent (oid_of id) s_blob (dec_digits (length c)) c) by (unfold response_for; rewrite Hc; reflexivity).
  rewrite !Hresp. cbn [content_after info].
  unfold doc_gogit at 1. rewrite Hc.
  assert (Hcmp : (Z.of_nat size_max <? Z.of_nat (length c))%Z = (size_max <? length c)).
  { destruct (size_max <? length c) eqn:E; [apply Nat.ltb_lt in E; apply Z.ltb_lt; lia|apply Nat.ltb_ge in E; apply Z.ltb_ge; lia]. }
  rewrite Hcmp.
  assert (IHs : forall cur', docs_catfile_loop size_max large_ok avail
            (conc (cur', map (fun f => response_for blobs (snd (fst f))) fs)) fs
            = Ok (map (doc_gogit size_max large_ok blobs) fs)).
  { intro cur'. apply IH; [assumption|intros f Hf; apply Hpres; right; exact Hf|assumption]. }
  destruct ((size_max <? length c) && negb (large_ok path)) eqn:Ebig.
  - rewrite IHs. reflexivity.
  - assert (Hneg : (Z.of_nat (length c) <? 0)%Z = false) by (apply Z.ltb_ge; lia). rewrite Hneg.
    rewrite Nat2Z.id.
    destruct c as [|x c'].
    + cbn [length read_full]. rewrite IHs. reflexivity.
    + rewrite read_full_spec; [|assumption|discriminate|lia]. cbn [app]. rewrite IHs. reflexivity.
Qed.

(** paths_agree: with every requested blob in the object store, for every chunking of the pipe *)
Theorem paths_agree : forall size_max large_ok blobs avail bs,
  (forall i, 1 <= avail i) ->
  (forall f, In f (collect bs) -> present blobs f) ->
  (forall id c, lookup_blob id blobs = Some c -> (Z.of_nat (length c) <= max_int)%Z) ->
  docs_catfile size_max large_ok blobs avail bs = Ok (docs_gogit size_max large_ok blobs bs).
Proof.
  intros size_max large_ok blobs avail bs Hav Hpres Hmax. unfold docs_catfile, docs_gogit.
  change (cf_init (encode (map (fun f => response_for blobs (snd (fst f))) (collect bs))))
    with (conc (None, map (fun f => response_for blobs (snd (fst f))) (collect bs))).
  apply catfile_loop_agrees; assumption.
Qed.
