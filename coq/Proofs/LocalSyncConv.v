(** Proofs for C34 (discovery, fail-before-change, convergence, remove exactness) over Model/LocalSync.v. *)
From ZV Require Import Lib.Base Model.LocalSync Proofs.LocalSync.
From Coq Require Import Permutation.

(** A failing discovery (colliding names, a repository reached through two roots, a bad root) makes sync -f
    stop before any shard operation: the op log holds the directory lock only and the index is unchanged. *)
Theorem discovery_error_no_shard_ops : forall m tree w roots inv e,
  discover tree roots = Err e ->
  shard_ops (r_ops (run_sync m tree w roots inv)) = [] /\
  apply_ops inv (r_ops (run_sync m tree w roots inv)) = inv /\
  r_out (run_sync m tree w roots inv) = [] /\ r_status (run_sync m tree w roots inv) = e.
Proof.
  intros m tree w roots inv e H. unfold run_sync. rewrite H. destruct m; cbn; repeat split; reflexivity.
Qed.

(** ------------------------------------------------------------------ removing files = filtering *)
Lemma apply_remove_files fs : forall inv,
  apply_ops inv (map OpRemoveShard fs) = filter (fun sh => negb (existsb (fkey_eqb (sh_file sh)) fs)) inv.
Proof.
  unfold apply_ops. induction fs as [|g fs IH]; intros inv; cbn [map fold_left existsb].
  - induction inv as [|sh inv IHi]; cbn; [reflexivity|]. f_equal. exact IHi.
  - rewrite IH. cbn [apply_op]. unfold remove_file.
    induction inv as [|sh inv IHi]; cbn; [reflexivity|].
    destruct (fkey_eqb (sh_file sh) g) eqn:Eg; cbn; [exact IHi|].
    destruct (existsb (fkey_eqb (sh_file sh)) fs); cbn; [exact IHi|]. f_equal. exact IHi.
Qed.

Lemma apply_ops_app inv a b : apply_ops inv (a ++ b) = apply_ops (apply_ops inv a) b.
Proof. unfold apply_ops. apply fold_left_app. Qed.

Lemma filter_map_files {A} (sel : shard -> bool) (mk : shard -> A) (file : A -> fkey) inv :
  (forall sh, file (mk sh) = sh_file sh) ->
  map file (filter_map (fun sh => if sel sh then Some (mk sh) else None) inv) = map sh_file (filter sel inv).
Proof.
  intros H. induction inv as [|sh inv IH]; cbn; [reflexivity|].
  destruct (sel sh); cbn; [rewrite H, IH; reflexivity|exact IH].
Qed.

(** with distinct file names, "its file is one of the selected shards' files" is "it is selected" *)
Lemma file_in_selected (sel : shard -> bool) inv : NoDup (map sh_file inv) ->
  forall sh, In sh inv ->
  existsb (fkey_eqb (sh_file sh)) (map sh_file (filter sel inv)) = sel sh.
Proof.
  induction inv as [|x inv IH]; intros Hnd sh Hin; [destruct Hin|].
  cbn [map] in Hnd. inversion Hnd as [|? ? Hx Hnd']; subst.
  destruct Hin as [->|Hin].
  - cbn [filter]. destruct (sel sh) eqn:Es; cbn [map existsb].
    + rewrite fkey_eqb_refl. reflexivity.
    + destruct (existsb (fkey_eqb (sh_file sh)) (map sh_file (filter sel inv))) eqn:E; [|reflexivity].
      apply existsb_exists in E as (f & Hf & Heq). apply fkey_eqb_eq in Heq. subst f.
      exfalso. apply Hx. apply in_map_iff in Hf as (y & Hy & Hyin). apply filter_In in Hyin as [Hyin _].
      rewrite <- Hy. apply in_map. exact Hyin.
  - cbn [filter]. destruct (sel x) eqn:Es; cbn [map existsb]; [|apply IH; assumption].
    destruct (fkey_eqb (sh_file sh) (sh_file x)) eqn:E; [|apply IH; assumption].
    apply fkey_eqb_eq in E. exfalso. apply Hx. rewrite <- E. apply in_map. exact Hin.
Qed.

Lemma filter_ext_in' {A} (f g : A -> bool) l : (forall x, In x l -> f x = g x) -> filter f l = filter g l.
Proof.
  induction l as [|x l IH]; intros H; cbn; [reflexivity|].
  rewrite (H x (or_introl eq_refl)). destruct (g x); [f_equal|]; apply IH; intros y Hy; apply H; right; exact Hy.
Qed.

(** ------------------------------------------------------------------ remove -f deletes exactly the selected records' shards *)
Definition selected_by (sel : list rkey) (sh : shard) : bool := existsb (rkey_eqb (rkey_of sh)) sel.

Lemma rkey_eqb_eq a b : rkey_eqb a b = true <-> a = b.
Proof.
  destruct a as [a1 a2], b as [b1 b2]. unfold rkey_eqb. cbn. rewrite andb_true_iff, !ls_str_eqb_eq.
  split; [intros [-> ->]; reflexivity | intros H; inversion H; auto].
Qed.

Lemma select_one_cases recs s :
  (exists k, select_one recs s = Ok k) \/ select_one recs s = Err E_NOT_FOUND \/ select_one recs s = Err E_AMBIGUOUS.
Proof.
  unfold select_one.
  destruct (match filter (fun k => str_eqb (fst k) s) recs with
            | [] => filter (fun k => negb (str_eqb (snd k) []) && str_eqb (snd k) (normalize_source s)) recs
            | _ :: _ => filter (fun k => str_eqb (fst k) s) recs end) as [|k [|k' ms]]; eauto.
Qed.
Lemma select_records_err recs : forall sels e, select_records recs sels = Err e -> e = E_NOT_FOUND \/ e = E_AMBIGUOUS.
Proof.
  induction sels as [|s rest IH]; intros e; cbn; [discriminate|].
  destruct (select_one_cases recs s) as [[k ->]|[->| ->]]; cbn; try (intros H; inversion H; auto; fail).
  destruct (select_records recs rest) as [ks|e'|e'] eqn:E; cbn; try discriminate. intros H; inversion H; subst. apply IH. reflexivity.
Qed.
Lemma select_records_no_panic recs : forall sels w, select_records recs sels <> Panic w.
Proof.
  induction sels as [|s rest IH]; intros w; cbn; [discriminate|].
  destruct (select_one_cases recs s) as [[k ->]|[->| ->]]; cbn; try discriminate.
  destruct (select_records recs rest) as [ks|e'|e'] eqn:E; cbn; try discriminate. intros H; inversion H; subst. eapply IH; eauto.
Qed.

Theorem remove_force_exact : forall sels inv,
  NoDup (map sh_file inv) ->
  r_status (run_remove Force sels inv) = 0%N ->
  exists sel,
    select_records (records inv) sels = Ok sel /\
    existsb sh_bad inv = false /\
    apply_ops inv (r_ops (run_remove Force sels inv)) = filter (fun sh => negb (selected_by sel sh)) inv /\
    performed_removals (r_ops (run_remove Force sels inv)) = map sh_file (filter (selected_by sel) inv).
Proof.
  intros sels inv Hnd Hst. unfold run_remove in *. unfold read_inventory in *.
  destruct (existsb sh_bad inv) eqn:Eb; [cbn in Hst; discriminate|].
  destruct (select_records (records inv) sels) as [sel|e|e] eqn:Es.
  - exists sel. split; [reflexivity|]. split; [reflexivity|].
    cbn [apply_removals lock_ops r_ops].
    assert (Hfiles : map a_file (remove_actions sel inv) = map sh_file (filter (selected_by sel) inv)).
    { unfold remove_actions. apply (filter_map_files (selected_by sel)
        (fun sh => mkAction (sh_file sh) (sh_repo sh) (normalize_source (sh_source sh)) RExplicit) a_file). reflexivity. }
    split.
    + rewrite apply_ops_app. cbn [apply_ops fold_left apply_op].
      rewrite <- (map_map a_file OpRemoveShard), Hfiles.
      change (fold_left apply_op (map OpRemoveShard (map sh_file (filter (selected_by sel) inv))) inv)
        with (apply_ops inv (map OpRemoveShard (map sh_file (filter (selected_by sel) inv)))).
      rewrite apply_remove_files. apply filter_ext_in'. intros sh Hin.
      rewrite (file_in_selected (selected_by sel) inv Hnd sh Hin). reflexivity.
    + rewrite perf_rem_app. cbn [performed_removals filter_map app]. rewrite perf_rem_ops. exact Hfiles.
  - cbn in Hst. subst e. exfalso. apply select_records_err in Es. destruct Es as [Es|Es]; discriminate Es.
  - exfalso. eapply select_records_no_panic; eauto.
Qed.

Lemma filter_singleton {A} (f : A -> bool) l k : filter f l = [k] ->
  In k l /\ f k = true /\ forall k', In k' l -> f k' = true -> k' = k.
Proof.
  intros H. assert (Hk : In k (filter f l)) by (rewrite H; left; reflexivity).
  apply filter_In in Hk as [Hin Hf]. repeat split; try assumption.
  intros k' Hin' Hf'. assert (Hk' : In k' (filter f l)) by (apply filter_In; split; assumption).
  rewrite H in Hk'. destruct Hk' as [<-|[]]. reflexivity.
Qed.

(** selectRecords: a selector picks the one record with that NAME, or — only when no record has that name — the
    one record whose (non-empty) normalised SOURCE is the normalised selector *)
Lemma select_one_spec recs s k : select_one recs s = Ok k ->
  In k recs /\
  ((fst k = s /\ forall k', In k' recs -> fst k' = s -> k' = k) \/
   ((forall k', In k' recs -> fst k' <> s) /\ snd k <> [] /\ snd k = normalize_source s /\
    forall k', In k' recs -> snd k' = normalize_source s -> k' = k)).
Proof.
  unfold select_one. destruct (filter (fun k => str_eqb (fst k) s) recs) as [|k0 ms] eqn:En.
  - destruct (filter (fun k => negb (str_eqb (snd k) []) && str_eqb (snd k) (normalize_source s)) recs) as [|k1 [|k2 ms]] eqn:Es;
      try discriminate. intros H; inversion H; subst k1.
    apply filter_singleton in Es as (Hin & Hf & Hu). split; [exact Hin|]. right.
    apply andb_true_iff in Hf as [Hne Heq]. apply ls_str_eqb_eq in Heq.
    assert (Hne' : snd k <> []).
    { intros E. rewrite E in Hne. cbn in Hne. discriminate. }
    repeat split; try assumption.
    + intros k' Hin' Hname. assert (Hk : In k' (filter (fun k => str_eqb (fst k) s) recs)).
      { apply filter_In. split; [exact Hin'|]. apply ls_str_eqb_eq. exact Hname. }
      rewrite En in Hk. destruct Hk.
    + intros k' Hin' Hsrc. apply Hu; [exact Hin'|]. apply andb_true_iff. split.
      * rewrite Hsrc, <- Heq. destruct (str_eqb (snd k) []) eqn:E; [apply ls_str_eqb_eq in E; contradiction|reflexivity].
      * apply ls_str_eqb_eq. exact Hsrc.
  - destruct ms as [|k2 ms]; [|discriminate]. intros H; inversion H; subst k0.
    apply filter_singleton in En as (Hin & Hf & Hu). split; [exact Hin|]. left.
    apply ls_str_eqb_eq in Hf. split; [exact Hf|].
    intros k' Hin' Hname. apply Hu; [exact Hin'|]. apply ls_str_eqb_eq. exact Hname.
Qed.

Lemma select_records_spec recs : forall sels sel, select_records recs sels = Ok sel ->
  Forall2 (fun s k => select_one recs s = Ok k) sels sel.
Proof.
  induction sels as [|s rest IH]; intros sel; cbn; [intros H; inversion H; constructor|].
  destruct (select_one recs s) as [k|e|e] eqn:E1; cbn; try discriminate.
  destruct (select_records recs rest) as [ks|e|e] eqn:E2; cbn; try discriminate.
  intros H; inversion H; subst. constructor; [exact E1|]. apply IH. reflexivity.
Qed.

(** the records are exactly the (name, normalised source) pairs of the shards *)
Lemma dedup_keys_in : forall l seen k, In k (dedup_keys seen l) <-> In k l /\ ~ In k seen.
Proof.
  induction l as [|x l IH]; intros seen k; cbn; [tauto|].
  destruct (existsb (rkey_eqb x) seen) eqn:E.
  - rewrite IH. apply existsb_exists in E as (y & Hy & Heq). apply rkey_eqb_eq in Heq. subst y.
    split; [intros [H1 H2]; split; [right; exact H1|exact H2]|].
    intros [[->|H1] H2]; [contradiction|split; assumption].
  - cbn. rewrite IH. split.
    + intros [->|[H1 H2]].
      * split; [left; reflexivity|]. intros Hin.
        assert (existsb (rkey_eqb k) seen = true) by (apply existsb_exists; exists k; split; [exact Hin|apply rkey_eqb_eq; reflexivity]).
        congruence.
      * split; [right; exact H1|]. intros Hin. apply H2. right. exact Hin.
    + intros [[->|H1] H2]; [left; reflexivity|].
      destruct (rkey_eqb x k) eqn:Ek; [apply rkey_eqb_eq in Ek; left; exact Ek|].
      right. split; [exact H1|]. intros [->|Hin]; [|contradiction].
      assert (rkey_eqb k k = true) by (apply rkey_eqb_eq; reflexivity). congruence.
Qed.
Lemma records_in inv k : In k (records inv) <-> exists sh, In sh inv /\ rkey_of sh = k.
Proof.
  unfold records. rewrite dedup_keys_in, in_map_iff. split.
  - intros [(sh & H1 & H2) _]. exists sh. auto.
  - intros (sh & H1 & H2). split; [exists sh; auto|intros []].
Qed.

(** ------------------------------------------------------------------ well-formed index directories *)
Record wf (inv : inventory) : Prop := mkWf {
  wf_nodup : NoDup (map sh_file inv);                                  (* a directory: distinct file names *)
  wf_name : forall sh, In sh inv -> fst (sh_file sh) = sh_repo sh;     (* "<name>_v16.<k>.zoekt" holds repository <name> *)
  wf_uniform : forall a b, In a inv -> In b inv -> sh_repo a = sh_repo b ->
      normalize_source (sh_source a) = normalize_source (sh_source b) /\ sh_fp a = sh_fp b;   (* the shards of one build *)
  wf_contig : forall n k, has_file (n, S k) inv = true -> has_file (n, k) inv = true          (* numbered 0..m-1 *)
}.

Lemma has_file_in f inv : has_file f inv = true <-> exists sh, In sh inv /\ sh_file sh = f.
Proof.
  unfold has_file, find_file. split.
  - destruct (find (fun sh => fkey_eqb (sh_file sh) f) inv) as [sh|] eqn:E; [|discriminate]. intros _.
    apply find_some in E as [Hin Heq]. apply fkey_eqb_eq in Heq. exists sh. auto.
  - intros (sh & Hin & Heq). destruct (find (fun sh => fkey_eqb (sh_file sh) f) inv) as [x|] eqn:E; [reflexivity|].
    exfalso. pose proof (find_none _ _ E sh Hin) as Hn. cbn in Hn. rewrite Heq, fkey_eqb_refl in Hn. discriminate.
Qed.

Lemma find_file_some f inv sh : find_file f inv = Some sh -> In sh inv /\ sh_file sh = f.
Proof. unfold find_file. intros E. apply find_some in E as [Hin Heq]. apply fkey_eqb_eq in Heq. auto. Qed.

Lemma wf_nil : wf [].
Proof. constructor; cbn; try (intros; contradiction); [constructor|]. intros n k H. discriminate. Qed.

(** filtering by a predicate that cannot tell apart two shards of one repository keeps well-formedness *)
Lemma wf_filter (p : shard -> bool) inv :
  (forall a b, In a inv -> In b inv -> sh_repo a = sh_repo b -> p a = p b) ->
  wf inv -> wf (filter p inv).
Proof.
  intros Hp [Hnd Hname Huni Hcon]. constructor.
  - clear -Hnd. induction inv as [|x inv IH]; cbn; [constructor|]. cbn in Hnd. inversion Hnd; subst.
    destruct (p x); cbn; [constructor|]; auto.
    intros Hin. apply in_map_iff in Hin as (y & Hy & Hyin). apply filter_In in Hyin as [Hyin _].
    match goal with H : ~ In _ _ |- _ => apply H end. rewrite <- Hy. apply in_map. exact Hyin.
  - intros sh Hin. apply filter_In in Hin as [Hin _]. apply Hname. exact Hin.
  - intros a b Ha Hb. apply filter_In in Ha as [Ha _]. apply filter_In in Hb as [Hb _]. apply Huni; assumption.
  - intros n k H. apply has_file_in in H as (sh & Hin & Hf). apply filter_In in Hin as [Hin Hps].
    assert (Hk : has_file (n, k) inv = true) by (apply Hcon; apply has_file_in; exists sh; auto).
    apply has_file_in in Hk as (sh' & Hin' & Hf'). apply has_file_in. exists sh'. split; [|exact Hf'].
    apply filter_In. split; [exact Hin'|]. rewrite <- Hps. apply Hp; try assumption.
    rewrite <- (Hname sh' Hin'), <- (Hname sh Hin), Hf, Hf'. reflexivity.
Qed.

(** FindAllShards sees every shard file of the name: the count exceeds every number present *)
Lemma count_from_ge n inv k : forall fuel j,
  (forall i, j <= i -> i <= k -> has_file (n, i) inv = true) -> j <= S k ->
  Nat.min fuel (S k - j) <= count_from fuel n j inv.
Proof.
  induction fuel as [|fuel IH]; intros j Hall Hj; cbn [count_from]; [cbn; lia|].
  destruct (Nat.eq_dec j (S k)) as [->|Hne]; [rewrite Nat.sub_diag, Nat.min_0_r; lia|].
  rewrite (Hall j); [|lia|lia].
  specialize (IH (S j)). assert (H1 : forall i, S j <= i -> i <= k -> has_file (n, i) inv = true) by (intros; apply Hall; lia).
  specialize (IH H1). assert (S j <= S k) by lia. specialize (IH H).
  replace (S k - j) with (S (S k - S j)) by lia. rewrite <- Nat.succ_min_distr. lia.
Qed.

Lemma contig_down inv n : (forall k, has_file (n, S k) inv = true -> has_file (n, k) inv = true) ->
  forall k, has_file (n, k) inv = true -> forall i, i <= k -> has_file (n, i) inv = true.
Proof.
  intros Hc. induction k as [|k IH]; intros Hk i Hi.
  - assert (i = 0) by lia. subst. exact Hk.
  - destruct (Nat.eq_dec i (S k)) as [->|Hne]; [exact Hk|]. apply IH; [apply Hc; exact Hk|lia].
Qed.

Lemma count_covers inv : wf inv -> forall sh, In sh inv ->
  snd (sh_file sh) < all_shards_count (fst (sh_file sh)) inv.
Proof.
  intros [Hnd Hname Huni Hcon] sh Hin. set (n := fst (sh_file sh)). set (k := snd (sh_file sh)).
  assert (Hk : has_file (n, k) inv = true).
  { apply has_file_in. exists sh. split; [exact Hin|]. subst n k. destruct (sh_file sh); reflexivity. }
  pose proof (contig_down inv n (Hcon n) k Hk) as Hall.
  assert (Hlen : S k <= length inv).
  { rewrite <- (map_length sh_file inv), <- (seq_length (S k) 0), <- (map_length (fun i => (n, i)) (seq 0 (S k))).
    apply NoDup_incl_length.
    - apply FinFun.Injective_map_NoDup; [|apply seq_NoDup]. intros a b H. inversion H. reflexivity.
    - intros f Hf. apply in_map_iff in Hf as (i & <- & Hi). apply in_seq in Hi.
      assert (Hh : has_file (n, i) inv = true) by (apply Hall; lia).
      apply has_file_in in Hh as (x & Hx & Hfx). rewrite <- Hfx. apply in_map. exact Hx. }
  unfold all_shards_count.
  pose proof (count_from_ge n inv k (length inv) 0) as Hge.
  assert (H0 : forall i, 0 <= i -> i <= k -> has_file (n, i) inv = true) by (intros; apply Hall; lia).
  specialize (Hge H0). assert (0 <= S k) by lia. specialize (Hge H). rewrite Nat.sub_0_r in Hge.
  rewrite Nat.min_r in Hge by lia. lia.
Qed.

(** ------------------------------------------------------------------ a build replaces every shard of the name *)
Definition fresh_shard (n src : str) (fp : N) : shard := mkShard (n, 0) n src fp false.
Definition other_repo (n : str) (sh : shard) : bool := negb (str_eqb (sh_repo sh) n).

Lemma build_shape inv n src fp : wf inv ->
  apply_op inv (OpBuild n src fp) = filter (other_repo n) inv ++ [fresh_shard n src fp].
Proof.
  intros Hwf. unfold apply_op. cbv zeta. unfold fresh_shard. f_equal. apply filter_ext_in'. intros sh Hin.
  unfold other_repo. rewrite (wf_name inv Hwf sh Hin).
  destruct (str_eqb (sh_repo sh) n) eqn:E; cbn [andb negb]; [|reflexivity].
  apply ls_str_eqb_eq in E. pose proof (count_covers inv Hwf sh Hin) as Hc.
  rewrite (wf_name inv Hwf sh Hin), E in Hc. apply Nat.ltb_lt in Hc. rewrite Hc. reflexivity.
Qed.

Lemma other_repo_in n inv sh : In sh (filter (other_repo n) inv) <-> In sh inv /\ sh_repo sh <> n.
Proof.
  rewrite filter_In. unfold other_repo. split; intros [H1 H2]; split; try assumption.
  - intros E. apply ls_str_eqb_eq in E. rewrite E in H2. discriminate.
  - destruct (str_eqb (sh_repo sh) n) eqn:E; [apply ls_str_eqb_eq in E; contradiction|reflexivity].
Qed.

Lemma wf_build inv n src fp : wf inv -> wf (filter (other_repo n) inv ++ [fresh_shard n src fp]).
Proof.
  intros Hwf.
  assert (HF : wf (filter (other_repo n) inv)).
  { apply wf_filter; [|exact Hwf]. intros a b _ _ H. unfold other_repo. rewrite H. reflexivity. }
  destruct HF as [Fnd Fname Funi Fcon]. constructor.
  - rewrite map_app. cbn [map]. apply NoDup_app_intro_ls; [exact Fnd|].
    intros Hin. apply in_map_iff in Hin as (sh & Hf & Hin). pose proof (Fname sh Hin) as Hn.
    apply other_repo_in in Hin as [_ Hne]. apply Hne. rewrite <- Hn, Hf. reflexivity.
  - intros sh Hin. apply in_app_iff in Hin as [Hin|[<-|[]]]; [apply Fname; exact Hin|reflexivity].
  - intros a b Ha Hb Hab. apply in_app_iff in Ha as [Ha|[<-|[]]]; apply in_app_iff in Hb as [Hb|[<-|[]]].
    + apply Funi; assumption.
    + apply other_repo_in in Ha as [_ Hne]. cbn in Hab. contradiction.
    + apply other_repo_in in Hb as [_ Hne]. cbn in Hab. symmetry in Hab. contradiction.
    + split; reflexivity.
  - intros m k H. apply has_file_in in H as (sh & Hin & Hf). apply in_app_iff in Hin as [Hin|[<-|[]]]; [|cbn in Hf; inversion Hf].
    assert (Hk : has_file (m, k) (filter (other_repo n) inv) = true) by (apply Fcon; apply has_file_in; exists sh; auto).
    apply has_file_in in Hk as (sh' & Hin' & Hf'). apply has_file_in. exists sh'. split; [apply in_app_iff; left; exact Hin'|exact Hf'].
Qed.

(** ------------------------------------------------------------------ the indexing loop settles every repository *)
Definition belongs (all : list spec) (sh : shard) : Prop :=
  sh_bad sh = false /\
  exists s, In s all /\ sh_repo sh = sp_name s /\ normalize_source (sh_source sh) = normalize_source (sp_source s).
Definition settled (w : world_fp) (s : spec) (cur : inventory) : Prop :=
  has_file (sp_name s, 0) cur = true /\
  forall sh, In sh cur -> sh_repo sh = sp_name s -> fp_of w (sp_source s) = Some (sh_fp sh).

Lemma index_repos_converges w pruned all : forall rest cur done,
  NoDup (map sp_name (done ++ rest)) -> incl rest all ->
  wf cur -> (forall sh, In sh cur -> belongs all sh) -> (forall s, In s done -> settled w s cur) ->
  ir_failed (index_repos Force w pruned rest cur) = false ->
  let cur' := apply_ops cur (ir_ops (index_repos Force w pruned rest cur)) in
  wf cur' /\ (forall sh, In sh cur' -> belongs all sh) /\ (forall s, In s (done ++ rest) -> settled w s cur').
Proof.
  induction rest as [|s rest IH]; intros cur done Hnd Hincl Hwf Hbel Hdone Hfail.
  - cbn. rewrite app_nil_r. auto.
  - assert (Hnd' : NoDup (map sp_name ((done ++ [s]) ++ rest))) by (rewrite <- app_assoc; exact Hnd).
    assert (Hincl' : incl rest all) by (intros x Hx; apply Hincl; right; exact Hx).
    assert (Hs_all : In s all) by (apply Hincl; left; reflexivity).
    assert (Hdiff : forall t, In t done -> sp_name t <> sp_name s).
    { intros t Ht E. rewrite map_app in Hnd. cbn [map] in Hnd. apply NoDup_remove_2 in Hnd. apply Hnd.
      apply in_app_iff. left. rewrite <- E. apply in_map. exact Ht. }
    cbn [index_repos] in Hfail |- *.
    destruct (fp_of w (sp_source s)) as [fp|] eqn:Efp.
    2:{ destruct (index_repos Force w pruned rest cur) as [[ops out] e]. cbn in Hfail. discriminate. }
    destruct (needs_index (sp_name s) fp cur) eqn:Eni.
    + set (o := OpBuild (sp_name s) (sp_source s) fp) in *.
      assert (Hshape := build_shape cur (sp_name s) (sp_source s) fp Hwf). fold o in Hshape.
      assert (Hwf1 : wf (apply_op cur o)) by (rewrite Hshape; apply wf_build; exact Hwf).
      assert (Hbel1 : forall sh, In sh (apply_op cur o) -> belongs all sh).
      { intros sh Hin. rewrite Hshape in Hin. apply in_app_iff in Hin as [Hin|[<-|[]]].
        - apply other_repo_in in Hin as [Hin _]. apply Hbel. exact Hin.
        - split; [reflexivity|]. exists s. repeat split; auto. }
      assert (Hdone1 : forall t, In t (done ++ [s]) -> settled w t (apply_op cur o)).
      { intros t Ht. rewrite Hshape. apply in_app_iff in Ht as [Ht|[<-|[]]].
        - destruct (Hdone t Ht) as [H0 Hfp]. split.
          + apply has_file_in in H0 as (sh & Hin & Hf). apply has_file_in. exists sh. split; [|exact Hf].
            apply in_app_iff. left. apply other_repo_in. split; [exact Hin|].
            rewrite <- (wf_name cur Hwf sh Hin), Hf. cbn. apply Hdiff. exact Ht.
          + intros sh Hin Hrepo. apply in_app_iff in Hin as [Hin|[<-|[]]].
            * apply other_repo_in in Hin as [Hin _]. apply Hfp; assumption.
            * cbn in Hrepo. symmetry in Hrepo. apply Hdiff in Ht. contradiction.
        - split.
          + apply has_file_in. exists (fresh_shard (sp_name s) (sp_source s) fp). split; [apply in_app_iff; right; left; reflexivity|reflexivity].
          + intros sh Hin Hrepo. apply in_app_iff in Hin as [Hin|[<-|[]]]; [|exact Efp].
            apply other_repo_in in Hin as [_ Hne]. contradiction. }
      specialize (IH (apply_op cur o) (done ++ [s]) Hnd' Hincl' Hwf1 Hbel1 Hdone1).
      destruct (index_repos Force w pruned rest (apply_op cur o)) as [[ops out] e]. cbn in Hfail, IH |- *.
      specialize (IH Hfail). rewrite <- app_assoc in IH. exact IH.
    + assert (Hdone1 : forall t, In t (done ++ [s]) -> settled w t cur).
      { intros t Ht. apply in_app_iff in Ht as [Ht|[<-|[]]]; [apply Hdone; exact Ht|].
        unfold needs_index in Eni. destruct (find_file (sp_name s, 0) cur) as [sh0|] eqn:Ef; [|discriminate].
        apply negb_false_iff, andb_true_iff in Eni as [E1 E2]. apply ls_str_eqb_eq in E1. apply N.eqb_eq in E2.
        apply find_file_some in Ef as [Hin0 Hf0]. split.
        - apply has_file_in. exists sh0. auto.
        - intros sh Hin Hrepo. destruct (wf_uniform cur Hwf sh sh0 Hin Hin0) as [_ Hfp]; [congruence|].
          rewrite Hfp, E2. exact Efp. }
      specialize (IH cur (done ++ [s]) Hnd' Hincl' Hwf Hbel Hdone1).
      destruct (index_repos Force w pruned rest cur) as [[ops out] e]. cbn in Hfail, IH |- *.
      specialize (IH Hfail). rewrite <- app_assoc in IH. exact IH.
Qed.

(** ------------------------------------------------------------------ pruning *)
Definition kept (specs : list spec) (sh : shard) : bool :=
  match prune_action specs sh with None => true | Some _ => false end.

Lemma kept_dep specs a b : sh_repo a = sh_repo b -> normalize_source (sh_source a) = normalize_source (sh_source b) ->
  kept specs a = kept specs b.
Proof.
  intros H1 H2. unfold kept, prune_action. rewrite H1, H2.
  destruct (lookup_source specs (normalize_source (sh_source b))) as [d|]; [|reflexivity].
  destruct (str_eqb (sp_name d) (sh_repo b)); reflexivity.
Qed.

Lemma prune_files specs inv :
  map a_file (plan_prune specs inv) = map sh_file (filter (fun sh => negb (kept specs sh)) inv).
Proof.
  unfold plan_prune, kept. induction inv as [|sh inv IH]; cbn; [reflexivity|].
  destruct (prune_action specs sh) as [a|] eqn:E; cbn; [|exact IH].
  rewrite IH. f_equal. unfold prune_action in E.
  destruct (lookup_source specs (normalize_source (sh_source sh))) as [d|].
  - destruct (str_eqb (sp_name d) (sh_repo sh)); inversion E; reflexivity.
  - inversion E; reflexivity.
Qed.

Lemma prune_result specs inv : NoDup (map sh_file inv) ->
  apply_ops inv (map (fun a => OpRemoveShard (a_file a)) (plan_prune specs inv)) = filter (kept specs) inv.
Proof.
  intros Hnd. rewrite <- (map_map a_file OpRemoveShard), prune_files, apply_remove_files.
  apply filter_ext_in'. intros sh Hin.
  rewrite (file_in_selected (fun sh => negb (kept specs sh)) inv Hnd sh Hin). apply negb_involutive.
Qed.

Lemma kept_belongs specs sh : kept specs sh = true -> sh_bad sh = false -> belongs specs sh.
Proof.
  unfold kept, prune_action, lookup_source. intros H Hb. split; [exact Hb|].
  destruct (find (fun d => str_eqb (normalize_source (sp_source d)) (normalize_source (sh_source sh))) (rev specs)) as [d|] eqn:E; [|discriminate].
  destruct (str_eqb (sp_name d) (sh_repo sh)) eqn:En; [|discriminate].
  apply find_some in E as [Hin Hsrc]. apply in_rev in Hin. apply ls_str_eqb_eq in Hsrc. apply ls_str_eqb_eq in En.
  exists d. repeat split; auto.
Qed.

Lemma lock_ops_id m inv : apply_ops inv (lock_ops m) = inv.
Proof. destruct m; reflexivity. Qed.

(** ------------------------------------------------------------------ C34: convergence *)
Theorem sync_force_converges : forall tree w roots inv,
  wf inv -> r_status (run_sync Force tree w roots inv) = 0%N ->
  exists specs, discover tree roots = Ok specs /\
    let inv' := apply_ops inv (r_ops (run_sync Force tree w roots inv)) in
    wf inv' /\
    (forall s, In s specs -> has_file (sp_name s, 0) inv' = true) /\
    (forall sh, In sh inv' -> exists s, In s specs /\
        sh_repo sh = sp_name s /\ fst (sh_file sh) = sp_name s /\
        normalize_source (sh_source sh) = normalize_source (sp_source s) /\
        fp_of w (sp_source s) = Some (sh_fp sh) /\ sh_bad sh = false).
Proof.
  intros tree w roots inv Hwf Hst. unfold run_sync in *.
  destruct (discover tree roots) as [specs|e|e] eqn:Ed.
  2,3: cbn in Hst; subst e; exfalso.
  2:{ revert Ed. unfold discover. destruct (resolve_roots tree [] roots); [|discriminate].
      assert (Haa : forall l acc, add_all acc l <> Err 0%N).
      { induction l as [|x l IHl]; intros acc; cbn; [discriminate|].
        destruct (existsb _ acc); [discriminate|]. destruct (existsb _ acc); [discriminate|]. apply IHl. }
      assert (Hdr : forall rs acc, discover_roots tree acc rs <> Err 0%N).
      { induction rs as [|r rs IHr]; intros acc; cbn; [discriminate|].
        destruct (nameless (discover_root tree r)); [discriminate|].
        destruct (add_all acc (discover_root tree r)) as [a|e|e] eqn:Ea; cbn; [apply IHr| |discriminate].
        intros H; inversion H; subst. eapply Haa; eauto. }
      destruct (discover_roots tree [] roots) as [l|e|e] eqn:El; cbn; try discriminate.
      intros H; inversion H; subst. eapply Hdr; eauto. }
  2:{ revert Ed. unfold discover. destruct (resolve_roots tree [] roots); [|discriminate].
      assert (Haa : forall l acc w0, add_all acc l <> Panic w0).
      { induction l as [|x l IHl]; intros acc w0; cbn; [discriminate|].
        destruct (existsb _ acc); [discriminate|]. destruct (existsb _ acc); [discriminate|]. apply IHl. }
      assert (Hdr : forall rs acc w0, discover_roots tree acc rs <> Panic w0).
      { induction rs as [|r rs IHr]; intros acc w0; cbn; [discriminate|].
        destruct (nameless (discover_root tree r)); [discriminate|].
        destruct (add_all acc (discover_root tree r)) as [a|e'|e'] eqn:Ea; cbn; [apply IHr|discriminate|].
        intros H; inversion H; subst. eapply Haa; eauto. }
      destruct (discover_roots tree [] roots) as [l|e'|e'] eqn:El; cbn; try discriminate.
      intros H; inversion H; subst. eapply Hdr; eauto. }
  exists specs. split; [reflexivity|].
  unfold read_inventory in *. destruct (existsb sh_bad inv) eqn:Eb; [cbn in Hst; discriminate|].
  cbn [apply_removals] in *.
  set (acts := plan_prune specs inv) in *.
  set (rops := map (fun a => OpRemoveShard (a_file a)) acts) in *.
  assert (Hp : apply_ops inv rops = filter (kept specs) inv) by (apply prune_result; apply (wf_nodup inv Hwf)).
  rewrite Hp in *.
  assert (Hwfp : wf (filter (kept specs) inv)).
  { apply wf_filter; [|exact Hwf]. intros a b Ha Hb Hab. apply kept_dep; [exact Hab|].
    apply (wf_uniform inv Hwf a b Ha Hb Hab). }
  assert (Hbelp : forall sh, In sh (filter (kept specs) inv) -> belongs specs sh).
  { intros sh Hin. apply filter_In in Hin as [Hin Hk]. apply kept_belongs; [exact Hk|].
    destruct (sh_bad sh) eqn:Ebad; [|reflexivity].
    assert (existsb sh_bad inv = true) by (apply existsb_exists; exists sh; auto). congruence. }
  pose proof (index_repos_converges w (map a_file acts) specs specs (filter (kept specs) inv) []
                (discover_nodup _ _ _ Ed) (incl_refl _) Hwfp Hbelp (fun s (H : In s []) => match H with end)) as Hc.
  unfold ir_failed, ir_ops in Hc.
  destruct (index_repos Force w (map a_file acts) specs (filter (kept specs) inv)) as [[iops iout] failed].
  cbn [fst snd] in Hc. destruct failed; [cbn in Hst; discriminate|]. specialize (Hc eq_refl). cbn zeta in Hc.
  cbn [r_ops]. rewrite apply_ops_app, lock_ops_id, apply_ops_app, Hp. cbn zeta.
  destruct Hc as (Hw & Hb & Hs). split; [exact Hw|]. split.
  - intros s Hin. apply (Hs s Hin).
  - intros sh Hin. destruct (Hb sh Hin) as (Hgood & s & Hsin & Hrepo & Hsrc). exists s.
    destruct (Hs s Hsin) as [_ Hfp]. repeat split; auto.
    rewrite (wf_name _ Hw sh Hin). exact Hrepo.
Qed.

(** a forced sync keeps the index well-formed even when some repository fails to index *)
Lemma wf_apply_ops_index w pruned : forall specs cur,
  wf cur -> wf (apply_ops cur (ir_ops (index_repos Force w pruned specs cur))).
Proof.
  induction specs as [|s rest IH]; intros cur Hwf; cbn [index_repos]; [exact Hwf|].
  destruct (fp_of w (sp_source s)) as [fp|].
  - destruct (needs_index (sp_name s) fp cur).
    + assert (Hwf1 : wf (apply_op cur (OpBuild (sp_name s) (sp_source s) fp))) by (rewrite build_shape by exact Hwf; apply wf_build; exact Hwf).
      specialize (IH _ Hwf1). destruct (index_repos Force w pruned rest (apply_op cur (OpBuild (sp_name s) (sp_source s) fp))) as [[ops out] e].
      exact IH.
    + specialize (IH _ Hwf). destruct (index_repos Force w pruned rest cur) as [[ops out] e]. exact IH.
  - specialize (IH _ Hwf). destruct (index_repos Force w pruned rest cur) as [[ops out] e]. exact IH.
Qed.

Theorem wf_preserved : forall m tree w c inv, wf inv -> wf (apply_ops inv (r_ops (run m tree w c inv))).
Proof.
  intros m tree w c inv Hwf. destruct m; [rewrite dry_no_ops; exact Hwf|].
  destruct c as [roots|sels]; cbn [run].
  - unfold run_sync. destruct (discover tree roots) as [specs|e|e]; try exact Hwf.
    unfold read_inventory. destruct (existsb sh_bad inv); [exact Hwf|].
    cbn [apply_removals].
    assert (Hp := prune_result specs inv (wf_nodup inv Hwf)). rewrite Hp.
    assert (Hwfp : wf (filter (kept specs) inv)).
    { apply wf_filter; [|exact Hwf]. intros a b Ha Hb Hab. apply kept_dep; [exact Hab|].
      apply (wf_uniform inv Hwf a b Ha Hb Hab). }
    pose proof (wf_apply_ops_index w (map a_file (plan_prune specs inv)) specs _ Hwfp) as H. unfold ir_ops in H.
    destruct (index_repos Force w (map a_file (plan_prune specs inv)) specs (filter (kept specs) inv)) as [[iops iout] failed].
    cbn [fst] in H. destruct failed; cbn [r_ops]; rewrite apply_ops_app, lock_ops_id, apply_ops_app, Hp; exact H.
  - unfold run_remove, read_inventory. destruct (existsb sh_bad inv) eqn:Eb; [exact Hwf|].
    destruct (select_records (records inv) sels) as [sel|e|e] eqn:Es; try exact Hwf.
    assert (Hst : r_status (run_remove Force sels inv) = 0%N).
    { unfold run_remove, read_inventory. rewrite Eb, Es. reflexivity. }
    destruct (remove_force_exact sels inv (wf_nodup inv Hwf) Hst) as (sel' & Hsel & _ & Hfin & _).
    unfold run_remove, read_inventory in Hfin. rewrite Eb, Es in Hfin. rewrite Hfin.
    apply wf_filter; [|exact Hwf]. intros a b Ha Hb Hab. unfold selected_by, rkey_of.
    rewrite Hab, (proj1 (wf_uniform inv Hwf a b Ha Hb Hab)). reflexivity.
Qed.

(** ------------------------------------------------------------------ histories *)
Inductive reachable : inventory -> Prop :=
| reach_empty : reachable []
| reach_step : forall inv m tree w c, reachable inv -> reachable (apply_ops inv (r_ops (run m tree w c inv))).

Theorem reachable_wf : forall inv, reachable inv -> wf inv.
Proof. induction 1 as [|inv m tree w c _ IH]; [apply wf_nil|apply wf_preserved; exact IH]. Qed.

(** ------------------------------------------------------------------ a concrete state for the non-vacuity examples *)
Definition ex_s (l : list N) : str := l.
Definition ex_tree : node :=
  NDir [ ([114;49]%N, NDir [ ([97]%N, NDir [ (dot_git, NDir []) ]);                                   (* r1/a   work tree *)
                             ([116]%N, NDir [ ([98;46;103;105;116]%N, NDir [ (objects_s, NDir []) ]) ]) ]) ].   (* r1/t/b.git bare *)
Definition ex_roots : list (list str) := [ [[114;49]%N] ].
Definition ex_src_a : str := [47;114;49;47;97]%N.                       (* /r1/a *)
Definition ex_src_b : str := [47;114;49;47;116;47;98;46;103;105;116]%N. (* /r1/t/b.git *)
Definition ex_world : world_fp := [ (ex_src_a, Some 5%N); (ex_src_b, Some 6%N) ].
Definition ex_inv : inventory :=
  [ mkShard ([97]%N, 0) [97]%N ex_src_a 4 false;            (* a: two stale shards *)
    mkShard ([97]%N, 1) [97]%N ex_src_a 4 false;
    mkShard ([122]%N, 0) [122]%N [47;120]%N 9 false ].      (* z from /x: not discovered *)

Lemma ex_inv_wf : wf ex_inv.
Proof.
  constructor.
  - cbn. repeat constructor; cbn; intuition discriminate.
  - intros sh [<-|[<-|[<-|[]]]]; reflexivity.
  - intros a b [<-|[<-|[<-|[]]]] [<-|[<-|[<-|[]]]]; cbn; intros H; try discriminate H; split; reflexivity.
  - intros n k H. apply has_file_in in H as (sh & [<-|[<-|[<-|[]]]] & Hf); cbn in Hf; inversion Hf; subst. reflexivity.
Qed.

(** ------------------------------------------------------------------ discovery: what the walk reports *)
Fixpoint node_ind' (P : node -> Prop) (Hf : P NFile) (Ho : P NOther)
  (Hd : forall ch, Forall (fun p => P (snd p)) ch -> P (NDir ch)) (n : node) : P n :=
  match n with
  | NFile => Hf
  | NOther => Ho
  | NDir ch => Hd ch ((fix go (l : list (str * node)) : Forall (fun p => P (snd p)) l :=
                         match l with
                         | [] => Forall_nil _
                         | p :: r => Forall_cons p (node_ind' P Hf Ho Hd (snd p)) (go r)
                         end) ch)
  end.

Definition walk_children (rel : list str) (ch : list (str * node)) : list (list str * bool) :=
  (fix go (l : list (str * node)) : list (list str * bool) :=
     match l with
     | [] => []
     | (nm, c) :: r => walk nm (rel ++ [nm]) c ++ go r
     end) ch.

Lemma walk_children_cons rel nm c r : walk_children rel ((nm, c) :: r) = walk nm (rel ++ [nm]) c ++ walk_children rel r.
Proof. reflexivity. Qed.

Lemma walk_dir e rel ch : walk e rel (NDir ch) =
  match repo_kind e ch with Some b => [(rel, b)] | None => walk_children rel ch end.
Proof. reflexivity. Qed.

Lemma walk_prefix : forall n e pre, walk e pre n = map (fun h => (pre ++ fst h, snd h)) (walk e [] n).
Proof.
  induction n as [| |ch IH] using node_ind'; intros e pre; try reflexivity.
  rewrite !walk_dir. destruct (repo_kind e ch) as [b|]; [cbn; rewrite app_nil_r; reflexivity|].
  induction ch as [|[nm c] r IHr]; [reflexivity|].
  inversion IH as [|? ? Hc Hr]; subst. cbn [snd] in Hc.
  rewrite !walk_children_cons, map_app, (IHr Hr). f_equal.
  rewrite (Hc nm (pre ++ [nm])), (Hc nm ([] ++ [nm])), map_map. apply map_ext. intros h. cbn. rewrite <- app_assoc. reflexivity.
Qed.

Lemma in_walk_children q b ch :
  In (q, b) (walk_children [] ch) <-> exists nm c q', q = nm :: q' /\ In (nm, c) ch /\ In (q', b) (walk nm [] c).
Proof.
  induction ch as [|[nm c] r IH].
  - cbn. split; [intros []|intros (nm & c & q' & _ & [] & _)].
  - rewrite walk_children_cons, in_app_iff, IH. rewrite (walk_prefix c nm ([] ++ [nm])). split.
    + intros [H|(nm' & c' & q' & Hq & Hin & Hw)].
      * apply in_map_iff in H as (h & Hh & Hin). inversion Hh; subst. exists nm, c, (fst h).
        split; [reflexivity|]. split; [left; reflexivity|]. destruct h; exact Hin.
      * exists nm', c', q'. repeat split; auto. right. exact Hin.
    + intros (nm' & c' & q' & Hq & [Hin|Hin] & Hw).
      * inversion Hin; subst. left. apply in_map_iff. exists (q', b). split; [reflexivity|exact Hw].
      * right. exists nm', c', q'. auto.
Qed.

(** The specification of discoverRoot's walk, by recursion on the reported path: a directory that is a
    repository is reported itself and NOTHING below it (fs.SkipDir); otherwise what is reported below a
    directory is what is reported below its children, with the child's name in front; files report nothing. *)
Theorem walk_spec : forall e ch q b,
  In (q, b) (walk e [] (NDir ch)) <->
  match repo_kind e ch with
  | Some b' => q = [] /\ b = b'
  | None => exists nm c q', q = nm :: q' /\ In (nm, c) ch /\ In (q', b) (walk nm [] c)
  end.
Proof.
  intros e ch q b. rewrite walk_dir. destruct (repo_kind e ch) as [b'|].
  - cbn. split; [intros [H|[]]; inversion H; auto|intros [-> ->]; left; reflexivity].
  - apply in_walk_children.
Qed.

Lemma walk_nondir e rel : walk e rel NFile = [] /\ walk e rel NOther = [].
Proof. split; reflexivity. Qed.
