(** C03 — fillContentMatches on candidates that may span several lines: the multi-line extension loop
    `for nextLineStart < len(data) && endMatch > nextLineStart { next := bytes.IndexByte(data[nextLineStart:], '\n') ... }`.
    (After breakMatchesOnNewlines the loop never iterates — [fill_lines_correct]; here the general case.) *)
From ZV Require Import Lib.Base Lib.GoSearch Lib.RuneCount Model.Lines Proofs.LinesBasic Proofs.LinesMatch.
From Coq Require Import ZifyBool ZifyNat Sorting.Sorted.

Lemma after_nl_0 : forall l, after_nl l 0 = 0.
Proof. destruct l; reflexivity. Qed.

(** bytes.IndexByte(l, '\n') + 1 (or len(l)) is the length of the first line *)
Lemma after_nl_1 : forall l,
  after_nl l 1 = match index_byte l 10 with Some i => i + 1 | None => length l end.
Proof.
  induction l as [|ch r IH]; [reflexivity|].
  cbn [after_nl index_byte length]. destruct (N.eqb ch 10).
  - now rewrite after_nl_0.
  - rewrite IH. destruct (index_byte r 10); simpl; lia.
Qed.

(** the first k+1 lines = the first k lines + the first line of the rest *)
Lemma after_nl_S : forall l k, after_nl l (S k) = after_nl l k + after_nl (skipn (after_nl l k) l) 1.
Proof.
  induction l as [|ch r IH]; intros k; [destruct k; reflexivity|].
  destruct k as [|k'].
  - rewrite after_nl_0. reflexivity.
  - cbn [after_nl]. destruct (N.eqb ch 10) eqn:E.
    + cbn [skipn Nat.add]. f_equal. rewrite (IH k'). reflexivity.
    + cbn [skipn Nat.add]. f_equal. rewrite (IH (S k')). reflexivity.
Qed.

Section Content.
Variable c : list N.
Let nls := newlines_of c.

Lemma extend_line_step : forall fuel next endm, next < length c -> next < endm ->
  extend_line (S fuel) c next endm = extend_line fuel c (next + after_nl (skipn next c) 1) endm.
Proof.
  intros fuel next endm H1 H2. cbn [extend_line].
  replace ((next <? length c) && (next <? endm)) with true
    by (symmetry; apply andb_true_iff; split; apply Nat.ltb_lt; assumption).
  rewrite after_nl_1. destruct (index_byte (skipn next c) 10) as [i|].
  - now rewrite Nat.add_assoc.
  - rewrite skipn_length. now replace (next + (length c - next)) with (length c) by lia.
Qed.

(** the loop, started at the end of the first k lines, stops at the end of the line that holds byte endm-1 *)
Lemma extend_line_lines : forall d k fuel endm K,
  K + 1 - k <= d -> d <= fuel -> k <= K ->
  after_nl c K <= endm - 1 < after_nl c (S K) -> 1 <= endm <= length c ->
  extend_line fuel c (after_nl c k) endm = after_nl c (S K).
Proof.
  induction d as [|d IH]; intros k fuel endm K Hd Hf Hk Hbr He; [lia|].
  destruct fuel as [|f]; [lia|].
  pose proof (after_nl_mono c k K Hk) as Hm.
  rewrite extend_line_step by lia. rewrite <- after_nl_S.
  destruct (Nat.eq_dec k K) as [->|Hne].
  - apply extend_line_noop. lia.
  - apply IH; lia.
Qed.

(** closed form of the extension: nothing to do when the last candidate of the line ends inside it; otherwise the
    line is extended to the start of the line after the one that holds the candidate's last byte *)
Theorem extend_line_spec : forall num endm, (1 <= num)%Z -> endm <= length c ->
  extend_line (S (length c)) c (line_start nls (num + 1)) endm =
  if endm <=? line_start nls (num + 1) then line_start nls (num + 1)
  else line_start nls (at_offset nls (endm - 1) + 1).
Proof.
  intros num endm Hnum He. destruct (endm <=? line_start nls (num + 1)) eqn:E.
  - apply extend_line_noop. lia.
  - apply Nat.leb_gt in E. unfold nls in *. rewrite at_offset_spec, !line_start_spec in *.
    set (K := count_nl (firstn (endm - 1) c)).
    replace (Z.to_nat (Z.of_nat K + 1 + 1 - 1)) with (S K) by lia.
    replace (Z.to_nat (num + 1 - 1)) with (Z.to_nat num) in * by lia.
    pose proof (after_nl_bracket c (endm - 1) ltac:(lia)) as Hbr. fold K in Hbr.
    assert (Hk : Z.to_nat num <= K).
    { destruct (Nat.le_gt_cases (Z.to_nat num) K) as [|Hgt]; auto.
      pose proof (after_nl_mono c (S K) (Z.to_nat num) ltac:(lia)). lia. }
    pose proof (count_nl_firstn_total c (endm - 1)) as Ht. fold K in Ht.
    assert (Hc : count_nl c <= length c).
    { clear. induction c as [|x r IH]; simpl; [lia|]. destruct (N.eqb x 10); lia. }
    apply (extend_line_lines (K + 1 - Z.to_nat num)); lia.
Qed.

(** ---- what a reported line match satisfies when candidates may span lines *)
Record lm_ok_ml (ctx : Z) (lm : linematch) : Prop := {
  ml_fn : lm_fn lm = false;
  ml_num : (1 <= lm_num lm <= Z.of_nat (length (lines c)))%Z;
  ml_start : lm_start lm = length (lines_between c 1 (lm_num lm));
  (* Line = the whole lines LineNumber .. nl, nl = the line of the last byte of the last fragment *)
  ml_line : exists nl, (lm_num lm <= nl <= Z.of_nat (length (lines c)))%Z /\
              lm_line lm = lines_between c (lm_num lm) (nl + 1) /\
              lm_end lm = length (lines_between c 1 (nl + 1)) /\
              nl = Z.max (lm_num lm)
                     (at_offset nls (f_off (last (lm_frags lm) (mk_frag 0 {| c_fn := false; c_off := 0; c_sz := 0 |}))
                                     + f_len (last (lm_frags lm) (mk_frag 0 {| c_fn := false; c_off := 0; c_sz := 0 |})) - 1));
  ml_slice : lm_line lm = slice c (lm_start lm) (lm_end lm);
  ml_end : lm_end lm = lm_start lm + length (lm_line lm) /\ lm_end lm <= length c;
  (* the context is counted from LineNumber, also when the line was extended *)
  ml_before : lm_before lm = lines_between c (lm_num lm - ctx) (lm_num lm);
  ml_after : lm_after lm = lines_between c (lm_num lm + 1) (lm_num lm + 1 + ctx);
  ml_frags_ne : lm_frags lm <> [];
  (* every fragment starts in line LineNumber and ends inside Line *)
  ml_frags : Forall (fun f => lm_start lm <= f_off f /\ f_off f + f_len f <= lm_end lm /\
                              f_lineoff f = (Z.of_nat (f_off f) - Z.of_nat (lm_start lm))%Z /\
                              at_offset nls (f_off f) = lm_num lm) (lm_frags lm)
}.

Lemma disjoint_sorted_prefix : forall a b, disjoint_sorted (a ++ b) -> disjoint_sorted a.
Proof.
  induction a as [|x a IH]; intros b H; [constructor|].
  inversion H as [|? ? Hs Hx]; subst. constructor; [eapply IH; eauto|].
  apply Forall_app in Hx. tauto.
Qed.
Lemma disjoint_sorted_suffix : forall a b, disjoint_sorted (a ++ b) -> disjoint_sorted b.
Proof.
  induction a as [|x a IH]; intros b H; [exact H|]. inversion H; subst. eapply IH; eauto.
Qed.

Lemma last_end_max : forall l d, disjoint_sorted l -> Forall (fun x => c_end x <= c_end (last l d)) l.
Proof.
  induction l as [|a r IH]; intros d H; [constructor|].
  inversion H as [|? ? Hs Ha]; subst.
  destruct r as [|b r'].
  - constructor; [simpl; lia|constructor].
  - specialize (IH d Hs). change (last (a :: b :: r') d) with (last (b :: r') d).
    constructor; [|exact IH].
    assert (Hin : In (last (b :: r') d) (b :: r')) by (apply last_in; discriminate).
    rewrite Forall_forall in Ha. specialize (Ha _ Hin). unfold c_end in *. lia.
Qed.

Lemma last_map : forall {A B} (f : A -> B) l d, l <> [] -> last (map f l) (f d) = f (last l d).
Proof.
  intros A B f l d. induction l as [|a r IH]; intros H; [congruence|].
  destruct r as [|b r']; [reflexivity|]. specialize (IH ltac:(discriminate)). exact IH.
Qed.

Lemma last_indep : forall {A} (l : list A) d d', l <> [] -> last l d = last l d'.
Proof.
  intros A l d d'. induction l as [|a r IH]; intros H; [congruence|].
  destruct r as [|b r']; [reflexivity|]. apply IH. discriminate.
Qed.

(** Main theorem: fillContentMatches on non-empty, in-bounds, sorted, non-overlapping candidates that may contain
    newlines: succeeds (neither the "infinite loop" panic nor a slice panic); each LineMatch satisfies [lm_ok_ml];
    line numbers strictly increase; the fragments are exactly the candidates, in order. *)
Theorem fill_lines_multiline : forall ctx, (0 <= ctx)%Z -> forall fuel ms,
  length ms <= fuel -> Forall (cand_ok c) ms -> disjoint_sorted ms ->
  exists res, fill_lines fuel nls c ctx ms = Ok res /\
    Forall (lm_ok_ml ctx) res /\
    StronglySorted (fun a b => (lm_num a < lm_num b)%Z) res /\
    Forall (fun lm => match ms with [] => True | m :: _ => (at_offset nls (c_off m) <= lm_num lm)%Z end) res /\
    flat_map (fun lm => map frag_cand (lm_frags lm)) res = map cand_key ms.
Proof.
  intros ctx Hctx. induction fuel as [|k IH]; intros ms Hlen Hok Hsorted.
  { destruct ms; [|simpl in Hlen; lia]. exists []. simpl. repeat split; constructor. }
  destruct ms as [|m ms0].
  { exists []. simpl. repeat split; constructor. }
  unfold nls. rewrite fill_lines_S. cbv zeta. fold nls.
  set (num := at_offset nls (c_off m)). set (ls := line_start nls num). set (nx := line_start nls (num + 1)).
  pose proof (at_offset_range c (c_off m)) as Hnum. fold nls num in Hnum.
  assert (Hm : cand_ok c m) by (inversion Hok; auto).
  destruct Hm as [Hsz Hend].
  assert (Hoff : c_off m < length c) by (unfold c_end in Hend; lia).
  pose proof (at_offset_in_line c (c_off m) Hoff) as Hin. cbv zeta in Hin. fold nls num ls nx in Hin.
  destruct (span_line nx (m :: ms0)) as [lc rest] eqn:Esp.
  destruct (span_line_spec _ _ _ _ Esp) as [Happ [Hlc Hrest]].
  destruct lc as [|m' lc'].
  { simpl in Happ. subst rest. lia. }
  assert (m' = m) by (simpl in Happ; congruence). subst m'.
  assert (Hms0 : ms0 = lc' ++ rest) by (simpl in Happ; congruence).
  subst ms0. clear Happ.
  change (m :: lc' ++ rest) with ((m :: lc') ++ rest) in Hok, Hsorted.
  assert (Hoklc : Forall (cand_ok c) (m :: lc')) by (apply Forall_app in Hok; tauto).
  assert (Hokrest : Forall (cand_ok c) rest) by (apply Forall_app in Hok; tauto).
  assert (Hslc : disjoint_sorted (m :: lc')) by (eapply disjoint_sorted_prefix; eauto).
  assert (Hsrest : disjoint_sorted rest) by (eapply disjoint_sorted_suffix; eauto).
  assert (Hge : Forall (fun x => c_off m <= c_off x) (m :: lc')).
  { constructor; [lia|]. inversion Hslc as [|? ? _ Hall]; subst.
    eapply Forall_impl; [|exact Hall]. intros x Hx. unfold c_end in Hx. lia. }
  set (lastc := last (m :: lc') m).
  assert (Hlastin : In lastc (m :: lc')) by (apply last_in; discriminate).
  assert (Hlastok : cand_ok c lastc) by (rewrite Forall_forall in Hoklc; auto).
  destruct Hlastok as [Hlsz Hlend].
  assert (Hlastoff : ls <= c_off lastc < nx).
  { rewrite Forall_forall in Hge, Hlc. specialize (Hge _ Hlastin). specialize (Hlc _ Hlastin). lia. }
  pose proof (last_end_max (m :: lc') m Hslc) as Hmax. fold lastc in Hmax.
  (* the extension *)
  pose proof (extend_line_spec num (c_end lastc) ltac:(lia) ltac:(lia)) as Hext. fold nx in Hext.
  rewrite Hext. clear Hext.
  set (nl := Z.max num (at_offset nls (c_end lastc - 1))).
  set (nx' := if c_end lastc <=? nx then nx else line_start nls (at_offset nls (c_end lastc - 1) + 1)).
  assert (Hnl : nx' = line_start nls (nl + 1) /\ (num <= nl <= Z.of_nat (length (lines c)))%Z /\ c_end lastc <= nx').
  { unfold nx', nl. destruct (c_end lastc <=? nx) eqn:E.
    - apply Nat.leb_le in E.
      assert (Ea : at_offset nls (c_end lastc - 1) = num).
      { apply at_offset_unique; try lia. fold nls num ls nx. unfold c_end in *. lia. }
      rewrite Ea, Z.max_id. fold nx. repeat split; lia.
    - apply Nat.leb_gt in E.
      pose proof (at_offset_after c (c_end lastc - 1) num ltac:(lia) ltac:(lia)) as Ha.
      fold nls nx in Ha. specialize (Ha ltac:(lia)).
      pose proof (at_offset_range c (c_end lastc - 1)) as Hr. fold nls in Hr.
      rewrite Z.max_r by lia. split; [reflexivity|]. split; [lia|].
      pose proof (at_offset_in_line c (c_end lastc - 1) ltac:(lia)) as Hi. cbv zeta in Hi. fold nls in Hi. lia. }
  destruct Hnl as [Enx' [Hnlr Hcover]]. clearbody nx'.
  (* Line = whole lines num..nl *)
  pose proof (get_lines_spec c num (nl + 1)) as Hgl. unfold get_lines in Hgl. fold nls in Hgl.
  destruct (nl + 1 <=? num)%Z eqn:Ez; [lia|]. fold ls in Hgl. rewrite <- Enx' in Hgl.
  unfold go_slice in *.
  destruct ((ls <=? nx') && (nx' <=? length c)) eqn:Egs; [|discriminate].
  apply andb_true_iff in Egs. destruct Egs as [Eg1 Eg2]. apply Nat.leb_le in Eg1. apply Nat.leb_le in Eg2.
  injection Hgl as Hlineq. fold (lines_between c num (nl + 1)) in Hlineq.
  fold nls. rewrite !(ctx_lines c) by auto. cbn [obind].
  destruct (IH rest) as [tl [Etl [Htl1 [Htl2 [Htl3 Htl4]]]]]; auto.
  { simpl in Hlen. rewrite app_length in Hlen. simpl in Hlen. lia. }
  rewrite Etl. cbn [obind].
  eexists. split; [reflexivity|].
  assert (Hrestnum : forall lm, In lm tl -> (num < lm_num lm)%Z).
  { intros lm Hlm. rewrite Forall_forall in Htl3. specialize (Htl3 lm Hlm).
    destruct rest as [|r0 rest']; [destruct tl; [contradiction|]; destruct k; simpl in Etl; discriminate|].
    assert (Hr0 : cand_ok c r0) by (inversion Hokrest; auto).
    destruct Hr0 as [Hr0s Hr0e]. unfold c_end in Hr0e.
    pose proof (at_offset_after c (c_off r0) num ltac:(lia) ltac:(lia)) as Ha. fold nls nx in Ha.
    specialize (Ha Hrest). lia. }
  split; [|split; [|split]].
  - constructor; auto. constructor; cbn [lm_fn lm_num lm_start lm_line lm_end lm_before lm_after lm_frags]; auto.
    + apply (line_start_lines c).
    + exists nl. split; [lia|]. split; [exact Hlineq|]. split.
      * rewrite Enx'. apply (line_start_lines c).
      * unfold nl. f_equal. f_equal.
        change (mk_frag ls m :: map (mk_frag ls) lc') with (map (mk_frag ls) (m :: lc')).
        rewrite (last_indep (map (mk_frag ls) (m :: lc')) _ (mk_frag ls m)) by discriminate.
        rewrite last_map by discriminate. fold lastc. reflexivity.
    + split; [|exact Eg2]. rewrite slice_length_le; lia.
    + destruct (0 <? ctx)%Z eqn:E; auto. unfold lines_between, slice.
      replace (Z.to_nat (num - 1) - Z.to_nat (num - ctx - 1)) with 0 by lia. reflexivity.
    + destruct (0 <? ctx)%Z eqn:E; auto. unfold lines_between, slice.
      replace (Z.to_nat (num + 1 + ctx - 1) - Z.to_nat (num + 1 - 1)) with 0 by lia. reflexivity.
    + discriminate.
    + change (mk_frag ls m :: map (mk_frag ls) lc') with (map (mk_frag ls) (m :: lc')).
      rewrite Forall_map. rewrite Forall_forall in *. intros x Hx. cbn [mk_frag f_off f_len f_lineoff].
      specialize (Hge x Hx). specialize (Hlc x Hx). specialize (Hmax x Hx).
      destruct (Hoklc x Hx) as [Hxs Hxe]. unfold c_end in *.
      repeat split; try lia.
      apply at_offset_unique; try lia. fold nls num ls nx. lia.
  - constructor; auto. rewrite Forall_forall. intros lm Hlm. cbn [lm_num]. auto.
  - constructor; [cbn [lm_num]; fold num; lia|].
    rewrite Forall_forall. intros lm Hlm. specialize (Hrestnum lm Hlm). fold num. lia.
  - cbn [flat_map lm_frags]. rewrite Htl4, map_map.
    change (m :: lc' ++ rest) with ((m :: lc') ++ rest). rewrite map_app. reflexivity.
Qed.

End Content.

Theorem fill_content_matches_multiline : forall c ctx, (0 <= ctx)%Z -> forall ms,
  Forall (cand_ok c) ms -> disjoint_sorted ms ->
  exists res, fill_content_matches (newlines_of c) c ctx ms = Ok res /\
    Forall (lm_ok_ml c ctx) res /\
    StronglySorted (fun a b => (lm_num a < lm_num b)%Z) res /\
    flat_map (fun lm => map frag_cand (lm_frags lm)) res = map cand_key ms.
Proof.
  intros c ctx Hctx ms H1 H2. unfold fill_content_matches.
  destruct (fill_lines_multiline c ctx Hctx (length ms) ms (le_n _) H1 H2) as [res [E [A [B [_ D]]]]].
  exists res. auto.
Qed.
