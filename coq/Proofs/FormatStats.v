(** C11 — calculateStats on arbitrary loaded data: terminates, every panic is an index panic that loadShard's recover
    turns into a load error; a model-written witness shows the panic is real (the defect repaired by 88c1762). *)
From Coq Require Import ZifyBool ZifyNat ZifyN.
From ZV Require Import Lib.Base Lib.Varint Generated.FormatConsts Model.Format Model.FormatRobust Model.FormatStats Proofs.FormatRobust.
Open Scope N_scope.

Lemma newlines_stats_nd : forall d k i, nd (newlines_stats d k i).
Proof.
  intros d. induction k as [|k IH]; intros i; cbn [newlines_stats]; [discriminate|].
  apply nd_bind; [apply nth_chk_nd|]. intros m _. apply nd_bind; [apply nth_chk_nd|]. intros a _.
  apply nd_bind; [apply nth_chk_nd|]. intros b _. apply nd_bind; [apply IH|]. intros [[c dc] oc] _.
  destruct (file_read (i_file d) ((i_newlinesStart d + a) mod W32) (N.min ((b + W32 - a) mod W32) 10)); discriminate.
Qed.

Lemma stats_range_nd : forall d s e, nd (stats_range d s e).
Proof.
  intros d s e. unfold stats_range. destruct (e <=? s); [discriminate|].
  repeat (apply nd_bind; [apply nth_chk_nd|]; intros ? _).
  apply nd_bind; [apply newlines_stats_nd|]. intros nl _. discriminate.
Qed.

Lemma calc_stats_from_nd : forall d n r s, nd (calc_stats_from d n r s).
Proof.
  intros d. induction n as [|n IH]; intros r s; cbn [calc_stats_from]; [discriminate|].
  match goal with |- nd (if ?c then _ else _) => destruct c end; [discriminate|].
  apply nd_bind; [apply stats_range_nd|]. intros st _. apply nd_bind; [apply IH|]. intros rest _. discriminate.
Qed.

(** NewSearcher incl. calculateStats never hangs, for every file and every number of repositories ... *)
Theorem load_shard_stats_nd : forall f next n, nd (load_shard_stats f next n).
Proof.
  intros f next n. unfold load_shard_stats. apply nd_bind; [apply load_shard_nd|]. intros d _.
  apply nd_bind; [apply calc_stats_from_nd|]. intros x _. discriminate.
Qed.

(** ... and with the recover in loadShard it yields a searcher or an error *)
Theorem load_shard_stats_served_safe : forall f next n,
  match load_shard_stats_served f next n with Ok _ => True | Err _ => True | Panic _ => False end.
Proof.
  intros f next n. pose proof (load_shard_stats_nd f next n) as H. unfold load_shard_stats_served, recovered.
  destruct (load_shard_stats f next n) as [d|e|w]; auto. destruct (w =? P_DIVERGE) eqn:E; auto.
  apply N.eqb_eq in E. subst. apply H. reflexivity.
Qed.

(** the panic is real: a model-written file (3 documents, the fileNames record of the TOC zeroed) passes every
    section read and verify(), and calculateStatsForFileRange indexes the empty fileNameIndex *)
Lemma stats_witness : exists d, load_shard (mmap_file witness_stats) false = Ok d /\ calc_stats d 1 = Panic P_INDEX
  /\ load_shard_stats_served (mmap_file witness_stats) false 1 = Err E_RECOVERED.
Proof. eexists. split; [vm_compute; reflexivity|]. split; vm_compute; reflexivity. Qed.

(** a written healthy shard passes calculateStats: 1 document, content bytes 14, name bytes 4, no newline *)
Lemma stats_healthy : (do d <- load_shard (mmap_file iso_healthy) false; calc_stats d 1) = Ok [(14, 4, 1, (0, 0, 0))].
Proof. vm_compute. reflexivity. Qed.
