(** sortDocuments is deterministic: the rank vectors form a strict total order (the last component is the original
    index), so ANY sorting algorithm — sort.Slice's unstable pdqsort included — yields the list the model computes. *)
From ZV Require Import Lib.Base Model.BuilderFlow Proofs.BuilderFlow.
From Coq Require Import Permutation Sorting.Sorted.

Lemma lex_ltb_irrefl a : lex_ltb a a = false.
Proof. induction a as [|x a IH]; simpl; [reflexivity|]. rewrite Z.ltb_irrefl. exact IH. Qed.

Lemma lex_ltb_trans a : forall b c, lex_ltb a b = true -> lex_ltb b c = true -> lex_ltb a c = true.
Proof.
  induction a as [|x a IH]; intros [|y b] [|z c]; simpl; try discriminate.
  destruct (x <? y)%Z eqn:Exy, (y <? z)%Z eqn:Eyz, (x <? z)%Z eqn:Exz, (y <? x)%Z eqn:Eyx, (z <? y)%Z eqn:Ezy, (z <? x)%Z eqn:Ezx;
    try discriminate; try reflexivity;
    try (apply Z.ltb_lt in Exy); try (apply Z.ltb_ge in Exy); try (apply Z.ltb_lt in Eyz); try (apply Z.ltb_ge in Eyz);
    try (apply Z.ltb_lt in Exz); try (apply Z.ltb_ge in Exz); try (apply Z.ltb_lt in Eyx); try (apply Z.ltb_ge in Eyx);
    try (apply Z.ltb_lt in Ezy); try (apply Z.ltb_ge in Ezy); try (apply Z.ltb_lt in Ezx); try (apply Z.ltb_ge in Ezx);
    try lia.
  apply IH.
Qed.

Lemma lex_ltb_total a : forall b, length a = length b -> lex_ltb a b = false -> lex_ltb b a = false -> a = b.
Proof.
  induction a as [|x a IH]; intros [|y b] Hl H1 H2; try discriminate; [reflexivity|].
  simpl in *. destruct (x <? y)%Z eqn:Exy; [discriminate|]. destruct (y <? x)%Z eqn:Eyx; [discriminate|].
  apply Z.ltb_ge in Exy. apply Z.ltb_ge in Eyx. assert (x = y) by lia. subst. f_equal. apply IH; [lia|assumption|assumption].
Qed.

Section Det.
  Context {A : Type}.
  Variable key : A -> dkey.
  Notation rk := (ranked (A:=A)).
  Definition rle (a b : rk) : Prop := lex_ltb (fst b) (fst a) = false.      (* a is not after b *)

  Lemma insert_ranked_sorted (x : rk) l : StronglySorted rle l -> StronglySorted rle (insert_ranked x l).
  Proof.
    induction 1 as [|y l Hs IH Hall]; simpl; [repeat constructor|].
    destruct (lex_ltb (fst x) (fst y)) eqn:E.
    - constructor; [constructor; assumption|].
      constructor.
      + unfold rle. destruct (lex_ltb (fst y) (fst x)) eqn:E2; [|reflexivity].
        pose proof (lex_ltb_trans _ _ _ E E2) as C. rewrite lex_ltb_irrefl in C. discriminate.
      + eapply Forall_impl; [|exact Hall]. unfold rle. intros z Hz.
        destruct (lex_ltb (fst z) (fst x)) eqn:E2; [|reflexivity].
        pose proof (lex_ltb_trans _ _ _ E2 E) as C. congruence.
    - constructor; [exact IH|].
      eapply Permutation_Forall; [apply Permutation_sym, insert_ranked_perm|].
      constructor; [exact E|exact Hall].
  Qed.

  Lemma sort_ranked_sorted (l : list rk) : StronglySorted rle (sort_ranked l).
  Proof. induction l as [|x l IH]; simpl; [constructor|apply insert_ranked_sorted, IH]. Qed.

  Lemma sorted_rank_unique (l1 : list rk) : forall l2,
    StronglySorted rle l1 -> StronglySorted rle l2 ->
    NoDup (map fst l1) -> Forall (fun p => length (fst p) = 9) l1 ->
    Permutation l1 l2 -> l1 = l2.
  Proof.
    induction l1 as [|x l1 IH]; intros l2 S1 S2 N1 L1 P.
    - apply Permutation_nil in P. auto.
    - destruct l2 as [|y l2]; [apply Permutation_sym, Permutation_nil in P; discriminate|].
      assert (NoDup (map fst (y :: l2))) as N2 by (eapply Permutation_NoDup; [apply Permutation_map, P|exact N1]).
      assert (Forall (fun p : rk => length (fst p) = 9) (y :: l2)) as L2 by (eapply Permutation_Forall; eauto).
      apply StronglySorted_inv in S1. destruct S1 as [S1 A1]. apply StronglySorted_inv in S2. destruct S2 as [S2 A2].
      rewrite Forall_forall in A1, A2.
      assert (x = y) as ->.
      { assert (In x (y :: l2)) as Hx by (eapply Permutation_in; [exact P|left; reflexivity]).
        assert (In y (x :: l1)) as Hy by (eapply Permutation_in; [apply Permutation_sym, P|left; reflexivity]).
        destruct Hx as [Hx|Hx]; [auto|]. destruct Hy as [Hy|Hy]; [auto|].
        pose proof (A2 _ Hx) as R1. pose proof (A1 _ Hy) as R2. unfold rle in R1, R2.
        assert (fst x = fst y) as E.
        { apply lex_ltb_total; [|exact R1|exact R2].
          inversion L1; inversion L2; subst. congruence. }
        exfalso. simpl in N2. apply NoDup_cons_iff in N2. destruct N2 as [Ny _]. apply Ny. rewrite <- E. apply in_map. exact Hx. }
      f_equal. apply IH; try assumption.
      + simpl in N1. apply NoDup_cons_iff in N1. tauto.
      + inversion L1. assumption.
      + eapply Permutation_cons_inv. exact P.
  Qed.

  (** rank vectors: length 9, last component the original index, hence pairwise distinct *)
  Lemma rank_all_len l : forall i, Forall (fun p : rk => length (fst p) = 9) (rank_all key l i).
  Proof. induction l as [|d l IH]; intros i; simpl; constructor; [reflexivity|apply IH]. Qed.

  Lemma rank_all_idx l : forall i p, In p (rank_all key l i) -> (Z.of_nat i <= nth 8 (fst p) 0)%Z.
  Proof.
    induction l as [|d l IH]; intros i p H; simpl in H; [contradiction|].
    destruct H as [<-|H]; [simpl; lia|]. apply IH in H. lia.
  Qed.

  Lemma rank_all_nodup l : forall i, NoDup (map fst (rank_all key l i)).
  Proof.
    induction l as [|d l IH]; intros i; simpl; constructor; [|apply IH].
    intros H. apply in_map_iff in H. destruct H as (p & E & Hp). apply rank_all_idx in Hp.
    rewrite E in Hp. simpl in Hp. lia.
  Qed.

  Theorem sort_deterministic l (l' : list rk) :
    Permutation l' (rank_all key l 0) -> StronglySorted rle l' -> map snd l' = sort_docs key l.
  Proof.
    intros P S. unfold sort_docs. f_equal. symmetry.
    apply sorted_rank_unique.
    - apply sort_ranked_sorted.
    - exact S.
    - eapply Permutation_NoDup; [apply Permutation_map, Permutation_sym, sort_ranked_perm|apply rank_all_nodup].
    - eapply Permutation_Forall; [apply Permutation_sym, sort_ranked_perm|apply rank_all_len].
    - eapply perm_trans; [apply sort_ranked_perm|apply Permutation_sym, P].
  Qed.
End Det.
