(** C03 — specification vocabulary for "lines of a file" and the basic facts tying the newline index
    (locs_of / at_offset / line_start / get_lines) to the raw content. *)
From ZV Require Import Lib.Base Lib.GoSearch Lib.RuneCount Model.Lines.
From Coq Require Import ZifyBool ZifyNat.

(** ---- specification vocabulary (independent of the newline index) *)

(** number of newline bytes *)
Fixpoint count_nl (l : list N) : nat :=
  match l with
  | [] => 0
  | c :: r => if N.eqb c 10 then S (count_nl r) else count_nl r
  end.

(** length of the shortest prefix of [l] that contains [k] newlines; |l| if [l] has fewer *)
Fixpoint after_nl (l : list N) (k : nat) : nat :=
  match l with
  | [] => 0
  | c :: r => match k with
              | 0 => 0
              | S k' => S (if N.eqb c 10 then after_nl r k' else after_nl r (S k'))
              end
  end.

(** the lines of a file: every line keeps its terminating newline; the text after the last newline
    is the last line (possibly empty): #lines = #newlines + 1 *)
Fixpoint lines (l : list N) : list (list N) :=
  match l with
  | [] => [[]]
  | c :: r => if N.eqb c 10 then [c] :: lines r
              else match lines r with
                   | [] => [[c]]
                   | x :: xs => (c :: x) :: xs
                   end
  end.

Lemma lines_nonempty : forall l, lines l <> [].
Proof. induction l as [|c r IH]; simpl; [discriminate|]. destruct (N.eqb c 10); [discriminate|]. destruct (lines r); discriminate. Qed.

Lemma concat_lines : forall l, concat (lines l) = l.
Proof.
  induction l as [|c r IH]; simpl; auto.
  destruct (N.eqb c 10); simpl; [now rewrite IH|].
  destruct (lines r) as [|x xs] eqn:E; [now destruct (lines_nonempty r)|].
  simpl in *. now rewrite IH.
Qed.

Lemma length_lines : forall l, length (lines l) = S (count_nl l).
Proof.
  induction l as [|c r IH]; simpl; auto.
  destruct (N.eqb c 10); simpl; [now rewrite IH|].
  destruct (lines r) as [|x xs] eqn:E; [now destruct (lines_nonempty r)|]. simpl in *. lia.
Qed.

(** after_nl is the length of the first k lines *)
Lemma after_nl_lines : forall l k, after_nl l k = length (concat (firstn k (lines l))).
Proof.
  induction l as [|c r IH]; intros k; simpl.
  - destruct k; simpl; auto. destruct k; auto.
  - destruct k as [|k']; simpl; auto.
    destruct (N.eqb c 10); simpl.
    + now rewrite IH.
    + rewrite IH. destruct (lines r) as [|x xs] eqn:E; [now destruct (lines_nonempty r)|].
      simpl. reflexivity.
Qed.

Lemma after_nl_le : forall l k, after_nl l k <= length l.
Proof.
  induction l as [|c r IH]; intros k; simpl; auto.
  destruct k; [lia|]. destruct (N.eqb c 10); [specialize (IH k)|specialize (IH (S k))]; lia.
Qed.

Lemma after_nl_mono : forall l k k', k <= k' -> after_nl l k <= after_nl l k'.
Proof.
  induction l as [|c r IH]; intros k k' H; simpl; auto.
  destruct k as [|k0]; [lia|]. destruct k' as [|k1]; [lia|].
  destruct (N.eqb c 10); apply le_n_S; apply IH; lia.
Qed.

Lemma after_nl_all : forall l k, count_nl l < k -> after_nl l k = length l.
Proof.
  induction l as [|c r IH]; intros k H; simpl in *; auto.
  destruct k as [|k0]; [lia|]. destruct (N.eqb c 10); f_equal; apply IH; lia.
Qed.

Lemma count_nl_firstn_le : forall l a b, a <= b -> count_nl (firstn a l) <= count_nl (firstn b l).
Proof.
  induction l as [|c r IH]; intros a b H; [destruct a, b; simpl; lia|].
  destruct a as [|a0]; [simpl; lia|]. destruct b as [|b0]; [lia|]. simpl.
  specialize (IH a0 b0). destruct (N.eqb c 10); lia.
Qed.

Lemma count_nl_firstn_total : forall l a, count_nl (firstn a l) <= count_nl l.
Proof.
  induction l as [|c r IH]; intros a; [destruct a; simpl; lia|].
  destruct a as [|a0]; [simpl; lia|]. simpl. specialize (IH a0). destruct (N.eqb c 10); lia.
Qed.

Lemma count_nl_firstn_S : forall l x, nth_error l x = Some 10%N ->
  count_nl (firstn (S x) l) = S (count_nl (firstn x l)).
Proof.
  induction l as [|c r IH]; intros x H; [destruct x; discriminate|].
  destruct x as [|x0].
  - simpl in H. injection H as ->. reflexivity.
  - simpl in H. rewrite !firstn_cons. cbn [count_nl]. rewrite (IH x0 H). destruct (N.eqb c 10); reflexivity.
Qed.

(** the offset [off] lies inside line number count_nl (firstn off l) + 1 *)
Lemma after_nl_bracket : forall l off, off < length l ->
  after_nl l (count_nl (firstn off l)) <= off /\ off < after_nl l (S (count_nl (firstn off l))).
Proof.
  induction l as [|c r IH]; intros off H; simpl in H; [lia|].
  destruct off as [|o].
  - simpl. destruct (N.eqb c 10); lia.
  - simpl firstn. simpl count_nl. destruct (N.eqb c 10) eqn:E.
    + simpl. rewrite E. destruct (IH o) as [A B]; [lia|]. simpl in B. lia.
    + destruct (IH o) as [A B]; [lia|].
      destruct (count_nl (firstn o r)) as [|k] eqn:Ek.
      * simpl. rewrite E. simpl in B. lia.
      * simpl. rewrite E. simpl in B. lia.
Qed.

(** a prefix that ends on a line boundary *)
Lemma after_nl_boundary : forall l k, 0 < k ->
  after_nl l k = length l \/ nth_error l (after_nl l k - 1) = Some 10%N.
Proof.
  induction l as [|c r IH]; intros k H; simpl; auto.
  destruct k as [|k0]; [lia|].
  destruct (N.eqb c 10) eqn:E.
  - destruct k0 as [|k1].
    + right. destruct r; simpl; apply N.eqb_eq in E; now subst.
    + destruct (IH (S k1)) as [A|A]; [lia|left; lia|].
      right. simpl in *. destruct (after_nl r (S k1)) as [|m] eqn:Em.
      * destruct r as [|c2 r2]; simpl in Em; [|discriminate].
        simpl in A. discriminate.
      * simpl in A. rewrite Nat.sub_0_r in *. exact A.
  - destruct (IH (S k0)) as [A|A]; [lia|left; lia|].
    right. destruct (after_nl r (S k0)) as [|m] eqn:Em.
    + destruct r as [|c2 r2]; simpl in Em; [|discriminate]. simpl in A. discriminate.
    + simpl in A. simpl. rewrite Nat.sub_0_r in *. exact A.
Qed.

Lemma count_nl_after_nl : forall l k, count_nl (firstn (after_nl l k) l) = Nat.min k (count_nl l).
Proof.
  induction l as [|c r IH]; intros k; simpl; [destruct k; reflexivity|].
  destruct k as [|k0]; [reflexivity|].
  destruct (N.eqb c 10) eqn:E; simpl; rewrite E.
  - rewrite IH. reflexivity.
  - rewrite IH. reflexivity.
Qed.

(** ---- the newline index of a content *)

Lemma nl_aux_length : forall l off, length (nl_aux l off) = count_nl l.
Proof. induction l as [|c r IH]; intros off; simpl; auto. destruct (N.eqb c 10); simpl; now rewrite IH. Qed.

Lemma nl_aux_nth : forall l off j x, nth_error (nl_aux l off) j = Some x ->
  off <= x /\ count_nl (firstn (x - off) l) = j /\ nth_error l (x - off) = Some 10%N.
Proof.
  induction l as [|c r IH]; intros off j x H; simpl in H; [destruct j; discriminate|].
  destruct (N.eqb c 10) eqn:E.
  - destruct j as [|j0]; simpl in H.
    + injection H as <-. rewrite Nat.sub_diag. simpl. apply N.eqb_eq in E. subst. auto.
    + destruct (IH (S off) j0 x H) as [A [B C]].
      replace (x - off) with (S (x - S off)) by lia. simpl. rewrite E. auto with arith.
  - destruct (IH (S off) j x H) as [A [B C]].
    replace (x - off) with (S (x - S off)) by lia. simpl. rewrite E. auto with arith.
Qed.

Lemma nl_aux_line_start : forall l off j,
  match nth_error (nl_aux l off) j with
  | Some x => S x = off + after_nl l (S j)
  | None => after_nl l (S j) = length l
  end.
Proof.
  induction l as [|c r IH]; intros off j; simpl; [destruct j; reflexivity|].
  destruct (N.eqb c 10) eqn:E.
  - destruct j as [|j0]; simpl.
    + destruct r; simpl; lia.
    + specialize (IH (S off) j0). destruct (nth_error (nl_aux r (S off)) j0); lia.
  - specialize (IH (S off) j). destruct (nth_error (nl_aux r (S off)) j); lia.
Qed.

(** atOffset: 1 + number of newlines strictly before the offset (so an offset ON a newline
    belongs to the line which that newline ends) *)
Theorem at_offset_spec : forall c off,
  at_offset (newlines_of c) off = (Z.of_nat (count_nl (firstn off c)) + 1)%Z.
Proof.
  intros c off. unfold at_offset, newlines_of; simpl. f_equal. f_equal.
  set (L := locs_of c). set (K := count_nl (firstn off c)).
  assert (Hlen : length L = count_nl c) by apply nl_aux_length.
  assert (Hmono : forall a b, a <= b -> at_pred L off a = true -> at_pred L off b = true).
  { intros a b Hab Ha. unfold at_pred in *.
    destruct (nth_error L b) as [y|] eqn:Eb; auto.
    destruct (nth_error L a) as [x|] eqn:Ea.
    - destruct (Nat.eq_dec a b) as [->|Hne]; [congruence|].
      apply nl_aux_nth in Ea. apply nl_aux_nth in Eb. rewrite Nat.sub_0_r in *.
      destruct Ea as [_ [Ea _]]. destruct Eb as [_ [Eb _]].
      apply Nat.leb_le in Ha. apply Nat.leb_le.
      destruct (Nat.le_gt_cases x y) as [Hxy|Hxy]; [lia|].
      pose proof (count_nl_firstn_le c y x ltac:(lia)). lia.
    - apply nth_error_None in Ea. assert (nth_error L b = None) by (apply nth_error_None; lia). congruence. }
  rewrite (go_search_first_true _ _ Hmono). unfold first_true.
  pose proof (first_true_from_spec (length L) 0 (at_pred L off)) as [Hr [Hf Ht]].
  set (r := first_true_from (length L) 0 (at_pred L off)) in *.
  assert (HK : K <= length L) by (rewrite Hlen; apply count_nl_firstn_total).
  (* K satisfies the characterisation of r *)
  assert (HKf : forall a, a < K -> at_pred L off a = false).
  { intros a Ha. unfold at_pred. destruct (nth_error L a) as [x|] eqn:Ea.
    - apply nl_aux_nth in Ea. rewrite Nat.sub_0_r in Ea. destruct Ea as [_ [Ea _]].
      apply Nat.leb_gt. destruct (Nat.le_gt_cases off x) as [Hox|Hox]; [|lia].
      pose proof (count_nl_firstn_le c off x Hox). unfold K in Ha. lia.
    - apply nth_error_None in Ea. lia. }
  assert (HKt : K < length L -> at_pred L off K = true).
  { intros Hlt. unfold at_pred. destruct (nth_error L K) as [x|] eqn:Ea; auto.
    apply nl_aux_nth in Ea. rewrite Nat.sub_0_r in Ea. destruct Ea as [_ [Ea Enl]].
    apply Nat.leb_le. destruct (Nat.le_gt_cases off x) as [Hox|Hox]; [lia|].
    pose proof (count_nl_firstn_le c (S x) off Hox) as H1.
    rewrite (count_nl_firstn_S c x Enl) in H1. unfold K in Ea. lia. }
  destruct (Nat.lt_trichotomy r K) as [Hlt|[Heq|Hgt]]; auto.
  - assert (at_pred L off r = true) by (apply Ht; lia).
    assert (at_pred L off r = false) by (apply HKf; lia). congruence.
  - assert (at_pred L off K = true) by (apply HKt; lia).
    assert (at_pred L off K = false) by (apply Hf; lia). congruence.
Qed.

(** lineStart: the length of the first (ln-1) lines — 0 for ln <= 1, |c| beyond the last line *)
Theorem line_start_spec : forall c ln,
  line_start (newlines_of c) ln = after_nl c (Z.to_nat (ln - 1)).
Proof.
  intros c ln. unfold line_start, newlines_of; simpl.
  destruct (ln - 2 <? 0)%Z eqn:E.
  - replace (Z.to_nat (ln - 1)) with 0 by lia. destruct c; reflexivity.
  - replace (Z.to_nat (ln - 1)) with (S (Z.to_nat (ln - 2))) by lia.
    pose proof (nl_aux_line_start c 0 (Z.to_nat (ln - 2))) as H. unfold locs_of.
    destruct (nth_error (nl_aux c 0) (Z.to_nat (ln - 2))); lia.
Qed.

Corollary line_start_clamped : forall c ln, line_start (newlines_of c) ln <= length c.
Proof. intros. rewrite line_start_spec. apply after_nl_le. Qed.

Corollary line_start_mono : forall c a b, (a <= b)%Z ->
  line_start (newlines_of c) a <= line_start (newlines_of c) b.
Proof. intros. rewrite !line_start_spec. apply after_nl_mono. lia. Qed.

(** the line reported by atOffset really contains the offset *)
Theorem at_offset_in_line : forall c off, off < length c ->
  let n := at_offset (newlines_of c) off in
  line_start (newlines_of c) n <= off < line_start (newlines_of c) (n + 1).
Proof.
  intros c off H n. unfold n. rewrite at_offset_spec, !line_start_spec.
  replace (Z.to_nat (Z.of_nat (count_nl (firstn off c)) + 1 - 1)) with (count_nl (firstn off c)) by lia.
  replace (Z.to_nat (Z.of_nat (count_nl (firstn off c)) + 1 + 1 - 1)) with (S (count_nl (firstn off c))) by lia.
  apply after_nl_bracket; auto.
Qed.

(** ---- slicing a concatenation at element boundaries *)
Lemma slice_concat : forall (L : list (list N)) a b, a <= b ->
  slice (concat L) (length (concat (firstn a L))) (length (concat (firstn b L))) = concat (slice L a b).
Proof.
  unfold slice.
  induction L as [|x xs IH]; intros a b Hab.
  - destruct a, b; simpl; auto; rewrite firstn_nil; reflexivity.
  - destruct a as [|a0].
    + simpl. rewrite Nat.sub_0_r. destruct b as [|b0]; [simpl; auto|].
      simpl. rewrite app_length.
      rewrite firstn_app. replace (length x + length (concat (firstn b0 xs)) - length x) with (length (concat (firstn b0 xs))) by lia.
      rewrite firstn_all2 by lia. f_equal.
      specialize (IH 0 b0 ltac:(lia)). simpl in IH. rewrite !Nat.sub_0_r in IH. exact IH.
    + destruct b as [|b0]; [lia|]. simpl.
      rewrite !app_length.
      rewrite skipn_app. rewrite skipn_all2 by lia. simpl.
      replace (length x + length (concat (firstn a0 xs)) - length x) with (length (concat (firstn a0 xs))) by lia.
      replace (length x + length (concat (firstn b0 xs)) - (length x + length (concat (firstn a0 xs))))
        with (length (concat (firstn b0 xs)) - length (concat (firstn a0 xs))) by lia.
      apply IH. lia.
Qed.

(** getLines returns exactly the whole lines [low, high) (clamped to the file), and never panics *)
Theorem get_lines_spec : forall c low high,
  get_lines (newlines_of c) c low high =
  Ok (concat (slice (lines c) (Z.to_nat (low - 1)) (Z.to_nat (high - 1)))).
Proof.
  intros c low high. unfold get_lines.
  destruct (high <=? low)%Z eqn:E.
  - unfold slice. replace (Z.to_nat (high - 1) - Z.to_nat (low - 1)) with 0 by lia. reflexivity.
  - unfold go_slice.
    pose proof (line_start_mono c low high ltac:(lia)) as Hm.
    pose proof (line_start_clamped c high) as Hc.
    destruct (line_start (newlines_of c) low <=? line_start (newlines_of c) high) eqn:E1; [|lia].
    destruct (line_start (newlines_of c) high <=? length c) eqn:E2; [|lia].
    simpl. f_equal. rewrite !line_start_spec, !after_nl_lines.
    rewrite <- (concat_lines c) at 1. apply slice_concat. lia.
Qed.
