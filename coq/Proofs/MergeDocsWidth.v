(** C16 — the branch walk of addDocument with the width of its bit counter explicit (Model/MergeDocs.v decode_w,
    merge_w, explode_w): a walk of >= 64 bits is the idealised walk on well-formed shards (so every theorem about
    [merge] / [explode] is a theorem about the code as written, [merge_impl] / [explode_impl]); the 32-bit walk the
    code had before the repair is not. *)
From ZV Require Import Lib.Base Model.MergeDocs Proofs.MergeDocsProofs Proofs.MergeDocsTotal.
From Coq Require Import Permutation Sorted.

Lemma select_firstn : forall mask names w, (length mask <= w)%nat -> select mask (firstn w names) = select mask names.
Proof.
  induction mask as [|b m IH]; intros names w Hl; [reflexivity|].
  simpl in Hl. destruct w as [|w]; [lia|].
  destruct names as [|n ns]; [reflexivity|]. simpl. rewrite IH by lia. reflexivity.
Qed.

Lemma decode_w_eq : forall w sh d, (length (sd_mask d) <= w)%nat -> decode_w w sh d = decode sh d.
Proof.
  intros w sh d Hl. unfold decode_w, decode, select_w.
  destruct (nth_error (sh_repos sh) (sd_repo d)) as [r|]; [|reflexivity].
  destruct (nth_error (sr_subs r) (sd_sub d)) as [sub|]; [|reflexivity].
  rewrite select_firstn by exact Hl. reflexivity.
Qed.

(** the repository the builder is currently filling went through setRepository: <= 64 branches *)
Definition last_le (sh : shard) (last : option nat) : Prop :=
  forall l r, last = Some l -> nth_error (sh_repos sh) l = Some r -> (length (sr_branches r) <= 64)%nat.

Lemma copy_docs_w_eq : forall w sh, (64 <= w)%nat -> forall docs b last,
  Forall (wf_doc sh) docs -> last_le sh last -> copy_docs_w w sh docs b last = copy_docs sh docs b last.
Proof.
  intros w sh Hw. induction docs as [|d rest IH]; intros b last Hwf Hlast; [reflexivity|].
  inversion Hwf as [|? ? Hd Hrest]; subst. simpl.
  destruct Hd as [r [Hr [Hm _]]]. rewrite Hr.
  destruct (sr_tomb r); [apply IH; auto|].
  assert (Hstep : forall b1, (length (sr_branches r) <= 64)%nat ->
     (do dd <- decode_w w sh d; do b2 <- add_doc b1 dd; copy_docs_w w sh rest b2 (Some (sd_repo d))) =
     (do dd <- decode sh d; do b2 <- add_doc b1 dd; copy_docs sh rest b2 (Some (sd_repo d)))).
  { intros b1 Hle. rewrite decode_w_eq by lia. destruct (decode sh d) as [dd| |]; simpl; auto.
    destruct (add_doc b1 dd) as [b2| |]; simpl; auto. apply IH; auto.
    intros l r' Hl Hr'. inversion Hl; subst. rewrite Hr in Hr'. inversion Hr'; subst. exact Hle. }
  destruct last as [l|].
  - destruct (Nat.eqb l (sd_repo d)) eqn:E.
    + apply Nat.eqb_eq in E. subst l. simpl. apply Hstep. eapply Hlast; eauto.
    + destruct (sd_repo d <? l)%nat; [reflexivity|].
      destruct (set_repo b r) as [b1| |] eqn:Es; simpl; auto. apply Hstep. eapply set_repo_ok_le; eauto.
  - destruct (set_repo b r) as [b1| |] eqn:Es; simpl; auto. apply Hstep. eapply set_repo_ok_le; eauto.
Qed.

Lemma last_le_none : forall sh, last_le sh None.
Proof. intros sh l r H. discriminate. Qed.

Lemma merge_loop_w_eq : forall w, (64 <= w)%nat -> forall shards b,
  Forall wf_shard shards -> merge_loop_w w shards b = merge_loop shards b.
Proof.
  intros w Hw. induction shards as [|sh rest IH]; intros b Hwf; [reflexivity|].
  inversion Hwf as [|? ? Hsh Hrest]; subst. simpl.
  rewrite (copy_docs_w_eq w sh Hw) by (auto using last_le_none).
  destruct (copy_docs sh (sh_docs sh) b None); simpl; auto.
Qed.

Lemma merge_w_eq : forall w shards, (64 <= w)%nat -> Forall wf_shard shards -> merge_w w shards = merge shards.
Proof.
  intros w shards Hw Hwf. unfold merge_w, merge. destruct shards as [|sh rest]; [reflexivity|].
  apply merge_loop_w_eq; auto.
  eapply Permutation_Forall; [apply Permutation_sym, sort_prio_perm|exact Hwf].
Qed.

Lemma explode_docs_w_eq : forall w sh, (64 <= w)%nat -> forall docs cur last done,
  Forall (wf_doc sh) docs -> last_le sh last ->
  explode_docs_w w sh docs cur last done = explode_docs sh docs cur last done.
Proof.
  intros w sh Hw. induction docs as [|d rest IH]; intros cur last done Hwf Hlast; [reflexivity|].
  inversion Hwf as [|? ? Hd Hrest]; subst. simpl.
  destruct Hd as [r [Hr [Hm _]]]. rewrite Hr.
  destruct (sr_tomb r); [apply IH; auto|].
  assert (Hnext : forall (Hle : (length (sr_branches r) <= 64)%nat), last_le sh (Some (sd_repo d))).
  { intros Hle l r' Hl Hr'. inversion Hl; subst. rewrite Hr in Hr'. inversion Hr'; subst. exact Hle. }
  destruct (match last with Some l => Nat.eqb l (sd_repo d) | None => false end) eqn:Esame.
  - destruct last as [l|]; [|discriminate]. apply Nat.eqb_eq in Esame. subst l.
    assert (Hle : (length (sr_branches r) <= 64)%nat) by (eapply Hlast; eauto).
    destruct cur as [b|]; [|reflexivity].
    rewrite decode_w_eq by lia. destruct (decode sh d) as [dd| |]; simpl; auto.
    destruct (add_doc b dd) as [b2| |]; simpl; auto.
  - destruct (match last with Some l => (sd_repo d <? l)%nat | None => false end); [reflexivity|].
    destruct (set_repo empty_builder r) as [b1| |] eqn:Es; simpl; auto.
    assert (Hle : (length (sr_branches r) <= 64)%nat) by (eapply set_repo_ok_le; eauto).
    rewrite decode_w_eq by lia. destruct (decode sh d) as [dd| |]; simpl; auto.
    destruct (add_doc b1 dd) as [b2| |]; simpl; auto.
Qed.

Lemma explode_w_eq : forall w sh, (64 <= w)%nat -> wf_shard sh -> explode_w w sh = explode sh.
Proof. intros w sh Hw Hwf. unfold explode_w, explode. apply explode_docs_w_eq; auto using last_le_none. Qed.

(** the code as written (64-bit walk) *)
Lemma merge_impl_eq : forall shards, Forall wf_shard shards -> merge_impl shards = merge shards.
Proof. intros. unfold merge_impl, walk_width. apply merge_w_eq; auto. Qed.
Lemma explode_impl_eq : forall sh, wf_shard sh -> explode_impl sh = explode sh.
Proof. intros. unfold explode_impl, walk_width. apply explode_w_eq; auto. Qed.

(** ---- the runner accepts only successes of the implementation on inputs satisfying the theorems' hypotheses *)
Lemma c16_ok_no_failure : forall mode inputs failed outs,
  c16_ok (mode, inputs, failed, outs) = true -> inputs <> [] ->
  Forall wf_shard inputs /\ Forall mergeable inputs /\ failed = false.
Proof.
  intros mode inputs failed outs H Hne. unfold c16_ok in H. apply andb_prop in H. destruct H as [Hpre H].
  destruct (c16_pre_true _ Hpre) as [Hwf Hmg]. split; auto. split; auto.
  unfold c16_ok_out in H. destruct mode as [|p].
  - rewrite (merge_impl_eq _ Hwf) in H.
    destruct (merge_total inputs Hne Hwf Hmg) as [b Hb]. rewrite Hb in H.
    destruct outs as [|o [|o2 outs]]; try discriminate.
    apply andb_prop in H. destruct H as [H _]. destruct failed; [discriminate|reflexivity].
  - destruct inputs as [|sh [|sh2 rest]]; try discriminate.
    inversion Hwf as [|? ? Hw _]; subst. inversion Hmg as [|? ? Hm _]; subst.
    rewrite (explode_impl_eq _ Hw) in H.
    destruct (explode_total sh Hw Hm) as [bs Hbs]. rewrite Hbs in H.
    apply andb_prop in H. destruct H as [H _]. apply andb_prop in H. destruct H as [H _].
    destruct failed; [discriminate|reflexivity].
Qed.

(** ---- the 32-bit walk (the code before the repair) loses documents on the branches 33..64: a well-formed,
    mergeable single-repository shard with 33 branches and one document on the last one *)
Definition ex33_branches : list N := map N.of_nat (seq 1 33).
Definition ex33_mask : list bool := repeat false 32 ++ [true].
Definition ex33_shard : shard :=
  {| sh_repos := [{| sr_id := 1; sr_prio := 0; sr_tomb := false; sr_branches := ex33_branches; sr_subs := [0%N] |}];
     sh_langs := [0%N];
     sh_docs := [{| sd_name := 7; sd_content := 8; sd_repo := 0; sd_mask := ex33_mask; sd_lang := 0; sd_sub := 0;
                    sd_syms := []; sd_cat := 0 |}] |}.

Lemma ex33_pre : c16_pre ex33_shard = true.
Proof. vm_compute. reflexivity. Qed.
Lemma walk32_refuted :
  wf_shard ex33_shard /\ mergeable ex33_shard /\
  merge_w 32 [ex33_shard] = Err 2 /\ explode_w 32 ex33_shard = Err 2 /\
  (exists b, merge_w 64 [ex33_shard] = Ok b /\ viewr b = viewr ex33_shard).
Proof.
  pose proof ex33_pre as H. unfold c16_pre in H. apply andb_prop in H. destruct H as [H1 H2].
  split; [apply wf_shardb_true; exact H1|]. split; [apply mergeableb_true; exact H2|].
  split; [vm_compute; reflexivity|]. split; [vm_compute; reflexivity|].
  eexists. split; vm_compute; reflexivity.
Qed.
