(** C01: the operational hit iterators (Model/SearchCoreIters.v) denote the list functions of the search-core model. *)
From ZV Require Import Lib.Base Model.SearchCore Model.SearchCoreIters Proofs.SearchCoreText.
From Coq Require Import Sorting.Sorted ZifyBool.

Lemma hnext_filter : forall limit l, inc l -> hnext limit l = filter (fun p => limit <? p) l.
Proof.
  intros limit l H. unfold hnext. rewrite drop_while_le_filter by auto. apply filter_ext. intro p. lia.
Qed.
Lemma hnext_inc : forall limit l, inc l -> inc (hnext limit l).
Proof. intros. rewrite hnext_filter by auto. apply inc_filter. auto. Qed.
Lemma inc_tail : forall x l, inc (x :: l) -> inc l.
Proof. intros x l H. inversion H; auto. Qed.
Lemma inc_lt : forall x l y, inc (x :: l) -> In y l -> x < y.
Proof. intros x l y H Hy. inversion H as [|? ? _ Hf]; subst. rewrite Forall_forall in Hf. auto. Qed.
Lemma hnext_length_head : forall limit x l, x <= limit -> length (hnext limit (x :: l)) <= length l.
Proof.
  intros limit x l H. unfold hnext. simpl. assert (x <=? limit = true) as -> by lia.
  induction l as [|y l IH]; simpl; [lia|]. destruct (y <=? limit); simpl; lia.
Qed.

Lemma filter_all_false' : forall (A : Type) (f : A -> bool) l, (forall x, In x l -> f x = false) -> filter f l = [].
Proof. induction l as [|x l IH]; simpl; intro H; [reflexivity|]. rewrite H by auto. apply IH. auto. Qed.
Lemma filter_all_true : forall (A : Type) (f : A -> bool) l, (forall x, In x l -> f x = true) -> filter f l = l.
Proof. induction l as [|x l IH]; simpl; intro H; [reflexivity|]. rewrite H by auto. f_equal. apply IH. auto. Qed.

Section Dist.
Variable d : nat.

Lemma dist_drop1 : forall l1 l2 p2 r2 B, inc l1 -> l2 = p2 :: r2 -> inc l2 -> B + d < p2 ->
  dist_hits d (hnext B l1) l2 = dist_hits d l1 l2.
Proof.
  intros l1 l2 p2 r2 B H1 -> H2 HB. rewrite hnext_filter by auto. unfold dist_hits. rewrite filter_filter.
  apply filter_ext_in. intros p Hp. destruct (mem_nat (p + d) (p2 :: r2)) eqn:E; [|apply andb_false_r].
  apply mem_nat_In in E. assert (p2 <= p + d) by (destruct E as [E|E]; [lia | pose proof (inc_lt p2 r2 _ H2 E); lia]). 
  assert (B <? p = true) as -> by lia. reflexivity.
Qed.

Lemma dist_drop2 : forall l1 l2 p1 r1 B, l1 = p1 :: r1 -> inc l1 -> inc l2 -> B < p1 + d ->
  dist_hits d l1 (hnext B l2) = dist_hits d l1 l2.
Proof.
  intros l1 l2 p1 r1 B -> H1 H2 HB. rewrite hnext_filter by auto. unfold dist_hits.
  apply filter_ext_in. intros p Hp.
  assert (p1 <= p) by (destruct Hp as [E|E]; [lia | pose proof (inc_lt p1 r1 _ H1 E); lia]).
  destruct (mem_nat (p + d) l2) eqn:E.
  - apply mem_nat_In in E. apply mem_nat_In. apply filter_In. split; [auto|lia].
  - destruct (mem_nat (p + d) (filter (fun q => B <? q) l2)) eqn:E'; [|reflexivity].
    apply mem_nat_In in E'. apply filter_In in E'. destruct E' as [E' _]. apply mem_nat_In in E'. congruence.
Qed.

Definition norm (st : list nat * list nat) : Prop :=
  match st with
  | ([], _) => True
  | (p1 :: _, p2 :: _) => p1 + d = p2
  | (_ :: _, []) => False
  end.

Theorem find_next_spec : forall fuel l1 l2, inc l1 -> inc l2 -> length l1 + length l2 < fuel ->
  inc (fst (find_next fuel d l1 l2)) /\ inc (snd (find_next fuel d l1 l2)) /\
  dist_hits d (fst (find_next fuel d l1 l2)) (snd (find_next fuel d l1 l2)) = dist_hits d l1 l2 /\
  norm (find_next fuel d l1 l2).
Proof.
  induction fuel as [|f IH]; intros l1 l2 H1 H2 Hf; [lia|].
  simpl. destruct l1 as [|p1 r1].
  - simpl. repeat split; auto; try constructor.
  - destruct l2 as [|p2 r2].
    + simpl. repeat split; auto; try constructor. unfold dist_hits. symmetry. apply filter_all_false'. intros; reflexivity.
    + destruct (p1 + d <? p2) eqn:E1.
      * assert (Hlen : length (hnext (p2 - d - 1) (p1 :: r1)) <= length r1) by (apply hnext_length_head; lia).
        destruct (IH (hnext (p2 - d - 1) (p1 :: r1)) (p2 :: r2) (hnext_inc _ _ H1) H2 ltac:(simpl in *; lia)) as [A [B [C D]]].
        repeat split; auto. rewrite C. apply (dist_drop1 (p1 :: r1) (p2 :: r2) p2 r2); auto. lia.
      * destruct (p2 <? p1 + d) eqn:E2.
        -- assert (Hlen : length (hnext (p1 + d - 1) (p2 :: r2)) <= length r2) by (apply hnext_length_head; lia).
           destruct (IH (p1 :: r1) (hnext (p1 + d - 1) (p2 :: r2)) H1 (hnext_inc _ _ H2) ltac:(simpl in *; lia)) as [A [B [C D]]].
           repeat split; auto. rewrite C. apply (dist_drop2 (p1 :: r1) (p2 :: r2) p1 r1); auto. lia.
        -- simpl. repeat split; auto. lia.
Qed.

Lemma norm_first : forall l1 l2, norm (l1, l2) -> hfirst l1 = hfirst (dist_hits d l1 l2).
Proof.
  intros [|p1 r1] l2 H; [reflexivity|]. destruct l2 as [|p2 r2]; [destruct H|]. simpl in H.
  unfold dist_hits. simpl. rewrite H. rewrite Nat.eqb_refl. reflexivity.
Qed.

Lemma dist_hnext : forall limit l1 l2, inc l1 -> inc l2 ->
  dist_hits d (hnext limit l1) (hnext (limit + d) l2) = hnext limit (dist_hits d l1 l2).
Proof.
  intros limit l1 l2 H1 H2. rewrite (hnext_filter limit l1 H1), (hnext_filter (limit + d) l2 H2).
  rewrite (hnext_filter limit (dist_hits d l1 l2)) by (apply inc_filter; auto).
  unfold dist_hits. rewrite !filter_filter. apply filter_ext_in. intros p Hp.
  destruct (limit <? p) eqn:E; [|rewrite andb_false_r; reflexivity]. simpl. rewrite andb_true_r.
  destruct (mem_nat (p + d) l2) eqn:Em.
  - apply mem_nat_In in Em. apply mem_nat_In. apply filter_In. split; [auto|lia].
  - destruct (mem_nat (p + d) (filter (fun q => limit + d <? q) l2)) eqn:E'; [|reflexivity].
    apply mem_nat_In in E'. apply filter_In in E'. destruct E' as [E' _]. apply mem_nat_In in E'. congruence.
Qed.

(** distanceHitIterator denotes dist_hits: construction, first, next *)
Theorem dmake_spec : forall l1 l2, inc l1 -> inc l2 ->
  let st := dmake d l1 l2 in
  inc (fst st) /\ inc (snd st) /\ norm st /\ dist_hits d (fst st) (snd st) = dist_hits d l1 l2.
Proof.
  intros l1 l2 H1 H2 st. destruct (find_next_spec (dfuel l1 l2) l1 l2 H1 H2 ltac:(unfold dfuel; lia)) as [A [B [C D]]].
  unfold st, dmake. auto.
Qed.
Theorem dfirst_spec : forall st, norm st -> dfirst st = hfirst (dist_hits d (fst st) (snd st)).
Proof. intros [l1 l2] H. apply norm_first. exact H. Qed.
Theorem dnext_spec : forall limit st, inc (fst st) -> inc (snd st) ->
  let st' := dnext d limit st in
  inc (fst st') /\ inc (snd st') /\ norm st' /\
  dist_hits d (fst st') (snd st') = hnext limit (dist_hits d (fst st) (snd st)).
Proof.
  intros limit [l1 l2] H1 H2 st'. simpl in H1, H2.
  destruct (find_next_spec (dfuel (hnext limit l1) (hnext (limit + d) l2)) (hnext limit l1) (hnext (limit + d) l2)
              (hnext_inc _ _ H1) (hnext_inc _ _ H2) ltac:(unfold dfuel; lia)) as [A [B [C D]]].
  assert (E : st' = find_next (dfuel (hnext limit l1) (hnext (limit + d) l2)) d (hnext limit l1) (hnext (limit + d) l2)) by reflexivity.
  rewrite E. change (fst (l1, l2)) with l1. change (snd (l1, l2)) with l2. repeat split; auto. rewrite C. apply dist_hnext; auto.
Qed.

(** the loop of ngramDocIterator.candidates consumes exactly the hits before the end of the file *)
Theorem cand_loop_spec : forall fuel fend st, inc (fst st) -> inc (snd st) -> norm st ->
  length (dist_hits d (fst st) (snd st)) < fuel ->
  let D := dist_hits d (fst st) (snd st) in
  let '(taken, st') := cand_loop fuel d fend st in
  taken = take_while (fun p => p <? fend) D /\ inc (fst st') /\ inc (snd st') /\ norm st' /\
  dist_hits d (fst st') (snd st') = drop_while (fun p => p <? fend) D.
Proof.
  induction fuel as [|f IH]; intros fend st H1 H2 Hn Hf; [lia|].
  simpl. rewrite (dfirst_spec st Hn).
  assert (HD : inc (dist_hits d (fst st) (snd st))) by (apply inc_filter; auto).
  destruct (dist_hits d (fst st) (snd st)) as [|p1 D'] eqn:ED; simpl.
  - repeat split; auto.
  - destruct (fend <=? p1) eqn:E.
    + assert (p1 <? fend = false) as -> by lia. repeat split; auto.
    + assert (p1 <? fend = true) as -> by lia.
      destruct (dnext_spec p1 st H1 H2) as [A [B [C Dd]]]. rewrite ED in Dd.
      assert (Hd' : hnext p1 (p1 :: D') = D').
      { rewrite hnext_filter by auto. simpl. assert (p1 <? p1 = false) as -> by lia.
        apply filter_all_true. intros y Hy. pose proof (inc_lt p1 D' y HD Hy). lia. }
      rewrite Hd' in Dd.
      specialize (IH fend (dnext d p1 st) A B C ltac:(rewrite Dd; simpl in Hf; lia)). cbv zeta in IH. rewrite Dd in IH.
      destruct (cand_loop f d fend (dnext d p1 st)) as [r st']. destruct IH as [I1 [I2 [I3 [I4 I5]]]].
      repeat split; auto. rewrite I1. reflexivity.
Qed.
End Dist.
