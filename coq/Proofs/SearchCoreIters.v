(** C01: the operational hit iterators (Model/SearchCoreIters.v) denote the list functions of the search-core model. *)
From ZV Require Import Lib.Base Model.SearchCore Model.SearchCoreIters Proofs.SearchCoreText.
From Coq Require Import Sorting.Sorted ZifyBool.

Lemma hnext_filter : forall limit l, inc l -> hnext limit l = filter (fun p => limit <? p) l.
Proof.
  intros limit l H. unfold hnext. rewrite drop_while_le_filter by auto. apply filter_ext. intro p. lia.
Qed.
Lemma hnext_inc : forall limit l, inc l -> inc (hnext limit l).
Proof. intros. rewrite hnext_filter by auto. apply inc_filter. auto. Qed.
Lemma inc_tail : forall x l, inc (x :: l) -> inc l.
Proof. intros x l H. inversion H; auto. Qed.
Lemma inc_lt : forall x l y, inc (x :: l) -> In y l -> x < y.
Proof. intros x l y H Hy. inversion H as [|? ? _ Hf]; subst. rewrite Forall_forall in Hf. auto. Qed.
Lemma hnext_length_head : forall limit x l, x <= limit -> length (hnext limit (x :: l)) <= length l.
Proof.
  intros limit x l H. unfold hnext. simpl. assert (x <=? limit = true) as -> by lia.
  induction l as [|y l IH]; simpl; [lia|]. destruct (y <=? limit); simpl; lia.
Qed.

Lemma filter_all_false' : forall (A : Type) (f : A -> bool) l, (forall x, In x l -> f x = false) -> filter f l = [].
Proof. induction l as [|x l IH]; simpl; intro H; [reflexivity|]. rewrite H by auto. apply IH. auto. Qed.
Lemma filter_all_true : forall (A : Type) (f : A -> bool) l, (forall x, In x l -> f x = true) -> filter f l = l.
Proof. induction l as [|x l IH]; simpl; intro H; [reflexivity|]. rewrite H by auto. f_equal. apply IH. auto. Qed.

Section Dist.
Variable d : nat.

Lemma dist_drop1 : forall l1 l2 p2 r2 B, inc l1 -> l2 = p2 :: r2 -> inc l2 -> B + d < p2 ->
  dist_hits d (hnext B l1) l2 = dist_hits d l1 l2.
Proof.
  intros l1 l2 p2 r2 B H1 -> H2 HB. rewrite hnext_filter by auto. unfold dist_hits. rewrite filter_filter.
  apply filter_ext_in. intros p Hp. destruct (mem_nat (p + d) (p2 :: r2)) eqn:E; [|apply andb_false_r].
  apply mem_nat_In in E. assert (p2 <= p + d) by (destruct E as [E|E]; [lia | pose proof (inc_lt p2 r2 _ H2 E); lia]). 
  assert (B <? p = true) as -> by lia. reflexivity.
Qed.

Lemma dist_drop2 : forall l1 l2 p1 r1 B, l1 = p1 :: r1 -> inc l1 -> inc l2 -> B < p1 + d ->
  dist_hits d l1 (hnext B l2) = dist_hits d l1 l2.
Proof.
  intros l1 l2 p1 r1 B -> H1 H2 HB. rewrite hnext_filter by auto. unfold dist_hits.
  apply filter_ext_in. intros p Hp.
  assert (p1 <= p) by (destruct Hp as [E|E]; [lia | pose proof (inc_lt p1 r1 _ H1 E); lia]).
  destruct (mem_nat (p + d) l2) eqn:E.
  - apply mem_nat_In in E. apply mem_nat_In. apply filter_In. split; [auto|lia].
  - destruct (mem_nat (p + d) (filter (fun q => B <? q) l2)) eqn:E'; [|reflexivity].
    apply mem_nat_In in E'. apply filter_In in E'. destruct E' as [E' _]. apply mem_nat_In in E'. congruence.
Qed.

Definition norm (st : list nat * list nat) : Prop :=
  match st with
  | ([], _) => True
  | (p1 :: _, p2 :: _) => p1 + d = p2
  | (_ :: _, []) => False
  end.

Theorem find_next_spec : forall fuel l1 l2, inc l1 -> inc l2 -> length l1 + length l2 < fuel ->
  inc (fst (find_next fuel d l1 l2)) /\ inc (snd (find_next fuel d l1 l2)) /\
  dist_hits d (fst (find_next fuel d l1 l2)) (snd (find_next fuel d l1 l2)) = dist_hits d l1 l2 /\
  norm (find_next fuel d l1 l2).
Proof.
  induction fuel as [|f IH]; intros l1 l2 H1 H2 Hf; [lia|].
  simpl. destruct l1 as [|p1 r1].
  - simpl. repeat split; auto; try constructor.
  - destruct l2 as [|p2 r2].
    + simpl. repeat split; auto; try constructor. unfold dist_hits. symmetry. apply filter_all_false'. intros; reflexivity.
    + destruct (p1 + d <? p2) eqn:E1.
      * assert (Hlen : length (hnext (p2 - d - 1) (p1 :: r1)) <= length r1) by (apply hnext_length_head; lia).
        destruct (IH (hnext (p2 - d - 1) (p1 :: r1)) (p2 :: r2) (hnext_inc _ _ H1) H2 ltac:(simpl in *; lia)) as [A [B [C D]]].
        repeat split; auto. rewrite C. apply (dist_drop1 (p1 :: r1) (p2 :: r2) p2 r2); auto. lia.
      * destruct (p2 <? p1 + d) eqn:E2.
        -- assert (Hlen : length (hnext (p1 + d - 1) (p2 :: r2)) <= length r2) by (apply hnext_length_head; lia).
           destruct (IH (p1 :: r1) (hnext (p1 + d - 1) (p2 :: r2)) H1 (hnext_inc _ _ H2) ltac:(simpl in *; lia)) as [A [B [C D]]].
           repeat split; auto. rewrite C. apply (dist_drop2 (p1 :: r1) (p2 :: r2) p1 r1); auto. lia.
        -- simpl. repeat split; auto. lia.
Qed.

Lemma norm_first : forall l1 l2, norm (l1, l2) -> hfirst l1 = hfirst (dist_hits d l1 l2).
Proof.
  intros [|p1 r1] l2 H; [reflexivity|]. destruct l2 as [|p2 r2]; [destruct H|]. simpl in H.
  unfold dist_hits. simpl. rewrite H. rewrite Nat.eqb_refl. reflexivity.
Qed.

Lemma dist_hnext : forall limit l1 l2, inc l1 -> inc l2 ->
  dist_hits d (hnext limit l1) (hnext (limit + d) l2) = hnext limit (dist_hits d l1 l2).
Proof.
  intros limit l1 l2 H1 H2. rewrite (hnext_filter limit l1 H1), (hnext_filter (limit + d) l2 H2).
  rewrite (hnext_filter limit (dist_hits d l1 l2)) by (apply inc_filter; auto).
  unfold dist_hits. rewrite !filter_filter. apply filter_ext_in. intros p Hp.
  destruct (limit <? p) eqn:E; [|rewrite andb_false_r; reflexivity]. simpl. rewrite andb_true_r.
  destruct (mem_nat (p + d) l2) eqn:Em.
  - apply mem_nat_In in Em. apply mem_nat_In. apply filter_In. split; [auto|lia].
  - destruct (mem_nat (p + d) (filter (fun q => limit + d <? q) l2)) eqn:E'; [|reflexivity].
    apply mem_nat_In in E'. apply filter_In in E'. destruct E' as [E' _]. apply mem_nat_In in E'. congruence.
Qed.

(** distanceHitIterator denotes dist_hits: construction, first, next *)
Theorem dmake_spec : forall l1 l2, inc l1 -> inc l2 ->
  let st := dmake d l1 l2 in
  inc (fst st) /\ inc (snd st) /\ norm st /\ dist_hits d (fst st) (snd st) = dist_hits d l1 l2.
Proof.
  intros l1 l2 H1 H2 st. destruct (find_next_spec (dfuel l1 l2) l1 l2 H1 H2 ltac:(unfold dfuel; lia)) as [A [B [C D]]].
  unfold st, dmake. auto.
Qed.
Theorem dfirst_spec : forall st, norm st -> dfirst st = hfirst (dist_hits d (fst st) (snd st)).
Proof. intros [l1 l2] H. apply norm_first. exact H. Qed.
Theorem dnext_spec : forall limit st, inc (fst st) -> inc (snd st) ->
  let st' := dnext d limit st in
  inc (fst st') /\ inc (snd st') /\ norm st' /\
  dist_hits d (fst st') (snd st') = hnext limit (dist_hits d (fst st) (snd st)).
Proof.
  intros limit [l1 l2] H1 H2 st'. simpl in H1, H2.
  destruct (find_next_spec (dfuel (hnext limit l1) (hnext (limit + d) l2)) (hnext limit l1) (hnext (limit + d) l2)
              (hnext_inc _ _ H1) (hnext_inc _ _ H2) ltac:(unfold dfuel; lia)) as [A [B [C D]]].
  assert (E : st' = find_next (dfuel (hnext limit l1) (hnext (limit + d) l2)) d (hnext limit l1) (hnext (limit + d) l2)) by reflexivity.
  rewrite E. change (fst (l1, l2)) with l1. change (snd (l1, l2)) with l2. repeat split; auto. rewrite C. apply dist_hnext; auto.
Qed.

(** the loop of ngramDocIterator.candidates consumes exactly the hits before the end of the file *)
Theorem cand_loop_spec : forall fuel fend st, inc (fst st) -> inc (snd st) -> norm st ->
  length (dist_hits d (fst st) (snd st)) < fuel ->
  let D := dist_hits d (fst st) (snd st) in
  let '(taken, st') := cand_loop fuel d fend st in
  taken = take_while (fun p => p <? fend) D /\ inc (fst st') /\ inc (snd st') /\ norm st' /\
  dist_hits d (fst st') (snd st') = drop_while (fun p => p <? fend) D.
Proof.
  induction fuel as [|f IH]; intros fend st H1 H2 Hn Hf; [lia|].
  simpl. rewrite (dfirst_spec st Hn).
  assert (HD : inc (dist_hits d (fst st) (snd st))) by (apply inc_filter; auto).
  destruct (dist_hits d (fst st) (snd st)) as [|p1 D'] eqn:ED; simpl.
  - repeat split; auto.
  - destruct (fend <=? p1) eqn:E.
    + assert (p1 <? fend = false) as -> by lia. repeat split; auto.
    + assert (p1 <? fend = true) as -> by lia.
      destruct (dnext_spec p1 st H1 H2) as [A [B [C Dd]]]. rewrite ED in Dd.
      assert (Hd' : hnext p1 (p1 :: D') = D').
      { rewrite hnext_filter by auto. simpl. assert (p1 <? p1 = false) as -> by lia.
        apply filter_all_true. intros y Hy. pose proof (inc_lt p1 D' y HD Hy). lia. }
      rewrite Hd' in Dd.
      specialize (IH fend (dnext d p1 st) A B C ltac:(rewrite Dd; simpl in Hf; lia)). cbv zeta in IH. rewrite Dd in IH.
      destruct (cand_loop f d fend (dnext d p1 st)) as [r st']. destruct IH as [I1 [I2 [I3 [I4 I5]]]].
      repeat split; auto. rewrite I1. reflexivity.
Qed.
End Dist.

(* ------------------------------------------------------------------ andLineMatchTree.matches: the loop finds a common line *)
Definition asc (l : list nat) : Prop := StronglySorted le l.
Definition al_spec (lines : list nat) (cs : list (list nat)) : bool :=
  existsb (fun L => forallb (fun c => mem_nat L c) cs) lines.

Lemma asc_tail : forall x l, asc (x :: l) -> asc l.
Proof. intros x l H. inversion H; auto. Qed.
Lemma asc_le : forall x l y, asc (x :: l) -> In y l -> x <= y.
Proof. intros x l y H Hy. inversion H as [|? ? _ Hf]; subst. rewrite Forall_forall in Hf. auto. Qed.

Lemma al_child_spec : forall L c, asc c ->
  let '(c', o) := al_child L c in
  asc c' /\ (forall y, L <= y -> (In y c' <-> In y c)) /\
  match o with
  | AlHit => In L c
  | AlMiss => forall y, L <= y -> ~ In y c
  | AlBeyond x => L < x /\ forall y, L <= y -> y < x -> ~ In y c
  end.
Proof.
  induction c as [|x r IH]; intro Ha; simpl.
  - split; [constructor|]. split; [intros y _; reflexivity|]. intros y _ [].
  - destruct (x <? L) eqn:E1.
    + specialize (IH (asc_tail _ _ Ha)). destruct (al_child L r) as [c' o]. destruct IH as [A [B C]].
      split; [exact A|]. split.
      * intros y Hy. rewrite (B y Hy). simpl. split; [tauto|]. intros [->|H]; [lia|exact H].
      * destruct o.
        -- right. exact C.
        -- intros y Hy [->|H]; [lia | apply (C y Hy H)].
        -- destruct C as [C1 C2]. split; [exact C1|]. intros y Hy1 Hy2 [->|H]; [lia | apply (C2 y Hy1 Hy2 H)].
    + destruct (x =? L) eqn:E2.
      * split; [exact Ha|]. split; [intros y _; reflexivity|]. left. lia.
      * split; [exact Ha|]. split; [intros y _; reflexivity|]. split; [lia|].
        intros y Hy1 Hy2 [->|H]; [lia|]. pose proof (asc_le x r y Ha H). lia.
Qed.

Definition same_from (L : nat) (c c' : list nat) : Prop := asc c' /\ forall y, L <= y -> (In y c' <-> In y c).

Lemma al_children_spec : forall L cs, Forall asc cs ->
  let '(cs', h, j) := al_children L cs in
  Forall2 (same_from L) cs cs' /\ h <= length cs /\
  match j with
  | None => (h = length cs <-> forall c, In c cs -> In L c)
  | Some x => L < x /\ exists c, In c cs /\ forall y, L <= y -> y < x -> ~ In y c
  end.
Proof.
  induction cs as [|c r IH]; intro Ha; simpl.
  - split; [constructor|]. split; [lia|]. split; [intros _ c []|reflexivity].
  - inversion Ha as [|? ? Hc Hr]; subst. pose proof (al_child_spec L c Hc) as Hs.
    destruct (al_child L c) as [c' o]. destruct Hs as [A [B C]].
    assert (Hrefl : Forall2 (same_from L) r r).
    { clear -Hr. induction r; constructor; [split; [inversion Hr; auto | tauto] | apply IHr; inversion Hr; auto]. }
    destruct o.
    + specialize (IH Hr). destruct (al_children L r) as [[r' h] j]. destruct IH as [I1 [I2 I3]].
      split; [constructor; [split; auto | exact I1]|]. split; [simpl; lia|].
      destruct j.
      * destruct I3 as [J1 [c0 [J2 J3]]]. split; [exact J1|]. exists c0. split; [right; exact J2 | exact J3].
      * simpl. split.
        -- intros Hh c0 [<-|Hin]; [exact C | apply I3; [lia | exact Hin]].
        -- intro Hall. f_equal. apply I3. intros c0 Hin. apply Hall. right. exact Hin.
    + specialize (IH Hr). destruct (al_children L r) as [[r' h] j]. destruct IH as [I1 [I2 I3]].
      split; [constructor; [split; auto | exact I1]|]. split; [simpl; lia|].
      destruct j.
      * destruct I3 as [J1 [c0 [J2 J3]]]. split; [exact J1|]. exists c0. split; [right; exact J2 | exact J3].
      * simpl. split; [lia|]. intro Hall. exfalso. apply (C L (le_n _)). apply Hall. left. reflexivity.
    + destruct C as [C1 C2]. split; [constructor; [split; auto | exact Hrefl]|]. split; [simpl; lia|].
      split; [exact C1|]. exists c. split; [left; reflexivity | exact C2].
Qed.

Lemma al_spec_same : forall L lines cs cs', Forall2 (same_from L) cs cs' -> (forall y, In y lines -> L <= y) ->
  al_spec lines cs' = al_spec lines cs.
Proof.
  intros L lines cs cs' H2 Hl. unfold al_spec. apply existsb_ext_in. intros y Hy. specialize (Hl y Hy).
  induction H2 as [|c c' r r' [_ Hc] _ IH]; [reflexivity|]. simpl. rewrite IH. f_equal.
  destruct (mem_nat y c') eqn:E1; destruct (mem_nat y c) eqn:E2; try reflexivity.
  - apply mem_nat_In in E1. apply (Hc y Hl) in E1. apply mem_nat_In in E1. congruence.
  - apply mem_nat_In in E2. apply (Hc y Hl) in E2. apply mem_nat_In in E2. congruence.
Qed.
Lemma forall2_asc : forall L cs cs', Forall2 (same_from L) cs cs' -> Forall asc cs'.
Proof. intros L cs cs' H. induction H as [|c c' r r' [Ha _] _ IH]; constructor; auto. Qed.
Lemma drop_while_length : forall f l, length (drop_while f l) <= length l.
Proof. induction l as [|x l IH]; simpl; [lia|]. destruct (f x); simpl; lia. Qed.
Lemma drop_while_In : forall f l y, In y (drop_while f l) -> In y l.
Proof. induction l as [|x l IH]; simpl; intros y H; [auto|]. destruct (f x); [right; auto | exact H]. Qed.

(** THE LOOP IS CORRECT: for ascending distinct lines and ascending candidate lists, the loop answers "found" exactly
    when some line of the base child carries a candidate of every other child. *)
Theorem al_lines_spec : forall fuel lines cs, inc lines -> Forall asc cs -> length lines < fuel ->
  al_lines fuel lines cs = al_spec lines cs.
Proof.
  induction fuel as [|f IH]; intros lines cs Hl Hc Hf; [lia|].
  destruct lines as [|L rest]; [reflexivity|]. simpl al_lines.
  pose proof (al_children_spec L cs Hc) as Hs. destruct (al_children L cs) as [[cs' h] j]. destruct Hs as [S1 [S2 S3]].
  assert (Hrest : forall y, In y rest -> L <= y) by (intros y Hy; pose proof (inc_lt L rest y Hl Hy); lia).
  assert (HL : forallb (fun c => mem_nat L c) cs = true <-> forall c, In c cs -> In L c).
  { rewrite forallb_forall. split; intros H c Hin; [apply mem_nat_In; auto | apply mem_nat_In; auto]. }
  destruct j as [x|].
  - destruct S3 as [J1 [c0 [J2 J3]]].
    rewrite (IH (drop_while (fun l => l <? x) rest) cs'); [| | apply (forall2_asc L cs cs' S1) | pose proof (drop_while_length (fun l => l <? x) rest); simpl in Hf; lia].
    2:{ rewrite drop_while_lt_filter by (apply (inc_tail L); auto). apply inc_filter. apply (inc_tail L); auto. }
    rewrite (al_spec_same L _ cs cs' S1) by (intros y Hy; apply Hrest; eapply drop_while_In; eauto).
    unfold al_spec. simpl existsb.
    assert (E0 : forallb (fun c => mem_nat L c) cs = false).
    { apply not_true_is_false. intro H. pose proof (proj1 HL H c0 J2) as Hin. apply (J3 L (le_n _) J1 Hin). }
    rewrite E0. simpl.
    rewrite (drop_while_lt_filter x rest) by (apply (inc_tail L); auto).
    (* lines of rest below x cannot carry c0 *)
    clear -J2 J3 Hrest. induction rest as [|y r IHr]; [reflexivity|]. simpl.
    assert (Hy : L <= y) by (apply Hrest; left; reflexivity).
    destruct (x <=? y) eqn:E; simpl.
    + rewrite IHr by (intros z Hz; apply Hrest; right; auto). reflexivity.
    + assert (E1 : forallb (fun c => mem_nat y c) cs = false).
      { apply not_true_is_false. intro H. rewrite forallb_forall in H. specialize (H c0 J2). apply mem_nat_In in H. apply (J3 y Hy ltac:(lia) H). }
      rewrite E1. simpl. apply IHr. intros z Hz; apply Hrest; right; auto.
  - destruct (h =? length cs) eqn:Eh.
    + apply Nat.eqb_eq in Eh. unfold al_spec. simpl. rewrite (proj2 HL (proj1 S3 Eh)). reflexivity.
    + rewrite (IH rest cs' (inc_tail L rest Hl) (forall2_asc L cs cs' S1) ltac:(simpl in Hf; lia)).
      rewrite (al_spec_same L rest cs cs' S1 Hrest). unfold al_spec. simpl.
      assert (E0 : forallb (fun c => mem_nat L c) cs = false).
      { apply not_true_is_false. intro H. pose proof (proj2 S3 (proj1 HL H)) as Hh. apply Nat.eqb_neq in Eh. congruence. }
      rewrite E0. reflexivity.
Qed.

(* ------------------------------------------------------------------ the whole same-line test *)
Lemma dedup_adj_In : forall l y, In y (dedup_adj l) <-> In y l.
Proof.
  induction l as [|x [|z r] IH]; intro y; try reflexivity.
  change (dedup_adj (x :: z :: r)) with (if x =? z then dedup_adj (z :: r) else x :: dedup_adj (z :: r)).
  destruct (x =? z) eqn:E.
  - apply Nat.eqb_eq in E. subst. rewrite IH. simpl. tauto.
  - simpl In at 1. rewrite IH. simpl. tauto.
Qed.
Lemma dedup_adj_inc : forall l, asc l -> inc (dedup_adj l).
Proof.
  induction l as [|x [|z r] IH]; intro Ha; try (repeat constructor).
  change (dedup_adj (x :: z :: r)) with (if x =? z then dedup_adj (z :: r) else x :: dedup_adj (z :: r)).
  pose proof (asc_tail _ _ Ha) as Ha'. destruct (x =? z) eqn:E; [apply IH; auto|].
  constructor; [apply IH; auto|]. apply Forall_forall. intros y Hy. apply (proj1 (dedup_adj_In _ _)) in Hy.
  pose proof (asc_le x (z :: r) z Ha (or_introl eq_refl)). pose proof (asc_le x (z :: r) y Ha Hy).
  destruct Hy as [<-|Hy]; [lia|]. pose proof (asc_le z r y Ha' Hy). lia.
Qed.
Lemma asc_map : forall (line : nat -> nat) l, (forall a b, a <= b -> line a <= line b) -> inc l -> asc (map line l).
Proof.
  intros line l Hm. induction l as [|x l IH]; intro H; simpl; constructor.
  - apply IH. apply (inc_tail x); auto.
  - apply Forall_forall. intros y Hy. apply in_map_iff in Hy. destruct Hy as [z [<- Hz]]. apply Hm. pose proof (inc_lt x l z H Hz). lia.
Qed.

Definition common_line (line : nat -> nat) (vs : list (list nat)) : Prop :=
  exists L, forall v, In v vs -> exists o, In o v /\ line o = L.

Lemma remove_nth_In : forall (A : Type) (f : nat) (l : list A) (d x : A), f < length l ->
  (In x l <-> x = nth f l d \/ In x (remove_nth f l)).
Proof.
  intros A f l d x Hf. unfold remove_nth. rewrite <- (firstn_skipn f l) at 1.
  assert (Hs : skipn f l = nth f l d :: skipn (S f) l).
  { revert l Hf. induction f as [|f IH]; intros [|y l] Hf; simpl in *; try lia; [reflexivity | apply IH; lia]. }
  rewrite Hs. rewrite !in_app_iff. simpl. split; [intros [H|[H|H]]; auto | intros [H|[H|H]]; auto].
Qed.

(** The Go loop (base = any child, in particular the one with the fewest candidates) answers "found" iff the children
    have candidates on a common line -- which is what the model's [same_line] computes with the first child as base. *)
Theorem andline_alg_spec : forall (line : nat -> nat) (vs : list (list nat)) (f : nat),
  (forall a b, a <= b -> line a <= line b) -> Forall inc vs -> f < length vs ->
  (andline_alg line vs f = true <-> common_line line vs).
Proof.
  intros line vs f Hm Hvs Hf. unfold andline_alg.
  set (base := dedup_adj (map line (nth f vs []))).
  rewrite Forall_forall in Hvs.
  assert (Hbase : inc base) by (apply dedup_adj_inc; apply asc_map; [auto | apply Hvs; apply nth_In; auto]).
  assert (Hcs : Forall asc (map (map line) (remove_nth f vs))).
  { apply Forall_forall. intros c Hc. apply in_map_iff in Hc. destruct Hc as [v [<- Hv]]. apply asc_map; [auto|]. apply Hvs.
    apply (proj2 (remove_nth_In _ f vs [] v Hf)). right. exact Hv. }
  rewrite (al_lines_spec (S (length base)) base _ Hbase Hcs ltac:(lia)).
  unfold al_spec. rewrite existsb_exists. split.
  - intros [L [HL Hall]]. rewrite forallb_forall in Hall. exists L. intros v Hv.
    apply (proj1 (remove_nth_In _ f vs [] v Hf)) in Hv. destruct Hv as [->|Hv].
    + unfold base in HL. apply (proj1 (dedup_adj_In _ _)) in HL. apply in_map_iff in HL. destruct HL as [o [Ho1 Ho2]]. exists o. auto.
    + specialize (Hall (map line v) ltac:(apply in_map; exact Hv)). apply mem_nat_In in Hall. apply in_map_iff in Hall.
      destruct Hall as [o [Ho1 Ho2]]. exists o. auto.
  - intros [L HL]. exists L. split.
    + unfold base. apply dedup_adj_In. destruct (HL (nth f vs []) ltac:(apply nth_In; auto)) as [o [Ho1 Ho2]]. rewrite <- Ho2. apply in_map. exact Ho1.
    + apply forallb_forall. intros c Hc. apply in_map_iff in Hc. destruct Hc as [v [<- Hv]]. apply mem_nat_In.
      destruct (HL v ltac:(apply (proj2 (remove_nth_In _ f vs [] v Hf)); right; exact Hv)) as [o [Ho1 Ho2]]. rewrite <- Ho2. apply in_map. exact Ho1.
Qed.

Theorem same_line_expr_spec : forall (line : nat -> nat) (v0 : list nat) (vs : list (list nat)),
  existsb (fun o0 => forallb (fun v => existsb (fun o => line o =? line o0) v) (v0 :: vs)) v0 = true <-> common_line line (v0 :: vs).
Proof.
  intros line v0 vs. rewrite existsb_exists. split.
  - intros [o0 [Ho0 Hall]]. rewrite forallb_forall in Hall. exists (line o0). intros v Hv. specialize (Hall v Hv).
    apply existsb_exists in Hall. destruct Hall as [o [Ho He]]. apply Nat.eqb_eq in He. exists o. auto.
  - intros [L HL]. destruct (HL v0 (or_introl eq_refl)) as [o0 [Ho0 He0]]. exists o0. split; [exact Ho0|].
    apply forallb_forall. intros v Hv. destruct (HL v Hv) as [o [Ho He]]. apply existsb_exists. exists o. split; [exact Ho|]. apply Nat.eqb_eq. lia.
Qed.

(* ------------------------------------------------------------------ nextFileIndex: the galloping search = the linear scan *)
Definition nondecr (l : list nat) : Prop := forall i j, i <= j -> j < length l -> nth i l 0 <= nth j l 0.

Lemma gallop_spec : forall fuel off f d ends, nondecr ends -> 1 <= d ->
  (forall j, j < f -> j < length ends -> nth j ends 0 <= off) -> f <= length ends ->
  2 * (length ends - f) + d < fuel ->
  let r := gallop fuel off f d ends in
  f <= r /\ r <= length ends /\ (forall j, j < r -> nth j ends 0 <= off) /\ (r < length ends -> off < nth r ends 0).
Proof.
  induction fuel as [|fu IH]; intros off f d ends Hnd Hd Hinv Hf Hfuel; [lia|].
  simpl. destruct ((f <? length ends) && (nth f ends 0 <=? off)) eqn:E0.
  - apply andb_true_iff in E0. destruct E0 as [E0a E0b].
    destruct ((f + d <? length ends) && (nth (f + d) ends 0 <=? off)) eqn:E1.
    + apply andb_true_iff in E1. destruct E1 as [E1a E1b].
      assert (Hinv' : forall j, j < f + d -> j < length ends -> nth j ends 0 <= off).
      { intros j Hj Hjl. pose proof (Hnd j (f + d) ltac:(lia) ltac:(lia)). lia. }
      destruct (IH off (f + d) (d * 2) ends Hnd ltac:(lia) Hinv' ltac:(lia) ltac:(lia)) as [A [B [C D]]].
      split; [lia|]. split; [exact B|]. split; [exact C | exact D].
    + destruct (1 <? d) eqn:Ed.
      * assert (d / 4 + 1 < d).
        { assert (d / 4 <= d / 2) by (apply Nat.div_le_compat_l; lia). assert (d / 2 < d) by (apply Nat.div_lt; lia).
          destruct (Nat.eq_dec d 2) as [->|]; [simpl; lia|]. destruct (Nat.eq_dec d 3) as [->|]; [simpl; lia|].
          assert (4 <= d) by lia. assert (d / 4 * 4 <= d) by (rewrite Nat.mul_comm; apply Nat.mul_div_le; lia). lia. }
        destruct (IH off f (d / 4 + 1) ends Hnd ltac:(lia) Hinv Hf ltac:(lia)) as [A [B [C D]]]. auto.
      * assert (Hinv' : forall j, j < S f -> j < length ends -> nth j ends 0 <= off).
        { intros j Hj Hjl. destruct (Nat.eq_dec j f) as [->|]; [lia | apply Hinv; lia]. }
        destruct (IH off (S f) d ends Hnd Hd Hinv' ltac:(lia) ltac:(lia)) as [A [B [C D]]].
        split; [lia|]. auto.
  - split; [lia|]. split; [exact Hf|]. split.
    + intros j Hj. apply Hinv; lia.
    + intro Hr. apply andb_false_iff in E0. destruct E0; lia.
Qed.

Lemma find_end_spec : forall off ends j0,
  let r := find_end off ends j0 in
  j0 <= r /\ r <= j0 + length ends /\ (forall i, i < r - j0 -> nth i ends 0 <= off) /\ (r < j0 + length ends -> off < nth (r - j0) ends 0).
Proof.
  induction ends as [|e es IH]; intro j0; simpl.
  - repeat split; try lia; intros; lia.
  - destruct (e <=? off) eqn:E.
    + destruct (IH (S j0)) as [A [B [C D]]]. split; [lia|]. split; [lia|]. split.
      * intros i Hi. destruct i as [|i]; [lia|]. apply C. lia.
      * intro Hr. replace (find_end off es (S j0) - j0) with (S (find_end off es (S j0) - S j0)) by lia. apply D. lia.
    + repeat split; try lia; intros; try lia. replace (j0 - j0) with 0 by lia. simpl. lia.
Qed.

(** nextFileIndex(offset, f, ends) with its galloping steps returns the same index as the linear scan from 0 used by the
    model's nextDoc, for sorted ends and any starting hint f below which all ends are <= offset *)
Theorem next_file_index_linear : forall off f ends, nondecr ends -> f <= length ends ->
  (forall j, j < f -> j < length ends -> nth j ends 0 <= off) ->
  next_file_index off f ends = find_end off ends 0.
Proof.
  intros off f ends Hnd Hf Hinv. unfold next_file_index.
  destruct (gallop_spec (2 * length ends + 3) off f 1 ends Hnd (le_n _) Hinv Hf ltac:(lia)) as [A [B [C D]]].
  destruct (find_end_spec off ends 0) as [A' [B' [C' D']]]. simpl in B', C', D'.
  set (r := gallop (2 * length ends + 3) off f 1 ends) in *. set (r' := find_end off ends 0) in *.
  rewrite Nat.sub_0_r in *.
  destruct (lt_eq_lt_dec r r') as [[Hlt|Heq]|Hgt]; [|exact Heq|].
  - specialize (C' r Hlt). specialize (D ltac:(lia)). lia.
  - specialize (C r' Hgt). specialize (D' ltac:(lia)). lia.
Qed.

(* ------------------------------------------------------------------ mergingIterator *)
(** first() is the least position of all merged iterators (None = MaxUint32 when all are exhausted); next(limit) keeps,
    in every iterator, exactly the positions above the limit *)
Theorem merging_iter_spec : forall (ls : list (list nat)), Forall inc ls ->
  match mfirst ls with
  | None => forall l, In l ls -> l = []
  | Some m => (exists l, In l ls /\ In m l) /\ forall l p, In l ls -> In p l -> m <= p
  end /\
  forall limit, Forall inc (mnext limit ls) /\
     forall p, (exists l, In l (mnext limit ls) /\ In p l) <-> (limit < p /\ exists l, In l ls /\ In p l).
Proof.
  intros ls Hls. split.
  - induction ls as [|l ls IH]; simpl; [intros l []|].
    inversion Hls as [|? ? Hl Hr]; subst. specialize (IH Hr).
    destruct l as [|x r]; simpl.
    + destruct (mfirst ls) as [m|].
      * destruct IH as [[l0 [A B]] C]. split; [exists l0; auto|]. intros l p [<-|Hin] Hp; [destruct Hp | eauto].
      * intros l [<-|Hin]; auto.
    + destruct (mfirst ls) as [m|]; simpl.
      * destruct IH as [[l0 [A B]] C]. split.
        -- destruct (le_lt_dec x m); [exists (x :: r); split; [auto|]; left; lia | exists l0; split; [auto|]; replace (Nat.min x m) with m by lia; exact B].
        -- intros l p [<-|Hin] Hp.
           ++ destruct Hp as [<-|Hp]; [lia|]. pose proof (inc_lt x r p Hl Hp). lia.
           ++ pose proof (C l p Hin Hp). lia.
      * split; [exists (x :: r); split; [auto | left; reflexivity]|]. intros l p [<-|Hin] Hp.
        -- destruct Hp as [<-|Hp]; [lia|]. pose proof (inc_lt x r p Hl Hp). lia.
        -- rewrite (IH l Hin) in Hp. destruct Hp.
  - intro limit. split.
    + unfold mnext. apply Forall_forall. intros l Hl. apply in_map_iff in Hl. destruct Hl as [l0 [<- H0]]. apply hnext_inc.
      rewrite Forall_forall in Hls. auto.
    + intro p. unfold mnext. rewrite Forall_forall in Hls. split.
      * intros [l [Hl Hp]]. apply in_map_iff in Hl. destruct Hl as [l0 [<- H0]]. rewrite hnext_filter in Hp by auto.
        apply filter_In in Hp. destruct Hp as [Hp Hlt]. split; [lia|]. exists l0. auto.
      * intros [Hlt [l0 [H0 Hp]]]. exists (hnext limit l0). split; [apply in_map; auto|]. rewrite hnext_filter by auto.
        apply filter_In. split; [auto|lia].
Qed.
