(** Basic facts about the item table, the priority order and the pqueue primitives of Model/Queue.v *)
From ZV Require Import Lib.Base Model.Queue Proofs.QueueHeap.
From Coq Require Import Permutation.

(** * item table *)
Definition keeps_id (f : item -> item) : Prop := forall x, it_id (f x) = it_id x.
Lemma keeps_id_set_hidx h : keeps_id (set_hidx h). Proof. intro; reflexivity. Qed.
Lemma keeps_id_set_seq h : keeps_id (set_seq h). Proof. intro; reflexivity. Qed.
Lemma keeps_id_set_state h : keeps_id (set_state h). Proof. intro; reflexivity. Qed.
#[export] Hint Resolve keeps_id_set_hidx keeps_id_set_seq keeps_id_set_state : core.

Lemma get_some_id k m x : get k m = Some x -> it_id x = k.
Proof.
  induction m as [|a m IH]; simpl; [discriminate|].
  destruct (N.eqb (it_id a) k) eqn:E; [|exact IH].
  intro H; inversion H; subst. apply N.eqb_eq. exact E.
Qed.

Lemma get_modify k id f m : keeps_id f ->
  get k (modify id f m) = if N.eqb k id then option_map f (get k m) else get k m.
Proof.
  intro Hf. induction m as [|a m IH]; simpl; [destruct (N.eqb k id); reflexivity|].
  destruct (N.eqb (it_id a) id) eqn:E1.
  - rewrite Hf. destruct (N.eqb (it_id a) k) eqn:E2.
    + apply N.eqb_eq in E1, E2. subst. rewrite N.eqb_refl. reflexivity.
    + exact IH.
  - destruct (N.eqb (it_id a) k) eqn:E2; [|exact IH].
    apply N.eqb_eq in E2. subst k. rewrite E1. reflexivity.
Qed.

Lemma keys_modify id f m : keeps_id f -> keys (modify id f m) = keys m.
Proof.
  intro Hf. unfold keys, modify. rewrite map_map. apply map_ext. intro a.
  destruct (N.eqb (it_id a) id); [apply Hf | reflexivity].
Qed.

Lemma get_none_keys k m : get k m = None <-> ~ In k (keys m).
Proof.
  induction m as [|a m IH]; simpl; [tauto|].
  destruct (N.eqb (it_id a) k) eqn:E.
  - apply N.eqb_eq in E. split; [discriminate | intro H; exfalso; apply H; left; exact E].
  - apply N.eqb_neq in E. rewrite IH. tauto.
Qed.
Lemma get_some_keys k m x : get k m = Some x -> In k (keys m).
Proof.
  intro H. destruct (in_dec N.eq_dec k (keys m)) as [Hi|Hn]; [exact Hi|].
  apply get_none_keys in Hn. congruence.
Qed.
Lemma keys_get_some k m : In k (keys m) -> exists x, get k m = Some x.
Proof.
  intro H. destruct (get k m) as [x|] eqn:E; [eauto|]. apply get_none_keys in E. contradiction.
Qed.

Lemma get_app k m m' : get k (m ++ m') = match get k m with Some x => Some x | None => get k m' end.
Proof.
  induction m as [|a m IH]; simpl; [reflexivity|]. destruct (N.eqb (it_id a) k); [reflexivity | exact IH].
Qed.

Lemma get_del k id m : get k (del id m) = if N.eqb k id then None else get k m.
Proof.
  induction m as [|a m IH]; simpl; [destruct (N.eqb k id); reflexivity|].
  destruct (N.eqb (it_id a) id) eqn:E1; simpl.
  - rewrite IH. destruct (N.eqb k id) eqn:E2; [reflexivity|].
    destruct (N.eqb (it_id a) k) eqn:E3; [|reflexivity].
    apply N.eqb_eq in E1, E3. subst. rewrite N.eqb_refl in E2. discriminate.
  - destruct (N.eqb (it_id a) k) eqn:E3.
    + apply N.eqb_eq in E3. subst k. rewrite E1. reflexivity.
    + exact IH.
Qed.
Lemma keys_del id m : keys (del id m) = filter (fun k => negb (N.eqb k id)) (keys m).
Proof.
  induction m as [|a m IH]; simpl; [reflexivity|].
  destruct (N.eqb (it_id a) id); simpl; rewrite IH; reflexivity.
Qed.

Lemma item_of_get m id x : get id m = Some x -> item_of m id = x.
Proof. unfold item_of. intros ->. reflexivity. Qed.

(** * the priority order is a strict weak order *)
Definition prio (x : item) : bool * bool * Z := (it_indexed x, is_fail x, it_seq x).
Definition lt_prio (a b : bool * bool * Z) : bool :=
  let '(ai, af, asq) := a in let '(bi, bf, bsq) := b in
  if negb (Bool.eqb ai bi) then negb ai else if negb (Bool.eqb af bf) then negb af else (asq <? bsq)%Z.
Lemma less_item_prio x y : less_item x y = lt_prio (prio x) (prio y).
Proof. reflexivity. Qed.
Lemma lt_prio_asym a b : lt_prio a b = true -> lt_prio b a = false.
Proof.
  destruct a as [[[] []] x], b as [[[] []] y]; simpl; try discriminate; try reflexivity; intro H; lia.
Qed.
Lemma lt_prio_le_trans a b c : lt_prio b a = false -> lt_prio c b = false -> lt_prio c a = false.
Proof.
  destruct a as [[[] []] x], b as [[[] []] y], c as [[[] []] z]; simpl; try discriminate; try reflexivity; intros H1 H2; lia.
Qed.
Lemma prio_set_hidx h x : prio (set_hidx h x) = prio x.
Proof. reflexivity. Qed.

(** * list update *)
Lemma length_upd {A} (l : list A) i x : length (upd l i x) = length l.
Proof. revert i; induction l as [|a l IH]; intros [|i]; simpl; auto. Qed.
Lemma nth_upd {A} (l : list A) i x k d :
  nth k (upd l i x) d = if (k =? i) && (i <? length l) then x else nth k l d.
Proof.
  revert i k; induction l as [|a l IH]; intros i k; simpl.
  - destruct k; rewrite Bool.andb_false_r; reflexivity.
  - destruct i as [|i], k as [|k]; simpl; try reflexivity.
    rewrite IH. reflexivity.
Qed.

