(** NaN and -Inf boost products behave exactly like the effective weight 0 of Model/Score.v:eff_weight, at both
    places where the scorer uses a weight; +Inf and rationals behave like their capped value. *)
From Coq Require Import QArith Qabs Lqa.
From ZV Require Import Lib.Base Generated.ScoreConsts Model.Score Model.ScoreXW Proofs.Score.
Open Scope Q_scope.

Lemma Qltb_ge a b : b <= a -> Qltb a b = false.
Proof. intros H. unfold Qltb. apply Bool.negb_false_iff. now apply Qle_bool_iff. Qed.

Lemma Qltb_compat a b b' : b == b' -> Qltb a b = Qltb a b'.
Proof.
  intros E. unfold Qltb. f_equal.
  destruct (Qle_bool b a) eqn:H1, (Qle_bool b' a) eqn:H2; try reflexivity.
  - apply Qle_bool_iff in H1. assert (H : b' <= a) by (rewrite <- E; exact H1). apply Qle_bool_iff in H. congruence.
  - apply Qle_bool_iff in H2. assert (H : b <= a) by (rewrite E; exact H2). apply Qle_bool_iff in H. congruence.
Qed.

Lemma eps_one_0 : eps_one 0 = false.
Proof. vm_compute. reflexivity. Qed.

Lemma cap_weight_fin w : match cap_weight w with XFin q => q = eff_weight w | XNaN | XNegInf => eff_weight w = 0 | XPosInf => False end.
Proof.
  destruct w as [| | |q]; simpl; try reflexivity.
  destruct (Qltb c_maxBoostWeight q); reflexivity.
Qed.

(** scoreLine: with a non-negative score before the weight and a non-negative running best, the binary64
    decision "this candidate becomes the best" is the decision of the exact model with the effective weight *)
Theorem candidate_wins_eff (s best : Q) (w : xweight) :
  0 <= s -> 0 <= best ->
  x_candidate_wins s w best =
  Qltb best (if eps_one (eff_weight w) then s else s * eff_weight w).
Proof.
  intros Hs Hb. unfold x_candidate_wins.
  pose proof (cap_weight_fin w) as C.
  destruct (cap_weight w) as [| | |q] eqn:E; simpl.
  - (* NaN *) rewrite C, eps_one_0. symmetry. apply Qltb_ge. lra.
  - contradiction.
  - (* -Inf *) rewrite C, eps_one_0.
    assert (R : Qltb best (s * 0) = false) by (apply Qltb_ge; lra).
    rewrite R. simpl. destruct (Qeq_bool s 0) eqn:Z; [reflexivity|]. destruct (Qltb 0 s) eqn:P; [reflexivity|].
    exfalso. apply Qltb_false in P. assert (H : s == 0) by lra. apply Qeq_bool_iff in H. congruence.
  - subst q. destruct (eps_one (eff_weight w)); reflexivity.
Qed.

(** boostScore (BM25): the running maximum starts at 1 and only grows, so NaN / -Inf (every comparison false) and
    the effective weight 0 (0 is not > m >= 1) are the same; +Inf and large rationals act as the cap *)
Theorem weight_raises_max_eff (w : xweight) (m : Q) :
  1 <= m -> x_weight_raises_max w m = Qltb m (eff_weight w).
Proof.
  intros Hm. unfold x_weight_raises_max. pose proof (cap_weight_fin w) as C.
  destruct (cap_weight w) as [| | |q]; try contradiction.
  - rewrite C. symmetry. apply Qltb_ge. lra.
  - rewrite C. symmetry. apply Qltb_ge. lra.
  - subst q. reflexivity.
Qed.

(** after the cap no weight is +Inf and every rational weight is at most the cap *)
Theorem cap_weight_bounded (w : xweight) :
  match cap_weight w with XFin q => q <= c_maxBoostWeight | XPosInf => False | _ => True end.
Proof.
  pose proof (cap_weight_fin w) as C. pose proof (eff_weight_le w) as L.
  destruct (cap_weight w) as [| | |q]; try exact I; try contradiction. subst q. exact L.
Qed.
