(** C30: the options stored for a tracked repository are either the zero value (item created by SetIndexed on an
    unknown id and never given options) or carry that repository's id.  Hence what Pop returns is either the zero
    options or options for exactly the repository whose item it took off the heap. *)
From ZV Require Import Lib.Base Model.Queue Proofs.QueueHeap Proofs.QueueMap Proofs.QueueInv Proofs.QueueOps Proofs.QueueSpec Proofs.QueueHistory.

Definition keyed (q : queue) : Prop :=
  forall id x, get id (q_items q) = Some x -> it_opts x = opts_zero \/ o_repo (it_opts x) = id.

Lemma erase_opts x y : erase x = erase y -> it_opts x = it_opts y.
Proof. intro H. apply (f_equal it_opts) in H. exact H. Qed.

Lemma keyed_of_erase q q' :
  (forall id, option_map erase (get id (q_items q')) = option_map erase (get id (q_items q))) -> keyed q -> keyed q'.
Proof.
  intros E K id x' G. specialize (E id). rewrite G in E. simpl in E.
  destruct (get id (q_items q)) as [x|] eqn:G0; [|discriminate]. simpl in E.
  assert (E1 : erase x' = erase x) by congruence.
  rewrite (erase_opts _ _ E1). apply (K id x G0).
Qed.

Lemma keyed_frame q q' : frame q q' -> keyed q -> keyed q'.
Proof. intros F. apply keyed_of_erase. apply (fr_items _ _ F). Qed.

Lemma keyed_modify q id f :
  keeps_id f -> (forall x, it_opts (f x) = it_opts x \/ o_repo (it_opts (f x)) = id) -> keyed q -> keyed (q_modify q id f).
Proof.
  intros Hf Ho K k y G. simpl in G. rewrite get_modify in G by exact Hf.
  destruct (N.eqb k id) eqn:E.
  - apply N.eqb_eq in E. subst k. destruct (get id (q_items q)) as [x|] eqn:G0; [|discriminate]. simpl in G. inversion G; subst y.
    destruct (Ho x) as [H|H]; [rewrite H; apply (K id x G0)|right; exact H].
  - apply (K k y G).
Qed.

Lemma keyed_get_or_add q id : keyed q -> keyed (get_or_add q id).
Proof.
  intros K. unfold get_or_add. destruct (get id (q_items q)) eqn:G; [exact K|].
  intros k y Gy. simpl in Gy. rewrite get_app in Gy. destruct (get k (q_items q)) as [z|] eqn:Gz.
  - inversion Gy; subst z. apply (K k y Gz).
  - simpl in Gy. destruct (N.eqb id k); inversion Gy. left. reflexivity.
Qed.

Lemma keyed_enqueue q id x : inv q -> get id (q_items q) = Some x -> it_hidx x = (-1)%Z -> keyed q -> keyed (enqueue q id).
Proof.
  intros I G Hx K. pose proof (inv_enqueue q id x I G Hx) as En.
  apply (keyed_of_erase (q_modify q id (set_seq (q_seq q + 1)%Z))).
  - intro id'. apply (en_items _ _ _ En).
  - apply keyed_modify; [intro; reflexivity| |exact K]. intro y. left. reflexivity.
Qed.

Lemma keyed_add q now o : inv q -> keyed q -> keyed (add_or_update q now o).
Proof.
  intros I K. rewrite add_or_update_unfold. cbv zeta.
  set (id := o_repo o). destruct (inv_get_or_add q id I) as (I1 & (x1 & G1) & On1).
  pose proof (keyed_get_or_add q id K) as K1.
  set (q1 := get_or_add q id) in *.
  set (g := if opts_eqb (it_opts (item_of (q_items q1) id)) o then (fun x => x) else upd_opts o).
  assert (Hg : keeps_id g /\ keeps_hidx g /\ keeps_seq g).
  { unfold g. destruct (opts_eqb (it_opts (item_of (q_items q1) id)) o); repeat split; intro; reflexivity. }
  destruct Hg as (Hg1 & Hg2 & Hg3).
  assert (K2 : keyed (q_modify q1 id g)).
  { apply keyed_modify; [exact Hg1| |exact K1]. intro y. unfold g.
    destruct (opts_eqb (it_opts (item_of (q_items q1) id)) o); [left; reflexivity|right; reflexivity]. }
  pose proof (item_of_modify_same q1 id g x1 Hg1 G1) as G2.
  rewrite (item_of_get _ _ _ G2). rewrite Hg2.
  destruct (inv_modify_fix q1 id g x1 I1 G1 Hg1 Hg2 Hg3) as [A B].
  destruct (it_hidx x1 <? 0)%Z eqn:E.
  - apply Z.ltb_lt in E. specialize (A E).
    destruct (allow (g x1) now); [|exact K2].
    apply (keyed_enqueue _ id (g x1) A G2); [|exact K2].
    rewrite Hg2. destruct (shape_hidx_cases q1 id x1 (inv_shape _ I1) G1); lia.
  - apply Z.ltb_ge in E. destruct (B E) as [_ Kp]. apply (keyed_frame _ _ (kp_frame _ _ _ Kp)). exact K2.
Qed.

Lemma keyed_pop q : inv q -> keyed q -> keyed (fst (pop q)).
Proof.
  intros I K. unfold pop. destruct (q_pq q) as [|a l] eqn:E; [exact K|].
  pose proof (pq_len_pos q a l E) as Hl.
  destruct (h_pop_ok q (inv_shape _ I) Hl (inv_heap _ I)) as [_ R].
  destruct (h_pop q) as [q' id]. simpl in *. apply (keyed_frame _ _ (ro_frame _ _ _ R)). exact K.
Qed.

Lemma keyed_bump now ids : forall q, inv q -> keyed q -> keyed (fst (bump q now ids)).
Proof.
  induction ids as [|id r IH]; intros q I K; simpl; [exact K|].
  destruct (get id (q_items q)) as [x|] eqn:G.
  - destruct ((it_hidx x <? 0)%Z && allow x now) eqn:E; [|apply IH; assumption].
    apply Bool.andb_true_iff in E. destruct E as [E _]. apply Z.ltb_lt in E.
    assert (Hx : it_hidx x = (-1)%Z) by (destruct (shape_hidx_cases q id x (inv_shape _ I) G); lia).
    apply IH; [apply (en_inv _ _ _ (inv_enqueue q id x I G Hx))|apply (keyed_enqueue q id x I G Hx K)].
  - specialize (IH q I K). destruct (bump q now r) as [q' miss]. exact IH.
Qed.

Lemma keyed_set_indexed q now o st : inv q -> keyed q -> keyed (set_indexed_op q now o st).
Proof.
  intros I K. unfold set_indexed_op. set (id := o_repo o).
  destruct (inv_get_or_add q id I) as (I1 & (x1 & G1) & On1).
  pose proof (keyed_get_or_add q id K) as K1.
  set (q1 := get_or_add q id) in *.
  destruct (negb (N.eqb st st_fail)).
  - rewrite q_modify_modify by auto.
    set (g := fun x => bo_reset (set_indexed (opts_eqb o (it_opts (set_state st x))) (set_state st x))).
    assert (Hg1 : keeps_id g) by (intro; reflexivity).
    assert (Hg2 : keeps_hidx g) by (intro; reflexivity).
    assert (Hg3 : keeps_seq g) by (intro; reflexivity).
    assert (K2 : keyed (q_modify q1 id g)) by (apply keyed_modify; [exact Hg1|intro; left; reflexivity|exact K1]).
    pose proof (item_of_modify_same q1 id g x1 Hg1 G1) as G2.
    rewrite (item_of_get _ _ _ G2). rewrite Hg2.
    destruct (inv_modify_fix q1 id g x1 I1 G1 Hg1 Hg2 Hg3) as [A B].
    destruct (0 <=? it_hidx x1)%Z eqn:E.
    + apply Z.leb_le in E. destruct (B E) as [_ Kp]. apply (keyed_frame _ _ (kp_frame _ _ _ Kp)). exact K2.
    + exact K2.
  - rewrite q_modify_modify by auto.
    change (q_cfg (q_modify q1 id (set_state st))) with (q_cfg q1).
    set (g := fun x => bo_fail (q_cfg q1) now (set_state st x)).
    destruct (keeps_bo_fail (q_cfg q1) now) as (K1' & K2' & K3').
    assert (Hg1 : keeps_id g) by (intro x; unfold g; rewrite K1'; reflexivity).
    assert (Hg2 : keeps_hidx g) by (intro x; unfold g; rewrite K2'; reflexivity).
    assert (Hg3 : keeps_seq g) by (intro x; unfold g; rewrite K3'; reflexivity).
    assert (K2 : keyed (q_modify q1 id g)).
    { apply keyed_modify; [exact Hg1| |exact K1]. intro y. left. unfold g, bo_fail.
      destruct ((it_cf (set_state st y) + 1) * c_bd (q_cfg q1) >? c_max (q_cfg q1))%Z; reflexivity. }
    pose proof (item_of_modify_same q1 id g x1 Hg1 G1) as G2.
    rewrite (item_of_get _ _ _ G2). rewrite Hg2.
    destruct (0 <=? it_hidx x1)%Z eqn:E; [|exact K2].
    apply Z.leb_le in E.
    destruct (inv_modify_remove q1 id g x1 I1 G1 E Hg1 Hg2 Hg3) as [_ R].
    apply keyed_modify; [intro; reflexivity|intro; left; reflexivity|].
    apply (keyed_frame _ _ (ro_frame _ _ _ R)). exact K2.
Qed.

Lemma keyed_remove_missing q ids : inv q -> keyed q -> keyed (fst (remove_missing q ids)).
Proof.
  intros I K. unfold remove_missing, remove_missing_gen.
  destruct (length (q_items q) =? length ids); [exact K|].
  pose proof (rm_loop_spec ids (keys (q_items q)) q [] I eq_refl) as [R1 R2 R3 R4 R5 R6 R7].
  destruct (rm_loop it_id ids q (keys (q_items q))) as [q' rem]. simpl in *.
  intros id x' G.
  assert (Hn : ~ In id rem).
  { apply get_some_keys in G. rewrite R2 in G. apply filter_In in G. destruct G as [_ G].
    rewrite R3. intro H. apply filter_In in H. destruct H as [_ H]. rewrite G in H. discriminate. }
  specialize (R5 id Hn). rewrite G in R5. simpl in R5.
  destruct (get id (q_items q)) as [x|] eqn:G0; [|discriminate]. simpl in R5.
  assert (E1 : erase x' = erase x) by congruence.
  rewrite (erase_opts _ _ E1). apply (K id x G0).
Qed.

Lemma keyed_step q now o : inv q -> keyed q -> keyed (fst (step q now o)).
Proof.
  intros I K. destruct o; simpl.
  - apply keyed_add; assumption.
  - pose proof (keyed_pop q I K) as H. destruct (pop q). exact H.
  - pose proof (keyed_bump now ids q I K) as H. destruct (bump q now ids). exact H.
  - apply keyed_set_indexed; assumption.
  - pose proof (keyed_remove_missing q ids I K) as H. unfold remove_missing in H. destruct (remove_missing_gen it_id q ids). exact H.
  - exact K.
  - exact K.
Qed.

Lemma keyed_run h : forall q, inv q -> keyed q -> keyed (run q h).
Proof.
  induction h as [|[now o] r IH]; intros q I K; simpl; [exact K|].
  apply IH; [apply inv_step; exact I|apply keyed_step; assumption].
Qed.

Theorem reachable_keyed bd mx h : keyed (run (new_queue bd mx) h).
Proof. apply keyed_run; [apply inv_init|]. intros id x G. unfold new_queue in G. simpl in G. discriminate. Qed.

(** Pop hands out the current options of the item it takes off the heap: the zero options or that repository's *)
Theorem pop_yields_its_repo bd mx h q' o :
  pop (run (new_queue bd mx) h) = (q', Some o) ->
  exists id, pop_id (run (new_queue bd mx) h) = Some id /\ on_heap (run (new_queue bd mx) h) id /\
             (o = opts_zero \/ o_repo o = id).
Proof.
  set (q := run (new_queue bd mx) h). intro H.
  pose proof (reachable_inv bd mx h) as I. fold q in I.
  pose proof (reachable_keyed bd mx h) as K. fold q in K.
  pose proof (pop_step q I) as P. unfold pop_id in *. unfold pop in H.
  destruct (q_pq q) as [|a l] eqn:E; [discriminate|].
  destruct P as [Hon _]. exists (snd (h_pop q)). split; [reflexivity|]. split; [exact Hon|].
  pose proof (pq_len_pos q a l E) as Hl.
  destruct (h_pop_ok q (inv_shape _ I) Hl (inv_heap _ I)) as [Hid R].
  pose proof (keyed_frame _ _ (ro_frame _ _ _ R) K) as K'.
  destruct (ro_hidx _ _ _ R) as (y & Gy & _).
  destruct (h_pop q) as [q1 i]. simpl in *. inversion H; subst q' o. subst i.
  rewrite (item_of_get _ _ _ Gy). apply (K' _ y Gy).
Qed.
