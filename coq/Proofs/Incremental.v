(** Proofs about Model/Incremental.v (property C38). *)
From ZV Require Import Lib.Base Model.HashProg Model.Incremental.
From Coq Require Import String.
Notation get := Incremental.get.

(** ---- boolean equalities *)
Lemma list_eqb_true {A} (eqb : A -> A -> bool) :
  (forall x y, eqb x y = true -> x = y) -> forall a b, list_eqb eqb a b = true -> a = b.
Proof.
  intros Heq a. induction a as [|x a IH]; intros [|y b] H; simpl in H; try discriminate; auto.
  apply andb_true_iff in H. destruct H as [H1 H2]. f_equal; auto.
Qed.
Lemma list_eqb_refl {A} (eqb : A -> A -> bool) :
  (forall x, eqb x x = true) -> forall a, list_eqb eqb a a = true.
Proof. intros Hr a. induction a as [|x a IH]; simpl; auto. rewrite Hr, IH. reflexivity. Qed.

Lemma str_eqb_true a b : str_eqb a b = true -> a = b.
Proof. apply list_eqb_true. intros x y H. apply N.eqb_eq. exact H. Qed.
Lemma str_eqb_refl a : str_eqb a a = true.
Proof. apply list_eqb_refl. apply N.eqb_refl. Qed.
Lemma str_eqb_false a b : str_eqb a b = false -> a <> b.
Proof. intros H E. subst. rewrite str_eqb_refl in H. discriminate. Qed.

Lemma branch_eqb_true x y : branch_eqb x y = true -> x = y.
Proof.
  destruct x as [a b], y as [c d]. unfold branch_eqb, pair_eqb. simpl. intros H.
  apply andb_true_iff in H. destruct H as [H1 H2].
  apply str_eqb_true in H1. apply str_eqb_true in H2. congruence.
Qed.
Lemma branch_eqb_refl x : branch_eqb x x = true.
Proof. destruct x. unfold branch_eqb, pair_eqb. simpl. now rewrite !str_eqb_refl. Qed.

Lemma branches_deep_eqb_true a b : branches_deep_eqb a b = true -> a = b.
Proof.
  destruct a as [x|], b as [y|]; simpl; intros H; try discriminate; auto.
  f_equal. eapply list_eqb_true; [|exact H]. apply branch_eqb_true.
Qed.
Lemma branches_deep_eqb_refl a : branches_deep_eqb a a = true.
Proof. destruct a; simpl; auto. apply list_eqb_refl. apply branch_eqb_refl. Qed.

(** ---- MergeMutable's RawConfig loop *)

(** the requested pair (k, v) is already present in the stored map (Go reads a missing key as "") *)
Definition rc_covered (rc : option (list (str * str))) (kv : str * str) : Prop :=
  str_eqb (fst kv) k_name || str_eqb (fst kv) k_id = true \/
  exists m, rc = Some m /\ (match lookup m (fst kv) with Some w => w | None => [] end) = snd kv.

Lemma merge_rc_step_sticky rc kv : fst (merge_rc_step (true, rc) kv) = true.
Proof.
  unfold merge_rc_step. destruct kv as [k v].
  destruct (str_eqb k k_name || str_eqb k k_id); [reflexivity|].
  destruct rc as [m|]; simpl;
    match goal with |- context [if ?c then _ else _] => destruct c end; reflexivity.
Qed.

Lemma merge_rc_fold_sticky l rc : fst (fold_left merge_rc_step l (true, rc)) = true.
Proof.
  revert rc. induction l as [|kv l IH]; intros rc; cbn [fold_left]; [reflexivity|].
  pose proof (merge_rc_step_sticky rc kv) as Hs.
  destruct (merge_rc_step (true, rc) kv) as [b rc']. simpl in Hs. subst b. apply IH.
Qed.

Lemma merge_rc_step_false mut rc kv rc' :
  merge_rc_step (mut, rc) kv = (false, rc') -> mut = false /\ rc' = rc /\ rc_covered rc kv.
Proof.
  unfold merge_rc_step, rc_covered. destruct kv as [k v]. simpl.
  destruct (str_eqb k k_name || str_eqb k k_id) eqn:Hk.
  - intros H. inversion H. subst. auto.
  - destruct rc as [m|]; simpl.
    + destruct (str_eqb (match lookup m k with Some w => w | None => [] end) v) eqn:Hv; intros H; inversion H; subst.
      split; [reflexivity|]. split; [reflexivity|]. right. exists m. split; [reflexivity|]. apply str_eqb_true. exact Hv.
    + destruct (str_eqb [] v); intros H; inversion H.
Qed.

Lemma merge_rc_fold_false l mut rc rc' :
  fold_left merge_rc_step l (mut, rc) = (false, rc') ->
  mut = false /\ rc' = rc /\ Forall (rc_covered rc) l.
Proof.
  revert mut rc. induction l as [|kv l IH]; intros mut rc H; cbn [fold_left] in H.
  - inversion H. auto.
  - destruct (merge_rc_step (mut, rc) kv) as [b rc1] eqn:Hs.
    destruct (IH _ _ H) as (Hb & Hrc & Hall). subst b.
    destruct (merge_rc_step_false _ _ _ _ Hs) as (Hm & Hrc1 & Hc).
    rewrite Hrc1 in Hrc, Hall.
    split; [exact Hm|]. split; [exact Hrc|]. constructor; assumption.
Qed.

(** converse: a covered list leaves (false, rc) alone *)
Lemma merge_rc_fold_covered l rc :
  Forall (rc_covered rc) l -> fold_left merge_rc_step l (false, rc) = (false, rc).
Proof.
  induction 1 as [|kv l Hc _ IH]; cbn [fold_left]; [reflexivity|].
  replace (merge_rc_step (false, rc) kv) with (false, rc); [exact IH|].
  unfold merge_rc_step. destruct kv as [k v]. destruct Hc as [Hk | (m & Hm & Hv)]; simpl in *.
  - rewrite Hk. reflexivity.
  - destruct (str_eqb k k_name || str_eqb k k_id); [reflexivity|]. subst rc. simpl.
    rewrite Hv, str_eqb_refl. reflexivity.
Qed.

Definition requested_rawconfig {hashT} (x : repo hashT) : list (str * str) :=
  match r_rawconfig x with None => [] | Some l => l end.

(** mutable fields of the stored record [r] already agree with the request [x] *)
Definition mutable_agree {hashT} (r x : repo hashT) : Prop :=
  Forall (rc_covered (r_rawconfig r)) (requested_rawconfig x) /\
  r_url r = r_url x /\ r_commit_tmpl r = r_commit_tmpl x /\ r_file_tmpl r = r_file_tmpl x /\ r_line_tmpl r = r_line_tmpl x.

Definition immutable_agree {hashT} (r x : repo hashT) : Prop :=
  r_id r = r_id x /\ r_name r = r_name x /\ r_branches r = r_branches x.

Lemma negb_str_eqb_false a b : negb (str_eqb a b) = false -> a = b.
Proof. intros H. apply negb_false_iff in H. apply str_eqb_true. exact H. Qed.

Lemma merge_mutable_some {hashT} (r x : repo hashT) m r' :
  merge_mutable r x = Some (m, r') -> immutable_agree r x.
Proof.
  unfold merge_mutable, immutable_agree.
  destruct (N.eqb (r_id r) (r_id x)) eqn:Hid; simpl; [|discriminate].
  destruct (str_eqb (r_name r) (r_name x)) eqn:Hn; simpl; [|discriminate].
  destruct (branches_deep_eqb (r_branches r) (r_branches x)) eqn:Hb; simpl; [|discriminate].
  intros _. apply N.eqb_eq in Hid. apply str_eqb_true in Hn. apply branches_deep_eqb_true in Hb. auto.
Qed.

Lemma merge_mutable_none {hashT} (r x : repo hashT) :
  merge_mutable r x = None -> ~ immutable_agree r x.
Proof.
  unfold merge_mutable, immutable_agree. intros H (Hid & Hn & Hb).
  rewrite Hid, N.eqb_refl, Hn, str_eqb_refl, Hb, branches_deep_eqb_refl in H. simpl in H.
  destruct (fold_left merge_rc_step _ _). discriminate.
Qed.

Lemma merge_mutable_unmutated {hashT} (r x : repo hashT) r' :
  merge_mutable r x = Some (false, r') -> mutable_agree r x.
Proof.
  unfold merge_mutable, mutable_agree, requested_rawconfig.
  destruct (negb (N.eqb (r_id r) (r_id x))); [discriminate|].
  destruct (negb (str_eqb (r_name r) (r_name x))); [discriminate|].
  destruct (negb (branches_deep_eqb (r_branches r) (r_branches x))); [discriminate|].
  destruct (fold_left merge_rc_step _ _) as [m0 rc] eqn:Hf.
  intros H. inversion H as [[Hm Hr]]. clear H Hr.
  apply orb_false_iff in Hm. destruct Hm as [Hm H4].
  apply orb_false_iff in Hm. destruct Hm as [Hm H3].
  apply orb_false_iff in Hm. destruct Hm as [Hm H2].
  apply orb_false_iff in Hm. destruct Hm as [Hm H1]. subst m0.
  apply merge_rc_fold_false in Hf. destruct Hf as (_ & _ & Hall).
  repeat split; auto using negb_str_eqb_false.
Qed.

Lemma merge_mutable_agree {hashT} (r x : repo hashT) :
  immutable_agree r x -> mutable_agree r x -> exists r', merge_mutable r x = Some (false, r').
Proof.
  unfold merge_mutable, immutable_agree, mutable_agree, requested_rawconfig.
  intros (Hid & Hn & Hb) (Hrc & H1 & H2 & H3 & H4).
  rewrite Hid, N.eqb_refl, Hn, str_eqb_refl, Hb, branches_deep_eqb_refl. simpl.
  rewrite (merge_rc_fold_covered _ _ Hrc).
  rewrite H1, H2, H3, H4, !str_eqb_refl. simpl. eexists. reflexivity.
Qed.

(** ---- IndexState *)
Section State.
  Variable hashT : Type.
  Variable heqb : hashT -> hashT -> bool.
  Hypothesis heqb_spec : forall a b, heqb a b = true <-> a = b.
  Variable rv : list (N * N).

  Definition found (repos : list (repo hashT)) (desc : repo hashT) : option (repo hashT) :=
    find (fun c => str_eqb (r_name c) (r_name desc)) (filter (fun c => negb (r_tombstone c)) repos).

  Lemma found_some repos desc r :
    found repos desc = Some r -> In r repos /\ r_tombstone r = false /\ r_name r = r_name desc.
  Proof.
    unfold found. intros H. apply find_some in H. destruct H as [Hin Hn].
    apply filter_In in Hin. destruct Hin as [Hin Ht].
    apply negb_true_iff in Ht. apply str_eqb_true in Hn. auto.
  Qed.

  (** Full characterisation of the states that do NOT re-index (equal: skip; meta: metadata rewritten in place). *)
  Lemma state_no_reindex_inv h d desc :
    let s := index_state_with hashT heqb rv h d desc in
    s = SEqual \/ s = SMeta ->
    exists fmt feat repos r,
      d = DShard fmt feat repos /\ version_mismatch rv fmt feat = false /\ found repos desc = Some r /\
      r_hash r = h /\ immutable_agree r desc /\
      (s = SEqual -> mutable_agree r desc).
  Proof.
    intros s. subst s. unfold index_state_with.
    destruct d as [| | |fmt feat repos]; try (intros [H|H]; discriminate).
    destruct (version_mismatch rv fmt feat) eqn:Hv; [intros [H|H]; discriminate|].
    fold (found repos desc). destruct (found repos desc) as [r|] eqn:Hf; [|intros [H|H]; discriminate].
    destruct (heqb (r_hash r) h) eqn:Hh; simpl; [|intros [H|H]; discriminate].
    destruct (branches_deep_eqb (r_branches r) (r_branches desc)) eqn:Hb; simpl; [|intros [H|H]; discriminate].
    destruct (merge_mutable r desc) as [[m r']|] eqn:Hm; [|intros [H|H]; discriminate].
    intros _. exists fmt, feat, repos, r.
    split; [reflexivity|]. split; [exact Hv|]. split; [exact Hf|].
    split; [apply heqb_spec; exact Hh|]. split; [eapply merge_mutable_some; eauto|].
    destruct m; [discriminate|]. intros _. eapply merge_mutable_unmutated; eauto.
  Qed.

  (** Conversely: same hash + same identity/branches => never a re-index; skip exactly when nothing mutable differs. *)
  Lemma state_metadata_only h fmt feat repos desc r :
    version_mismatch rv fmt feat = false -> found repos desc = Some r ->
    r_hash r = h -> immutable_agree r desc ->
    let s := index_state_with hashT heqb rv h (DShard fmt feat repos) desc in
    (s = SEqual \/ s = SMeta) /\ (s = SEqual <-> mutable_agree r desc).
  Proof.
    intros Hv Hf Hh Himm. simpl. rewrite Hv. fold (found repos desc). rewrite Hf.
    assert (heqb (r_hash r) h = true) as -> by (apply heqb_spec; exact Hh). simpl.
    destruct Himm as (Hid & Hn & Hb). rewrite Hb, branches_deep_eqb_refl. simpl.
    destruct (merge_mutable r desc) as [[m r']|] eqn:Hm.
    - destruct m.
      + split; [right; reflexivity|]. split; [discriminate|]. intros Hag.
        destruct (merge_mutable_agree r desc) as [r'' Hr'']; [repeat split; assumption|exact Hag|]. congruence.
      + split; [left; reflexivity|]. split; [intros _; eapply merge_mutable_unmutated; eauto|reflexivity].
    - exfalso. eapply merge_mutable_none; eauto. repeat split; assumption.
  Qed.

  (** changed branches (names, versions, order, nil-ness) always re-index *)
  Lemma state_branches_changed h fmt feat repos desc r :
    found repos desc = Some r -> r_branches r <> r_branches desc ->
    let s := index_state_with hashT heqb rv h (DShard fmt feat repos) desc in
    s <> SEqual /\ s <> SMeta.
  Proof.
    intros Hf Hb s.
    assert (~ (s = SEqual \/ s = SMeta)) as Hn.
    { intros Hs. destruct (state_no_reindex_inv h _ desc Hs) as (f1 & f2 & rs & r1 & Hd & _ & Hf1 & _ & (_ & _ & Hbr) & _).
      inversion Hd. subst. rewrite Hf in Hf1. inversion Hf1. subst. contradiction. }
    split; intros E; apply Hn; auto.
  Qed.
End State.

(** ---- the hash *)
Lemma map_eq_pointwise {A B} (f g : A -> B) l : map f l = map g l -> forall x, In x l -> f x = g x.
Proof.
  induction l as [|a l IH]; simpl; intros H x Hin; [contradiction|].
  inversion H. destruct Hin as [->|Hin]; auto.
Qed.

Lemma forallb_existsb_incl (a b : list string) :
  forallb (fun f => existsb (String.eqb f) b) a = true -> incl a b.
Proof.
  intros H x Hx. rewrite forallb_forall in H. specialize (H _ Hx).
  apply existsb_exists in H. destruct H as (y & Hy & Heq). apply String.eqb_eq in Heq. subst. exact Hy.
Qed.

Lemma get_other (f g : string) v : f <> g -> get [(f, v)] g = None.
Proof. intros H. simpl. destruct (String.eqb f g) eqn:E; [apply String.eqb_eq in E; contradiction|reflexivity]. Qed.

(** ---- list lemmas for the token stream *)
Lemma app_inj_length {A} (a c b d : list A) :
  List.length a = List.length c -> a ++ b = c ++ d -> a = c /\ b = d.
Proof.
  revert c. induction a as [|x a IH]; intros [|y c] Hl E; simpl in *; try discriminate; auto.
  injection E as Hx Hr. injection Hl as Hl. destruct (IH c Hl Hr) as [Ha Hb]. subst. auto.
Qed.

Lemma concat_map_pointwise {A B} (g1 g2 : A -> list B) l :
  (forall x, In x l -> List.length (g1 x) = List.length (g2 x)) ->
  List.concat (map g1 l) = List.concat (map g2 l) -> forall x, In x l -> g1 x = g2 x.
Proof.
  induction l as [|a l IH]; intros Hlen E x Hin; simpl in *; [contradiction|].
  destruct (app_inj_length _ _ _ _ (Hlen a (or_introl eq_refl)) E) as [Ha Hr].
  destruct Hin as [<-|Hin]; [exact Ha|]. apply IH; auto.
Qed.

Lemma filter_all {A} (P : A -> bool) l : (forall t, In t l -> P t = true) -> filter P l = l.
Proof.
  induction l as [|a l IH]; intros Hp; simpl; [reflexivity|].
  rewrite (Hp a (or_introl eq_refl)). f_equal. apply IH. intros t Ht. apply Hp. right. exact Ht.
Qed.
Lemma filter_none {A} (P : A -> bool) l : (forall t, In t l -> P t = false) -> filter P l = [].
Proof.
  induction l as [|a l IH]; intros Hp; simpl; [reflexivity|].
  rewrite (Hp a (or_introl eq_refl)). apply IH. intros t Ht. apply Hp. right. exact Ht.
Qed.

Lemma filter_concat_map {A B} (P : B -> bool) (Q : A -> bool) (g : A -> list B) l :
  (forall x, In x l -> forall t, In t (g x) -> P t = Q x) ->
  filter P (List.concat (map g l)) = List.concat (map g (filter Q l)).
Proof.
  induction l as [|a l IH]; intros Hpq; simpl; [reflexivity|].
  rewrite filter_app, IH by (intros x Hx; apply Hpq; right; exact Hx).
  destruct (Q a) eqn:Hq; simpl.
  - f_equal. apply filter_all. intros t Ht. rewrite (Hpq a (or_introl eq_refl) t Ht). exact Hq.
  - rewrite filter_none; [reflexivity|]. intros t Ht. rewrite (Hpq a (or_introl eq_refl) t Ht). exact Hq.
Qed.

Lemma map_inj {A B} (f : A -> B) : (forall x y, f x = f y -> x = y) -> forall l1 l2, map f l1 = map f l2 -> l1 = l2.
Proof.
  intros Hf l1. induction l1 as [|x l1 IH]; intros [|y l2] E; simpl in E; try discriminate; [reflexivity|].
  injection E as Hx Hr. f_equal; auto.
Qed.

(** ---- the tokens of one item determine the effective value of its field *)
Definition tok_fmt (t : token) : string := match t with Tok f _ => f end.

Lemma value_tokens_fmt form fm v t : In t (value_tokens form fm v) -> tok_fmt t = fm.
Proof.
  unfold value_tokens. destruct form; destruct v; simpl; try tauto;
    try (intros [<-|[]]; reflexivity).
  intros Hin. apply in_map_iff in Hin. destruct Hin as (kn & <- & _). reflexivity.
Qed.

Lemma item_tokens_fmt it o t : In t (item_tokens it o) -> tok_fmt t = hi_fmt it.
Proof.
  unfold item_tokens. destruct (get o (hi_field it)) as [v|].
  - destruct (guard_holds (hi_guard it) v); [apply value_tokens_fmt|intros []].
  - intros [<-|[]]. reflexivity.
Qed.

Definition entry_tok (fm : string) (kn : str * N) : token := Tok fm [VStr (fst kn); VInt (Z.of_N (snd kn))].
Lemma entry_tok_inj fm x y : entry_tok fm x = entry_tok fm y -> x = y.
Proof.
  destruct x as [k n], y as [k' n']. unfold entry_tok. simpl. intros E. injection E as Hk Hn.
  apply N2Z.inj in Hn. congruence.
Qed.

Definition form_known (f : hform) : bool := match f with FUnknown _ => false | _ => true end.

Lemma value_tokens_inj form fm v1 v2 :
  form_known form = true -> value_tokens form fm v1 = value_tokens form fm v2 -> v1 = v2.
Proof.
  intros Hk. destruct form as [| |src]; [| |discriminate Hk].
  - destruct v1, v2; simpl; intros E; injection E as E; congruence.
  - destruct v1 as [z1|b1|s1|l1|m1], v2 as [z2|b2|s2|l2|m2]; simpl; intros E;
      try (injection E as E; congruence);
      try (destruct m1 as [|x [|y m1]]; simpl in E; discriminate E);
      try (destruct m2 as [|x [|y m2]]; simpl in E; discriminate E).
    f_equal. eapply map_inj; [|exact E]. intros x y. apply (entry_tok_inj fm).
Qed.

Lemma value_tokens_not_missing form fm v : value_tokens form fm v <> [Tok fm []].
Proof.
  destruct form; destruct v as [z|b|s|l|m]; simpl; try discriminate.
  destruct m as [|x [|y m]]; simpl; discriminate.
Qed.

Lemma value_tokens_nil form fm v :
  form_known form = true -> value_tokens form fm v = [] -> form = FSortedEntries /\ v = VMap [].
Proof.
  intros Hk. destruct form as [| |src]; [| |discriminate Hk]; destruct v as [z|b|s|l|m]; simpl; try discriminate.
  destruct m; [auto|discriminate].
Qed.

Lemma norm_not_normed normed defaults f v : in_strs f normed = false -> norm normed defaults f v = v.
Proof. unfold norm, in_strs. intros ->. reflexivity. Qed.

Lemma item_tokens_inj normed defaults it o1 o2 :
  item_ok normed defaults it = true -> item_tokens it o1 = item_tokens it o2 ->
  option_map (norm normed defaults (hi_field it)) (get o1 (hi_field it)) =
  option_map (norm normed defaults (hi_field it)) (get o2 (hi_field it)).
Proof.
  destruct it as [f fm g form]. unfold item_tokens, item_ok. cbn [hi_field hi_fmt hi_guard hi_form].
  intros Hok E.
  assert (form_known form = true) as Hk by (destruct form; [reflexivity|reflexivity|discriminate Hok]).
  destruct (get o1 f) as [v1|], (get o2 f) as [v2|]; cbn [option_map]; [| | |reflexivity].
  2:{ exfalso. destruct (guard_holds g v1); [|discriminate E]. exact (value_tokens_not_missing _ _ _ E). }
  2:{ exfalso. destruct (guard_holds g v2); [|discriminate E]. symmetry in E. exact (value_tokens_not_missing _ _ _ E). }
  f_equal.
  destruct (guard_holds g v1) eqn:H1, (guard_holds g v2) eqn:H2.
  - f_equal. eapply value_tokens_inj; eauto.
  - (* v1 written as nothing although its guard holds: an empty map under an unconditional / len>0 guard *)
    destruct (value_tokens_nil _ _ _ Hk E) as [-> ->].
    destruct g; try discriminate Hok; simpl in H1; try discriminate H1.
    (* GNone: guard of v2 cannot fail *) simpl in H2. destruct v2; discriminate H2.
  - symmetry in E. destruct (value_tokens_nil _ _ _ Hk E) as [-> ->].
    destruct g; try discriminate Hok; simpl in H2; try discriminate H2.
    simpl in H1. destruct v1; discriminate H1.
  - (* both omitted: the same effective value *)
    destruct g as [|d| | |src].
    + destruct v1; discriminate H1.
    + destruct form; try discriminate Hok.
      apply andb_true_iff in Hok. destruct Hok as [Hn Hd].
      destruct (find (fun p => String.eqb (fst p) f) defaults) as [[k d']|] eqn:Hf; [|discriminate Hd].
      apply Z.eqb_eq in Hd. subst d'.
      assert (forall v, guard_holds (GIntNotZeroNotConst d) v = false -> norm normed defaults f v = VInt d) as Hnorm.
      { intros v Hv. unfold norm. unfold in_strs in Hn. rewrite Hn. destruct v as [z| | | |]; simpl in Hv; try discriminate Hv.
        apply andb_false_iff in Hv. destruct Hv as [Hv|Hv]; apply negb_false_iff in Hv; apply Z.eqb_eq in Hv; subst z.
        - rewrite Hf. reflexivity.
        - destruct d; [rewrite Hf|..]; reflexivity. }
      rewrite (Hnorm v1 H1), (Hnorm v2 H2). reflexivity.
    + assert (forall v, guard_holds GStrNonEmpty v = false -> v = VStr []) as Hs.
      { intros v Hv. destruct v as [| |s| |]; simpl in Hv; try discriminate Hv. destruct s; [reflexivity|discriminate Hv]. }
      rewrite (Hs v1 H1), (Hs v2 H2). reflexivity.
    + assert (forall v, guard_holds GLenPositive v = false -> v = VMap []) as Hs.
      { intros v Hv. destruct v as [| | | |m]; simpl in Hv; try discriminate Hv. destruct m; [reflexivity|discriminate Hv]. }
      rewrite (Hs v1 H1), (Hs v2 H2). reflexivity.
    + destruct form; discriminate Hok.
Qed.

Lemma always_item_length it o : always_item it = true -> List.length (item_tokens it o) = 1%nat.
Proof.
  destruct it as [f fm g form]. unfold always_item, item_tokens. cbn [hi_field hi_fmt hi_guard hi_form].
  destruct g; try discriminate. destruct form; try discriminate. intros _.
  destruct (get o f) as [v|]; [|reflexivity]. destruct v; reflexivity.
Qed.

(** the token stream of the whole program determines the tokens of each item *)
Lemma hash_tokens_item prog o1 o2 it :
  In it prog -> group_ok prog it = true -> hash_tokens prog o1 = hash_tokens prog o2 ->
  item_tokens it o1 = item_tokens it o2.
Proof.
  intros Hin Hg E.
  pose (P := fun t : token => String.eqb (tok_fmt t) (hi_fmt it)).
  assert (filter P (hash_tokens prog o1) = filter P (hash_tokens prog o2)) as EF by (rewrite E; reflexivity).
  unfold hash_tokens in EF.
  rewrite !(filter_concat_map P (same_fmt it)) in EF
    by (intros x _ t Ht; unfold P, same_fmt; rewrite (item_tokens_fmt _ _ _ Ht); reflexivity).
  unfold group_ok in Hg. cbv zeta in Hg.
  assert (In it (filter (same_fmt it) prog)) as Hing
    by (apply filter_In; split; [exact Hin|unfold same_fmt; apply String.eqb_refl]).
  apply orb_true_iff in Hg. destruct Hg as [Hl|Ha].
  - destruct (filter (same_fmt it) prog) as [|a [|b g]]; [contradiction| |discriminate Hl].
    destruct Hing as [<-|[]]. simpl in EF. rewrite !app_nil_r in EF. exact EF.
  - apply (concat_map_pointwise (fun j => item_tokens j o1) (fun j => item_tokens j o2) (filter (same_fmt it) prog)); auto.
    intros x Hx. rewrite forallb_forall in Ha. rewrite !always_item_length by (apply Ha; exact Hx). reflexivity.
Qed.

Section Hash.
  Variable hashT : Type.
  Variable heqb : hashT -> hashT -> bool.
  Hypothesis heqb_spec : forall a b, heqb a b = true <-> a = b.
  Variable H : list token -> hashT.
  Hypothesis H_inj : forall a b, H a = H b -> a = b.
  Variable rv : list (N * N).
  Variables (normed : list string) (defaults : list (string * Z)) (prog : list hitem) (unrec : list string).
  Hypothesis prog_is_ok : prog_ok normed defaults prog unrec = true.
  Let hashed := map hi_field prog.

  Notation get_hash := (get_hash hashT H prog).
  Notation eff o f := (option_map (norm normed defaults f) (get o f)).

  Lemma get_hash_eq_fields o1 o2 :
    get_hash o1 = get_hash o2 -> forall f, In f hashed -> eff o1 f = eff o2 f.
  Proof.
    unfold Incremental.get_hash. intros E. apply H_inj in E.
    intros f Hf. apply in_map_iff in Hf. destruct Hf as (it & <- & Hit).
    unfold prog_ok in prog_is_ok.
    apply andb_true_iff in prog_is_ok. destruct prog_is_ok as [Hp Hgrp].
    apply andb_true_iff in Hp. destruct Hp as [_ Hitems].
    rewrite forallb_forall in Hgrp, Hitems.
    apply item_tokens_inj; [apply Hitems; exact Hit|].
    apply (hash_tokens_item prog); auto.
  Qed.

  (** [built_with repos desc o1]: every live record of the requested name in the shard was written by a build
      whose options were [o1] *)
  Definition built_with (repos : list (repo hashT)) (desc : repo hashT) (o1 : opts) : Prop :=
    forall r, In r repos -> r_name r = r_name desc -> r_hash r = get_hash o1.

  Theorem no_reindex_sound o1 o2 fmt feat repos desc :
    built_with repos desc o1 ->
    let s := index_state_with hashT heqb rv (get_hash o2) (DShard fmt feat repos) desc in
    s = SEqual \/ s = SMeta ->
    forall f, In f hashed -> eff o1 f = eff o2 f.
  Proof.
    intros Hb s Hs.
    destruct (state_no_reindex_inv hashT heqb heqb_spec rv _ _ _ Hs)
      as (f1 & f2 & rs & r & Hd & _ & Hf & Hh & _ & _).
    inversion Hd. subst rs f1 f2. destruct (found_some _ _ _ _ Hf) as (Hin & _ & Hn).
    rewrite (Hb r Hin Hn) in Hh. apply get_hash_eq_fields. exact Hh.
  Qed.

  Theorem hashed_change_reindexes o1 o2 fmt feat repos desc f :
    built_with repos desc o1 -> In f hashed -> eff o1 f <> eff o2 f ->
    let s := index_state_with hashT heqb rv (get_hash o2) (DShard fmt feat repos) desc in
    s <> SEqual /\ s <> SMeta.
  Proof.
    intros Hb Hf Hne s.
    assert (~ (s = SEqual \/ s = SMeta)) as Hn.
    { intros Hs. apply Hne. eapply no_reindex_sound; eauto. }
    split; intros E; apply Hn; auto.
  Qed.

  (** Necessity: a field outside [hashed] can differ arbitrarily while the state is "equal". *)
  Definition witness_desc : repo hashT :=
    mkRepo 1%N [114; 101; 112; 111]%N (Some [([72; 69; 65; 68]%N, [118; 49]%N)]) None [] [] [] [] (H []) false.

  Theorem unhashed_field_not_protected f v1 v2 fmt feat :
    ~ In f hashed -> v1 <> v2 -> version_mismatch rv fmt feat = false ->
    exists o1 o2 desc,
      get o1 f = Some v1 /\ get o2 f = Some v2 /\
      index_state_with hashT heqb rv (get_hash o2) (build_disk hashT H prog fmt feat o1 desc) desc = SEqual.
  Proof.
    intros Hnin Hne Hv. exists [(f, v1)], [(f, v2)], witness_desc.
    split; [simpl; rewrite String.eqb_refl; reflexivity|].
    split; [simpl; rewrite String.eqb_refl; reflexivity|].
    assert (get_hash [(f, v1)] = get_hash [(f, v2)]) as Hh.
    { unfold Incremental.get_hash, hash_tokens. do 2 f_equal. apply map_ext_in. intros it Hit.
      assert (f <> hi_field it) by (intros ->; apply Hnin; apply in_map; exact Hit).
      unfold item_tokens. rewrite !get_other by assumption. reflexivity. }
    unfold build_disk. cbn [index_state_with]. rewrite Hv.
    cbn [filter build_record r_tombstone negb find r_name witness_desc]. rewrite str_eqb_refl.
    unfold build_record at 1. cbn [r_hash].
    assert (heqb (get_hash [(f, v1)]) (get_hash [(f, v2)]) = true) as -> by (apply heqb_spec; exact Hh).
    reflexivity.
  Qed.
End Hash.

(** ---- a concrete instance of the abstract hash (non-vacuity of the hypotheses of Section Hash):
    hashT := the token list itself, H := identity (trivially injective), heqb from decidable equality. *)
Definition str_eq_dec : forall a b : str, {a = b} + {a <> b} := list_eq_dec N.eq_dec.
Definition val_eq_dec : forall a b : val, {a = b} + {a <> b}.
Proof.
  decide equality.
  - apply Z.eq_dec.
  - apply Bool.bool_dec.
  - apply str_eq_dec.
  - apply (list_eq_dec str_eq_dec).
  - apply list_eq_dec. decide equality; [apply N.eq_dec | apply str_eq_dec].
Defined.
Definition token_eq_dec : forall a b : token, {a = b} + {a <> b}.
Proof. decide equality; [apply (list_eq_dec val_eq_dec)|apply string_dec]. Defined.
Definition id_hash_eqb (a b : list token) : bool := if list_eq_dec token_eq_dec a b then true else false.
Lemma id_hash_eqb_spec a b : id_hash_eqb a b = true <-> a = b.
Proof. unfold id_hash_eqb. destruct (list_eq_dec token_eq_dec a b); split; intros; auto; discriminate. Qed.
