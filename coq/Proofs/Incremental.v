(** Proofs about Model/Incremental.v (property C38). *)
From ZV Require Import Lib.Base Model.Incremental.
From Coq Require Import String.
Notation get := Incremental.get.

(** ---- boolean equalities *)
Lemma list_eqb_true {A} (eqb : A -> A -> bool) :
  (forall x y, eqb x y = true -> x = y) -> forall a b, list_eqb eqb a b = true -> a = b.
Proof.
  intros Heq a. induction a as [|x a IH]; intros [|y b] H; simpl in H; try discriminate; auto.
  apply andb_true_iff in H. destruct H as [H1 H2]. f_equal; auto.
Qed.
Lemma list_eqb_refl {A} (eqb : A -> A -> bool) :
  (forall x, eqb x x = true) -> forall a, list_eqb eqb a a = true.
Proof. intros Hr a. induction a as [|x a IH]; simpl; auto. rewrite Hr, IH. reflexivity. Qed.

Lemma str_eqb_true a b : str_eqb a b = true -> a = b.
Proof. apply list_eqb_true. intros x y H. apply N.eqb_eq. exact H. Qed.
Lemma str_eqb_refl a : str_eqb a a = true.
Proof. apply list_eqb_refl. apply N.eqb_refl. Qed.
Lemma str_eqb_false a b : str_eqb a b = false -> a <> b.
Proof. intros H E. subst. rewrite str_eqb_refl in H. discriminate. Qed.

Lemma branch_eqb_true x y : branch_eqb x y = true -> x = y.
Proof.
  destruct x as [a b], y as [c d]. unfold branch_eqb, pair_eqb. simpl. intros H.
  apply andb_true_iff in H. destruct H as [H1 H2].
  apply str_eqb_true in H1. apply str_eqb_true in H2. congruence.
Qed.
Lemma branch_eqb_refl x : branch_eqb x x = true.
Proof. destruct x. unfold branch_eqb, pair_eqb. simpl. now rewrite !str_eqb_refl. Qed.

Lemma branches_deep_eqb_true a b : branches_deep_eqb a b = true -> a = b.
Proof.
  destruct a as [x|], b as [y|]; simpl; intros H; try discriminate; auto.
  f_equal. eapply list_eqb_true; [|exact H]. apply branch_eqb_true.
Qed.
Lemma branches_deep_eqb_refl a : branches_deep_eqb a a = true.
Proof. destruct a; simpl; auto. apply list_eqb_refl. apply branch_eqb_refl. Qed.

(** ---- MergeMutable's RawConfig loop *)

(** the requested pair (k, v) is already present in the stored map (Go reads a missing key as "") *)
Definition rc_covered (rc : option (list (str * str))) (kv : str * str) : Prop :=
  str_eqb (fst kv) k_name || str_eqb (fst kv) k_id = true \/
  exists m, rc = Some m /\ (match lookup m (fst kv) with Some w => w | None => [] end) = snd kv.

Lemma merge_rc_step_sticky rc kv : fst (merge_rc_step (true, rc) kv) = true.
Proof.
  unfold merge_rc_step. destruct kv as [k v].
  destruct (str_eqb k k_name || str_eqb k k_id); [reflexivity|].
  destruct rc as [m|]; simpl;
    match goal with |- context [if ?c then _ else _] => destruct c end; reflexivity.
Qed.

Lemma merge_rc_fold_sticky l rc : fst (fold_left merge_rc_step l (true, rc)) = true.
Proof.
  revert rc. induction l as [|kv l IH]; intros rc; cbn [fold_left]; [reflexivity|].
  pose proof (merge_rc_step_sticky rc kv) as Hs.
  destruct (merge_rc_step (true, rc) kv) as [b rc']. simpl in Hs. subst b. apply IH.
Qed.

Lemma merge_rc_step_false mut rc kv rc' :
  merge_rc_step (mut, rc) kv = (false, rc') -> mut = false /\ rc' = rc /\ rc_covered rc kv.
Proof.
  unfold merge_rc_step, rc_covered. destruct kv as [k v]. simpl.
  destruct (str_eqb k k_name || str_eqb k k_id) eqn:Hk.
  - intros H. inversion H. subst. auto.
  - destruct rc as [m|]; simpl.
    + destruct (str_eqb (match lookup m k with Some w => w | None => [] end) v) eqn:Hv; intros H; inversion H; subst.
      split; [reflexivity|]. split; [reflexivity|]. right. exists m. split; [reflexivity|]. apply str_eqb_true. exact Hv.
    + destruct (str_eqb [] v); intros H; inversion H.
Qed.

Lemma merge_rc_fold_false l mut rc rc' :
  fold_left merge_rc_step l (mut, rc) = (false, rc') ->
  mut = false /\ rc' = rc /\ Forall (rc_covered rc) l.
Proof.
  revert mut rc. induction l as [|kv l IH]; intros mut rc H; cbn [fold_left] in H.
  - inversion H. auto.
  - destruct (merge_rc_step (mut, rc) kv) as [b rc1] eqn:Hs.
    destruct (IH _ _ H) as (Hb & Hrc & Hall). subst b.
    destruct (merge_rc_step_false _ _ _ _ Hs) as (Hm & Hrc1 & Hc).
    rewrite Hrc1 in Hrc, Hall.
    split; [exact Hm|]. split; [exact Hrc|]. constructor; assumption.
Qed.

(** converse: a covered list leaves (false, rc) alone *)
Lemma merge_rc_fold_covered l rc :
  Forall (rc_covered rc) l -> fold_left merge_rc_step l (false, rc) = (false, rc).
Proof.
  induction 1 as [|kv l Hc _ IH]; cbn [fold_left]; [reflexivity|].
  replace (merge_rc_step (false, rc) kv) with (false, rc); [exact IH|].
  unfold merge_rc_step. destruct kv as [k v]. destruct Hc as [Hk | (m & Hm & Hv)]; simpl in *.
  - rewrite Hk. reflexivity.
  - destruct (str_eqb k k_name || str_eqb k k_id); [reflexivity|]. subst rc. simpl.
    rewrite Hv, str_eqb_refl. reflexivity.
Qed.

Definition requested_rawconfig {hashT} (x : repo hashT) : list (str * str) :=
  match r_rawconfig x with None => [] | Some l => l end.

(** mutable fields of the stored record [r] already agree with the request [x] *)
Definition mutable_agree {hashT} (r x : repo hashT) : Prop :=
  Forall (rc_covered (r_rawconfig r)) (requested_rawconfig x) /\
  r_url r = r_url x /\ r_commit_tmpl r = r_commit_tmpl x /\ r_file_tmpl r = r_file_tmpl x /\ r_line_tmpl r = r_line_tmpl x.

Definition immutable_agree {hashT} (r x : repo hashT) : Prop :=
  r_id r = r_id x /\ r_name r = r_name x /\ r_branches r = r_branches x.

Lemma negb_str_eqb_false a b : negb (str_eqb a b) = false -> a = b.
Proof. intros H. apply negb_false_iff in H. apply str_eqb_true. exact H. Qed.

Lemma merge_mutable_some {hashT} (r x : repo hashT) m r' :
  merge_mutable r x = Some (m, r') -> immutable_agree r x.
Proof.
  unfold merge_mutable, immutable_agree.
  destruct (N.eqb (r_id r) (r_id x)) eqn:Hid; simpl; [|discriminate].
  destruct (str_eqb (r_name r) (r_name x)) eqn:Hn; simpl; [|discriminate].
  destruct (branches_deep_eqb (r_branches r) (r_branches x)) eqn:Hb; simpl; [|discriminate].
  intros _. apply N.eqb_eq in Hid. apply str_eqb_true in Hn. apply branches_deep_eqb_true in Hb. auto.
Qed.

Lemma merge_mutable_none {hashT} (r x : repo hashT) :
  merge_mutable r x = None -> ~ immutable_agree r x.
Proof.
  unfold merge_mutable, immutable_agree. intros H (Hid & Hn & Hb).
  rewrite Hid, N.eqb_refl, Hn, str_eqb_refl, Hb, branches_deep_eqb_refl in H. simpl in H.
  destruct (fold_left merge_rc_step _ _). discriminate.
Qed.

Lemma merge_mutable_unmutated {hashT} (r x : repo hashT) r' :
  merge_mutable r x = Some (false, r') -> mutable_agree r x.
Proof.
  unfold merge_mutable, mutable_agree, requested_rawconfig.
  destruct (negb (N.eqb (r_id r) (r_id x))); [discriminate|].
  destruct (negb (str_eqb (r_name r) (r_name x))); [discriminate|].
  destruct (negb (branches_deep_eqb (r_branches r) (r_branches x))); [discriminate|].
  destruct (fold_left merge_rc_step _ _) as [m0 rc] eqn:Hf.
  intros H. inversion H as [[Hm Hr]]. clear H Hr.
  apply orb_false_iff in Hm. destruct Hm as [Hm H4].
  apply orb_false_iff in Hm. destruct Hm as [Hm H3].
  apply orb_false_iff in Hm. destruct Hm as [Hm H2].
  apply orb_false_iff in Hm. destruct Hm as [Hm H1]. subst m0.
  apply merge_rc_fold_false in Hf. destruct Hf as (_ & _ & Hall).
  repeat split; auto using negb_str_eqb_false.
Qed.

Lemma merge_mutable_agree {hashT} (r x : repo hashT) :
  immutable_agree r x -> mutable_agree r x -> exists r', merge_mutable r x = Some (false, r').
Proof.
  unfold merge_mutable, immutable_agree, mutable_agree, requested_rawconfig.
  intros (Hid & Hn & Hb) (Hrc & H1 & H2 & H3 & H4).
  rewrite Hid, N.eqb_refl, Hn, str_eqb_refl, Hb, branches_deep_eqb_refl. simpl.
  rewrite (merge_rc_fold_covered _ _ Hrc).
  rewrite H1, H2, H3, H4, !str_eqb_refl. simpl. eexists. reflexivity.
Qed.

(** ---- IndexState *)
Section State.
  Variable hashT : Type.
  Variable heqb : hashT -> hashT -> bool.
  Hypothesis heqb_spec : forall a b, heqb a b = true <-> a = b.
  Variable rv : list (N * N).

  Definition found (repos : list (repo hashT)) (desc : repo hashT) : option (repo hashT) :=
    find (fun c => str_eqb (r_name c) (r_name desc)) (filter (fun c => negb (r_tombstone c)) repos).

  Lemma found_some repos desc r :
    found repos desc = Some r -> In r repos /\ r_tombstone r = false /\ r_name r = r_name desc.
  Proof.
    unfold found. intros H. apply find_some in H. destruct H as [Hin Hn].
    apply filter_In in Hin. destruct Hin as [Hin Ht].
    apply negb_true_iff in Ht. apply str_eqb_true in Hn. auto.
  Qed.

  (** Full characterisation of the states that do NOT re-index (equal: skip; meta: metadata rewritten in place). *)
  Lemma state_no_reindex_inv h d desc :
    let s := index_state_with hashT heqb rv h d desc in
    s = SEqual \/ s = SMeta ->
    exists fmt feat repos r,
      d = DShard fmt feat repos /\ version_mismatch rv fmt feat = false /\ found repos desc = Some r /\
      r_hash r = h /\ immutable_agree r desc /\
      (s = SEqual -> mutable_agree r desc).
  Proof.
    intros s. subst s. unfold index_state_with.
    destruct d as [| | |fmt feat repos]; try (intros [H|H]; discriminate).
    destruct (version_mismatch rv fmt feat) eqn:Hv; [intros [H|H]; discriminate|].
    fold (found repos desc). destruct (found repos desc) as [r|] eqn:Hf; [|intros [H|H]; discriminate].
    destruct (heqb (r_hash r) h) eqn:Hh; simpl; [|intros [H|H]; discriminate].
    destruct (branches_deep_eqb (r_branches r) (r_branches desc)) eqn:Hb; simpl; [|intros [H|H]; discriminate].
    destruct (merge_mutable r desc) as [[m r']|] eqn:Hm; [|intros [H|H]; discriminate].
    intros _. exists fmt, feat, repos, r.
    split; [reflexivity|]. split; [exact Hv|]. split; [exact Hf|].
    split; [apply heqb_spec; exact Hh|]. split; [eapply merge_mutable_some; eauto|].
    destruct m; [discriminate|]. intros _. eapply merge_mutable_unmutated; eauto.
  Qed.

  (** Conversely: same hash + same identity/branches => never a re-index; skip exactly when nothing mutable differs. *)
  Lemma state_metadata_only h fmt feat repos desc r :
    version_mismatch rv fmt feat = false -> found repos desc = Some r ->
    r_hash r = h -> immutable_agree r desc ->
    let s := index_state_with hashT heqb rv h (DShard fmt feat repos) desc in
    (s = SEqual \/ s = SMeta) /\ (s = SEqual <-> mutable_agree r desc).
  Proof.
    intros Hv Hf Hh Himm. simpl. rewrite Hv. fold (found repos desc). rewrite Hf.
    assert (heqb (r_hash r) h = true) as -> by (apply heqb_spec; exact Hh). simpl.
    destruct Himm as (Hid & Hn & Hb). rewrite Hb, branches_deep_eqb_refl. simpl.
    destruct (merge_mutable r desc) as [[m r']|] eqn:Hm.
    - destruct m.
      + split; [right; reflexivity|]. split; [discriminate|]. intros Hag.
        destruct (merge_mutable_agree r desc) as [r'' Hr'']; [repeat split; assumption|exact Hag|]. congruence.
      + split; [left; reflexivity|]. split; [intros _; eapply merge_mutable_unmutated; eauto|reflexivity].
    - exfalso. eapply merge_mutable_none; eauto. repeat split; assumption.
  Qed.

  (** changed branches (names, versions, order, nil-ness) always re-index *)
  Lemma state_branches_changed h fmt feat repos desc r :
    found repos desc = Some r -> r_branches r <> r_branches desc ->
    let s := index_state_with hashT heqb rv h (DShard fmt feat repos) desc in
    s <> SEqual /\ s <> SMeta.
  Proof.
    intros Hf Hb s.
    assert (~ (s = SEqual \/ s = SMeta)) as Hn.
    { intros Hs. destruct (state_no_reindex_inv h _ desc Hs) as (f1 & f2 & rs & r1 & Hd & _ & Hf1 & _ & (_ & _ & Hbr) & _).
      inversion Hd. subst. rewrite Hf in Hf1. inversion Hf1. subst. contradiction. }
    split; intros E; apply Hn; auto.
  Qed.
End State.

(** ---- the hash *)
Lemma map_eq_pointwise {A B} (f g : A -> B) l : map f l = map g l -> forall x, In x l -> f x = g x.
Proof.
  induction l as [|a l IH]; simpl; intros H x Hin; [contradiction|].
  inversion H. destruct Hin as [->|Hin]; auto.
Qed.

Lemma forallb_existsb_incl (a b : list string) :
  forallb (fun f => existsb (String.eqb f) b) a = true -> incl a b.
Proof.
  intros H x Hx. rewrite forallb_forall in H. specialize (H _ Hx).
  apply existsb_exists in H. destruct H as (y & Hy & Heq). apply String.eqb_eq in Heq. subst. exact Hy.
Qed.

Lemma get_other (f g : string) v : f <> g -> get [(f, v)] g = None.
Proof. intros H. simpl. destruct (String.eqb f g) eqn:E; [apply String.eqb_eq in E; contradiction|reflexivity]. Qed.

Section Hash.
  Variable hashT : Type.
  Variable heqb : hashT -> hashT -> bool.
  Hypothesis heqb_spec : forall a b, heqb a b = true <-> a = b.
  Variable H : list (option val) -> hashT.
  Hypothesis H_inj : forall a b, H a = H b -> a = b.
  Variable rv : list (N * N).
  Variables (normed : list string) (defaults : list (string * Z)) (hashed : list string).

  Notation get_hash := (get_hash hashT H normed defaults hashed).
  Notation eff o f := (option_map (norm normed defaults f) (get o f)).

  Lemma get_hash_eq_fields o1 o2 :
    get_hash o1 = get_hash o2 -> forall f, In f hashed -> eff o1 f = eff o2 f.
  Proof.
    unfold Incremental.get_hash, hash_input. intros E. apply H_inj in E.
    intros f Hf. exact (map_eq_pointwise _ _ _ E f Hf).
  Qed.

  (** [built_with repos desc o1]: every live record of the requested name in the shard was written by a build
      whose options were [o1] *)
  Definition built_with (repos : list (repo hashT)) (desc : repo hashT) (o1 : opts) : Prop :=
    forall r, In r repos -> r_name r = r_name desc -> r_hash r = get_hash o1.

  Theorem no_reindex_sound o1 o2 fmt feat repos desc :
    built_with repos desc o1 ->
    let s := index_state_with hashT heqb rv (get_hash o2) (DShard fmt feat repos) desc in
    s = SEqual \/ s = SMeta ->
    forall f, In f hashed -> eff o1 f = eff o2 f.
  Proof.
    intros Hb s Hs.
    destruct (state_no_reindex_inv hashT heqb heqb_spec rv _ _ _ Hs)
      as (f1 & f2 & rs & r & Hd & _ & Hf & Hh & _ & _).
    inversion Hd. subst rs f1 f2. destruct (found_some _ _ _ _ Hf) as (Hin & _ & Hn).
    rewrite (Hb r Hin Hn) in Hh. apply get_hash_eq_fields. exact Hh.
  Qed.

  Theorem hashed_change_reindexes o1 o2 fmt feat repos desc f :
    built_with repos desc o1 -> In f hashed -> eff o1 f <> eff o2 f ->
    let s := index_state_with hashT heqb rv (get_hash o2) (DShard fmt feat repos) desc in
    s <> SEqual /\ s <> SMeta.
  Proof.
    intros Hb Hf Hne s.
    assert (~ (s = SEqual \/ s = SMeta)) as Hn.
    { intros Hs. apply Hne. eapply no_reindex_sound; eauto. }
    split; intros E; apply Hn; auto.
  Qed.

  (** Necessity: a field outside [hashed] can differ arbitrarily while the state is "equal". *)
  Definition witness_desc : repo hashT :=
    mkRepo 1%N [114; 101; 112; 111]%N (Some [([72; 69; 65; 68]%N, [118; 49]%N)]) None [] [] [] [] (H []) false.

  Theorem unhashed_field_not_protected f v1 v2 fmt feat :
    ~ In f hashed -> v1 <> v2 -> version_mismatch rv fmt feat = false ->
    exists o1 o2 desc,
      get o1 f = Some v1 /\ get o2 f = Some v2 /\
      index_state_with hashT heqb rv (get_hash o2) (build_disk hashT H normed defaults hashed fmt feat o1 desc) desc = SEqual.
  Proof.
    intros Hnin Hne Hv. exists [(f, v1)], [(f, v2)], witness_desc.
    split; [simpl; rewrite String.eqb_refl; reflexivity|].
    split; [simpl; rewrite String.eqb_refl; reflexivity|].
    assert (get_hash [(f, v1)] = get_hash [(f, v2)]) as Hh.
    { unfold Incremental.get_hash, hash_input. f_equal. apply map_ext_in. intros g Hg.
      assert (f <> g) by (intros ->; contradiction). rewrite !get_other by assumption. reflexivity. }
    unfold build_disk. cbn [index_state_with]. rewrite Hv.
    cbn [filter build_record r_tombstone negb find r_name witness_desc]. rewrite str_eqb_refl.
    unfold build_record at 1. cbn [r_hash].
    assert (heqb (get_hash [(f, v1)]) (get_hash [(f, v2)]) = true) as -> by (apply heqb_spec; exact Hh).
    reflexivity.
  Qed.
End Hash.

(** ---- a concrete instance of the abstract hash (non-vacuity of the hypotheses of Section Hash):
    hashT := the hashed tuple itself, H := identity (trivially injective), heqb from decidable equality. *)
Definition str_eq_dec : forall a b : str, {a = b} + {a <> b} := list_eq_dec N.eq_dec.
Definition val_eq_dec : forall a b : val, {a = b} + {a <> b}.
Proof.
  decide equality.
  - apply Z.eq_dec.
  - apply Bool.bool_dec.
  - apply str_eq_dec.
  - apply (list_eq_dec str_eq_dec).
  - apply list_eq_dec. decide equality; [apply N.eq_dec | apply str_eq_dec].
Defined.
Definition oval_eq_dec : forall a b : option val, {a = b} + {a <> b}.
Proof. decide equality. apply val_eq_dec. Defined.
Definition id_hash_eqb (a b : list (option val)) : bool := if list_eq_dec oval_eq_dec a b then true else false.
Lemma id_hash_eqb_spec a b : id_hash_eqb a b = true <-> a = b.
Proof. unfold id_hash_eqb. destruct (list_eq_dec oval_eq_dec a b); split; intros; auto; discriminate. Qed.
