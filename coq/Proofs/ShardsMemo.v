(** C18 — when may evaluated type:repo children be shared inside one request?  [expand_memo] (Model/Shards.v) is
    typeRepoSearcher.eval with a memo keyed by [key child].  It has the meaning of the unmemoised [expand] (what the tree
    does: every atom lists ITS OWN child) whenever equal keys imply equal meaning of the children; with a key that forgets
    the members of a repository set (as query.Q.String() does: `count:N`, `size=N`) it does not. *)
From ZV Require Import Lib.Base Model.Shards Proofs.Shards.
From Coq Require Import List Bool NArith Lia.
Import ListNotations.

Definition sem_eq (a b : Q) : Prop := forall r d, eval no_tr a r d = eval no_tr b r d.

Lemma sharded_list_sem : forall shards c1 c2, sem_eq c1 c2 -> sharded_list shards [c1] = sharded_list shards [c2].
Proof.
  intros shards c1 c2 H. rewrite !list_sound. unfold union_list. f_equal.
  apply flat_map_ext. intros s. apply list_shard_eq. intros rd d _ _. unfold eval_top. cbn. now rewrite H.
Qed.

Lemma tr_set_sem : forall shards c1 c2, sem_eq c1 c2 -> tr_set shards c1 = tr_set shards c2.
Proof. intros shards c1 c2 H. unfold tr_set. now rewrite (sharded_list_sem shards c1 c2 H). Qed.

Lemma expand_typerepo : forall shards c, expand shards (QTypeRepo c) = tr_set shards (expand shards c).
Proof. reflexivity. Qed.

Section MemoSound.
  Context {K : Type} (keqb : K -> K -> bool) (key : Q -> K).
  Hypothesis keqb_eq : forall a b, keqb a b = true -> a = b.
  (** the side condition: children with the same key have the same meaning (e.g. an injective key) *)
  Hypothesis key_sound : forall c1 c2, key c1 = key c2 -> sem_eq c1 c2.
  Variable shards : list shard.

  Definition memo_inv (m : list (K * Q)) : Prop :=
    forall k rs, memo_find keqb k m = Some rs -> exists c, key c = k /\ rs = tr_set shards c.

  Lemma memo_inv_nil : memo_inv [].
  Proof. intros k rs H. discriminate. Qed.

  Lemma memo_inv_cons : forall m c, memo_inv m -> memo_inv ((key c, tr_set shards c) :: m).
  Proof.
    intros m c Hm k rs H. cbn in H. destruct (keqb k (key c)) eqn:Ek.
    - injection H as <-. exists c. split; [symmetry; now apply keqb_eq | reflexivity].
    - now apply Hm.
  Qed.

  Lemma expand_memo_sound : forall q m, memo_inv m ->
    memo_inv (snd (expand_memo keqb key shards q m)) /\ sem_eq (fst (expand_memo keqb key shards q m)) (expand shards q).
  Proof.
    induction q as [b|p|l|b|p|a IHa b IHb|a IHa b IHb|a IHa|c IHc]; intros m Hm;
      try (cbn; split; [exact Hm | intros r d; reflexivity]).
    - cbn [expand_memo expand]. destruct (expand_memo keqb key shards a m) as [a' m1] eqn:Ea.
      destruct (IHa m Hm) as [H1 S1]. rewrite Ea in H1, S1. cbn [fst snd] in H1, S1.
      destruct (expand_memo keqb key shards b m1) as [b' m2] eqn:Eb.
      destruct (IHb m1 H1) as [H2 S2]. rewrite Eb in H2, S2. cbn [fst snd] in H2, S2.
      cbn [fst snd]. split; [exact H2|]. intros r d. cbn. now rewrite S1, S2.
    - cbn [expand_memo expand]. destruct (expand_memo keqb key shards a m) as [a' m1] eqn:Ea.
      destruct (IHa m Hm) as [H1 S1]. rewrite Ea in H1, S1. cbn [fst snd] in H1, S1.
      destruct (expand_memo keqb key shards b m1) as [b' m2] eqn:Eb.
      destruct (IHb m1 H1) as [H2 S2]. rewrite Eb in H2, S2. cbn [fst snd] in H2, S2.
      cbn [fst snd]. split; [exact H2|]. intros r d. cbn. now rewrite S1, S2.
    - cbn [expand_memo expand]. destruct (expand_memo keqb key shards a m) as [a' m1] eqn:Ea.
      destruct (IHa m Hm) as [H1 S1]. rewrite Ea in H1, S1. cbn [fst snd] in H1, S1.
      cbn [fst snd]. split; [exact H1|]. intros r d. cbn. now rewrite S1.
    - rewrite expand_typerepo. cbn [expand_memo].
      destruct (expand_memo keqb key shards c m) as [c' m1] eqn:Ec.
      destruct (IHc m Hm) as [H1 S1]. rewrite Ec in H1, S1. cbn [fst snd] in H1, S1.
      destruct (memo_find keqb (key c') m1) as [rs|] eqn:Ef; cbn [fst snd].
      + split; [exact H1|]. destruct (H1 _ _ Ef) as (c'' & Hk & ->).
        rewrite (tr_set_sem shards c'' c' (key_sound _ _ Hk)).
        rewrite (tr_set_sem shards c' (expand shards c) S1). intros r d; reflexivity.
      + split; [now apply memo_inv_cons|].
        rewrite (tr_set_sem shards c' (expand shards c) S1). intros r d; reflexivity.
  Qed.

  (** sharing evaluated children under such a key has the reference meaning of type:repo, at every nesting depth *)
  Theorem typerepo_memo_sound : forall q r d,
    eval no_tr (fst (expand_memo keqb key shards q [])) r d = eval (tr_ref (depth q) shards) q r d.
  Proof.
    intros q r d. destruct (expand_memo_sound q [] memo_inv_nil) as [_ S]. rewrite S.
    symmetry. apply typerepo_equiv. apply le_n.
  Qed.

  Theorem typerepo_memo_search : forall q,
    sharded_search shards [fst (expand_memo keqb key shards q [])] = sharded_search shards [expand shards q].
  Proof.
    intros q. destruct (expand_memo_sound q [] memo_inv_nil) as [_ S]. rewrite !select_sound. unfold union_search.
    apply flat_map_ext. intros s. apply search_shard_eq. intros rd d _ _. unfold eval_top. cbn. now rewrite S.
  Qed.
End MemoSound.

(** a key that only keeps the shape of the child (kind of the atoms, number of entries) — like query.Q.String(), which prints
    `count:N` / `size=N` for repository sets — is not such a key: the second atom is answered with the first one's set *)
Fixpoint shape_key (q : Q) : N :=
  match q with
  | QConst b => if b then 1 else 2
  | QRepoPred _ => 3
  | QBranchesRepos l => 4 + N.of_nat (length l)
  | QBranchExact b => 100 + b
  | QOther _ => 5
  | QAnd2 a b => 1000 + 31 * shape_key a + shape_key b
  | QOr2 a b => 2000 + 31 * shape_key a + shape_key b
  | QNot a => 3000 + shape_key a
  | QTypeRepo c => 4000 + shape_key c
  end%N.

Definition memo_ex_repo (n i : N) : repo := {| r_name := n; r_id := i; r_branches := [HEAD]; r_meta := 0 |}.
Definition memo_ex_shards : list shard :=
  [ {| sh_known := true; sh_parts := [ (memo_ex_repo 10 7, [ {| d_id := 100; d_branches := [HEAD] |} ]) ] |};
    {| sh_known := true; sh_parts := [ (memo_ex_repo 11 8, [ {| d_id := 110; d_branches := [HEAD] |} ]);
                                       (memo_ex_repo 12 9, [ {| d_id := 120; d_branches := [HEAD] |} ]) ] |} ].
(** (or type:repo(repoids 7) type:repo(repoids 8)): both children have the shape "one repository-id set" *)
Definition memo_ex_q : Q :=
  QOr2 (QTypeRepo (QRepoPred (fun r => N.eqb (r_id r) 7))) (QTypeRepo (QRepoPred (fun r => N.eqb (r_id r) 8))).

Lemma typerepo_memo_shape_key_unsound :
  sharded_search memo_ex_shards [expand memo_ex_shards memo_ex_q] = [100; 110]%N /\
  sharded_search memo_ex_shards [fst (expand_memo N.eqb shape_key memo_ex_shards memo_ex_q [])] = [100]%N.
Proof. vm_compute. split; reflexivity. Qed.
