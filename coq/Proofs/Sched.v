(** Proofs about Model/Sched.v: an inductive invariant of the scheduler transition system, for any
    capacities, any number of processes and every event list. *)
From ZV Require Import Lib.Base Model.Sched.

(** ---- list lemmas *)
Lemma count_app {A} (f : A -> bool) (l1 l2 : list A) : count f (l1 ++ l2) = count f l1 + count f l2.
Proof. induction l1 as [|x l1 IH]; simpl; [reflexivity|]. rewrite IH. lia. Qed.

Lemma count_upd {A} (f : A -> bool) (l : list A) (p : nat) (q q' : A) :
  nth_error l p = Some q ->
  count f (upd p q' l) + (if f q then 1 else 0) = count f l + (if f q' then 1 else 0).
Proof.
  revert p. induction l as [|x l IH]; intros p Hn.
  - destruct p; discriminate.
  - destruct p as [|p]; simpl in *.
    + inversion Hn; subst. lia.
    + specialize (IH p Hn). lia.
Qed.

Lemma count_pos {A} (f : A -> bool) (l : list A) (p : nat) (q : A) :
  nth_error l p = Some q -> f q = true -> 1 <= count f l.
Proof.
  revert p. induction l as [|x l IH]; intros p Hn Hf.
  - destruct p; discriminate.
  - destruct p as [|p]; simpl in *.
    + inversion Hn; subst. rewrite Hf. lia.
    + specialize (IH p Hn Hf). lia.
Qed.

Lemma count_zero_all {A} (f g : A -> bool) (l : list A) :
  (forall x, In x l -> g x = true) -> (forall x, g x = true -> f x = false) -> count f l = 0.
Proof.
  intros Hg Hfg. induction l as [|x l IH]; simpl; [reflexivity|].
  rewrite (Hfg x (Hg x (or_introl eq_refl))). rewrite IH; [reflexivity|].
  intros y Hy. apply Hg. right. exact Hy.
Qed.

Lemma Forall_upd {A} (P : A -> Prop) (l : list A) (p : nat) (x : A) :
  Forall P l -> P x -> Forall P (upd p x l).
Proof.
  intros Hl Hx. revert p. induction Hl as [|y l Hy Hl IH]; intros p; simpl.
  - constructor.
  - destruct p; constructor; auto.
Qed.

Lemma nth_error_upd_same {A} (l : list A) (p : nat) (x q : A) :
  nth_error l p = Some q -> nth_error (upd p x l) p = Some x.
Proof.
  revert p. induction l as [|y l IH]; intros p Hn; destruct p; simpl in *; try discriminate; auto.
Qed.

Lemma nth_error_upd_other {A} (l : list A) (p p' : nat) (x : A) :
  p <> p' -> nth_error (upd p x l) p' = nth_error l p'.
Proof.
  revert p p'. induction l as [|y l IH]; intros p p' Hne; destruct p, p'; simpl; try reflexivity; try congruence.
  apply IH. congruence.
Qed.

Lemma upd_length {A} (l : list A) (p : nat) (x : A) : length (upd p x l) = length l.
Proof. revert p. induction l as [|y l IH]; intros p; destruct p; simpl; auto. Qed.

Lemma run_app (s : state) (a b : list event) :
  run s (a ++ b) = match run s a with Some s' => run s' b | None => None end.
Proof.
  revert s. induction a as [|e a IH]; intros s; simpl; [reflexivity|].
  destruct (step s e); [apply IH|reflexivity].
Qed.

(** ---- the invariant *)
Definition b2n (b : bool) : nat := if b then 1 else 0.

Record proc_ok (q : proc) : Prop := {
  ok_accI : p_acqI q = p_relI q + b2n (holds SI q);     (* grants = releases + currently held *)
  ok_accB : p_acqB q = p_relB q + b2n (holds SB q);
  ok_sem_run : p_sem q <> None -> p_pc q = PRun;        (* a slot is only held between API calls *)
  ok_errs : 0 < p_errs q -> p_ctx q = true;             (* an error was returned only after ctx was done *)
  ok_acqerr : p_pc q = PAcqErr -> 0 < p_errs q;
  ok_batch_tnil : p_sem q = Some SB -> p_tnil q = true;
  ok_onceI : p_acqI q <= 1;
  ok_onceB : p_acqB q <= b2n (p_tnil q);
  ok_idle : (p_pc q = PIdle \/ p_pc q = PAcq \/ p_pc q = PAcqErr) -> p_acqI q = 0 /\ p_tnil q = false
}.

Record Inv (s : state) : Prop := {
  inv_nopanic : panicked s = false;
  inv_cntI : curI s = holders SI s;
  inv_cntB : curB s = holders SB s;
  inv_capI : curI s <= capI s;
  inv_capB : curB s <= capB s;
  inv_procs : Forall proc_ok (procs s)
}.

Lemma idle_ok : proc_ok idle_proc.
Proof. constructor; simpl; try lia; try congruence; auto. intros [H|[H|H]]; auto. Qed.

Lemma inv_init ci cb : Inv (init ci cb).
Proof. constructor; simpl; try reflexivity; try lia. constructor. Qed.

Lemma Forall_nth {A} (P : A -> Prop) (l : list A) (p : nat) (q : A) :
  Forall P l -> nth_error l p = Some q -> P q.
Proof. intros H Hn. rewrite Forall_forall in H. apply H. eapply nth_error_In; eauto. Qed.

Ltac holds_simpl :=
  unfold holders, holds, b2n in *; simpl in *.

(** effect of drop_sem on a state satisfying the invariant *)
Lemma drop_sem_spec (s : state) (p : nat) (q : proc) :
  Inv s -> nth_error (procs s) p = Some q ->
  let '(s1, q1) := drop_sem s q in
  panicked s1 = false /\ procs s1 = procs s /\ capI s1 = capI s /\ capB s1 = capB s /\
  p_sem q1 = None /\ p_pc q1 = p_pc q /\ p_tnil q1 = p_tnil q /\ p_fired q1 = p_fired q /\ p_ctx q1 = p_ctx q /\
  p_errs q1 = p_errs q /\ p_acqI q1 = p_acqI q /\ p_acqB q1 = p_acqB q /\
  p_relI q1 = p_relI q + b2n (holds SI q) /\ p_relB q1 = p_relB q + b2n (holds SB q) /\
  curI s1 + b2n (holds SI q) = curI s /\ curB s1 + b2n (holds SB q) = curB s.
Proof.
  intros HI Hn. unfold drop_sem.
  destruct (p_sem q) as [[|]|] eqn:Hs.
  - assert (Hpos : 1 <= curI s).
    { rewrite (inv_cntI s HI). eapply count_pos; eauto. unfold holds. rewrite Hs. reflexivity. }
    unfold sem_release. destruct (curI s) as [|k] eqn:Hc; [lia|].
    unfold holds, b2n. rewrite Hs. simpl. rewrite (inv_nopanic s HI). repeat split; try lia; auto.
  - assert (Hpos : 1 <= curB s).
    { rewrite (inv_cntB s HI). eapply count_pos; eauto. unfold holds. rewrite Hs. reflexivity. }
    unfold sem_release. destruct (curB s) as [|k] eqn:Hc; [lia|].
    unfold holds, b2n. rewrite Hs. simpl. rewrite (inv_nopanic s HI). repeat split; try lia; auto.
  - unfold holds, b2n. rewrite Hs. simpl. rewrite (inv_nopanic s HI). repeat split; try lia; auto.
Qed.

(** rebuilding the invariant after replacing process p *)
Lemma inv_replace (s s' : state) (p : nat) (q q' : proc) :
  Inv s -> nth_error (procs s) p = Some q ->
  procs s' = upd p q' (procs s) -> panicked s' = false -> capI s' = capI s -> capB s' = capB s ->
  curI s' + b2n (holds SI q) = curI s + b2n (holds SI q') ->
  curB s' + b2n (holds SB q) = curB s + b2n (holds SB q') ->
  curI s' <= capI s -> curB s' <= capB s ->
  proc_ok q' -> Inv s'.
Proof.
  intros HI Hn Hp Hpan HcI HcB HI' HB' HleI HleB Hok.
  pose proof (count_upd (holds SI) (procs s) p q q' Hn) as CI.
  pose proof (count_upd (holds SB) (procs s) p q q' Hn) as CB.
  pose proof (inv_cntI s HI) as EI. pose proof (inv_cntB s HI) as EB.
  unfold holders in *. unfold b2n in *.
  constructor; try assumption; unfold holders; try rewrite Hp; try lia.
  apply Forall_upd; [apply (inv_procs s HI)|exact Hok].
Qed.

Lemma step_inv (s s' : state) (e : event) : Inv s -> step s e = Some s' -> Inv s'.
Proof.
  intros HI Hst. unfold step in Hst. rewrite (inv_nopanic s HI) in Hst.
  pose proof (inv_capI s HI) as LI. pose proof (inv_capB s HI) as LB.
  destruct e as [|p|p|p|p|p|p|p].
  - (* ENew *)
    inversion Hst; subst s'; clear Hst.
    destruct HI as [H1 H2 H3 H4 H5 H6].
    constructor; simpl; auto; unfold holders in *; simpl.
    + rewrite count_app. simpl. lia.
    + rewrite count_app. simpl. lia.
    + apply Forall_app. split; [assumption|]. constructor; [apply idle_ok|constructor].
  - (* ECancel *)
    destruct (nth_error (procs s) p) as [q|] eqn:Hn; [|discriminate].
    inversion Hst; subst s'; clear Hst.
    pose proof (Forall_nth _ _ _ _ (inv_procs s HI) Hn) as [A1 A2 A3 A4 A5 A6 A7 A8 A9].
    eapply inv_replace; eauto; simpl; try (apply (inv_nopanic s HI)); try (unfold holds; simpl; lia).
    constructor; simpl; auto.
  - (* EFire *)
    destruct (nth_error (procs s) p) as [q|] eqn:Hn; [|discriminate].
    pose proof (Forall_nth _ _ _ _ (inv_procs s HI) Hn) as [A1 A2 A3 A4 A5 A6 A7 A8 A9].
    destruct (p_pc q) eqn:Hpc; try discriminate; inversion Hst; subst s'; clear Hst;
      (eapply inv_replace; eauto; simpl; try (apply (inv_nopanic s HI)); try (unfold holds; simpl; lia);
       constructor; simpl; auto; try (rewrite Hpc; intuition congruence)).
  - (* EAcquire *)
    destruct (nth_error (procs s) p) as [q|] eqn:Hn; [|discriminate].
    pose proof (Forall_nth _ _ _ _ (inv_procs s HI) Hn) as [A1 A2 A3 A4 A5 A6 A7 A8 A9].
    destruct (p_pc q) eqn:Hpc; try discriminate; inversion Hst; subst s'; clear Hst.
    eapply inv_replace; eauto; simpl; try (apply (inv_nopanic s HI)); try (unfold holds; simpl; lia).
    constructor; simpl; auto; try congruence.
    intros Hs. specialize (A3 Hs). congruence.
  - (* EGrant *)
    destruct (nth_error (procs s) p) as [q|] eqn:Hn; [|discriminate].
    pose proof (Forall_nth _ _ _ _ (inv_procs s HI) Hn) as [A1 A2 A3 A4 A5 A6 A7 A8 A9].
    assert (Hnone : p_pc q <> PRun -> p_sem q = None).
    { intros Hne. destruct (p_sem q) eqn:Hs; [|reflexivity]. exfalso. apply Hne. apply A3. congruence. }
    destruct (p_pc q) eqn:Hpc; try discriminate.
    + (* PAcq *)
      destruct (curI s <? capI s) eqn:Hlt; [|discriminate]. apply Nat.ltb_lt in Hlt.
      inversion Hst; subst s'; clear Hst.
      assert (Hs : p_sem q = None) by (apply Hnone; congruence).
      destruct A9 as [Z1 Z2]; [auto|].
      eapply inv_replace; eauto; simpl; try (apply (inv_nopanic s HI));
        try (unfold holds, b2n; rewrite Hs; simpl; lia).
      constructor; simpl; auto; try congruence; try (unfold holds, b2n in *; rewrite Hs in *; simpl in *; lia).
      intros [H|[H|H]]; discriminate.
    + (* PYield *)
      destruct (curB s <? capB s) eqn:Hlt; [|discriminate]. apply Nat.ltb_lt in Hlt.
      inversion Hst; subst s'; clear Hst.
      assert (Hs : p_sem q = None) by (apply Hnone; congruence).
      eapply inv_replace; eauto; simpl; try (apply (inv_nopanic s HI));
        try (unfold holds, b2n; rewrite Hs; simpl; lia).
      assert (Hb0 : p_acqB q = 0 \/ p_tnil q = true).
      { destruct (p_tnil q); [right; reflexivity|left]. simpl in A8. lia. }
      constructor; simpl; auto; try congruence; try (unfold holds, b2n in *; rewrite Hs in *; simpl in *; lia).
      * (* acqB <= 1: a process blocked in yieldFunc has a non-nil timer *)
        unfold holds, b2n in *. rewrite Hs in *. simpl in *.
        destruct (p_tnil q) eqn:Ht; simpl in *; lia.
      * intros [H|[H|H]]; discriminate.
  - (* EFail *)
    destruct (nth_error (procs s) p) as [q|] eqn:Hn; [|discriminate].
    pose proof (Forall_nth _ _ _ _ (inv_procs s HI) Hn) as [A1 A2 A3 A4 A5 A6 A7 A8 A9].
    destruct (p_ctx q) eqn:Hctx; [|discriminate].
    assert (Hnone : p_pc q <> PRun -> p_sem q = None).
    { intros Hne. destruct (p_sem q) eqn:Hs; [|reflexivity]. exfalso. apply Hne. apply A3. congruence. }
    destruct (p_pc q) eqn:Hpc; try discriminate; inversion Hst; subst s'; clear Hst;
      (assert (Hs : p_sem q = None) by (apply Hnone; congruence));
      (eapply inv_replace; eauto; simpl; try (apply (inv_nopanic s HI)); try (unfold holds; simpl; lia);
       constructor; simpl; auto; try congruence; try lia).
    + intros _. apply A9. auto.
    + intros [H|[H|H]]; discriminate.
  - (* EYield *)
    destruct (nth_error (procs s) p) as [q|] eqn:Hn; [|discriminate].
    pose proof (Forall_nth _ _ _ _ (inv_procs s HI) Hn) as [A1 A2 A3 A4 A5 A6 A7 A8 A9].
    destruct (p_pc q) eqn:Hpc; try discriminate.
    destruct (p_tnil q || negb (p_fired q)) eqn:Hnoop.
    + inversion Hst; subst s'. exact HI.
    + apply Bool.orb_false_iff in Hnoop. destruct Hnoop as [Htn Hfi].
      pose proof (drop_sem_spec s p q HI Hn) as D.
      destruct (drop_sem s q) as [s1 q1].
      destruct D as (D1 & D2 & D3 & D4 & D5 & D6 & D7 & D8 & D9 & D10 & D11 & D12 & D13 & D14 & D15 & D16).
      inversion Hst; subst s'; clear Hst.
      eapply inv_replace with (q' := with_pc q1 PYield); eauto; simpl; try rewrite D2; try reflexivity; try lia;
        try (unfold holds, b2n in *; simpl; rewrite D5; simpl; lia).
      unfold with_pc. constructor; simpl; try rewrite D5; auto; try congruence;
        try (unfold holds, b2n in *; simpl; rewrite ?D5; simpl; lia).
      * rewrite D10, D9. exact A4.
      * intros HH. rewrite Htn in A6. destruct (p_sem q) as [[|]|]; try discriminate.
      * rewrite D11. exact A7.
      * rewrite D12, D7. exact A8.
      * intros [H|[H|H]]; discriminate.
  - (* ERelease *)
    destruct (nth_error (procs s) p) as [q|] eqn:Hn; [|discriminate].
    pose proof (Forall_nth _ _ _ _ (inv_procs s HI) Hn) as [A1 A2 A3 A4 A5 A6 A7 A8 A9].
    destruct (p_pc q) eqn:Hpc; try discriminate.
    pose proof (drop_sem_spec s p q HI Hn) as D.
    destruct (drop_sem s q) as [s1 q1].
    destruct D as (D1 & D2 & D3 & D4 & D5 & D6 & D7 & D8 & D9 & D10 & D11 & D12 & D13 & D14 & D15 & D16).
    inversion Hst; subst s'; clear Hst.
    eapply inv_replace with (q' := with_pc q1 PEnd); eauto; simpl; try rewrite D2; try reflexivity; try lia;
      try (unfold holds, b2n in *; simpl; rewrite D5; simpl; lia).
    unfold with_pc. constructor; simpl; try rewrite D5; auto; try congruence;
      try (unfold holds, b2n in *; simpl; rewrite ?D5; simpl; lia).
    * rewrite D10, D9. exact A4.
    * rewrite D11. exact A7.
    * rewrite D12, D7. exact A8.
    * intros [H|[H|H]]; discriminate.
Qed.

Lemma run_inv (s s' : state) (es : list event) : Inv s -> run s es = Some s' -> Inv s'.
Proof.
  revert s. induction es as [|e es IH]; intros s HI Hr; simpl in Hr.
  - inversion Hr; subst. exact HI.
  - destruct (step s e) as [s1|] eqn:Hst; [|discriminate].
    eapply IH; [eapply step_inv; eauto|exact Hr].
Qed.

Theorem reachable_inv (ci cb : nat) (es : list event) (s : state) :
  run (init ci cb) es = Some s -> Inv s.
Proof. apply run_inv. apply inv_init. Qed.

(** capacities never change *)
Lemma step_caps (s s' : state) (e : event) : step s e = Some s' -> capI s' = capI s /\ capB s' = capB s.
Proof.
  unfold step. destruct (panicked s); [discriminate|].
  destruct e as [|p|p|p|p|p|p|p]; try (destruct (nth_error (procs s) p) as [q|]; [|discriminate]).
  - intros H; inversion H; subst; simpl; auto.
  - intros H; inversion H; subst; simpl; auto.
  - destruct (p_pc q); try discriminate; intros H; inversion H; subst; simpl; auto.
  - destruct (p_pc q); try discriminate; intros H; inversion H; subst; simpl; auto.
  - destruct (p_pc q); try discriminate.
    + destruct (curI s <? capI s); [|discriminate]. intros H; inversion H; subst; simpl; auto.
    + destruct (curB s <? capB s); [|discriminate]. intros H; inversion H; subst; simpl; auto.
  - destruct (p_ctx q); [|discriminate]. destruct (p_pc q); try discriminate; intros H; inversion H; subst; simpl; auto.
  - destruct (p_pc q); try discriminate. destruct (p_tnil q || negb (p_fired q)).
    + intros H; inversion H; subst; auto.
    + unfold drop_sem. destruct (p_sem q) as [[|]|]; unfold sem_release;
        try destruct (curI s); try destruct (curB s); intros H; inversion H; subst; simpl; auto.
  - destruct (p_pc q); try discriminate.
    unfold drop_sem. destruct (p_sem q) as [[|]|]; unfold sem_release;
      try destruct (curI s); try destruct (curB s); intros H; inversion H; subst; simpl; auto.
Qed.

Lemma run_caps (s s' : state) (es : list event) : run s es = Some s' -> capI s' = capI s /\ capB s' = capB s.
Proof.
  revert s. induction es as [|e es IH]; intros s Hr; simpl in Hr.
  - inversion Hr; subst; auto.
  - destruct (step s e) as [s1|] eqn:Hst; [|discriminate].
    destruct (step_caps _ _ _ Hst) as [E1 E2]. destruct (IH _ Hr) as [E3 E4]. split; congruence.
Qed.

(** ---- the property theorems *)
Lemma bounded (ci cb : nat) (es : list event) (s : state) :
  run (init ci cb) es = Some s -> holders SI s <= ci /\ holders SB s <= cb.
Proof.
  intros Hr. pose proof (reachable_inv _ _ _ _ Hr) as HI. destruct (run_caps _ _ _ Hr) as [E1 E2]. simpl in E1, E2.
  rewrite <- (inv_cntI s HI), <- (inv_cntB s HI).
  pose proof (inv_capI s HI). pose proof (inv_capB s HI). lia.
Qed.

Lemma counter_is_holders (ci cb : nat) (es : list event) (s : state) :
  run (init ci cb) es = Some s -> curI s = holders SI s /\ curB s = holders SB s.
Proof. intros Hr. pose proof (reachable_inv _ _ _ _ Hr) as HI. split; [apply (inv_cntI s HI)|apply (inv_cntB s HI)]. Qed.

Lemma never_over_released (ci cb : nat) (es : list event) (s : state) :
  run (init ci cb) es = Some s -> panicked s = false.
Proof. intros Hr. apply (inv_nopanic s (reachable_inv _ _ _ _ Hr)). Qed.

Lemma release_exactly_once (ci cb : nat) (es : list event) (s : state) (p : nat) (q : proc) :
  run (init ci cb) es = Some s -> nth_error (procs s) p = Some q ->
  p_acqI q = p_relI q + b2n (holds SI q) /\ p_acqB q = p_relB q + b2n (holds SB q) /\
  p_acqI q <= 1 /\ p_acqB q <= 1 /\
  (p_pc q <> PRun -> p_acqI q = p_relI q /\ p_acqB q = p_relB q).
Proof.
  intros Hr Hn. pose proof (reachable_inv _ _ _ _ Hr) as HI.
  pose proof (Forall_nth _ _ _ _ (inv_procs s HI) Hn) as [A1 A2 A3 A4 A5 A6 A7 A8 A9].
  repeat split; auto.
  - unfold b2n in A8. destruct (p_tnil q); lia.
  - destruct (p_sem q) eqn:Hs; [exfalso; apply H; apply A3; congruence|].
    unfold holds, b2n in A1. rewrite Hs in A1. lia.
  - destruct (p_sem q) eqn:Hs; [exfalso; apply H; apply A3; congruence|].
    unfold holds, b2n in A2. rewrite Hs in A2. lia.
Qed.

Lemma errors_only_if_ctx_done (ci cb : nat) (es : list event) (s : state) (p : nat) (q : proc) :
  run (init ci cb) es = Some s -> nth_error (procs s) p = Some q ->
  (0 < p_errs q -> p_ctx q = true) /\ (p_pc q = PAcqErr -> p_ctx q = true).
Proof.
  intros Hr Hn. pose proof (reachable_inv _ _ _ _ Hr) as HI.
  pose proof (Forall_nth _ _ _ _ (inv_procs s HI) Hn) as [A1 A2 A3 A4 A5 A6 A7 A8 A9].
  split; auto.
Qed.

Lemma no_leak (ci cb : nat) (es : list event) (s : state) :
  run (init ci cb) es = Some s -> (forall q, In q (procs s) -> quiet q = true) ->
  curI s = 0 /\ curB s = 0.
Proof.
  intros Hr Hq. pose proof (reachable_inv _ _ _ _ Hr) as HI.
  rewrite (inv_cntI s HI), (inv_cntB s HI). unfold holders.
  assert (Hx : forall i x, In x (procs s) -> quiet x = true -> holds i x = false).
  { intros i x Hin Hqx. pose proof (inv_procs s HI) as HF. rewrite Forall_forall in HF.
    destruct (HF x Hin) as [A1 A2 A3 A4 A5 A6 A7 A8 A9].
    unfold holds. destruct (p_sem x) as [sm|] eqn:Hs; [|reflexivity].
    assert (p_pc x = PRun) by (apply A3; congruence). unfold quiet in Hqx. rewrite H in Hqx. discriminate. }
  split.
  - induction (procs s) as [|x l IH]; simpl; [reflexivity|].
    rewrite (Hx SI x (or_introl eq_refl) (Hq x (or_introl eq_refl))). simpl. apply IH.
    + intros q Hin. apply Hq. right. exact Hin.
    + intros i y Hin. apply Hx. right. exact Hin.
  - induction (procs s) as [|x l IH]; simpl; [reflexivity|].
    rewrite (Hx SB x (or_introl eq_refl) (Hq x (or_introl eq_refl))). simpl. apply IH.
    + intros q Hin. apply Hq. right. exact Hin.
    + intros i y Hin. apply Hx. right. exact Hin.
Qed.
