(** Proofs about Model/Sched.v: an inductive invariant of the scheduler transition system, for any
    capacities, any number of processes and every event list. *)
From ZV Require Import Lib.Base Model.Sched.

(** ---- list lemmas *)
Lemma count_app {A} (f : A -> bool) (l1 l2 : list A) : count f (l1 ++ l2) = count f l1 + count f l2.
Proof. induction l1 as [|x l1 IH]; simpl; [reflexivity|]. rewrite IH. lia. Qed.

Lemma count_upd {A} (f : A -> bool) (l : list A) (p : nat) (q q' : A) :
  nth_error l p = Some q ->
  count f (upd p q' l) + (if f q then 1 else 0) = count f l + (if f q' then 1 else 0).
Proof.
  revert p. induction l as [|x l IH]; intros p Hn.
  - destruct p; discriminate.
  - destruct p as [|p]; simpl in *.
    + inversion Hn; subst. lia.
    + specialize (IH p Hn). lia.
Qed.

Lemma count_pos {A} (f : A -> bool) (l : list A) (p : nat) (q : A) :
  nth_error l p = Some q -> f q = true -> 1 <= count f l.
Proof.
  revert p. induction l as [|x l IH]; intros p Hn Hf.
  - destruct p; discriminate.
  - destruct p as [|p]; simpl in *.
    + inversion Hn; subst. rewrite Hf. lia.
    + specialize (IH p Hn Hf). lia.
Qed.

Lemma count_zero_all {A} (f g : A -> bool) (l : list A) :
  (forall x, In x l -> g x = true) -> (forall x, g x = true -> f x = false) -> count f l = 0.
Proof.
  intros Hg Hfg. induction l as [|x l IH]; simpl; [reflexivity|].
  rewrite (Hfg x (Hg x (or_introl eq_refl))). rewrite IH; [reflexivity|].
  intros y Hy. apply Hg. right. exact Hy.
Qed.

Lemma Forall_upd {A} (P : A -> Prop) (l : list A) (p : nat) (x : A) :
  Forall P l -> P x -> Forall P (upd p x l).
Proof.
  intros Hl Hx. revert p. induction Hl as [|y l Hy Hl IH]; intros p; simpl.
  - constructor.
  - destruct p; constructor; auto.
Qed.

Lemma nth_error_upd_same {A} (l : list A) (p : nat) (x q : A) :
  nth_error l p = Some q -> nth_error (upd p x l) p = Some x.
Proof.
  revert p. induction l as [|y l IH]; intros p Hn; destruct p; simpl in *; try discriminate; auto.
Qed.

Lemma nth_error_upd_other {A} (l : list A) (p p' : nat) (x : A) :
  p <> p' -> nth_error (upd p x l) p' = nth_error l p'.
Proof.
  revert p p'. induction l as [|y l IH]; intros p p' Hne; destruct p, p'; simpl; try reflexivity; try congruence.
  apply IH. congruence.
Qed.

Lemma upd_length {A} (l : list A) (p : nat) (x : A) : length (upd p x l) = length l.
Proof. revert p. induction l as [|y l IH]; intros p; destruct p; simpl; auto. Qed.

Lemma run_app (s : state) (a b : list event) :
  run s (a ++ b) = match run s a with Some s' => run s' b | None => None end.
Proof.
  revert s. induction a as [|e a IH]; intros s; simpl; [reflexivity|].
  destruct (step s e); [apply IH|reflexivity].
Qed.

(** ---- the invariant *)
Definition b2n (b : bool) : nat := if b then 1 else 0.

Record proc_ok (q : proc) : Prop := {
  ok_accI : p_acqI q = p_relI q + b2n (holds SI q);     (* grants = releases + currently held *)
  ok_accB : p_acqB q = p_relB q + b2n (holds SB q);
  ok_sem_run : p_sem q <> None -> p_pc q = PRun;        (* a slot is only held between API calls *)
  ok_errs : 0 < p_errs q -> p_ctx q = true;             (* an error was returned only after ctx was done *)
  ok_acqerr : p_pc q = PAcqErr -> 0 < p_errs q;
  ok_batch_tnil : p_sem q = Some SB -> p_tnil q = true;
  ok_onceI : p_acqI q <= 1;
  ok_onceB : p_acqB q <= b2n (p_tnil q);
  ok_idle : (p_pc q = PIdle \/ p_pc q = PAcq \/ p_pc q = PAcqErr) -> p_acqI q = 0 /\ p_tnil q = false;
  ok_yield : p_pc q = PYield -> p_tnil q = false   (* blocked inside yieldFunc: no yield has completed before *)
}.

Record Inv (s : state) : Prop := {
  inv_nopanic : panicked s = false;
  inv_cntI : curI s = holders SI s;
  inv_cntB : curB s = holders SB s;
  inv_capI : curI s <= capI s;
  inv_capB : curB s <= capB s;
  inv_procs : Forall proc_ok (procs s)
}.

Lemma idle_ok : proc_ok idle_proc.
Proof. constructor; simpl; try lia; try congruence; auto. Qed.

Lemma inv_init ci cb : Inv (init ci cb).
Proof. constructor; simpl; try reflexivity; try lia. constructor. Qed.

Lemma Forall_nth {A} (P : A -> Prop) (l : list A) (p : nat) (q : A) :
  Forall P l -> nth_error l p = Some q -> P q.
Proof. intros H Hn. rewrite Forall_forall in H. apply H. eapply nth_error_In; eauto. Qed.

Ltac holds_simpl :=
  unfold holders, holds, b2n in *; simpl in *.

(** effect of drop_sem on a state satisfying the invariant *)
Lemma drop_sem_spec (s : state) (p : nat) (q : proc) :
  Inv s -> nth_error (procs s) p = Some q ->
  let '(s1, q1) := drop_sem s q in
  panicked s1 = false /\ procs s1 = procs s /\ capI s1 = capI s /\ capB s1 = capB s /\
  p_sem q1 = None /\ p_pc q1 = p_pc q /\ p_tnil q1 = p_tnil q /\ p_fired q1 = p_fired q /\ p_ctx q1 = p_ctx q /\
  p_errs q1 = p_errs q /\ p_acqI q1 = p_acqI q /\ p_acqB q1 = p_acqB q /\
  p_relI q1 = p_relI q + b2n (holds SI q) /\ p_relB q1 = p_relB q + b2n (holds SB q) /\
  curI s1 + b2n (holds SI q) = curI s /\ curB s1 + b2n (holds SB q) = curB s.
Proof.
  intros HI Hn. unfold drop_sem.
  destruct (p_sem q) as [[|]|] eqn:Hs.
  - assert (Hpos : 1 <= curI s).
    { rewrite (inv_cntI s HI). eapply count_pos; eauto. unfold holds. rewrite Hs. reflexivity. }
    unfold sem_release. destruct (curI s) as [|k] eqn:Hc; [lia|].
    unfold holds, b2n. rewrite Hs. simpl. rewrite (inv_nopanic s HI). repeat split; try lia; auto.
  - assert (Hpos : 1 <= curB s).
    { rewrite (inv_cntB s HI). eapply count_pos; eauto. unfold holds. rewrite Hs. reflexivity. }
    unfold sem_release. destruct (curB s) as [|k] eqn:Hc; [lia|].
    unfold holds, b2n. rewrite Hs. simpl. rewrite (inv_nopanic s HI). repeat split; try lia; auto.
  - unfold holds, b2n. rewrite Hs. simpl. rewrite (inv_nopanic s HI). repeat split; try lia; auto.
Qed.

(** rebuilding the invariant after replacing process p *)
Lemma inv_replace (s s' : state) (p : nat) (q q' : proc) :
  Inv s -> nth_error (procs s) p = Some q ->
  procs s' = upd p q' (procs s) -> panicked s' = false -> capI s' = capI s -> capB s' = capB s ->
  curI s' + b2n (holds SI q) = curI s + b2n (holds SI q') ->
  curB s' + b2n (holds SB q) = curB s + b2n (holds SB q') ->
  curI s' <= capI s -> curB s' <= capB s ->
  proc_ok q' -> Inv s'.
Proof.
  intros HI Hn Hp Hpan HcI HcB HI' HB' HleI HleB Hok.
  pose proof (count_upd (holds SI) (procs s) p q q' Hn) as CI.
  pose proof (count_upd (holds SB) (procs s) p q q' Hn) as CB.
  pose proof (inv_cntI s HI) as EI. pose proof (inv_cntB s HI) as EB.
  unfold holders in *. unfold b2n in *.
  constructor; try assumption; unfold holders; try rewrite Hp; try lia.
  apply Forall_upd; [apply (inv_procs s HI)|exact Hok].
Qed.

Ltac repl HI Hn :=
  eapply inv_replace;
  [ exact HI | exact Hn | simpl; reflexivity | simpl; try apply (inv_nopanic _ HI) | simpl; reflexivity | simpl; reflexivity | .. ].
Ltac num := unfold holds, b2n in *; simpl in *; lia.
Ltac numS Hs := unfold holds, b2n in *; simpl in *; rewrite ?Hs in *; simpl in *; lia.

Lemma sem_none_unless_run (q : proc) : proc_ok q -> p_pc q <> PRun -> p_sem q = None.
Proof.
  intros [A1 A2 A3 A4 A5 A6 A7 A8 A9 A10] Hne.
  destruct (p_sem q) eqn:Hs; [|reflexivity]. exfalso. apply Hne. apply A3. congruence.
Qed.

Lemma step_inv (s s' : state) (e : event) : Inv s -> step s e = Some s' -> Inv s'.
Proof.
  intros HI Hst. unfold step in Hst. rewrite (inv_nopanic s HI) in Hst.
  pose proof (inv_capI s HI) as LI. pose proof (inv_capB s HI) as LB.
  destruct e as [|p|p|p|p|p|p|p].
  - (* ENew *)
    inversion Hst; subst s'; clear Hst.
    destruct HI as [H1 H2 H3 H4 H5 H6].
    constructor; simpl; auto; unfold holders in *; simpl.
    + rewrite count_app. simpl. lia.
    + rewrite count_app. simpl. lia.
    + apply Forall_app. split; [assumption|]. constructor; [apply idle_ok|constructor].
  - (* ECancel *)
    destruct (nth_error (procs s) p) as [q|] eqn:Hn; [|discriminate].
    inversion Hst; subst s'; clear Hst.
    pose proof (Forall_nth _ _ _ _ (inv_procs s HI) Hn) as [A1 A2 A3 A4 A5 A6 A7 A8 A9 A10].
    repl HI Hn; [num|num|simpl; lia|simpl; lia|].
    constructor; simpl; auto.
  - (* EFire *)
    destruct (nth_error (procs s) p) as [q|] eqn:Hn; [|discriminate].
    pose proof (Forall_nth _ _ _ _ (inv_procs s HI) Hn) as [A1 A2 A3 A4 A5 A6 A7 A8 A9 A10].
    destruct (p_pc q) eqn:Hpc; try discriminate; inversion Hst; subst s'; clear Hst;
      (repl HI Hn; [num|num|simpl; lia|simpl; lia|];
       constructor; simpl; auto; rewrite Hpc; intuition congruence).
  - (* EAcquire *)
    destruct (nth_error (procs s) p) as [q|] eqn:Hn; [|discriminate].
    pose proof (Forall_nth _ _ _ _ (inv_procs s HI) Hn) as Hok.
    pose proof (sem_none_unless_run q Hok) as Hnone.
    destruct Hok as [A1 A2 A3 A4 A5 A6 A7 A8 A9 A10].
    destruct (p_pc q) eqn:Hpc; try discriminate; inversion Hst; subst s'; clear Hst.
    assert (Hs : p_sem q = None) by (apply Hnone; congruence).
    repl HI Hn; [num|num|simpl; lia|simpl; lia|].
    unfold with_pc. constructor; simpl; auto; try congruence.
  - (* EGrant *)
    destruct (nth_error (procs s) p) as [q|] eqn:Hn; [|discriminate].
    pose proof (Forall_nth _ _ _ _ (inv_procs s HI) Hn) as Hok.
    pose proof (sem_none_unless_run q Hok) as Hnone.
    destruct Hok as [A1 A2 A3 A4 A5 A6 A7 A8 A9 A10].
    destruct (p_pc q) eqn:Hpc; try discriminate.
    + (* PAcq *)
      destruct (curI s <? capI s) eqn:Hlt; [|discriminate]. apply Nat.ltb_lt in Hlt.
      inversion Hst; subst s'; clear Hst.
      assert (Hs : p_sem q = None) by (apply Hnone; congruence).
      destruct A9 as [Z1 Z2]; [auto|].
      repl HI Hn; [numS Hs|numS Hs|simpl; lia|simpl; lia|].
      constructor; simpl; auto; try congruence; try (numS Hs).
      * rewrite Z2 in A8. simpl in A8. exact A8.
      * intros [H|[H|H]]; discriminate.
    + (* PYield *)
      destruct (curB s <? capB s) eqn:Hlt; [|discriminate]. apply Nat.ltb_lt in Hlt.
      inversion Hst; subst s'; clear Hst.
      assert (Hs : p_sem q = None) by (apply Hnone; congruence).
      repl HI Hn; [numS Hs|numS Hs|simpl; lia|simpl; lia|].
      constructor; simpl; auto; try congruence; try (numS Hs).
      * (* acqB <= 1: a process blocked in yieldFunc has not completed a yield before *)
        unfold holds, b2n in *. rewrite Hs in *. simpl in *.
        rewrite (A10 eq_refl) in A8. simpl in A8. lia.
      * intros [H|[H|H]]; discriminate.
  - (* EFail *)
    destruct (nth_error (procs s) p) as [q|] eqn:Hn; [|discriminate].
    pose proof (Forall_nth _ _ _ _ (inv_procs s HI) Hn) as Hok.
    pose proof (sem_none_unless_run q Hok) as Hnone.
    destruct Hok as [A1 A2 A3 A4 A5 A6 A7 A8 A9 A10].
    destruct (p_ctx q) eqn:Hctx; [|discriminate].
    destruct (p_pc q) eqn:Hpc; try discriminate; inversion Hst; subst s'; clear Hst;
      (assert (Hs : p_sem q = None) by (apply Hnone; congruence));
      (repl HI Hn; [num|num|simpl; lia|simpl; lia|];
       constructor; simpl; auto; try congruence; try lia).
    + intros [H|[H|H]]; discriminate.
  - (* EYield *)
    destruct (nth_error (procs s) p) as [q|] eqn:Hn; [|discriminate].
    pose proof (Forall_nth _ _ _ _ (inv_procs s HI) Hn) as [A1 A2 A3 A4 A5 A6 A7 A8 A9 A10].
    destruct (p_pc q) eqn:Hpc; try discriminate.
    destruct (p_tnil q || negb (p_fired q)) eqn:Hnoop.
    + inversion Hst; subst s'. exact HI.
    + apply Bool.orb_false_iff in Hnoop. destruct Hnoop as [Htn Hfi].
      pose proof (drop_sem_spec s p q HI Hn) as D.
      destruct (drop_sem s q) as [s1 q1].
      destruct D as (D1 & D2 & D3 & D4 & D5 & D6 & D7 & D8 & D9 & D10 & D11 & D12 & D13 & D14 & D15 & D16).
      inversion Hst; subst s'; clear Hst.
      eapply inv_replace with (q' := with_pc q1 PYield);
        [exact HI|exact Hn|simpl; rewrite D2; reflexivity|simpl; exact D1|simpl; exact D3|simpl; exact D4| | | | |].
      * unfold holds at 2. simpl. rewrite D5. unfold b2n at 2. simpl. lia.
      * unfold holds at 2. simpl. rewrite D5. unfold b2n at 2. simpl. lia.
      * simpl. lia.
      * simpl. lia.
      * unfold with_pc. constructor; simpl; rewrite ?D5; auto; try congruence;
          try (unfold holds; simpl; lia).
        -- rewrite D10, D9. exact A4.
        -- intros [H|[H|H]]; discriminate.
  - (* ERelease *)
    destruct (nth_error (procs s) p) as [q|] eqn:Hn; [|discriminate].
    pose proof (Forall_nth _ _ _ _ (inv_procs s HI) Hn) as [A1 A2 A3 A4 A5 A6 A7 A8 A9 A10].
    destruct (p_pc q) eqn:Hpc; try discriminate.
    pose proof (drop_sem_spec s p q HI Hn) as D.
    destruct (drop_sem s q) as [s1 q1].
    destruct D as (D1 & D2 & D3 & D4 & D5 & D6 & D7 & D8 & D9 & D10 & D11 & D12 & D13 & D14 & D15 & D16).
    inversion Hst; subst s'; clear Hst.
    eapply inv_replace with (q' := with_pc q1 PEnd);
      [exact HI|exact Hn|simpl; rewrite D2; reflexivity|simpl; exact D1|simpl; exact D3|simpl; exact D4| | | | |].
    * unfold holds at 2. simpl. rewrite D5. unfold b2n at 2. simpl. lia.
    * unfold holds at 2. simpl. rewrite D5. unfold b2n at 2. simpl. lia.
    * simpl. lia.
    * simpl. lia.
    * unfold with_pc. constructor; simpl; rewrite ?D5; auto; try congruence;
        try (unfold holds; simpl; lia).
      -- rewrite D10, D9. exact A4.
      -- intros [H|[H|H]]; discriminate.
Qed.

Lemma run_inv (s s' : state) (es : list event) : Inv s -> run s es = Some s' -> Inv s'.
Proof.
  revert s. induction es as [|e es IH]; intros s HI Hr; simpl in Hr.
  - inversion Hr; subst. exact HI.
  - destruct (step s e) as [s1|] eqn:Hst; [|discriminate].
    eapply IH; [eapply step_inv; eauto|exact Hr].
Qed.

Theorem reachable_inv (ci cb : nat) (es : list event) (s : state) :
  run (init ci cb) es = Some s -> Inv s.
Proof. apply run_inv. apply inv_init. Qed.

(** capacities never change *)
Lemma step_caps (s s' : state) (e : event) : step s e = Some s' -> capI s' = capI s /\ capB s' = capB s.
Proof.
  unfold step. destruct (panicked s); [discriminate|].
  destruct e as [|p|p|p|p|p|p|p]; try (destruct (nth_error (procs s) p) as [q|]; [|discriminate]).
  - intros H; inversion H; subst; simpl; auto.
  - intros H; inversion H; subst; simpl; auto.
  - destruct (p_pc q); try discriminate; intros H; inversion H; subst; simpl; auto.
  - destruct (p_pc q); try discriminate; intros H; inversion H; subst; simpl; auto.
  - destruct (p_pc q); try discriminate.
    + destruct (curI s <? capI s); [|discriminate]. intros H; inversion H; subst; simpl; auto.
    + destruct (curB s <? capB s); [|discriminate]. intros H; inversion H; subst; simpl; auto.
  - destruct (p_ctx q); [|discriminate]. destruct (p_pc q); try discriminate; intros H; inversion H; subst; simpl; auto.
  - destruct (p_pc q); try discriminate. destruct (p_tnil q || negb (p_fired q)).
    + intros H; inversion H; subst; auto.
    + unfold drop_sem. destruct (p_sem q) as [[|]|]; unfold sem_release;
        try destruct (curI s); try destruct (curB s); intros H; inversion H; subst; simpl; auto.
  - destruct (p_pc q); try discriminate.
    unfold drop_sem. destruct (p_sem q) as [[|]|]; unfold sem_release;
      try destruct (curI s); try destruct (curB s); intros H; inversion H; subst; simpl; auto.
Qed.

Lemma run_caps (s s' : state) (es : list event) : run s es = Some s' -> capI s' = capI s /\ capB s' = capB s.
Proof.
  revert s. induction es as [|e es IH]; intros s Hr; simpl in Hr.
  - inversion Hr; subst; auto.
  - destruct (step s e) as [s1|] eqn:Hst; [|discriminate].
    destruct (step_caps _ _ _ Hst) as [E1 E2]. destruct (IH _ Hr) as [E3 E4]. split; congruence.
Qed.

(** ---- the property theorems *)
Lemma bounded (ci cb : nat) (es : list event) (s : state) :
  run (init ci cb) es = Some s -> holders SI s <= ci /\ holders SB s <= cb.
Proof.
  intros Hr. pose proof (reachable_inv _ _ _ _ Hr) as HI. destruct (run_caps _ _ _ Hr) as [E1 E2]. simpl in E1, E2.
  rewrite <- (inv_cntI s HI), <- (inv_cntB s HI).
  pose proof (inv_capI s HI). pose proof (inv_capB s HI). lia.
Qed.

Lemma counter_is_holders (ci cb : nat) (es : list event) (s : state) :
  run (init ci cb) es = Some s -> curI s = holders SI s /\ curB s = holders SB s.
Proof. intros Hr. pose proof (reachable_inv _ _ _ _ Hr) as HI. split; [apply (inv_cntI s HI)|apply (inv_cntB s HI)]. Qed.

Lemma never_over_released (ci cb : nat) (es : list event) (s : state) :
  run (init ci cb) es = Some s -> panicked s = false.
Proof. intros Hr. apply (inv_nopanic s (reachable_inv _ _ _ _ Hr)). Qed.

Lemma release_exactly_once (ci cb : nat) (es : list event) (s : state) (p : nat) (q : proc) :
  run (init ci cb) es = Some s -> nth_error (procs s) p = Some q ->
  p_acqI q = p_relI q + b2n (holds SI q) /\ p_acqB q = p_relB q + b2n (holds SB q) /\
  p_acqI q <= 1 /\ p_acqB q <= 1 /\
  (p_pc q <> PRun -> p_acqI q = p_relI q /\ p_acqB q = p_relB q).
Proof.
  intros Hr Hn. pose proof (reachable_inv _ _ _ _ Hr) as HI.
  pose proof (Forall_nth _ _ _ _ (inv_procs s HI) Hn) as [A1 A2 A3 A4 A5 A6 A7 A8 A9 A10].
  repeat split; auto.
  - unfold b2n in A8. destruct (p_tnil q); lia.
  - destruct (p_sem q) eqn:Hs; [exfalso; apply H; apply A3; congruence|].
    unfold holds, b2n in A1. rewrite Hs in A1. lia.
  - destruct (p_sem q) eqn:Hs; [exfalso; apply H; apply A3; congruence|].
    unfold holds, b2n in A2. rewrite Hs in A2. lia.
Qed.

Lemma errors_only_if_ctx_done (ci cb : nat) (es : list event) (s : state) (p : nat) (q : proc) :
  run (init ci cb) es = Some s -> nth_error (procs s) p = Some q ->
  (0 < p_errs q -> p_ctx q = true) /\ (p_pc q = PAcqErr -> p_ctx q = true).
Proof.
  intros Hr Hn. pose proof (reachable_inv _ _ _ _ Hr) as HI.
  pose proof (Forall_nth _ _ _ _ (inv_procs s HI) Hn) as [A1 A2 A3 A4 A5 A6 A7 A8 A9 A10].
  split; auto.
Qed.

Lemma no_leak (ci cb : nat) (es : list event) (s : state) :
  run (init ci cb) es = Some s -> (forall q, In q (procs s) -> quiet q = true) ->
  curI s = 0 /\ curB s = 0.
Proof.
  intros Hr Hq. pose proof (reachable_inv _ _ _ _ Hr) as HI.
  rewrite (inv_cntI s HI), (inv_cntB s HI). unfold holders.
  assert (Hx : forall i x, In x (procs s) -> quiet x = true -> holds i x = false).
  { intros i x Hin Hqx. pose proof (inv_procs s HI) as HF. rewrite Forall_forall in HF.
    destruct (HF x Hin) as [A1 A2 A3 A4 A5 A6 A7 A8 A9 A10].
    unfold holds. destruct (p_sem x) as [sm|] eqn:Hs; [|reflexivity].
    assert (p_pc x = PRun) by (apply A3; congruence). unfold quiet in Hqx. rewrite H in Hqx. discriminate. }
  split.
  - induction (procs s) as [|x l IH]; simpl; [reflexivity|].
    rewrite (Hx SI x (or_introl eq_refl) (Hq x (or_introl eq_refl))). simpl. apply IH.
    + intros q Hin. apply Hq. right. exact Hin.
    + intros i y Hin. apply Hx. right. exact Hin.
  - induction (procs s) as [|x l IH]; simpl; [reflexivity|].
    rewrite (Hx SB x (or_introl eq_refl) (Hq x (or_introl eq_refl))). simpl. apply IH.
    + intros q Hin. apply Hq. right. exact Hin.
    + intros i y Hin. apply Hx. right. exact Hin.
Qed.

(** ---- event-level statement of "fails only if the context is done": every EFail p in an executable
    history is preceded by an ECancel p. *)
Definition target (e : event) : option nat :=
  match e with
  | ENew => None
  | ECancel p | EFire p | EAcquire p | EGrant p | EFail p | EYield p | ERelease p => Some p
  end.

Lemma drop_sem_ctx (s : state) (q : proc) : p_ctx (snd (drop_sem s q)) = p_ctx q /\ procs (fst (drop_sem s q)) = procs s.
Proof.
  unfold drop_sem. destruct (p_sem q) as [[|]|]; simpl; split; auto; unfold sem_release;
    try destruct (curI s); try destruct (curB s); reflexivity.
Qed.

(** shape of a step as far as the process list and the ctx flags are concerned *)
Lemma step_shape (s s' : state) (e : event) :
  step s e = Some s' ->
  (e = ENew /\ procs s' = procs s ++ [idle_proc]) \/
  procs s' = procs s \/
  (exists p0 q0 q0', target e = Some p0 /\ nth_error (procs s) p0 = Some q0 /\ procs s' = upd p0 q0' (procs s) /\
                     (p_ctx q0' = p_ctx q0 \/ e = ECancel p0)).
Proof.
  unfold step. destruct (panicked s); [discriminate|].
  destruct e as [|p|p|p|p|p|p|p]; try (destruct (nth_error (procs s) p) as [q|] eqn:Hn; [|discriminate]).
  - intros H; inversion H; subst; simpl. left. auto.
  - intros H; inversion H; subst; simpl. right. right. exists p, q. eexists. repeat split; eauto.
  - destruct (p_pc q); try discriminate; intros H; inversion H; subst; simpl;
      right; right; exists p, q; eexists; repeat split; eauto.
  - destruct (p_pc q); try discriminate; intros H; inversion H; subst; simpl;
      right; right; exists p, q; eexists; repeat split; eauto.
  - destruct (p_pc q); try discriminate.
    + destruct (curI s <? capI s); [|discriminate]. intros H; inversion H; subst; simpl.
      right; right; exists p, q; eexists; repeat split; eauto.
    + destruct (curB s <? capB s); [|discriminate]. intros H; inversion H; subst; simpl.
      right; right; exists p, q; eexists; repeat split; eauto.
  - destruct (p_ctx q) eqn:Hc; [|discriminate]. destruct (p_pc q); try discriminate; intros H; inversion H; subst; simpl;
      right; right; exists p, q; eexists; repeat split; eauto.
  - destruct (p_pc q); try discriminate. destruct (p_tnil q || negb (p_fired q)).
    + intros H; inversion H; subst. right. left. reflexivity.
    + pose proof (drop_sem_ctx s q) as [C1 C2]. destruct (drop_sem s q) as [s1 q1]. simpl in C1, C2.
      intros H; inversion H; subst; simpl. rewrite C2.
      right; right; exists p, q; eexists; repeat split; eauto.
  - destruct (p_pc q); try discriminate.
    pose proof (drop_sem_ctx s q) as [C1 C2]. destruct (drop_sem s q) as [s1 q1]. simpl in C1, C2.
    intros H; inversion H; subst; simpl. rewrite C2.
    right; right; exists p, q; eexists; repeat split; eauto.
Qed.

Lemma step_ctx (s s' : state) (e : event) (p : nat) (q' : proc) :
  step s e = Some s' -> nth_error (procs s') p = Some q' -> p_ctx q' = true ->
  e = ECancel p \/ exists q, nth_error (procs s) p = Some q /\ p_ctx q = true.
Proof.
  intros Hst Hn Hc. destruct (step_shape _ _ _ Hst) as [[He Hp]|[Hp|(p0 & q0 & q0' & Ht & Hn0 & Hp & Hcc)]].
  - rewrite Hp in Hn. right.
    destruct (Nat.lt_ge_cases p (length (procs s))) as [Hlt|Hge].
    + rewrite nth_error_app1 in Hn by exact Hlt. exists q'. auto.
    + rewrite nth_error_app2 in Hn by exact Hge.
      destruct (p - length (procs s)) as [|k]; simpl in Hn.
      * inversion Hn; subst. discriminate.
      * destruct k; discriminate.
  - rewrite Hp in Hn. right. exists q'. auto.
  - rewrite Hp in Hn. destruct (Nat.eq_dec p0 p) as [->|Hne].
    + rewrite (nth_error_upd_same _ _ _ _ Hn0) in Hn. inversion Hn; subst q0'.
      destruct Hcc as [Hcc|Hcc]; [|left; exact Hcc].
      right. exists q0. split; [exact Hn0|congruence].
    + rewrite nth_error_upd_other in Hn by exact Hne. right. exists q'. auto.
Qed.

Lemma ctx_done_was_cancelled (ci cb : nat) (es : list event) (s : state) (p : nat) (q : proc) :
  run (init ci cb) es = Some s -> nth_error (procs s) p = Some q -> p_ctx q = true -> In (ECancel p) es.
Proof.
  revert s q. induction es as [|e es IH] using rev_ind; intros s q Hr Hn Hc.
  - simpl in Hr. inversion Hr; subst. destruct p; discriminate.
  - rewrite run_app in Hr. destruct (run (init ci cb) es) as [s0|] eqn:Hr0; [|discriminate].
    simpl in Hr. destruct (step s0 e) as [s1|] eqn:Hst; [|discriminate]. inversion Hr; subst s1.
    apply in_or_app.
    destruct (step_ctx _ _ _ _ _ Hst Hn Hc) as [He|(q0 & Hn0 & Hc0)].
    + right. left. exact He.
    + left. eapply IH; eauto.
Qed.

Lemma fail_only_after_cancel (ci cb : nat) (pre : list event) (p : nat) (s : state) :
  run (init ci cb) (pre ++ [EFail p]) = Some s -> In (ECancel p) pre.
Proof.
  intros Hr. rewrite run_app in Hr. destruct (run (init ci cb) pre) as [s0|] eqn:Hr0; [|discriminate].
  simpl in Hr. destruct (step s0 (EFail p)) as [s1|] eqn:Hst; [|discriminate].
  unfold step in Hst. destruct (panicked s0); [discriminate|].
  destruct (nth_error (procs s0) p) as [q|] eqn:Hn; [|discriminate].
  destruct (p_ctx q) eqn:Hc; [|discriminate].
  eapply ctx_done_was_cancelled; eauto.
Qed.

(** ---- soundness of trace acceptance: an accepted trace is an execution of the transition system *)
Lemma trun_run (s s' : state) (ts : list tev) :
  trun s ts = Some s' -> exists es, run s es = Some s'.
Proof.
  revert s. induction ts as [|t ts IH]; intros s Ht; simpl in Ht.
  - inversion Ht; subst. exists []. reflexivity.
  - destruct (expand s t) as [es|]; [|discriminate].
    destruct (run s es) as [s1|] eqn:Hr; [|discriminate].
    destruct (IH _ Ht) as [es' Hr']. exists (es ++ es'). rewrite run_app, Hr. exact Hr'.
Qed.

Lemma accepts_sound (ci cb : nat) (ts : list tev) :
  accepts ci cb ts = true ->
  exists es s, run (init ci cb) es = Some s /\ trun (init ci cb) ts = Some s /\
               holders SI s <= ci /\ holders SB s <= cb /\ panicked s = false.
Proof.
  unfold accepts. destruct (trun (init ci cb) ts) as [s|] eqn:Ht; [|discriminate].
  intros _. destruct (trun_run _ _ _ Ht) as [es Hr].
  exists es, s. destruct (bounded _ _ _ _ Hr). pose proof (never_over_released _ _ _ _ Hr). auto.
Qed.

(** every prefix of an accepted trace is accepted: the bounds hold at every logged instant *)
Lemma trun_app (s : state) (a b : list tev) :
  trun s (a ++ b) = match trun s a with Some s' => trun s' b | None => None end.
Proof.
  revert s. induction a as [|t a IH]; intros s; simpl; [reflexivity|].
  destruct (expand s t) as [es|]; [|reflexivity]. destruct (run s es); [apply IH|reflexivity].
Qed.

Lemma accepts_prefix (ci cb : nat) (a b : list tev) :
  accepts ci cb (a ++ b) = true -> accepts ci cb a = true.
Proof.
  unfold accepts. rewrite trun_app. destruct (trun (init ci cb) a) as [s|] eqn:Ha; [|discriminate].
  intros _. destruct (trun_run _ _ _ Ha) as [es Hr]. rewrite (never_over_released _ _ _ _ Hr). reflexivity.
Qed.

(** an occupancy observation accepted by the model equals the number of holders *)
Lemma accepted_obs (ci cb : nat) (ts : list tev) (oI oB : nat) (s : state) :
  trun (init ci cb) ts = Some s -> expand s (TObs oI oB) <> None ->
  oI = holders SI s /\ oB = holders SB s.
Proof.
  intros Ht Hex. destruct (trun_run _ _ _ Ht) as [es Hr].
  destruct (counter_is_holders _ _ _ _ Hr) as [E1 E2].
  simpl in Hex. destruct (Nat.eqb (curI s) oI) eqn:H1; [|contradiction Hex; reflexivity].
  destruct (Nat.eqb (curB s) oB) eqn:H2; [|contradiction Hex; reflexivity].
  apply Nat.eqb_eq in H1. apply Nat.eqb_eq in H2. split; congruence.
Qed.
