(** C01: indexData.simplify / query.Simplify (constant folding) and ExpandFileContent preserve the reference
    evaluation on every live document. *)
From ZV Require Import Lib.Base Model.SearchCore Proofs.SearchCoreText Proofs.SearchCoreBuild.
From Coq Require Import ZifyBool.

Lemma filter_len_all : forall (A : Type) (f g : A -> bool) l,
  length (filter (fun x => f x && g x) l) = length (filter f l) -> forall x, In x l -> f x = true -> g x = true.
Proof.
  induction l as [|y l IH]; intros H x Hx Hf; [destruct Hx|].
  assert (Hle : forall l', length (filter (fun x => f x && g x) l') <= length (filter f l')).
  { induction l' as [|z l' IH']; simpl; [lia|]. destruct (f z), (g z); simpl; lia. }
  simpl in H. destruct Hx as [->|Hx].
  - rewrite Hf in H. simpl in H. destruct (g x); [reflexivity|]. simpl in H. specialize (Hle l). lia.
  - apply IH; auto. destruct (f y), (g y); simpl in H; try lia. specialize (Hle l). lia.
Qed.
Lemma filter_len_none : forall (A : Type) (f : A -> bool) l, length (filter f l) = 0 -> forall x, In x l -> f x = false.
Proof.
  intros A f l H x Hx. destruct (f x) eqn:E; [|reflexivity].
  assert (In x (filter f l)) by (apply filter_In; auto). destruct (filter f l); [destruct H0 | simpl in H; lia].
Qed.
Lemma in_combine_seq : forall (A : Type) (l : list A) i d, i < length l -> In (i, nth i l d) (combine (seq 0 (length l)) l).
Proof.
  intros A l i d H.
  assert (G : forall (l : list A) s i, i < length l -> In (s + i, nth i l d) (combine (seq s (length l)) l)).
  { induction l0 as [|x l0 IH]; intros s j Hj; [simpl in Hj; lia|]. simpl. destruct j as [|j].
    - left. f_equal. lia. - right. replace (s + S j) with (S s + j) by lia. apply IH. simpl in Hj. lia. }
  apply (G l 0 i H).
Qed.

Section Simp.
Variable re_match : N -> list N -> bool.
Variable tolower : N -> N.
Variable c : corpus.
Notation ev := (eval re_match tolower c).

Lemma live_repo : forall d, live c d = true -> d_repo d < length (c_repos c) /\ r_tomb (repo_of c d) = false.
Proof.
  intros d H. unfold live in H. apply andb_true_iff in H. destruct H as [H _]. apply negb_true_iff in H. split; [|exact H].
  unfold repo_of in H. destruct (le_lt_dec (length (c_repos c)) (d_repo d)); [|auto]. rewrite nth_overflow in H by auto. discriminate.
Qed.

Lemma multi_repo_eval : forall q pred d, live c d = true ->
  ev q d = pred (d_repo d) (repo_of c d) -> ev (multi_repo c q pred) d = ev q d.
Proof.
  intros q pred d Hl Hq. destruct (live_repo d Hl) as [Hin Ht]. unfold multi_repo.
  set (idx := combine (seq 0 (length (c_repos c))) (c_repos c)).
  assert (Hmem : In (d_repo d, repo_of c d) idx) by (unfold idx, repo_of; apply in_combine_seq; auto).
  destruct (length (filter (fun ir => negb (r_tomb (snd ir)) && pred (fst ir) (snd ir)) idx) =?
            length (filter (fun ir => negb (r_tomb (snd ir))) idx)) eqn:E1.
  - apply Nat.eqb_eq in E1.
    pose proof (filter_len_all _ (fun ir => negb (r_tomb (snd ir))) (fun ir => pred (fst ir) (snd ir)) idx E1 _ Hmem) as H.
    simpl in H. rewrite Ht in H. simpl. rewrite Hq. symmetry. apply H. reflexivity.
  - destruct (0 <? length (filter (fun ir => negb (r_tomb (snd ir)) && pred (fst ir) (snd ir)) idx)) eqn:E2; [reflexivity|].
    assert (E0 : length (filter (fun ir => negb (r_tomb (snd ir)) && pred (fst ir) (snd ir)) idx) = 0) by lia.
    pose proof (filter_len_none _ _ idx E0 _ Hmem) as H. simpl in H. rewrite Ht in H. simpl in H. simpl. rewrite Hq. auto.
Qed.

Lemma multi_repo_cases : forall q pred, multi_repo c q pred = QConst true \/ multi_repo c q pred = q \/ multi_repo c q pred = QConst false.
Proof. intros. unfold multi_repo. destruct (_ =? _); auto. destruct (0 <? _); auto. Qed.

Lemma simp_atom_eval : forall q d, live c d = true -> ev (simp_atom c q) d = ev q d.
Proof.
  intros q d Hl. destruct q; simpl simp_atom; try reflexivity.
  - apply multi_repo_eval; auto.
  - apply multi_repo_eval; auto.
  - apply multi_repo_eval; auto.
  - apply multi_repo_eval; auto.
  - destruct (existsb (fun r => existsb (fun br => memN (r_id r) (snd br)) l) (c_repos c)) eqn:E; [reflexivity|].
    simpl. symmetry. destruct (live_repo d Hl) as [Hin _].
    assert (Hr : In (repo_of c d) (c_repos c)) by (unfold repo_of; apply nth_In; auto).
    destruct (existsb _ l) eqn:E2; [|reflexivity]. exfalso.
    apply existsb_exists in E2. destruct E2 as [br [Hbr Hc]]. apply andb_true_iff in Hc. destruct Hc as [Hc _].
    assert (existsb (fun r => existsb (fun br => memN (r_id r) (snd br)) l) (c_repos c) = true).
    { apply existsb_exists. exists (repo_of c d). split; [auto|]. apply existsb_exists. exists br. auto. }
    congruence.
  - destruct (lang_code c name) eqn:E; simpl; rewrite E; reflexivity.
Qed.

Lemma contains_nil : forall cs t, contains tolower cs [] t = true.
Proof. intros. unfold contains. simpl. unfold occurs_at. simpl. destruct cs; reflexivity. Qed.

Theorem simp_eval : forall q d, live c d = true -> ev (simp c q) d = ev q d.
Proof.
  induction q using Q_ind'; intros d Hl.
  - (* and *) simpl simp. rewrite Forall_forall in H.
    assert (Hmap : forallb (fun x => ev x d) (map (simp c) l) = forallb (fun x => ev x d) l).
    { rewrite forallb_map_eq. apply forallb_ext_in. intros x Hx. apply H; auto. }
    simpl ev at 2. rewrite <- Hmap.
    destruct (existsb (fun x => match is_const x with Some false => true | _ => false end) (map (simp c) l)) eqn:E.
    + simpl. symmetry. apply existsb_exists in E. destruct E as [x [Hx Hc]].
      destruct x; simpl in Hc; try discriminate. destruct b; try discriminate.
      apply not_true_is_false. intro Hf. rewrite forallb_forall in Hf. specialize (Hf _ Hx). discriminate.
    + assert (Hfil : forallb (fun x => ev x d) (filter (fun x => match is_const x with Some true => false | _ => true end) (map (simp c) l))
                     = forallb (fun x => ev x d) (map (simp c) l)).
      { generalize (map (simp c) l). induction l0 as [|x l0 IH0]; simpl; [reflexivity|].
        destruct (is_const x) as [[|]|] eqn:Ec; simpl; rewrite IH0; try reflexivity.
        destruct x; simpl in Ec; try discriminate. inversion Ec; subst. reflexivity. }
      rewrite <- Hfil. destruct (filter _ (map (simp c) l)); reflexivity.
  - (* or *) simpl simp. rewrite Forall_forall in H.
    assert (Hmap : existsb (fun x => ev x d) (map (simp c) l) = existsb (fun x => ev x d) l).
    { rewrite existsb_map_eq. apply existsb_ext_in. intros x Hx. apply H; auto. }
    simpl ev at 2. rewrite <- Hmap.
    destruct (existsb (fun x => match is_const x with Some true => true | _ => false end) (map (simp c) l)) eqn:E.
    + simpl. symmetry. apply existsb_exists in E. destruct E as [x [Hx Hc]].
      destruct x; simpl in Hc; try discriminate. destruct b; try discriminate.
      apply existsb_exists. exists (QConst true). auto.
    + assert (Hfil : existsb (fun x => ev x d) (filter (fun x => match is_const x with Some false => false | _ => true end) (map (simp c) l))
                     = existsb (fun x => ev x d) (map (simp c) l)).
      { generalize (map (simp c) l). induction l0 as [|x l0 IH0]; simpl; [reflexivity|].
        destruct (is_const x) as [[|]|] eqn:Ec; simpl; rewrite IH0; try reflexivity.
        destruct x; simpl in Ec; try discriminate. inversion Ec; subst. reflexivity. }
      rewrite <- Hfil. destruct (filter _ (map (simp c) l)); reflexivity.
  - simpl simp. specialize (IHq d Hl). simpl ev at 2. rewrite <- IHq. destruct (simp c q); reflexivity.
  - simpl simp. specialize (IHq d Hl). simpl ev at 2. rewrite <- IHq. destruct (simp c q); reflexivity.
  - simpl simp. specialize (IHq d Hl). simpl ev at 2. rewrite <- IHq. destruct (simp c q); reflexivity.
  - simpl simp. specialize (IHq d Hl). simpl ev at 2. rewrite <- IHq. destruct (simp c q); reflexivity.
  - destruct q; try contradiction.
    + destruct p; [|reflexivity]. simpl. unfold text_sel. rewrite !contains_nil. destruct (Bool.eqb fn ct), fn; reflexivity.
    + reflexivity.
    + reflexivity.
    + destruct p; [destruct exact|]; reflexivity.
    + pose proof (simp_atom_eval (QRepoTbl want) d Hl) as Ha. cbn [simp_atom] in Ha. cbn [simp simp_atom].
      destruct (multi_repo_cases (QRepoTbl want) (fun i _ => nth i want false)) as [E|[E|E]]; rewrite E in *; exact Ha.
    + pose proof (simp_atom_eval (QRepoSet names) d Hl) as Ha. cbn [simp_atom] in Ha. cbn [simp simp_atom].
      destruct (multi_repo_cases (QRepoSet names) (fun _ r => mem_runes (r_name r) names)) as [E|[E|E]]; rewrite E in *; exact Ha.
    + pose proof (simp_atom_eval (QRepoIDs ids) d Hl) as Ha. cbn [simp_atom] in Ha. cbn [simp simp_atom].
      destruct (multi_repo_cases (QRepoIDs ids) (fun _ r => memN (r_id r) ids)) as [E|[E|E]]; rewrite E in *; exact Ha.
    + pose proof (simp_atom_eval (QRawConfig m) d Hl) as Ha. cbn [simp_atom] in Ha. cbn [simp simp_atom].
      destruct (multi_repo_cases (QRawConfig m) (fun _ r => (N.land m (r_rawmask r) =? m)%N)) as [E|[E|E]]; rewrite E in *; exact Ha.
    + simpl simp. pose proof (simp_atom_eval (QBranchesRepos l) d Hl) as Ha. simpl simp_atom in Ha.
      destruct (existsb (fun r => existsb (fun br => memN (r_id r) (snd br)) l) (c_repos c)); [|exact Ha].
      destruct (forallb (fun br => match snd br with [] => true | _ => false end) l) eqn:Ef; [|reflexivity].
      simpl. symmetry. apply not_true_is_false. intro Hex. apply existsb_exists in Hex. destruct Hex as [br [Hbr Hc]].
      rewrite forallb_forall in Ef. specialize (Ef _ Hbr). destruct (snd br); [simpl in Hc; discriminate | discriminate].
    + simpl simp. pose proof (simp_atom_eval (QLang name) d Hl) as Ha. simpl simp_atom in Ha.
      destruct (lang_code c name); exact Ha.
    + destruct names; reflexivity.
    + reflexivity.
    + reflexivity.
Qed.

Theorem expand_eval : forall q d, ev (expand q) d = ev q d.
Proof.
  induction q using Q_ind'; intro d; simpl.
  - rewrite forallb_map_eq. apply forallb_ext_in. rewrite Forall_forall in H. auto.
  - rewrite existsb_map_eq. apply existsb_ext_in. rewrite Forall_forall in H. auto.
  - rewrite IHq. reflexivity.
  - auto. - auto. - auto.
  - destruct q; try contradiction; try reflexivity.
    + simpl. destruct (Bool.eqb fn ct) eqn:E; [|reflexivity]. simpl. unfold text_sel. rewrite E. simpl. rewrite orb_false_r. reflexivity.
    + simpl. destruct (Bool.eqb fn ct) eqn:E; [|reflexivity]. simpl. unfold text_sel. rewrite E. simpl. rewrite orb_false_r. reflexivity.
Qed.

(* ------------------------------------------------------------------ what reaches newMatchTree is buildable *)
Fixpoint nb (q : Q) : Prop :=     (* no branch:"" (non-exact) atom *)
  match q with
  | QBranch p exact => (match p with [] => negb exact | _ => false end) = false
  | QAnd l => (fix all (l : list Q) : Prop := match l with [] => True | x :: r => nb x /\ all r end) l
  | QOr l => (fix all (l : list Q) : Prop := match l with [] => True | x :: r => nb x /\ all r end) l
  | QNot q' => nb q'
  | QTypeFileName q' => nb q'
  | QTypeOther q' => nb q'
  | QBoost q' => nb q'
  | _ => True
  end.
Lemma nb_list : forall l,
  (fix all (l : list Q) : Prop := match l with [] => True | x :: r => nb x /\ all r end) l <-> Forall nb l.
Proof.
  induction l as [|x l IH]; split; intro H; try constructor; try exact I.
  - tauto. - apply IH; tauto. - inversion H; auto. - apply IH. inversion H; auto.
Qed.
Lemma nb_and : forall l, nb (QAnd l) <-> Forall nb l. Proof. intro. exact (nb_list l). Qed.
Lemma nb_or : forall l, nb (QOr l) <-> Forall nb l. Proof. intro. exact (nb_list l). Qed.

Theorem simp_nb : forall q, nb (simp c q).
Proof.
  induction q using Q_ind'.
  - cbn [simp]. destruct (existsb _ (map (simp c) l)); [exact I|].
    assert (Hf : Forall nb (filter (fun x => match is_const x with Some true => false | _ => true end) (map (simp c) l))).
    { apply Forall_forall. intros x Hx. apply filter_In in Hx. destruct Hx as [Hx _]. apply in_map_iff in Hx.
      destruct Hx as [y [<- Hy]]. rewrite Forall_forall in H. auto. }
    destruct (filter _ (map (simp c) l)); [exact I|]. apply nb_and. exact Hf.
  - cbn [simp]. destruct (existsb _ (map (simp c) l)); [exact I|].
    assert (Hf : Forall nb (filter (fun x => match is_const x with Some false => false | _ => true end) (map (simp c) l))).
    { apply Forall_forall. intros x Hx. apply filter_In in Hx. destruct Hx as [Hx _]. apply in_map_iff in Hx.
      destruct Hx as [y [<- Hy]]. rewrite Forall_forall in H. auto. }
    destruct (filter _ (map (simp c) l)); [exact I|]. apply nb_or. exact Hf.
  - cbn [simp]. destruct (simp c q); simpl in *; auto.
  - cbn [simp]. destruct (simp c q); simpl in *; auto.
  - cbn [simp]. destruct (simp c q); simpl in *; auto.
  - cbn [simp]. destruct (simp c q); simpl in *; auto.
  - destruct q; try contradiction.
    + destruct p; exact I.
    + exact I.
    + exact I.
    + destruct p; [destruct exact|]; simpl; reflexivity.
    + cbn [simp simp_atom]. destruct (multi_repo_cases (QRepoTbl want) (fun i _ => nth i want false)) as [E|[E|E]]; rewrite E; exact I.
    + cbn [simp simp_atom].
      destruct (multi_repo_cases (QRepoSet names) (fun _ r => mem_runes (r_name r) names)) as [E|[E|E]]; rewrite E; exact I.
    + cbn [simp simp_atom].
      destruct (multi_repo_cases (QRepoIDs ids) (fun _ r => memN (r_id r) ids)) as [E|[E|E]]; rewrite E; exact I.
    + cbn [simp simp_atom]. destruct (multi_repo_cases (QRawConfig m) (fun _ r => (N.land m (r_rawmask r) =? m)%N)) as [E|[E|E]]; rewrite E; exact I.
    + cbn [simp simp_atom]. destruct (existsb _ (c_repos c)); [|exact I]. destruct (forallb _ l); exact I.
    + cbn [simp simp_atom]. destruct (lang_code c name); exact I.
    + destruct names; exact I.
    + exact I.
    + exact I.
Qed.

Theorem expand_buildable : forall q, nb q -> buildable (expand q).
Proof.
  induction q using Q_ind'; intro Hn.
  - apply nb_and in Hn. cbn [expand]. apply (proj2 (buildable_list _)). apply Forall_forall. intros x Hx.
    apply in_map_iff in Hx. destruct Hx as [y [<- Hy]]. rewrite Forall_forall in H, Hn. auto.
  - apply nb_or in Hn. cbn [expand]. apply (proj2 (buildable_list _)). apply Forall_forall. intros x Hx.
    apply in_map_iff in Hx. destruct Hx as [y [<- Hy]]. rewrite Forall_forall in H, Hn. auto.
  - simpl in *. auto. - simpl in *. auto. - simpl in *. auto. - simpl in *. auto.
  - destruct q; try contradiction; simpl in *; auto.
    + destruct (Bool.eqb fn ct) eqn:E; simpl; [repeat split; discriminate|]. intro; subst. rewrite eqb_reflx in E. discriminate.
    + destruct (Bool.eqb fn ct) eqn:E; simpl; [repeat split; discriminate|]. intro; subst. rewrite eqb_reflx in E. discriminate.
Qed.
End Simp.
