(** The field/alias table and the value sets that Model/QueryDoc.v's printer uses are exactly those of
    doc/query_syntax.md as regenerated into Generated/DocSyntax.v on every run: an edit of the document's
    table or EBNF (new field, changed alias, new type value) breaks this check until the Coq reading is
    brought up to date. *)
From ZV Require Import Lib.Base Model.Query Model.QueryDoc Generated.DocSyntax.
From Coq Require Import String.
Open Scope N_scope.

Definition row := (str * list str)%type.
Definition row_eqb (a b : row) : bool := str_eqb (fst a) (fst b) && list_eqb str_eqb (snd a) (snd b).
Definition row_of_prefix (full alias : str) : row := (full, if str_eqb full alias then [] else [alias]).

(** the rows the printer [render_expr] realises *)
Definition model_fields : list row :=
  map (fun f => row_of_prefix (field_prefix f false) (field_prefix f true)) [FContent; FFile; FRegex; FRepo; FSym; FBranch; FLang]
  ++ [ (firstn 5 (field_prefix (FMeta []) false), []) ]                         (* "meta." <name> ":" *)
  ++ map (fun f => (bfield_prefix f, [])) [BArchived; BFork; BPublic]
  ++ [ (firstn 5 (render_expr [] (DCase CYes)), []);                            (* "case:" *)
       (firstn 5 (render_expr [] (DType false TRepo)), [firstn 2 (render_expr [] (DType true TRepo))]) ].  (* "type:" / "t:" *)

Definition subset (a b : list row) : bool := forallb (fun r => existsb (row_eqb r) b) a.

Definition doc_check : bool :=
  subset doc_fields model_fields && subset model_fields doc_fields &&
  list_eqb str_eqb doc_types (map rtype_text [TFileMatch; TFileName; TFile; TRepo]) &&
  list_eqb str_eqb doc_booleans [dbs "yes"%string; dbs "no"%string] &&
  list_eqb str_eqb doc_cases (map flavor_text [CYes; CNo; CAuto]).

Lemma doc_table_agrees : doc_check = true.
Proof. vm_compute. reflexivity. Qed.
