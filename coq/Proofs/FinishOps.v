(** Proofs about Model/FsOps.v + Model/FinishOps.v (C12). *)
From ZV Require Import Lib.Base Model.FsOps Model.FinishOps.
From Coq Require Import Permutation.

(** ---- decidable equality of names *)
Lemma slot_eqb_eq a b : slot_eqb a b = true <-> a = b.
Proof.
  destruct a as [|x], b as [|y]; cbn; split; intro H; try congruence; try discriminate.
  - apply Nat.eqb_eq in H. congruence.
  - inversion H. apply Nat.eqb_refl.
Qed.
Lemma name_eqb_eq a b : name_eqb a b = true <-> a = b.
Proof.
  destruct a, b; cbn; split; intro H; try discriminate; try (apply slot_eqb_eq in H; congruence);
    inversion H; apply slot_eqb_eq; reflexivity.
Qed.
Lemma name_eqb_refl a : name_eqb a a = true.
Proof. apply name_eqb_eq. reflexivity. Qed.
Lemma name_eqb_neq a b : name_eqb a b = false <-> a <> b.
Proof.
  split.
  - intros H E. apply name_eqb_eq in E. congruence.
  - intro H. destruct (name_eqb a b) eqn:E; [apply name_eqb_eq in E; contradiction | reflexivity].
Qed.
Lemma name_eqb_sym a b : name_eqb a b = name_eqb b a.
Proof.
  destruct (name_eqb a b) eqn:E.
  - apply name_eqb_eq in E. subst. symmetry. apply name_eqb_refl.
  - symmetry. apply name_eqb_neq. apply name_eqb_neq in E. congruence.
Qed.
Lemma memname_In x l : memname x l = true <-> In x l.
Proof.
  unfold memname. rewrite existsb_exists. split.
  - intros (y & Hy & E). apply name_eqb_eq in E. subst. exact Hy.
  - intro H. exists x. split; [exact H | apply name_eqb_refl].
Qed.
Lemma memname_false x l : memname x l = false <-> ~ In x l.
Proof.
  split.
  - intros H Hin. apply memname_In in Hin. congruence.
  - intro H. destruct (memname x l) eqn:E; [apply memname_In in E; contradiction | reflexivity].
Qed.

Lemma tmp_of_is_tmp a : is_tmp a = false -> is_tmp (tmp_of a) = true.
Proof. destruct a; cbn; congruence. Qed.
Lemma tmp_of_inj a b : is_tmp a = false -> is_tmp b = false -> tmp_of a = tmp_of b -> a = b.
Proof. destruct a, b; cbn; congruence. Qed.

(** ---- upd *)
Lemma upd_same f x c : upd f x c x = c.
Proof. unfold upd. rewrite name_eqb_refl. reflexivity. Qed.
Lemma upd_other f x c y : y <> x -> upd f x c y = f y.
Proof. intro H. unfold upd. apply name_eqb_neq in H. rewrite H. reflexivity. Qed.

Lemma apply_ops_app l1 l2 f : apply_ops (l1 ++ l2) f = apply_ops l2 (apply_ops l1 f).
Proof. unfold apply_ops. apply fold_left_app. Qed.
Lemma apply_ops_cons o l f : apply_ops (o :: l) f = apply_ops l (apply_op f o).
Proof. reflexivity. Qed.

(** ---- phase W: operations on temp names are invisible *)
Definition agree_nontmp (f g : fs) : Prop := forall x, is_tmp x = false -> f x = g x.

Lemma apply_tmp_only_op f g o : tmp_only o = true -> agree_nontmp f g -> agree_nontmp (apply_op f o) g.
Proof.
  intros Ht Hag x Hx. destruct o as [o [|]]; [|cbn; destruct o; apply Hag; exact Hx].
  destruct o as [|t|t c|a b|a]; cbn in *.
  - apply Hag; exact Hx.
  - rewrite upd_other; [apply Hag; exact Hx | intro E; subst; congruence].
  - destruct (f t); [|apply Hag; exact Hx].
    rewrite upd_other; [apply Hag; exact Hx | intro E; subst; congruence].
  - apply andb_true_iff in Ht. destruct Ht as [Ha Hb].
    destruct (f a); [|apply Hag; exact Hx].
    rewrite upd_other by (intro E; subst; congruence).
    rewrite upd_other by (intro E; subst; congruence). apply Hag; exact Hx.
  - rewrite upd_other; [apply Hag; exact Hx | intro E; subst; congruence].
Qed.

Lemma apply_tmp_only l : forall f g, forallb tmp_only l = true -> agree_nontmp f g -> agree_nontmp (apply_ops l f) g.
Proof.
  induction l as [|o l IH]; intros f g Hl Hag; [exact Hag|].
  cbn in Hl. apply andb_true_iff in Hl. destruct Hl as [Ho Hl].
  rewrite apply_ops_cons. apply IH; [exact Hl|]. apply apply_tmp_only_op; assumption.
Qed.

Lemma agree_refl f : agree_nontmp f f.
Proof. intros x _. reflexivity. Qed.

Lemma visible_agree f g : agree_nontmp f g -> view_eq (visible f) (visible g).
Proof.
  intros H s. unfold visible. rewrite (H (Shard s)) by reflexivity. rewrite (H (Meta s)) by reflexivity. reflexivity.
Qed.

Lemma forallb_firstn {A} (p : A -> bool) l k : forallb p l = true -> forallb p (firstn k l) = true.
Proof.
  revert k. induction l as [|x l IH]; intros k H; destruct k; cbn in *; try reflexivity.
  apply andb_true_iff in H. destruct H as [Hx Hl]. rewrite Hx. cbn. apply IH. exact Hl.
Qed.

(** ---- phase R, fault free: closed form *)
Definition nofault : name -> bool := fun _ => false.

Lemma existsb_nofault (l : list name) : existsb nofault l = false.
Proof. induction l as [|a l IH]; [reflexivity | exact IH]. Qed.
(** without a failing rename the toDelete loop runs (whatever [skip] is) *)
Lemma finish_ops_gen_ff skip b ro dl df tf :
  finish_ops_gen skip b ro dl nofault df tf = rename_ops ro nofault ++ delete_ops b dl df tf.
Proof. unfold finish_ops_gen. rewrite existsb_nofault, andb_false_r. reflexivity. Qed.
Lemma finish_ops_ff b ro dl df tf :
  finish_ops b ro dl nofault df tf = rename_ops ro nofault ++ delete_ops b dl df tf.
Proof. apply finish_ops_gen_ff. Qed.

Lemma rename_phase : forall l f,
  NoDup l -> (forall a, In a l -> is_tmp a = false) -> (forall a, In a l -> f (tmp_of a) = Some (Data GNew)) ->
  forall x, is_tmp x = false ->
  apply_ops (rename_ops l nofault) f x = if memname x l then Some (Data GNew) else f x.
Proof.
  induction l as [|a l IH]; intros f Hnd Hfin Hrdy x Hx; [reflexivity|].
  cbn [rename_ops map]. rewrite apply_ops_cons. cbn [apply_op nofault negb].
  rewrite (Hrdy a) by (left; reflexivity).
  inversion Hnd as [|? ? Hnotin Hnd']; subst.
  assert (Ha : is_tmp a = false) by (apply Hfin; left; reflexivity).
  change (map (fun a0 : name => (ORename (tmp_of a0) a0, negb (nofault a0))) l) with (rename_ops l nofault).
  rewrite IH; try assumption.
  - cbn [memname existsb]. fold (memname x l).
    destruct (name_eqb x a) eqn:E.
    + apply name_eqb_eq in E. subst x. cbn. destruct (memname a l); [reflexivity|]. apply upd_same.
    + cbn. destruct (memname x l); [reflexivity|].
      apply name_eqb_neq in E. rewrite upd_other by exact E.
      rewrite upd_other; [reflexivity|]. intro E2. subst x. rewrite tmp_of_is_tmp in Hx by exact Ha. discriminate.
  - intros a' Hin. apply Hfin. right. exact Hin.
  - intros a' Hin.
    assert (Ha' : is_tmp a' = false) by (apply Hfin; right; exact Hin).
    rewrite upd_other.
    + rewrite upd_other; [apply Hrdy; right; exact Hin|].
      intro E. apply tmp_of_inj in E; try assumption. subst. contradiction.
    + intro E. subst a. rewrite tmp_of_is_tmp in Ha by exact Ha'. discriminate.
Qed.

(** ---- phase D with plain removals *)
Definition remove_ops (l : list name) : list xop := map (fun p => (ORemove p, true)) l.

Lemma remove_phase : forall l f x, apply_ops (remove_ops l) f x = if memname x l then None else f x.
Proof.
  induction l as [|p l IH]; intros f x; [reflexivity|].
  cbn [remove_ops map]. rewrite apply_ops_cons. fold (remove_ops l). rewrite IH.
  cbn [memname existsb apply_op]. fold (memname x l).
  destruct (memname x l); [rewrite orb_true_r; reflexivity|]. rewrite orb_false_r.
  destruct (name_eqb x p) eqn:E.
  - apply name_eqb_eq in E. subst. apply upd_same.
  - apply name_eqb_neq in E. apply upd_other. exact E.
Qed.

Definition plain_dl (b : build) (dl : list name) : Prop := forall p, In p dl -> b_merging b && is_comp_name p = false.

Lemma delete_ops_plain b dl : plain_dl b dl -> delete_ops b dl nofault TNone = remove_ops dl.
Proof.
  induction dl as [|p dl IH]; intro H; [reflexivity|].
  unfold delete_ops in *. cbn [flat_map remove_ops map]. unfold del_step at 1.
  rewrite (H p) by (left; reflexivity). cbn. f_equal. apply IH. intros q Hq. apply H. right. exact Hq.
Qed.

(** ---- every prefix of a fault-free run with plain removals: closed form of the non-temp part of the directory *)
Definition run_ops (b : build) (w : list xop) (ro dl : list name) : list xop :=
  w ++ finish_ops b ro dl nofault nofault TNone.

Lemma In_firstn {A} (x : A) l k : In x (firstn k l) -> In x l.
Proof.
  revert k. induction l as [|y l IH]; intros k H; destruct k; cbn in *; try contradiction.
  destruct H as [H|H]; [left; exact H | right; eapply IH; exact H].
Qed.
Lemma NoDup_firstn' {A} (l : list A) k : NoDup l -> NoDup (firstn k l).
Proof.
  revert k. induction l as [|y l IH]; intros k H; destruct k; cbn; try constructor.
  - inversion H; subst. intro Hin. apply In_firstn in Hin. contradiction.
  - inversion H; subst. apply IH. assumption.
Qed.

Lemma artifacts_nontmp b a : In a (artifacts b) -> is_tmp a = false.
Proof.
  unfold artifacts. intro H. apply in_app_or in H. destruct H as [H|H].
  - apply in_map_iff in H. destruct H as (n & E & _). subst. reflexivity.
  - destruct (b_delta b); [|contradiction]. apply in_map_iff in H. destruct H as (n & E & _). subst. reflexivity.
Qed.

Lemma prefix_closed_form b w ro dl k :
  forallb tmp_only w = true ->
  tmps_ready b (apply_ops w (fs0 b)) ->
  NoDup ro -> (forall a, In a ro -> In a (artifacts b)) ->
  plain_dl b dl ->
  forall x, is_tmp x = false ->
  apply_ops (firstn k (run_ops b w ro dl)) (fs0 b) x =
    if memname x (firstn (k - length w - length ro) dl) then None
    else if memname x (firstn (k - length w) ro) then Some (Data GNew) else fs0 b x.
Proof.
  intros Hw Hrdy Hnd Hsub Hplain x Hx.
  unfold run_ops. rewrite finish_ops_ff. rewrite delete_ops_plain by exact Hplain.
  rewrite firstn_app, firstn_app. unfold rename_ops at 2. rewrite map_length.
  unfold rename_ops, remove_ops. rewrite !firstn_map.
  fold (rename_ops (firstn (k - length w) ro) nofault). fold (remove_ops (firstn (k - length w - length ro) dl)).
  rewrite !apply_ops_app. rewrite remove_phase.
  destruct (memname x (firstn (k - length w - length ro) dl)); [reflexivity|].
  assert (Hag : agree_nontmp (apply_ops (firstn k w) (fs0 b)) (fs0 b)).
  { apply apply_tmp_only; [apply forallb_firstn; exact Hw | apply agree_refl]. }
  rewrite rename_phase.
  - rewrite (Hag x Hx). reflexivity.
  - apply NoDup_firstn'. exact Hnd.
  - intros a Ha. apply In_firstn in Ha. eapply artifacts_nontmp. apply Hsub. exact Ha.
  - intros a Ha. destruct (le_lt_dec k (length w)) as [Hle|Hlt].
    + replace (k - length w) with 0 in Ha by lia. cbn in Ha. contradiction.
    + rewrite firstn_all2 by lia. apply Hrdy. apply Hsub. eapply In_firstn. exact Ha.
  - exact Hx.
Qed.

(** ---- membership in the artifact list and in toDelete *)
Lemma in_artifacts_shard b n : In (Shard (SReg n)) (artifacts b) <-> first_new b <= n < first_new b + b_nnew b.
Proof.
  unfold artifacts. rewrite in_app_iff, in_map_iff. split.
  - intros [(m & E & Hm)|H].
    + inversion E; subst. apply in_seq in Hm. exact Hm.
    + destruct (b_delta b); [|contradiction]. apply in_map_iff in H. destruct H as (m & E & _). discriminate.
  - intro H. left. exists n. split; [reflexivity | apply in_seq; exact H].
Qed.
Lemma in_artifacts_meta b n : In (Meta (SReg n)) (artifacts b) <-> b_delta b = true /\ n < b_nold b.
Proof.
  unfold artifacts. rewrite in_app_iff, in_map_iff. split.
  - intros [(m & E & _)|H]; [discriminate|].
    destruct (b_delta b); [|contradiction]. apply in_map_iff in H. destruct H as (m & E & Hm). inversion E; subst.
    apply in_seq in Hm. split; [reflexivity | lia].
  - intros [Hd Hn]. right. rewrite Hd. apply in_map_iff. exists n. split; [reflexivity | apply in_seq; lia].
Qed.
Lemma in_artifacts_comp b x : is_comp_name x = true -> ~ In x (artifacts b).
Proof.
  intros Hc H. unfold artifacts in H. apply in_app_or in H. destruct H as [H|H].
  - apply in_map_iff in H. destruct H as (m & E & _). subst. discriminate.
  - destruct (b_delta b); [|contradiction]. apply in_map_iff in H. destruct H as (m & E & _). subst. discriminate.
Qed.

Lemma NoDup_app' {A} (l m : list A) : NoDup l -> NoDup m -> (forall x, In x l -> ~ In x m) -> NoDup (l ++ m).
Proof.
  induction l as [|a l IH]; intros Hl Hm Hd; [exact Hm|]. cbn. inversion Hl; subst. constructor.
  - intro H. apply in_app_or in H. destruct H as [H|H]; [contradiction|]. apply (Hd a); [left; reflexivity | exact H].
  - apply IH; try assumption. intros x Hx. apply Hd. right. exact Hx.
Qed.
Lemma NoDup_map_inj {A B} (f : A -> B) l : (forall x y, f x = f y -> x = y) -> NoDup l -> NoDup (map f l).
Proof.
  intros Hinj. induction 1 as [|a l Hn Hnd IH]; cbn; constructor; [|exact IH].
  intro H. apply in_map_iff in H. destruct H as (y & E & Hy). apply Hinj in E. subst. contradiction.
Qed.
Lemma artifacts_NoDup b : NoDup (artifacts b).
Proof.
  unfold artifacts. apply NoDup_app'.
  - apply NoDup_map_inj; [intros x y E; inversion E; reflexivity | apply seq_NoDup].
  - destruct (b_delta b); [|constructor]. apply NoDup_map_inj; [intros x y E; inversion E; reflexivity | apply seq_NoDup].
  - intros x Hx H. apply in_map_iff in Hx. destruct Hx as (n & E & _). subst.
    destruct (b_delta b); [|contradiction]. apply in_map_iff in H. destruct H as (m & E & _). discriminate.
Qed.

Lemma in_old_files_reg b x :
  0 < b_nold b ->
  (In x (old_files b) <-> exists n, n < b_nold b /\ (x = Shard (SReg n) \/ (x = Meta (SReg n) /\ memn n (b_oldmeta b) = true))).
Proof.
  intro Hpos. unfold old_files. apply Nat.ltb_lt in Hpos. rewrite Hpos. rewrite in_flat_map. split.
  - intros (n & Hn & H). apply in_seq in Hn. exists n. split; [lia|]. cbn in H. destruct H as [H|H]; [left; congruence|].
    destruct (memn n (b_oldmeta b)); [|contradiction]. cbn in H. destruct H as [H|[]]. right. split; [congruence | reflexivity].
  - intros (n & Hn & H). exists n. split; [apply in_seq; lia|]. destruct H as [H|[H Hm]]; subst; [left; reflexivity|].
    right. rewrite Hm. left. reflexivity.
Qed.
Lemma in_old_files_comp b x :
  b_nold b = 0 ->
  (In x (old_files b) <-> b_comp b = true /\ (x = Shard SComp \/ (x = Meta SComp /\ b_compmeta b = true))).
Proof.
  intro H0. unfold old_files. rewrite H0. cbn. destruct (b_comp b); cbn.
  - split.
    + intros [H|H]; [split; [reflexivity | left; congruence]|].
      destruct (b_compmeta b); [|contradiction]. destruct H as [H|[]]. split; [reflexivity | right; split; congruence].
    + intros [_ [H|[H Hm]]]; subst; [left; reflexivity|]. right. rewrite Hm. left. reflexivity.
  - split; [contradiction | intros [H _]; discriminate].
Qed.

Lemma old_files_nontmp b x : In x (old_files b) -> is_tmp x = false.
Proof.
  destruct (Nat.eq_dec (b_nold b) 0) as [H0|H0].
  - intro H. apply (in_old_files_comp b x H0) in H. destruct H as [_ [H|[H _]]]; subst; reflexivity.
  - intro H. apply in_old_files_reg in H; [|lia]. destruct H as (n & _ & [H|[H _]]); subst; reflexivity.
Qed.

Lemma in_todel_after b ro x : In x (todel_after b ro nofault) <-> In x (todel0 b) /\ ~ In x ro.
Proof.
  unfold todel_after. rewrite filter_In. split.
  - intros [H1 H2]. split; [exact H1|]. intro Hin. apply negb_true_iff in H2.
    assert (existsb (fun a => name_eqb x a && negb (nofault a)) ro = true); [|congruence].
    apply existsb_exists. exists x. split; [exact Hin|]. rewrite name_eqb_refl. reflexivity.
  - intros [H1 H2]. split; [exact H1|]. apply negb_true_iff.
    destruct (existsb (fun a => name_eqb x a && negb (nofault a)) ro) eqn:E; [|reflexivity].
    apply existsb_exists in E. destruct E as (a & Ha & E). apply andb_true_iff in E. destruct E as [E _].
    apply name_eqb_eq in E. subst. contradiction.
Qed.

(** builds whose toDelete loop only removes files (no SetTombstone on a compound shard) *)
Definition plain_build (b : build) : Prop :=
  b_merging b = false \/ 0 < b_nold b \/ b_comp b = false \/ b_delta b = true.

Lemma plain_build_dl b ro dl : plain_build b -> Permutation dl (todel_after b ro nofault) -> plain_dl b dl.
Proof.
  intros Hp Hperm p Hin. apply (Permutation_in _ Hperm) in Hin. apply in_todel_after in Hin. destruct Hin as [Hin _].
  destruct (is_comp_name p) eqn:Hc; [|apply andb_false_r].
  unfold todel0 in Hin. destruct (b_delta b) eqn:Hd; [contradiction|].
  destruct (Nat.eq_dec (b_nold b) 0) as [H0|H0].
  - apply (in_old_files_comp b p H0) in Hin. destruct Hin as [Hcomp _].
    destruct Hp as [Hp|[Hp|[Hp|Hp]]]; try congruence; try lia. rewrite Hp. reflexivity.
  - apply in_old_files_reg in Hin; [|lia]. destruct Hin as (n & _ & [H|[H _]]); subst; discriminate.
Qed.

(** ---- boolean forms of the membership facts *)
Lemma bool_eq_iff (a b : bool) : (a = true <-> b = true) -> a = b.
Proof. destruct a, b; intros [H1 H2]; try reflexivity; [symmetry; apply H1; reflexivity | apply H2; reflexivity]. Qed.

Lemma mem_artifacts_shard b n :
  memname (Shard (SReg n)) (artifacts b) = (first_new b <=? n) && (n <? first_new b + b_nnew b).
Proof.
  apply bool_eq_iff. rewrite memname_In, in_artifacts_shard, andb_true_iff, Nat.leb_le, Nat.ltb_lt. reflexivity.
Qed.
Lemma mem_artifacts_meta b n : memname (Meta (SReg n)) (artifacts b) = b_delta b && (n <? b_nold b).
Proof.
  apply bool_eq_iff. rewrite memname_In, in_artifacts_meta, andb_true_iff, Nat.ltb_lt. reflexivity.
Qed.
Lemma mem_artifacts_comp b x : is_comp_name x = true -> memname x (artifacts b) = false.
Proof. intro H. apply memname_false. apply in_artifacts_comp. exact H. Qed.

Lemma mem_todel0_shard b n : memname (Shard (SReg n)) (todel0 b) = negb (b_delta b) && (n <? b_nold b).
Proof.
  apply bool_eq_iff. rewrite memname_In, andb_true_iff, negb_true_iff, Nat.ltb_lt. unfold todel0.
  destruct (b_delta b); [split; [contradiction | intros [H _]; discriminate]|].
  destruct (Nat.eq_dec (b_nold b) 0) as [H0|H0].
  - rewrite (in_old_files_comp b _ H0). split; [intros [_ [H|[H _]]]; discriminate | intros [_ H]; lia].
  - rewrite in_old_files_reg by lia. split.
    + intros (m & Hm & [H|[H _]]); inversion H; subst. split; [reflexivity | exact Hm].
    + intros [_ H]. exists n. split; [exact H | left; reflexivity].
Qed.
Lemma mem_todel0_meta b n :
  memname (Meta (SReg n)) (todel0 b) = negb (b_delta b) && (n <? b_nold b) && memn n (b_oldmeta b).
Proof.
  apply bool_eq_iff. rewrite memname_In, !andb_true_iff, negb_true_iff, Nat.ltb_lt. unfold todel0.
  destruct (b_delta b); [split; [contradiction | intros [[H _] _]; discriminate]|].
  destruct (Nat.eq_dec (b_nold b) 0) as [H0|H0].
  - rewrite (in_old_files_comp b _ H0). split; [intros [_ [H|[H _]]]; discriminate | intros [[_ H] _]; lia].
  - rewrite in_old_files_reg by lia. split.
    + intros (m & Hm & [H|[H Hmm]]); inversion H; subst. repeat split; assumption.
    + intros [[_ H] Hm]. exists n. split; [exact H | right; split; [reflexivity | exact Hm]].
Qed.
Lemma mem_todel0_scomp b :
  memname (Shard SComp) (todel0 b) = negb (b_delta b) && (b_nold b =? 0) && b_comp b.
Proof.
  apply bool_eq_iff. rewrite memname_In, !andb_true_iff, negb_true_iff, Nat.eqb_eq. unfold todel0.
  destruct (b_delta b); [split; [contradiction | intros [[H _] _]; discriminate]|].
  destruct (Nat.eq_dec (b_nold b) 0) as [H0|H0].
  - rewrite (in_old_files_comp b _ H0). split; [intros [H _]; repeat split; assumption | intros [_ H]; split; [exact H | left; reflexivity]].
  - rewrite in_old_files_reg by lia. split; [intros (m & _ & [H|[H _]]); discriminate | intros [[_ H] _]; contradiction].
Qed.
Lemma mem_todel0_mcomp b :
  memname (Meta SComp) (todel0 b) = negb (b_delta b) && (b_nold b =? 0) && b_comp b && b_compmeta b.
Proof.
  apply bool_eq_iff. rewrite memname_In, !andb_true_iff, negb_true_iff, Nat.eqb_eq. unfold todel0.
  destruct (b_delta b); [split; [contradiction | intros [[[H _] _] _]; discriminate]|].
  destruct (Nat.eq_dec (b_nold b) 0) as [H0|H0].
  - rewrite (in_old_files_comp b _ H0). split.
    + intros [H [H1|[_ H1]]]; [discriminate|]. repeat split; assumption.
    + intros [[[_ _] H] Hm]. split; [exact H | right; split; [reflexivity | exact Hm]].
  - rewrite in_old_files_reg by lia. split; [intros (m & _ & [H|[H _]]); discriminate | intros [[[_ H] _] _]; contradiction].
Qed.

Lemma mem_perm x l m : Permutation l m -> memname x l = memname x m.
Proof.
  intro H. apply bool_eq_iff. rewrite !memname_In. split; apply Permutation_in; [exact H | apply Permutation_sym; exact H].
Qed.
Lemma mem_todel_after b ro x :
  memname x (todel_after b ro nofault) = memname x (todel0 b) && negb (memname x ro).
Proof.
  apply bool_eq_iff. rewrite memname_In, in_todel_after, andb_true_iff, negb_true_iff, memname_In, memname_false. reflexivity.
Qed.

(** ---- fault-free runs *)
Record ff_run (b : build) (w : list xop) (ro dl : list name) : Prop := {
  ff_w : forallb tmp_only w = true;
  ff_ready : tmps_ready b (apply_ops w (fs0 b));
  ff_ro : Permutation ro (artifacts b);
  ff_dl : Permutation dl (todel_after b ro nofault) }.

Definition state_at (b : build) (w : list xop) (ro dl : list name) (k : nat) : fs :=
  apply_ops (firstn k (run_ops b w ro dl)) (fs0 b).

Lemma ff_NoDup_ro b w ro dl : ff_run b w ro dl -> NoDup ro.
Proof. intro H. eapply Permutation_NoDup; [apply Permutation_sym; apply (ff_ro _ _ _ _ H) | apply artifacts_NoDup]. Qed.

Lemma state_closed b w ro dl k x :
  plain_build b -> ff_run b w ro dl -> is_tmp x = false ->
  state_at b w ro dl k x =
    if memname x (firstn (k - length w - length ro) dl) then None
    else if memname x (firstn (k - length w) ro) then Some (Data GNew) else fs0 b x.
Proof.
  intros Hp H Hx. unfold state_at. apply prefix_closed_form; try assumption.
  - apply (ff_w _ _ _ _ H).
  - apply (ff_ready _ _ _ _ H).
  - eapply ff_NoDup_ro; exact H.
  - intros a Ha. eapply Permutation_in; [apply (ff_ro _ _ _ _ H) | exact Ha].
  - eapply plain_build_dl; [exact Hp | apply (ff_dl _ _ _ _ H)].
Qed.

(** a kill anywhere in phase W (any build, any faults inside W): the old index, unchanged *)
Lemma before_install_old b w rest k :
  forallb tmp_only w = true -> k <= length w ->
  view_eq (visible (apply_ops (firstn k (w ++ rest)) (fs0 b))) (view_old b).
Proof.
  intros Hw Hk. rewrite firstn_app. replace (k - length w) with 0 by lia. cbn [firstn]. rewrite app_nil_r.
  apply visible_agree. apply apply_tmp_only; [apply forallb_firstn; exact Hw | apply agree_refl].
Qed.

Lemma run_ops_length b w ro dl : plain_dl b dl -> length (run_ops b w ro dl) = length w + length ro + length dl.
Proof.
  intro Hp. unfold run_ops. rewrite finish_ops_ff. rewrite delete_ops_plain by exact Hp.
  rewrite !app_length. unfold rename_ops, remove_ops. rewrite !map_length. lia.
Qed.

Ltac bdestr :=
  repeat match goal with
         | |- context [?a <? ?b] => destruct (Nat.ltb_spec a b)
         | |- context [?a <=? ?b] => destruct (Nat.leb_spec a b)
         | |- context [?a =? ?b] => destruct (Nat.eqb_spec a b)
         end.

(** the complete run of a plain build installs exactly the new index *)
Lemma end_state_new b w ro dl k :
  plain_build b -> build_wf b -> ff_run b w ro dl -> length w + length ro + length dl <= k ->
  view_eq (visible (state_at b w ro dl k)) (view_new b).
Proof.
  intros Hp Hwf H Hk s. unfold visible.
  rewrite !(state_closed b w ro dl k) by (assumption || reflexivity).
  rewrite !firstn_all2 by lia.
  rewrite !(mem_perm _ _ _ (ff_dl _ _ _ _ H)), !mem_todel_after, !(mem_perm _ _ _ (ff_ro _ _ _ _ H)).
  destruct Hwf as [Hwf1 Hwf2].
  destruct s as [|n].
  - rewrite mem_todel0_scomp, mem_todel0_mcomp, !mem_artifacts_comp by reflexivity.
    unfold view_new, view_old, visible. cbn [fs0 negb andb].
    destruct (b_delta b) eqn:Hd; cbn [negb andb orb]; [reflexivity|].
    destruct (Nat.eqb_spec (b_nold b) 0) as [H0|H0]; cbn [andb].
    + rewrite H0. cbn [Nat.ltb Nat.leb orb].
      destruct (b_comp b) eqn:Hc; cbn [negb andb]; [|reflexivity].
      destruct Hp as [Hp|[Hp|[Hp|Hp]]]; try congruence; try lia. rewrite Hp. reflexivity.
    + destruct (Nat.ltb_spec 0 (b_nold b)); [|lia]. cbn [orb]. reflexivity.
  - rewrite mem_todel0_shard, mem_todel0_meta, mem_artifacts_shard, mem_artifacts_meta.
    unfold view_new, first_new. cbn [fs0].
    destruct (b_delta b) eqn:Hd; cbn [negb andb orb].
    + specialize (Hwf2 eq_refl). bdestr; cbn; try reflexivity; try lia.
    + specialize (Hwf1 eq_refl). destruct (memn n (b_oldmeta b)); bdestr; cbn; try reflexivity; try lia.
Qed.

(** ---- single-artifact installs are atomic at every prefix *)
Definition single_artifact (b : build) : Prop :=
  b_delta b = false /\ b_nnew b = 1 /\ b_nold b <= 1 /\ memn 0 (b_oldmeta b) = false /\ b_comp b = false.

Lemma nil_of_no_mem (l : list name) : (forall x, memname x l = false) -> l = [].
Proof. destruct l as [|a l]; [reflexivity|]. intro H. specialize (H a). cbn in H. rewrite name_eqb_refl in H. discriminate. Qed.

Lemma single_artifact_shape b w ro dl : single_artifact b -> ff_run b w ro dl -> length ro = 1 /\ dl = [].
Proof.
  intros (Hd & Hn & Ho & Hm & Hc) H. split.
  - rewrite (Permutation_length (ff_ro _ _ _ _ H)). unfold artifacts. rewrite Hd, Hn. reflexivity.
  - apply nil_of_no_mem. intro x.
    rewrite (mem_perm _ _ _ (ff_dl _ _ _ _ H)), mem_todel_after, (mem_perm _ _ _ (ff_ro _ _ _ _ H)).
    destruct x as [[|n]|[|n]|s|s].
    + rewrite mem_todel0_scomp, Hc, andb_false_r. reflexivity.
    + rewrite mem_todel0_shard, mem_artifacts_shard. unfold first_new. rewrite Hd, Hn. cbn [negb andb].
      bdestr; cbn; try reflexivity; lia.
    + rewrite mem_todel0_mcomp, Hc, andb_false_r. reflexivity.
    + rewrite mem_todel0_meta, Hd. cbn [negb andb]. bdestr; cbn; try reflexivity.
      replace n with 0 by lia. rewrite Hm. reflexivity.
    + assert (E : memname (TmpShard s) (todel0 b) = false); [|rewrite E; reflexivity].
      apply memname_false. intro Hin. unfold todel0 in Hin. rewrite Hd in Hin. apply old_files_nontmp in Hin. discriminate.
    + assert (E : memname (TmpMeta s) (todel0 b) = false); [|rewrite E; reflexivity].
      apply memname_false. intro Hin. unfold todel0 in Hin. rewrite Hd in Hin. apply old_files_nontmp in Hin. discriminate.
Qed.

Lemma atomic_single b w ro dl k :
  single_artifact b -> ff_run b w ro dl ->
  view_eq (visible (state_at b w ro dl k)) (view_old b) \/ view_eq (visible (state_at b w ro dl k)) (view_new b).
Proof.
  intros Hs H. destruct (single_artifact_shape b w ro dl Hs H) as [Hl Hdl].
  destruct Hs as (Hd & Hn & Ho & Hm & Hc).
  destruct (le_lt_dec k (length w)) as [Hk|Hk].
  - left. unfold state_at, run_ops. apply before_install_old; [apply (ff_w _ _ _ _ H) | exact Hk].
  - right. apply end_state_new; try assumption.
    + right. right. left. exact Hc.
    + split; intro; [lia | congruence].
    + subst dl. cbn. lia.
Qed.

(** ---- every prefix of a plain fault-free build: no partial file under a visible name, repository never missing *)
Lemma fs0_not_partial b x : fs0 b x <> Some Partial.
Proof.
  destruct x as [[|n]|[|n]|s|s]; cbn [fs0]; try discriminate;
    match goal with |- context [if ?c then _ else _] => destruct c end; discriminate.
Qed.

Lemma no_partial_visible b w ro dl k x :
  plain_build b -> ff_run b w ro dl -> is_tmp x = false -> state_at b w ro dl k x <> Some Partial.
Proof.
  intros Hp H Hx. rewrite state_closed by assumption.
  destruct (memname x _); [discriminate|]. destruct (memname x _); [discriminate|]. apply fs0_not_partial.
Qed.

(** the repository is served from somewhere: its shard 0 exists, or it is still alive in its compound shard *)
Definition served (f : fs) : Prop :=
  f (Shard (SReg 0)) <> None \/ (f (Shard SComp) <> None /\ f (Meta SComp) <> Some (Data GNew)).

Lemma firstn_pos_nonempty {A} (l : list A) j x : In x (firstn j l) -> 0 < j.
Proof. destruct j; cbn; [contradiction | lia]. Qed.

Lemma never_missing b w ro dl k :
  plain_build b -> build_wf b -> ff_run b w ro dl -> (0 < b_nold b \/ b_comp b = true) ->
  served (state_at b w ro dl k).
Proof.
  intros Hp [Hwf1 Hwf2] H Hold. unfold served.
  rewrite !(state_closed b w ro dl k) by (assumption || reflexivity).
  set (J := k - length w - length ro). set (I := k - length w).
  assert (Hdl0 : forall x, memname x (firstn J dl) = true -> In x (todel0 b) /\ ~ In x ro /\ length ro < I).
  { intros x Hm. apply memname_In in Hm. pose proof (firstn_pos_nonempty _ _ _ Hm) as Hpos.
    apply In_firstn in Hm. apply (Permutation_in _ (ff_dl _ _ _ _ H)) in Hm. apply in_todel_after in Hm.
    destruct Hm as [H1 H2]. repeat split; try assumption. subst J I. lia. }
  assert (Hcomp : forall x, is_comp_name x = true -> memname x (firstn I ro) = false).
  { intros x Hx. apply memname_false. intro Hin. apply In_firstn in Hin.
    apply (Permutation_in _ (ff_ro _ _ _ _ H)) in Hin. revert Hin. apply in_artifacts_comp. exact Hx. }
  destruct (b_delta b) eqn:Hd.
  - (* delta: nothing is ever deleted *)
    left. specialize (Hwf2 eq_refl).
    destruct (memname (Shard (SReg 0)) (firstn J dl)) eqn:E.
    + apply Hdl0 in E. destruct E as [E _]. unfold todel0 in E. rewrite Hd in E. contradiction.
    + destruct (memname (Shard (SReg 0)) (firstn I ro)); [discriminate|].
      cbn [fs0]. destruct (Nat.ltb_spec 0 (b_nold b)); [discriminate | lia].
  - specialize (Hwf1 eq_refl).
    assert (Hin0 : In (Shard (SReg 0)) ro).
    { apply (Permutation_in _ (Permutation_sym (ff_ro _ _ _ _ H))). apply in_artifacts_shard. unfold first_new. rewrite Hd. lia. }
    destruct (memname (Shard (SReg 0)) (firstn J dl)) eqn:E0.
    { apply Hdl0 in E0. destruct E0 as (_ & E0 & _). contradiction. }
    destruct (memname (Shard (SReg 0)) (firstn I ro)) eqn:E1; [left; discriminate|].
    (* shard 0 not yet renamed: then no deletion has happened *)
    assert (HJ : forall x, memname x (firstn J dl) = false).
    { intro x. destruct (memname x (firstn J dl)) eqn:E; [|reflexivity].
      apply Hdl0 in E. destruct E as (_ & _ & Hlen). exfalso.
      apply memname_false in E1. apply E1. subst I. rewrite firstn_all2 by lia. exact Hin0. }
    destruct Hold as [Hold|Hold].
    + left. cbn [fs0]. destruct (Nat.ltb_spec 0 (b_nold b)); [discriminate | lia].
    + right. rewrite !HJ, !Hcomp by reflexivity. cbn [fs0]. rewrite Hold. split; [discriminate|].
      destruct (true && b_compmeta b); discriminate.
Qed.

(** ---- builds that tombstone the repository in its compound shard (ShardMerging) *)
Definition tomb_build (b : build) : Prop :=
  b_merging b = true /\ b_nold b = 0 /\ b_comp b = true /\ b_delta b = false.

Lemma plain_or_tomb b : plain_build b \/ tomb_build b.
Proof.
  unfold plain_build, tomb_build.
  destruct (b_merging b); [|left; left; reflexivity].
  destruct (b_comp b); [|left; right; right; left; reflexivity].
  destruct (b_delta b); [left; right; right; right; reflexivity|].
  destruct (Nat.eq_dec (b_nold b) 0) as [E|E]; [right; repeat split; assumption | left; right; left; lia].
Qed.

Lemma todel_after_tomb b ro rf :
  tomb_build b -> (forall a, In a ro -> In a (artifacts b)) ->
  todel_after b ro rf = Shard SComp :: (if b_compmeta b then [Meta SComp] else []).
Proof.
  intros (Hm & H0 & Hc & Hd) Hsub. unfold todel_after, todel0, old_files. rewrite Hd, H0, Hc. cbn [Nat.ltb Nat.leb].
  assert (Hno : forall x, is_comp_name x = true -> existsb (fun a => name_eqb x a && negb (rf a)) ro = false).
  { intros x Hx. destruct (existsb _ ro) eqn:E; [|reflexivity]. apply existsb_exists in E. destruct E as (a & Ha & E).
    apply andb_true_iff in E. destruct E as [E _]. apply name_eqb_eq in E. subst a. apply Hsub in Ha.
    exfalso. revert Ha. apply in_artifacts_comp. exact Hx. }
  destruct (b_compmeta b); cbn [filter]; rewrite !Hno by reflexivity; reflexivity.
Qed.

Lemma tomb_delete b dl df tf e0 :
  b_merging b = true ->
  Permutation dl (Shard SComp :: (if b_compmeta b then [Meta SComp] else [])) ->
  delete_ops b dl df tf = fst (tomb_ops tf) /\ delete_err_fold false b dl df tf e0 = e0 || snd (tomb_ops tf).
Proof.
  intros Hm Hp.
  assert (Hcases : dl = [Shard SComp] \/ dl = [Shard SComp; Meta SComp] \/ dl = [Meta SComp; Shard SComp]).
  { destruct (b_compmeta b).
    - apply Permutation_sym, Permutation_length_2_inv in Hp. destruct Hp as [Hp|Hp]; auto.
    - apply Permutation_sym, Permutation_length_1_inv in Hp. auto. }
  unfold delete_ops, delete_err_fold, del_step.
  destruct Hcases as [E|[E|E]]; subst dl; cbn [flat_map fold_left]; rewrite Hm; cbn;
    rewrite ?app_nil_r, ?orb_false_r; split; reflexivity.
Qed.

Definition tomb3 : list xop := fst (tomb_ops TNone).

Lemma tomb3_prefix g j x :
  is_tmp x = false ->
  apply_ops (firstn j tomb3) g x = if (3 <=? j) && name_eqb x (Meta SComp) then Some (Data GNew) else g x.
Proof.
  intro Hx. unfold tomb3. cbn [tomb_ops fst].
  destruct j as [|[|[|j]]]; cbn [firstn apply_ops fold_left apply_op Nat.leb andb].
  - reflexivity.
  - rewrite upd_other; [reflexivity | intro E; subst; discriminate].
  - rewrite upd_same. rewrite upd_other by (intro E; subst; discriminate).
    rewrite upd_other; [reflexivity | intro E; subst; discriminate].
  - rewrite firstn_nil. cbn [fold_left]. repeat (rewrite upd_same; cbv iota).
    destruct (name_eqb x (Meta SComp)) eqn:E.
    + apply name_eqb_eq in E. subst. apply upd_same.
    + apply name_eqb_neq in E. rewrite upd_other by exact E.
      rewrite !upd_other by (intro E2; subst; discriminate). reflexivity.
Qed.

Lemma state_closed_tomb b w ro dl k x :
  tomb_build b -> ff_run b w ro dl -> is_tmp x = false ->
  state_at b w ro dl k x =
    if (3 <=? k - length w - length ro) && name_eqb x (Meta SComp) then Some (Data GNew)
    else if memname x (firstn (k - length w) ro) then Some (Data GNew) else fs0 b x.
Proof.
  intros Ht H Hx. unfold state_at, run_ops. rewrite finish_ops_ff.
  assert (Hsub : forall a, In a ro -> In a (artifacts b)).
  { intros a Ha. eapply Permutation_in; [apply (ff_ro _ _ _ _ H) | exact Ha]. }
  pose proof (ff_dl _ _ _ _ H) as Hdl. rewrite (todel_after_tomb b ro nofault Ht Hsub) in Hdl.
  destruct Ht as (Hm & H0 & Hc & Hd).
  destruct (tomb_delete b dl nofault TNone false Hm Hdl) as [Hops _]. rewrite Hops. fold tomb3.
  rewrite firstn_app, firstn_app. unfold rename_ops at 2. rewrite map_length.
  unfold rename_ops. rewrite firstn_map. fold (rename_ops (firstn (k - length w) ro) nofault).
  rewrite !apply_ops_app. rewrite tomb3_prefix by exact Hx.
  destruct ((3 <=? k - length w - length ro) && name_eqb x (Meta SComp)); [reflexivity|].
  assert (Hag : agree_nontmp (apply_ops (firstn k w) (fs0 b)) (fs0 b)).
  { apply apply_tmp_only; [apply forallb_firstn; apply (ff_w _ _ _ _ H) | apply agree_refl]. }
  rewrite rename_phase.
  - rewrite (Hag x Hx). reflexivity.
  - apply NoDup_firstn'. eapply ff_NoDup_ro; exact H.
  - intros a Ha. apply In_firstn in Ha. eapply artifacts_nontmp. apply Hsub. exact Ha.
  - intros a Ha. destruct (le_lt_dec k (length w)) as [Hle|Hlt].
    + replace (k - length w) with 0 in Ha by lia. cbn in Ha. contradiction.
    + rewrite firstn_all2 by lia. apply (ff_ready _ _ _ _ H). apply Hsub. eapply In_firstn. exact Ha.
  - exact Hx.
Qed.

Lemma end_state_new_tomb b w ro dl k :
  tomb_build b -> build_wf b -> ff_run b w ro dl -> length w + length ro + 3 <= k ->
  view_eq (visible (state_at b w ro dl k)) (view_new b).
Proof.
  intros Ht [Hwf1 _] H Hk s. unfold visible.
  rewrite !(state_closed_tomb b w ro dl k) by (assumption || reflexivity).
  rewrite !firstn_all2 by lia. rewrite !(mem_perm _ _ _ (ff_ro _ _ _ _ H)).
  destruct (Nat.leb_spec 3 (k - length w - length ro)) as [Hle3|Hle3]; [|lia].
  destruct Ht as (Hm & H0 & Hc & Hd). specialize (Hwf1 Hd).
  destruct s as [|n]; cbn [andb name_eqb slot_eqb].
  - rewrite mem_artifacts_comp by reflexivity. unfold view_new. cbn [fs0]. rewrite Hd, H0, Hc, Hm. reflexivity.
  - rewrite mem_artifacts_shard, mem_artifacts_meta. unfold view_new, first_new. cbn [fs0]. rewrite Hd, H0.
    cbn [andb]. bdestr; cbn; try reflexivity; lia.
Qed.

Lemma no_partial_visible_tomb b w ro dl k x :
  tomb_build b -> ff_run b w ro dl -> is_tmp x = false -> state_at b w ro dl k x <> Some Partial.
Proof.
  intros Hp H Hx. rewrite state_closed_tomb by assumption.
  destruct (_ && _); [discriminate|]. destruct (memname x _); [discriminate|]. apply fs0_not_partial.
Qed.

Lemma never_missing_tomb b w ro dl k :
  tomb_build b -> build_wf b -> ff_run b w ro dl -> served (state_at b w ro dl k).
Proof.
  intros Ht [Hwf1 _] H. unfold served.
  rewrite !(state_closed_tomb b w ro dl k) by (assumption || reflexivity).
  pose proof Ht as (Hm & H0 & Hc & Hd). specialize (Hwf1 Hd).
  assert (Hin0 : In (Shard (SReg 0)) ro).
  { apply (Permutation_in _ (Permutation_sym (ff_ro _ _ _ _ H))). apply in_artifacts_shard. unfold first_new. rewrite Hd. lia. }
  assert (Hcomp : forall x, is_comp_name x = true -> memname x (firstn (k - length w) ro) = false).
  { intros x Hx. apply memname_false. intro Hin. apply In_firstn in Hin.
    apply (Permutation_in _ (ff_ro _ _ _ _ H)) in Hin. revert Hin. apply in_artifacts_comp. exact Hx. }
  cbn [name_eqb slot_eqb andb]. rewrite andb_false_r, andb_true_r.
  destruct (Nat.leb_spec 3 (k - length w - length ro)) as [Hj|Hj].
  - left. rewrite firstn_all2 by lia. apply memname_In in Hin0. rewrite Hin0. discriminate.
  - right. rewrite !Hcomp by reflexivity. cbn [fs0]. rewrite Hc. split; [discriminate|].
    destruct (true && b_compmeta b); discriminate.
Qed.

(** ---- all builds: the three prefix facts and the end state *)
Lemma run_ops_length_tomb b w ro dl :
  tomb_build b -> ff_run b w ro dl -> length (run_ops b w ro dl) = length w + length ro + 3.
Proof.
  intros Ht H. unfold run_ops. rewrite finish_ops_ff.
  assert (Hsub : forall a, In a ro -> In a (artifacts b)).
  { intros a Ha. eapply Permutation_in; [apply (ff_ro _ _ _ _ H) | exact Ha]. }
  pose proof (ff_dl _ _ _ _ H) as Hdl. rewrite (todel_after_tomb b ro nofault Ht Hsub) in Hdl.
  destruct Ht as (Hm & _). destruct (tomb_delete b dl nofault TNone false Hm Hdl) as [Hops _]. rewrite Hops.
  rewrite !app_length. unfold rename_ops. rewrite map_length. cbn. lia.
Qed.

Lemma complete_run_new b w ro dl :
  build_wf b -> ff_run b w ro dl ->
  view_eq (visible (apply_ops (run_ops b w ro dl) (fs0 b))) (view_new b).
Proof.
  intros Hwf H. rewrite <- (firstn_all (run_ops b w ro dl)). fold (state_at b w ro dl (length (run_ops b w ro dl))).
  destruct (plain_or_tomb b) as [Hp|Ht].
  - apply end_state_new; try assumption. rewrite run_ops_length; [lia|].
    eapply plain_build_dl; [exact Hp | apply (ff_dl _ _ _ _ H)].
  - apply end_state_new_tomb; try assumption. rewrite run_ops_length_tomb by assumption. lia.
Qed.

Lemma no_partial_any b w ro dl k x :
  ff_run b w ro dl -> is_tmp x = false -> state_at b w ro dl k x <> Some Partial.
Proof.
  intros H Hx. destruct (plain_or_tomb b); [apply no_partial_visible | apply no_partial_visible_tomb]; assumption.
Qed.

Lemma never_missing_any b w ro dl k :
  build_wf b -> ff_run b w ro dl -> (0 < b_nold b \/ b_comp b = true) -> served (state_at b w ro dl k).
Proof.
  intros Hwf H Hold. destruct (plain_or_tomb b); [apply never_missing | apply never_missing_tomb]; assumption.
Qed.

(** ---- faults: a run that reports success performed exactly the fault-free operations *)
Lemma delete_err_fold_false b dl df tf : forall e0,
  delete_err_fold false b dl df tf e0 = e0 || existsb (fun p => snd (del_step b df tf p)) dl.
Proof.
  unfold delete_err_fold. induction dl as [|p dl IH]; intro e0; cbn [fold_left existsb andb].
  - rewrite orb_false_r. reflexivity.
  - rewrite IH. rewrite orb_assoc. reflexivity.
Qed.

Lemma existsb_false_forall {A} (p : A -> bool) l : existsb p l = false -> forall x, In x l -> p x = false.
Proof.
  intros H x Hx. destruct (p x) eqn:E; [|reflexivity].
  assert (existsb p l = true) by (apply existsb_exists; exists x; split; assumption). congruence.
Qed.

Lemma rename_ops_no_fault ro rf : existsb rf ro = false -> rename_ops ro rf = rename_ops ro nofault.
Proof.
  intro Hr. pose proof (existsb_false_forall _ _ Hr) as Hrf.
  unfold rename_ops. apply map_ext_in. intros a Ha. rewrite (Hrf a Ha). reflexivity.
Qed.
Lemma todel_after_no_fault b ro rf : existsb rf ro = false -> todel_after b ro rf = todel_after b ro nofault.
Proof.
  intro Hr. pose proof (existsb_false_forall _ _ Hr) as Hrf. unfold todel_after.
  assert (Hex : forall x, existsb (fun a => name_eqb x a && negb (rf a)) ro = existsb (fun a => name_eqb x a && negb (nofault a)) ro).
  { intro x. clear Hr. induction ro as [|a ro IH]; [reflexivity|]. cbn [existsb].
    rewrite (Hrf a (or_introl eq_refl)). rewrite IH; [reflexivity|]. intros y Hy. apply Hrf. right. exact Hy. }
  apply filter_ext. intro x. rewrite Hex. reflexivity.
Qed.

Lemma success_means_fault_free b ro dl rf df tf :
  finish_err b ro dl rf df tf = false ->
  finish_ops b ro dl rf df tf = finish_ops b ro dl nofault nofault TNone /\
  todel_after b ro rf = todel_after b ro nofault.
Proof.
  unfold finish_err, finish_err_gen. cbn [andb]. destruct (existsb rf ro) eqn:Hr; [discriminate|].
  rewrite delete_err_fold_false. cbn [orb]. intro Hd.
  pose proof (existsb_false_forall _ _ Hd) as Hdf.
  split.
  - rewrite finish_ops_ff. unfold finish_ops, finish_ops_gen. rewrite Hr. cbn [andb]. f_equal.
    + apply rename_ops_no_fault. exact Hr.
    + unfold delete_ops.
      assert (Hext : forall l, (forall p, In p l -> snd (del_step b df tf p) = false) ->
                          flat_map (fun p => fst (del_step b df tf p)) l = flat_map (fun p => fst (del_step b nofault TNone p)) l).
      { induction l as [|p l IH]; intro Hl; [reflexivity|]. cbn [flat_map]. f_equal.
        - specialize (Hl p (or_introl eq_refl)). unfold del_step in *.
          destruct (b_merging b && is_comp_name p).
          + destruct (name_eqb p (Shard SComp)); [|reflexivity]. destruct tf; cbn in Hl; try discriminate. reflexivity.
          + cbn in Hl. rewrite Hl. reflexivity.
        - apply IH. intros q Hq. apply Hl. right. exact Hq. }
      apply Hext. exact Hdf.
  - apply todel_after_no_fault. exact Hr.
Qed.

Lemma success_complete b w ro dl rf df tf :
  build_wf b -> forallb tmp_only w = true -> tmps_ready b (apply_ops w (fs0 b)) ->
  Permutation ro (artifacts b) -> Permutation dl (todel_after b ro rf) ->
  finish_err b ro dl rf df tf = false ->
  view_eq (visible (apply_ops (w ++ finish_ops b ro dl rf df tf) (fs0 b))) (view_new b).
Proof.
  intros Hwf Hw Hrdy Hro Hdl Herr. destruct (success_means_fault_free _ _ _ _ _ _ Herr) as [Hops Htd].
  rewrite Hops. rewrite Htd in Hdl. apply (complete_run_new b w ro dl Hwf). constructor; assumption.
Qed.

(** ---- order: every install rename precedes every removal / tombstoning of an old file *)
Definition is_install_rename (o : xop) : bool :=
  match fst o with ORename _ b => negb (is_tmp b) && negb (name_eqb b (Meta SComp)) | _ => false end.
Definition is_removal (o : xop) : bool :=
  match fst o with ORemove p => negb (is_tmp p) | ORename _ b => name_eqb b (Meta SComp) | _ => false end.

Lemma delete_ops_no_install b dl df tf o : In o (delete_ops b dl df tf) -> is_install_rename o = false.
Proof.
  unfold delete_ops. intro H. apply in_flat_map in H. destruct H as (p & _ & H). unfold del_step in H.
  destruct (b_merging b && is_comp_name p).
  - destruct (name_eqb p (Shard SComp)); [|contradiction].
    destruct tf; cbn in H; repeat (destruct H as [H|H]; [subst o; reflexivity|]); contradiction.
  - cbn in H. destruct H as [H|[]]. subst o. reflexivity.
Qed.
Lemma rename_ops_no_removal b ro rf o :
  (forall a, In a ro -> In a (artifacts b)) -> In o (rename_ops ro rf) -> is_removal o = false.
Proof.
  intros Hsub H. unfold rename_ops in H. apply in_map_iff in H. destruct H as (a & E & Ha). subst o. cbn.
  apply name_eqb_neq. intro E. subst a. apply Hsub in Ha. revert Ha. apply in_artifacts_comp. reflexivity.
Qed.

Lemma deletes_after_renames b ro dl rf df tf i j o1 o2 :
  (forall a, In a ro -> In a (artifacts b)) ->
  nth_error (finish_ops b ro dl rf df tf) i = Some o1 -> is_removal o1 = true ->
  nth_error (finish_ops b ro dl rf df tf) j = Some o2 -> is_install_rename o2 = true ->
  j < i.
Proof.
  intros Hsub H1 Hr H2 Hi. unfold finish_ops, finish_ops_gen in *.
  destruct (le_lt_dec (length (rename_ops ro rf)) j) as [Hj|Hj].
  - rewrite nth_error_app2 in H2 by exact Hj. apply nth_error_In in H2.
    destruct (true && existsb rf ro); [contradiction|].
    apply delete_ops_no_install in H2. congruence.
  - destruct (le_lt_dec (length (rename_ops ro rf)) i) as [Hi'|Hi']; [lia|].
    rewrite nth_error_app1 in H1 by exact Hi'. apply nth_error_In in H1.
    apply (rename_ops_no_removal b) in H1; [congruence | exact Hsub].
Qed.

(** ---- the sequential write phase is an instance of phase W *)
Lemma write_phase_tmp_only b : forallb tmp_only (write_phase b) = true.
Proof.
  unfold write_phase. rewrite forallb_app. apply andb_true_iff. split.
  - apply forallb_forall. intros o H. apply in_flat_map in H. destruct H as (n & _ & H).
    cbn in H. repeat (destruct H as [H|H]; [subst o; reflexivity|]). contradiction.
  - destruct (b_delta b); [|reflexivity]. apply forallb_forall. intros o H. apply in_flat_map in H. destruct H as (n & _ & H).
    cbn in H. repeat (destruct H as [H|H]; [subst o; reflexivity|]). contradiction.
Qed.

(** ---- the sequential write phase completes every temp file (so [ff_run] is inhabited for EVERY build) *)
Lemma apply_write_shard f s :
  forall x, apply_ops (write_shard s) f x = if name_eqb x (TmpShard s) then Some (Data GNew) else f x.
Proof.
  intro x. unfold write_shard. cbn [apply_ops fold_left apply_op].
  repeat (rewrite upd_same; cbv iota).
  destruct (name_eqb x (TmpShard s)) eqn:E.
  - apply name_eqb_eq in E. subst. apply upd_same.
  - apply name_eqb_neq in E. rewrite !upd_other by exact E. reflexivity.
Qed.
Lemma apply_write_meta f s :
  forall x, apply_ops (write_meta s) f x = if name_eqb x (TmpMeta s) then Some (Data GNew) else f x.
Proof.
  intro x. unfold write_meta. cbn [apply_ops fold_left apply_op].
  repeat (rewrite upd_same; cbv iota).
  destruct (name_eqb x (TmpMeta s)) eqn:E.
  - apply name_eqb_eq in E. subst. apply upd_same.
  - apply name_eqb_neq in E. rewrite !upd_other by exact E. reflexivity.
Qed.

Lemma apply_write_shards l : forall f x,
  apply_ops (flat_map (fun n => write_shard (SReg n)) l) f x =
  if existsb (fun n => name_eqb x (TmpShard (SReg n))) l then Some (Data GNew) else f x.
Proof.
  induction l as [|n l IH]; intros f x; [reflexivity|].
  cbn [flat_map existsb]. rewrite apply_ops_app, IH, apply_write_shard.
  destruct (name_eqb x (TmpShard (SReg n))); cbn [orb]; [destruct (existsb _ l); reflexivity | reflexivity].
Qed.
Lemma apply_write_metas l : forall f x,
  apply_ops (flat_map (fun n => write_meta (SReg n)) l) f x =
  if existsb (fun n => name_eqb x (TmpMeta (SReg n))) l then Some (Data GNew) else f x.
Proof.
  induction l as [|n l IH]; intros f x; [reflexivity|].
  cbn [flat_map existsb]. rewrite apply_ops_app, IH, apply_write_meta.
  destruct (name_eqb x (TmpMeta (SReg n))); cbn [orb]; [destruct (existsb _ l); reflexivity | reflexivity].
Qed.

Lemma write_phase_ready b : tmps_ready b (apply_ops (write_phase b) (fs0 b)).
Proof.
  intros a Ha. unfold write_phase. rewrite apply_ops_app.
  unfold artifacts in Ha. apply in_app_or in Ha. destruct Ha as [Ha|Ha].
  - apply in_map_iff in Ha. destruct Ha as (n & E & Hn). subst a. cbn [tmp_of].
    assert (Hs : apply_ops (flat_map (fun n0 => write_shard (SReg n0)) (seq (first_new b) (b_nnew b))) (fs0 b) (TmpShard (SReg n)) = Some (Data GNew)).
    { rewrite apply_write_shards.
      assert (E : existsb (fun n0 => name_eqb (TmpShard (SReg n)) (TmpShard (SReg n0))) (seq (first_new b) (b_nnew b)) = true).
      { apply existsb_exists. exists n. split; [exact Hn | apply name_eqb_refl]. }
      rewrite E. reflexivity. }
    destruct (b_delta b); [|exact Hs].
    rewrite apply_write_metas.
    assert (E : existsb (fun n0 => name_eqb (TmpShard (SReg n)) (TmpMeta (SReg n0))) (seq 0 (b_nold b)) = false).
    { destruct (existsb _ _) eqn:E; [|reflexivity]. apply existsb_exists in E. destruct E as (m & _ & E). discriminate. }
    rewrite E. exact Hs.
  - destruct (b_delta b); [|contradiction]. apply in_map_iff in Ha. destruct Ha as (n & E & Hn). subst a. cbn [tmp_of].
    rewrite apply_write_metas.
    assert (E : existsb (fun n0 => name_eqb (TmpMeta (SReg n)) (TmpMeta (SReg n0))) (seq 0 (b_nold b)) = true).
    { apply existsb_exists. exists n. split; [exact Hn | apply name_eqb_refl]. }
    rewrite E. reflexivity.
Qed.

Lemma sequential_build_is_ff_run b :
  ff_run b (write_phase b) (artifacts b) (todel_after b (artifacts b) nofault).
Proof.
  constructor; [apply write_phase_tmp_only | apply write_phase_ready | apply Permutation_refl | apply Permutation_refl].
Qed.
