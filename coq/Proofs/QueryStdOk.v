(** The concrete reference semantics of Model/QueryStd.v satisfies the hypotheses of the C05
    theorems (non-vacuity), and two facts showing that hypotheses / the repaired rule are needed. *)
From ZV Require Import Lib.Base Model.Query Model.QueryStd.

Lemma contains_nil (t : str) : contains [] t = true.
Proof. unfold contains. destruct t; reflexivity. Qed.

Theorem std_atoms_ok (rx_match : rx -> bool -> str -> bool) : atoms_ok (std_atoms rx_match).
Proof.
  constructor; simpl.
  - intros cs nm d. unfold std_substr. destruct cs; simpl; apply contains_nil.
  - intros re cs nm d H. unfold std_regexp. rewrite H. reflexivity.
  - intros d. unfold std_branch, cd_all_branches. simpl. now rewrite contains_nil.
Qed.

(** the language law holds for a document whose language is a key of the shard's LanguageMap *)
Lemma str_eqb_eq (a b : str) : str_eqb a b = true -> a = b.
Proof.
  unfold str_eqb. revert b. induction a as [|x a IH]; intros [|y b]; simpl; try discriminate; [reflexivity|].
  intros H. apply andb_prop in H. destruct H as [H1 H2]. apply N.eqb_eq in H1. subst. f_equal. now apply IH.
Qed.

Lemma std_langs_closed (rx_match : rx -> bool -> str -> bool) (sh : shard) (d : cdoc) :
  mem_str (cd_lang d) (sh_langs sh) = true -> langs_closed (std_atoms rx_match) sh d.
Proof.
  intros H l Hl. simpl in Hl. apply str_eqb_eq in Hl. now subst.
Qed.
