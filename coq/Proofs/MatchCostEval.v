(** The cost-level loop of indexData.Search always decides (Model/MatchCostEval.v): at the level where the loop would
    panic no leaf may defer (generated guard constants), and the combinators of composite nodes only defer when a
    child does. *)
From ZV Require Import Lib.Base Generated.MatchCost Model.MatchCostEval Proofs.JsonApiTotal.
Open Scope N_scope.

Section ObsInd.
  Variable P : obs -> Prop.
  Hypothesis H : forall k s cs, Forall P cs -> P (ONode k s cs).
  Fixpoint obs_ind2 (o : obs) : P o :=
    match o with
    | ONode k s cs => H k s cs ((fix go (l : list obs) : Forall P l :=
                                  match l with [] => Forall_nil P | x :: r => Forall_cons x (obs_ind2 x) (go r) end) cs)
    end.
End ObsInd.

Lemma and_loop_decides l : forall st, st <> SHigher -> Forall (fun s => s <> SHigher) l -> and_loop l st <> SHigher.
Proof.
  induction l as [|s l IH]; intros st Hst Hl; simpl; [exact Hst|].
  inversion Hl as [|? ? Hs Hl']; subst. destruct s; [apply IH; assumption | discriminate | contradiction].
Qed.

Lemma or_loop_decides l : forall st, st <> SHigher -> Forall (fun s => s <> SHigher) l -> or_loop l st <> SHigher.
Proof.
  induction l as [|s l IH]; intros st Hst Hl; simpl; [exact Hst|].
  inversion Hl as [|? ? Hs Hl']; subst. destruct s; [|apply IH; assumption | contradiction].
  apply IH; [|assumption]. destruct st; try discriminate. contradiction.
Qed.

Lemma mstate_eqb_eq a b : mstate_eqb a b = true -> a = b.
Proof. destruct a, b; simpl; intro Hx; try reflexivity; discriminate. Qed.

Definition all_ok (cost : N) (l : list obs) : bool :=
  (fix all (l : list obs) : bool := match l with [] => true | c :: r => obs_ok cost c && all r end) l.

Lemma all_ok_Forall cost l : all_ok cost l = true -> Forall (fun c => obs_ok cost c = true) l.
Proof.
  induction l as [|c l IH]; simpl; intro Hx; [constructor|].
  apply andb_true_iff in Hx. destruct Hx as [H1 H2]. constructor; [exact H1 | apply IH; exact H2].
Qed.

(** a consistent annotated tree is decided at any level at which no leaf kind may defer *)
Lemma obs_decided cost :
  (forall k, may_defer k cost = false) ->
  forall o, obs_ok cost o = true -> root_state o <> SHigher.
Proof.
  intros Hnd o. induction o as [k s cs IH] using obs_ind2. intro Hok.
  cbn [obs_ok] in Hok. apply andb_true_iff in Hok. destruct Hok as [Hall Hk].
  change (all_ok cost cs = true) in Hall. apply all_ok_Forall in Hall.
  assert (Hch : Forall (fun st => st <> SHigher) (map root_state cs)).
  { clear Hk. induction cs as [|c cs IHcs]; simpl; [constructor|].
    inversion IH as [|? ? Hc IH']; subst. inversion Hall as [|? ? Hc2 Hall']; subst.
    constructor; [apply Hc; exact Hc2 | apply IHcs; assumption]. }
  simpl root_state. destruct (comb_of k) eqn:Hcomb.
  - apply mstate_eqb_eq in Hk. subst s. apply and_loop_decides; [discriminate | exact Hch].
  - pose proof (and_loop_decides (map root_state cs) SFound ltac:(discriminate) Hch) as Ha.
    destruct (and_loop (map root_state cs) SFound) eqn:Ea.
    + destruct s; try discriminate.
    + apply mstate_eqb_eq in Hk. subst s. discriminate.
    + contradiction.
  - apply mstate_eqb_eq in Hk. subst s. apply or_loop_decides; [discriminate | exact Hch].
  - destruct (map root_state cs) as [|c [|c2 r]] eqn:Em; try discriminate.
    apply mstate_eqb_eq in Hk. subst s. inversion Hch as [|? ? Hc _]; subst.
    destruct c; try discriminate. contradiction.
  - destruct (map root_state cs) as [|c [|c2 r]] eqn:Em; try discriminate.
    apply mstate_eqb_eq in Hk. subst s. inversion Hch as [|? ? Hc _]; subst. exact Hc.
  - destruct s; try discriminate. rewrite Hnd in Hk. discriminate.
Qed.

(** the generated tables: the hand-written combinators cover exactly the composite kinds, leaves defer only under
    `cost < X` guards, and no X exceeds the level at which the loop panics *)
Lemma generated_kinds_ok : kinds_ok = true.
Proof. vm_compute. reflexivity. Qed.
Lemma generated_thresholds_ok : thresholds_ok = true.
Proof. vm_compute. reflexivity. Qed.
Lemma no_defer_at_panic_level : forall k, may_defer k loop_panic_at = false.
Proof. intro k. destruct k; vm_compute; reflexivity. Qed.

Lemma search_loop_always_decides :
  forall levels : list (N * obs),
    Forall (fun p => obs_ok (fst p) (snd p) = true) levels -> nopanic (cost_loop levels).
Proof.
  induction levels as [|[c o] r IH]; intro Hl; simpl; [exact I|].
  inversion Hl as [|? ? Ho Hr]; subst. simpl in Ho.
  destruct (root_state o) eqn:Es; [apply IH; exact Hr | exact I |].
  destruct (c =? loop_panic_at) eqn:Ec; [|apply IH; exact Hr].
  apply N.eqb_eq in Ec. subst c. exfalso.
  apply (obs_decided loop_panic_at no_defer_at_panic_level o Ho). exact Es.
Qed.
