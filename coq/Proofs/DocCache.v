(** Proofs about Model/DocCache.v (C04). *)
From ZV Require Import Lib.Base Model.DocCache.

(** ---- heap ---- *)
Lemma set_cursor_length : forall h a c, length (set_cursor h a c) = length h.
Proof. induction h as [|x h IH]; intros [|a] c; cbn; auto. Qed.

Lemma get_set_same : forall h a c, a < length h -> get_cursor (set_cursor h a c) a = c.
Proof.
  unfold get_cursor. induction h as [|x h IH]; intros [|a] c H; cbn in *; try lia; [reflexivity|].
  apply IH. lia.
Qed.

Lemma get_set_other : forall h a b c, a <> b -> get_cursor (set_cursor h a c) b = get_cursor h b.
Proof.
  unfold get_cursor. induction h as [|x h IH]; intros [|a] [|b] c H; cbn; try reflexivity; try lia.
  apply IH. lia.
Qed.

Fixpoint leaves (t : mt) : list nat :=
  match t with
  | MDoc a _ => [a] | MBrute a => [a] | MNone => []
  | MAnd a b => leaves a ++ leaves b | MOr a b => leaves a ++ leaves b
  | MNot a => leaves a
  end.

Lemma prepare_length : forall t h d, length (prepare h t d) = length h.
Proof.
  induction t as [a p|a| |a IHa b IHb|a IHa b IHb|a IHa]; intros h d; cbn;
    try apply set_cursor_length; try reflexivity; try (rewrite IHb, IHa; reflexivity). apply IHa.
Qed.

Lemma prepare_get : forall t h d x,
  (forall a, In a (leaves t) -> a < length h) ->
  (In x (leaves t) -> get_cursor (prepare h t d) x = (true, d)) /\
  (~ In x (leaves t) -> get_cursor (prepare h t d) x = get_cursor h x).
Proof.
  induction t as [a p|a| |a IHa b IHb|a IHa b IHb|a IHa]; intros h d x Hwf; cbn [leaves prepare In] in *.
  - split; [intros [<-|[]]; apply get_set_same; apply Hwf; now left | intros H; apply get_set_other; tauto].
  - split; [intros [<-|[]]; apply get_set_same; apply Hwf; now left | intros H; apply get_set_other; tauto].
  - split; [intros [] | reflexivity].
  - assert (Ha : forall a0, In a0 (leaves a) -> a0 < length h) by (intros; apply Hwf, in_or_app; now left).
    assert (Hb : forall a0, In a0 (leaves b) -> a0 < length (prepare h a d))
      by (intros; rewrite prepare_length; apply Hwf, in_or_app; now right).
    destruct (IHa h d x Ha) as [A1 A2]. destruct (IHb (prepare h a d) d x Hb) as [B1 B2].
    split.
    + intros Hin. destruct (in_dec Nat.eq_dec x (leaves b)) as [Hxb|Hxb]; [now apply B1|].
      rewrite (B2 Hxb). apply A1. apply in_app_or in Hin. tauto.
    + intros Hn. rewrite B2, A2; [reflexivity | |]; intro; apply Hn, in_or_app; tauto.
  - assert (Ha : forall a0, In a0 (leaves a) -> a0 < length h) by (intros; apply Hwf, in_or_app; now left).
    assert (Hb : forall a0, In a0 (leaves b) -> a0 < length (prepare h a d))
      by (intros; rewrite prepare_length; apply Hwf, in_or_app; now right).
    destruct (IHa h d x Ha) as [A1 A2]. destruct (IHb (prepare h a d) d x Hb) as [B1 B2].
    split.
    + intros Hin. destruct (in_dec Nat.eq_dec x (leaves b)) as [Hxb|Hxb]; [now apply B1|].
      rewrite (B2 Hxb). apply A1. apply in_app_or in Hin. tauto.
    + intros Hn. rewrite B2, A2; [reflexivity | |]; intro; apply Hn, in_or_app; tauto.
  - apply IHa. exact Hwf.
Qed.

(** every node of the tree has the same cursor [c] *)
Definition synced (h : heap) (t : mt) (c : cursor) : Prop :=
  forall a, In a (leaves t) -> a < length h /\ get_cursor h a = c.

Lemma synced_prepare : forall h t c d, synced h t c -> synced (prepare h t d) t (true, d).
Proof.
  intros h t c d H a Ha. rewrite prepare_length. split; [apply (H a Ha)|].
  apply prepare_get; [|exact Ha]. intros x Hx. apply (H x Hx).
Qed.

Definition start_of (c : cursor) : nat := if fst c then S (snd c) else 0.

(** ---- nextDoc never skips a matching document ---- *)
Lemma first_from_skip : forall p fuel start dflt d,
  start <= d -> d < start + fuel -> d < first_from p start fuel dflt -> p d = false.
Proof.
  intros p fuel. induction fuel as [|f IH]; intros start dflt d H1 H2 H3; [lia|].
  cbn in H3. destruct (p start) eqn:E; [lia|].
  destruct (Nat.eq_dec d start) as [->|Hne]; [exact E|].
  apply (IH (S start) dflt d); [lia | lia | exact H3].
Qed.

Lemma next_doc_sound : forall n t h c d,
  synced h t c -> start_of c <= d -> d < n -> d < next_doc n h t -> matches t d = false.
Proof.
  intros n t. induction t as [a p|a| |a IHa b IHb|a IHa b IHb|a IHa]; intros h c d Hs Hlo Hn Hd; cbn in *.
  - destruct (Hs a (or_introl eq_refl)) as [_ Hc]. rewrite Hc in Hd. destruct c as [fd id]. unfold start_of in *. cbn in *.
    apply (first_from_skip p (n - (if fd then S id else 0)) (if fd then S id else 0) n d); [exact Hlo | lia | exact Hd].
  - destruct (Hs a (or_introl eq_refl)) as [_ Hc]. rewrite Hc in Hd. destruct c as [fd id]. unfold start_of in *. cbn in *.
    destruct fd; cbn in *; lia.
  - reflexivity.
  - assert (Sa : synced h a c) by (intros x Hx; apply Hs, in_or_app; now left).
    assert (Sb : synced h b c) by (intros x Hx; apply Hs, in_or_app; now right).
    destruct (Nat.lt_ge_cases d (next_doc n h a)) as [L|L].
    + rewrite (IHa h c d Sa Hlo Hn L). reflexivity.
    + rewrite (IHb h c d Sb Hlo Hn); [apply andb_false_r | lia].
  - assert (Sa : synced h a c) by (intros x Hx; apply Hs, in_or_app; now left).
    assert (Sb : synced h b c) by (intros x Hx; apply Hs, in_or_app; now right).
    rewrite (IHa h c d Sa Hlo Hn), (IHb h c d Sb Hlo Hn); [reflexivity | lia | lia].
  - lia.
Qed.

(** ---- the document loop returns exactly the matching documents ---- *)
Lemma filter_none_seq : forall (p : nat -> bool) lo len, (forall d, lo <= d < lo + len -> p d = false) -> filter p (seq lo len) = [].
Proof.
  intros p lo len. revert lo. induction len as [|len IH]; intros lo H; cbn; [reflexivity|].
  rewrite (H lo) by lia. apply IH. intros d Hd. apply H. lia.
Qed.

Lemma doc_loop_spec : forall n t fuel lo h c acc,
  synced h t c -> start_of c = lo -> n - lo < fuel ->
  fst (doc_loop fuel n t lo h acc) = acc ++ filter (matches t) (seq lo (n - lo)).
Proof.
  intros n t fuel. induction fuel as [|f IH]; intros lo h c acc Hs Hc Hf; [lia|].
  cbn [doc_loop]. set (nd0 := next_doc n h t).
  set (nd := if Nat.ltb nd0 lo then lo else nd0).
  assert (Hnd : lo <= nd) by (subst nd; destruct (Nat.ltb nd0 lo) eqn:E; [lia | apply Nat.ltb_ge in E; lia]).
  assert (Hskip : forall d, lo <= d -> d < nd -> d < n -> matches t d = false).
  { intros d H1 H2 H3. apply (next_doc_sound n t h c d Hs); [lia | exact H3 |].
    subst nd. fold nd0. destruct (Nat.ltb nd0 lo) eqn:E; [lia | exact H2]. }
  destruct (Nat.leb n nd) eqn:Eb.
  - apply Nat.leb_le in Eb. cbn. rewrite filter_none_seq; [now rewrite app_nil_r|].
    intros d Hd. apply Hskip; lia.
  - apply Nat.leb_gt in Eb.
    assert (Hsplit : seq lo (n - lo) = seq lo (nd - lo) ++ nd :: seq (S nd) (n - S nd)).
    { replace (n - lo) with ((nd - lo) + S (n - S nd)) by lia. rewrite seq_app. cbn.
      replace (lo + (nd - lo)) with nd by lia. reflexivity. }
    rewrite Hsplit, filter_app, (filter_none_seq (matches t) lo (nd - lo)) by (intros d Hd; apply Hskip; lia).
    cbn [app filter].
    rewrite (IH (S nd) (prepare h t nd) (true, nd)); [| now apply (synced_prepare h t c) | reflexivity | lia].
    destruct (matches t nd); [rewrite <- app_assoc; reflexivity | reflexivity].
Qed.

(** ---- building the tree: fresh nodes, right predicates, coherent cache ---- *)
Definition cache_ok (s : shard) (c : cache) : Prop :=
  forall k a p, cache_get k c = Some (a, p) -> forall d, p d = meta s k d.

Lemma cache_get_remove : forall k k0 c, cache_get k (cache_remove k0 c) = if N.eqb k k0 then None else cache_get k c.
Proof.
  intros k k0 c. induction c as [|[k' v] c IH]; cbn.
  - now destruct (N.eqb k k0).
  - destruct (N.eqb k0 k') eqn:E0.
    + apply N.eqb_eq in E0. subst k'. rewrite IH. destruct (N.eqb k k0); reflexivity.
    + cbn. rewrite IH. destruct (N.eqb k k') eqn:E1; [|reflexivity].
      apply N.eqb_eq in E1. subst k'. rewrite N.eqb_sym, E0. reflexivity.
Qed.

Lemma cache_ok_remove : forall s c k0, cache_ok s c -> cache_ok s (cache_remove k0 c).
Proof.
  intros s c k0 H k a p Hg. rewrite cache_get_remove in Hg. destruct (N.eqb k k0); [discriminate|]. eapply H; eauto.
Qed.

Lemma cache_ok_add : forall s cf step k a c, cache_ok s c -> cache_ok s (cache_add cf step k (a, meta s k) c).
Proof.
  intros s cf step k a c H. unfold cache_add. destruct (Nat.eqb (max_entries cf) 0); [exact H|].
  assert (H' : cache_ok s ((k, (a, meta s k)) :: cache_remove k c)).
  { intros k1 a1 p1 Hg. cbn in Hg. destruct (N.eqb k1 k) eqn:E.
    - apply N.eqb_eq in E. subst k1. injection Hg as <- <-. reflexivity.
    - rewrite cache_get_remove, E in Hg. eapply H; eauto. }
  destruct (Nat.ltb (max_entries cf) (length ((k, (a, meta s k)) :: cache_remove k c))); [|exact H'].
  destruct (nth_error _ _); [now apply cache_ok_remove | now apply cache_ok_remove].
Qed.

Definition fresh_ext (h h' : heap) : Prop := exists ext, h' = h ++ ext /\ Forall (fun c => c = (false, 0)) ext.

Lemma fresh_ext_refl : forall h, fresh_ext h h.
Proof. intros h. exists []. split; [now rewrite app_nil_r | constructor]. Qed.
Lemma fresh_ext_one : forall h, fresh_ext h (h ++ [(false, 0)]).
Proof. intros h. exists [(false, 0)]. split; [reflexivity | repeat constructor]. Qed.
Lemma fresh_ext_trans : forall a b c, fresh_ext a b -> fresh_ext b c -> fresh_ext a c.
Proof.
  intros a b c (e1 & -> & F1) (e2 & -> & F2). exists (e1 ++ e2). split; [now rewrite app_assoc | now apply Forall_app].
Qed.
Lemma fresh_ext_len : forall a b, fresh_ext a b -> length a <= length b.
Proof. intros a b (e & -> & _). rewrite app_length. lia. Qed.
Lemma fresh_ext_get : forall h h' a, fresh_ext h h' -> length h <= a < length h' -> get_cursor h' a = (false, 0).
Proof.
  intros h h' a (e & -> & F) Ha. unfold get_cursor. rewrite app_nth2 by lia.
  rewrite app_length in Ha. rewrite Forall_forall in F. apply F. apply nth_In. lia.
Qed.

Lemma build_spec : forall cf s q st t st',
  build true cf s q st = (t, st') -> cache_ok s (st_cache st) ->
  fresh_ext (st_heap st) (st_heap st') /\
  (forall a, In a (leaves t) -> length (st_heap st) <= a < length (st_heap st')) /\
  (forall d, matches t d = qeval s q d) /\
  cache_ok s (st_cache st').
Proof.
  intros cf s q. induction q as [b|k|p|a IHa b IHb|a IHa b IHb|a IHa]; intros st t st' H Hc; cbn in H.
  - destruct b; injection H as <- <-; cbn.
    + split; [apply fresh_ext_one|]. split; [intros a [<-|[]]; rewrite app_length; cbn; lia|]. auto.
    + split; [apply fresh_ext_refl|]. split; [intros a []|]. auto.
  - destruct (cache_get k (st_cache st)) as [[addr p]|] eqn:Eg.
    + injection H as <- <-. cbn. split; [apply fresh_ext_one|].
      split; [intros a [<-|[]]; rewrite app_length; cbn; lia|]. split; [|exact Hc].
      intros d. eapply Hc; eauto.
    + injection H as <- <-. cbn. split; [apply fresh_ext_one|].
      split; [intros a [<-|[]]; rewrite app_length; cbn; lia|]. split; [reflexivity|].
      now apply cache_ok_add.
  - injection H as <- <-. cbn. split; [apply fresh_ext_one|].
    split; [intros a [<-|[]]; rewrite app_length; cbn; lia|]. auto.
  - destruct (build true cf s a st) as [ta st1] eqn:Ea. destruct (build true cf s b st1) as [tb st2] eqn:Eb.
    injection H as <- <-. destruct (IHa st ta st1 Ea Hc) as (A1 & A2 & A3 & A4).
    destruct (IHb st1 tb st2 Eb A4) as (B1 & B2 & B3 & B4).
    pose proof (fresh_ext_len _ _ A1). pose proof (fresh_ext_len _ _ B1).
    split; [eapply fresh_ext_trans; eauto|]. split; [|split; [intros d; cbn; now rewrite A3, B3 | exact B4]].
    intros x Hx. cbn in Hx. apply in_app_or in Hx. destruct Hx as [Hx|Hx]; [apply A2 in Hx | apply B2 in Hx]; lia.
  - destruct (build true cf s a st) as [ta st1] eqn:Ea. destruct (build true cf s b st1) as [tb st2] eqn:Eb.
    injection H as <- <-. destruct (IHa st ta st1 Ea Hc) as (A1 & A2 & A3 & A4).
    destruct (IHb st1 tb st2 Eb A4) as (B1 & B2 & B3 & B4).
    pose proof (fresh_ext_len _ _ A1). pose proof (fresh_ext_len _ _ B1).
    split; [eapply fresh_ext_trans; eauto|]. split; [|split; [intros d; cbn; now rewrite A3, B3 | exact B4]].
    intros x Hx. cbn in Hx. apply in_app_or in Hx. destruct Hx as [Hx|Hx]; [apply A2 in Hx | apply B2 in Hx]; lia.
  - destruct (build true cf s a st) as [ta st1] eqn:Ea. injection H as <- <-.
    destruct (IHa st ta st1 Ea Hc) as (A1 & A2 & A3 & A4).
    split; [exact A1|]. split; [exact A2|]. split; [intros d; cbn; now rewrite A3 | exact A4].
Qed.

(** ---- simplification keeps the meaning on the shard's documents ---- *)
Lemma allb_spec : forall p n d, allb p n = true -> d < n -> p d = true.
Proof.
  intros p n. induction n as [|n IH]; intros d H Hd; [lia|]. cbn in H. apply andb_prop in H. destruct H as [H1 H2].
  destruct (Nat.eq_dec d n) as [->|Hne]; [exact H1 | apply IH; [exact H2 | lia]].
Qed.
Lemma anyb_spec : forall p n d, anyb p n = false -> d < n -> p d = false.
Proof.
  intros p n. induction n as [|n IH]; intros d H Hd; [lia|]. cbn in H. apply orb_false_iff in H. destruct H as [H1 H2].
  destruct (Nat.eq_dec d n) as [->|Hne]; [exact H1 | apply IH; [exact H2 | lia]].
Qed.

Lemma simp_sound : forall s q d, d < ndocs s -> qeval s (simp s q) d = qeval s q d.
Proof.
  intros s q d Hd. induction q as [b|k|p|a IHa b IHb|a IHa b IHb|a IHa]; cbn [simp]; try reflexivity.
  - destruct (allb (meta s k) (ndocs s)) eqn:Ea; [cbn; symmetry; now apply (allb_spec _ _ _ Ea)|].
    destruct (anyb (meta s k) (ndocs s)) eqn:Eb; [reflexivity | cbn; symmetry; now apply (anyb_spec _ _ _ Eb)].
  - cbn [qeval]. rewrite <- IHa, <- IHb.
    destruct (simp s a) as [[|]| | | | |]; destruct (simp s b) as [[|]| | | | |]; cbn;
      rewrite ?andb_true_r, ?andb_false_r; reflexivity.
  - cbn [qeval]. rewrite <- IHa, <- IHb.
    destruct (simp s a) as [[|]| | | | |]; destruct (simp s b) as [[|]| | | | |]; cbn;
      rewrite ?orb_true_r, ?orb_false_r; reflexivity.
  - cbn [qeval]. rewrite <- IHa. destruct (simp s a) as [[|]| | | | |]; reflexivity.
Qed.

Lemma filter_ext_seq : forall (p q : nat -> bool) lo len,
  (forall d, lo <= d < lo + len -> p d = q d) -> filter p (seq lo len) = filter q (seq lo len).
Proof.
  intros p q lo len. revert lo. induction len as [|len IH]; intros lo H; cbn; [reflexivity|].
  rewrite (H lo) by lia. rewrite (IH (S lo)); [reflexivity|]. intros d Hd. apply H. lia.
Qed.

(** ---- one search, any state: exactly the matching documents, in order ---- *)
Definition reference (s : shard) (q : Q) : list nat := filter (qeval s q) (seq 0 (ndocs s)).

Lemma search_correct : forall cf s q st,
  cache_ok s (st_cache st) ->
  fst (search true cf s q st) = reference s q /\ cache_ok s (st_cache (snd (search true cf s q st))).
Proof.
  intros cf s q st Hc. unfold search, reference.
  destruct (is_const_false (simp s q)) eqn:Ef.
  - cbn. split; [|exact Hc]. symmetry. apply filter_none_seq. intros d Hd.
    rewrite <- (simp_sound s q d) by lia. destruct (simp s q) as [[|]| | | | |]; try discriminate. reflexivity.
  - destruct (build true cf s (simp s q) st) as [t st1] eqn:Eb.
    destruct (build_spec cf s (simp s q) st t st1 Eb Hc) as (B1 & B2 & B3 & B4).
    assert (Hs : synced (st_heap st1) t (false, 0)).
    { intros a Ha. specialize (B2 a Ha). split; [lia|]. eapply fresh_ext_get; eauto. }
    pose proof (doc_loop_spec (ndocs s) t (S (ndocs s)) 0 (st_heap st1) (false, 0) [] Hs eq_refl) as Hl.
    destruct (doc_loop (S (ndocs s)) (ndocs s) t 0 (st_heap st1) []) as [res h] eqn:El. cbn in *.
    split; [|exact B4]. rewrite Hl by lia. rewrite Nat.sub_0_r.
    apply filter_ext_seq. intros d Hd. rewrite B3. apply simp_sound. lia.
Qed.

Lemma run_history_correct : forall cf s qs st,
  cache_ok s (st_cache st) -> run_history true cf s qs st = map (reference s) qs.
Proof.
  intros cf s qs. induction qs as [|q qs IH]; intros st Hc; cbn; [reflexivity|].
  destruct (search_correct cf s q st Hc) as [H1 H2].
  destruct (search true cf s q st) as [res st']. cbn in *. rewrite H1, (IH st' H2). reflexivity.
Qed.

Lemma cache_ok_fresh : forall s, cache_ok s (st_cache fresh).
Proof. intros s k a p H. discriminate H. Qed.

(** ---- concurrency at loop-iteration granularity ---- *)
(** what a search relies on: other activity on the shared heap may allocate nodes and move OTHER nodes'
    cursors, but leaves the cursors of this search's own nodes alone *)
Definition rely (t : mt) (h h' : heap) : Prop :=
  length h <= length h' /\ forall a, In a (leaves t) -> get_cursor h' a = get_cursor h a.

Lemma synced_rely : forall t h h' c, synced h t c -> rely t h h' -> synced h' t c.
Proof.
  intros t h h' c Hs [Hl Hg] a Ha. destruct (Hs a Ha) as [H1 H2]. split; [lia|]. now rewrite (Hg a Ha).
Qed.

Lemma doc_loop_env_spec : forall env n t,
  (forall i h, rely t h (env i h)) ->
  forall fuel lo h c acc,
  synced h t c -> start_of c = lo -> n - lo < fuel ->
  fst (doc_loop_env env fuel n t lo h acc) = acc ++ filter (matches t) (seq lo (n - lo)).
Proof.
  intros env n t Henv fuel. induction fuel as [|f IH]; intros lo h c acc Hs0 Hc Hf; [lia|].
  cbn [doc_loop_env]. set (h0 := env f h).
  assert (Hs : synced h0 t c) by (apply (synced_rely t h); [exact Hs0 | apply Henv]).
  set (nd0 := next_doc n h0 t).
  set (nd := if Nat.ltb nd0 lo then lo else nd0).
  assert (Hnd : lo <= nd) by (subst nd; destruct (Nat.ltb nd0 lo) eqn:E; [lia | apply Nat.ltb_ge in E; lia]).
  assert (Hskip : forall d, lo <= d -> d < nd -> d < n -> matches t d = false).
  { intros d H1 H2 H3. apply (next_doc_sound n t h0 c d Hs); [lia | exact H3 |].
    subst nd. fold nd0. destruct (Nat.ltb nd0 lo) eqn:E; [lia | exact H2]. }
  destruct (Nat.leb n nd) eqn:Eb.
  - apply Nat.leb_le in Eb. cbn. rewrite filter_none_seq; [now rewrite app_nil_r|].
    intros d Hd. apply Hskip; lia.
  - apply Nat.leb_gt in Eb.
    assert (Hsplit : seq lo (n - lo) = seq lo (nd - lo) ++ nd :: seq (S nd) (n - S nd)).
    { replace (n - lo) with ((nd - lo) + S (n - S nd)) by lia. rewrite seq_app. cbn.
      replace (lo + (nd - lo)) with nd by lia. reflexivity. }
    rewrite Hsplit, filter_app, (filter_none_seq (matches t) lo (nd - lo)) by (intros d Hd; apply Hskip; lia).
    cbn [app filter].
    rewrite (IH (S nd) (prepare h0 t nd) (true, nd)); [| now apply (synced_prepare h0 t c) | reflexivity | lia].
    destruct (matches t nd); [rewrite <- app_assoc; reflexivity | reflexivity].
Qed.

(** a search's own steps only move its own cursors *)
Lemma prepare_rely_other : forall t t' h d,
  (forall a, In a (leaves t) -> a < length h) ->
  (forall a, In a (leaves t) -> ~ In a (leaves t')) ->
  rely t' h (prepare h t d).
Proof.
  intros t t' h d Hwf Hdis. split; [rewrite prepare_length; lia|].
  intros a Ha. apply prepare_get; [exact Hwf|]. intro Hin. exact (Hdis a Hin Ha).
Qed.

(** thread invariant: done => the answer is complete; running => cursors in sync at position lo and the
    answer is complete up to lo *)
Definition th_inv (n : nat) (th : thread) (h : heap) : Prop :=
  let t := th_tree th in
  if th_done th then th_acc th = filter (matches t) (seq 0 n)
  else exists c, synced h t c /\ start_of c = th_lo th /\ th_lo th <= n /\
                 th_acc th = filter (matches t) (seq 0 (th_lo th)).

Lemma th_step_tree : forall n th h, th_tree (fst (th_step n th h)) = th_tree th.
Proof.
  intros n th h. unfold th_step. destruct (th_done th); [reflexivity|].
  destruct (Nat.leb n _); reflexivity.
Qed.

Lemma th_step_inv : forall n th h, th_inv n th h -> th_inv n (fst (th_step n th h)) (snd (th_step n th h)).
Proof.
  intros n th h Hi. unfold th_step. destruct (th_done th) eqn:Ed; [cbn; exact Hi|].
  unfold th_inv in Hi. rewrite Ed in Hi. destruct Hi as (c & Hs & Hc & Hle & Hacc).
  set (t := th_tree th) in *. set (lo := th_lo th) in *.
  set (nd0 := next_doc n h t). set (nd := if Nat.ltb nd0 lo then lo else nd0).
  assert (Hnd : lo <= nd) by (subst nd; destruct (Nat.ltb nd0 lo) eqn:E; [lia | apply Nat.ltb_ge in E; lia]).
  assert (Hskip : forall d, lo <= d -> d < nd -> d < n -> matches t d = false).
  { intros d H1 H2 H3. apply (next_doc_sound n t h c d Hs); [lia | exact H3 |].
    subst nd. fold nd0. destruct (Nat.ltb nd0 lo) eqn:E; [lia | exact H2]. }
  destruct (Nat.leb n nd) eqn:Eb.
  - apply Nat.leb_le in Eb. cbn [fst snd]. unfold th_inv. cbn [th_tree th_lo th_acc th_done]. fold t. rewrite Hacc.
    assert (E : seq 0 n = seq 0 lo ++ seq lo (n - lo)).
    { pose proof (seq_app lo (n - lo) 0) as S0. replace (lo + (n - lo)) with n in S0 by lia. cbn [Nat.add] in S0. exact S0. }
    rewrite E, filter_app.
    rewrite (filter_none_seq (matches t) lo (n - lo)); [now rewrite app_nil_r|].
    intros d Hd. apply Hskip; lia.
  - apply Nat.leb_gt in Eb. cbn [fst snd]. unfold th_inv. cbn [th_tree th_lo th_acc th_done]. fold t.
    exists (true, nd). split; [now apply (synced_prepare h t c)|]. split; [reflexivity|]. split; [lia|].
    assert (E : seq 0 (S nd) = seq 0 lo ++ seq lo (nd - lo) ++ [nd]).
    { pose proof (seq_app lo (S nd - lo) 0) as S0. replace (lo + (S nd - lo)) with (S nd) in S0 by lia.
      cbn [Nat.add] in S0. rewrite S0. f_equal. pose proof (seq_app (nd - lo) 1 lo) as S1.
      replace (nd - lo + 1) with (S nd - lo) in S1 by lia. rewrite S1. cbn [seq].
      replace (lo + (nd - lo)) with nd by lia. reflexivity. }
    rewrite E, !filter_app, <- Hacc.
    rewrite (filter_none_seq (matches t) lo (nd - lo)) by (intros d Hd; apply Hskip; lia).
    cbn. destruct (matches t nd); [reflexivity | now rewrite app_nil_r].
Qed.

Lemma th_step_frame : forall n th th' h,
  (forall a, In a (leaves (th_tree th)) -> a < length h) ->
  (forall a, In a (leaves (th_tree th)) -> ~ In a (leaves (th_tree th'))) ->
  th_inv n th' h -> th_inv n th' (snd (th_step n th h)).
Proof.
  intros n th th' h Hwf Hdis Hi. unfold th_step. destruct (th_done th); [exact Hi|].
  destruct (Nat.leb n _); [exact Hi|]. cbn.
  unfold th_inv in *. destruct (th_done th'); [exact Hi|].
  destruct Hi as (c & Hs & Hrest). exists c. split; [|exact Hrest].
  eapply synced_rely; [exact Hs|]. now apply prepare_rely_other.
Qed.

Lemma th_step_len : forall n th h, length (snd (th_step n th h)) = length h.
Proof.
  intros n th h. unfold th_step. destruct (th_done th); [reflexivity|].
  destruct (Nat.leb n _); [reflexivity|]. cbn. apply prepare_length.
Qed.

Definition th_measure (n : nat) (th : thread) : nat := if th_done th then 0 else S (n - th_lo th).

Lemma th_step_measure : forall n th h, th_inv n th h -> th_done th = false ->
  th_measure n (fst (th_step n th h)) < th_measure n th.
Proof.
  intros n th h Hi Ed. unfold th_step, th_measure. rewrite Ed.
  unfold th_inv in Hi. rewrite Ed in Hi. destruct Hi as (c & _ & _ & Hle & _).
  set (nd0 := next_doc n h (th_tree th)).
  destruct (Nat.ltb nd0 (th_lo th)) eqn:E.
  - destruct (Nat.leb n (th_lo th)) eqn:Eb; cbn; [lia|]. apply Nat.leb_gt in Eb. lia.
  - apply Nat.ltb_ge in E. destruct (Nat.leb n nd0) eqn:Eb; cbn; [lia|]. apply Nat.leb_gt in Eb. lia.
Qed.

(** running a thread to completion, while another thread's invariant is framed *)
Lemma th_run_spec : forall fuel n th th' h,
  th_inv n th h -> th_inv n th' h ->
  (forall a, In a (leaves (th_tree th)) -> a < length h) ->
  (forall a, In a (leaves (th_tree th)) -> ~ In a (leaves (th_tree th'))) ->
  th_measure n th <= fuel ->
  let '(r, h') := th_run fuel n th h in
  th_done r = true /\ th_tree r = th_tree th /\ th_inv n r h' /\ th_inv n th' h' /\ length h' = length h.
Proof.
  induction fuel as [|f IH]; intros n th th' h Hi Hi' Hwf Hdis Hm.
  - cbn. unfold th_measure in Hm. destruct (th_done th) eqn:Ed; [|lia]. repeat split; auto.
  - cbn [th_run]. destruct (th_step n th h) as [th1 h1] eqn:Es.
    pose proof (th_step_inv n th h Hi) as I1. pose proof (th_step_frame n th th' h Hwf Hdis Hi') as I2.
    pose proof (th_step_tree n th h) as T1. pose proof (th_step_len n th h) as L1.
    rewrite Es in I1, I2, T1, L1. cbn in I1, I2, T1, L1.
    assert (Hm1 : th_measure n th1 <= f).
    { destruct (th_done th) eqn:Ed.
      - unfold th_step in Es. rewrite Ed in Es. injection Es as <- <-. unfold th_measure. rewrite Ed. lia.
      - pose proof (th_step_measure n th h Hi Ed) as M. rewrite Es in M. cbn in M. lia. }
    specialize (IH n th1 th' h1 I1 I2).
    rewrite T1, L1 in IH. specialize (IH Hwf Hdis Hm1).
    destruct (th_run f n th1 h1) as [r h']. destruct IH as (A & B & C & D & E). repeat split; auto; congruence.
Qed.

Lemma par_run_spec : forall n sched a b h,
  th_inv n a h -> th_inv n b h ->
  (forall x, In x (leaves (th_tree a)) -> x < length h) ->
  (forall x, In x (leaves (th_tree b)) -> x < length h) ->
  (forall x, In x (leaves (th_tree a)) -> ~ In x (leaves (th_tree b))) ->
  let '(a', b', h') := par_run n sched a b h in
  th_inv n a' h' /\ th_inv n b' h' /\ th_tree a' = th_tree a /\ th_tree b' = th_tree b /\ length h' = length h.
Proof.
  intros n sched. induction sched as [|[|] r IH]; intros a b h Ia Ib Wa Wb Dis; cbn [par_run].
  - repeat split; auto.
  - destruct (th_step n a h) as [a1 h1] eqn:Es.
    pose proof (th_step_inv n a h Ia) as I1. pose proof (th_step_frame n a b h Wa Dis Ib) as I2.
    pose proof (th_step_tree n a h) as T1. pose proof (th_step_len n a h) as L1.
    rewrite Es in I1, I2, T1, L1. cbn in I1, I2, T1, L1.
    specialize (IH a1 b h1 I1 I2). rewrite T1, L1 in IH. specialize (IH Wa Wb Dis).
    destruct (par_run n r a1 b h1) as [[a' b'] h']. destruct IH as (A & B & C & D & E). repeat split; auto; congruence.
  - destruct (th_step n b h) as [b1 h1] eqn:Es.
    assert (Dis' : forall x, In x (leaves (th_tree b)) -> ~ In x (leaves (th_tree a))) by (intros x Hb Ha; exact (Dis x Ha Hb)).
    pose proof (th_step_inv n b h Ib) as I1. pose proof (th_step_frame n b a h Wb Dis' Ia) as I2.
    pose proof (th_step_tree n b h) as T1. pose proof (th_step_len n b h) as L1.
    rewrite Es in I1, I2, T1, L1. cbn in I1, I2, T1, L1.
    specialize (IH a b1 h1 I2 I1). rewrite T1, L1 in IH. specialize (IH Wa Wb Dis).
    destruct (par_run n r a b1 h1) as [[a' b'] h']. destruct IH as (A & B & C & D & E). repeat split; auto; congruence.
Qed.

Lemma fresh_ext_get_old : forall h h' a, fresh_ext h h' -> a < length h -> get_cursor h' a = get_cursor h a.
Proof. intros h h' a (e & -> & _) Ha. unfold get_cursor. now rewrite app_nth1. Qed.

Lemma matches_reference : forall s q t,
  (forall d, matches t d = qeval s (simp s q) d) ->
  filter (matches t) (seq 0 (ndocs s)) = reference s q.
Proof.
  intros s q t H. unfold reference. apply filter_ext_seq. intros d Hd. rewrite H. apply simp_sound. lia.
Qed.

Lemma par_search_correct : forall cf s qa qb sched st,
  cache_ok s (st_cache st) ->
  par_search cf s qa qb sched st = (reference s qa, reference s qb).
Proof.
  intros cf s qa qb sched st Hc. unfold par_search.
  destruct (build true cf s (simp s qa) st) as [ta st1] eqn:Ea.
  destruct (build true cf s (simp s qb) st1) as [tb st2] eqn:Eb.
  destruct (build_spec cf s (simp s qa) st ta st1 Ea Hc) as (A1 & A2 & A3 & A4).
  destruct (build_spec cf s (simp s qb) st1 tb st2 Eb A4) as (B1 & B2 & B3 & B4).
  pose proof (fresh_ext_len _ _ A1) as LA. pose proof (fresh_ext_len _ _ B1) as LB.
  set (n := ndocs s). set (h2 := st_heap st2).
  assert (Sa : synced h2 ta (false, 0)).
  { intros a Ha. specialize (A2 a Ha). split; [subst h2; lia|].
    subst h2. rewrite (fresh_ext_get_old _ _ a B1) by lia. eapply fresh_ext_get; eauto. }
  assert (Sb : synced h2 tb (false, 0)).
  { intros a Ha. specialize (B2 a Ha). split; [subst h2; lia|]. eapply fresh_ext_get; eauto. }
  assert (Ia : th_inv n (mk_thread ta) h2).
  { exists (false, 0). split; [exact Sa|]. split; [reflexivity|]. split; [cbn; lia | reflexivity]. }
  assert (Ib : th_inv n (mk_thread tb) h2).
  { exists (false, 0). split; [exact Sb|]. split; [reflexivity|]. split; [cbn; lia | reflexivity]. }
  assert (Wa : forall x, In x (leaves (th_tree (mk_thread ta))) -> x < length h2) by (intros x Hx; apply (Sa x Hx)).
  assert (Wb : forall x, In x (leaves (th_tree (mk_thread tb))) -> x < length h2) by (intros x Hx; apply (Sb x Hx)).
  assert (Dis : forall x, In x (leaves (th_tree (mk_thread ta))) -> ~ In x (leaves (th_tree (mk_thread tb)))).
  { cbn. intros x Ha Hb. specialize (A2 x Ha). specialize (B2 x Hb). lia. }
  pose proof (par_run_spec n sched (mk_thread ta) (mk_thread tb) h2 Ia Ib Wa Wb Dis) as P.
  destruct (par_run n sched (mk_thread ta) (mk_thread tb) h2) as [[a b] h]. destruct P as (Pa & Pb & Ta & Tb & Lh).
  assert (Wa' : forall x, In x (leaves (th_tree a)) -> x < length h) by (rewrite Ta, Lh; exact Wa).
  assert (Dis' : forall x, In x (leaves (th_tree a)) -> ~ In x (leaves (th_tree b))) by (rewrite Ta, Tb; exact Dis).
  assert (Ma : th_measure n a <= S n) by (unfold th_measure; destruct (th_done a); lia).
  pose proof (th_run_spec (S n) n a b h Pa Pb Wa' Dis' Ma) as R1.
  destruct (th_run (S n) n a h) as [a' h1]. destruct R1 as (Da & Ta' & Ia' & Ib' & L1).
  assert (Wb' : forall x, In x (leaves (th_tree b)) -> x < length h1) by (rewrite Tb, L1, Lh; exact Wb).
  assert (Dis'' : forall x, In x (leaves (th_tree b)) -> ~ In x (leaves (th_tree a'))).
  { rewrite Ta', Ta, Tb. intros x Hb Ha. exact (Dis x Ha Hb). }
  assert (Mb : th_measure n b <= S n) by (unfold th_measure; destruct (th_done b); lia).
  pose proof (th_run_spec (S n) n b a' h1 Ib' Ia' Wb' Dis'' Mb) as R2.
  destruct (th_run (S n) n b h1) as [b' h3]. destruct R2 as (Db & Tb' & Ib'' & Ia'' & _).
  unfold th_inv in Ia'', Ib''. cbv zeta in Ia'', Ib''. rewrite Da in Ia''. rewrite Db in Ib''.
  rewrite Ia'', Ib'', Ta', Ta, Tb', Tb. cbn [th_tree mk_thread].
  f_equal; subst n; apply matches_reference; assumption.
Qed.

(** ---- building a tree while the environment changes the shared state between atoms ---- *)
Lemma build_fresh_ext : forall cf s q st t st',
  build true cf s q st = (t, st') -> fresh_ext (st_heap st) (st_heap st').
Proof.
  intros cf s q. induction q as [b|k|p|a IHa b IHb|a IHa b IHb|a IHa]; intros st t st' H; cbn in H.
  - destruct b; injection H as <- <-; cbn; [apply fresh_ext_one | apply fresh_ext_refl].
  - destruct (cache_get k (st_cache st)) as [[addr p]|]; injection H as <- <-; cbn; apply fresh_ext_one.
  - injection H as <- <-. cbn. apply fresh_ext_one.
  - destruct (build true cf s a st) as [ta st1] eqn:Ea. destruct (build true cf s b st1) as [tb st2] eqn:Eb.
    injection H as <- <-. eapply fresh_ext_trans; eauto.
  - destruct (build true cf s a st) as [ta st1] eqn:Ea. destruct (build true cf s b st1) as [tb st2] eqn:Eb.
    injection H as <- <-. eapply fresh_ext_trans; eauto.
  - destruct (build true cf s a st) as [ta st1] eqn:Ea. injection H as <- <-. eauto.
Qed.

Definition env_grows (env : nat -> state -> state) : Prop :=
  forall i x, length (st_heap x) <= length (st_heap (env i x)).
Definition env_keeps (env : nat -> state -> state) (a : nat) : Prop :=
  forall i x, a < length (st_heap x) -> get_cursor (st_heap (env i x)) a = get_cursor (st_heap x) a.

Lemma build_env_atom : forall env cf s q st k,
  match q with QAnd _ _ | QOr _ _ | QNot _ => False | _ => True end ->
  build_env env cf s q st k = (let '(t, st1) := build true cf s q (env k st) in (t, st1, S k)).
Proof. intros env cf s q st k H. destruct q; try contradiction; reflexivity. Qed.

Lemma build_env_keeps : forall env cf s q st k t st' k',
  build_env env cf s q st k = (t, st', k') -> env_grows env ->
  length (st_heap st) <= length (st_heap st') /\
  forall a, a < length (st_heap st) -> env_keeps env a -> get_cursor (st_heap st') a = get_cursor (st_heap st) a.
Proof.
  intros env cf s q. induction q as [b|key|p|a IHa b IHb|a IHa b IHb|a IHa]; intros st k t st' k' H Hg;
    try (rewrite build_env_atom in H by exact I;
         destruct (build true cf s _ (env k st)) as [t0 st0] eqn:Eb; injection H as <- <- <-;
         pose proof (build_fresh_ext _ _ _ _ _ _ Eb) as F; pose proof (fresh_ext_len _ _ F) as L;
         pose proof (Hg k st) as G; split; [lia|];
         intros a Ha Hk; rewrite (fresh_ext_get_old _ _ a F) by lia; now apply Hk).
  - cbn [build_env] in H. destruct (build_env env cf s a st k) as [[ta st1] k1] eqn:Ea.
    destruct (build_env env cf s b st1 k1) as [[tb st2] k2] eqn:Eb. injection H as <- <- <-.
    destruct (IHa _ _ _ _ _ Ea Hg) as [La Ka]. destruct (IHb _ _ _ _ _ Eb Hg) as [Lb Kb].
    split; [lia|]. intros x Hx Hk. rewrite Kb, Ka; auto. lia.
  - cbn [build_env] in H. destruct (build_env env cf s a st k) as [[ta st1] k1] eqn:Ea.
    destruct (build_env env cf s b st1 k1) as [[tb st2] k2] eqn:Eb. injection H as <- <- <-.
    destruct (IHa _ _ _ _ _ Ea Hg) as [La Ka]. destruct (IHb _ _ _ _ _ Eb Hg) as [Lb Kb].
    split; [lia|]. intros x Hx Hk. rewrite Kb, Ka; auto. lia.
  - cbn [build_env] in H. destruct (build_env env cf s a st k) as [[ta st1] k1] eqn:Ea. injection H as <- <- <-.
    eauto.
Qed.

Lemma build_env_spec : forall env cf s q st k t st' k',
  build_env env cf s q st k = (t, st', k') ->
  env_grows env ->
  (forall i x, cache_ok s (st_cache x) -> cache_ok s (st_cache (env i x))) ->
  (forall a, In a (leaves t) -> env_keeps env a) ->
  cache_ok s (st_cache st) ->
  (forall a, In a (leaves t) -> length (st_heap st) <= a < length (st_heap st') /\ get_cursor (st_heap st') a = (false, 0)) /\
  (forall d, matches t d = qeval s q d) /\ cache_ok s (st_cache st').
Proof.
  intros env cf s q. induction q as [b|key|p|a IHa b IHb|a IHa b IHb|a IHa]; intros st k t st' k' H Hg Hc Hk Hok;
    try (rewrite build_env_atom in H by exact I;
         destruct (build true cf s _ (env k st)) as [t0 st0] eqn:Eb; injection H as <- <- <-;
         destruct (build_spec _ _ _ _ _ _ Eb (Hc k st Hok)) as (B1 & B2 & B3 & B4);
         pose proof (Hg k st) as G; split; [|split; assumption];
         intros a Ha; specialize (B2 a Ha); split; [lia | eapply fresh_ext_get; eauto]).
  - cbn [build_env] in H. destruct (build_env env cf s a st k) as [[ta st1] k1] eqn:Ea.
    destruct (build_env env cf s b st1 k1) as [[tb st2] k2] eqn:Eb. injection H as <- <- <-.
    assert (Hka : forall x, In x (leaves ta) -> env_keeps env x) by (intros; apply Hk; cbn; apply in_or_app; now left).
    assert (Hkb : forall x, In x (leaves tb) -> env_keeps env x) by (intros; apply Hk; cbn; apply in_or_app; now right).
    destruct (IHa _ _ _ _ _ Ea Hg Hc Hka Hok) as (A1 & A2 & A3).
    destruct (IHb _ _ _ _ _ Eb Hg Hc Hkb A3) as (B1 & B2 & B3).
    destruct (build_env_keeps _ _ _ _ _ _ _ _ _ Ea Hg) as [La _]. destruct (build_env_keeps _ _ _ _ _ _ _ _ _ Eb Hg) as [Lb Kb].
    split; [|split; [intros d; cbn; now rewrite A2, B2 | exact B3]].
    intros x Hx. cbn in Hx. apply in_app_or in Hx. destruct Hx as [Hx|Hx].
    + destruct (A1 x Hx) as [R1 R2]. split; [lia|]. rewrite Kb; [exact R2 | lia | now apply Hka].
    + destruct (B1 x Hx) as [R1 R2]. split; [lia | exact R2].
  - cbn [build_env] in H. destruct (build_env env cf s a st k) as [[ta st1] k1] eqn:Ea.
    destruct (build_env env cf s b st1 k1) as [[tb st2] k2] eqn:Eb. injection H as <- <- <-.
    assert (Hka : forall x, In x (leaves ta) -> env_keeps env x) by (intros; apply Hk; cbn; apply in_or_app; now left).
    assert (Hkb : forall x, In x (leaves tb) -> env_keeps env x) by (intros; apply Hk; cbn; apply in_or_app; now right).
    destruct (IHa _ _ _ _ _ Ea Hg Hc Hka Hok) as (A1 & A2 & A3).
    destruct (IHb _ _ _ _ _ Eb Hg Hc Hkb A3) as (B1 & B2 & B3).
    destruct (build_env_keeps _ _ _ _ _ _ _ _ _ Ea Hg) as [La _]. destruct (build_env_keeps _ _ _ _ _ _ _ _ _ Eb Hg) as [Lb Kb].
    split; [|split; [intros d; cbn; now rewrite A2, B2 | exact B3]].
    intros x Hx. cbn in Hx. apply in_app_or in Hx. destruct Hx as [Hx|Hx].
    + destruct (A1 x Hx) as [R1 R2]. split; [lia|]. rewrite Kb; [exact R2 | lia | now apply Hka].
    + destruct (B1 x Hx) as [R1 R2]. split; [lia | exact R2].
  - cbn [build_env] in H. destruct (build_env env cf s a st k) as [[ta st1] k1] eqn:Ea. injection H as <- <- <-.
    destruct (IHa _ _ _ _ _ Ea Hg Hc Hk Hok) as (A1 & A2 & A3).
    split; [exact A1|]. split; [intros d; cbn; now rewrite A2 | exact A3].
Qed.

(** ---- the code before the repair depends on the history ---- *)
Definition wit_shard : shard := {| ndocs := 4; meta := fun k d => N.eqb k 1 && Nat.ltb d 3 |}.
Definition wit_cf : config := {| max_entries := 10; choose := fun _ _ => 0 |}.

Lemma unfixed_history_dependent :
  exists cf s h q,
    last (run_history false cf s (h ++ [q]) fresh) [] <> hd [] (run_history false cf s [q] fresh).
Proof.
  exists wit_cf, wit_shard, [QMeta 1], (QMeta 1). vm_compute. intro H. discriminate H.
Qed.
