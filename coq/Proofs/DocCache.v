(** Proofs about Model/DocCache.v (C04). *)
From ZV Require Import Lib.Base Model.DocCache.

(** ---- heap ---- *)
Lemma set_cursor_length : forall h a c, length (set_cursor h a c) = length h.
Proof. induction h as [|x h IH]; intros [|a] c; cbn; auto. Qed.

Lemma get_set_same : forall h a c, a < length h -> get_cursor (set_cursor h a c) a = c.
Proof.
  unfold get_cursor. induction h as [|x h IH]; intros [|a] c H; cbn in *; try lia; [reflexivity|].
  apply IH. lia.
Qed.

Lemma get_set_other : forall h a b c, a <> b -> get_cursor (set_cursor h a c) b = get_cursor h b.
Proof.
  unfold get_cursor. induction h as [|x h IH]; intros [|a] [|b] c H; cbn; try reflexivity; try lia.
  apply IH. lia.
Qed.

Fixpoint leaves (t : mt) : list nat :=
  match t with
  | MDoc a _ => [a] | MBrute a => [a] | MNone => []
  | MAnd a b => leaves a ++ leaves b | MOr a b => leaves a ++ leaves b
  | MNot a => leaves a
  end.

Lemma prepare_length : forall t h d, length (prepare h t d) = length h.
Proof.
  induction t as [a p|a| |a IHa b IHb|a IHa b IHb|a IHa]; intros h d; cbn;
    try apply set_cursor_length; try reflexivity; try (rewrite IHb, IHa; reflexivity). apply IHa.
Qed.

Lemma prepare_get : forall t h d x,
  (forall a, In a (leaves t) -> a < length h) ->
  (In x (leaves t) -> get_cursor (prepare h t d) x = (true, d)) /\
  (~ In x (leaves t) -> get_cursor (prepare h t d) x = get_cursor h x).
Proof.
  induction t as [a p|a| |a IHa b IHb|a IHa b IHb|a IHa]; intros h d x Hwf; cbn [leaves prepare In] in *.
  - split; [intros [<-|[]]; apply get_set_same; apply Hwf; now left | intros H; apply get_set_other; tauto].
  - split; [intros [<-|[]]; apply get_set_same; apply Hwf; now left | intros H; apply get_set_other; tauto].
  - split; [intros [] | reflexivity].
  - assert (Ha : forall a0, In a0 (leaves a) -> a0 < length h) by (intros; apply Hwf, in_or_app; now left).
    assert (Hb : forall a0, In a0 (leaves b) -> a0 < length (prepare h a d))
      by (intros; rewrite prepare_length; apply Hwf, in_or_app; now right).
    destruct (IHa h d x Ha) as [A1 A2]. destruct (IHb (prepare h a d) d x Hb) as [B1 B2].
    split.
    + intros Hin. destruct (in_dec Nat.eq_dec x (leaves b)) as [Hxb|Hxb]; [now apply B1|].
      rewrite (B2 Hxb). apply A1. apply in_app_or in Hin. tauto.
    + intros Hn. rewrite B2, A2; [reflexivity | |]; intro; apply Hn, in_or_app; tauto.
  - assert (Ha : forall a0, In a0 (leaves a) -> a0 < length h) by (intros; apply Hwf, in_or_app; now left).
    assert (Hb : forall a0, In a0 (leaves b) -> a0 < length (prepare h a d))
      by (intros; rewrite prepare_length; apply Hwf, in_or_app; now right).
    destruct (IHa h d x Ha) as [A1 A2]. destruct (IHb (prepare h a d) d x Hb) as [B1 B2].
    split.
    + intros Hin. destruct (in_dec Nat.eq_dec x (leaves b)) as [Hxb|Hxb]; [now apply B1|].
      rewrite (B2 Hxb). apply A1. apply in_app_or in Hin. tauto.
    + intros Hn. rewrite B2, A2; [reflexivity | |]; intro; apply Hn, in_or_app; tauto.
  - apply IHa. exact Hwf.
Qed.

(** every node of the tree has the same cursor [c] *)
Definition synced (h : heap) (t : mt) (c : cursor) : Prop :=
  forall a, In a (leaves t) -> a < length h /\ get_cursor h a = c.

Lemma synced_prepare : forall h t c d, synced h t c -> synced (prepare h t d) t (true, d).
Proof.
  intros h t c d H a Ha. rewrite prepare_length. split; [apply (H a Ha)|].
  apply prepare_get; [|exact Ha]. intros x Hx. apply (H x Hx).
Qed.

Definition start_of (c : cursor) : nat := if fst c then S (snd c) else 0.

(** ---- nextDoc never skips a matching document ---- *)
Lemma first_from_skip : forall p fuel start dflt d,
  start <= d -> d < start + fuel -> d < first_from p start fuel dflt -> p d = false.
Proof.
  intros p fuel. induction fuel as [|f IH]; intros start dflt d H1 H2 H3; [lia|].
  cbn in H3. destruct (p start) eqn:E; [lia|].
  destruct (Nat.eq_dec d start) as [->|Hne]; [exact E|].
  apply (IH (S start) dflt d); [lia | lia | exact H3].
Qed.

Lemma next_doc_sound : forall n t h c d,
  synced h t c -> start_of c <= d -> d < n -> d < next_doc n h t -> matches t d = false.
Proof.
  intros n t. induction t as [a p|a| |a IHa b IHb|a IHa b IHb|a IHa]; intros h c d Hs Hlo Hn Hd; cbn in *.
  - destruct (Hs a (or_introl eq_refl)) as [_ Hc]. rewrite Hc in Hd. destruct c as [fd id]. unfold start_of in *. cbn in *.
    apply (first_from_skip p (n - (if fd then S id else 0)) (if fd then S id else 0) n d); [exact Hlo | lia | exact Hd].
  - destruct (Hs a (or_introl eq_refl)) as [_ Hc]. rewrite Hc in Hd. destruct c as [fd id]. unfold start_of in *. cbn in *.
    destruct fd; cbn in *; lia.
  - reflexivity.
  - assert (Sa : synced h a c) by (intros x Hx; apply Hs, in_or_app; now left).
    assert (Sb : synced h b c) by (intros x Hx; apply Hs, in_or_app; now right).
    destruct (Nat.lt_ge_cases d (next_doc n h a)) as [L|L].
    + rewrite (IHa h c d Sa Hlo Hn L). reflexivity.
    + rewrite (IHb h c d Sb Hlo Hn); [apply andb_false_r | lia].
  - assert (Sa : synced h a c) by (intros x Hx; apply Hs, in_or_app; now left).
    assert (Sb : synced h b c) by (intros x Hx; apply Hs, in_or_app; now right).
    rewrite (IHa h c d Sa Hlo Hn), (IHb h c d Sb Hlo Hn); [reflexivity | lia | lia].
  - lia.
Qed.

(** ---- the document loop returns exactly the matching documents ---- *)
Lemma filter_none_seq : forall (p : nat -> bool) lo len, (forall d, lo <= d < lo + len -> p d = false) -> filter p (seq lo len) = [].
Proof.
  intros p lo len. revert lo. induction len as [|len IH]; intros lo H; cbn; [reflexivity|].
  rewrite (H lo) by lia. apply IH. intros d Hd. apply H. lia.
Qed.

Lemma doc_loop_spec : forall n t fuel lo h c acc,
  synced h t c -> start_of c = lo -> n - lo < fuel ->
  fst (doc_loop fuel n t lo h acc) = acc ++ filter (matches t) (seq lo (n - lo)).
Proof.
  intros n t fuel. induction fuel as [|f IH]; intros lo h c acc Hs Hc Hf; [lia|].
  cbn [doc_loop]. set (nd0 := next_doc n h t).
  set (nd := if Nat.ltb nd0 lo then lo else nd0).
  assert (Hnd : lo <= nd) by (subst nd; destruct (Nat.ltb nd0 lo) eqn:E; [lia | apply Nat.ltb_ge in E; lia]).
  assert (Hskip : forall d, lo <= d -> d < nd -> d < n -> matches t d = false).
  { intros d H1 H2 H3. apply (next_doc_sound n t h c d Hs); [lia | exact H3 |].
    subst nd. fold nd0. destruct (Nat.ltb nd0 lo) eqn:E; [lia | exact H2]. }
  destruct (Nat.leb n nd) eqn:Eb.
  - apply Nat.leb_le in Eb. cbn. rewrite filter_none_seq; [now rewrite app_nil_r|].
    intros d Hd. apply Hskip; lia.
  - apply Nat.leb_gt in Eb.
    assert (Hsplit : seq lo (n - lo) = seq lo (nd - lo) ++ nd :: seq (S nd) (n - S nd)).
    { replace (n - lo) with ((nd - lo) + S (n - S nd)) by lia. rewrite seq_app. cbn.
      replace (lo + (nd - lo)) with nd by lia. reflexivity. }
    rewrite Hsplit, filter_app, (filter_none_seq (matches t) lo (nd - lo)) by (intros d Hd; apply Hskip; lia).
    cbn [app filter].
    rewrite (IH (S nd) (prepare h t nd) (true, nd)); [| now apply (synced_prepare h t c) | reflexivity | lia].
    destruct (matches t nd); [rewrite <- app_assoc; reflexivity | reflexivity].
Qed.

(** ---- building the tree: fresh nodes, right predicates, coherent cache ---- *)
Definition cache_ok (s : shard) (c : cache) : Prop :=
  forall k a p, cache_get k c = Some (a, p) -> forall d, p d = meta s k d.

Lemma cache_get_remove : forall k k0 c, cache_get k (cache_remove k0 c) = if N.eqb k k0 then None else cache_get k c.
Proof.
  intros k k0 c. induction c as [|[k' v] c IH]; cbn.
  - now destruct (N.eqb k k0).
  - destruct (N.eqb k0 k') eqn:E0.
    + apply N.eqb_eq in E0. subst k'. rewrite IH. destruct (N.eqb k k0); reflexivity.
    + cbn. rewrite IH. destruct (N.eqb k k') eqn:E1; [|reflexivity].
      apply N.eqb_eq in E1. subst k'. rewrite N.eqb_sym, E0. reflexivity.
Qed.

Lemma cache_ok_remove : forall s c k0, cache_ok s c -> cache_ok s (cache_remove k0 c).
Proof.
  intros s c k0 H k a p Hg. rewrite cache_get_remove in Hg. destruct (N.eqb k k0); [discriminate|]. eapply H; eauto.
Qed.

Lemma cache_ok_add : forall s cf step k a c, cache_ok s c -> cache_ok s (cache_add cf step k (a, meta s k) c).
Proof.
  intros s cf step k a c H. unfold cache_add. destruct (Nat.eqb (max_entries cf) 0); [exact H|].
  assert (H' : cache_ok s ((k, (a, meta s k)) :: cache_remove k c)).
  { intros k1 a1 p1 Hg. cbn in Hg. destruct (N.eqb k1 k) eqn:E.
    - apply N.eqb_eq in E. subst k1. injection Hg as <- <-. reflexivity.
    - rewrite cache_get_remove, E in Hg. eapply H; eauto. }
  destruct (Nat.ltb (max_entries cf) (length ((k, (a, meta s k)) :: cache_remove k c))); [|exact H'].
  destruct (nth_error _ _); [now apply cache_ok_remove | now apply cache_ok_remove].
Qed.

Definition fresh_ext (h h' : heap) : Prop := exists ext, h' = h ++ ext /\ Forall (fun c => c = (false, 0)) ext.

Lemma fresh_ext_refl : forall h, fresh_ext h h.
Proof. intros h. exists []. split; [now rewrite app_nil_r | constructor]. Qed.
Lemma fresh_ext_one : forall h, fresh_ext h (h ++ [(false, 0)]).
Proof. intros h. exists [(false, 0)]. split; [reflexivity | repeat constructor]. Qed.
Lemma fresh_ext_trans : forall a b c, fresh_ext a b -> fresh_ext b c -> fresh_ext a c.
Proof.
  intros a b c (e1 & -> & F1) (e2 & -> & F2). exists (e1 ++ e2). split; [now rewrite app_assoc | now apply Forall_app].
Qed.
Lemma fresh_ext_len : forall a b, fresh_ext a b -> length a <= length b.
Proof. intros a b (e & -> & _). rewrite app_length. lia. Qed.
Lemma fresh_ext_get : forall h h' a, fresh_ext h h' -> length h <= a < length h' -> get_cursor h' a = (false, 0).
Proof.
  intros h h' a (e & -> & F) Ha. unfold get_cursor. rewrite app_nth2 by lia.
  rewrite app_length in Ha. rewrite Forall_forall in F. apply F. apply nth_In. lia.
Qed.

Lemma build_spec : forall cf s q st t st',
  build true cf s q st = (t, st') -> cache_ok s (st_cache st) ->
  fresh_ext (st_heap st) (st_heap st') /\
  (forall a, In a (leaves t) -> length (st_heap st) <= a < length (st_heap st')) /\
  (forall d, matches t d = qeval s q d) /\
  cache_ok s (st_cache st').
Proof.
  intros cf s q. induction q as [b|k|p|a IHa b IHb|a IHa b IHb|a IHa]; intros st t st' H Hc; cbn in H.
  - destruct b; injection H as <- <-; cbn.
    + split; [apply fresh_ext_one|]. split; [intros a [<-|[]]; rewrite app_length; cbn; lia|]. auto.
    + split; [apply fresh_ext_refl|]. split; [intros a []|]. auto.
  - destruct (cache_get k (st_cache st)) as [[addr p]|] eqn:Eg.
    + injection H as <- <-. cbn. split; [apply fresh_ext_one|].
      split; [intros a [<-|[]]; rewrite app_length; cbn; lia|]. split; [|exact Hc].
      intros d. eapply Hc; eauto.
    + injection H as <- <-. cbn. split; [apply fresh_ext_one|].
      split; [intros a [<-|[]]; rewrite app_length; cbn; lia|]. split; [reflexivity|].
      now apply cache_ok_add.
  - injection H as <- <-. cbn. split; [apply fresh_ext_one|].
    split; [intros a [<-|[]]; rewrite app_length; cbn; lia|]. auto.
  - destruct (build true cf s a st) as [ta st1] eqn:Ea. destruct (build true cf s b st1) as [tb st2] eqn:Eb.
    injection H as <- <-. destruct (IHa st ta st1 Ea Hc) as (A1 & A2 & A3 & A4).
    destruct (IHb st1 tb st2 Eb A4) as (B1 & B2 & B3 & B4).
    pose proof (fresh_ext_len _ _ A1). pose proof (fresh_ext_len _ _ B1).
    split; [eapply fresh_ext_trans; eauto|]. split; [|split; [intros d; cbn; now rewrite A3, B3 | exact B4]].
    intros x Hx. cbn in Hx. apply in_app_or in Hx. destruct Hx as [Hx|Hx]; [apply A2 in Hx | apply B2 in Hx]; lia.
  - destruct (build true cf s a st) as [ta st1] eqn:Ea. destruct (build true cf s b st1) as [tb st2] eqn:Eb.
    injection H as <- <-. destruct (IHa st ta st1 Ea Hc) as (A1 & A2 & A3 & A4).
    destruct (IHb st1 tb st2 Eb A4) as (B1 & B2 & B3 & B4).
    pose proof (fresh_ext_len _ _ A1). pose proof (fresh_ext_len _ _ B1).
    split; [eapply fresh_ext_trans; eauto|]. split; [|split; [intros d; cbn; now rewrite A3, B3 | exact B4]].
    intros x Hx. cbn in Hx. apply in_app_or in Hx. destruct Hx as [Hx|Hx]; [apply A2 in Hx | apply B2 in Hx]; lia.
  - destruct (build true cf s a st) as [ta st1] eqn:Ea. injection H as <- <-.
    destruct (IHa st ta st1 Ea Hc) as (A1 & A2 & A3 & A4).
    split; [exact A1|]. split; [exact A2|]. split; [intros d; cbn; now rewrite A3 | exact A4].
Qed.

(** ---- simplification keeps the meaning on the shard's documents ---- *)
Lemma allb_spec : forall p n d, allb p n = true -> d < n -> p d = true.
Proof.
  intros p n. induction n as [|n IH]; intros d H Hd; [lia|]. cbn in H. apply andb_prop in H. destruct H as [H1 H2].
  destruct (Nat.eq_dec d n) as [->|Hne]; [exact H1 | apply IH; [exact H2 | lia]].
Qed.
Lemma anyb_spec : forall p n d, anyb p n = false -> d < n -> p d = false.
Proof.
  intros p n. induction n as [|n IH]; intros d H Hd; [lia|]. cbn in H. apply orb_false_iff in H. destruct H as [H1 H2].
  destruct (Nat.eq_dec d n) as [->|Hne]; [exact H1 | apply IH; [exact H2 | lia]].
Qed.

Lemma simp_sound : forall s q d, d < ndocs s -> qeval s (simp s q) d = qeval s q d.
Proof.
  intros s q d Hd. induction q as [b|k|p|a IHa b IHb|a IHa b IHb|a IHa]; cbn [simp]; try reflexivity.
  - destruct (allb (meta s k) (ndocs s)) eqn:Ea; [cbn; symmetry; now apply (allb_spec _ _ _ Ea)|].
    destruct (anyb (meta s k) (ndocs s)) eqn:Eb; [reflexivity | cbn; symmetry; now apply (anyb_spec _ _ _ Eb)].
  - cbn [qeval]. rewrite <- IHa, <- IHb.
    destruct (simp s a) as [[|]| | | | |]; destruct (simp s b) as [[|]| | | | |]; cbn;
      rewrite ?andb_true_r, ?andb_false_r; reflexivity.
  - cbn [qeval]. rewrite <- IHa, <- IHb.
    destruct (simp s a) as [[|]| | | | |]; destruct (simp s b) as [[|]| | | | |]; cbn;
      rewrite ?orb_true_r, ?orb_false_r; reflexivity.
  - cbn [qeval]. rewrite <- IHa. destruct (simp s a) as [[|]| | | | |]; reflexivity.
Qed.

Lemma filter_ext_seq : forall (p q : nat -> bool) lo len,
  (forall d, lo <= d < lo + len -> p d = q d) -> filter p (seq lo len) = filter q (seq lo len).
Proof.
  intros p q lo len. revert lo. induction len as [|len IH]; intros lo H; cbn; [reflexivity|].
  rewrite (H lo) by lia. rewrite (IH (S lo)); [reflexivity|]. intros d Hd. apply H. lia.
Qed.

(** ---- one search, any state: exactly the matching documents, in order ---- *)
Definition reference (s : shard) (q : Q) : list nat := filter (qeval s q) (seq 0 (ndocs s)).

Lemma search_correct : forall cf s q st,
  cache_ok s (st_cache st) ->
  fst (search true cf s q st) = reference s q /\ cache_ok s (st_cache (snd (search true cf s q st))).
Proof.
  intros cf s q st Hc. unfold search, reference.
  destruct (is_const_false (simp s q)) eqn:Ef.
  - cbn. split; [|exact Hc]. symmetry. apply filter_none_seq. intros d Hd.
    rewrite <- (simp_sound s q d) by lia. destruct (simp s q) as [[|]| | | | |]; try discriminate. reflexivity.
  - destruct (build true cf s (simp s q) st) as [t st1] eqn:Eb.
    destruct (build_spec cf s (simp s q) st t st1 Eb Hc) as (B1 & B2 & B3 & B4).
    assert (Hs : synced (st_heap st1) t (false, 0)).
    { intros a Ha. specialize (B2 a Ha). split; [lia|]. eapply fresh_ext_get; eauto. }
    pose proof (doc_loop_spec (ndocs s) t (S (ndocs s)) 0 (st_heap st1) (false, 0) [] Hs eq_refl) as Hl.
    destruct (doc_loop (S (ndocs s)) (ndocs s) t 0 (st_heap st1) []) as [res h] eqn:El. cbn in *.
    split; [|exact B4]. rewrite Hl by lia. rewrite Nat.sub_0_r.
    apply filter_ext_seq. intros d Hd. rewrite B3. apply simp_sound. lia.
Qed.

Lemma run_history_correct : forall cf s qs st,
  cache_ok s (st_cache st) -> run_history true cf s qs st = map (reference s) qs.
Proof.
  intros cf s qs. induction qs as [|q qs IH]; intros st Hc; cbn; [reflexivity|].
  destruct (search_correct cf s q st Hc) as [H1 H2].
  destruct (search true cf s q st) as [res st']. cbn in *. rewrite H1, (IH st' H2). reflexivity.
Qed.

Lemma cache_ok_fresh : forall s, cache_ok s (st_cache fresh).
Proof. intros s k a p H. discriminate H. Qed.

(** ---- the code before the repair depends on the history ---- *)
Definition wit_shard : shard := {| ndocs := 4; meta := fun k d => N.eqb k 1 && Nat.ltb d 3 |}.
Definition wit_cf : config := {| max_entries := 10; choose := fun _ _ => 0 |}.

Lemma unfixed_history_dependent :
  exists cf s h q,
    last (run_history false cf s (h ++ [q]) fresh) [] <> hd [] (run_history false cf s [q] fresh).
Proof.
  exists wit_cf, wit_shard, [QMeta 1], (QMeta 1). vm_compute. intro H. discriminate H.
Qed.
