(** C09 — the PlainASCII flag Write stores is true exactly when every stored content and every file name is ASCII. *)
From Coq Require Import ZifyBool ZifyNat ZifyN.
From ZV Require Import Lib.Base Lib.Varint Generated.FormatConsts Model.Format Model.FormatMeta.
Open Scope N_scope.

Definition all_ascii (s : list N) : bool := forallb (fun c => c <? 128) s.

Lemma rune_plain_spec : forall fuel data, (length data <= fuel)%nat -> rune_plain fuel data = all_ascii data.
Proof.
  induction fuel as [|f IH]; intros data Hf.
  - destruct data; [reflexivity|simpl in Hf; lia].
  - destruct data as [|b0 r]; [reflexivity|]. cbn [rune_plain all_ascii forallb].
    destruct (b0 <? 128) eqn:E; cbn [andb]; [|reflexivity].
    cbn [skipn]. apply IH. simpl in Hf. lia.
Qed.

Lemma string_plain_spec : forall s, string_plain s = all_ascii s.
Proof. intros s. apply rune_plain_spec. lia. Qed.

Theorem meta_plain_ascii_spec : forall b,
  meta_plain_ascii b = true <-> (forall s, In s (b_contents b ++ b_names b) -> Forall (fun c => c < 128) s).
Proof.
  intros b. unfold meta_plain_ascii, builder_plain. rewrite andb_true_iff, !forallb_forall. split.
  - intros (Hc & Hn) s Hin. apply in_app_or in Hin.
    assert (Hs : string_plain s = true) by (destruct Hin; auto).
    rewrite string_plain_spec in Hs. unfold all_ascii in Hs. rewrite forallb_forall in Hs.
    apply Forall_forall. intros c Hc'. specialize (Hs c Hc'). lia.
  - intros H. split; intros s Hs; rewrite string_plain_spec; unfold all_ascii; apply forallb_forall; intros c Hc;
      (assert (Hin : In s (b_contents b ++ b_names b)) by (apply in_or_app; auto));
      specialize (H s Hin); rewrite Forall_forall in H; specialize (H c Hc); lia.
Qed.
