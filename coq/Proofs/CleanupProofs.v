(** Proofs about Model/Cleanup.v (property C32). *)
From ZV Require Import Lib.Base Model.Cleanup.
Open Scope Z_scope.

(** ---- basic membership lemmas *)
Lemma memN_In : forall x l, memN x l = true <-> In x l.
Proof.
  intros x l. unfold memN. rewrite existsb_exists. split.
  - intros [y [I E]]. apply N.eqb_eq in E. subst. exact I.
  - intros I. exists x. split; [exact I|apply N.eqb_refl].
Qed.

Lemma in_get_shards : forall fs s,
  In s (get_shards fs) <->
  exists f e, In f fs /\ In e (alive_entries f) /\
              s = mkS (e_id e) (e_name e) (f_base f) (f_compound f) (f_mtime f).
Proof.
  intros fs s. unfold get_shards. rewrite in_flat_map. split.
  - intros [f [Hf Hs]]. unfold srefs_of_file in Hs. apply in_map_iff in Hs. destruct Hs as [e [E He]].
    exists f, e. auto.
  - intros [f [e [Hf [He E]]]]. exists f. split; [exact Hf|]. unfold srefs_of_file. apply in_map_iff.
    exists e. auto.
Qed.

Lemma in_group : forall l id s, In s (group l id) <-> In s l /\ s_id s = id.
Proof. intros. unfold group. rewrite filter_In, N.eqb_eq. reflexivity. Qed.

Lemma in_ids_of : forall l id, In id (ids_of l) <-> exists s, In s l /\ s_id s = id.
Proof.
  intros. unfold ids_of. rewrite nodup_In, in_map_iff. split; intros [s [A B]]; exists s; auto.
Qed.

Lemma NoDup_base_inj : forall fs f g,
  NoDup (map f_base fs) -> In f fs -> In g fs -> f_base f = f_base g -> f = g.
Proof.
  induction fs as [|h t IH]; intros f g ND Hf Hg E; [contradiction|].
  simpl in ND. inversion ND as [|? ? Hn ND']. subst.
  destruct Hf as [->|Hf]; destruct Hg as [->|Hg].
  - reflexivity.
  - exfalso. apply Hn. rewrite E. apply in_map. exact Hg.
  - exfalso. apply Hn. rewrite <- E. apply in_map. exact Hf.
  - apply IH; assumption.
Qed.

(** ---- what it means that cleanup kept the shard of a repository *)
Definition proj (r : N) (f : file) : list entry := filter (fun e => N.eqb (e_id e) r) (f_repos f).

(** the index still has a shard file with this base name and kind whose metadata for repository r is P *)
Definition holds (b : N) (c : bool) (r : N) (P : list entry) (x : dir) : Prop :=
  exists f', In f' (d_index x) /\ f_base f' = b /\ f_compound f' = c /\ proj r f' = P.

Definition safe (b r : N) (a : act) : Prop :=
  match a with
  | RmIndex b' => b' <> b
  | MvToTrash b' => b' <> b
  | Tomb b' id' _ => b' <> b \/ id' <> r
  | TombOrRm b' id' _ => b' <> b \/ id' <> r
  | _ => True
  end.

Lemma proj_set_flag : forall r id' flag f, id' <> r -> proj r (set_flag id' flag f) = proj r f.
Proof.
  intros r id' flag f Hne. unfold proj, set_flag. simpl.
  induction (f_repos f) as [|e t IH]; [reflexivity|]. simpl.
  destruct (N.eqb (e_id e) id') eqn:E1.
  - simpl. apply N.eqb_eq in E1.
    assert (N.eqb (e_id e) r = false) as -> by (apply N.eqb_neq; congruence). exact IH.
  - destruct (N.eqb (e_id e) r); [rewrite IH; reflexivity|exact IH].
Qed.

Lemma rm_keeps : forall b b' f fs, In f fs -> f_base f = b -> b' <> b -> In f (rm b' fs).
Proof.
  intros b b' f fs Hin Hb Hne. unfold rm. apply filter_In. split; [exact Hin|].
  apply negb_true_iff. apply N.eqb_neq. congruence.
Qed.

(** a file in which r is alive serves another repository than id' <> r *)
Lemma proj_alive_others : forall r id' f e,
  In e (proj r f) -> e_tomb e = false -> id' <> r -> others_alive id' f = true.
Proof.
  intros r id' f e He Ht Hne. unfold proj in He. apply filter_In in He. destruct He as [He Hid].
  apply N.eqb_eq in Hid. unfold others_alive. apply existsb_exists. exists e. split; [exact He|].
  rewrite Ht. simpl. apply negb_true_iff. apply N.eqb_neq. congruence.
Qed.

Lemma apply_holds : forall now b c r P a x,
  (exists e, In e P /\ e_tomb e = false) ->
  safe b r a -> holds b c r P x -> holds b c r P (apply now x a).
Proof.
  intros now b c r P a x [e0 [He0 Ht0]] Hs [f' [Hin [Hb [Hc Hp]]]].
  destruct a as [b'|b'|b' id' flag|b' id' totr|b'|b'|b'|b'|]; simpl in *.
  - exists f'. repeat split; auto. eapply rm_keeps; eauto.
  - exists f'. repeat split; auto.
  - exists (if N.eqb (f_base f') b' then set_flag id' flag f' else f'). split.
    + unfold on_file. apply in_map_iff. exists f'. split; [reflexivity|exact Hin].
    + destruct (N.eqb (f_base f') b') eqn:E.
      * apply N.eqb_eq in E. simpl. repeat split; auto.
        rewrite proj_set_flag; [exact Hp|]. destruct Hs as [Hs|Hs]; [congruence|exact Hs].
      * repeat split; auto.
  - (* servesOtherRepos: r itself is alive in the shard *)
    destruct (N.eq_dec b' b) as [Eb|Nb].
    + destruct Hs as [Hs|Hs]; [contradiction|].
      assert (SO : serves_others b' id' (d_index x) = true).
      { unfold serves_others. apply existsb_exists. exists f'. split; [exact Hin|].
        apply andb_true_iff. split; [apply N.eqb_eq; congruence|].
        apply (proj_alive_others r id' f' e0); [rewrite Hp; exact He0|exact Ht0|exact Hs]. }
      rewrite SO. simpl.
      exists (if N.eqb (f_base f') b' then set_flag id' true f' else f'). split.
      * unfold on_file. apply in_map_iff. exists f'. split; [reflexivity|exact Hin].
      * destruct (N.eqb (f_base f') b'); simpl; repeat split; auto.
        rewrite proj_set_flag; [exact Hp|exact Hs].
    + destruct (serves_others b' id' (d_index x)); simpl.
      * exists (if N.eqb (f_base f') b' then set_flag id' true f' else f'). split.
        -- unfold on_file. apply in_map_iff. exists f'. split; [reflexivity|exact Hin].
        -- destruct (N.eqb (f_base f') b') eqn:E; [apply N.eqb_eq in E; congruence|]. repeat split; auto.
      * exists f'. repeat split; auto. eapply rm_keeps; eauto.
  - exists (if N.eqb (f_base f') b' then touch now f' else f'). split.
    + unfold on_file. apply in_map_iff. exists f'. split; [reflexivity|exact Hin].
    + destruct (N.eqb (f_base f') b'); repeat split; auto.
  - exists f'. repeat split; auto.
  - destruct (find_file b' (d_index x)); simpl.
    + exists f'. repeat split; auto. eapply rm_keeps; eauto.
    + exists f'. repeat split; auto.
  - destruct (find_file b' (d_trash x)); simpl.
    + exists f'. repeat split; auto. apply in_or_app. left. exact Hin.
    + exists f'. repeat split; auto.
  - exists f'. repeat split; auto.
Qed.

Lemma fold_holds : forall now b c r P acts x,
  (exists e, In e P /\ e_tomb e = false) ->
  Forall (safe b r) acts -> holds b c r P x -> holds b c r P (fold_left (apply now) acts x).
Proof.
  intros now b c r P acts. induction acts as [|a t IH]; intros x HP HF H; [exact H|].
  simpl. inversion HF; subst. apply IH; [assumption|assumption|]. apply apply_holds; assumption.
Qed.

(** ---- well-formed index directories *)
Record wf (d : dir) : Prop := mkWf {
  (* file names are unique within the index directory *)
  wf_nodup : NoDup (map f_base (d_index d));
  (* a shard that is not named compound-* serves one repository *)
  wf_simple : forall f e e', In f (d_index d) -> f_compound f = false ->
      In e (alive_entries f) -> In e' (alive_entries f) -> e_id e = e_id e';
  (* file names derive from the repository: a trashed shard with the name of an indexed shard belongs to
     a repository that is (alive) in the index *)
  wf_trash_names : forall t f e, In t (d_trash d) -> In f (d_index d) -> f_base t = f_base f ->
      In e (alive_entries t) -> In (e_id e) (ids_of (get_shards (d_index d)))
}.

Section Kept.
  Variables (d : dir) (repos : list N) (now : Z) (sm : bool).
  Variables (f : file) (e : entry) (r : N).
  Hypothesis Hwf : wf d.
  Hypothesis Hf : In f (d_index d).
  Hypothesis He : In e (alive_entries f).
  Hypothesis Her : e_id e = r.
  Hypothesis Hassigned : In r repos.
  Hypothesis Hcons : consistent (group (get_shards (d_index d)) r) = true.

  Lemma r_in_ix : In r (ids_of (ix d)).
  Proof.
    apply in_ids_of. exists (mkS (e_id e) (e_name e) (f_base f) (f_compound f) (f_mtime f)).
    split; [|exact Her]. apply in_get_shards. exists f, e. auto.
  Qed.

  (** a shard reference of another repository with the base name of f forces f to be a compound shard *)
  Lemma other_tenant_compound : forall s id,
    In s (group (ix d) id) -> id <> r -> s_base s = f_base f ->
    s_compound s = f_compound f /\ f_compound f = true.
  Proof.
    intros s id Hs Hne Hb. apply in_group in Hs. destruct Hs as [Hs Hid].
    apply in_get_shards in Hs. destruct Hs as [f2 [e2 [Hf2 [He2 ->]]]]. simpl in *.
    assert (f2 = f) by (eapply NoDup_base_inj; eauto using wf_nodup). subst f2.
    split; [reflexivity|].
    destruct (f_compound f) eqn:C; [reflexivity|]. exfalso. apply Hne.
    rewrite <- Hid, <- Her. eapply wf_simple; eauto.
  Qed.

  (** a shard of another repository that is not a compound shard has another file name *)
  Lemma simple_other_base : forall s id,
    In s (group (ix d) id) -> id <> r -> s_compound s = false -> s_base s <> f_base f.
  Proof.
    intros s id Hs Hne Hk Hb.
    destruct (other_tenant_compound s id Hs Hne Hb) as [E C]. congruence.
  Qed.

  Lemma plan_safe : Forall (safe (f_base f) r) (plan d repos now sm).
  Proof.
    unfold plan. repeat rewrite Forall_app. repeat split.
    - (* trash phase *)
      apply Forall_forall. intros a Ha. unfold plan1 in Ha. apply in_flat_map in Ha. destruct Ha as [id [_ Ha]].
      apply in_app_or in Ha. destruct Ha as [Ha|Ha].
      + apply in_map_iff in Ha. destruct Ha as [s [<- _]]. exact I.
      + destruct (trash_drop d now id); [|contradiction].
        apply in_map_iff in Ha. destruct Ha as [s [<- _]]. exact I.
    - (* renamed repositories *)
      apply Forall_forall. intros a Ha. unfold plan3 in Ha. apply in_flat_map in Ha. destruct Ha as [id [_ Ha]].
      destruct (consistent (group (ix d) id)) eqn:C; [contradiction|].
      assert (Hne : id <> r) by (intros ->; unfold ix in C; congruence).
      apply in_app_or in Ha. destruct Ha as [Ha|Ha]; apply in_map_iff in Ha; destruct Ha as [s [<- Hs]]; simpl.
      + right. exact Hne.
      + apply filter_In in Hs. destruct Hs as [Hs _].
        destruct (s_compound s) eqn:K; simpl; [right; exact Hne|].
        eapply simple_other_base; eauto.
    - (* assigned repositories *)
      apply Forall_forall. intros a Ha. unfold plan4 in Ha. apply in_flat_map in Ha. destruct Ha as [id [_ Ha]].
      destruct (memN id (trash_keys d now)) eqn:TK.
      + apply in_flat_map in Ha. destruct Ha as [s [Hs Ha]].
        assert (Hb : s_base s <> f_base f).
        { intros Hb. apply in_group in Hs. destruct Hs as [Hs Hid].
          apply in_get_shards in Hs. destruct Hs as [t [e' [Ht [He' ->]]]]. simpl in *.
          pose proof (wf_trash_names d Hwf t f e' Ht Hf Hb He') as Hin. rewrite Hid in Hin.
          apply memN_In in TK. unfold trash_keys in TK. apply filter_In in TK. destruct TK as [_ TK].
          unfold trash_drop in TK. apply memN_In in Hin. unfold ix in TK. rewrite Hin in TK. discriminate. }
        unfold move_to in Ha. simpl in Ha. destruct Ha as [<-|Ha]; [exact Hb|].
        destruct (s_compound s); simpl in Ha; destruct Ha as [<-|[]]; exact I.
      + destruct (memN id (tomb_keys d now)) eqn:TB; [|contradiction].
        destruct (tomb_pick (tomb_candidates (d_index d) id)); [|contradiction].
        destruct Ha as [<-|[]]. simpl. right. intros ->.
        apply memN_In in TB. unfold tomb_keys in TB. apply filter_In in TB. destruct TB as [_ TB].
        pose proof r_in_ix as Hr. apply memN_In in Hr. rewrite Hr in TB. discriminate.
    - (* unassigned repositories *)
      apply Forall_forall. intros a Ha. unfold plan5 in Ha. apply in_flat_map in Ha. destruct Ha as [id [Hid Ha]].
      assert (Hne : id <> r).
      { intros ->. unfold keys4 in Hid. apply filter_In in Hid. destruct Hid as [_ Hid].
        apply memN_In in Hassigned. rewrite Hassigned in Hid. discriminate. }
      apply in_app_or in Ha. destruct Ha as [Ha|Ha].
      + apply in_map_iff in Ha. destruct Ha as [s [<- _]]. exact I.
      + apply in_app_or in Ha. destruct Ha as [Ha|Ha].
        * apply in_map_iff in Ha. destruct Ha as [s [<- _]]. simpl. right. exact Hne.
        * apply in_flat_map in Ha. destruct Ha as [s [Hs Ha]].
          apply filter_In in Hs. destruct Hs as [Hs _].
          destruct (s_compound s) eqn:K.
          -- destruct Ha as [<-|[]]. simpl. right. exact Hne.
          -- pose proof (simple_other_base s id Hs Hne K) as Hb.
             unfold move_to in Ha. rewrite K in Ha. simpl in Ha.
             destruct Ha as [<-|[<-|[]]]; [exact I|exact Hb].
    - constructor; [exact I|constructor].
  Qed.

  Theorem assigned_kept :
    exists f', In f' (d_index (cleanup d repos now sm)) /\ f_base f' = f_base f /\
               f_compound f' = f_compound f /\ proj r f' = proj r f.
  Proof.
    unfold cleanup. apply (fold_holds now (f_base f) (f_compound f) r (proj r f)).
    - exists e. pose proof He as He'. unfold alive_entries in He'. apply filter_In in He'. destruct He' as [He1 Ht].
      split; [|apply negb_true_iff; exact Ht].
      unfold proj. apply filter_In. split; [exact He1|apply N.eqb_eq; exact Her].
    - exact plan_safe.
    - exists f. auto.
  Qed.
End Kept.

(** ---- temp files *)
Theorem tmp_removed : forall d repos now sm, d_tmps (cleanup d repos now sm) = 0%nat.
Proof.
  intros. unfold cleanup, plan. repeat rewrite app_assoc. rewrite fold_left_app. reflexivity.
Qed.

(** ---- the two defects that were repaired *)
Definition ex_dir : dir :=
  mkD [mkF 0 true (-3600) [mkE 1 1 false 1000; mkE 2 2 false 1000]] [] 1.

(** before the second repair, shardMerging = false: the compound shard of assigned repository 1 and unassigned
    repository 2 was deleted outright *)
Theorem assigned_kept_no_merging_before_fix_refuted :
  exists d repos now f e r,
    wf d /\ In f (d_index d) /\ In e (alive_entries f) /\ e_id e = r /\ In r repos /\
    consistent (group (get_shards (d_index d)) r) = true /\
    d_index (cleanup_before_fix2 d repos now false) = [].
Proof.
  exists ex_dir, [1%N], 0, (mkF 0 true (-3600) [mkE 1 1 false 1000; mkE 2 2 false 1000]), (mkE 1 1 false 1000), 1%N.
  split.
  { constructor; simpl.
    - constructor; [intros []|constructor].
    - intros f e e' [<-|[]] C. discriminate.
    - intros t f e []. }
  repeat split; simpl; auto.
Qed.

(** the same directory after the repair: repository 2 is tombstoned, repository 1 untouched *)
Example ex_dir_after_fix :
  d_index (cleanup ex_dir [1%N] 0 false) = [mkF 0 true 0 [mkE 1 1 false 1000; mkE 2 2 true 1000]].
Proof. reflexivity. Qed.

Definition ex_dir2 : dir :=
  mkD [mkF 0 false (-3600) [mkE 2 2 false 1000];
       mkF 1 true (-3600) [mkE 1 1 false 1000; mkE 2 2 false 1000]] [] 0.

Theorem assigned_kept_before_fix_refuted :
  exists d repos now f e r,
    wf d /\ In f (d_index d) /\ In e (alive_entries f) /\ e_id e = r /\ In r repos /\
    consistent (group (get_shards (d_index d)) r) = true /\
    d_index (cleanup_before_fix d repos now true) = [].
Proof.
  exists ex_dir2, [1%N], 0, (mkF 1 true (-3600) [mkE 1 1 false 1000; mkE 2 2 false 1000]), (mkE 1 1 false 1000), 1%N.
  split.
  { constructor; simpl.
    - constructor; [intros [H|[]]; discriminate|constructor; [intros []|constructor]].
    - intros f e e' [<-|[<-|[]]] C; try discriminate. simpl. intros [<-|[]] [<-|[]]. reflexivity.
    - intros t f e []. }
  repeat split; simpl; auto.
Qed.
