(** C09 — codec lemmas: uvarint, sized delta lists (32/16 bit, every input, wrap-around), document sections,
    big-endian words. *)
From Coq Require Import ZifyBool ZifyNat ZifyN.
From ZV Require Import Lib.Base Lib.Varint Generated.FormatConsts Model.Format.
Open Scope N_scope.

(* ------------------------------------------------------------------ uvarint *)

Lemma put_uvarint_fuel_nonempty : forall fuel x, put_uvarint_fuel fuel x <> [].
Proof. destruct fuel; intros x; simpl; [discriminate|]. destruct (x <? 128); discriminate. Qed.

Lemma put_uvarint_fuel_len : forall fuel x, (1 <= length (put_uvarint_fuel fuel x) <= S fuel)%nat.
Proof.
  induction fuel as [|f IH]; intros x; simpl; [lia|].
  destruct (x <? 128); simpl; [lia|]. specialize (IH (x / 128)). lia.
Qed.

Lemma pow7_step : forall i : nat, 2 ^ (7 * N.of_nat (S i)) = 128 * 2 ^ (7 * N.of_nat i).
Proof.
  intros i. replace (7 * N.of_nat (S i)) with (7 + 7 * N.of_nat i) by lia.
  rewrite N.pow_add_r. reflexivity.
Qed.

Lemma uvarint_put_from : forall fuel i x acc rest,
  (i + fuel = 9)%nat -> x * 2 ^ (7 * N.of_nat i) < W64 ->
  uvarint_from (put_uvarint_fuel fuel x ++ rest) i acc (7 * N.of_nat i)
  = (acc + x * 2 ^ (7 * N.of_nat i), Z.of_nat (i + length (put_uvarint_fuel fuel x))).
Proof.
  induction fuel as [|f IH]; intros i x acc rest Hi Hx.
  - assert (i = 9%nat) by lia. subst i. simpl put_uvarint_fuel. cbn [app uvarint_from Nat.eqb length].
    assert (Hx2 : x < 2).
    { change (7 * N.of_nat 9) with 63 in Hx. change W64 with (2 * 2 ^ 63) in Hx.
      assert (0 < 2 ^ 63) by (apply N.neq_0_lt_0; apply N.pow_nonzero; discriminate). nia. }
    rewrite (N.mod_small x 128) by lia.
    replace (x <? 128) with true by lia. replace (1 <? x) with false by lia. simpl andb. cbv iota.
    reflexivity.
  - cbn [put_uvarint_fuel]. destruct (x <? 128) eqn:E.
    + cbn [app uvarint_from length]. replace (Nat.eqb i 10) with false by lia. rewrite E.
      replace (Nat.eqb i 9) with false by lia. simpl andb. cbv iota. f_equal; lia.
    + cbn [app uvarint_from length]. replace (Nat.eqb i 10) with false by lia.
      assert (Hb : (x mod 128 + 128 <? 128) = false) by lia. rewrite Hb.
      replace ((x mod 128 + 128) mod 128) with (x mod 128).
      2:{ rewrite N.add_mod by discriminate. rewrite N.mod_same by discriminate. rewrite N.add_0_r.
          rewrite N.mod_mod by discriminate. rewrite N.mod_mod by discriminate. reflexivity. }
      replace (7 * N.of_nat i + 7) with (7 * N.of_nat (S i)) by lia.
      rewrite IH; [| lia |].
      * rewrite pow7_step. f_equal; [|lia].
        pose proof (N.div_mod x 128 ltac:(discriminate)) as Hdm. nia.
      * rewrite pow7_step. pose proof (N.div_mod x 128 ltac:(discriminate)) as Hdm.
        assert (0 < 2 ^ (7 * N.of_nat i)) by (apply N.neq_0_lt_0; apply N.pow_nonzero; discriminate). nia.
Qed.

(** binary.Uvarint (binary.PutUvarint x) = (x, number of bytes), whatever follows, for every uint64 x *)
Lemma uvarint_put : forall x rest, x < W64 ->
  uvarint (put_uvarint x ++ rest) = (x, Z.of_nat (length (put_uvarint x))).
Proof.
  intros x rest Hx. unfold uvarint, put_uvarint.
  change 0 with (7 * N.of_nat 0) at 2.
  rewrite uvarint_put_from; [| reflexivity | simpl; lia].
  simpl. f_equal. lia.
Qed.

Lemma put_uvarint_len : forall x, (1 <= length (put_uvarint x) <= 10)%nat.
Proof. intros x. unfold put_uvarint. pose proof (put_uvarint_fuel_len 9 x). lia. Qed.

Lemma skipn_put : forall x (rest : list N),
  skipn (Z.to_nat (Z.of_nat (length (put_uvarint x)))) (put_uvarint x ++ rest) = rest.
Proof.
  intros x rest. rewrite Nat2Z.id. rewrite skipn_app, skipn_all, Nat.sub_diag. reflexivity.
Qed.

(* ------------------------------------------------------------------ delta lists *)

Lemma wrap_delta : forall W p last, 0 < W -> p < W -> last < W ->
  (last + ((p + W - last) mod W) mod W) mod W = p.
Proof.
  intros W p last HW Hp Hl. rewrite N.mod_mod by lia.
  rewrite N.add_mod_idemp_r by lia.
  replace (last + (p + W - last)) with (p + 1 * W) by lia.
  rewrite N.mod_add by lia. apply N.mod_small. exact Hp.
Qed.

Lemma app_nonempty_match : forall {A B} (a rest : list A) (x y : B), a <> [] ->
  match a ++ rest with [] => x | _ :: _ => y end = y.
Proof. intros A B a rest x y H. destruct a; [contradiction|reflexivity]. Qed.

Lemma deltas_roundtrip : forall W l last fuel, 0 < W -> W <= W64 -> last < W -> Forall (fun p => p < W) l ->
  (length l <= fuel)%nat ->
  deltas_dec fuel W (deltas_enc W last l) last = Ok l.
Proof.
  intros W l. induction l as [|p r IH]; intros last fuel HW HW64 Hl Hall Hf.
  - destruct fuel; reflexivity.
  - inversion Hall as [|? ? Hp Hr]; subst. simpl in Hf. destruct fuel as [|f]; [lia|].
    cbn [deltas_enc deltas_dec].
    set (d := (p + W - last) mod W).
    assert (Hd : d < W64). { pose proof (N.mod_upper_bound (p + W - last) W ltac:(lia)). unfold d. lia. }
    pose proof (put_uvarint_len d) as Hlen.
    destruct (put_uvarint d ++ deltas_enc W p r) eqn:E.
    { destruct (put_uvarint d) eqn:E2; [simpl in Hlen; lia|discriminate]. }
    rewrite <- E. rewrite uvarint_put by exact Hd.
    replace (Z.of_nat (length (put_uvarint d)) <=? 0)%Z with false by lia.
    rewrite skipn_put.
    unfold d. rewrite wrap_delta by lia.
    rewrite IH; auto; lia.
Qed.

Lemma deltas_enc_len : forall W l last, (length l <= length (deltas_enc W last l))%nat.
Proof.
  intros W l. induction l as [|p r IH]; intros last; simpl; [lia|].
  rewrite app_length. pose proof (put_uvarint_len ((p + W - last) mod W)). specialize (IH p). lia.
Qed.

(** fromSizedDeltas(toSizedDeltas l) = l for EVERY list of W-bit values (sorted or not: the wrap-around
    subtraction and addition cancel), W = 2^32 (elem 4) or 2^16 (elem 2). *)
Lemma sized_deltas_roundtrip_w : forall W elem l, 0 < W -> W <= W64 -> 0 < elem ->
  Forall (fun p => p < W) l -> nlen l * elem <= MAXALLOC ->
  fst (from_sized_deltas_w W elem (to_sized_deltas_w W l)) = Ok l.
Proof.
  intros W elem l HW HW64 Helem Hall Hsz.
  unfold from_sized_deltas_w, to_sized_deltas_w.
  assert (Hn : nlen l <= MAXALLOC) by nia.
  assert (Hn64 : nlen l < W64) by (unfold MAXALLOC, W64 in *; lia).
  rewrite uvarint_put by exact Hn64. pose proof (put_uvarint_len (nlen l)) as Hpl.
  replace (Z.of_nat (length (put_uvarint (nlen l))) <=? 0)%Z with false by lia. rewrite skipn_put.
  pose proof (deltas_enc_len W l 0) as Hel.
  assert (Hmin : N.min (nlen l) (nlen (deltas_enc W 0 l)) = nlen l) by (unfold nlen in *; lia).
  rewrite Hmin.
  replace (MAXALLOC <? nlen l * elem) with false by lia.
  cbn [fst]. apply deltas_roundtrip; auto.
Qed.

Lemma W32_pos : 0 < W32. Proof. reflexivity. Qed.
Lemma W16_pos : 0 < W16. Proof. reflexivity. Qed.
Lemma W32_le : W32 <= W64. Proof. discriminate. Qed.
Lemma W16_le : W16 <= W64. Proof. discriminate. Qed.

Lemma sized_deltas_roundtrip : forall l, Forall (fun p => p < W32) l -> nlen l * 4 <= MAXALLOC ->
  from_sized_deltas (to_sized_deltas l) = Ok l.
Proof. intros. apply sized_deltas_roundtrip_w; auto using W32_pos, W32_le. Qed.

Lemma sized_deltas16_roundtrip : forall l, Forall (fun p => p < W16) l -> nlen l * 2 <= MAXALLOC ->
  from_sized_deltas16 (to_sized_deltas16 l) = Ok l.
Proof. intros. apply sized_deltas_roundtrip_w; auto using W16_pos, W16_le. Qed.

(* ------------------------------------------------------------------ document sections *)

Definition sec_ok (s : N * N) : Prop := fst s < W32 /\ snd s < W32.

Lemma docsecs_roundtrip_loop : forall l last fuel, last < W32 -> Forall sec_ok l -> (length l <= fuel)%nat ->
  docsecs_dec fuel (deltas_enc W32 last (flatten_secs l)) last = Ok l.
Proof.
  induction l as [|[s e] r IH]; intros last fuel Hl Hall Hf.
  - destruct fuel; reflexivity.
  - inversion Hall as [|? ? [Hs He] Hr]; subst. cbn [fst snd] in *. simpl in Hf. destruct fuel as [|f]; [lia|].
    cbn [flatten_secs deltas_enc docsecs_dec].
    set (d1 := (s + W32 - last) mod W32). set (d2 := (e + W32 - s) mod W32).
    assert (Hd1 : d1 < W64). { pose proof (N.mod_upper_bound (s + W32 - last) W32 ltac:(discriminate)). unfold d1, W32, W64 in *. lia. }
    assert (Hd2 : d2 < W64). { pose proof (N.mod_upper_bound (e + W32 - s) W32 ltac:(discriminate)). unfold d2, W32, W64 in *. lia. }
    pose proof (put_uvarint_len d1) as Hlen1. pose proof (put_uvarint_len d2) as Hlen2.
    destruct (put_uvarint d1 ++ put_uvarint d2 ++ deltas_enc W32 e (flatten_secs r)) eqn:E.
    { destruct (put_uvarint d1) eqn:E2; [simpl in Hlen1; lia|discriminate]. }
    rewrite <- E. rewrite uvarint_put by exact Hd1.
    replace (Z.of_nat (length (put_uvarint d1)) <=? 0)%Z with false by lia. rewrite skipn_put.
    rewrite uvarint_put by exact Hd2.
    replace (Z.of_nat (length (put_uvarint d2)) <=? 0)%Z with false by lia. rewrite skipn_put.
    unfold d1, d2. rewrite !wrap_delta by (auto using W32_pos).
    rewrite IH; auto; lia.
Qed.

Lemma flatten_secs_len : forall l, length (flatten_secs l) = (2 * length l)%nat.
Proof. induction l as [|[s e] r IH]; simpl; lia. Qed.

Lemma docsections_roundtrip : forall l, Forall sec_ok l -> nlen l * 8 <= MAXALLOC ->
  unmarshal_doc_sections (marshal_doc_sections l) = Ok l.
Proof.
  intros l Hall Hsz. unfold unmarshal_doc_sections, unmarshal_doc_sections_a, marshal_doc_sections, to_sized_deltas, to_sized_deltas_w.
  assert (Hn : nlen (flatten_secs l) = 2 * nlen l) by (unfold nlen; rewrite flatten_secs_len; lia).
  assert (Hn64 : nlen (flatten_secs l) < W64) by (unfold MAXALLOC, W64 in *; lia).
  rewrite uvarint_put by exact Hn64. pose proof (put_uvarint_len (nlen (flatten_secs l))) as Hpl.
  replace (Z.of_nat (length (put_uvarint (nlen (flatten_secs l)))) <=? 0)%Z with false by lia. rewrite skipn_put.
  pose proof (deltas_enc_len W32 (flatten_secs l) 0) as Hel.
  assert (Hmin : N.min (nlen (flatten_secs l)) (nlen (deltas_enc W32 0 (flatten_secs l))) = nlen (flatten_secs l)) by (unfold nlen in *; lia).
  rewrite Hmin.
  rewrite Hn. replace (2 * nlen l / 2) with (nlen l) by (rewrite N.mul_comm, N.div_mul; [reflexivity|discriminate]).
  replace (MAXALLOC <? nlen l * 8) with false by lia. cbn [fst].
  apply docsecs_roundtrip_loop; auto; [reflexivity|].
  rewrite flatten_secs_len in Hel. lia.
Qed.

(* ------------------------------------------------------------------ big-endian words *)

Lemma be32_get : forall n, n < W32 -> be_get (be32 n) = n.
Proof.
  intros n Hn. unfold be_get, be32, be_val, W32 in *.
  pose proof (N.div_mod n 256 ltac:(discriminate)) as H1.
  pose proof (N.div_mod (n / 256) 256 ltac:(discriminate)) as H2.
  pose proof (N.div_mod (n / 65536) 256 ltac:(discriminate)) as H3.
  pose proof (N.div_div n 256 256 ltac:(discriminate) ltac:(discriminate)) as D1.
  pose proof (N.div_div n 65536 256 ltac:(discriminate) ltac:(discriminate)) as D2.
  change (256 * 256) with 65536 in D1. change (65536 * 256) with 16777216 in D2.
  rewrite D1 in H2. rewrite D2 in H3.
  assert (n / 16777216 < 256) by (apply N.div_lt_upper_bound; [discriminate|lia]).
  rewrite (N.mod_small (n / 16777216) 256) by assumption.
  lia.
Qed.

Lemma be32_len : forall n, length (be32 n) = 4%nat. Proof. reflexivity. Qed.

Lemma concat_be32_len : forall l, length (concat (map be32 l)) = (4 * length l)%nat.
Proof. induction l as [|n r IH]; [reflexivity|]. cbn [map concat]. rewrite app_length, be32_len, IH. simpl. lia. Qed.

Lemma be64_len : forall n, length (be64 n) = 8%nat. Proof. reflexivity. Qed.
Lemma concat_be64_len : forall l, length (concat (map be64 l)) = (8 * length l)%nat.
Proof. induction l as [|n r IH]; [reflexivity|]. cbn [map concat]. rewrite app_length, be64_len, IH. simpl. lia. Qed.

Lemma words4_be32 : forall l, Forall (fun n => n < W32) l -> words 4 (concat (map be32 l)) = l.
Proof.
  intros l Hall. unfold words.
  assert (G : forall fuel, (length l <= fuel)%nat -> words_fuel fuel 4 (concat (map be32 l)) = l).
  { induction Hall as [|n r Hn Hr IH]; intros fuel Hf.
    - destruct fuel; reflexivity.
    - simpl in Hf. destruct fuel as [|f]; [lia|].
      cbn [map concat]. change (be32 n ++ concat (map be32 r)) with
        ((n / 16777216) mod 256 :: (n / 65536) mod 256 :: (n / 256) mod 256 :: n mod 256 :: concat (map be32 r)).
      cbn [words_fuel firstn skipn]. f_equal; [apply (be32_get n Hn)|]. apply IH. lia. }
  apply G. rewrite concat_be32_len. lia.
Qed.

Lemma be64_get : forall n, n < W64 -> be_get (be64 n) = n.
Proof.
  intros n Hn. unfold be64.
  assert (Hhi : n / W32 < W32) by (apply N.div_lt_upper_bound; [discriminate|exact Hn]).
  assert (Hlo : n mod W32 < W32) by (apply N.mod_upper_bound; discriminate).
  pose proof (be32_get _ Hhi) as G1. pose proof (be32_get _ Hlo) as G2.
  unfold be_get in *. unfold be32 in *. cbn [app be_val] in *.
  pose proof (N.div_mod n W32 ltac:(discriminate)) as Hdm. unfold W32 in *. lia.
Qed.

Lemma words8_be64 : forall l, Forall (fun n => n < W64) l -> words 8 (concat (map be64 l)) = l.
Proof.
  intros l Hall. unfold words.
  assert (G : forall fuel, (length l <= fuel)%nat -> words_fuel fuel 8 (concat (map be64 l)) = l).
  { induction Hall as [|n r Hn Hr IH]; intros fuel Hf.
    - destruct fuel; reflexivity.
    - simpl in Hf. destruct fuel as [|f]; [lia|].
      cbn [map concat]. unfold be64 at 1. unfold be32 at 1 2. cbn [app].
      cbn [words_fuel firstn skipn]. f_equal; [|apply IH; lia].
      pose proof (be64_get n Hn) as G. unfold be64, be32 in G. cbn [app] in G. exact G. }
  apply G. rewrite concat_be64_len. lia.
Qed.
