(** Proofs about Model/DocCacheBuild.v (C04): building a match tree while other searches run before every atom
    AND between the cache miss and the cache Add of a Meta atom. *)
From ZV Require Import Lib.Base Model.DocCache Model.DocCacheBuild Proofs.DocCache.

Definition is_leaf_atom (q : Q) : Prop :=
  match q with QConst _ | QAtom _ => True | _ => False end.

Lemma build_split_atom : forall env cf s q st k,
  is_leaf_atom q ->
  build_split env cf s q st k = (let '(t, st1) := build true cf s q (env k st) in (t, st1, S k)).
Proof. intros env cf s q st k H. destruct q; try contradiction; reflexivity. Qed.

Lemma get_cursor_app_old : forall h e a, a < length h -> get_cursor (h ++ e) a = get_cursor h a.
Proof. intros h e a Ha. unfold get_cursor. now rewrite app_nth1. Qed.

Lemma get_cursor_app_new : forall h, get_cursor (h ++ [(false, 0)]) (length h) = (false, 0).
Proof. intros h. unfold get_cursor. rewrite app_nth2 by lia. now rewrite Nat.sub_diag. Qed.

Lemma build_split_keeps : forall env cf s q st k t st' k',
  build_split env cf s q st k = (t, st', k') -> env_grows env ->
  length (st_heap st) <= length (st_heap st') /\
  forall a, a < length (st_heap st) -> env_keeps env a -> get_cursor (st_heap st') a = get_cursor (st_heap st) a.
Proof.
  intros env cf s q. induction q as [b|key|p|a IHa b IHb|a IHa b IHb|a IHa]; intros st k t st' k' H Hg.
  - rewrite build_split_atom in H by exact I.
    destruct (build true cf s (QConst b) (env k st)) as [t0 st0] eqn:Eb. injection H as <- <- <-.
    pose proof (build_fresh_ext _ _ _ _ _ _ Eb) as F. pose proof (fresh_ext_len _ _ F) as L. pose proof (Hg k st) as G.
    split; [lia|]. intros a Ha Hk. rewrite (fresh_ext_get_old _ _ a F) by lia. now apply Hk.
  - cbn [build_split] in H. pose proof (Hg k st) as G0.
    destruct (cache_get key (st_cache (env k st))) as [[addr p]|] eqn:Eg.
    + injection H as <- <- <-. cbn [st_heap]. rewrite app_length. cbn [length]. split; [lia|].
      intros a Ha Hk. rewrite get_cursor_app_old by lia. now apply Hk.
    + injection H as <- <- <-. cbn [st_heap]. rewrite app_length. cbn [length].
      pose proof (Hg (S k) (env k st)) as G1. split; [lia|].
      intros a Ha Hk. rewrite get_cursor_app_old by lia. rewrite (Hk (S k) (env k st)) by lia. now apply Hk.
  - rewrite build_split_atom in H by exact I.
    destruct (build true cf s (QAtom p) (env k st)) as [t0 st0] eqn:Eb. injection H as <- <- <-.
    pose proof (build_fresh_ext _ _ _ _ _ _ Eb) as F. pose proof (fresh_ext_len _ _ F) as L. pose proof (Hg k st) as G.
    split; [lia|]. intros a Ha Hk. rewrite (fresh_ext_get_old _ _ a F) by lia. now apply Hk.
  - cbn [build_split] in H. destruct (build_split env cf s a st k) as [[ta st1] k1] eqn:Ea.
    destruct (build_split env cf s b st1 k1) as [[tb st2] k2] eqn:Eb. injection H as <- <- <-.
    destruct (IHa _ _ _ _ _ Ea Hg) as [La Ka]. destruct (IHb _ _ _ _ _ Eb Hg) as [Lb Kb].
    split; [lia|]. intros x Hx Hk. rewrite Kb, Ka; auto. lia.
  - cbn [build_split] in H. destruct (build_split env cf s a st k) as [[ta st1] k1] eqn:Ea.
    destruct (build_split env cf s b st1 k1) as [[tb st2] k2] eqn:Eb. injection H as <- <- <-.
    destruct (IHa _ _ _ _ _ Ea Hg) as [La Ka]. destruct (IHb _ _ _ _ _ Eb Hg) as [Lb Kb].
    split; [lia|]. intros x Hx Hk. rewrite Kb, Ka; auto. lia.
  - cbn [build_split] in H. destruct (build_split env cf s a st k) as [[ta st1] k1] eqn:Ea. injection H as <- <- <-.
    eauto.
Qed.

Lemma build_split_spec : forall env cf s q st k t st' k',
  build_split env cf s q st k = (t, st', k') ->
  env_grows env ->
  (forall i x, cache_ok s (st_cache x) -> cache_ok s (st_cache (env i x))) ->
  (forall a, In a (leaves t) -> env_keeps env a) ->
  cache_ok s (st_cache st) ->
  (forall a, In a (leaves t) -> length (st_heap st) <= a < length (st_heap st') /\ get_cursor (st_heap st') a = (false, 0)) /\
  (forall d, matches t d = qeval s q d) /\ cache_ok s (st_cache st').
Proof.
  intros env cf s q. induction q as [b|key|p|a IHa b IHb|a IHa b IHb|a IHa]; intros st k t st' k' H Hg Hc Hk Hok.
  - rewrite build_split_atom in H by exact I.
    destruct (build true cf s (QConst b) (env k st)) as [t0 st0] eqn:Eb. injection H as <- <- <-.
    destruct (build_spec _ _ _ _ _ _ Eb (Hc k st Hok)) as (B1 & B2 & B3 & B4).
    pose proof (Hg k st) as G. split; [|split; assumption].
    intros a Ha. specialize (B2 a Ha). split; [lia | eapply fresh_ext_get; eauto].
  - cbn [build_split] in H. pose proof (Hg k st) as G0. pose proof (Hc k st Hok) as Ok0.
    destruct (cache_get key (st_cache (env k st))) as [[addr p]|] eqn:Eg.
    + injection H as <- <- <-. cbn [st_heap st_cache leaves matches qeval]. split; [|split; [|exact Ok0]].
      * intros a [<-|[]]. rewrite app_length. cbn [length]. split; [lia | apply get_cursor_app_new].
      * intros d. exact (Ok0 key addr p Eg d).
    + injection H as <- <- <-. cbn [st_heap st_cache leaves matches qeval].
      pose proof (Hg (S k) (env k st)) as G1. pose proof (Hc (S k) (env k st) Ok0) as Ok1.
      split; [|split; [reflexivity | now apply cache_ok_add]].
      intros a [<-|[]]. rewrite app_length. cbn [length]. split; [lia | apply get_cursor_app_new].
  - rewrite build_split_atom in H by exact I.
    destruct (build true cf s (QAtom p) (env k st)) as [t0 st0] eqn:Eb. injection H as <- <- <-.
    destruct (build_spec _ _ _ _ _ _ Eb (Hc k st Hok)) as (B1 & B2 & B3 & B4).
    pose proof (Hg k st) as G. split; [|split; assumption].
    intros a Ha. specialize (B2 a Ha). split; [lia | eapply fresh_ext_get; eauto].
  - cbn [build_split] in H. destruct (build_split env cf s a st k) as [[ta st1] k1] eqn:Ea.
    destruct (build_split env cf s b st1 k1) as [[tb st2] k2] eqn:Eb. injection H as <- <- <-.
    assert (Hka : forall x, In x (leaves ta) -> env_keeps env x) by (intros; apply Hk; cbn; apply in_or_app; now left).
    assert (Hkb : forall x, In x (leaves tb) -> env_keeps env x) by (intros; apply Hk; cbn; apply in_or_app; now right).
    destruct (IHa _ _ _ _ _ Ea Hg Hc Hka Hok) as (A1 & A2 & A3).
    destruct (IHb _ _ _ _ _ Eb Hg Hc Hkb A3) as (B1 & B2 & B3).
    destruct (build_split_keeps _ _ _ _ _ _ _ _ _ Ea Hg) as [La _]. destruct (build_split_keeps _ _ _ _ _ _ _ _ _ Eb Hg) as [Lb Kb].
    split; [|split; [intros d; cbn; now rewrite A2, B2 | exact B3]].
    intros x Hx. cbn in Hx. apply in_app_or in Hx. destruct Hx as [Hx|Hx].
    + destruct (A1 x Hx) as [R1 R2]. split; [lia|]. rewrite Kb; [exact R2 | lia | now apply Hka].
    + destruct (B1 x Hx) as [R1 R2]. split; [lia | exact R2].
  - cbn [build_split] in H. destruct (build_split env cf s a st k) as [[ta st1] k1] eqn:Ea.
    destruct (build_split env cf s b st1 k1) as [[tb st2] k2] eqn:Eb. injection H as <- <- <-.
    assert (Hka : forall x, In x (leaves ta) -> env_keeps env x) by (intros; apply Hk; cbn; apply in_or_app; now left).
    assert (Hkb : forall x, In x (leaves tb) -> env_keeps env x) by (intros; apply Hk; cbn; apply in_or_app; now right).
    destruct (IHa _ _ _ _ _ Ea Hg Hc Hka Hok) as (A1 & A2 & A3).
    destruct (IHb _ _ _ _ _ Eb Hg Hc Hkb A3) as (B1 & B2 & B3).
    destruct (build_split_keeps _ _ _ _ _ _ _ _ _ Ea Hg) as [La _]. destruct (build_split_keeps _ _ _ _ _ _ _ _ _ Eb Hg) as [Lb Kb].
    split; [|split; [intros d; cbn; now rewrite A2, B2 | exact B3]].
    intros x Hx. cbn in Hx. apply in_app_or in Hx. destruct Hx as [Hx|Hx].
    + destruct (A1 x Hx) as [R1 R2]. split; [lia|]. rewrite Kb; [exact R2 | lia | now apply Hka].
    + destruct (B1 x Hx) as [R1 R2]. split; [lia | exact R2].
  - cbn [build_split] in H. destruct (build_split env cf s a st k) as [[ta st1] k1] eqn:Ea. injection H as <- <- <-.
    destruct (IHa _ _ _ _ _ Ea Hg Hc Hk Hok) as (A1 & A2 & A3).
    split; [exact A1|]. split; [intros d; cbn; now rewrite A2 | exact A3].
Qed.

(** one search, interfered with before every atom, between Get and Add of every Meta atom, and before every loop
    iteration: exactly the documents satisfying the query *)
Lemma search_split_correct : forall envb envl cf s q st k t st' k',
  build_split envb cf s (simp s q) st k = (t, st', k') ->
  env_grows envb ->
  (forall i x, cache_ok s (st_cache x) -> cache_ok s (st_cache (envb i x))) ->
  (forall a, In a (leaves t) -> env_keeps envb a) ->
  (forall i h, rely t h (envl i h)) ->
  cache_ok s (st_cache st) ->
  fst (doc_loop_env envl (S (ndocs s)) (ndocs s) t 0 (st_heap st') []) = reference s q.
Proof.
  intros envb envl cf s q st k t st' k' Hb Hg Hc Hk Hl Hok.
  destruct (build_split_spec envb cf s (simp s q) st k t st' k' Hb Hg Hc Hk Hok) as (B1 & B2 & _).
  rewrite (doc_loop_env_spec envl (ndocs s) t Hl (S (ndocs s)) 0 (st_heap st') (false, 0) []);
    [| intros a Ha; destruct (B1 a Ha) as [R1 R2]; split; [lia | exact R2] | reflexivity | lia].
  rewrite Nat.sub_0_r. cbn [app]. apply (matches_reference s q t B2).
Qed.
