(** C16 — the 64-bit walk is NECESSARY: for every narrower bit counter there is a well-formed, mergeable shard
    (w+1 <= 64 branches, one document on the last one) that merge and explode refuse, while the code as written
    (merge_impl) keeps it. *)
From ZV Require Import Lib.Base Model.MergeDocs Proofs.MergeDocsProofs Proofs.MergeDocsTotal Proofs.MergeDocsWidth.

Definition exw_shard (w : nat) : shard :=
  {| sh_repos := [{| sr_id := 1; sr_prio := 0; sr_tomb := false; sr_branches := map N.of_nat (seq 1 (S w)); sr_subs := [0%N] |}];
     sh_langs := [0%N];
     sh_docs := [{| sd_name := 7; sd_content := 8; sd_repo := 0; sd_mask := repeat false w ++ [true]; sd_lang := 0; sd_sub := 0;
                    sd_syms := []; sd_cat := 0 |}] |}.

Lemma walk_narrow_refuted : forall w, (w < 64)%nat ->
  c16_pre (exw_shard w) = true /\ merge_w w [exw_shard w] = Err 2 /\ explode_w w (exw_shard w) = Err 2.
Proof.
  intros w Hw.
  do 64 (destruct w as [|w]; [vm_compute; repeat split; reflexivity|]).
  lia.
Qed.

Lemma walk_width_necessary : forall w, (w < 64)%nat ->
  exists sh, wf_shard sh /\ mergeable sh /\ merge_w w [sh] = Err 2 /\ explode_w w sh = Err 2 /\
             (exists b, merge_impl [sh] = Ok b /\ viewr b = viewr sh).
Proof.
  intros w Hw. exists (exw_shard w). destruct (walk_narrow_refuted w Hw) as [Hpre [Hm He]].
  unfold c16_pre in Hpre. apply andb_prop in Hpre. destruct Hpre as [H1 H2].
  apply wf_shardb_true in H1. apply mergeableb_true in H2.
  split; [exact H1|]. split; [exact H2|]. split; [exact Hm|]. split; [exact He|].
  assert (Hwf : Forall wf_shard [exw_shard w]) by (constructor; [exact H1|constructor]).
  assert (Hmg : Forall mergeable [exw_shard w]) by (constructor; [exact H2|constructor]).
  destruct (merge_total [exw_shard w]) as [b Hb]; [discriminate|exact Hwf|exact Hmg|].
  exists b. rewrite (merge_impl_eq _ Hwf). split; [exact Hb|].
  rewrite (merge_viewr _ _ Hwf Hb). change (sort_prio [exw_shard w]) with [exw_shard w].
  cbn [flat_map]. apply app_nil_r.
Qed.
