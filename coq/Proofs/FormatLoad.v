(** C09 — readIndexData on a written shard: NewSearcher (header, tagged TOC, every section read, delta decoders,
    verify) applied to write_shard's bytes succeeds, and the loaded indexData holds exactly what the builder
    state held; the per-document accessors return the documents. *)
From Coq Require Import ZifyBool ZifyNat ZifyN String.
From ZV Require Import Lib.Base Lib.Varint Generated.FormatConsts Model.Format Proofs.FormatCodec Proofs.FormatLayout Proofs.FormatToc.
Open Scope N_scope.

Lemma shard_sections_kinds : forall next b o, secs_kinds_ok (shard_sections next b o).
Proof. intros [|] b [cs ls cats [rid|] m rm]; lazy; reflexivity. Qed.
Lemma shard_sections_uniq : forall next b o, uniq_tags (map fst (shard_sections next b o)) = true.
Proof. intros [|] b [cs ls cats [rid|] m rm]; lazy; reflexivity. Qed.

(* ------------------------------------------------------------------ reading one section *)

Lemma blob_has : forall bs off d, nlen bs < W32 -> has bs off d -> blob_of (mem_file bs) (off, nlen d) = Ok d.
Proof. intros. unfold blob_of. cbn [fst snd]. apply has_read; assumption. Qed.

Lemma words4_has : forall bs off l, nlen bs < W32 -> has bs off (concat (map be32 l)) -> Forall (fun n => n < W32) l ->
  read_section_words 4 (mem_file bs) off (nlen (concat (map be32 l))) = Ok l.
Proof.
  intros bs off l Hlt H Hall. unfold read_section_words.
  replace (nlen (concat (map be32 l)) mod 4 =? 0) with true.
  2:{ symmetry. apply N.eqb_eq. unfold nlen. rewrite concat_be32_len.
      replace (N.of_nat (4 * length l)) with (N.of_nat (length l) * 4) by lia. apply N.mod_mul. discriminate. }
  rewrite (has_read _ _ _ Hlt H). cbn [obind]. f_equal. apply words4_be32. exact Hall.
Qed.

Lemma words8_has : forall bs off l, nlen bs < W32 -> has bs off (concat (map be64 l)) -> Forall (fun n => n < W64) l ->
  read_section_words 8 (mem_file bs) off (nlen (concat (map be64 l))) = Ok l.
Proof.
  intros bs off l Hlt H Hall. unfold read_section_words.
  replace (nlen (concat (map be64 l)) mod 8 =? 0) with true.
  2:{ symmetry. apply N.eqb_eq. unfold nlen. rewrite concat_be64_len.
      replace (N.of_nat (8 * length l)) with (N.of_nat (length l) * 8) by lia. apply N.mod_mul. discriminate. }
  rewrite (has_read _ _ _ Hlt H). cbn [obind]. f_equal. apply words8_be64. exact Hall.
Qed.

Lemma ngram_text_has : forall bs off l, nlen bs < W32 -> has bs off (concat (map be64 l)) ->
  ngram_text_ok (mem_file bs) (off, nlen (concat (map be64 l))) (concat (map be64 l)) = true.
Proof.
  intros bs off l Hlt H. unfold ngram_text_ok. cbn [fst f_len mem_file].
  pose proof (has_bound _ _ _ H) as Hb. unfold nlen in *. rewrite concat_be64_len in *. apply N.leb_le. lia.
Qed.

Lemma sized_len_ge : forall W l, nlen l <= nlen (to_sized_deltas_w W l).
Proof.
  intros W l. unfold to_sized_deltas_w. rewrite nlen_app. pose proof (deltas_enc_len W l 0). unfold nlen. lia.
Qed.

Lemma dsz32_written : forall l, Forall (fun p => p < W32) l -> nlen (to_sized_deltas l) < W32 ->
  exists a, from_sized_deltas_w W32 4 (to_sized_deltas l) = (Ok l, a).
Proof.
  intros l Hall Hlen. pose proof (sized_len_ge W32 l) as Hge. fold to_sized_deltas in Hge.
  pose proof (sized_deltas_roundtrip l Hall ltac:(unfold MAXALLOC, W32 in *; lia)) as Hr. unfold from_sized_deltas in Hr.
  destruct (from_sized_deltas_w W32 4 (to_sized_deltas l)) as [r a]. cbn [fst] in Hr. subst r. exists a. reflexivity.
Qed.

Lemma dsz16_written : forall l, Forall (fun p => p < W16) l -> nlen (to_sized_deltas16 l) < W32 ->
  exists a, from_sized_deltas_w W16 2 (to_sized_deltas16 l) = (Ok l, a).
Proof.
  intros l Hall Hlen. pose proof (sized_len_ge W16 l) as Hge. fold to_sized_deltas16 in Hge.
  pose proof (sized_deltas16_roundtrip l Hall ltac:(unfold MAXALLOC, W32 in *; lia)) as Hr. unfold from_sized_deltas16 in Hr.
  destruct (from_sized_deltas_w W16 2 (to_sized_deltas16 l)) as [r a]. cbn [fst] in Hr. subst r. exists a. reflexivity.
Qed.

Lemma dsec_written : forall l, Forall sec_ok l -> nlen (marshal_doc_sections l) < W32 ->
  exists a, unmarshal_doc_sections_a (marshal_doc_sections l) = (Ok l, a).
Proof.
  intros l Hall Hlen. pose proof (sized_len_ge W32 (flatten_secs l)) as Hge. fold to_sized_deltas in Hge.
  fold (marshal_doc_sections l) in Hge. unfold nlen in Hge at 1. rewrite flatten_secs_len in Hge.
  assert (Hm : nlen l * 8 <= MAXALLOC) by (unfold nlen, MAXALLOC, W32 in *; lia).
  pose proof (docsections_roundtrip l Hall Hm) as Hr. unfold unmarshal_doc_sections in Hr.
  destruct (unmarshal_doc_sections_a (marshal_doc_sections l)) as [r a]. cbn [fst] in Hr. subst r. exists a. reflexivity.
Qed.

(* ------------------------------------------------------------------ items of a compound section *)

Definition ri_of (items : list (list N)) (off : N) : list N :=
  relative_index (item_offsets off items) (nlen (concat items)).

Lemma ri_of_len : forall items off, length (ri_of items off) = match items with [] => 0%nat | _ => S (length items) end.
Proof.
  intros [|it r] off; [reflexivity|]. unfold ri_of, relative_index. cbn [item_offsets].
  rewrite app_length, map_length. cbn [length]. rewrite item_offsets_len. lia.
Qed.

Lemma item_has : forall bs off items idx i it, nlen bs < W32 -> has bs off (concat items ++ idx) ->
  nth_error items i = Some it -> read_item (mem_file bs) off (ri_of items off) (N.of_nat i) = Ok it.
Proof.
  intros bs off items idx i it Hlt (pre & post & E & Ho) Hn. subst bs off. unfold ri_of.
  apply compound_item_readback; assumption.
Qed.

(** fileName(i): slice of the concatenated names between two entries of the relative index *)
Lemma name_slice : forall items off i it, off + nlen (concat items) < W32 -> nth_error items i = Some it ->
  (do a <- nth_chk (ri_of items off) (N.of_nat i); do b <- nth_chk (ri_of items off) (N.of_nat i + 1);
   slice_chk (concat items) a b) = Ok it.
Proof.
  intros items off i it Hlt Hn.
  assert (Hi : (i < length items)%nat) by (apply nth_error_Some; congruence).
  assert (Hne : items <> []) by (destruct items; [simpl in Hi; lia|discriminate]).
  unfold ri_of, nth_chk. rewrite Nat2N.id. rewrite (relative_index_nth items off i Hne Hlt ltac:(lia)). cbn [obind].
  replace (N.to_nat (N.of_nat i + 1)) with (S i) by lia.
  rewrite (relative_index_nth items off (S i) Hne Hlt ltac:(lia)). cbn [obind].
  rewrite (concat_firstn_S items i it Hn). rewrite nlen_app.
  set (a := concat (firstn i items)).
  assert (Hsplit : concat items = a ++ it ++ concat (skipn (S i) items)).
  { rewrite <- (firstn_skipn (S i) items) at 1. rewrite concat_app, (concat_firstn_S items i it Hn).
    rewrite <- app_assoc. reflexivity. }
  unfold slice_chk. rewrite Hsplit. rewrite !nlen_app.
  replace ((nlen a + nlen it <? nlen a) || (nlen a + (nlen it + nlen (concat (skipn (S i) items))) <? nlen a + nlen it)) with false by lia.
  replace (N.to_nat (nlen a + nlen it - nlen a)) with (length it) by (unfold nlen; lia).
  rewrite to_nat_nlen, skipn_len_app', firstn_len_app'. reflexivity.
Qed.

(* ------------------------------------------------------------------ the builder-state invariant the decoders need *)

Definition lt32 (l : list N) : Prop := Forall (fun n => n < W32) l.

Record wf_b (next : bool) (b : bstate) : Prop := mkWf {
  wf_names : length (b_names b) = length (b_contents b);
  wf_masks : length (b_masks b) = length (b_contents b);
  wf_docsecs : length (b_docSections b) = length (b_contents b);
  wf_fes : lt32 (b_fileEndSymbol b);
  wf_masks64 : Forall (fun n => n < W64) (b_masks b);
  wf_rds : Forall sec_ok (b_runeDocSections b);
  wf_sub : lt32 (b_subRepos b);
  wf_ro : lt32 (ps_runeOffsets (b_cp b));
  wf_nro : lt32 (ps_runeOffsets (b_np b));
  wf_er : lt32 (ps_endRunes (b_cp b));
  wf_ner : lt32 (ps_endRunes (b_np b));
  wf_repos : next = true -> Forall (fun n => n < W16) (b_repos b) }.

Lemma lt32_rev : forall l, lt32 l -> lt32 (rev l).
Proof. intros l H. apply Forall_forall. intros x Hx. apply in_rev in Hx. revert x Hx. apply Forall_forall. exact H. Qed.

Lemma obind_Ok : forall {A B} (a : A) (f : A -> outcome B), obind (Ok a) f = f a.
Proof. reflexivity. Qed.

Lemma lift_a_pair : forall {A} (a : A) n k, lift_a (Ok a, n) k = k a n.
Proof. reflexivity. Qed.

Definition nl_items (b : bstate) : list (list N) := map (fun c => to_sized_deltas (newlines_indices c)) (b_contents b).
Definition ds_items (b : bstate) : list (list N) := map marshal_doc_sections (b_docSections b).
Definition ngram_text (ps : pstate) : list N := concat (map be64 (map fst (ps_post ps))).
Definition posting_items (ps : pstate) : list (list N) := map (fun p => posting_data (snd p)) (ps_post ps).

Lemma ngram_text_has' : forall bs off ps, nlen bs < W32 -> has bs off (ngram_text ps) ->
  ngram_text_ok (mem_file bs) (off, nlen (ngram_text ps)) (ngram_text ps) = true.
Proof. intros. apply ngram_text_has; assumption. Qed.

(** the loaded indexData, field by field *)
Definition loaded (next : bool) (b : bstate) (o : opaque) (bs : list N)
                  (coff loff soff noff skoff smoff ngoff poff nngoff npoff alloc : N) : idata :=
  mkI (mem_file bs) coff (ri_of (b_contents b) coff) loff (ri_of (nl_items b) loff) soff (ri_of (ds_items b) soff)
      (b_fileEndSymbol b)
      (concat (map be32 (item_offsets smoff (b_symtab b)))) (concat (b_symtab b))
      (ri_of (b_kindtab b) skoff) (concat (b_kindtab b)) (concat (map be32 (b_symMeta b)))
      (o_checksums o) (o_langs o) (o_cats o)
      (ngoff, nlen (ngram_text (b_cp b)))
      (poff + nlen (concat (posting_items (b_cp b))), 4 * nlen (posting_items (b_cp b)))
      (b_masks b) (concat (b_names b)) (ri_of (b_names b) noff)
      (nngoff, nlen (ngram_text (b_np b)))
      (npoff + nlen (concat (posting_items (b_np b))), 4 * nlen (posting_items (b_np b)))
      (b_runeDocSections b) (b_subRepos b)
      (rune_offset_map (rev (ps_runeOffsets (b_cp b))) 0 0) (rune_offset_map (rev (ps_runeOffsets (b_np b))) 0 0)
      (rev (ps_endRunes (b_np b))) (rev (ps_endRunes (b_cp b)))
      (if next then b_repos b else map (fun _ => 0) (b_masks b)) alloc.

Definition comp_at (bs : list N) (off : N) (items : list (list N)) : Prop :=
  has bs off (concat items ++ concat (map be32 (item_offsets off items))).

Theorem load_sections : forall next b o, let secs := shard_sections next b o in
  nlen (write_file secs) < W32 -> wf_b next b ->
  exists coff loff soff noff skoff smoff ngoff poff nngoff npoff alloc,
    load_shard (mem_file (write_file secs)) next
    = Ok (loaded next b o (write_file secs) coff loff soff noff skoff smoff ngoff poff nngoff npoff alloc)
    /\ comp_at (write_file secs) coff (b_contents b) /\ comp_at (write_file secs) loff (nl_items b)
    /\ comp_at (write_file secs) soff (ds_items b) /\ comp_at (write_file secs) noff (b_names b)
    /\ comp_at (write_file secs) skoff (b_kindtab b) /\ comp_at (write_file secs) smoff (b_symtab b)
    /\ has (write_file secs) ngoff (ngram_text (b_cp b)) /\ comp_at (write_file secs) poff (posting_items (b_cp b))
    /\ has (write_file secs) nngoff (ngram_text (b_np b)) /\ comp_at (write_file secs) npoff (posting_items (b_np b)).
Proof.
  intros next b o secs Hlt Hwf. unfold load_shard.
  pose proof (shard_sections_kinds next b o) as Hk. pose proof (shard_sections_uniq next b o) as Hu. fold secs in Hk, Hu.
  rewrite (read_toc_sections secs Hlt Hk), obind_Ok. cbv beta.
  destruct (written_compound secs 0 _ _ 1 Hlt Hk Hu eq_refl eq_refl) as (coff & Tc & Hc).
  destruct (written_compound secs 1 _ _ 1 Hlt Hk Hu eq_refl eq_refl) as (loff & Tl & Hl).
  destruct (written_compound secs 7 _ _ 1 Hlt Hk Hu eq_refl eq_refl) as (soff & Ts & Hs).
  destruct (written_compound secs 4 _ _ 1 Hlt Hk Hu eq_refl eq_refl) as (skoff & Tsk & Hsk).
  destruct (written_compound secs 3 _ _ 2 Hlt Hk Hu eq_refl eq_refl) as (smoff & Tsm & Hsm).
  destruct (written_compound secs 12 _ _ 1 Hlt Hk Hu eq_refl eq_refl) as (noff & Tn & Hn).
  destruct (written_compound secs 9 _ _ 1 Hlt Hk Hu eq_refl eq_refl) as (poff & Tp & Hp).
  destruct (written_compound secs 14 _ _ 1 Hlt Hk Hu eq_refl eq_refl) as (npoff & Tnp & Hnp).
  destruct (written_simple secs 2 _ _ Hlt Hk Hu eq_refl) as (o2 & T2 & H2).
  destruct (written_simple secs 5 _ _ Hlt Hk Hu eq_refl) as (o5 & T5 & H5).
  destruct (written_simple secs 6 _ _ Hlt Hk Hu eq_refl) as (o6 & T6 & H6).
  destruct (written_simple secs 8 _ _ Hlt Hk Hu eq_refl) as (o8 & T8 & H8).
  destruct (written_simple secs 10 _ _ Hlt Hk Hu eq_refl) as (o10 & T10 & H10).
  destruct (written_simple secs 11 _ _ Hlt Hk Hu eq_refl) as (o11 & T11 & H11).
  destruct (written_simple secs 13 _ _ Hlt Hk Hu eq_refl) as (o13 & T13 & H13).
  destruct (written_simple secs 15 _ _ Hlt Hk Hu eq_refl) as (o15 & T15 & H15).
  destruct (written_simple secs 16 _ _ Hlt Hk Hu eq_refl) as (o16 & T16 & H16).
  destruct (written_simple secs 17 _ _ Hlt Hk Hu eq_refl) as (o17 & T17 & H17).
  destruct (written_simple secs 18 _ _ Hlt Hk Hu eq_refl) as (o18 & T18 & H18).
  destruct (written_simple secs 19 _ _ Hlt Hk Hu eq_refl) as (o19 & T19 & H19).
  destruct (written_simple secs 20 _ _ Hlt Hk Hu eq_refl) as (o20 & T20 & H20).
  destruct (written_simple secs 21 _ _ Hlt Hk Hu eq_refl) as (o21 & T21 & H21).
  change (1 =? 1) with true in *. change (2 =? 1) with false in *. cbv iota in Tc, Tl, Ts, Tsk, Tsm, Tn, Tp, Tnp.
  destruct Hwf as [Wn Wm Wd Wfes Wm64 Wrds Wsub Wro Wnro Wer Wner Wrepos].
  rewrite <- (map_map fst be64 (ps_post (b_cp b))) in H8.
  rewrite <- (map_map fst be64 (ps_post (b_np b))) in H13.
  fold (ngram_text (b_cp b)) in H8. fold (ngram_text (b_np b)) in H13.
  destruct (dsec_written _ Wrds ltac:(pose proof (has_bound _ _ _ H21); lia)) as (a1 & D1).
  destruct (dsz32_written _ Wsub ltac:(pose proof (has_bound _ _ _ H17); lia)) as (a2 & D2).
  destruct (dsz32_written _ (lt32_rev _ Wro) ltac:(pose proof (has_bound _ _ _ H10); lia)) as (a3 & D3).
  destruct (dsz32_written _ (lt32_rev _ Wnro) ltac:(pose proof (has_bound _ _ _ H15); lia)) as (a4 & D4).
  destruct (dsz32_written _ (lt32_rev _ Wner) ltac:(pose proof (has_bound _ _ _ H16); lia)) as (a5 & D5).
  destruct (dsz32_written _ (lt32_rev _ Wer) ltac:(pose proof (has_bound _ _ _ H11); lia)) as (a6 & D6).
  assert (Hrepos : exists a7, next = true -> exists o22,
            toc_simple (parsed_toc secs) (str "repos") = (o22, nlen (to_sized_deltas16 (b_repos b)))
            /\ has (write_file secs) o22 (to_sized_deltas16 (b_repos b))
            /\ from_sized_deltas_w W16 2 (to_sized_deltas16 (b_repos b)) = (Ok (b_repos b), a7)).
  { destruct next; [|exists 0; discriminate].
    destruct (written_simple secs 22 _ _ Hlt Hk Hu eq_refl) as (o22 & T22 & H22).
    destruct (dsz16_written _ (Wrepos eq_refl) ltac:(pose proof (has_bound _ _ _ H22); lia)) as (a7 & D7).
    exists a7. intros _. exists o22. repeat split; assumption. }
  destruct Hrepos as (a7 & D7).
  unfold read_index, read_index_with.
  rewrite Tc, Tl, Ts, Tsk, Tsm, Tn, Tp, Tnp, T2, T5, T6, T8, T10, T11, T13, T15, T16, T17, T18, T19, T20, T21.
  cbn [fst snd].
  rewrite <- (map_map fst be64 (ps_post (b_cp b))), <- (map_map fst be64 (ps_post (b_np b))).
  fold (ngram_text (b_cp b)). fold (ngram_text (b_np b)).
  exists coff, loff, soff, noff, skoff, smoff, o8, poff, o13, npoff, (a1 + a2 + a3 + a4 + a5 + a6 + (if next then a7 else 0)).
  split; [|unfold comp_at; repeat split; assumption].
  rewrite (words4_has _ _ _ Hlt H2 Wfes). rewrite obind_Ok; cbv beta.
  pose proof Hsm as Hsm'. apply has_app in Hsm'. destruct Hsm' as (Hsm1 & Hsm2).
  replace (4 * nlen (b_symtab b)) with (nlen (concat (map be32 (item_offsets smoff (b_symtab b))))).
  2:{ unfold nlen. rewrite concat_be32_len, item_offsets_len. lia. }
  rewrite (blob_has _ _ _ Hlt Hsm2). rewrite obind_Ok; cbv beta.
  rewrite (blob_has _ _ _ Hlt Hsm1). rewrite obind_Ok; cbv beta.
  pose proof Hsk as Hsk'. apply has_app in Hsk'. destruct Hsk' as (Hsk1 & _).
  rewrite (blob_has _ _ _ Hlt Hsk1). rewrite obind_Ok; cbv beta.
  rewrite (blob_has _ _ _ Hlt H5). rewrite obind_Ok; cbv beta.
  rewrite (blob_has _ _ _ Hlt H18). rewrite obind_Ok; cbv beta.
  rewrite (blob_has _ _ _ Hlt H19). rewrite obind_Ok; cbv beta.
  rewrite (blob_has _ _ _ Hlt H20). rewrite obind_Ok; cbv beta.
  rewrite (blob_has _ _ _ Hlt H8). rewrite obind_Ok; cbv beta.
  rewrite (ngram_text_has' _ _ _ Hlt H8). cbn [negb].
  rewrite (words8_has _ _ _ Hlt H6 Wm64). rewrite obind_Ok; cbv beta.
  pose proof Hn as Hn'. apply has_app in Hn'. destruct Hn' as (Hn1 & _).
  rewrite (blob_has _ _ _ Hlt Hn1). rewrite obind_Ok; cbv beta.
  rewrite (blob_has _ _ _ Hlt H13). rewrite obind_Ok; cbv beta.
  rewrite (ngram_text_has' _ _ _ Hlt H13). cbn [negb].
  rewrite (blob_has _ _ _ Hlt H21). rewrite obind_Ok; cbv beta.
  rewrite D1, lift_a_pair; cbv beta.
  rewrite (blob_has _ _ _ Hlt H17). rewrite obind_Ok; cbv beta.
  rewrite (blob_has _ _ _ Hlt H10). rewrite obind_Ok; cbv beta.
  rewrite (blob_has _ _ _ Hlt H15). rewrite obind_Ok; cbv beta.
  rewrite (blob_has _ _ _ Hlt H16). rewrite obind_Ok; cbv beta.
  rewrite (blob_has _ _ _ Hlt H11). rewrite obind_Ok; cbv beta.
  rewrite D2, lift_a_pair; cbv beta. rewrite D3, lift_a_pair; cbv beta. rewrite D4, lift_a_pair; cbv beta.
  rewrite D5, lift_a_pair; cbv beta. rewrite D6, lift_a_pair; cbv beta.
  assert (Hver : verify_ok (ri_of (b_names b) noff) (ri_of (b_contents b) coff) (b_masks b) (ri_of (ds_items b) soff) (ri_of (nl_items b) loff) = true).
  { unfold verify_ok. rewrite !ri_of_len. unfold ds_items, nl_items.
      destruct (b_names b) as [|n0 nr] eqn:En; [reflexivity|].
      destruct (b_contents b) as [|c0 cr] eqn:Ec; [simpl in Wn; lia|].
      destruct (b_docSections b) as [|d0 dr] eqn:Ed; [simpl in Wd; lia|].
      cbn [map length] in *. rewrite !map_length.
      repeat (apply andb_true_iff; split); apply Nat.eqb_eq; lia. }
  unfold ri_of, ds_items, nl_items in Hver. rewrite Hver. cbn [negb].
  destruct next.
  - destruct (D7 eq_refl) as (o22 & T22 & H22 & D7'). rewrite T22.
    rewrite (blob_has _ _ _ Hlt H22). rewrite obind_Ok; cbv beta. rewrite D7', lift_a_pair; cbv beta. reflexivity.
  - reflexivity.
Qed.

(* ------------------------------------------------------------------ what a search reads from the loaded shard *)

Lemma nth_concat_len : forall (items : list (list N)) i it, nth_error items i = Some it -> nlen it <= nlen (concat items).
Proof.
  intros items i it Hn.
  assert (Hsplit : concat items = concat (firstn i items) ++ it ++ concat (skipn (S i) items)).
  { rewrite <- (firstn_skipn (S i) items) at 1. rewrite concat_app, (concat_firstn_S items i it Hn).
    rewrite <- app_assoc. reflexivity. }
  rewrite Hsplit, !nlen_app. lia.
Qed.

Lemma comp_at_bound : forall bs off items, comp_at bs off items -> off + nlen (concat items) <= nlen bs.
Proof.
  intros bs off items H. unfold comp_at in H. apply has_app in H. destruct H as (H1 & _). apply (has_bound _ _ _ H1).
Qed.

(** the observable content of the loaded shard [d] for builder state [b] and opaque blobs [o] *)
Definition shard_view_ok (next : bool) (b : bstate) (o : opaque) (bs : list N) (d : idata) : Prop :=
  (forall i name, nth_error (b_names b) i = Some name -> file_name d (N.of_nat i) = Ok name)
  /\ (forall i c, nth_error (b_contents b) i = Some c ->
        read_contents d (N.of_nat i) = Ok c /\ read_newlines d (N.of_nat i) = Ok (newlines_indices c))
  /\ (forall i s, nth_error (b_docSections b) i = Some s -> read_doc_sections d (N.of_nat i) = Ok s)
  /\ i_masks d = b_masks b /\ i_subRepos d = b_subRepos b
  /\ i_repos d = (if next then b_repos b else map (fun _ => 0) (b_masks b))
  /\ i_checksums d = o_checksums o /\ i_languages d = o_langs o /\ i_categories d = o_cats o
  /\ i_fileEndSymbol d = b_fileEndSymbol b /\ i_runeDocSections d = b_runeDocSections b
  /\ i_fileEndRunes d = rev (ps_endRunes (b_cp b)) /\ i_nameEndRunes d = rev (ps_endRunes (b_np b))
  /\ i_runeOffsets d = rune_offset_map (rev (ps_runeOffsets (b_cp b))) 0 0
  /\ i_nameRuneOffsets d = rune_offset_map (rev (ps_runeOffsets (b_np b))) 0 0
  /\ i_symMeta d = concat (map be32 (b_symMeta b))
  /\ (forall k s, nth_error (b_kindtab b) k = Some s -> sym_kind d (N.of_nat k) = Ok s)
  /\ i_symContent d = concat (b_symtab b)
  /\ (exists smoff, i_symIndex d = concat (map be32 (item_offsets smoff (b_symtab b))))
  (* the ngram sections and posting lists, in the form the b-tree theorem (C09_btree_get_spec) consumes *)
  /\ (exists ngoff poff, i_ngramSec d = (ngoff, nlen (ngram_text (b_cp b))) /\ has bs ngoff (ngram_text (b_cp b))
        /\ i_postingIndex d = (poff + nlen (concat (posting_items (b_cp b))), 4 * nlen (posting_items (b_cp b)))
        /\ comp_at bs poff (posting_items (b_cp b)))
  /\ (exists ngoff poff, i_nameNgramSec d = (ngoff, nlen (ngram_text (b_np b))) /\ has bs ngoff (ngram_text (b_np b))
        /\ i_namePostingIndex d = (poff + nlen (concat (posting_items (b_np b))), 4 * nlen (posting_items (b_np b)))
        /\ comp_at bs poff (posting_items (b_np b))).

Theorem read_write_sections : forall next b o,
  nlen (write_shard next b o) < W32 -> wf_b next b -> Forall (Forall sec_ok) (b_docSections b) ->
  exists d, load_shard (mem_file (write_shard next b o)) next = Ok d /\ shard_view_ok next b o (write_shard next b o) d.
Proof.
  intros next b o Hlt Hwf Hds. unfold write_shard in *.
  destruct (load_sections next b o Hlt Hwf)
    as (coff & loff & soff & noff & skoff & smoff & ngoff & poff & nngoff & npoff & alloc & Hload
        & Cc & Cl & Cs & Cn & Csk & Csm & Hng & Cp & Hnng & Cnp).
  generalize dependent (write_file (shard_sections next b o)). intros bs Hlt Hload Cc Cl Cs Cn Csk Csm Hng Cp Hnng Cnp.
  eexists. split; [exact Hload|]. unfold shard_view_ok, loaded.
  cbn [i_file i_boundariesStart i_boundaries i_newlinesStart i_newlinesIndex i_docSectionsStart i_docSectionsIndex
       i_fileEndSymbol i_symIndex i_symContent i_symKindIndex i_symKindContent i_symMeta i_checksums i_languages
       i_categories i_ngramSec i_postingIndex i_masks i_fileNameContent i_fileNameIndex i_nameNgramSec
       i_namePostingIndex i_runeDocSections i_subRepos i_runeOffsets i_nameRuneOffsets i_nameEndRunes i_fileEndRunes
       i_repos file_name read_contents read_newlines read_doc_sections sym_kind].
  unfold file_name, read_contents, read_newlines, read_doc_sections, sym_kind.
  cbn [i_file i_boundariesStart i_boundaries i_newlinesStart i_newlinesIndex i_docSectionsStart i_docSectionsIndex
       i_symKindIndex i_symKindContent i_fileNameContent i_fileNameIndex].
  split.
  { intros i name Hn. pose proof (comp_at_bound _ _ _ Cn) as Hb.
    replace (N.of_nat i + 1) with (N.of_nat i + 1) by reflexivity.
    apply (name_slice (b_names b) noff i name); [lia|exact Hn]. }
  split.
  { intros i c Hc. pose proof (comp_at_bound _ _ _ Cc) as Hb. pose proof (nth_concat_len _ _ _ Hc) as Hlen.
    split; [exact (item_has _ _ _ _ _ _ Hlt Cc Hc)|].
    rewrite (item_has bs loff (nl_items b) _ i (to_sized_deltas (newlines_indices c)) Hlt Cl)
      by (unfold nl_items; rewrite nth_error_map, Hc; reflexivity).
    rewrite obind_Ok. apply sized_deltas_roundtrip.
    - unfold newlines_indices. eapply Forall_impl; [|apply newlines_from_bound]. intros x Hx. simpl in Hx. lia.
    - pose proof (newlines_from_len c 0) as Hl. unfold newlines_indices, nlen, MAXALLOC, W32 in *. lia. }
  split.
  { intros i s Hs. pose proof (comp_at_bound _ _ _ Cs) as Hb.
    assert (Hit : nth_error (ds_items b) i = Some (marshal_doc_sections s)) by (unfold ds_items; rewrite nth_error_map, Hs; reflexivity).
    pose proof (nth_concat_len _ _ _ Hit) as Hlen.
    rewrite (item_has bs soff (ds_items b) _ i _ Hlt Cs Hit). rewrite obind_Ok.
    apply docsections_roundtrip.
    - rewrite Forall_forall in Hds. apply Hds. eapply nth_error_In. exact Hs.
    - pose proof (sized_len_ge W32 (flatten_secs s)) as Hge. fold to_sized_deltas in Hge. fold (marshal_doc_sections s) in Hge.
      unfold nlen in Hge at 1. rewrite flatten_secs_len in Hge. unfold nlen, MAXALLOC, W32 in *. lia. }
  repeat (split; [reflexivity|]).
  split.
  { intros k s Hs. pose proof (comp_at_bound _ _ _ Csk) as Hb.
    apply (name_slice (b_kindtab b) skoff k s); [lia|exact Hs]. }
  split; [reflexivity|].
  split; [exists smoff; reflexivity|].
  split.
  - exists ngoff, poff. repeat split; assumption.
  - exists nngoff, npoff. repeat split; assumption.
Qed.
