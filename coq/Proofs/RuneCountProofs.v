(** Facts about utf8 decoding widths / RuneCount (Lib/RuneCount.v) and the correctness of the
    incremental column cache columnHelper.get (C03). *)
From ZV Require Import Lib.Base Lib.RuneCount Model.Lines.
From Coq Require Import ZifyBool ZifyNat ZifyN.

Lemma skipn_skipn : forall {A} (x y : nat) (l : list A), skipn x (skipn y l) = skipn (x + y) l.
Proof.
  intros A x y. induction y as [|y' IH]; intros l.
  - now rewrite Nat.add_0_r.
  - destruct l as [|a l']; [now rewrite !skipn_nil|].
    replace (x + S y') with (S (x + y')) by lia. simpl. apply IH.
Qed.

Lemma rune_width_pos : forall b0 r, 1 <= rune_width b0 r.
Proof.
  intros b0 r. unfold rune_width.
  repeat match goal with
         | |- context [if ?c then _ else _] => destruct c
         | |- context [match ?l with [] => _ | _ :: _ => _ end] => destruct l
         end; lia.
Qed.

Lemma rune_width_le : forall b0 r, rune_width b0 r <= S (length r).
Proof.
  intros b0 r. unfold rune_width.
  repeat match goal with
         | |- context [if ?c then _ else _] => destruct c
         | |- context [match ?l with [] => _ | _ :: _ => _ end] => destruct l
         end; simpl; lia.
Qed.

(** decoding the first rune only looks at the bytes of that rune: cutting the input anywhere at or
    after the end of the rune does not change its width; an invalid first byte stays invalid *)
Lemma rune_width_firstn : forall b0 r m, rune_width b0 r - 1 <= m ->
  rune_width b0 (firstn m r) = rune_width b0 r.
Proof.
  intros b0 r m H. unfold rune_width in *.
  destruct (b0 <? 194)%N; [reflexivity|].
  destruct (b0 <? 224)%N.
  { destruct r as [|b1 r1]; [now rewrite firstn_nil|].
    destruct m as [|m1]; simpl in *; [destruct (is_cont b1); [lia|reflexivity]|reflexivity]. }
  destruct (b0 <? 240)%N.
  { destruct r as [|b1 [|b2 r2]]; [now rewrite firstn_nil| destruct m as [|[|m2]]; reflexivity |].
    destruct m as [|[|m2]]; simpl in *; try reflexivity;
      match goal with |- context [if ?c then _ else _] => destruct c end; simpl in *; try reflexivity; lia. }
  destruct (b0 <? 245)%N; [|reflexivity].
  destruct r as [|b1 [|b2 [|b3 r3]]];
    [now rewrite firstn_nil | destruct m as [|[|m2]]; reflexivity | destruct m as [|[|[|m3]]]; reflexivity |].
  destruct m as [|[|[|m3]]]; simpl in *; try reflexivity;
    match goal with |- context [if ?c then _ else _] => destruct c end; simpl in *; try reflexivity; lia.
Qed.

Lemma rune_count_skip_skipn : forall l s, s <= length l -> rune_count_skip l s = rune_count (skipn s l).
Proof.
  induction l as [|b r IH]; intros s H; [destruct s; reflexivity|].
  destruct s as [|s']; [reflexivity|]. simpl in *. apply IH. lia.
Qed.

Lemma rune_count_cons : forall b0 r,
  rune_count (b0 :: r) = S (rune_count (skipn (rune_width b0 r - 1) r)).
Proof.
  intros. unfold rune_count at 1. simpl. f_equal. apply rune_count_skip_skipn.
  pose proof (rune_width_le b0 r). lia.
Qed.

Lemma rune_count_nil : rune_count [] = 0. Proof. reflexivity. Qed.

(** [boundary l k]: decoding [l] rune by rune reaches byte position [k] *)
Inductive boundary : list N -> nat -> Prop :=
| bd_zero : forall l, boundary l 0
| bd_step : forall b0 r k, boundary (skipn (rune_width b0 r - 1) r) k ->
                           boundary (b0 :: r) (rune_width b0 r + k).

(** RuneCount is additive exactly at rune boundaries, also when the input is cut later on *)
Lemma rune_count_firstn_split : forall l k, boundary l k -> forall n, k <= n ->
  rune_count (firstn n l) = rune_count (firstn k l) + rune_count (firstn (n - k) (skipn k l)).
Proof.
  intros l k Hb. induction Hb as [l|b0 r k Hb IH]; intros n Hn.
  - simpl. rewrite Nat.sub_0_r. reflexivity.
  - pose proof (rune_width_pos b0 r) as Hp. pose proof (rune_width_le b0 r) as Hl.
    set (w := rune_width b0 r) in *.
    destruct n as [|n']; [lia|].
    replace (w + k) with (S (w - 1 + k)) by lia.
    rewrite !firstn_cons, !rune_count_cons.
    rewrite !rune_width_firstn by (fold w; lia). fold w.
    rewrite !skipn_firstn_comm.
    replace (S (w - 1 + k)) with (S (w - 1) + k) by lia.
    change (skipn (S (w - 1) + k) (b0 :: r)) with (skipn (w - 1 + k) r).
    replace (w - 1 + k) with (k + (w - 1)) at 2 by lia.
    rewrite <- skipn_skipn.
    rewrite (IH (n' - (w - 1))) by lia.
    replace (w - 1 + k - (w - 1)) with k by lia.
    replace (n' - (w - 1) - k) with (S n' - (S (w - 1) + k)) by lia.
    simpl. lia.
Qed.

Lemma boundary_le : forall l k, boundary l k -> k <= length l.
Proof.
  intros l k H. induction H as [l|b0 r k Hb IH]; [lia|].
  pose proof (rune_width_pos b0 r). pose proof (rune_width_le b0 r).
  rewrite skipn_length in IH. simpl. lia.
Qed.

(** ---- columnHelper.get *)

Definition col_good (data : list N) (st : colstate) : Prop :=
  cs_line st <= cs_off st /\ cs_off st <= length data /\
  cs_cnt st = rune_count (slice data (cs_line st) (cs_off st)) /\
  boundary (skipn (cs_line st) data) (cs_off st - cs_line st).

Lemma col_good_init : forall data, col_good data col_init.
Proof. intros. unfold col_good, col_init; simpl. repeat split; try lia. constructor. Qed.

Lemma slice_slice_prefix : forall (data : list N) lo a b, lo <= a -> a <= b ->
  firstn (a - lo) (skipn lo data) = slice data lo a /\
  firstn (b - lo - (a - lo)) (skipn (a - lo) (skipn lo data)) = slice data a b.
Proof.
  intros. unfold slice. split; [reflexivity|].
  rewrite skipn_skipn. replace (a - lo + lo) with a by lia. f_equal. lia.
Qed.

(** one call: if the cached state is sound and the requested offset is a rune boundary of its line,
    the answer is the fresh rune count from the line start + 1, and the new state is sound again *)
Theorem col_get_correct : forall data st lo off,
  col_good data st -> lo <= off -> off <= length data -> boundary (skipn lo data) (off - lo) ->
  exists st', col_get data st lo off = Ok (st', S (rune_count (slice data lo off))) /\ col_good data st'.
Proof.
  intros data st lo off [G1 [G2 [G3 G4]]] Hlo Hoff Hb.
  unfold col_get.
  destruct ((lo =? cs_line st) && (cs_off st <=? off)) eqn:Ec.
  - apply andb_true_iff in Ec. destruct Ec as [E1 E2].
    apply Nat.eqb_eq in E1. apply Nat.leb_le in E2. subst lo.
    unfold go_slice.
    destruct ((cs_off st <=? off) && (off <=? length data)) eqn:E3; [|lia].
    simpl.
    assert (Hsplit : rune_count (slice data (cs_line st) off) = cs_cnt st + rune_count (slice data (cs_off st) off)).
    { rewrite G3.
      pose proof (rune_count_firstn_split _ _ G4 (off - cs_line st) ltac:(lia)) as Hs.
      destruct (slice_slice_prefix data (cs_line st) (cs_off st) off G1 E2) as [P1 P2].
      rewrite P1, P2 in Hs. unfold slice at 1. exact Hs. }
    eexists. split.
    + rewrite Hsplit. reflexivity.
    + unfold col_good; simpl. repeat split; auto.
  - unfold go_slice.
    destruct ((lo <=? off) && (off <=? length data)) eqn:E3; [|lia].
    simpl. eexists. split; [reflexivity|].
    unfold col_good; simpl. repeat split; auto.
Qed.

(** a whole sequence of calls, threaded through the cache *)
Fixpoint col_seq (data : list N) (st : colstate) (calls : list (nat * nat)) : outcome (list nat) :=
  match calls with
  | [] => Ok []
  | (lo, off) :: r =>
      do p <- col_get data st lo off;
      do tl <- col_seq data (fst p) r;
      Ok (snd p :: tl)
  end.

Definition col_call_ok (data : list N) (c : nat * nat) : Prop :=
  fst c <= snd c /\ snd c <= length data /\ boundary (skipn (fst c) data) (snd c - fst c).

Theorem col_seq_correct : forall data calls st,
  col_good data st -> Forall (col_call_ok data) calls ->
  col_seq data st calls = Ok (map (fun c => S (rune_count (slice data (fst c) (snd c)))) calls).
Proof.
  intros data calls. induction calls as [|[lo off] r IH]; intros st Hg Hall; [reflexivity|].
  inversion Hall as [|x xs [H1 [H2 H3]] Hrest]; subst. simpl in H1, H2, H3.
  destruct (col_get_correct data st lo off Hg H1 H2 H3) as [st' [Eg Hg']].
  simpl. rewrite Eg. simpl. rewrite (IH st' Hg' Hrest). reflexivity.
Qed.
