(** Proofs about Model/ScoreKind.v (property C29): the generated scoreSymbolKind tables stay within the
    generated bound, visitMatchAtoms, calculateTermFrequency as a map, and the theorems of Proofs/Score.v /
    Proofs/ScoreBM25.v carried over to the extended inputs. *)
From Coq Require Import QArith Qabs Qround Lqa Lia Sorting.Permutation.
From ZV Require Import Lib.Base Generated.ScoreConsts Model.Score Model.ScoreBM25 Model.ScoreKind
  Proofs.Score Proofs.ScoreBM25.
Open Scope Q_scope.

(** ** 1. scoreSymbolKind: every factor the tables can produce lies in [0, c_maxKindFactor] *)
Definition mod_nonneg (m : kmod) : bool := let '(_, _, _, q) := m in Qle_bool 0 q.
Definition mod_op (f : Q) (m : kmod) : Q := let '(op, _, _, q) := m in match op with 0%N => f + q | _ => f * q end.
(** the larger of "modifier applied" and "not applied" *)
Definition ub_mod (f : Q) (m : kmod) : Q := if Qle_bool f (mod_op f m) then mod_op f m else f.

Definition base_values (tbl : list (N * Q)) : list Q := map snd tbl ++ map snd c_kindGeneric ++ [c_kindDefault].
Definition rule_ok (r : klang) : bool :=
  let '(_, tbl, mods) := r in
  forallb mod_nonneg mods &&
  forallb (fun b => Qle_bool 0 b && Qle_bool (fold_left ub_mod mods b) c_maxKindFactor) (base_values tbl).
Definition tables_ok : bool :=
  forallb rule_ok c_kindLangs &&
  forallb (fun b => Qle_bool 0 b && Qle_bool b c_maxKindFactor) (base_values []).

(** the obligation that is re-run whenever a factor, a modifier or the bound changes in the source *)
Lemma tables_ok_true : tables_ok = true.
Proof. vm_compute. reflexivity. Qed.

Lemma apply_mod_bounds e fn f g m :
  mod_nonneg m = true -> 0 <= f -> f <= g ->
  0 <= apply_mod e fn f m /\ apply_mod e fn f m <= ub_mod g m.
Proof.
  destruct m as [[[op cond] suf] q]. unfold mod_nonneg, apply_mod, ub_mod, mod_op.
  intros Hq Hf Hfg. apply Qle_bool_iff in Hq.
  set (c := match cond with 0%N => e | _ => has_suffix fn suf end).
  destruct op as [|p].
  - destruct (Qle_bool g (g + q)) eqn:E; [|apply not_true_iff_false in E; rewrite Qle_bool_iff in E; lra].
    destruct c; split; lra.
  - destruct (Qle_bool g (g * q)) eqn:E.
    + apply Qle_bool_iff in E. destruct c; split; nra.
    + apply not_true_iff_false in E. rewrite Qle_bool_iff in E. destruct c; split; nra.
Qed.

Lemma fold_mod_bounds e fn mods : forall f g,
  forallb mod_nonneg mods = true -> 0 <= f -> f <= g ->
  0 <= fold_left (apply_mod e fn) mods f /\ fold_left (apply_mod e fn) mods f <= fold_left ub_mod mods g.
Proof.
  induction mods as [|m r IH]; intros f g HN Hf Hfg; simpl; [split; assumption|].
  simpl in HN. apply andb_true_iff in HN as [Hm Hr].
  destruct (apply_mod_bounds e fn f g m Hm Hf Hfg) as [A B]. apply IH; assumption.
Qed.

Lemma lookupN_in {A} k (l : list (N * A)) v : lookupN k l = Some v -> In v (map snd l).
Proof.
  unfold lookupN. destruct (find (fun p => N.eqb (fst p) k) l) as [p|] eqn:E; [|discriminate].
  intros H; injection H as <-. apply find_some in E as [E _]. now apply in_map.
Qed.

Lemma generic_in kind tbl : In (generic_factor kind) (base_values tbl).
Proof.
  unfold generic_factor, base_values. apply in_or_app. right. apply in_or_app.
  destruct (lookupN kind c_kindGeneric) as [q|] eqn:E; [left; eapply lookupN_in; eauto | right; now left].
Qed.

Theorem kind_factor_bounds lang fname exported kind :
  0 <= kind_factor lang fname exported kind <= c_maxKindFactor.
Proof.
  pose proof tables_ok_true as T. unfold tables_ok in T. apply andb_true_iff in T as [TL TG].
  unfold kind_factor. destruct (lang_rule lang) as [[[names tbl] mods]|] eqn:ER.
  - unfold lang_rule in ER. apply find_some in ER as [Hin _].
    rewrite forallb_forall in TL. specialize (TL _ Hin). simpl in TL.
    apply andb_true_iff in TL as [HN HB]. rewrite forallb_forall in HB.
    set (b := match lookupN kind tbl with Some q => q | None => generic_factor kind end).
    assert (Hb : In b (base_values tbl)).
    { unfold b. destruct (lookupN kind tbl) as [q|] eqn:E; [|apply generic_in].
      unfold base_values. apply in_or_app. left. eapply lookupN_in; eauto. }
    specialize (HB _ Hb). apply andb_true_iff in HB as [B0 B1].
    apply Qle_bool_iff in B0. apply Qle_bool_iff in B1.
    destruct (fold_mod_bounds exported fname mods b b HN B0 (Qle_refl b)) as [A B]. split; [exact A|lra].
  - rewrite forallb_forall in TG. specialize (TG _ (generic_in kind [])).
    apply andb_true_iff in TG as [B0 B1]. apply Qle_bool_iff in B0. apply Qle_bool_iff in B1. split; assumption.
Qed.

Theorem score_symbol_kind_bounds lang fname exported kind :
  0 <= score_symbol_kind lang fname exported kind <= c_maxKindFactor * c_scoreKindMatch.
Proof.
  pose proof (kind_factor_bounds lang fname exported kind) as [A B].
  unfold score_symbol_kind. assert (K : 0 <= c_scoreKindMatch) by (unfold c_scoreKindMatch, Qle; simpl; lia).
  split; nra.
Qed.

(** ** 2. visitMatchAtoms *)
Lemma count_le_leaves : forall t, (count_atoms t <= leaves t)%nat.
Proof.
  fix IH 1. intros [| |c| |ch|ch|ch]; simpl; try lia; try apply IH.
  all: induction ch as [|[k c] r IHr]; simpl; [lia|]; specialize (IH c); destruct k; lia.
Qed.

Lemma count_boost c : count_atoms (MBoost c) = count_atoms c.
Proof. reflexivity. Qed.

(** no child known to match: nothing is visited *)
Lemma count_unknown ch : Forall (fun p : bool * mtree => fst p = false) ch ->
  count_atoms (MAnd ch) = O /\ count_atoms (MOr ch) = O /\ count_atoms (MAndLine ch) = O.
Proof.
  intros H. assert (E : count_atoms (MAnd ch) = O).
  { simpl. induction H as [|[k c] r Hk Hr IHr]; simpl; [reflexivity|]. simpl in Hk. subst k. exact IHr. }
  repeat split; exact E.
Qed.

(** ** 3. calculateTermFrequency as a map: every term's frequency is the weighted number of its
    candidates (importantTermBoost for filename / symbol matches, 1 otherwise), divided (towards zero) by
    lowPriorityFilePenalty for low-priority files — independent of the order of the candidates *)
Lemma bytes_eqb_eq a b : bytes_eqb a b = true <-> a = b.
Proof.
  unfold bytes_eqb. revert b; induction a as [|x a IH]; intros [|y b]; simpl; split; intros H; try discriminate; auto.
  - apply andb_true_iff in H as [H1 H2]. apply N.eqb_eq in H1. apply IH in H2. now subst.
  - injection H as -> ->. rewrite N.eqb_refl. simpl. now apply IH.
Qed.
Lemma bytes_eqb_refl a : bytes_eqb a a = true.
Proof. now apply bytes_eqb_eq. Qed.

Definition cand_weight (c : tfcand) : Z := if snd c then important_boost else 1%Z.
Fixpoint tf_spec (cs : list tfcand) (t : list N) : Z :=
  match cs with
  | [] => 0%Z
  | c :: r => ((if bytes_eqb (fst c) t then cand_weight c else 0) + tf_spec r t)%Z
  end.

Lemma tf_lookup_add t n m t' :
  tf_lookup (tf_add t n m) t' = ((if bytes_eqb t t' then n else 0) + tf_lookup m t')%Z.
Proof.
  unfold tf_lookup. induction m as [|[t1 c] r IH]; simpl.
  - destruct (bytes_eqb t t'); simpl; lia.
  - destruct (bytes_eqb t t1) eqn:E1; simpl.
    + apply bytes_eqb_eq in E1. subst t1. destruct (bytes_eqb t t'); simpl; lia.
    + destruct (bytes_eqb t1 t') eqn:E2; [|exact IH].
      apply bytes_eqb_eq in E2. subst t1. rewrite E1. simpl. lia.
Qed.

Lemma tf_raw_from cs : forall m t,
  tf_lookup (fold_left (fun m (c : tfcand) => tf_add (fst c) (cand_weight c) m) cs m) t = (tf_lookup m t + tf_spec cs t)%Z.
Proof.
  induction cs as [|c r IH]; intros m t; simpl; [lia|].
  rewrite IH, tf_lookup_add. lia.
Qed.

Theorem tf_raw_spec cs t : tf_lookup (tf_raw cs) t = tf_spec cs t.
Proof. unfold tf_raw. fold cand_weight. change (fun m (c : tfcand) => tf_add (fst c) (if snd c then important_boost else 1%Z) m)
         with (fun m (c : tfcand) => tf_add (fst c) (cand_weight c) m). rewrite tf_raw_from. reflexivity. Qed.

Lemma tf_lookup_map (f : Z -> Z) m t : f 0%Z = 0%Z ->
  tf_lookup (map (fun p : list N * Z => (fst p, f (snd p))) m) t = f (tf_lookup m t).
Proof.
  intros F. unfold tf_lookup. induction m as [|[t1 c] r IH]; simpl; [now rewrite F|].
  destruct (bytes_eqb t1 t); [reflexivity|exact IH].
Qed.

Theorem tf_extract_spec cs low t :
  tf_lookup (tf_extract cs low) t = if low then Z.quot (tf_spec cs t) low_penalty else tf_spec cs t.
Proof.
  unfold tf_extract. destruct low; [|apply tf_raw_spec].
  rewrite (tf_lookup_map (fun z => Z.quot z low_penalty)); [now rewrite tf_raw_spec|reflexivity].
Qed.

Lemma tf_spec_perm cs cs' t : Permutation cs cs' -> tf_spec cs t = tf_spec cs' t.
Proof. induction 1; simpl; lia. Qed.

Theorem tf_extract_perm cs cs' low t :
  Permutation cs cs' -> tf_lookup (tf_extract cs low) t = tf_lookup (tf_extract cs' low) t.
Proof. intros P. rewrite !tf_extract_spec, (tf_spec_perm _ _ t P). reflexivity. Qed.

(** frequencies are non-negative (also after the division, which can make them 0) and there are at most as
    many terms as candidates *)
Lemma important_boost_pos : (0 < important_boost)%Z.
Proof. vm_compute. reflexivity. Qed.
Lemma low_penalty_pos : (0 < low_penalty)%Z.
Proof. vm_compute. reflexivity. Qed.

Lemma tf_add_nonneg t n m : (0 <= n)%Z -> Forall (fun p : list N * Z => (0 <= snd p)%Z) m ->
  Forall (fun p : list N * Z => (0 <= snd p)%Z) (tf_add t n m).
Proof.
  intros Hn H. induction H as [|[t1 c] r Hc Hr IH]; simpl; [constructor; [exact Hn|constructor]|].
  simpl in Hc. destruct (bytes_eqb t t1); constructor; simpl; auto; lia.
Qed.
Lemma tf_add_length t n m : (length (tf_add t n m) <= S (length m))%nat.
Proof. induction m as [|[t1 c] r IH]; simpl; [lia|]. destruct (bytes_eqb t t1); simpl; lia. Qed.

Lemma tf_raw_inv cs : forall m, Forall (fun p : list N * Z => (0 <= snd p)%Z) m ->
  let r := fold_left (fun m (c : tfcand) => tf_add (fst c) (if snd c then important_boost else 1%Z) m) cs m in
  Forall (fun p : list N * Z => (0 <= snd p)%Z) r /\ (length r <= length m + length cs)%nat.
Proof.
  induction cs as [|c r IH]; intros m Hm; simpl; [split; [exact Hm|lia]|].
  pose proof important_boost_pos as IB.
  assert (Hn : (0 <= (if snd c then important_boost else 1))%Z) by (destruct (snd c); lia).
  destruct (IH _ (tf_add_nonneg (fst c) _ m Hn Hm)) as [A B]. split; [exact A|].
  pose proof (tf_add_length (fst c) (if snd c then important_boost else 1%Z) m). lia.
Qed.

Theorem tf_extract_nonneg cs low :
  Forall (fun f => (0 <= f)%Z) (map snd (tf_extract cs low)) /\ (length (tf_extract cs low) <= length cs)%nat.
Proof.
  destruct (tf_raw_inv cs [] (Forall_nil _)) as [A B]. fold (tf_raw cs) in A, B. simpl in B.
  unfold tf_extract. destruct low.
  - rewrite map_length. split; [|exact B]. rewrite map_map. simpl.
    apply Forall_forall. intros z Hz. apply in_map_iff in Hz as [p [<- Hp]].
    rewrite Forall_forall in A. specialize (A _ Hp). apply Z.quot_pos; [exact A|]. pose proof low_penalty_pos. lia.
  - split; [|exact B]. apply Forall_forall. intros z Hz. apply in_map_iff in Hz as [p [<- Hp]].
    rewrite Forall_forall in A. now apply A.
Qed.

(** ** 4. BM25 on the extracted frequencies: scoreFileBM25 / scoreLineBM25 are finite and non-negative for
    every candidate list, every boost, every length *)
Lemma length_ratio_nonneg flen total ndocs : (0 <= flen)%Z -> (0 <= total)%Z -> (0 <= ndocs)%Z ->
  0 <= length_ratio flen total ndocs.
Proof.
  intros Hf Ht Hn. unfold length_ratio.
  assert (F : 0 <= inject_Z flen) by (unfold Qle, inject_Z; simpl; lia).
  assert (A : 0 <= inject_Z total / inject_Z ndocs).
  { unfold Qdiv. apply Qmult_le_0_compat; [unfold Qle, inject_Z; simpl; lia|].
    apply Qinv_le_0_compat. unfold Qle, inject_Z; simpl; lia. }
  remember (inject_Z total / inject_Z ndocs) as avg eqn:Eavg. clear Eavg.
  unfold Qdiv. apply Qmult_le_0_compat; [exact F|]. apply Qinv_le_0_compat.
  destruct (Qeq_bool avg 0); [apply Qle_trans with avg; [exact A|]; rewrite <- (Qplus_0_r avg) at 1; apply Qplus_le_r; discriminate | exact A].
Qed.

Definition bm25_cap (nterms : nat) : Q := (c_bm25_k + 1) * inject_Z (Z.of_nat nterms) * c_maxBoostWeight.

Lemma bm25_cap_mono a b : (a <= b)%nat -> bm25_cap a <= bm25_cap b.
Proof.
  intros H. unfold bm25_cap. pose proof maxBoostWeight_ge_1 as M.
  assert (K : 0 <= c_bm25_k + 1) by (unfold c_bm25_k, Qle; simpl; lia).
  assert (I : inject_Z (Z.of_nat a) <= inject_Z (Z.of_nat b)) by (unfold Qle, inject_Z; simpl; lia).
  remember c_maxBoostWeight as MB eqn:EM. clear EM.
  remember (c_bm25_k + 1) as k1 eqn:Ek. clear Ek.
  remember (inject_Z (Z.of_nat a)) as qa eqn:Ea. remember (inject_Z (Z.of_nat b)) as qb eqn:Eb. clear Ea Eb.
  assert (P : k1 * qa <= k1 * qb) by nra. nra.
Qed.

Theorem bm25_file_bounds cs low flen total ndocs ws :
  (0 <= flen)%Z -> (0 <= total)%Z -> (0 <= ndocs)%Z ->
  0 <= bm25_file cs low flen total ndocs ws <= bm25_cap (length cs).
Proof.
  intros Hf Ht Hn. destruct (tf_extract_nonneg cs low) as [A B].
  pose proof (bm25_score_finite_every_boost (length_ratio flen total ndocs) (map snd (tf_extract cs low)) ws
                (length_ratio_nonneg _ _ _ Hf Ht Hn) A) as [L U].
  unfold bm25_file. split; [exact L|]. eapply Qle_trans; [exact U|].
  rewrite map_length. apply (bm25_cap_mono _ _ B).
Qed.

Theorem bm25_line_bounds fl cs llen ws :
  (0 <= llen)%Z -> 0 <= bm25_line fl cs llen ws <= bm25_cap (length cs).
Proof.
  intros Hl. unfold bm25_line. destruct fl.
  - split; [lra|]. unfold bm25_cap. pose proof maxBoostWeight_ge_1 as M.
    assert (K : 0 <= c_bm25_k + 1) by (unfold c_bm25_k, Qle; simpl; lia).
    assert (I : 0 <= inject_Z (Z.of_nat (length cs))) by (unfold Qle, inject_Z; simpl; lia).
    remember c_maxBoostWeight as MB eqn:EM. clear EM.
    remember (c_bm25_k + 1) as k1 eqn:Ek. clear Ek.
    remember (inject_Z (Z.of_nat (length cs))) as qa eqn:Ea. clear Ea.
    assert (P : 0 <= k1 * qa) by nra. nra.
  - destruct (tf_extract_nonneg cs false) as [A B].
    assert (L0 : 0 <= inject_Z llen / 100).
    { unfold Qdiv. apply Qmult_le_0_compat; [unfold Qle, inject_Z; simpl; lia|]. unfold Qle; simpl; lia. }
    pose proof (bm25_score_finite_every_boost _ (map snd (tf_extract cs false)) ws L0 A) as [L U].
    split; [exact L|]. eapply Qle_trans; [exact U|]. rewrite map_length. apply (bm25_cap_mono _ _ B).
Qed.

(** the order of the candidates does not matter for the BM25 sum either: equal frequency maps (as functions
    of the term) that list the same terms give the same sum, see [bm25_sum_perm] for the summation order *)

(** ** 5. The extended inputs satisfy the hypotheses of the bound theorems by construction *)
Lemma cand_of_x_ok lang fname c : kind_ok (cand_of_x lang fname c) /\ exists w, c_weight (cand_of_x lang fname c) = eff_weight w.
Proof.
  split; [|exists (x_weight c); reflexivity].
  unfold kind_ok, cand_of_x. simpl. destruct (x_kind c) as [| |s e [[k up]|]]; auto.
  apply score_symbol_kind_bounds.
Qed.

Definition xfin_ok (f : xfin) : Prop := (0 <= xf_rank f <= 65535)%Z /\ (0 <= xf_doc f < xf_ndocs f)%Z.

Lemma fin_of_x_ok f : xfin_ok f -> fin_x (fin_of_x f).
Proof.
  intros [HR HD]. split; [|split; assumption]. simpl.
  apply Forall_forall. intros m Hm. apply in_map_iff in Hm as [m0 [<- _]].
  apply Forall_forall. intros l Hl. apply in_map_iff in Hl as [l0 [<- _]]. simpl.
  apply Forall_forall. intros c Hc. apply in_map_iff in Hc as [c0 [<- _]]. apply cand_of_x_ok.
Qed.

Theorem xscores_finite dbg f :
  xfin_ok f ->
  0 <= snd (fst (score_xfile dbg f)) <= file_bound c_maxBoostWeight /\
  Forall (fun m => 0 <= fst (match_score dbg m) <= base_bound * c_maxBoostWeight) (fi_matches (fin_of_x f)) /\
  file_bound c_maxBoostWeight < inject_Z (2 ^ 1023).
Proof.
  intros H. destruct (scores_finite_every_boost dbg (fin_of_x f) (fin_of_x_ok f H)) as (A & B & C & _).
  repeat split; try assumption; apply A.
Qed.

Theorem xrank_neutral fs : rank_all_x true fs = rank_all_x false fs.
Proof. unfold rank_all_x. apply rank_all_neutral. Qed.

Theorem xscore_neutral f :
  fst (score_xfile true f) = fst (score_xfile false f) /\ snd (score_xfile false f) = [].
Proof. unfold score_xfile. split; [apply score_file_neutral | reflexivity]. Qed.
