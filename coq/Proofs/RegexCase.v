(** LowerRegexp / Regexp.setCase("auto") decide "the pattern contains an upper-case letter" for EVERY
    position of the regexp AST (Model/RegexCase.v). *)
From Coq Require Import List NArith Arith Bool Lia.
From ZV Require Import Model.Regex Model.RegexCase Proofs.RegexBasics.
Import ListNotations.
Open Scope N_scope.

Lemma lower_rune_fix c : (c =? lower_rune c) = negb (upper_rune c).
Proof.
  unfold lower_rune. destruct (upper_rune c) eqn:Hu; simpl.
  - apply N.eqb_neq. lia.
  - apply N.eqb_refl.
Qed.

Lemma runes_lower rs : list_beq N.eqb rs (map lower_rune rs) = negb (existsb upper_rune rs).
Proof.
  induction rs as [|c rs IH]; simpl; [reflexivity|].
  rewrite lower_rune_fix, IH, negb_orb. reflexivity.
Qed.

Lemma ranges_lower rg :
  list_beq (fun p q : N * N => (fst p =? fst q) && (snd p =? snd q)) rg
           (map (fun p => (lower_rune (fst p), lower_rune (snd p))) rg)
  = negb (existsb (fun p => upper_rune (fst p) || upper_rune (snd p)) rg).
Proof.
  induction rg as [|[a b] rg IH]; simpl; [reflexivity|].
  rewrite !lower_rune_fix, IH, !negb_orb. reflexivity.
Qed.

Lemma opt_nat_eqb_refl o : opt_nat_eqb o o = true.
Proof. destruct o; simpl; [apply Nat.eqb_refl | reflexivity]. Qed.

Definition subs_upper (xs : list re) : bool :=
  (fix go (xs : list re) : bool := match xs with [] => false | x :: xs' => has_upper_re x || go xs' end) xs.
Definition subs_eqb (xs ys : list re) : bool :=
  (fix go (xs ys : list re) : bool :=
     match xs, ys with
     | [], [] => true
     | x :: xs', y :: ys' => re_eqb x y && go xs' ys'
     | _, _ => false
     end) xs ys.

Lemma subs_lower xs :
  Forall (fun r => re_eqb r (lower_re r) = negb (has_upper_re r)) xs ->
  subs_eqb xs (map lower_re xs) = negb (subs_upper xs).
Proof.
  induction 1 as [|x xs Hx _ IH]; [reflexivity|].
  change (re_eqb x (lower_re x) && subs_eqb xs (map lower_re xs) = negb (has_upper_re x || subs_upper xs)).
  rewrite Hx, IH, negb_orb. reflexivity.
Qed.

Lemma lower_re_eqb r : re_eqb r (lower_re r) = negb (has_upper_re r).
Proof.
  induction r using re_ind2.
  - destruct r; try contradiction; simpl; try reflexivity.
    + rewrite eqb_reflx, runes_lower. reflexivity.
    + apply ranges_lower.
  - simpl. assumption.
  - simpl. assumption.
  - simpl. assumption.
  - simpl. assumption.
  - simpl. rewrite Nat.eqb_refl, opt_nat_eqb_refl. simpl. assumption.
  - apply (subs_lower rs H).
  - apply (subs_lower rs H).
Qed.

(** Regexp.setCase("auto") is case-sensitive exactly when the regexp has an upper-case letter somewhere *)
Theorem re_auto_iff_upper r : re_auto r = has_upper_re r.
Proof. unfold re_auto. rewrite lower_re_eqb. apply negb_involutive. Qed.

(** what a seeded variant of LowerRegexp that does not descend below unary nodes would get wrong: the
    statement is about all positions, e.g. below + (a concrete instance) *)
Example upper_below_plus : re_auto (RConcat [RPlus (RClass [(65, 90)]); RLit false [95; 105; 100]]) = true.
Proof. vm_compute. reflexivity. Qed.

Lemma has_upper_lower r : has_upper_re (lower_re r) = false.
Proof.
  assert (Hr : forall c, upper_rune (lower_rune c) = false).
  { intro c. unfold lower_rune. destruct (upper_rune c) eqn:Hu; [|exact Hu].
    unfold upper_rune in *. apply andb_true_iff in Hu. destruct Hu as [H1 H2].
    apply N.leb_le in H1. apply N.leb_le in H2. apply andb_false_iff. right. apply N.leb_gt. lia. }
  induction r using re_ind2; try (simpl; assumption).
  - destruct r; try contradiction; simpl; try reflexivity.
    + induction rs as [|c rs IH]; simpl; [reflexivity|]. rewrite Hr, IH. reflexivity.
    + induction rg as [|[a b] rg IH]; simpl; [reflexivity|]. rewrite !Hr, IH. reflexivity.
  - simpl. induction H as [|x xs Hx _ IH]; simpl; [reflexivity|]. rewrite Hx. exact IH.
  - simpl. induction H as [|x xs Hx _ IH]; simpl; [reflexivity|]. rewrite Hx. exact IH.
Qed.
