(** C02/C03 — breakMatchesOnNewlines, byte coverage: the pieces of a candidate list cover exactly the bytes of the
    candidates minus the newline bytes (the converse direction of [break_matches_spec]). *)
From ZV Require Import Lib.Base Lib.GoSearch Lib.RuneCount Model.Lines Proofs.LinesBasic Proofs.LinesMatch.
From Coq Require Import ZifyBool ZifyNat Sorting.Sorted.

(** byte position p lies inside one of the ranges *)
Definition covered (l : list cand) (p : nat) : Prop := exists x, In x l /\ c_off x <= p < c_end x.

Lemma covered_app : forall a b p, covered (a ++ b) p <-> covered a p \/ covered b p.
Proof.
  intros a b p. unfold covered. split.
  - intros [x [Hx Hp]]. apply in_app_or in Hx. destruct Hx; [left|right]; eauto.
  - intros [[x [Hx Hp]]|[x [Hx Hp]]]; exists x; (split; [apply in_or_app; auto|exact Hp]).
Qed.

Lemma covered_nil : forall p, ~ covered [] p.
Proof. intros p [x [[] _]]. Qed.

Lemma covered_one : forall x p, covered [x] p <-> c_off x <= p < c_end x.
Proof.
  intros x p. unfold covered. split.
  - intros [y [[<-|[]] Hp]]. exact Hp.
  - intros Hp. exists x. split; [now left|exact Hp].
Qed.

Section Content.
Variable c : list N.

(** the state of breakOnNewlines: [start, cur) is the newline-free piece under construction *)
Lemma brk_cover : forall fn seg start cur,
  start <= cur ->
  (forall p, start <= p < cur -> nth_error c p <> Some 10%N) ->
  (forall i, i < length seg -> nth_error seg i = nth_error c (cur + i)) ->
  forall p, covered (brk fn seg start cur) p <->
            (start <= p < cur + length seg /\ nth_error c p <> Some 10%N).
Proof.
  intros fn seg. induction seg as [|ch r IH]; intros start cur Hsc Hno Hseg p.
  - cbn [brk length]. destruct (cur - start =? 0) eqn:E.
    + split; [intros H; now apply covered_nil in H|]. intros [H _]. lia.
    + rewrite covered_one. unfold c_end. cbn [c_off c_sz]. split.
      * intros H. split; [lia|]. apply Hno. lia.
      * intros [H _]. lia.
  - assert (Hch : nth_error c cur = Some ch).
    { specialize (Hseg 0 ltac:(simpl; lia)). simpl in Hseg. now rewrite Nat.add_0_r in Hseg. }
    assert (Hseg' : forall i, i < length r -> nth_error r i = nth_error c (S cur + i)).
    { intros i Hi. specialize (Hseg (S i) ltac:(simpl; lia)). simpl in Hseg.
      now replace (S cur + i) with (cur + S i) by lia. }
    cbn [brk length]. destruct (N.eqb ch 10) eqn:Ech.
    + apply N.eqb_eq in Ech. subst ch.
      rewrite covered_app, (IH (S cur) (S cur)) by (auto; intros; lia).
      destruct (cur - start =? 0) eqn:E.
      * split.
        -- intros [H|[H1 H2]]; [now apply covered_nil in H|]. split; [lia|exact H2].
        -- intros [H1 H2]. right. split; [|exact H2].
           destruct (Nat.eq_dec p cur) as [->|Hne]; [congruence|lia].
      * rewrite covered_one. unfold c_end. cbn [c_off c_sz]. split.
        -- intros [H|[H1 H2]]; [split; [lia|apply Hno; lia]|split; [lia|exact H2]].
        -- intros [H1 H2]. destruct (Nat.eq_dec p cur) as [->|Hne]; [congruence|].
           destruct (Nat.lt_ge_cases p cur); [left; lia|right; split; [lia|exact H2]].
    + rewrite (IH start (S cur)); auto; try lia.
      * replace (S cur + length r) with (cur + S (length r)) by lia. reflexivity.
      * intros q Hq. destruct (Nat.eq_dec q cur) as [->|Hne]; [|apply Hno; lia].
        rewrite Hch. intros Heq. injection Heq as ->. discriminate.
Qed.

(** breakMatchesOnNewlines on ANY in-bounds candidate list (sorted or not, overlapping or not): a byte is inside a piece
    iff it is inside a candidate and is not a newline *)
Theorem break_matches_cover : forall ms b,
  Forall (fun m => c_end m <= length c) ms -> break_matches c ms = Ok b ->
  forall p, covered b p <-> (covered ms p /\ nth_error c p <> Some 10%N).
Proof.
  induction ms as [|m r IH]; intros b Hb Hbrk p.
  - simpl in Hbrk. injection Hbrk as <-. split; [intros H; now apply covered_nil in H|intros [H _]; now apply covered_nil in H].
  - inversion Hb as [|? ? Hm Hr]; subst.
    cbn [break_matches] in Hbrk. unfold break_on_newlines in Hbrk.
    change (m :: r) with ([m] ++ r). rewrite (covered_app [m] r), covered_one.
    destruct (c_sz m =? 0) eqn:Ez.
    + cbn [obind] in Hbrk. destruct (break_matches c r) as [b'| |] eqn:Eb; try discriminate.
      cbn [obind] in Hbrk. injection Hbrk as <-. cbn [app].
      rewrite (IH b' Hr eq_refl). unfold c_end. split; [intros [H1 H2]; auto|].
      intros [[H|H] H2]; [lia|auto].
    + unfold go_slice in Hbrk.
      destruct ((c_off m <=? c_end m) && (c_end m <=? length c)) eqn:Eg; [|unfold c_end in *; lia].
      cbn [obind] in Hbrk. destruct (break_matches c r) as [b'| |] eqn:Eb; try discriminate.
      cbn [obind] in Hbrk. injection Hbrk as <-.
      assert (Hl : length (slice c (c_off m) (c_end m)) = c_sz m).
      { rewrite slice_length_le by lia. unfold c_end. lia. }
      rewrite covered_app, (IH b' Hr eq_refl).
      rewrite (brk_cover (c_fn m) (slice c (c_off m) (c_end m)) (c_off m) (c_off m)); try lia.
      * rewrite Hl. unfold c_end. tauto.
      * intros i Hi. apply nth_error_slice. rewrite Hl in Hi. unfold c_end. lia.
Qed.

(** full statement for what gatherMatches delivers: success, piece properties, order — and exact coverage *)
Theorem break_matches_full : forall ms,
  Forall (fun m => c_end m <= length c) ms -> disjoint_sorted ms ->
  exists b, break_matches c ms = Ok b /\
    Forall (fun x => piece_ok c x /\ exists m, In m ms /\ in_range (c_off m) (c_end m) x /\ c_fn x = c_fn m) b /\
    disjoint_sorted b /\
    (forall p, covered b p <-> (covered ms p /\ nth_error c p <> Some 10%N)).
Proof.
  intros ms Hb Hs. destruct (break_matches_spec c ms Hb Hs) as [b [Eb [Fb Sb]]].
  exists b. split; [exact Eb|]. split; [exact Fb|]. split; [exact Sb|]. exact (break_matches_cover ms b Hb Eb).
Qed.

End Content.
