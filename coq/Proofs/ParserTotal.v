(** Totality of the parser model: no checked slice/index operation of query/parse.go can fail (no Panic),
    and the explicit fuel 3*|input|+3 is never exhausted, for every input and every behaviour of the
    external engines. *)
From ZV Require Import Lib.Base Model.Query Generated.ParserTables Model.Parser.
From Coq Require Import Lia.
Open Scope N_scope.

(** an outcome that is neither a panic nor the fuel artefact *)
Definition fine {A} (x : outcome A) : Prop :=
  match x with Ok _ => True | Err e => e <> E_FUEL | Panic _ => False end.

Ltac fuel_ne := unfold E_FUEL, E_MISSING_CHAR, E_UNTERMINATED, E_LONE_BACKSLASH, E_EXTRA, E_CASE_ARG, E_REGEXP,
  E_ARCHIVED_ARG, E_FORK_ARG, E_PUBLIC_ARG, E_SYM_EMPTY, E_CLOSE_PAREN, E_NEG_ARG, E_TYPE_ARG, E_META_SYNTAX,
  E_OR_OPERAND, E_NEG_DIRECTIVE; discriminate.

(** ------------------------------------------------------------------ basics *)

Arguments parseStringLiteral : simpl never.
Arguments drop : simpl never.
Arguments csub : simpl never.
Arguments setType : simpl never.
Arguments nextToken : simpl never.

Lemma drop_le {A} n (l : list A) : (n <= length l)%nat -> drop n l = Ok (skipn n l).
Proof. intros H. unfold drop. destruct (Nat.leb_spec n (length l)); [reflexivity | lia]. Qed.

Lemma csub_le a b : (b <= a)%nat -> csub a b = Ok (a - b)%nat.
Proof. intros H. unfold csub. destruct (Nat.leb_spec b a); [reflexivity | lia]. Qed.

Lemma skipn_len {A} n (l : list A) : length (skipn n l) = (length l - n)%nat.
Proof. apply skipn_length. Qed.

Lemma skipSpaces_le b : (length (skipSpaces b) <= length b)%nat.
Proof. induction b as [|c r IH]; simpl; [lia|]. destruct (isSpace c); simpl; lia. Qed.

Lemma prefixb_app p l : prefixb p l = true -> exists r, l = p ++ r.
Proof.
  revert l. induction p as [|a p IH]; intros l H; simpl in *.
  - exists l. reflexivity.
  - destruct l as [|b l]; [discriminate|]. apply andb_prop in H as [H1 H2].
    apply N.eqb_eq in H1. subst b. destruct (IH _ H2) as [r ->]. exists r. reflexivity.
Qed.

Lemma prefixb_firstn p k l : prefixb p (firstn k l) = true -> prefixb p l = true.
Proof.
  revert k l. induction p as [|a p IH]; intros k l H; simpl in *; [reflexivity|].
  destruct k as [|k]; simpl in H; [discriminate|]. destruct l as [|b l]; simpl in H; [discriminate|].
  apply andb_prop in H as [H1 H2]. rewrite H1. simpl. eapply IH. exact H2.
Qed.

Lemma prefixb_length p l : prefixb p l = true -> (length p <= length l)%nat.
Proof. intros H. destruct (prefixb_app _ _ H) as [r ->]. rewrite app_length. lia. Qed.

(** ------------------------------------------------------------------ parseStringLiteral *)

Lemma strlit_loop_spec : forall n lft lit, (length lft <= n)%nat ->
  match strlit_loop lft lit with
  | Ok (_, rest) => (length rest < length lft)%nat
  | Err e => e <> E_FUEL
  | Panic _ => False
  end.
Proof.
  induction n as [|n IH]; intros lft lit Hn.
  - destruct lft; simpl in *; [fuel_ne | lia].
  - destruct lft as [|c l1]; simpl; [fuel_ne|].
    destruct (c =? 34); [simpl; lia|].
    destruct (c =? 92).
    + destruct l1 as [|c2 l2]; [fuel_ne|].
      specialize (IH l2 (lit ++ [c2])). simpl in Hn.
      destruct (strlit_loop l2 (lit ++ [c2])) as [[x rest]|e|w]; simpl in *; try (apply IH; lia).
      assert (length rest < length l2)%nat by (apply IH; lia). lia.
    + specialize (IH l1 (lit ++ [c])). simpl in Hn.
      destruct (strlit_loop l1 (lit ++ [c])) as [[x rest]|e|w]; simpl in *; try (apply IH; lia).
      assert (length rest < length l1)%nat by (apply IH; lia). lia.
Qed.

Lemma parseStringLiteral_spec inp : inp <> [] ->
  match parseStringLiteral inp with
  | Ok (_, n) => (1 <= n <= length inp)%nat
  | Err e => e <> E_FUEL
  | Panic _ => False
  end.
Proof.
  intros Hne. destruct inp as [|c lft]; [congruence|]. unfold parseStringLiteral.
  pose proof (strlit_loop_spec (length lft) lft [] (le_n _)) as H.
  destruct (strlit_loop lft []) as [[lit rest]|e|w]; simpl; try exact H.
  rewrite csub_le by (simpl; lia). cbn [obind]. simpl length. lia.
Qed.

(** ------------------------------------------------------------------ tok_loop *)

Definition plain (c : N) : bool :=
  negb ((c =? 40) || (c =? 41) || (c =? 34) || (c =? 92) || (c =? 32) || (c =? 10) || (c =? 9)).

Lemma tok_loop_spec : forall fuel lft pc text, (length lft < fuel)%nat ->
  match tok_loop fuel lft pc text with
  | Ok (text', lft', _) =>
      (length lft' <= length lft)%nat /\ exists x, text' = text ++ x /\ (x = [] \/ (length lft' < length lft)%nat)
  | Err e => e <> E_FUEL
  | Panic _ => False
  end.
Proof.
  induction fuel as [|f IH]; intros lft pc text Hf; [lia|].
  destruct lft as [|c l1]; simpl.
  - split; [lia|]. exists []. rewrite app_nil_r. auto.
  - simpl in Hf.
    assert (Hrec : forall l' pc' y, (length l' < length (c :: l1))%nat ->
              match tok_loop f l' pc' (text ++ y) with
              | Ok (text', lft', _) =>
                  (length lft' <= length (c :: l1))%nat /\
                  exists x, text' = text ++ x /\ (x = [] \/ (length lft' < length (c :: l1))%nat)
              | Err e => e <> E_FUEL
              | Panic _ => False
              end).
    { intros l' pc' y Hl. simpl in Hl. specialize (IH l' pc' (text ++ y)).
      destruct (tok_loop f l' pc' (text ++ y)) as [[[t' l''] fs]|e|w]; try (apply IH; lia).
      destruct IH as [H1 [x [H2 H3]]]; [lia|]. simpl. split; [lia|].
      exists (y ++ x). rewrite app_assoc. split; [exact H2|]. right. lia. }
    destruct (c =? 40); [apply Hrec; simpl; lia|].
    destruct (c =? 41).
    { destruct pc as [|pc'].
      - destruct text as [|t0 tr].
        + simpl. split; [lia|]. exists [41]. split; [reflexivity|]. right. lia.
        + simpl. split; [lia|]. exists []. rewrite app_nil_r. auto.
      - apply Hrec. simpl. lia. }
    destruct (c =? 34).
    { pose proof (parseStringLiteral_spec (c :: l1)) as Hs.
      destruct (parseStringLiteral (c :: l1)) as [[lit n]|e|w]; cbn [obind]; try (apply Hs; congruence).
      assert (Hn : (1 <= n <= length (c :: l1))%nat) by (apply Hs; congruence).
      rewrite drop_le by lia. cbn [obind].
      apply Hrec. rewrite skipn_len. simpl length in *. lia. }
    destruct (c =? 92).
    { destruct l1 as [|c2 l2]; [fuel_ne|]. apply Hrec. simpl. lia. }
    destruct ((c =? 32) || (c =? 10) || (c =? 9)).
    { simpl. split; [lia|]. exists []. rewrite app_nil_r. auto. }
    apply Hrec. simpl. lia.
Qed.

(** a run of plain bytes is copied to the text *)
Lemma tok_loop_plain : forall p fuel rest pc text, forallb plain p = true ->
  tok_loop (length p + fuel) (p ++ rest) pc text = tok_loop fuel rest pc (text ++ p).
Proof.
  induction p as [|c p IH]; intros fuel rest pc text Hp; simpl.
  - rewrite app_nil_r. reflexivity.
  - simpl in Hp. apply andb_prop in Hp as [Hc Hp]. unfold plain in Hc.
    apply negb_true_iff in Hc. repeat (apply orb_false_elim in Hc as [Hc ?]).
    repeat match goal with H : (c =? _) = false |- _ => rewrite H; clear H end. simpl.
    rewrite IH by exact Hp. rewrite <- app_assoc. reflexivity.
Qed.

(** ------------------------------------------------------------------ setType *)

Definition table_ok : bool :=
  forallb (fun p => forallb plain (fst p) && (2 <=? length (fst p))%nat) prefixes.
Lemma table_ok_true : table_ok = true.
Proof. vm_compute. reflexivity. Qed.

Lemma prefixes_plain p : In p prefixes -> forallb plain (fst p) = true /\ (2 <= length (fst p))%nat.
Proof.
  intros Hin. pose proof table_ok_true as H. unfold table_ok in H. rewrite forallb_forall in H.
  specialize (H p Hin). apply andb_prop in H as [H1 H2]. split; [exact H1|]. apply Nat.leb_le. exact H2.
Qed.

Lemma setType_spec t :
  (forall p, In p prefixes -> prefixb (fst p) (tinput t) = true -> (length (fst p) <= length (ttext t))%nat) ->
  exists t', setType t = Ok t' /\ tinput t' = tinput t.
Proof.
  intros H. unfold setType.
  set (t1 := if str_eqb (ttext t) [40] then with_type t tokParenOpen else t).
  set (t2 := if str_eqb (ttext t1) [41] then with_type t1 tokParenClose else t1).
  set (t3 := match find (fun w => str_eqb (ttext t2) (fst w) && str_eqb (tinput t2) (fst w)) reservedWords with Some w => with_type t2 (snd w) | None => t2 end).
  assert (E1 : ttext t1 = ttext t /\ tinput t1 = tinput t) by (unfold t1; destruct (str_eqb (ttext t) [40]); auto).
  assert (E2 : ttext t2 = ttext t /\ tinput t2 = tinput t) by (unfold t2; destruct (str_eqb (ttext t1) [41]); simpl; tauto).
  assert (E3 : ttext t3 = ttext t /\ tinput t3 = tinput t) by (unfold t3; match goal with |- context[find ?f reservedWords] => destruct (find f reservedWords) end; simpl; tauto).
  destruct E3 as [E3a E3b].
  destruct (find (fun p => prefixb (fst p) (tinput t3)) prefixes) as [p|] eqn:Hf.
  - apply find_some in Hf as [Hin Hp]. rewrite E3b in Hp. specialize (H p Hin Hp).
    rewrite drop_le by (rewrite E3a; exact H). simpl. eexists. split; [reflexivity|]. simpl. exact E3b.
  - exists t3. auto.
Qed.

(** ------------------------------------------------------------------ nextToken *)

Lemma firstn_len_le {A} k (l : list A) : (k <= length l)%nat -> length (firstn k l) = k.
Proof. intros. rewrite firstn_length. lia. Qed.

Lemma nextToken_spec inp :
  match nextToken inp with
  | Ok None => True
  | Ok (Some t) => (1 <= length (tinput t) <= length inp)%nat
  | Err e => e <> E_FUEL
  | Panic _ => False
  end.
Proof.
  unfold nextToken. destruct inp as [|c0 r]; [exact I|].
  destruct (c0 =? 45); [simpl; lia|].
  pose proof (tok_loop_spec (S (length (c0 :: r))) (c0 :: r) 0 [] (Nat.lt_succ_diag_r _)) as Hl.
  destruct (tok_loop (S (length (c0 :: r))) (c0 :: r) 0 []) as [[[text lft] fs]|e|w] eqn:Htl; cbn [obind]; try exact Hl.
  destruct Hl as [Hle [x [Hx Hprog]]]. simpl in Hx. subst x.
  destruct text as [|t0 tr]; [exact I|].
  destruct Hprog as [Hnil | Hlt]; [discriminate|].
  destruct (fs && (t0 =? 40)).
  - (* '(' followed by a space inside: the token is the single byte "(" *)
    destruct (setType_spec {| ttype := 0; ttext := firstn 1 (t0 :: tr); tinput := firstn 1 (c0 :: r) |}) as [t' [Ht' Hin]].
    { intros p Hp Hpre. simpl in *. apply prefixb_length in Hpre. simpl in Hpre.
      destruct (prefixes_plain p Hp) as [_ H2]. lia. }
    rewrite Ht'. simpl. rewrite Hin. simpl. lia.
  - rewrite csub_le by exact Hle. cbn [obind].
    set (k := (length (c0 :: r) - length lft)%nat).
    destruct (setType_spec {| ttype := 0; ttext := t0 :: tr; tinput := firstn k (c0 :: r) |}) as [t' [Ht' Hin]].
    { intros p Hp Hpre. cbn [tinput ttext] in *.
      destruct (prefixes_plain p Hp) as [Hpl _].
      apply prefixb_firstn in Hpre. destruct (prefixb_app _ _ Hpre) as [rest Hrest].
      (* the loop copies the plain prefix into the text *)
      assert (Hfu : (length (fst p) <= S (length (c0 :: r)))%nat).
      { rewrite Hrest. rewrite app_length. lia. }
      replace (S (length (c0 :: r))) with (length (fst p) + (S (length (c0 :: r)) - length (fst p)))%nat in Htl by lia.
      rewrite Hrest in Htl at 2. rewrite tok_loop_plain in Htl by exact Hpl. simpl app in Htl.
      pose proof (tok_loop_spec (S (length (c0 :: r)) - length (fst p)) rest 0 (fst p)) as Hs.
      rewrite Htl in Hs. destruct Hs as [_ [x [Hx _]]].
      { rewrite Hrest. rewrite app_length. lia. }
      rewrite Hx. rewrite app_length. lia. }
    rewrite Ht'. cbn [obind]. rewrite Hin. cbn [tinput]. unfold k. rewrite firstn_len_le by lia. lia.
Qed.

(** ------------------------------------------------------------------ the pure helpers *)

Lemma parseOps_loop_fine l : forall top cur seen, fine (parseOps_loop l top cur seen).
Proof.
  induction l as [|i l IH]; intros top cur seen; simpl.
  - destruct (seen && is_nil cur); simpl; [fuel_ne | exact I].
  - destruct i; [apply IH|]. destruct (is_nil cur); [simpl; fuel_ne | apply IH].
Qed.

Lemma parseOperators_fine l : fine (parseOperators l).
Proof. apply parseOps_loop_fine. Qed.

Section Fine.
  Variable rq : str -> rqres.
  Variable rx_auto : str -> bool.
  Variable rcompile : str -> bool.
  Variable lang : str -> option str.

  Notation parseExpr := (parseExpr rq rx_auto rcompile lang).
  Notation parseExprList := (parseExprList rq rx_auto rcompile lang).
  Notation exprList_loop := (exprList_loop rq rx_auto rcompile lang).

  Lemma finish_list_fine qs : fine (finish_list rx_auto qs).
  Proof.
    unfold finish_list. destruct (scan_directives qs _ false 100 []) as [[[k has] typeT] newQS].
    destruct (typeT =? 100); simpl; [exact I|].
    pose proof (parseOperators_fine (map (map_item (qmap (setCase rx_auto k))) newQS)) as H.
    destruct (parseOperators _); simpl in *; auto.
  Qed.

  Lemma regexpQuery_fine t c f : fine (regexpQuery rq t c f).
  Proof. unfold regexpQuery. destruct (rq t); simpl; auto. fuel_ne. Qed.

  Lemma atom_expr_fine ty text : fine (atom_expr rq rcompile lang ty text).
  Proof.
    unfold atom_expr.
    repeat match goal with
           | |- fine (if ?c then _ else _) => destruct c
           | |- fine (Err _) => simpl; fuel_ne
           | |- fine (Ok _) => exact I
           | |- fine (obind (regexpQuery rq ?t ?c ?f) _) =>
               let H := fresh in pose proof (regexpQuery_fine t c f) as H; destruct (regexpQuery rq t c f); simpl in *; auto
           | |- fine (match lang ?t with _ => _ end) => destruct (lang t)
           | |- fine (match split_colon ?t ?a with _ => _ end) => destruct (split_colon t a) as [[? ?]|]
           end.
  Qed.

  (** unfolding equations of the mutual fixpoint *)
  Lemma parseExpr_S f inp : parseExpr (S f) inp =
    let b := skipSpaces inp in
    do otok <- nextToken b;
    match otok with
    | None => Ok (None, 0%nat)
    | Some tok =>
        do b1 <- drop (length (tinput tok)) b;
        if ttype tok =? tokParenOpen then
          do (qs, n) <- parseExprList f b1;
          do b2 <- drop n b1;
          do op <- nextToken b2;
          match op with
          | None => Err E_CLOSE_PAREN
          | Some ptok =>
              if ttype ptok =? tokParenClose then
                do b3 <- drop (length (tinput ptok)) b2;
                do e <- parseOperators qs;
                do n' <- csub (length inp) (length b3);
                Ok (Some (PQ e), n')
              else Err E_CLOSE_PAREN
          end
        else if ttype tok =? tokNegate then
          do (sub, n) <- parseExpr f b1;
          match sub with
          | None => Err E_NEG_ARG
          | Some (PType _) => Err E_NEG_DIRECTIVE
          | Some (PQ (QCase _)) => Err E_NEG_DIRECTIVE
          | Some (PQ q) =>
              do b2 <- drop n b1;
              do n' <- csub (length inp) (length b2);
              Ok (Some (PQ (QNot q)), n')
          end
        else
          do e <- atom_expr rq rcompile lang (ttype tok) (ttext tok);
          do n' <- csub (length inp) (length b1);
          Ok (e, n')
    end.
  Proof. reflexivity. Qed.

  Lemma parseExprList_S f inp : parseExprList (S f) inp =
    do (qs, b) <- exprList_loop f inp [];
    do items <- finish_list rx_auto qs;
    do n <- csub (length inp) (length b);
    Ok (items, n).
  Proof. reflexivity. Qed.

  Lemma exprList_loop_S f b qs : exprList_loop (S f) b qs =
    match b with
    | [] => Ok (qs, b)
    | _ :: _ =>
        let b1 := skipSpaces b in
        let continue :=
          do (q, n) <- parseExpr f b1;
          match q with
          | None => Ok (qs, b1)
          | Some e => do b2 <- drop n b1; exprList_loop f b2 (qs ++ [raw_of e])
          end in
        match nextToken b1 with
        | Panic w => Panic w
        | Ok (Some tok) =>
            if ttype tok =? tokParenClose then Ok (qs, b1)
            else if ttype tok =? tokOr then
              do b2 <- drop (length (tinput tok)) b1;
              exprList_loop f b2 (qs ++ [ROr])
            else continue
        | _ => continue
        end
    end.
  Proof. reflexivity. Qed.

  Definition good_expr (inp : str) (r : outcome (option pexpr * nat)) : Prop :=
    match r with
    | Ok (None, n) => (n <= length inp)%nat
    | Ok (Some _, n) => (1 <= n <= length inp)%nat
    | Err e => e <> E_FUEL
    | Panic _ => False
    end.
  Definition good_list (inp : str) (r : outcome (list item * nat)) : Prop :=
    match r with Ok (_, n) => (n <= length inp)%nat | Err e => e <> E_FUEL | Panic _ => False end.
  Definition good_loop (b : str) (r : outcome (list raw * str)) : Prop :=
    match r with Ok (_, b') => (length b' <= length b)%nat | Err e => e <> E_FUEL | Panic _ => False end.

  Definition PE (f : nat) := forall inp, (3 * length inp + 1 <= f)%nat -> good_expr inp (parseExpr f inp).
  Definition PL (f : nat) := forall inp, (3 * length inp + 3 <= f)%nat -> good_list inp (parseExprList f inp).
  Definition LL (f : nat) := forall b qs, (3 * length b + 2 <= f)%nat -> good_loop b (exprList_loop f b qs).

  Lemma parseExpr_step f : PE f -> PL f -> PE (S f).
  Proof.
    intros HE HL inp Hf. rewrite parseExpr_S. cbv zeta.
    pose proof (skipSpaces_le inp) as Hsp. set (b := skipSpaces inp) in *.
    pose proof (nextToken_spec b) as Hnt.
    destruct (nextToken b) as [[tok|]|e|w]; cbn [obind]; try exact Hnt; [|simpl; lia].
    rewrite drop_le by lia. cbn [obind].
    set (b1 := skipn (length (tinput tok)) b).
    assert (Hb1 : (length b1 = length b - length (tinput tok))%nat) by apply skipn_len.
    destruct (ttype tok =? tokParenOpen).
    { specialize (HL b1). unfold good_list in HL.
      destruct (parseExprList f b1) as [[qs n]|e|w]; cbn [obind]; try (apply HL; lia).
      assert (Hn : (n <= length b1)%nat) by (apply HL; lia).
      rewrite drop_le by exact Hn. cbn [obind].
      set (b2 := skipn n b1). assert (Hb2 : (length b2 = length b1 - n)%nat) by apply skipn_len.
      pose proof (nextToken_spec b2) as Hp.
      destruct (nextToken b2) as [[ptok|]|e|w]; cbn [obind]; try exact Hp; [|simpl; fuel_ne].
      destruct (ttype ptok =? tokParenClose); [|simpl; fuel_ne].
      rewrite drop_le by lia. cbn [obind].
      pose proof (parseOperators_fine qs) as Ho.
      destruct (parseOperators qs) as [e|e|w]; cbn [obind]; simpl in Ho; auto.
      rewrite csub_le by (rewrite skipn_len; lia). cbn [obind good_expr]. rewrite skipn_len. lia. }
    destruct (ttype tok =? tokNegate).
    { specialize (HE b1). unfold good_expr in HE.
      destruct (parseExpr f b1) as [[sub n]|e|w]; cbn [obind]; try (apply HE; lia).
      destruct sub as [[q|t]|]; try (simpl; fuel_ne).
      assert (Hn : (1 <= n <= length b1)%nat) by (apply HE; lia).
      destruct q; try (simpl; fuel_ne);
        (rewrite drop_le by lia; cbn [obind]; rewrite csub_le by (rewrite skipn_len; lia); cbn [obind good_expr]; rewrite skipn_len; lia). }
    pose proof (atom_expr_fine (ttype tok) (ttext tok)) as Ha.
    destruct (atom_expr rq rcompile lang (ttype tok) (ttext tok)) as [e|e|w]; cbn [obind]; simpl in Ha; auto.
    rewrite csub_le by lia. cbn [obind good_expr]. destruct e; lia.
  Qed.

  Lemma parseExprList_step f : LL f -> PL (S f).
  Proof.
    intros HLL inp Hf. rewrite parseExprList_S.
    specialize (HLL inp []). unfold good_loop in HLL.
    destruct (exprList_loop f inp []) as [[qs b]|e|w]; cbn [obind]; try (apply HLL; lia).
    assert (Hb : (length b <= length inp)%nat) by (apply HLL; lia).
    pose proof (finish_list_fine qs) as Hfl.
    destruct (finish_list rx_auto qs) as [items|e|w]; cbn [obind]; simpl in Hfl; auto.
    rewrite csub_le by exact Hb. cbn [obind good_list]. lia.
  Qed.

  Lemma exprList_loop_step f : PE f -> LL f -> LL (S f).
  Proof.
    intros HE HLL b qs Hf. rewrite exprList_loop_S.
    destruct b as [|c0 r]; [simpl; lia|].
    cbv zeta. pose proof (skipSpaces_le (c0 :: r)) as Hsp. set (b1 := skipSpaces (c0 :: r)) in *.
    assert (Hcont : good_loop (c0 :: r)
              (do (q, n) <- parseExpr f b1;
               match q with
               | None => Ok (qs, b1)
               | Some e => do b2 <- drop n b1; exprList_loop f b2 (qs ++ [raw_of e])
               end)).
    { specialize (HE b1). unfold good_expr in HE.
      destruct (parseExpr f b1) as [[q n]|e|w]; cbn [obind]; try (apply HE; simpl length in *; lia).
      destruct q as [e|]; [|unfold good_loop; lia].
      assert (Hn : (1 <= n <= length b1)%nat) by (apply HE; simpl length in *; lia).
      rewrite drop_le by lia. cbn [obind].
      specialize (HLL (skipn n b1) (qs ++ [raw_of e])). unfold good_loop in *.
      rewrite skipn_len in HLL.
      destruct (exprList_loop f (skipn n b1) (qs ++ [raw_of e])) as [[qs' b']|e'|w]; try (apply HLL; simpl length in *; lia).
      assert (length b' <= length b1 - n)%nat by (apply HLL; simpl length in *; lia). lia. }
    pose proof (nextToken_spec b1) as Hnt.
    destruct (nextToken b1) as [[tok|]|e|w]; try exact Hcont; [|exact Hnt].
    destruct (ttype tok =? tokParenClose); [unfold good_loop; lia|].
    destruct (ttype tok =? tokOr); [|exact Hcont].
    rewrite drop_le by lia. cbn [obind].
    specialize (HLL (skipn (length (tinput tok)) b1) (qs ++ [ROr])). unfold good_loop in *.
    rewrite skipn_len in HLL.
    destruct (exprList_loop f (skipn (length (tinput tok)) b1) (qs ++ [ROr])) as [[qs' b']|e'|w]; try (apply HLL; simpl length in *; lia).
    assert (length b' <= length b1 - length (tinput tok))%nat by (apply HLL; simpl length in *; lia). lia.
  Qed.

  Lemma parser_good : forall f, PE f /\ PL f /\ LL f.
  Proof.
    induction f as [|f [HE [HL HLL]]].
    - repeat split; intros x; intros; lia.
    - split; [apply parseExpr_step; assumption|]. split; [apply parseExprList_step; assumption|].
      apply exprList_loop_step; assumption.
  Qed.

  (** query.Parse: a query or an error; never a panic, never out of fuel *)
  Theorem parse_fine s : fine (parse rq rx_auto rcompile lang s).
  Proof.
    unfold parse, parse_with, parse_fuel.
    destruct (parser_good (3 * length s + 3)) as [_ [HL _]]. specialize (HL s (le_n _)). unfold good_list in HL.
    destruct (parseExprList _ s) as [[qs n]|e|w]; cbn [obind]; auto.
    destruct (n =? length s)%nat.
    - pose proof (parseOperators_fine qs) as Ho. destruct (parseOperators qs); simpl in *; auto.
    - rewrite drop_le by exact HL. simpl. fuel_ne.
  Qed.

  (** the same for any larger fuel: the bound is sufficient, not special *)
  Theorem parse_with_fine s f : (parse_fuel s <= f)%nat -> fine (parse_with rq rx_auto rcompile lang f s).
  Proof.
    intros Hf. unfold parse_with, parse_fuel in *.
    destruct (parser_good f) as [_ [HL _]]. specialize (HL s Hf). unfold good_list in HL.
    destruct (parseExprList f s) as [[qs n]|e|w]; cbn [obind]; auto.
    destruct (n =? length s)%nat.
    - pose proof (parseOperators_fine qs) as Ho. destruct (parseOperators qs); simpl in *; auto.
    - rewrite drop_le by exact HL. simpl. fuel_ne.
  Qed.
End Fine.

(** ------------------------------------------------------------------ the Go map iteration order is irrelevant *)

Lemma prefixb_both a b l : prefixb a l = true -> prefixb b l = true -> (length a <= length b)%nat -> prefixb a b = true.
Proof.
  revert b l. induction a as [|x a IH]; intros b l Ha Hb Hlen; simpl; [reflexivity|].
  destruct b as [|y b]; [simpl in Hlen; lia|]. destruct l as [|z l]; [discriminate|]. simpl in *.
  apply andb_prop in Ha as [Ha1 Ha2]. apply andb_prop in Hb as [Hb1 Hb2].
  apply N.eqb_eq in Ha1, Hb1. subst. rewrite N.eqb_refl. simpl. eapply IH; eauto. lia.
Qed.

Definition pref_eqb (p q : list N * N) : bool := list_eqb N.eqb (fst p) (fst q) && N.eqb (snd p) (snd q).
Definition prefixes_disjoint : bool :=
  forallb (fun p => forallb (fun q => pref_eqb p q || negb (prefixb (fst p) (fst q))) prefixes) prefixes.
Lemma prefixes_disjoint_true : prefixes_disjoint = true.
Proof. vm_compute. reflexivity. Qed.

Lemma list_eqb_N_eq a b : list_eqb N.eqb a b = true -> a = b.
Proof.
  revert b. induction a as [|x a IH]; destruct b as [|y b]; simpl; intros H; try discriminate; [reflexivity|].
  apply andb_prop in H as [H1 H2]. apply N.eqb_eq in H1. subst. f_equal. apply IH. exact H2.
Qed.

(** at most one entry of the [prefixes] map is a prefix of a given input: whichever order Go's map
    iteration takes, setType's loop finds the same entry as the model's [find] *)
Theorem prefixes_unambiguous inp p q :
  In p prefixes -> In q prefixes -> prefixb (fst p) inp = true -> prefixb (fst q) inp = true -> p = q.
Proof.
  intros Hp Hq Pp Pq. pose proof prefixes_disjoint_true as H. unfold prefixes_disjoint in H.
  rewrite forallb_forall in H.
  assert (Hpq : pref_eqb p q = true \/ pref_eqb q p = true).
  { destruct (Nat.le_ge_cases (length (fst p)) (length (fst q))) as [Hl|Hl].
    - left. pose proof (H p Hp) as H1. rewrite forallb_forall in H1. specialize (H1 q Hq).
      rewrite (prefixb_both _ _ _ Pp Pq Hl) in H1. simpl in H1. rewrite orb_false_r in H1. exact H1.
    - right. pose proof (H q Hq) as H1. rewrite forallb_forall in H1. specialize (H1 p Hp).
      rewrite (prefixb_both _ _ _ Pq Pp Hl) in H1. simpl in H1. rewrite orb_false_r in H1. exact H1. }
  assert (Heq : forall a b : list N * N, pref_eqb a b = true -> a = b).
  { intros [a1 a2] [b1 b2] E. unfold pref_eqb in E. simpl in E. apply andb_prop in E as [E1 E2].
    apply list_eqb_N_eq in E1. apply N.eqb_eq in E2. subst. reflexivity. }
  destruct Hpq as [E|E]; [apply Heq; exact E | symmetry; apply Heq; exact E].
Qed.
