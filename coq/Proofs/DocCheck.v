(** C09 — DocChecker / Builder.Add skip decision: the verdict does not depend on the checker's state. *)
From ZV Require Import Lib.Base Lib.Varint Model.Format Model.DocCheck.
Open Scope N_scope.


(** DocChecker_spec: whatever earlier documents left in the checker, the verdict is the stateless one *)
Lemma check_st_state_independent : forall st content max allow,
  fst (check_st st content max allow) = doc_check content max allow.
Proof.
  intros st content max allow. unfold doc_check, check_st.
  destruct content as [|b r]; [reflexivity|].
  destruct (nlen (b :: r) <? 3); [reflexivity|].
  destruct (has_nul (b :: r)); [reflexivity|].
  destruct ((nlen (b :: r) - 3 + 1 <=? max) || allow); reflexivity.
Qed.

Lemma builder_skip_state_independent : forall st sizeMax max content allow,
  fst (builder_skip_st st sizeMax max content allow) = builder_skip sizeMax max content allow.
Proof.
  intros. unfold builder_skip, builder_skip_st.
  destruct ((sizeMax <? nlen content) && negb allow); [reflexivity|].
  rewrite check_st_state_independent. symmetry. apply check_st_state_independent.
Qed.

(** every document of every sequence through one Builder gets the verdict it would get alone *)
Theorem check_seq_pointwise : forall docs st sizeMax max,
  check_seq st sizeMax max docs = map (fun d => builder_skip sizeMax max (fst d) (snd d)) docs.
Proof.
  induction docs as [|[c allow] r IH]; intros st sizeMax max; [reflexivity|].
  cbn [check_seq map fst snd].
  destruct (builder_skip_st st sizeMax max c allow) as [v st'] eqn:E.
  f_equal; [|apply IH].
  pose proof (builder_skip_state_independent st sizeMax max c allow) as H. rewrite E in H. exact H.
Qed.

(** a document that is not skipped is stored with its own content; a skipped one with the marker (Model/Format.v) *)
Lemma accepted_content : forall name content syms meta brs sub,
  has_nul content = false ->
  doc_content (mkDocIn name content SKIP_NONE true syms meta brs sub) = content.
Proof.
  intros. unfold doc_content, doc_skip. cbn [di_catmissing di_content di_skip]. rewrite H. reflexivity.
Qed.
