(** C25: proofs about Model/Stream.v — files exactly once in order, per-counter conservation,
    chunk budget, nothing left pending after the flushes. *)
From ZV Require Import Lib.Base Model.Stream.
From Coq Require Import ZifyBool ZifyNat ZifyN.
Open Scope Z_scope.

Definition cnt_at (i : nat) (s : stats) : Z := nth i (st_cnt s) 0.
Definition ev_cnt (i : nat) (e : event) : Z := cnt_at i (ev_stats e).
Definition msg_cnt (i : nat) (m : msg) : Z := match m_stats m with Some s => cnt_at i s | None => 0 end.
Fixpoint zsum {A} (f : A -> Z) (l : list A) : Z := match l with [] => 0 | x :: r => f x + zsum f r end.
Fixpoint fsize (c : list file) : N := match c with [] => 0%N | f :: r => (snd f + fsize r)%N end.
Definition chunk_ok (mx : N) (c : list file) : Prop := (fsize c < mx)%N \/ (length c <= 1)%nat.
Definition nonneg (s : stats) : Prop := Forall (fun x => 0 <= x) (st_cnt s).

Lemma zsum_app {A} (f : A -> Z) a b : zsum f (a ++ b) = zsum f a + zsum f b.
Proof. induction a as [|x a IH]; cbn; [reflexivity | rewrite IH; lia]. Qed.

Lemma zsum_flat_map {A B} (f : B -> Z) (g : A -> list B) l :
  zsum f (flat_map g l) = zsum (fun a => zsum f (g a)) l.
Proof. induction l as [|x l IH]; cbn; [reflexivity | rewrite zsum_app, IH; reflexivity]. Qed.

Lemma zsum_ext {A} (f g : A -> Z) l : (forall x, In x l -> f x = g x) -> zsum f l = zsum g l.
Proof. induction l as [|x l IH]; intros H; cbn; [reflexivity|]. rewrite H by (left; reflexivity). rewrite IH; [reflexivity|]. intros; apply H; right; assumption. Qed.

Lemma nth_nil_Z i : nth i (@nil Z) 0 = 0.
Proof. destruct i; reflexivity. Qed.

(** ---- Stats.Add / Stats.Zero *)
Lemma nth_vadd : forall a b i, nth i (vadd a b) 0 = nth i a 0 + nth i b 0.
Proof.
  induction a as [|x a IH]; intros b i; cbn [vadd].
  - rewrite nth_nil_Z. lia.
  - destruct b as [|y b]; [rewrite nth_nil_Z; lia|]. destruct i; cbn; [reflexivity | apply IH].
Qed.

Lemma cnt_add i s o : cnt_at i (stats_add s o) = cnt_at i s + cnt_at i o.
Proof. unfold cnt_at, stats_add. cbn. apply nth_vadd. Qed.

Lemma cnt_stats0 i : cnt_at i stats0 = 0.
Proof. unfold cnt_at, stats0. cbn. apply nth_nil_Z. Qed.

Lemma vadd_nonneg : forall a b, Forall (fun x => 0 <= x) a -> Forall (fun x => 0 <= x) b -> Forall (fun x => 0 <= x) (vadd a b).
Proof.
  induction a as [|x a IH]; intros b Ha Hb; cbn [vadd]; [exact Hb|].
  destruct b as [|y b]; [exact Ha|]. inversion Ha; inversion Hb; subst. constructor; [lia | apply IH; assumption].
Qed.

Lemma add_nonneg s o : nonneg s -> nonneg o -> nonneg (stats_add s o).
Proof. unfold nonneg, stats_add. cbn. apply vadd_nonneg. Qed.

Lemma nonneg0 : nonneg stats0.
Proof. constructor. Qed.

(** Zero() only says "no counter is positive"; on non-negative vectors that is "all counters are 0" *)
Lemma zero_nonneg_cnt s i : stats_zero s = true -> nonneg s -> cnt_at i s = 0.
Proof.
  unfold stats_zero, nonneg, cnt_at. generalize (st_cnt s) as l. intros l. revert i.
  induction l as [|x l IH]; intros i Hz Hn; [apply nth_nil_Z|].
  cbn in Hz. apply andb_prop in Hz. destruct Hz as [Hx Hz]. inversion Hn; subst.
  destruct i; cbn; [lia | apply IH; assumption].
Qed.

(** ---- chunker *)
Lemma chunk_go_concat mx : forall items buf sz, concat (chunk_go mx items buf sz) = buf ++ items.
Proof.
  induction items as [|it r IH]; intros buf sz; cbn [chunk_go].
  - destruct buf; cbn; [reflexivity | rewrite !app_nil_r; reflexivity].
  - destruct (mx <=? snd it + sz)%N; cbn [concat].
    + rewrite IH. reflexivity.
    + rewrite IH, <- app_assoc. reflexivity.
Qed.

Lemma chunk_go_nonempty mx : forall items buf sz, (items <> [] \/ buf <> []) -> chunk_go mx items buf sz <> [].
Proof.
  induction items as [|it r IH]; intros buf sz H; cbn [chunk_go].
  - destruct buf; [destruct H; congruence | discriminate].
  - destruct (mx <=? snd it + sz)%N; [discriminate|]. apply IH. right. destruct buf; discriminate.
Qed.

Lemma fsize_app a b : fsize (a ++ b) = (fsize a + fsize b)%N.
Proof. induction a as [|x a IH]; cbn; [reflexivity | rewrite IH; lia]. Qed.

Lemma chunk_go_budget mx : forall items buf sz, sz = fsize buf -> chunk_ok mx buf ->
  Forall (chunk_ok mx) (chunk_go mx items buf sz).
Proof.
  induction items as [|it r IH]; intros buf sz Hsz Hok; cbn [chunk_go].
  - destruct buf; constructor; [exact Hok | constructor].
  - destruct (mx <=? snd it + sz)%N eqn:E.
    + constructor; [exact Hok|]. apply IH; [cbn; lia | right; cbn; lia].
    + apply IH; [rewrite fsize_app; cbn; lia | left; rewrite fsize_app; cbn; lia].
Qed.

(** ---- gRPCChunkSender *)
Lemma mk_msgs_files e total : forall cs first sent, map m_files (mk_msgs e total first sent cs) = cs.
Proof. induction cs as [|c r IH]; intros first sent; cbn; [reflexivity | rewrite IH; reflexivity]. Qed.

Lemma mk_msgs_cnt_false i e total : forall cs sent, zsum (msg_cnt i) (mk_msgs e total false sent cs) = 0.
Proof. induction cs as [|c r IH]; intros sent; cbn; [reflexivity | rewrite IH; reflexivity]. Qed.

Lemma mk_msgs_cnt i e total cs sent : cs <> [] -> zsum (msg_cnt i) (mk_msgs e total true sent cs) = ev_cnt i e.
Proof. destruct cs as [|c r]; [congruence|]. intros _. cbn. rewrite mk_msgs_cnt_false. unfold msg_cnt, ev_cnt. cbn. lia. Qed.

Lemma grpc_files mx e : concat (map m_files (grpc_send mx e)) = ev_files e.
Proof.
  unfold grpc_send. destruct (ev_files e) as [|f fs] eqn:E; [reflexivity|].
  rewrite mk_msgs_files. unfold chunks. rewrite chunk_go_concat. reflexivity.
Qed.

Lemma grpc_cnt mx i e : zsum (msg_cnt i) (grpc_send mx e) = ev_cnt i e.
Proof.
  unfold grpc_send. destruct (ev_files e) as [|f fs] eqn:E.
  - cbn. unfold msg_cnt, ev_cnt. cbn. lia.
  - apply mk_msgs_cnt. apply chunk_go_nonempty. left. discriminate.
Qed.

Lemma grpc_budget mx e : Forall (fun m => chunk_ok mx (m_files m)) (grpc_send mx e).
Proof.
  unfold grpc_send. destruct (ev_files e) as [|f fs] eqn:E.
  - constructor; [right; cbn; lia | constructor].
  - apply Forall_forall. intros m Hm.
    assert (Hin : In (m_files m) (chunks mx (f :: fs))).
    { rewrite <- (mk_msgs_files e (length (f :: fs)) (chunks mx (f :: fs)) true 0%nat). apply in_map. exact Hm. }
    pose proof (chunk_go_budget mx (f :: fs) [] 0%N eq_refl (or_intror (Nat.le_0_l 1))) as B.
    rewrite Forall_forall in B. apply B. exact Hin.
Qed.

(** ---- samplingSender *)
Definition evs_files (l : list event) : list file := concat (map ev_files l).

Lemma sampler_send_files s e : evs_files (snd (sampler_send s e)) = ev_files e.
Proof.
  unfold sampler_send, evs_files. destruct (ev_files e) as [|f fs] eqn:E.
  - destruct (_ && _)%bool; reflexivity.
  - destruct (negb _); cbn [snd map concat ev_files]; rewrite ?E; apply app_nil_r.
Qed.

Lemma sampler_run_files : forall evs s, evs_files (snd (sampler_run s evs)) = evs_files evs.
Proof.
  induction evs as [|e r IH]; intros s; cbn [sampler_run]; [reflexivity|].
  pose proof (sampler_send_files s e) as H1. destruct (sampler_send s e) as [s1 o1].
  specialize (IH s1). destruct (sampler_run s1 r) as [s2 o2]. cbn [snd] in *.
  unfold evs_files in *. rewrite map_app, concat_app, H1, IH. reflexivity.
Qed.

Lemma sampler_flush_files s : evs_files (sampler_flush s) = [].
Proof. unfold sampler_flush. destruct (negb _); reflexivity. Qed.

(** invariant of one Send: what is forwarded plus what is held back equals what was held back plus the event *)
Lemma sampler_send_cnt i s e :
  zsum (ev_cnt i) (snd (sampler_send s e)) + cnt_at i (agg (fst (sampler_send s e))) = cnt_at i (agg s) + ev_cnt i e.
Proof.
  unfold sampler_send. destruct (ev_files e) as [|f fs].
  - destruct (_ && _)%bool; cbn [fst snd zsum agg]; unfold ev_cnt; cbn [ev_stats]; rewrite ?cnt_add, ?cnt_stats0; lia.
  - destruct (negb _); cbn [fst snd zsum agg]; unfold ev_cnt; cbn [ev_stats]; rewrite ?cnt_add, ?cnt_stats0; lia.
Qed.

Lemma sampler_send_nonneg s e : nonneg (agg s) -> nonneg (ev_stats e) -> nonneg (agg (fst (sampler_send s e))).
Proof.
  intros Hs He. unfold sampler_send. destruct (ev_files e) as [|f fs].
  - destruct (_ && _)%bool; cbn; [apply nonneg0 | apply add_nonneg; assumption].
  - destruct (negb _); cbn; [apply nonneg0 | exact Hs].
Qed.

Lemma sampler_run_cnt i : forall evs s,
  zsum (ev_cnt i) (snd (sampler_run s evs)) + cnt_at i (agg (fst (sampler_run s evs))) = cnt_at i (agg s) + zsum (ev_cnt i) evs.
Proof.
  induction evs as [|e r IH]; intros s; cbn [sampler_run]; [cbn; lia|].
  pose proof (sampler_send_cnt i s e) as H1. destruct (sampler_send s e) as [s1 o1].
  specialize (IH s1). destruct (sampler_run s1 r) as [s2 o2]. cbn [fst snd zsum] in *.
  rewrite zsum_app. lia.
Qed.

Lemma sampler_run_nonneg : forall evs s, nonneg (agg s) -> Forall (fun e => nonneg (ev_stats e)) evs ->
  nonneg (agg (fst (sampler_run s evs))).
Proof.
  induction evs as [|e r IH]; intros s Hs He; cbn [sampler_run]; [exact Hs|].
  inversion He; subst.
  pose proof (sampler_send_nonneg s e Hs H1) as H. destruct (sampler_send s e) as [s1 o1].
  specialize (IH s1 H H2). destruct (sampler_run s1 r) as [s2 o2]. exact IH.
Qed.

Lemma sampler_flush_cnt i s : nonneg (agg s) -> zsum (ev_cnt i) (sampler_flush s) = cnt_at i (agg s).
Proof.
  intros Hn. unfold sampler_flush. destruct (stats_zero (agg s)) eqn:Z; cbn.
  - symmetry. apply zero_nonneg_cnt; assumption.
  - unfold ev_cnt. cbn. lia.
Qed.

(** ---- the whole path *)
Lemma sampled_files evs : evs_files (sampled evs) = evs_files evs.
Proof.
  unfold sampled. pose proof (sampler_run_files evs sampler0) as H. destruct (sampler_run sampler0 evs) as [s out].
  cbn [snd] in H. unfold evs_files in *. rewrite map_app, concat_app. fold (evs_files (sampler_flush s)).
  rewrite sampler_flush_files, app_nil_r. exact H.
Qed.

Lemma sampled_cnt i evs : Forall (fun e => nonneg (ev_stats e)) evs ->
  zsum (ev_cnt i) (sampled evs) = zsum (ev_cnt i) evs.
Proof.
  intros Hn. unfold sampled. pose proof (sampler_run_cnt i evs sampler0) as H.
  pose proof (sampler_run_nonneg evs sampler0 nonneg0 Hn) as N.
  destruct (sampler_run sampler0 evs) as [s out]. cbn [fst snd] in *.
  rewrite zsum_app, (sampler_flush_cnt i s N). change (agg sampler0) with stats0 in H. rewrite cnt_stats0 in H. lia.
Qed.

Lemma deliver_files mx evs : concat (map m_files (deliver mx evs)) = evs_files evs.
Proof.
  unfold deliver. rewrite <- (sampled_files evs). generalize (sampled evs) as l. intros l.
  induction l as [|e l IH]; cbn; [reflexivity|].
  rewrite map_app, concat_app, grpc_files, IH. reflexivity.
Qed.

Lemma deliver_cnt mx i evs : Forall (fun e => nonneg (ev_stats e)) evs ->
  zsum (msg_cnt i) (deliver mx evs) = zsum (ev_cnt i) evs.
Proof.
  intros Hn. unfold deliver. rewrite zsum_flat_map.
  rewrite (zsum_ext _ (ev_cnt i)) by (intros; apply grpc_cnt). apply sampled_cnt, Hn.
Qed.

Lemma deliver_budget mx evs : Forall (fun m => chunk_ok mx (m_files m)) (deliver mx evs).
Proof.
  unfold deliver. generalize (sampled evs) as l. intros l. induction l as [|e l IH]; cbn; [constructor|].
  apply Forall_app. split; [apply grpc_budget | exact IH].
Qed.

(** before Flush: delivered + pending aggregate = produced (no non-negativity needed) *)
Lemma pending_accounted mx i evs :
  let '(s, out) := sampler_run sampler0 evs in
  zsum (msg_cnt i) (flat_map (grpc_send mx) out) + cnt_at i (agg s) = zsum (ev_cnt i) evs.
Proof.
  pose proof (sampler_run_cnt i evs sampler0) as H. destruct (sampler_run sampler0 evs) as [s out]. cbn [fst snd] in H.
  rewrite zsum_flat_map, (zsum_ext _ (ev_cnt i)) by (intros; apply grpc_cnt).
  change (agg sampler0) with stats0 in H. rewrite cnt_stats0 in H. lia.
Qed.
