(** Consequences of the invariant: mutual exclusion, skip reporting, cleanliness of the running set. *)
From ZV Require Import Lib.Base Model.IndexMutex Proofs.IndexMutexInv.

Lemma no_two_same_repo s t1 t2 n : Inv s -> pcs s t1 = WInF n -> pcs s t2 = WInF n -> t1 = t2.
Proof. intros I H1 H2. apply (i_own _ I t1 t2 n); [rewrite H1 | rewrite H2]; reflexivity. Qed.

(** while a goroutine holds the write lock (in particular inside Global's f) nobody else holds any lock *)
Lemma writer_excludes_all s t u : Inv s -> holds_w (pcs s t) = true -> u <> t ->
  holds_r (pcs s u) = false /\ holds_w (pcs s u) = false.
Proof.
  intros I Ht Hne. assert (Hw : writer s = Some t) by (apply (i_w _ I); exact Ht).
  split.
  - destruct (holds_r (pcs s u)) eqn:E; [|reflexivity]. apply (i_r _ I) in E.
    rewrite (i_rw _ I) in E by congruence. destruct E.
  - destruct (holds_w (pcs s u)) eqn:E; [|reflexivity]. apply (i_w _ I) in E. congruence.
Qed.

Definition in_f (p : pc) : bool := match p with WInF _ | GInF => true | _ => false end.
Lemma global_excludes_all s t u : Inv s -> pcs s t = GInF -> u <> t -> in_f (pcs s u) = false.
Proof.
  intros I Ht Hne. destruct (writer_excludes_all s t u I) as [H1 H2]; [rewrite Ht; reflexivity | exact Hne |].
  destruct (pcs s u); try reflexivity; discriminate.
Qed.

(** the check-and-set reports alreadyRunning exactly when another goroutine owns the name *)
Lemma skip_only_if_running s t n s' : Inv s -> pcs s t = WRLocked n -> step s (EMuLock t) = Some s' ->
  exists already, pcs s' t = WMu1 n already /\
    (already = true <-> exists u, u <> t /\ owns (pcs s u) = Some n) /\
    (already = true -> running s' = running s).
Proof.
  intros I Hp H. simpl in H. rewrite Hp in H. destruct (mu s); [discriminate|]. inversion H; subst s'. simpl.
  exists (memN n (running s)). rewrite upd_same. split; [reflexivity|]. split.
  - rewrite memN_In, (i_run _ I n). split.
    + intros (u & Hu). exists u. split; [|exact Hu]. intro; subst u. rewrite Hp in Hu. discriminate.
    + intros (u & _ & Hu). eauto.
  - intros ->. reflexivity.
Qed.

(** the skipped caller never touches the running set on its way out *)
Lemma skip_path_keeps_running s t n s' : pcs s t = WSkip n -> step s (ERUnlock t) = Some s' ->
  running s' = running s /\ pcs s' t = WRet false false.
Proof. intros Hp H. simpl in H. rewrite Hp in H. inversion H; subst s'. simpl. rewrite upd_same. auto. Qed.

(** the name is removed exactly by its owner's deferred delete, right after f ended *)
Lemma delete_by_owner s t n s' : Inv s -> pcs s t = WDone n -> step s (EMuLock t) = Some s' ->
  In n (running s) /\ ~ In n (running s') /\ forall m, m <> n -> (In m (running s') <-> In m (running s)).
Proof.
  intros I Hp H. simpl in H. rewrite Hp in H. destruct (mu s); [discriminate|]. inversion H; subst s'. simpl.
  split; [apply (i_run _ I); exists t; rewrite Hp; reflexivity|]. split.
  - rewrite in_removeN. tauto.
  - intros m Hm. rewrite in_removeN. tauto.
Qed.

Lemma quiescent_clean s : Inv s -> (forall t, pcs s t = Idle) -> running s = [] /\ readers s = [] /\ writer s = None /\ mu s = None.
Proof.
  intros I Hq. repeat split.
  - destruct (running s) as [|n l] eqn:E; [reflexivity|]. exfalso.
    assert (Hin : In n (running s)) by (rewrite E; left; reflexivity).
    apply (i_run _ I) in Hin. destruct Hin as (t & Ht). rewrite Hq in Ht. discriminate.
  - destruct (readers s) as [|t l] eqn:E; [reflexivity|]. exfalso.
    assert (Hin : In t (readers s)) by (rewrite E; left; reflexivity).
    apply (i_r _ I) in Hin. rewrite Hq in Hin. discriminate.
  - destruct (writer s) as [t|] eqn:E; [|reflexivity]. apply (i_w _ I) in E. rewrite Hq in E. discriminate.
  - destruct (mu s) as [t|] eqn:E; [|reflexivity]. apply (i_mu _ I) in E. rewrite Hq in E. discriminate.
Qed.

(** * trace-level: With returns true iff f was executed during the call *)
(** ghost: did goroutine t execute f since its last call *)
Definition ghost_step (g : N -> bool) (e : ev) : N -> bool :=
  match e with
  | ECallWith t _ | ECallGlobal t => fun u => if N.eqb u t then false else g u
  | EEnter t => fun u => if N.eqb u t then true else g u
  | _ => g
  end.
Definition ran_in_call (tr : list ev) (t : N) : bool := fold_left ghost_step tr (fun _ => false) t.

Definition ghost_ok (p : pc) (b : bool) : Prop :=
  match p with
  | WCalled _ | WRLocked _ | WMu1 _ _ | WSkip _ | WReady _ | GCalled | GLocked => b = false
  | WInF _ | WDone _ | WMu2 _ | WCleaned _ | GInF | GDone | GRet => b = true
  | WRet res ran => b = ran /\ res = ran
  | Idle => True
  end.

Lemma ghost_step_ok s g e s' : (forall t, ghost_ok (pcs s t) (g t)) -> step s e = Some s' ->
  forall t, ghost_ok (pcs s' t) (ghost_step g e t).
Proof.
  intros G H u.
  destruct e as [t n|t|t|t|t|t|t|t|t|t|t res]; simpl in H; simpl ghost_step;
    pose proof (G t) as Gt; pose proof (G u) as Gu;
    destruct (pcs s t) eqn:Ep; try discriminate;
    repeat match type of H with
           | context [match ?x with _ => _ end] => destruct x eqn:?; try discriminate
           end;
    inversion H; subst s'; simpl; unfold upd;
    (destruct (N.eqb u t) eqn:Eu; [apply N.eqb_eq in Eu; subst u | exact Gu]); simpl in *;
    repeat match goal with |- context [if ?b then _ else _] => destruct b end; simpl; intuition congruence.
Qed.

Lemma ghost_run tr : forall s g s', (forall t, ghost_ok (pcs s t) (g t)) -> run s tr = Some s' ->
  forall t, ghost_ok (pcs s' t) (fold_left ghost_step tr g t).
Proof.
  induction tr as [|e r IH]; intros s g s' G H; simpl in *.
  - inversion H; subst. exact G.
  - destruct (step s e) as [s1|] eqn:E; [|discriminate].
    apply (IH s1 (ghost_step g e) s'); [eapply ghost_step_ok; eauto | exact H].
Qed.

(** if the trace tr followed by "goroutine t returns res from With" is a run of the model then
    res = true iff t executed f since its call *)
Lemma skip_reported tr t res s s' :
  run init tr = Some s -> (exists r ran, pcs s t = WRet r ran) -> step s (ERet t res) = Some s' ->
  res = ran_in_call tr t.
Proof.
  intros H (r & ran & Hp) Hs.
  pose proof (ghost_run tr init (fun _ => false) s (fun _ => Logic.I) H t) as G.
  rewrite Hp in G. simpl in G. destruct G as [G1 G2].
  simpl in Hs. rewrite Hp in Hs. destruct (Bool.eqb r res) eqn:E; [|discriminate].
  apply Bool.eqb_prop in E. unfold ran_in_call. congruence.
Qed.
