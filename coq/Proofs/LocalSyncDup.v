(** C34, duplicate names: the seen-maps of discoverRepositories (byName / bySource) are threaded through the discovered
    repositories PER ENTRY — every repository is compared with every repository discovered before it, whether it was
    found under the same root or under an earlier one.  [raw_discovered] is the plain concatenation of what
    discoverRoot reports for each root, in argument order. *)
From ZV Require Import Lib.Base Model.LocalSync Proofs.LocalSync Proofs.LocalSyncConv.
From Coq Require Import Permutation.

Definition raw_discovered (tree : node) (roots : list (list str)) : list spec :=
  flat_map (discover_root tree) roots.

Lemma add_all_app : forall l acc acc', add_all acc l = Ok acc' -> acc' = acc ++ l.
Proof.
  induction l as [|s l IH]; intros acc acc' H; cbn in H.
  - inversion H; subst. rewrite app_nil_r. reflexivity.
  - destruct (existsb (fun p => str_eqb (sp_name p) (sp_name s)) acc); [discriminate|].
    destruct (existsb (fun p => str_eqb (normalize_source (sp_source p)) (normalize_source (sp_source s))) acc); [discriminate|].
    apply IH in H. rewrite H, <- app_assoc. reflexivity.
Qed.

Definition nsrc (s : spec) : str := normalize_source (sp_source s).

Lemma add_all_nodup_source : forall l acc acc',
  add_all acc l = Ok acc' -> NoDup (map nsrc acc) -> NoDup (map nsrc acc').
Proof.
  induction l as [|s l IH]; intros acc acc' H Hnd; cbn in H.
  - inversion H; subst. exact Hnd.
  - destruct (existsb (fun p => str_eqb (sp_name p) (sp_name s)) acc) eqn:E1; [discriminate|].
    destruct (existsb (fun p => str_eqb (normalize_source (sp_source p)) (normalize_source (sp_source s))) acc) eqn:E2; [discriminate|].
    apply IH in H; [exact H|]. rewrite map_app. cbn.
    apply NoDup_app_intro_ls; [exact Hnd|].
    intros Hin. apply in_map_iff in Hin as (p & Hp & Hin).
    assert (existsb (fun p => str_eqb (normalize_source (sp_source p)) (normalize_source (sp_source s))) acc = true).
    { apply existsb_exists. exists p. split; [exact Hin|]. apply ls_str_eqb_eq. exact Hp. }
    congruence.
Qed.

Lemma nodup_map_comp {A B C} (f : B -> C) (g : A -> B) (l : list A) : NoDup (map (fun x => f (g x)) l) -> NoDup (map g l).
Proof.
  induction l as [|a l IH]; cbn; intros H; [constructor|]. inversion H as [|? ? Ha Hn]; subst. constructor; [|exact (IH Hn)].
  intros Hin. apply Ha. apply in_map_iff in Hin as (y & Ey & Hy). apply in_map_iff. exists y. split; [rewrite Ey; reflexivity|exact Hy].
Qed.

Lemma add_all_not_panic : forall l acc why, add_all acc l <> Panic why.
Proof.
  induction l as [|s l IH]; intros acc why; cbn; [discriminate|].
  destruct (existsb (fun p => str_eqb (sp_name p) (sp_name s)) acc); [discriminate|].
  destruct (existsb (fun p => str_eqb (normalize_source (sp_source p)) (normalize_source (sp_source s))) acc); [discriminate|].
  apply IH.
Qed.

(** the only errors of the duplicate check *)
Lemma add_all_err : forall l acc e, add_all acc l = Err e -> e = E_DUP_NAME \/ e = E_DUP_SOURCE.
Proof.
  induction l as [|s l IH]; intros acc e H; cbn in H; [discriminate|].
  destruct (existsb (fun p => str_eqb (sp_name p) (sp_name s)) acc); [inversion H; auto|].
  destruct (existsb (fun p => str_eqb (normalize_source (sp_source p)) (normalize_source (sp_source s))) acc); [inversion H; auto|].
  eapply IH; exact H.
Qed.

Lemma discover_roots_app tree : forall roots acc acc',
  discover_roots tree acc roots = Ok acc' -> acc' = acc ++ raw_discovered tree roots.
Proof.
  induction roots as [|r roots IH]; intros acc acc' H; cbn in H.
  - inversion H; subst. cbn. rewrite app_nil_r. reflexivity.
  - destruct (nameless (discover_root tree r)); [discriminate|].
    destruct (add_all acc (discover_root tree r)) as [a|e|e] eqn:E; cbn in H; try discriminate.
    apply add_all_app in E. subst a. apply IH in H. rewrite H. unfold raw_discovered. cbn [flat_map].
    rewrite app_assoc. reflexivity.
Qed.

Lemma discover_roots_nodup_source tree : forall roots acc acc',
  discover_roots tree acc roots = Ok acc' -> NoDup (map nsrc acc) -> NoDup (map nsrc acc').
Proof.
  induction roots as [|r roots IH]; intros acc acc' H Hnd; cbn in H.
  - inversion H; subst. exact Hnd.
  - destruct (nameless (discover_root tree r)); [discriminate|].
    destruct (add_all acc (discover_root tree r)) as [a|e|e] eqn:E; cbn in H; try discriminate.
    eapply IH; [exact H|]. eapply add_all_nodup_source; eauto.
Qed.

Lemma discover_roots_not_panic tree : forall roots acc why, discover_roots tree acc roots <> Panic why.
Proof.
  induction roots as [|r roots IH]; intros acc why; cbn; [discriminate|].
  destruct (nameless (discover_root tree r)); [discriminate|].
  destruct (add_all acc (discover_root tree r)) as [a|e|e] eqn:E; cbn; [apply IH|discriminate|].
  exfalso. exact (add_all_not_panic _ _ _ E).
Qed.

Lemma discover_roots_err tree : forall roots acc e,
  discover_roots tree acc roots = Err e -> e = E_DUP_NAME \/ e = E_DUP_SOURCE \/ e = E_ROOT.
Proof.
  induction roots as [|r roots IH]; intros acc e H; cbn in H; [discriminate|].
  destruct (nameless (discover_root tree r)); [inversion H; auto|].
  destruct (add_all acc (discover_root tree r)) as [a|e'|e'] eqn:E; cbn in H.
  - eapply IH; exact H.
  - inversion H; subst. destruct (add_all_err _ _ _ E); auto.
  - discriminate.
Qed.

(** Successful discovery returns EVERY repository reported under any of the roots (nothing is dropped, nothing
    merged), and among all of them — inside one root as well as across roots — names and sources are pairwise
    distinct. *)
Theorem discover_ok_all_distinct : forall tree roots specs,
  discover tree roots = Ok specs ->
  Permutation (raw_discovered tree roots) specs /\
  NoDup (map sp_name (raw_discovered tree roots)) /\
  NoDup (map (fun s => normalize_source (sp_source s)) (raw_discovered tree roots)).
Proof.
  intros tree roots specs. unfold discover.
  destruct (resolve_roots tree [] roots); [|discriminate].
  destruct (discover_roots tree [] roots) as [l|e|e] eqn:E; cbn; intros H; inversion H; subst.
  pose proof (discover_roots_app _ _ _ _ E) as Hl. cbn in Hl. subst l.
  split; [apply sort_by_name_perm|]. split.
  - eapply discover_roots_nodup; [exact E|constructor].
  - change (NoDup (map nsrc (raw_discovered tree roots))). eapply discover_roots_nodup_source; [exact E|constructor].
Qed.

(** sources as planPrune keys them (a final ".git" component dropped) are pairwise distinct, hence the sources too *)
Theorem discover_ok_distinct_sources : forall tree roots specs,
  discover tree roots = Ok specs -> NoDup (map (fun s => normalize_source (sp_source s)) specs).
Proof.
  intros tree roots specs H. destruct (discover_ok_all_distinct _ _ _ H) as (Hp & _ & Hn).
  eapply Permutation_NoDup; [apply Permutation_map; exact Hp|exact Hn].
Qed.

Theorem discover_ok_distinct_raw_sources : forall tree roots specs,
  discover tree roots = Ok specs -> NoDup (map sp_source specs).
Proof.
  intros tree roots specs H. apply (nodup_map_comp normalize_source sp_source). exact (discover_ok_distinct_sources _ _ _ H).
Qed.

Lemma discover_not_panic tree roots why : discover tree roots <> Panic why.
Proof.
  unfold discover. destruct (resolve_roots tree [] roots); [|discriminate].
  destruct (discover_roots tree [] roots) as [l|e|e] eqn:E; cbn; try discriminate.
  exfalso. exact (discover_roots_not_panic _ _ _ _ E).
Qed.

Lemma discover_err_codes tree roots e :
  discover tree roots = Err e -> e = E_DUP_NAME \/ e = E_DUP_SOURCE \/ e = E_ROOT.
Proof.
  unfold discover. destruct (resolve_roots tree [] roots); [|intros H; inversion H; auto].
  destruct (discover_roots tree [] roots) as [l|e'|e'] eqn:E; cbn; intros H; inversion H; subst.
  exact (discover_roots_err _ _ _ _ E).
Qed.

Lemma nodup_split_neq {A} (f : spec -> A) l1 s1 l2 s2 l3 :
  NoDup (map f (l1 ++ s1 :: l2 ++ s2 :: l3)) -> f s1 <> f s2.
Proof.
  rewrite map_app. cbn [map]. intros H Heq. apply NoDup_remove_2 in H. apply H.
  apply in_or_app. right. rewrite map_app. apply in_or_app. right. cbn. left. symmetry. exact Heq.
Qed.

(** Any two discovered repositories — at ANY two positions of the concatenated reports, so under the same root or
    under different roots — that would get the same name make discovery fail (with one of the three discovery
    errors), and then the command performs no shard operation in either mode: the index is unchanged. *)
Theorem any_name_collision_fails : forall tree roots l1 s1 l2 s2 l3,
  raw_discovered tree roots = l1 ++ s1 :: l2 ++ s2 :: l3 ->
  sp_name s1 = sp_name s2 ->
  exists e, discover tree roots = Err e /\ (e = E_DUP_NAME \/ e = E_DUP_SOURCE \/ e = E_ROOT) /\
    forall m w inv,
      shard_ops (r_ops (run_sync m tree w roots inv)) = [] /\
      apply_ops inv (r_ops (run_sync m tree w roots inv)) = inv /\
      r_out (run_sync m tree w roots inv) = [] /\ r_status (run_sync m tree w roots inv) = e.
Proof.
  intros tree roots l1 s1 l2 s2 l3 Hraw Hname.
  destruct (discover tree roots) as [specs|e|e] eqn:Ed.
  - exfalso. destruct (discover_ok_all_distinct _ _ _ Ed) as (_ & Hnd & _).
    rewrite Hraw in Hnd. exact (nodup_split_neq sp_name _ _ _ _ _ Hnd Hname).
  - exists e. split; [reflexivity|]. split; [apply (discover_err_codes _ _ _ Ed)|].
    intros m w inv. apply discovery_error_no_shard_ops. exact Ed.
  - exfalso. exact (discover_not_panic _ _ _ Ed).
Qed.

(** the same for one directory reached twice (overlapping roots) *)
Theorem any_source_collision_fails : forall tree roots l1 s1 l2 s2 l3,
  raw_discovered tree roots = l1 ++ s1 :: l2 ++ s2 :: l3 ->
  normalize_source (sp_source s1) = normalize_source (sp_source s2) ->
  exists e, discover tree roots = Err e /\ (e = E_DUP_NAME \/ e = E_DUP_SOURCE \/ e = E_ROOT).
Proof.
  intros tree roots l1 s1 l2 s2 l3 Hraw Hsrc.
  destruct (discover tree roots) as [specs|e|e] eqn:Ed.
  - exfalso. destruct (discover_ok_all_distinct _ _ _ Ed) as (_ & _ & Hnd).
    rewrite Hraw in Hnd. exact (nodup_split_neq (fun s => normalize_source (sp_source s)) _ _ _ _ _ Hnd Hsrc).
  - exists e. split; [reflexivity|]. apply (discover_err_codes _ _ _ Ed).
  - exfalso. exact (discover_not_panic _ _ _ Ed).
Qed.

(** discovered names are never empty *)
Lemma add_all_incl : forall l acc acc', add_all acc l = Ok acc' -> forall s, In s acc' -> In s acc \/ In s l.
Proof.
  intros l acc acc' H s Hs. apply add_all_app in H. subst acc'. apply in_app_or in Hs. exact Hs.
Qed.

Lemma nameless_false l : nameless l = false -> forall s, In s l -> sp_name s <> [].
Proof.
  unfold nameless. intros H s Hs E.
  assert (existsb (fun s => match sp_name s with [] => true | _ => false end) l = true).
  { apply existsb_exists. exists s. split; [exact Hs|]. rewrite E. reflexivity. }
  congruence.
Qed.

Lemma discover_roots_named tree : forall roots acc acc',
  discover_roots tree acc roots = Ok acc' -> (forall s, In s acc -> sp_name s <> []) -> forall s, In s acc' -> sp_name s <> [].
Proof.
  induction roots as [|r roots IH]; intros acc acc' H Hacc; cbn in H.
  - inversion H; subst. exact Hacc.
  - destruct (nameless (discover_root tree r)) eqn:En; [discriminate|].
    destruct (add_all acc (discover_root tree r)) as [a|e|e] eqn:E; cbn in H; try discriminate.
    eapply IH; [exact H|]. intros s Hs. destruct (add_all_incl _ _ _ E s Hs) as [H1|H1]; [exact (Hacc s H1)|].
    exact (nameless_false _ En s H1).
Qed.

Theorem discover_ok_named : forall tree roots specs,
  discover tree roots = Ok specs -> forall s, In s specs -> sp_name s <> [].
Proof.
  intros tree roots specs. unfold discover.
  destruct (resolve_roots tree [] roots); [|discriminate].
  destruct (discover_roots tree [] roots) as [l|e|e] eqn:E; cbn; intros H; inversion H; subst.
  intros s Hs. apply (discover_roots_named _ _ _ _ E); [intros s' []|].
  eapply Permutation_in; [apply Permutation_sym; apply sort_by_name_perm|exact Hs].
Qed.

(** ------------------------------------------------------------------ the bare/working-tree twin rule
    A bare repository "<q>/<x>.git" and a working tree "<q>/<x>" (same directory [q] below the same root, or the same
    relative path below two roots) get the same name. *)
Lemma has_suffix_app (a suf : str) : has_suffix (a ++ suf) suf = true.
Proof.
  unfold has_suffix. rewrite rev_app_distr.
  induction (rev suf) as [|c r IH]; cbn; [reflexivity|]. rewrite N.eqb_refl. exact IH.
Qed.

Lemma trim_suffix_app (a suf : str) : trim_suffix (a ++ suf) suf = a.
Proof.
  unfold trim_suffix. rewrite has_suffix_app. rewrite app_length.
  replace (length a + length suf - length suf) with (length a) by lia.
  rewrite firstn_app, firstn_all, Nat.sub_diag. cbn. apply app_nil_r.
Qed.

Lemma join_slash_snoc (q : list str) (x : str) :
  join_slash (q ++ [x]) = match q with [] => x | _ => join_slash q ++ slash :: x end.
Proof.
  induction q as [|a q IH]; [reflexivity|].
  cbn [app]. destruct q as [|b q]; [reflexivity|].
  change (join_slash (a :: (b :: q) ++ [x])) with (a ++ slash :: join_slash ((b :: q) ++ [x])).
  rewrite IH. change (join_slash (a :: b :: q)) with (a ++ slash :: join_slash (b :: q)).
  rewrite <- app_assoc. reflexivity.
Qed.

Theorem bare_twin_same_name : forall root root' (q : list str) (x : str),
  sp_name (spec_of root (q ++ [x ++ dot_git], true)) = sp_name (spec_of root' (q ++ [x], false)).
Proof.
  intros root root' q x. unfold spec_of. cbn [sp_name].
  destruct (q ++ [x ++ dot_git]) eqn:E1; [destruct q; discriminate|]. rewrite <- E1.
  destruct (q ++ [x]) eqn:E2; [destruct q; discriminate|]. rewrite <- E2.
  rewrite !join_slash_snoc. destruct q as [|a q].
  - apply trim_suffix_app.
  - replace (join_slash (a :: q) ++ slash :: x ++ dot_git) with ((join_slash (a :: q) ++ slash :: x) ++ dot_git)
      by (rewrite <- app_assoc; reflexivity).
    apply trim_suffix_app.
Qed.

(** whenever the walk of ONE root reports both twins (in either order, anywhere below the root, whatever else is
    discovered and whichever other roots are given before or after), the command fails before any shard operation *)
Theorem same_root_twins_fail : forall tree before root after n q x l1 h1 l2 h2 l3,
  lookup tree root = Some n ->
  walk (last root []) [] n = l1 ++ h1 :: l2 ++ h2 :: l3 ->
  (h1 = (q ++ [x], false) /\ h2 = (q ++ [x ++ dot_git], true)) \/
  (h1 = (q ++ [x ++ dot_git], true) /\ h2 = (q ++ [x], false)) ->
  exists e, discover tree (before ++ root :: after) = Err e /\ (e = E_DUP_NAME \/ e = E_DUP_SOURCE \/ e = E_ROOT) /\
    forall m w inv,
      shard_ops (r_ops (run_sync m tree w (before ++ root :: after) inv)) = [] /\
      apply_ops inv (r_ops (run_sync m tree w (before ++ root :: after) inv)) = inv /\
      r_out (run_sync m tree w (before ++ root :: after) inv) = [] /\
      r_status (run_sync m tree w (before ++ root :: after) inv) = e.
Proof.
  intros tree before root after n q x l1 h1 l2 h2 l3 Hl Hw Htw.
  apply (any_name_collision_fails tree (before ++ root :: after)
           (raw_discovered tree before ++ map (spec_of root) l1) (spec_of root h1)
           (map (spec_of root) l2) (spec_of root h2)
           (map (spec_of root) l3 ++ raw_discovered tree after)).
  - unfold raw_discovered. rewrite flat_map_app. cbn [flat_map]. unfold discover_root at 2. rewrite Hl, Hw.
    rewrite map_app. cbn [map]. rewrite map_app. cbn [map]. rewrite <- !app_assoc. cbn [app].
    rewrite <- !app_assoc. reflexivity.
  - destruct Htw as [[-> ->] | [-> ->]]; [symmetry|]; apply bare_twin_same_name.
Qed.
