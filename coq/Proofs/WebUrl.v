(** C36 — the URL filter model (Model/WebUrl.v) only lets through
    URLs that the user agent reads as relative references or http/https/mailto URLs. *)
From Coq Require Import String.
From ZV Require Import Lib.Base Model.Web Model.WebUrl.
Open Scope N_scope.

Definition keep (b : N) : bool := negb (is_tabnl b).
Definition scan (l : bytes) : option bytes := scheme_rest (filter keep l).

Lemma scan_none : forall l, before_colon l = None -> scan l = None.
Proof.
  induction l as [|b r IH]; intros H; [reflexivity|]. cbn [before_colon] in H.
  destruct (b =? 58) eqn:E; [discriminate H|].
  destruct (before_colon r) as [p|]; [discriminate H|]. specialize (IH eq_refl).
  unfold scan in *. cbn [filter]. destruct (keep b); [|exact IH].
  cbn [scheme_rest]. rewrite E. destruct (is_scheme_char b); [rewrite IH; reflexivity | reflexivity].
Qed.

Lemma scan_some : forall l p sch, before_colon l = Some p -> scan l = Some sch ->
  sch = map lower (filter keep p) /\ forallb is_scheme_char (filter keep p) = true.
Proof.
  induction l as [|b r IH]; intros p sch Hp Hs; [discriminate Hp|]. cbn [before_colon] in Hp.
  destruct (b =? 58) eqn:E.
  - injection Hp as <-. apply N.eqb_eq in E. subst b. unfold scan in Hs. cbn in Hs. injection Hs as <-. split; reflexivity.
  - destruct (before_colon r) as [p'|] eqn:Hr; [|discriminate Hp]. cbn in Hp. injection Hp as <-.
    unfold scan in Hs. cbn [filter] in *. destruct (keep b) eqn:K.
    + cbn [scheme_rest] in Hs. rewrite E in Hs. destruct (is_scheme_char b) eqn:C; [|discriminate Hs].
      destruct (scheme_rest (filter keep r)) as [sch'|] eqn:Hs'; [|discriminate Hs]. cbn in Hs. injection Hs as <-.
      destruct (IH p' sch' eq_refl Hs') as [-> Hall]. cbn [map forallb]. rewrite C, Hall. split; reflexivity.
    + apply (IH p' sch eq_refl Hs).
Qed.

Lemma strip_some : forall s p, before_colon s = Some p ->
  exists j p2, p = (j ++ p2)%list /\ forallb (fun b => b <=? 32) j = true /\ before_colon (strip_c0 s) = Some p2.
Proof.
  induction s as [|b r IH]; intros p Hp; [discriminate Hp|]. cbn [strip_c0].
  destruct (b <=? 32) eqn:L.
  - cbn [before_colon] in Hp. destruct (b =? 58) eqn:E; [apply N.eqb_eq in E; apply N.leb_le in L; lia|].
    destruct (before_colon r) as [p'|] eqn:Hr; [|discriminate Hp]. cbn in Hp. injection Hp as <-.
    destruct (IH p' eq_refl) as (j & p2 & -> & Hj & Hb). exists (b :: j), p2. cbn [forallb app]. rewrite L, Hj. repeat split. exact Hb.
  - exists [], p. repeat split. exact Hp.
Qed.

Lemma strip_none : forall s, before_colon s = None -> before_colon (strip_c0 s) = None.
Proof.
  induction s as [|b r IH]; intros H; [reflexivity|]. cbn [strip_c0]. destruct (b <=? 32); [|exact H].
  cbn [before_colon] in H. destruct (b =? 58); [discriminate H|]. destruct (before_colon r); [discriminate H|]. apply IH. reflexivity.
Qed.

Lemma ua_scheme_scan : forall s sch, ua_scheme s = Some sch -> scan (strip_c0 s) = Some sch.
Proof.
  intros s sch H. unfold ua_scheme, ua_clean in H. unfold scan. fold keep in H.
  change (fun b : N => negb (is_tabnl b)) with keep in H.
  destruct (filter keep (strip_c0 s)) as [|b r]; [discriminate H|].
  destruct (is_alpha b) eqn:A; [|discriminate H].
  destruct (scheme_rest r) as [sch0|] eqn:Hr; [|discriminate H]. cbn in H. injection H as <-.
  cbn [scheme_rest].
  assert (E : (b =? 58) = false).
  { apply N.eqb_neq. intro Hb. subst b. vm_compute in A. discriminate A. }
  rewrite E. unfold is_scheme_char. rewrite A. cbn [orb]. rewrite Hr. reflexivity.
Qed.

Definition is_lower_alpha (c : N) : bool := (97 <=? c) && (c <=? 122).

Lemma lower_alpha : forall b c, is_lower_alpha c = true -> lower b = c -> is_alpha b = true.
Proof.
  intros b c Hc Hl. unfold lower in Hl. unfold is_alpha. unfold is_upper in Hl. unfold is_lower_alpha in Hc.
  destruct ((65 <=? b) && (b <=? 90)) eqn:U; [reflexivity|]. subst c. rewrite Hc. apply orb_true_r.
Qed.

Lemma fold_eq_cases : forall t p, forallb is_lower_alpha t = true -> fold_eq p t = true ->
  In 197 p \/ (map lower p = t /\ forallb is_alpha p = true).
Proof.
  induction t as [|c tr IH]; intros p Ht Hf.
  - destruct p; [right; split; reflexivity | discriminate Hf].
  - cbn [forallb] in Ht. apply andb_true_iff in Ht. destruct Ht as [Hc Htr].
    destruct p as [|b pr]; [discriminate Hf|]. cbn [fold_eq] in Hf.
    destruct (lower b =? c) eqn:E.
    + apply N.eqb_eq in E. destruct (IH pr Htr Hf) as [Hin | [Hm Ha]].
      * left. right. exact Hin.
      * right. cbn [map forallb]. rewrite Hm, Ha, E, (lower_alpha b c Hc E). split; reflexivity.
    + destruct pr as [|b2 pr2]; [discriminate Hf|].
      apply andb_true_iff in Hf. destruct Hf as [Hf _]. apply andb_true_iff in Hf. destruct Hf as [Hf _].
      apply andb_true_iff in Hf. destruct Hf as [_ Hb]. apply N.eqb_eq in Hb. left. left. exact Hb.
Qed.

Lemma allowed_cases : forall p, allowed_scheme p = true ->
  In 197 p \/ (forallb is_alpha p = true /\
               (beqb (map lower p) (str "http") || beqb (map lower p) (str "https") || beqb (map lower p) (str "mailto")) = true).
Proof.
  intros p H. unfold allowed_scheme in H.
  apply orb_true_iff in H. destruct H as [H | H]; [apply orb_true_iff in H; destruct H as [H | H]|];
    (apply fold_eq_cases in H; [|vm_compute; reflexivity]);
    (destruct H as [H | [Hm Ha]]; [left; exact H | right; split; [exact Ha | rewrite Hm; vm_compute; reflexivity]]).
Qed.

Lemma in_filter_keep : forall x l, In x l -> keep x = true -> In x (filter keep l).
Proof. intros x l Hin Hk. apply filter_In. split; assumption. Qed.

Lemma forallb_in_false : forall (f : N -> bool) l x, forallb f l = true -> In x l -> f x = false -> False.
Proof. intros f l x Hall Hin Hf. rewrite forallb_forall in Hall. rewrite (Hall x Hin) in Hf. discriminate Hf. Qed.

Lemma filter_keep_alpha : forall l, forallb is_alpha l = true -> filter keep l = l.
Proof.
  induction l as [|b r IH]; intros H; [reflexivity|]. cbn [forallb] in H. apply andb_true_iff in H. destruct H as [Hb Hr].
  cbn [filter]. assert (K : keep b = true).
  { unfold keep, is_tabnl. unfold is_alpha in Hb.
    destruct (N.eqb_spec b 9) as [->|]; [vm_compute in Hb; discriminate Hb|].
    destruct (N.eqb_spec b 10) as [->|]; [vm_compute in Hb; discriminate Hb|].
    destruct (N.eqb_spec b 13) as [->|]; [vm_compute in Hb; discriminate Hb|]. reflexivity. }
  rewrite K, (IH Hr). reflexivity.
Qed.

Theorem url_filter_harmless : forall s, url_harmless (url_filter s) = true.
Proof.
  intros s. unfold url_filter. destruct (is_safe_url s) eqn:Hsafe; [|vm_compute; reflexivity].
  unfold url_harmless. destruct (ua_scheme s) as [sch|] eqn:Hsch; [|reflexivity].
  apply ua_scheme_scan in Hsch. unfold is_safe_url in Hsafe.
  destruct (before_colon s) as [p|] eqn:Hp.
  2:{ rewrite (scan_none _ (strip_none s Hp)) in Hsch. discriminate Hsch. }
  destruct (strip_some s p Hp) as (j & p2 & -> & Hj & Hb2).
  destruct (scan_some _ p2 sch Hb2 Hsch) as [-> Hall].
  assert (Hbad : forall x, In x (j ++ p2)%list -> (x <=? 32) = false -> keep x = true -> is_scheme_char x = false -> False).
  { intros x Hin Hgt Hk Hns. apply in_app_or in Hin. destruct Hin as [Hin | Hin].
    - exact (forallb_in_false _ _ _ Hj Hin Hgt).
    - exact (forallb_in_false _ _ _ Hall (in_filter_keep _ _ Hin Hk) Hns). }
  destruct (existsb (N.eqb 47) (j ++ p2)) eqn:Hslash.
  - exfalso. apply existsb_exists in Hslash. destruct Hslash as (x & Hin & Hx). apply N.eqb_eq in Hx. subst x.
    apply (Hbad 47 Hin); reflexivity.
  - destruct (allowed_cases _ Hsafe) as [H197 | [Halpha Hallow]].
    + exfalso. apply (Hbad 197 H197); reflexivity.
    + destruct j as [|x j'].
      * cbn [app] in *. rewrite (filter_keep_alpha p2 Halpha). exact Hallow.
      * exfalso. cbn [app forallb] in *. apply andb_true_iff in Halpha. destruct Halpha as [Hax _].
        apply andb_true_iff in Hj. destruct Hj as [Hx _]. unfold is_alpha in Hax. apply N.leb_le in Hx.
        apply orb_true_iff in Hax. destruct Hax as [Hax | Hax]; apply andb_true_iff in Hax; destruct Hax as [Hlo _];
          apply N.leb_le in Hlo; lia.
Qed.
