(** Proofs about Model/Catfile.v (C14): the cat-file reader refines a simple abstract machine that
    hands out each blob's bytes in order, for every plan of Next / Read calls; the content slab never
    hands out overlapping regions. *)
From ZV Require Import Lib.Base Model.DirWalk Model.Catfile Model.GitWalk.

(** ---------- small string facts *)

Definition no_byte (b : N) (l : cbytes) : Prop := ~ In b l.

Lemma no_byte_cons : forall b c l, no_byte b (c :: l) -> c <> b /\ no_byte b l.
Proof. intros b c l H. split; [intro E; apply H; left; exact E|intro E; apply H; right; exact E]. Qed.

Lemma split_nl_app : forall h rest, no_byte 10 h -> split_nl (h ++ 10%N :: rest) = Some (h, rest).
Proof.
  induction h as [|c h IH]; intros rest H; cbn; [reflexivity|].
  apply no_byte_cons in H. destruct H as [Hc Hh].
  destruct (N.eqb c 10) eqn:E; [apply N.eqb_eq in E; contradiction|]. rewrite IH by assumption. reflexivity.
Qed.

Lemma after_last_space_aux_nospace : forall l cur, no_byte 32 l -> after_last_space_aux l cur = cur.
Proof.
  induction l as [|c l IH]; intros cur H; cbn; [reflexivity|].
  apply no_byte_cons in H. destruct H as [Hc Hl].
  destruct (N.eqb c 32) eqn:E; [apply N.eqb_eq in E; contradiction|]. apply IH. assumption.
Qed.

Lemma after_last_space_aux_app : forall a ds cur,
  no_byte 32 ds -> after_last_space_aux (a ++ 32%N :: ds) cur = Some ds.
Proof.
  induction a as [|c a IH]; intros ds cur H; cbn.
  - apply after_last_space_aux_nospace. assumption.
  - destruct (N.eqb c 32); apply IH; assumption.
Qed.

Lemma list_eqb_N_eq : forall a b : cbytes, list_eqb N.eqb a b = true -> a = b.
Proof.
  induction a as [|x a IH]; destruct b as [|y b]; cbn; intro H; try reflexivity; try discriminate.
  apply andb_true_iff in H. destruct H as [H1 H2]. apply N.eqb_eq in H1. subst. f_equal. apply IH. assumption.
Qed.

Lemma list_eqb_N_refl : forall a : cbytes, list_eqb N.eqb a a = true.
Proof. induction a as [|x a IH]; cbn; [reflexivity|]. rewrite N.eqb_refl. exact IH. Qed.

Lemma has_suffix_app : forall suf x, has_suffix suf (x ++ suf) = true.
Proof.
  intros suf x. unfold has_suffix. rewrite app_length.
  replace (length x + length suf - length suf) with (length x) by lia.
  rewrite skipn_app, skipn_all, Nat.sub_diag. cbn [skipn app].
  rewrite list_eqb_N_refl. rewrite andb_true_r. apply Nat.leb_le. lia.
Qed.

Lemma last_app_nonempty : forall (a b : cbytes) d, b <> [] -> last (a ++ b) d = last b d.
Proof.
  induction a as [|x a IH]; intros b d H; [reflexivity|]. cbn [app].
  destruct (a ++ b) eqn:E.
  - destruct a; destruct b; try contradiction; discriminate.
  - rewrite <- E. cbn. rewrite E. rewrite <- E. apply IH. assumption.
Qed.

Lemma has_suffix_last : forall suf l d, suf <> [] -> has_suffix suf l = true -> last l d = last suf d.
Proof.
  intros suf l d Hne H. unfold has_suffix in H. apply andb_true_iff in H. destruct H as [_ H].
  apply list_eqb_N_eq in H. rewrite <- (firstn_skipn (length l - length suf) l), H.
  apply last_app_nonempty. assumption.
Qed.

Definition all_digits (ds : cbytes) : Prop := Forall (fun c => is_digit c = true) ds.

Lemma digit_not_space : forall c, is_digit c = true -> c <> 32%N /\ c <> 10%N /\ c <> 45%N /\ c <> 43%N /\ c <> 103%N /\ c <> 100%N.
Proof. intros c H. unfold is_digit in H. apply andb_true_iff in H. destruct H as [H1 H2]. apply N.leb_le in H1. apply N.leb_le in H2. lia. Qed.

Lemma all_digits_no_byte : forall ds b, all_digits ds -> (b < 48 \/ 57 < b)%N -> no_byte b ds.
Proof.
  intros ds b H Hb Hin. unfold all_digits in H. rewrite Forall_forall in H. specialize (H _ Hin).
  unfold is_digit in H. apply andb_true_iff in H. destruct H as [H1 H2]. apply N.leb_le in H1. apply N.leb_le in H2. lia.
Qed.

Lemma atoi_digits : forall ds v,
  ds <> [] -> all_digits ds -> digits_value ds 0 = Some v -> (v <= max_int)%Z -> atoi ds = Some v.
Proof.
  intros ds v Hne Hd Hv Hmax. unfold atoi. destruct ds as [|c r]; [contradiction|].
  inversion Hd as [|x l Hc Hr]; subst. destruct (digit_not_space c Hc) as (_ & _ & H45 & H43 & _).
  destruct (N.eqb c 45) eqn:E1; [apply N.eqb_eq in E1; contradiction|].
  destruct (N.eqb c 43) eqn:E2; [apply N.eqb_eq in E2; contradiction|].
  rewrite Hv. destruct (v <=? max_int)%Z eqn:E; [reflexivity|]. apply Z.leb_gt in E. lia.
Qed.

(** ---------- well-formed responses, the abstract machine *)

Definition wf_resp (r : resp) : Prop :=
  match r with
  | RPresent oid typ ds c =>
      no_byte 10 oid /\ no_byte 10 typ /\ ds <> [] /\ all_digits ds /\
      digits_value ds 0 = Some (Z.of_nat (length c)) /\ (Z.of_nat (length c) <= max_int)%Z
  | RMissing oid => no_byte 10 oid
  | RExcluded oid => no_byte 10 oid
  end.

Definition info (r : resp) : next_result :=
  match r with
  | RPresent _ _ _ c => NEntry (Z.of_nat (length c))
  | RMissing _ => NMissing
  | RExcluded _ => NExcluded
  end.
Definition content_of (r : resp) : cbytes := match r with RPresent _ _ _ c => c | _ => [] end.
Definition content_after (r : resp) : option cbytes := match r with RPresent _ _ _ c => Some c | _ => None end.

(** abstract state: the not yet delivered part of the current blob (None: nothing pending) and the
    responses not yet announced *)
Definition astate := (option cbytes * list resp)%type.

Definition abs_next (a : astate) : astate * next_result :=
  match snd a with
  | [] => ((None, []), NEOF)
  | r :: rs => ((content_after r, rs), info r)
  end.

Definition abs_read (a : astate) (want avail : nat) : astate * (cbytes * read_code) :=
  match fst a with
  | None => (a, ([], REOF))
  | Some [] => ((None, snd a), ([], REOF))
  | Some u =>
      match Nat.min want (length u) with
      | 0 => (a, ([], RNil))
      | w => let got := Nat.min w avail in
             ((match skipn got u with [] => None | u' => Some u' end, snd a), (firstn got u, RNil))
      end
  end.

Definition abs_step (a : astate) (o : cop) : astate * cout :=
  match o with
  | ONext => let '(a', r) := abs_next a in (a', OutNext r)
  | ORead want avail => let '(a', (d, c)) := abs_read a want avail in (a', OutRead d c)
  end.

Fixpoint abs_run (a : astate) (ops : list cop) : list cout :=
  match ops with
  | [] => []
  | o :: r => let '(a', out) := abs_step a o in out :: abs_run a' r
  end.

Definition conc (a : astate) : creader :=
  match fst a with
  | Some u => {| cr_rest := u ++ 10%N :: encode (snd a); cr_pending := Z.of_nat (length u) + 1 |}
  | None => {| cr_rest := encode (snd a); cr_pending := 0 |}
  end.

Definition wf_ops (ops : list cop) : Prop :=
  Forall (fun o => match o with ORead _ avail => 1 <= avail | ONext => True end) ops.

(** ---------- Next *)

Lemma cf_next_from_rest : forall u rs,
  cf_next (conc (Some u, rs)) = cf_next (conc (None, rs)).
Proof.
  intros u rs. unfold cf_next, conc. cbn [fst snd cr_rest cr_pending].
  assert (H1 : (0 <? Z.of_nat (length u) + 1)%Z = true) by (apply Z.ltb_lt; lia). rewrite H1.
  assert (H2 : (Z.of_nat (length (u ++ 10%N :: encode rs)) <? Z.of_nat (length u) + 1)%Z = false).
  { apply Z.ltb_ge. rewrite app_length. cbn [length]. lia. }
  rewrite H2. replace (Z.to_nat (Z.of_nat (length u) + 1)) with (length u + 1) by lia.
  rewrite skipn_app. rewrite skipn_all2 by lia. replace (length u + 1 - length u) with 1 by lia. cbn [app skipn].
  change (0 <? 0)%Z with false. cbv iota. reflexivity.
Qed.

Lemma encode_cons : forall r rs, encode (r :: rs) = encode_resp r ++ encode rs.
Proof. reflexivity. Qed.

Lemma cf_next_none : forall rs,
  Forall wf_resp rs -> cf_next (conc (None, rs)) = (conc (fst (abs_next (None, rs))), snd (abs_next (None, rs))).
Proof.
  intros rs Hwf. change (conc (None, rs)) with {| cr_rest := encode rs; cr_pending := 0 |}.
  unfold cf_next. cbn [cr_rest cr_pending]. change (0 <? 0)%Z with false. cbv iota.
  destruct rs as [|r rs]; [reflexivity|].
  inversion Hwf as [|x l Hr Hrs]; subst. rewrite encode_cons. unfold abs_next. cbn [snd fst].
  destruct r as [oid typ ds c|oid|oid]; cbn [wf_resp] in Hr; cbn [encode_resp content_after info].
  - destruct Hr as (Ho & Ht & Hne & Hd & Hv & Hmax).
    set (header := oid ++ 32%N :: typ ++ 32%N :: ds).
    assert (E : (oid ++ 32%N :: typ ++ 32%N :: ds ++ 10%N :: c ++ [10%N]) ++ encode rs = header ++ 10%N :: (c ++ 10%N :: encode rs)).
    { unfold header. repeat (rewrite <- app_assoc; cbn [app]). reflexivity. }
    rewrite E. rewrite split_nl_app.
    2:{ unfold header. intro Hin. apply in_app_or in Hin. destruct Hin as [Hin|[Hin|Hin]]; [exact (Ho Hin)|discriminate|].
        apply in_app_or in Hin. destruct Hin as [Hin|[Hin|Hin]]; [exact (Ht Hin)|discriminate|].
        eapply all_digits_no_byte; [exact Hd| |exact Hin]. lia. }
    assert (Hlast : forall d, last header d = last ds d).
    { intro d. unfold header. replace (oid ++ 32%N :: typ ++ 32%N :: ds) with ((oid ++ 32%N :: typ ++ [32%N]) ++ ds) by (repeat (rewrite <- app_assoc; cbn [app]); reflexivity).
      apply last_app_nonempty. assumption. }
    assert (Hdl : is_digit (last ds 0%N) = true).
    { unfold all_digits in Hd. rewrite Forall_forall in Hd. apply Hd.
      destruct ds as [|d0 ds']; [contradiction|]. rewrite (app_removelast_last 0%N) at 2 by discriminate.
      apply in_or_app. right. left. reflexivity. }
    destruct (has_suffix s_missing header) eqn:Em.
    { apply (has_suffix_last _ _ 0%N) in Em; [|discriminate]. rewrite Hlast in Em. cbn in Em.
      destruct (digit_not_space _ Hdl) as (_ & _ & _ & _ & Hg & _). contradiction. }
    destruct (has_suffix s_excluded header) eqn:Ee.
    { apply (has_suffix_last _ _ 0%N) in Ee; [|discriminate]. rewrite Hlast in Ee. cbn in Ee.
      destruct (digit_not_space _ Hdl) as (_ & _ & _ & _ & _ & Hdd). contradiction. }
    unfold after_last_space, header.
    replace (oid ++ 32%N :: typ ++ 32%N :: ds) with ((oid ++ 32%N :: typ) ++ 32%N :: ds) by (rewrite <- app_assoc; reflexivity).
    rewrite after_last_space_aux_app by (eapply all_digits_no_byte; [exact Hd|lia]).
    rewrite (atoi_digits ds _ Hne Hd Hv Hmax). unfold conc. cbn [fst snd]. reflexivity.
  - replace ((oid ++ s_missing ++ [10%N]) ++ encode rs) with ((oid ++ s_missing) ++ 10%N :: encode rs) by (repeat (rewrite <- app_assoc; cbn [app]); reflexivity).
    rewrite split_nl_app.
    2:{ intro Hin. apply in_app_or in Hin. destruct Hin as [Hin|Hin]; [exact (Hr Hin)|]. cbn in Hin. intuition discriminate. }
    rewrite has_suffix_app. reflexivity.
  - replace ((oid ++ s_excluded ++ [10%N]) ++ encode rs) with ((oid ++ s_excluded) ++ 10%N :: encode rs) by (repeat (rewrite <- app_assoc; cbn [app]); reflexivity).
    rewrite split_nl_app.
    2:{ intro Hin. apply in_app_or in Hin. destruct Hin as [Hin|Hin]; [exact (Hr Hin)|]. cbn in Hin. intuition discriminate. }
    destruct (has_suffix s_missing (oid ++ s_excluded)) eqn:Em.
    { apply (has_suffix_last _ _ 0%N) in Em; [|discriminate]. rewrite last_app_nonempty in Em by discriminate. cbn in Em. discriminate. }
    rewrite has_suffix_app. reflexivity.
Qed.

Lemma cf_next_sim : forall a,
  Forall wf_resp (snd a) -> cf_next (conc a) = (conc (fst (abs_next a)), snd (abs_next a)).
Proof.
  intros [cur rs] Hwf. cbn [snd] in Hwf. destruct cur as [u|].
  - rewrite cf_next_from_rest. rewrite (cf_next_none rs Hwf). reflexivity.
  - apply cf_next_none. assumption.
Qed.

(** ---------- Read *)

Lemma cf_read_some : forall xu tail want avail,
  xu <> [] -> 1 <= avail ->
  cf_read {| cr_rest := xu ++ 10%N :: tail; cr_pending := Z.of_nat (length xu) + 1 |} want avail =
  match Nat.min want (length xu) with
  | 0 => ({| cr_rest := xu ++ 10%N :: tail; cr_pending := Z.of_nat (length xu) + 1 |}, ([], RNil))
  | w => let got := Nat.min w avail in
         (match skipn got xu with
          | [] => {| cr_rest := tail; cr_pending := 0 |}
          | u' => {| cr_rest := u' ++ 10%N :: tail; cr_pending := Z.of_nat (length u') + 1 |}
          end, (firstn got xu, RNil))
  end.
Proof.
  intros xu tail want avail Hne Hav. unfold cf_read. cbn [cr_rest cr_pending].
  assert (Hlen : 1 <= length xu) by (destruct xu; [contradiction|cbn; lia]).
  assert (H1 : (Z.of_nat (length xu) + 1 <=? 0)%Z = false) by (apply Z.leb_gt; lia). rewrite H1.
  assert (H2 : (Z.of_nat (length xu) + 1 - 1 <=? 0)%Z = false) by (apply Z.leb_gt; lia). rewrite H2.
  replace (Z.to_nat (Z.of_nat (length xu) + 1 - 1)) with (length xu) by lia.
  destruct (Nat.min want (length xu)) as [|w'] eqn:Ew; [reflexivity|].
  destruct (xu ++ 10%N :: tail) as [|z zs] eqn:Ez; [destruct xu; discriminate|]. rewrite <- Ez. clear z zs Ez.
  set (w := S w') in *.
  assert (Hw : w <= length xu) by (rewrite <- Ew; apply Nat.le_min_r).
  assert (Hgot : Nat.min w (Nat.min avail (length (xu ++ 10%N :: tail))) = Nat.min w avail).
  { rewrite app_length. cbn [length]. lia. }
  rewrite Hgot. cbv zeta. set (got := Nat.min w avail).
  assert (Hg : got <= length xu) by (unfold got; lia).
  rewrite firstn_app, skipn_app. replace (got - length xu) with 0 by lia. cbn [firstn skipn]. rewrite app_nil_r.
  pose proof (skipn_length got xu) as Hl.
  destruct (skipn got xu) as [|s ss] eqn:Es.
  - cbn [length] in Hl. assert (H3 : (Z.of_nat (length xu) + 1 - Z.of_nat got =? 1)%Z = true) by (apply Z.eqb_eq; lia). rewrite H3.
    cbn [app]. reflexivity.
  - assert (H3 : (Z.of_nat (length xu) + 1 - Z.of_nat got =? 1)%Z = false) by (apply Z.eqb_neq; cbn [length] in Hl; lia). rewrite H3.
    f_equal. f_equal. rewrite Hl. cbn [length]. lia.
Qed.

Lemma cf_read_sim : forall a want avail,
  1 <= avail ->
  cf_read (conc a) want avail = (conc (fst (abs_read a want avail)), snd (abs_read a want avail)).
Proof.
  intros [cur rs] want avail Hav. destruct cur as [u|]; [|reflexivity].
  destruct u as [|x u]; [reflexivity|].
  change (conc (Some (x :: u), rs)) with {| cr_rest := (x :: u) ++ 10%N :: encode rs; cr_pending := Z.of_nat (length (x :: u)) + 1 |}.
  rewrite cf_read_some by (try discriminate; assumption).
  unfold abs_read. cbn [fst snd].
  destruct (Nat.min want (length (x :: u))) as [|w]; [reflexivity|].
  cbv zeta. destruct (skipn (Nat.min (S w) avail) (x :: u)); reflexivity.
Qed.

Lemma abs_wf : forall a o, Forall wf_resp (snd a) -> Forall wf_resp (snd (fst (abs_step a o))).
Proof.
  intros [cur rs] o H. destruct o as [|want avail]; cbn.
  - destruct rs as [|r rs]; cbn; [constructor|]. inversion H; assumption.
  - unfold abs_read. cbn [fst snd]. destruct cur as [[|x u]|]; cbn; try assumption.
    destruct (Nat.min want (S (length u))); cbn; assumption.
Qed.

Lemma cf_step_sim : forall a o,
  Forall wf_resp (snd a) -> match o with ORead _ avail => 1 <= avail | ONext => True end ->
  cf_step (conc a) o = (conc (fst (abs_step a o)), snd (abs_step a o)).
Proof.
  intros a o Hwf Ho. destruct o as [|want avail]; cbn [cf_step abs_step].
  - rewrite (cf_next_sim a Hwf). destruct (abs_next a). reflexivity.
  - rewrite (cf_read_sim a want avail Ho). destruct (abs_read a want avail) as [a' [d c]]. reflexivity.
Qed.

(** the reader refines the abstract machine on every plan of calls *)
Theorem catfile_refines_from : forall ops a,
  Forall wf_resp (snd a) -> wf_ops ops -> cf_run (conc a) ops = abs_run a ops.
Proof.
  induction ops as [|o ops IH]; intros a Hwf Hops; [reflexivity|].
  inversion Hops as [|x l Ho Hl]; subst. cbn [cf_run abs_run].
  rewrite (cf_step_sim a o Hwf Ho). pose proof (abs_wf a o Hwf) as Hwf'.
  destruct (abs_step a o) as [a' out]. cbn [fst snd] in *. rewrite IH by assumption. reflexivity.
Qed.

Theorem catfile_stream_refines : forall rs ops,
  Forall wf_resp rs -> wf_ops ops -> cf_run (cf_init (encode rs)) ops = abs_run (None, rs) ops.
Proof. intros rs ops Hwf Hops. exact (catfile_refines_from ops (None, rs) Hwf Hops). Qed.

(** ---------- what a client sees: per announced entry, the bytes it received *)

Definition is_eof (c : read_code) : bool := match c with REOF => true | _ => false end.
Definition seg := (next_result * cbytes * bool)%type.

Fixpoint segs (outs : list cout) (cur : option seg) : list seg :=
  match outs with
  | [] => match cur with Some s => [s] | None => [] end
  | OutNext r :: t => (match cur with Some s => [s] | None => [] end) ++ segs t (Some (r, [], false))
  | OutRead d c :: t =>
      segs t (match cur with Some (r, acc, e) => Some (r, acc ++ d, e || is_eof c) | None => None end)
  end.

(** the i-th announced entry is the i-th response; what was read for it is a prefix of its content, the whole
    content once a Read returned EOF; after the last response only EOF is announced and nothing is read *)
Fixpoint segs_ok (rs : list resp) (ss : list seg) : Prop :=
  match ss with
  | [] => True
  | (r, d, e) :: ss' =>
      match rs with
      | [] => r = NEOF /\ d = [] /\ segs_ok [] ss'
      | x :: rs' => r = info x /\ (exists tl, content_of x = d ++ tl) /\ (e = true -> d = content_of x) /\ segs_ok rs' ss'
      end
  end.

Definition und (cur : option cbytes) : cbytes := match cur with Some u => u | None => [] end.

Lemma abs_segs_eof : forall ops e,
  segs_ok [] (segs (abs_run (None, []) ops) (Some (NEOF, [], e))).
Proof.
  induction ops as [|o ops IH]; intro e; cbn; [auto|].
  destruct o as [|want avail]; cbn.
  - split; [reflexivity|]. split; [reflexivity|]. apply IH.
  - apply IH.
Qed.

Lemma abs_segs_current : forall ops x cur rs acc e,
  acc ++ und cur = content_of x -> (e = true -> und cur = []) ->
  segs_ok (x :: rs) (segs (abs_run (cur, rs) ops) (Some (info x, acc, e))).
Proof.
  induction ops as [|o ops IH]; intros x cur rs acc e Hacc He.
  - cbn. split; [reflexivity|]. split; [exists (und cur); symmetry; exact Hacc|]. split; [|exact I].
    intro E. rewrite (He E), app_nil_r in Hacc. exact Hacc.
  - destruct o as [|want avail].
    + cbn [abs_run abs_step]. unfold abs_next. cbn [snd].
      destruct rs as [|y rs].
      * cbn [segs app segs_ok]. split; [reflexivity|]. split; [exists (und cur); symmetry; exact Hacc|].
        split; [intro E; rewrite (He E), app_nil_r in Hacc; exact Hacc|]. apply abs_segs_eof.
      * cbn [segs app segs_ok]. split; [reflexivity|]. split; [exists (und cur); symmetry; exact Hacc|].
        split; [intro E; rewrite (He E), app_nil_r in Hacc; exact Hacc|].
        apply IH; [|intro E; discriminate]. destruct y; reflexivity.
    + cbn [abs_run abs_step]. unfold abs_read. cbn [fst snd].
      destruct cur as [[|c u]|].
      * cbn [segs is_eof]. rewrite app_nil_r, orb_true_r. apply IH; [cbn [und] in *; rewrite app_nil_r in Hacc; rewrite app_nil_r; exact Hacc|reflexivity].
      * destruct (Nat.min want (length (c :: u))) as [|w] eqn:Ew.
        -- cbn [segs is_eof]. rewrite app_nil_r, orb_false_r. apply IH; assumption.
        -- cbn [segs is_eof]. rewrite orb_false_r. apply IH.
           ++ cbn [und] in Hacc. rewrite <- app_assoc.
              destruct (skipn (Nat.min (S w) avail) (c :: u)) eqn:Es; cbn [und];
                rewrite <- Es, firstn_skipn; exact Hacc.
           ++ intro E. specialize (He E). cbn [und] in He. discriminate.
      * cbn [segs is_eof]. rewrite app_nil_r, orb_true_r. apply IH; [exact Hacc|reflexivity].
Qed.

Lemma abs_segs_start : forall ops rs,
  segs_ok rs (segs (abs_run (None, rs) ops) None).
Proof.
  induction ops as [|o ops IH]; intro rs; [exact I|].
  destruct o as [|want avail].
  - cbn [abs_run abs_step]. unfold abs_next. cbn [snd]. destruct rs as [|x rs]; cbn [segs app].
    + apply abs_segs_eof.
    + apply abs_segs_current; [destruct x; reflexivity|intro E; discriminate].
  - cbn. apply IH.
Qed.

(** catfile_delivers: for EVERY plan of Next / Read(len) calls and every chunking of the pipe *)
Theorem catfile_delivers : forall rs ops,
  Forall wf_resp rs -> wf_ops ops ->
  segs_ok rs (segs (cf_run (cf_init (encode rs)) ops) None).
Proof. intros rs ops Hwf Hops. rewrite catfile_stream_refines by assumption. apply abs_segs_start. Qed.

(** ---------- io.ReadFull after Next: the whole blob, and the reader is positioned at the next header *)

Lemma read_full_spec : forall fuel u rs avail acc,
  (forall i, 1 <= avail i) -> u <> [] -> length u <= fuel ->
  read_full (conc (Some u, rs)) (length u) avail fuel acc = (conc (None, rs), Some (acc ++ u)).
Proof.
  induction fuel as [|fuel IH]; intros u rs avail acc Hav Hne Hfuel.
  - destruct u; [contradiction|cbn in Hfuel; lia].
  - change (conc (Some u, rs)) with {| cr_rest := u ++ 10%N :: encode rs; cr_pending := Z.of_nat (length u) + 1 |}.
    remember (length u) as n eqn:Hn. destruct n as [|k]; [destruct u; [contradiction|discriminate]|].
    cbn [read_full]. rewrite Hn. rewrite cf_read_some by (try assumption; apply Hav).
    rewrite Nat.min_id. rewrite <- Hn. cbv zeta. rewrite Hn.
    set (got := Nat.min (length u) (avail (S fuel))).
    assert (Hg1 : 1 <= got) by (unfold got; specialize (Hav (S fuel)); lia).
    assert (Hg2 : got <= length u) by (unfold got; lia).
    pose proof (skipn_length got u) as Hl.
    rewrite firstn_length. replace (Nat.min got (length u)) with got by lia.
    destruct (skipn got u) as [|s ss] eqn:Es.
    + cbn [length] in Hl. replace (length u - got) with 0 by lia.
      assert (Hfu : firstn got u = u) by (rewrite <- (firstn_skipn got u) at 2; rewrite Es, app_nil_r; reflexivity).
      rewrite Hfu. change (conc (None, rs)) with {| cr_rest := encode rs; cr_pending := 0 |}.
      destruct fuel; reflexivity.
    + change {| cr_rest := (s :: ss) ++ 10%N :: encode rs; cr_pending := Z.of_nat (length (s :: ss)) + 1 |} with (conc (Some (s :: ss), rs)).
      rewrite <- Hl. rewrite IH; [|assumption|discriminate|rewrite Hl; lia].
      f_equal. f_equal. rewrite <- app_assoc, <- Es, firstn_skipn. reflexivity.
Qed.

(** ---------- contentSlab: regions handed out never overlap, shared ones stay inside the slab *)

Definition disjoint (a b : region) : Prop :=
  rg_buf a <> rg_buf b \/ rg_off a + rg_len a <= rg_off b \/ rg_off b + rg_len b <= rg_off a.

Lemma slab_run_inv : forall ns s,
  sl_buf s < sl_next s -> sl_used s <= sl_cap s ->
  ForallOrdPairs disjoint (slab_run s ns) /\
  Forall (fun r => (rg_buf r = sl_buf s /\ sl_used s <= rg_off r) \/ sl_next s <= rg_buf r) (slab_run s ns) /\
  Forall (fun r => rg_shared r = true -> rg_off r + rg_len r <= sl_cap s) (slab_run s ns).
Proof.
  induction ns as [|n ns IH]; intros s Hb Hu; cbn [slab_run]; [repeat split; constructor|].
  unfold slab_alloc.
  destruct (sl_cap s <? n) eqn:E1; [|destruct (sl_cap s <? sl_used s + n) eqn:E2].
  - match goal with |- context [slab_run ?s' ns] => destruct (IH s') as (I1 & I2 & I3); cbn; try lia end.
    rewrite Forall_forall in I2. split; [|split].
    + constructor; [|exact I1]. apply Forall_forall. intros r Hr. specialize (I2 r Hr). cbn in I2. unfold disjoint. cbn. lia.
    + constructor; [cbn; lia|]. apply Forall_forall. intros r Hr. specialize (I2 r Hr). cbn in I2. lia.
    + constructor; [cbn; discriminate|exact I3].
  - apply Nat.ltb_ge in E1.
    match goal with |- context [slab_run ?s' ns] => destruct (IH s') as (I1 & I2 & I3); cbn; try lia end.
    rewrite Forall_forall in I2. split; [|split].
    + constructor; [|exact I1]. apply Forall_forall. intros r Hr. specialize (I2 r Hr). cbn in I2. unfold disjoint. cbn. lia.
    + constructor; [cbn; lia|]. apply Forall_forall. intros r Hr. specialize (I2 r Hr). cbn in I2. lia.
    + constructor; [cbn; lia|exact I3].
  - apply Nat.ltb_ge in E1. apply Nat.ltb_ge in E2.
    match goal with |- context [slab_run ?s' ns] => destruct (IH s') as (I1 & I2 & I3); cbn; try lia end.
    rewrite Forall_forall in I2. split; [|split].
    + constructor; [|exact I1]. apply Forall_forall. intros r Hr. specialize (I2 r Hr). cbn in I2. unfold disjoint. cbn. lia.
    + constructor; [cbn; lia|]. apply Forall_forall. intros r Hr. specialize (I2 r Hr). cbn in I2. lia.
    + constructor; [cbn; lia|exact I3].
Qed.

Theorem slab_disjoint : forall cap ns,
  ForallOrdPairs disjoint (slab_run (slab_new cap) ns) /\
  Forall (fun r => rg_shared r = true -> rg_off r + rg_len r <= cap) (slab_run (slab_new cap) ns).
Proof.
  intros cap ns. destruct (slab_run_inv ns (slab_new cap)) as (H1 & _ & H3); cbn; try lia. split; assumption.
Qed.

Lemma slab_run_lengths : forall ns s, map rg_len (slab_run s ns) = ns.
Proof.
  induction ns as [|n ns IH]; intro s; cbn [slab_run]; [reflexivity|].
  unfold slab_alloc. destruct (sl_cap s <? n); [|destruct (sl_cap s <? sl_used s + n)]; cbn; rewrite IH; reflexivity.
Qed.
